// Round 11 streams: breakage that arrives through shared helpers (Row, At, AddColumn, ColumnNames, Nrows, toFloat,
// the constructors), through swallowed errors, and through one of several entry points that should agree.
package main

import (
	"fmt"
	"math"
	"time"
)

func init() {
	extend("C06", gap11C06)
	extend("C07", gap11C07)
	extend("C08", gap11C08)
	extend("C09", gap11C09)
	extend("C17seq", gap11C17)
	extend("C17seq", gap8EmptyName("C17"))
	extend("C18", gap11C18)
	extend("C19", gap11C19)
	extend("C19", gap7MixedCase("C19"))
	extend("C19", gap8EmptyName("C19"))
	extend("C15", gap11C15)
	extend("C03", gap11C03)
	extend("C05", gap11C05)
}

// C06: integers beyond 2^53 with different digit counts (numeric order is not text order), letter codes and words that
// a lenient parser would read as numbers or truth values
func gap11C06(g *Gen, tier string, res *GenOutput) {
	t, fl := true, false
	wide := []int64{10000000000000000, 5, 9007199254740993, 95, -9007199254740993, -5, 1 << 62, 123456789, 9007199254740992, -(1 << 62), 0, 99999999999999999}
	for _, kind := range []string{"int", "int64"} {
		for _, n := range []int{len(wide), 40} {
			k := Col{Key: "k", Name: "k"}
			id := Col{Key: "id", Name: "id"}
			for i := 0; i < n; i++ {
				v := wide[i%len(wide)]
				if i >= len(wide) {
					v += int64(i) // no ties: the order is fully determined
				}
				k.Data = append(k.Data, IntCell(kind, v))
				id.Data = append(id.Data, IntCell("int", int64(i)))
			}
			ops := []Op{{K: "sort", F: 0, Strs: []BStr{"k"}, Asc: &t}, {K: "sort", F: 0, Strs: []BStr{"k"}, Asc: &fl}, {K: "sort", F: 0, Strs: []BStr{"k", "id"}}}
			res.Hists = append(res.Hists, RunHist("wide-integers-of-different-lengths "+kind, []Frame{mkFrame(k, id)}, ops))
			bump(res.Stats, "wide-integers-of-different-lengths")
		}
	}
	u := Col{Key: "k", Name: "k"}
	uid := Col{Key: "id", Name: "id"}
	for i, v := range []uint64{math.MaxUint64, 7, 1 << 63, 18446744073709551, 9007199254740993, 1<<63 + 1024, 12} {
		u.Data = append(u.Data, UintCell("uint64", v))
		uid.Data = append(uid.Data, IntCell("int", int64(i)))
	}
	res.Hists = append(res.Hists, RunHist("wide-integers-of-different-lengths uint64", []Frame{mkFrame(u, uid)},
		[]Op{{K: "sort", F: 0, Strs: []BStr{"k"}, Asc: &t}, {K: "sort", F: 0, Strs: []BStr{"k"}, Asc: &fl}}))
	bump(res.Stats, "wide-integers-of-different-lengths")
	// none of these reads as a number (the quantifier's text columns), all of them tempt a lenient parser
	words := [][]string{
		{"T", "f", "F", "t", "true", "TRUE", "false", "False", "x", "y"},
		{"10th", "2nd", "1st", "3rd", "7 pears", "7 apples", "100%", "45%", "1e", "0x", "12abc"},
		{"yes", "no", "Y", "N", "on", "off", "T", "F", "null", "nil", "nancy"},
		{"infant", "infinit", "in", "i", "nano", "1,5", "١٢", "½"},
	}
	for wi, ws := range words {
		for _, n := range []int{len(ws), 36} {
			k := Col{Key: "k", Name: "k"}
			id := Col{Key: "id", Name: "id"}
			for i := 0; i < n; i++ {
				w := ws[(i*7)%len(ws)]
				k.Data = append(k.Data, StrCell(w))
				id.Data = append(id.Data, IntCell("int", int64(n-i)))
			}
			ops := []Op{{K: "sort", F: 0, Strs: []BStr{"k", "id"}, Asc: &t}, {K: "sort", F: 0, Strs: []BStr{"k", "id"}, Asc: &fl}}
			res.Hists = append(res.Hists, RunHist(fmt.Sprintf("words-a-lenient-parser-would-read %d", wi), []Frame{mkFrame(k, id)}, ops))
			bump(res.Stats, "words-a-lenient-parser-would-read")
		}
	}
}

// C07: the names a frame is compared by change between two calls (rename, drop then add) while their number stays;
// text cells that differ only in outer blanks are different rows and come back as they were
func gap11C07(g *Gen, tier string, res *GenOutput) {
	f := mkFrame(intCol("a", 1, 1, 2, 2, 3), strCol("b", "x", "x", "y", "z", "x"), intCol("w", 5, 5, 6, 7, 5))
	ops := []Op{{K: "dedup", F: 0}, {K: "rename", F: 0, S1: "b", S2: "c"}, {K: "dedup", F: 0}, {K: "dedup", F: 0, HasOpt: true, Strs: []BStr{"a", "c"}, S1: "last"},
		{K: "dropcolumn", F: 0, S1: "w"}, {K: "addcolumn", F: 0, S1: "v", Cells: []Cell{IntCell("int", 0), IntCell("int", 0), IntCell("int", 1), IntCell("int", 1), IntCell("int", 0)}},
		{K: "dedup", F: 0, HasOpt: true, Strs: []BStr{"v"}, S1: "first"}, {K: "dedupinplace", F: 0, HasOpt: true, Strs: []BStr{"a"}, S1: "first"}, {K: "columnnames", F: 0}, {K: "nrows", F: 0}}
	res.Hists = append(res.Hists, RunHist("names-change-between-calls", []Frame{f}, ops))
	bump(res.Stats, "names-change-between-calls")
	b := mkFrame(strCol("s", "a", "a ", " a", "a", "\ta", "a\n", " ", "", " "), intCol("n", 1, 1, 1, 1, 1, 1, 2, 2, 2))
	ops = []Op{{K: "dedup", F: 0}, {K: "dedup", F: 0, HasOpt: true, Strs: []BStr{"s"}, S1: "last"}, {K: "dedup", F: 1}, {K: "dedup", F: 0, HasOpt: true, Strs: []BStr{}, S1: "none"},
		{K: "dedupinplace", F: 0, S1: "first"}, {K: "dedup", F: 0}}
	res.Hists = append(res.Hists, RunHist("text-with-outer-blanks", []Frame{b}, ops))
	bump(res.Stats, "text-with-outer-blanks")
}

// C08: columns that mix int and float64 cells (and ints a float64 cannot hold), through every selector that rebuilds
// rows one at a time
func gap11C08(g *Gen, tier string, res *GenOutput) {
	m := Col{Key: "m", Name: "m", Data: []Cell{F64Cell(1.5), IntCell("int", 2), IntCell("int", 3), F64Cell(4.25), IntCell("int", 9007199254740993), NilCell(), IntCell("int", 7), F64Cell(math.Copysign(0, -1)), IntCell("int", 0)}}
	w := Col{Key: "w", Name: "w", Data: []Cell{IntCell("int64", 1), F64Cell(0.5), IntCell("int32", 2), F32Cell(2.5), IntCell("int", 3), UintCell("uint8", 4), F64Cell(5), StrCell("6"), BoolCell(true)}}
	f := mkFrame(m, w)
	all := make([]bool, 9)
	for i := range all {
		all[i] = true
	}
	ops := []Op{{K: "rowslice", F: 0, A: 0, B: 9}, {K: "rowslice", F: 0, A: 1, B: 5}, {K: "filter", F: 0, Keep: all}, {K: "filter", F: 0, Keep: all, Alt: true}, {K: "head", F: 0, N: 9}, {K: "tail", F: 0, N: 8},
		{K: "iloc", F: 0, Ints: []int64{0, 1, 2, 3, 4, 6}, Ints2: []int64{0, 1}}, {K: "multiselect", F: 0, Strs: []BStr{"m"}}, {K: "row", F: 0, N: 4}, {K: "colat", F: 0, S1: "m", N: 4}}
	res.Hists = append(res.Hists, RunHist("mixed-int-and-float-cells", []Frame{f}, ops))
	bump(res.Stats, "mixed-int-and-float-cells")
}

// C09: a caller that keeps one loader object for every file it reads, and exports to the same path again
func gap11C09(g *Gen, tier string, res *GenOutput) {
	a := mkFrame(strCol("name", "ann", "bob", "cy"), intCol("n", 1, 2, 3))
	b := mkFrame(strCol("name", "dee", "eve"), strCol("city", "Oslo", "Rome"), intCol("n", 7, 8))
	c := mkFrame(intCol("only", 5, 6, 7, 8, 9))
	ops := []Op{}
	for _, fi := range []int{0, 1, 2, 0, 1} {
		ops = append(ops, Op{K: "csvroundtrip", F: fi, ViaFile: true, Alt: true})
	}
	ops = append(ops, Op{K: "csvroundtrip", F: 2, ViaFile: true}, Op{K: "csvroundtrip", F: 0, ViaFile: true, Alt: true})
	res.Hists = append(res.Hists, RunHist("one-loader-for-every-file", []Frame{a, b, c}, ops))
	bump(res.Stats, "one-loader-for-every-file")
}

// C17: cells that are times in other zones than UTC (the function must see the cell that is stored), through both axes
func gap11C17(g *Gen, tier string, res *GenOutput) {
	one, zero := []int64{1}, []int64{0}
	ist := time.FixedZone("IST", 5*3600+1800)
	west := time.FixedZone("", -3*3600-1800)
	tm := Col{Key: "t", Name: "t", Data: []Cell{TimeCell(time.Date(2024, 3, 1, 23, 30, 0, 0, ist)), TimeCell(time.Date(2024, 3, 1, 0, 10, 0, 5, west)), TimeCell(time.Date(2024, 12, 31, 23, 59, 59, 0, time.UTC)),
		TimeCell(time.Date(1999, 1, 1, 1, 0, 0, 0, ist)), NilCell()}}
	f := mkFrame(tm, intCol("n", 1, 2, 3, 4, 5))
	ops := []Op{{K: "apply", F: 0, Fn: 0, Axis: &one}, {K: "apply", F: 0, Fn: 1, Axis: &one}, {K: "apply", F: 0, Fn: 0, Axis: &zero}, {K: "apply", F: 0, Fn: 3, Axis: &one}, {K: "row", F: 0, N: 0}}
	res.Hists = append(res.Hists, RunHist("times-in-other-zones", []Frame{f}, ops))
	bump(res.Stats, "times-in-other-zones")
}

// C18: the frame is looked at (a row, a resample that is refused) before its time column is made, and cells are
// rewritten in place between two resamples
func gap11C18(g *Gen, tier string, res *GenOutput) {
	d := strCol("d", "2024-01-01", "2024-01-01", "2024-01-02", "2024-02-01", "2024-02-01")
	v := Col{Key: "v", Name: "v", Data: []Cell{IntCell("int", 1), NilCell(), IntCell("int", 3), NilCell(), NilCell()}}
	f := mkFrame(d, v)
	zeroFill := IntCell("int", 0)
	ops := []Op{{K: "row", F: 0, N: 1}, {K: "resample", F: 0, S1: "d", S2: "D", Fn: 0}, {K: "datetime", F: 0, S1: "d", S2: "2006-01-02"}, {K: "resample", F: 0, S1: "d", S2: "D", Fn: 0}, {K: "resample", F: 0, S1: "d", S2: "M", Fn: 4},
		{K: "fillna", F: 0, Cell: &zeroFill}, {K: "resample", F: 0, S1: "d", S2: "M", Fn: 4}, {K: "setcell", F: 0, S1: "v", N: 0, Cell: cellp(IntCell("int", 100))}, {K: "resample", F: 0, S1: "d", S2: "D", Fn: 1},
		{K: "astype", F: 0, S1: "v", S2: "float64"}, {K: "resample", F: 0, S1: "d", S2: "Y", Fn: 3}}
	res.Hists = append(res.Hists, RunHist("looked-at-then-rewritten-in-place", []Frame{f}, ops))
	bump(res.Stats, "looked-at-then-rewritten-in-place")
	// times in zones whose offset is not a whole hour, with nils in whole buckets
	ist := time.FixedZone("IST", 5*3600+1800)
	tc := Col{Key: "t", Name: "t"}
	vc := Col{Key: "v", Name: "v"}
	for i := 0; i < 9; i++ {
		tc.Data = append(tc.Data, TimeCell(time.Date(2024, 2, 29, 22, 10*i, 0, 0, ist).Add(time.Duration(i)*7*time.Hour)))
		if i >= 3 && i < 6 {
			vc.Data = append(vc.Data, NilCell())
		} else {
			vc.Data = append(vc.Data, IntCell("int", int64(i)))
		}
	}
	ops = []Op{}
	for _, fr := range []string{"Y", "M", "D", "H", "T"} {
		ops = append(ops, Op{K: "resample", F: 0, S1: "t", S2: BStr(fr), Fn: 4}, Op{K: "resample", F: 0, S1: "t", S2: BStr(fr), Fn: 0})
	}
	res.Hists = append(res.Hists, RunHist("half-hour-zone-with-empty-buckets", []Frame{mkFrame(tc, vc)}, ops))
	bump(res.Stats, "half-hour-zone-with-empty-buckets")
}

// C19: the frame's size is asked for while it is empty, then it gets its columns; columns are replaced by longer and
// shorter ones; then it is shifted
func gap11C19(g *Gen, tier string, res *GenOutput) {
	three := []Cell{IntCell("int", 1), IntCell("int", 2), IntCell("int", 3)}
	five := []Cell{StrCell("a"), StrCell("b"), StrCell("c"), StrCell("d"), StrCell("e")}
	ops := []Op{{K: "shift", F: 0, N: 1}, {K: "nrows", F: 0}, {K: "addcolumn", F: 0, S1: "x", Cells: three}, {K: "addcolumn", F: 0, S1: "y", Cells: three}, {K: "shift", F: 0, N: 1}, {K: "shift", F: 0, N: -1}, {K: "shift", F: 0, N: 0},
		{K: "dropcolumn", F: 0, S1: "x"}, {K: "dropcolumn", F: 0, S1: "y"}, {K: "addcolumn", F: 0, S1: "z", Cells: five}, {K: "nrows", F: 0}, {K: "shift", F: 0, N: 2}, {K: "shift", F: 0, N: -4}}
	res.Hists = append(res.Hists, RunHist("sized-while-empty-then-filled", []Frame{mkFrame()}, ops))
	bump(res.Stats, "sized-while-empty-then-filled")
	f := mkFrame(intCol("x", 1, 2, 3, 4, 5, 6))
	ops = []Op{{K: "nrows", F: 0}, {K: "shift", F: 0, N: 1}, {K: "dropcolumn", F: 0, S1: "x"}, {K: "addcolumn", F: 0, S1: "x", Cells: three}, {K: "shift", F: 0, N: 1}, {K: "shift", F: 0, N: -2}, {K: "nrows", F: 0}}
	res.Hists = append(res.Hists, RunHist("sized-then-columns-replaced", []Frame{f}, ops))
	bump(res.Stats, "sized-then-columns-replaced")
}

// C15: NaN is a value, the empty string is text that is not a date, and a float renders as Go renders it
func gap11C15(g *Gen, tier string, res *GenOutput) {
	nan := F64Cell(math.NaN())
	a := Col{Key: "a", Name: "a", Data: []Cell{F64Cell(1), nan, F64Cell(3), nan}}
	b := Col{Key: "b", Name: "b", Data: []Cell{StrCell("p"), StrCell("q"), StrCell("r"), StrCell("s")}}
	ops := []Op{{K: "dropna", F: 0}, {K: "nrows", F: 0}, {K: "fillna", F: 0, Cell: &nan}, {K: "dropna", F: 0}, {K: "row", F: 0, N: 1}, {K: "dropna", F: 0}}
	res.Hists = append(res.Hists, RunHist("nan-is-not-missing", []Frame{mkFrame(a, b)}, ops))
	bump(res.Stats, "nan-is-not-missing")
	for _, cells := range [][]string{{"2024-01-01", "", "2024-01-03"}, {"", "2024-01-01"}, {"2024-01-01", " "}, {""}} {
		d := Col{Key: "d", Name: "d"}
		for _, s := range cells {
			d.Data = append(d.Data, StrCell(s))
		}
		ops := []Op{{K: "datetime", F: 0, S1: "d", S2: "2006-01-02"}, {K: "row", F: 0, N: 0}, {K: "datetime", F: 0, S1: "d", S2: "2006-01-02 15:04:05"}}
		res.Hists = append(res.Hists, RunHist("empty-text-is-not-a-date", []Frame{mkFrame(d)}, ops))
		bump(res.Stats, "empty-text-is-not-a-date")
	}
	fcol := Col{Key: "f", Name: "f", Data: []Cell{F64Cell(1500000), F64Cell(0.00005), F64Cell(1e21), F64Cell(123456.5), F64Cell(1e-4), F64Cell(999999.9999), F64Cell(1e6), F64Cell(-2.5e-7), F64Cell(1 << 61)}}
	res.Hists = append(res.Hists, RunHist("float-text-as-go-prints-it", []Frame{mkFrame(fcol)}, []Op{{K: "astype", F: 0, S1: "f", S2: "string"}, {K: "tocsv", F: 0}, {K: "string", F: 0}}))
	bump(res.Stats, "float-text-as-go-prints-it")
}

// C03: a frame whose rows were read once (a join, a row) is edited in place and joined again; "" and nil are different keys
func gap11C03(g *Gen, tier string, res *GenOutput) {
	zero := IntCell("int", 0)
	l := mkFrame(Col{Key: "k", Name: "k", Data: []Cell{IntCell("int", 1), NilCell(), IntCell("int", 3)}}, strCol("lv", "a", "b", "c"))
	r := mkFrame(Col{Key: "k", Name: "k", Data: []Cell{IntCell("int", 0), IntCell("int", 3), NilCell()}}, strCol("rv", "x", "y", "z"))
	ops := []Op{}
	for _, jk := range []string{"inner", "left", "right", "outer"} {
		ops = append(ops, Op{K: "join", F: 0, G: 1, JK: jk, S1: "k"})
	}
	ops = append(ops, Op{K: "fillna", F: 0, Cell: &zero})
	for _, jk := range []string{"inner", "left", "right", "outer"} {
		ops = append(ops, Op{K: "join", F: 0, G: 1, JK: jk, S1: "k"})
	}
	ops = append(ops, Op{K: "astype", F: 1, S1: "rv", S2: "string"}, Op{K: "setcell", F: 1, S1: "k", N: 0, Cell: cellp(IntCell("int", 1))})
	for _, jk := range []string{"inner", "left", "right", "outer"} {
		ops = append(ops, Op{K: "join", F: 0, G: 1, JK: jk, S1: "k"})
	}
	res.Hists = append(res.Hists, RunHist("joined-edited-in-place-joined-again", []Frame{l, r}, ops))
	bump(res.Stats, "joined-edited-in-place-joined-again")
	le := mkFrame(Col{Key: "k", Name: "k", Data: []Cell{StrCell(""), NilCell(), StrCell("a"), StrCell(" ")}}, intCol("lv", 1, 2, 3, 4))
	re := mkFrame(Col{Key: "k", Name: "k", Data: []Cell{NilCell(), StrCell(""), StrCell("a"), StrCell("0")}}, strCol("rv", "", "x", "", "y"))
	ops = []Op{}
	for _, jk := range []string{"inner", "left", "right", "outer"} {
		ops = append(ops, Op{K: "join", F: 0, G: 1, JK: jk, S1: "k"}, Op{K: "join", F: 1, G: 0, JK: jk, S1: "k"})
	}
	res.Hists = append(res.Hists, RunHist("empty-text-keys-and-nil-keys", []Frame{le, re}, ops))
	bump(res.Stats, "empty-text-keys-and-nil-keys")
}

// C05: grouped, edited in place (shape unchanged), grouped again by the same key; unsigned cells beyond int64;
// key lists with nil parts
func gap11C05(g *Gen, tier string, res *GenOutput) {
	one := IntCell("int", 1)
	f := mkFrame(Col{Key: "k", Name: "k", Data: []Cell{StrCell("a"), StrCell("b"), StrCell("a"), NilCell()}}, Col{Key: "v", Name: "v", Data: []Cell{IntCell("int", 1), NilCell(), IntCell("int", 3), IntCell("int", 5)}})
	ops := []Op{{K: "groupagg", F: 0, S1: "k", Agg: "sum", Cols: []BStr{"v"}}, {K: "fillna", F: 0, Cell: &one}, {K: "groupagg", F: 0, S1: "k", Agg: "sum", Cols: []BStr{"v"}}, {K: "groupagg", F: 0, S1: "k", Agg: "count", Cols: []BStr{"v"}},
		{K: "setcell", F: 0, S1: "k", N: 1, Cell: cellp(StrCell("a"))}, {K: "groupagg", F: 0, S1: "k", Agg: "mean", Cols: []BStr{"v"}}, {K: "astype", F: 0, S1: "v", S2: "float64"}, {K: "groupagg", F: 0, S1: "k", Agg: "sum", Cols: []BStr{"v"}},
		{K: "groupby", F: 0, S1: "k"}, {K: "agg", F: 0, Agg: "sum"}}
	res.Hists = append(res.Hists, RunHist("grouped-edited-in-place-grouped-again", []Frame{f}, ops))
	bump(res.Stats, "grouped-edited-in-place-grouped-again")
	u := mkFrame(strCol("k", "a", "a", "b", "b"), Col{Key: "v", Name: "v", Data: []Cell{UintCell("uint64", math.MaxUint64), UintCell("uint64", 1<<63), UintCell("uint", 1<<63+5), UintCell("uint64", 3)}})
	ops = []Op{{K: "groupagg", F: 0, S1: "k", Agg: "sum", Cols: []BStr{"v"}}, {K: "groupagg", F: 0, S1: "k", Agg: "mean", Cols: []BStr{"v"}}, {K: "groupagg", F: 0, GList: true, Strs: []BStr{"k"}, Agg: "sum", Cols: []BStr{"v"}}, {K: "agg", F: 0, Agg: "sum"}}
	res.Hists = append(res.Hists, RunHist("unsigned-beyond-int64-in-groups", []Frame{u}, ops))
	bump(res.Stats, "unsigned-beyond-int64-in-groups")
}
