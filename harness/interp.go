package main

// The interpreter: runs one operation of the shared operation language on the real
// goframe library (public API only), under recover, and observes the result.

import (
	"bufio"
	"bytes"
	"encoding/csv"
	"fmt"
	"io"
	"math"
	"os"
	"reflect"
	"sort"
	"strconv"
	"strings"
	"sync"
	"testing/iotest"
	"time"

	goframe "github.com/kishyassin/goframe"
	"github.com/kishyassin/goframe/dataframe"
)

// viaRoot: the root package goframe re-exports the constructors and readers as thin wrappers; a third of
// the calls that have a wrapper go through it (chosen from the operation's own content, so that a replay of
// one history takes the same path)
func viaRoot(o Op) bool { return (len(o.Bytes)+len(o.Cells)+len(o.S1)+int(o.N%7+7))%3 == 0 }

type Runner struct {
	pool   []*dataframe.DataFrame
	gdf    *dataframe.GroupedDataFrame // the grouped object of the latest groupby/groupagg step
	gdfKey string
	// when set, row-wise Apply runs with its completion order forced: pick chooses among the waiting rows
	pick     func(waiting []int, k int) int
	realised []int
	csvDir   string
	loader   *dataframe.DataFrame // the receiver a caller keeps for all its FromCSV calls (Alt round trips)
	pf       map[string]bool      // strings whose ParseFloat result the model may ask for
	tp       map[[2]string]bool
}

func NewRunner(frames []Frame) *Runner {
	r := &Runner{pf: map[string]bool{}, tp: map[[2]string]bool{}}
	for _, f := range frames {
		r.pool = append(r.pool, Build(f))
	}
	return r
}

func (r *Runner) snapshot() ([]Frame, []int64) {
	fs := make([]Frame, len(r.pool))
	ns := make([]int64, len(r.pool))
	for i, df := range r.pool {
		fs[i] = Snapshot(df)
		ns[i] = int64(df.Nrows())
	}
	return fs, ns
}

func strsOf(bs []BStr) []string {
	out := make([]string, len(bs))
	for i, b := range bs {
		out[i] = string(b)
	}
	return out
}

// the Apply menu (mirrors apply_fn in Ops.v)
func applyFn(id int) dataframe.FuncType {
	return func(x []any) any {
		switch id {
		case 0:
			return append([]any{}, x...)
		case 1:
			out := make([]any, len(x))
			for i, v := range x {
				out[len(x)-1-i] = v
			}
			return out
		case 2:
			return "k"
		case 3:
			n := 0
			for _, v := range x {
				if v != nil {
					n++
				}
			}
			return n
		case 4:
			out := make([]int, len(x))
			for i := range x {
				out[i] = i
			}
			return out
		case 5:
			out := make([]string, len(x))
			for i, v := range x {
				if v != nil {
					out[i] = "k"
				}
			}
			return out
		case 6:
			out := make([]bool, len(x))
			for i, v := range x {
				out[i] = v == nil
			}
			return out
		case 7:
			return nil
		case 9:
			return x // hands back its own argument slice
		case 10:
			return append([]any{}, x[:len(x)/2]...) // a shorter slice
		case 11:
			return append(append([]any{}, x...), "k") // a longer slice
		case 12:
			out := make([]int, len(x)/2) // a shorter []int
			for i := range out {
				out[i] = i
			}
			return out
		case 15:
			// appends to its argument - into spare capacity, if the slice it was given has any - and returns the
			// cells it was given; the argument's visible cells are not touched
			y := append(x, "k")
			return append([]any{}, y[:len(x)]...)
		case 14:
			// a single value for a row (column) that starts with nil, the reversed cells otherwise
			if len(x) > 0 && x[0] == nil {
				return "k"
			}
			out := make([]any, len(x))
			for i, v := range x {
				out[len(x)-1-i] = v
			}
			return out
		case 13:
			out := make([]string, len(x)+1) // a longer []string
			for i := range out {
				out[i] = "k"
			}
			return out
		default:
			out := make([]any, len(x))
			for i, v := range x {
				if _, ok := v.(string); ok {
					out[i] = nil
				} else {
					out[i] = v
				}
			}
			return out
		}
	}
}

// the Resample aggregator menu (mirrors resample_fn in Ops.v)
func resampleFn(id int) func([]any) any {
	return func(x []any) any {
		switch id {
		case 0:
			return len(x)
		case 1:
			if len(x) == 0 {
				return nil
			}
			return x[0]
		case 2:
			if len(x) == 0 {
				return nil
			}
			return x[len(x)-1]
		case 5:
			// scribbles on its argument (reverses it in place) and returns the new first cell: the slice is the
			// function's own, so this must not show anywhere else
			for i, j := 0, len(x)-1; i < j; i, j = i+1, j-1 {
				x[i], x[j] = x[j], x[i]
			}
			if len(x) == 0 {
				return nil
			}
			return x[0]
		case 4:
			// identity: the cell of the result IS the slice the library passed in (a library that reuses that
			// slice for the next bucket changes this cell); it is recorded through its %v text
			return x
		default:
			s := 0
			for _, v := range x {
				switch n := v.(type) {
				case int:
					s += n
				case int64:
					s += int(n)
				case int32:
					s += int(n)
				}
			}
			return s
		}
	}
}

// csvPath: one file per history, reused by every file-variant step of it (a second export to the same path
// must replace the first); removed by cleanup
func (r *Runner) csvPath() (string, func()) {
	if r.csvDir == "" {
		dir, err := os.MkdirTemp("", "verifcsv")
		if err != nil {
			panic(err)
		}
		r.csvDir = dir
	}
	return r.csvDir + "/frame.csv", func() {}
}

func (r *Runner) cleanup() {
	if r.csvDir != "" {
		os.RemoveAll(r.csvDir)
		r.csvDir = ""
	}
}

func okFrame(df *dataframe.DataFrame) Out {
	f := Snapshot(df)
	return Out{Status: "ok", Val: &Val{K: "frame", Frame: &f}}
}
func errOut(err error) Out { return Out{Status: "err", Msg: err.Error()} }

func (r *Runner) noteCSVFields(b []byte) {
	rd := csv.NewReader(bytes.NewReader(b))
	for {
		rec, err := rd.Read()
		if err == io.EOF {
			return
		}
		if err != nil && rec == nil {
			return
		}
		for _, f := range rec {
			r.pf[strings.TrimSpace(f)] = true
		}
		if err != nil {
			return
		}
	}
}

// Exec runs one operation.  New frames are appended to the pool.
func (r *Runner) Exec(o Op) (out Out) {
	defer func() {
		if e := recover(); e != nil {
			out = Out{Status: "panic", Msg: fmt.Sprint(e)}
		}
	}()
	if o.F < 0 || o.F >= len(r.pool) {
		if o.K != "fromcsv" {
			return Out{Status: "err", Msg: "no such frame"}
		}
	}
	var df *dataframe.DataFrame
	if o.K != "fromcsv" {
		df = r.pool[o.F]
	}
	derive := func(res *dataframe.DataFrame, err error) Out {
		if err != nil {
			return errOut(err)
		}
		if res == nil {
			return Out{Status: "err", Msg: "nil frame without error"}
		}
		r.pool = append(r.pool, res)
		return okFrame(res)
	}
	edit := func(err error) Out {
		if err != nil {
			return errOut(err)
		}
		return Out{Status: "ok", Val: &Val{K: "none"}}
	}
	switch o.K {
	case "head":
		return derive(df.Head(int(o.N)), nil)
	case "tail":
		return derive(df.Tail(int(o.N)), nil)
	case "rowslice":
		return derive(df.RowSlice(int(o.A), int(o.B)), nil)
	case "filter":
		calls := 0
		seen := [][]KV{}
		pred := func(row map[string]any) bool {
			seen = append(seen, rowToKVs(row))
			k := calls
			calls++
			return k < len(o.Keep) && o.Keep[k]
		}
		var res *dataframe.DataFrame
		if o.Alt {
			res = df.BooleanIndex(pred)
		} else {
			res = df.Filter(pred)
		}
		r.pool = append(r.pool, res)
		f := Snapshot(res)
		return Out{Status: "ok", Val: &Val{K: "filter", Frame: &f, Seen: seen}}
	case "loc":
		labels := make([]any, len(o.Cells))
		for i, c := range o.Cells {
			labels[i] = c.ToAny()
		}
		given := append([]any{}, labels...)
		names := strsOf(o.Strs)
		givenNames := append([]string{}, names...)
		res, err := df.Loc(labels, names)
		for i := range given {
			if cellsKey([]any{given[i]}) != cellsKey([]any{labels[i]}) {
				return Out{Status: "panic", Msg: "Loc wrote into the label slice it was given"}
			}
		}
		for i := range givenNames {
			if givenNames[i] != names[i] {
				return Out{Status: "panic", Msg: "Loc wrote into the column-name slice it was given"}
			}
		}
		return derive(res, err)
	case "iloc":
		rows := make([]int, len(o.Ints))
		for i, v := range o.Ints {
			rows[i] = int(v)
		}
		cols := make([]int, len(o.Ints2))
		for i, v := range o.Ints2 {
			cols[i] = int(v)
		}
		return derive(df.Iloc(rows, cols))
	case "multiselect":
		return derive(df.MultiSelect(strsOf(o.Strs)...))
	case "sort":
		if o.Asc != nil {
			if len(o.Keep) > 0 {
				// further variadic flags after the first one are ignored by SortValues
				return derive(df.SortValues(strsOf(o.Strs), append([]bool{*o.Asc}, o.Keep...)...))
			}
			return derive(df.SortValues(strsOf(o.Strs), *o.Asc))
		}
		return derive(df.SortValues(strsOf(o.Strs)))
	case "shift":
		return derive(df.Shift(int(o.N)), nil)
	case "dedup":
		if !o.HasOpt {
			return derive(df.DropDuplicates())
		}
		return derive(df.DropDuplicates(dataframe.DropDuplicatesOption{Subset: strsOf(o.Strs), Keep: string(o.S1)}))
	case "dedupinplace":
		res, err := df.DropDuplicates(dataframe.DropDuplicatesOption{Subset: strsOf(o.Strs), Keep: string(o.S1), Inplace: true})
		if err == nil && res != df {
			return Out{Status: "err", Msg: "inplace DropDuplicates returned another frame"}
		}
		return edit(err)
	case "join":
		if o.G < 0 || o.G >= len(r.pool) {
			return Out{Status: "err", Msg: "no such frame"}
		}
		other := r.pool[o.G]
		switch o.JK {
		case "inner":
			return derive(df.InnerJoin(other, string(o.S1)))
		case "left":
			return derive(df.LeftJoin(other, string(o.S1)))
		case "right":
			return derive(df.RightJoin(other, string(o.S1)))
		default:
			return derive(df.OuterJoin(other, string(o.S1)))
		}
	case "add":
		if o.G < 0 || o.G >= len(r.pool) {
			return Out{Status: "err", Msg: "no such frame"}
		}
		other := r.pool[o.G]
		if o.Fill != nil {
			return derive(df.Add(other, o.Fill.ToAny()))
		}
		return derive(df.Add(other))
	case "apply":
		var res any
		var err error
		// Apply prints its timing on stdout; silence it
		devnull, _ := os.OpenFile(os.DevNull, os.O_WRONLY, 0)
		saved := os.Stdout
		os.Stdout = devnull
		rowWise := o.Axis != nil && len(*o.Axis) > 0 && (*o.Axis)[0] != 0
		expect := callsExpected(df, rowWise)
		var callMu sync.Mutex
		seen := []string{}
		base := applyFn(o.Fn)
		counted := func(x []any) any {
			callMu.Lock()
			seen = append(seen, cellsKey(x))
			callMu.Unlock()
			return base(x)
		}
		applyFn := func(int) dataframe.FuncType { return counted }
		func() {
			defer func() { os.Stdout = saved; devnull.Close() }()
			if o.Axis == nil {
				res, err = df.Apply(applyFn(o.Fn))
			} else if r.pick != nil && len(*o.Axis) > 0 && (*o.Axis)[0] != 0 {
				ax := make([]int, len(*o.Axis))
				for i, v := range *o.Axis {
					ax[i] = int(v)
				}
				r.realised = runScheduled(df.Nrows(), r.pick, func() { res, err = df.Apply(applyFn(o.Fn), ax...) })
			} else {
				ax := make([]int, len(*o.Axis))
				for i, v := range *o.Axis {
					ax[i] = int(v)
				}
				res, err = df.Apply(applyFn(o.Fn), ax...)
			}
		}()
		if err != nil {
			return errOut(err)
		}
		rdf, ok := res.(*dataframe.DataFrame)
		if !ok {
			return Out{Status: "err", Msg: "Apply returned a non-frame"}
		}
		// the function must have been called exactly once per row (per column), with that row's (column's) cells
		sort.Strings(seen)
		if strings.Join(seen, "\x00") != strings.Join(expect, "\x00") {
			r.pool = append(r.pool, rdf)
			return Out{Status: "panic", Msg: fmt.Sprintf("Apply called the function %d times, expected %d calls (once per row or column with its cells)", len(seen), len(expect))}
		}
		return derive(rdf, nil)
	case "string", "select", "colat", "series", "plot", "groupbyother", "iofail":
		return r.execView(o, df)
	case "describe":
		return derive(df.Describe())
	case "resample":
		return derive(df.Resample(string(o.S1), string(o.S2), resampleFn(o.Fn)))
	case "groupby", "groupagg":
		var g *dataframe.GroupedDataFrame
		gkey := fmt.Sprintf("%d|%v|%q|%q", o.F, o.GList, o.S1, o.Strs)
		if o.Reuse && r.gdf != nil && r.gdfKey == gkey {
			g = r.gdf
		} else if o.GList {
			g = df.Groupby(strsOf(o.Strs))
		} else {
			g = df.Groupby(string(o.S1))
		}
		r.gdf, r.gdfKey = g, gkey
		if o.K == "groupby" {
			if g.Error() != nil {
				return errOut(g.Error())
			}
			v := &Val{K: "groups", Groups: []GroupObs{}}
			if len(g.KeyOrder) != len(g.Groups) {
				return Out{Status: "ok", Val: &Val{K: "strs", Strs: []BStr{"KeyOrder and Groups disagree in size"}}}
			}
			for _, k := range g.KeyOrder {
				rows, present := g.Groups[k]
				if !present {
					return Out{Status: "ok", Val: &Val{K: "strs", Strs: []BStr{"KeyOrder names an absent group"}}}
				}
				go_ := GroupObs{Key: FromAny(k), Rows: [][]KV{}}
				for _, row := range rows {
					go_.Rows = append(go_.Rows, rowToKVs(row))
				}
				v.Groups = append(v.Groups, go_)
			}
			return Out{Status: "ok", Val: v}
		}
		switch o.Agg {
		case "sum":
			return derive(g.Sum(strsOf(o.Cols)...))
		case "mean":
			return derive(g.Mean(strsOf(o.Cols)...))
		default:
			return derive(g.Count(strsOf(o.Cols)...))
		}
	case "fromcsv":
		r.noteCSVFields([]byte(o.Bytes))
		if o.ViaFile {
			path, cleanup := r.csvPath()
			defer cleanup()
			if err := os.WriteFile(path, []byte(o.Bytes), 0o600); err != nil {
				panic(err)
			}
			if o.Alt && o.F >= 0 && o.F < len(r.pool) {
				// the method form: any frame can be the receiver; it must stay as it was (the result is returned)
				res, err := r.pool[o.F].FromCSV(path)
				if err == nil && res == r.pool[o.F] {
					return Out{Status: "panic", Msg: "FromCSV returned its receiver instead of a new frame"}
				}
				return derive(res, err)
			}
			return derive(dataframe.NewDataFrame().FromCSV(path))
		}
		if viaRoot(o) {
			return derive(goframe.FromCSVReader(csvSource(o)))
		}
		return derive(dataframe.FromCSVReader(csvSource(o)))
	case "tocsv", "csvroundtrip":
		var buf bytes.Buffer
		if o.ViaFile {
			path, cleanup := r.csvPath()
			defer cleanup()
			if err := df.ToCSV(path); err != nil {
				return errOut(err)
			}
			data, err := os.ReadFile(path)
			if err != nil {
				return Out{Status: "err", Msg: "ToCSV reported success but the file cannot be read: " + err.Error()}
			}
			buf.Write(data)
			r.noteCSVFields(buf.Bytes())
			if o.K == "tocsv" {
				return Out{Status: "ok", Val: &Val{K: "bytes", Bytes: BStr(buf.String())}}
			}
			if o.Alt {
				// a caller that keeps one loader object for every file it reads
				if r.loader == nil {
					r.loader = dataframe.NewDataFrame()
				}
				res, err := r.loader.FromCSV(path)
				if err == nil && res == r.loader {
					return Out{Status: "panic", Msg: "FromCSV returned its receiver instead of a new frame"}
				}
				return derive(res, err)
			}
			return derive(dataframe.NewDataFrame().FromCSV(path))
		}
		if err := df.ToCSVWriter(&buf); err != nil {
			return errOut(err)
		}
		r.noteCSVFields(buf.Bytes())
		if o.K == "tocsv" {
			return Out{Status: "ok", Val: &Val{K: "bytes", Bytes: BStr(buf.String())}}
		}
		// read back through one of the reader kinds (chosen from the content, so that a replay takes the same one)
		return derive(dataframe.FromCSVReader(csvSource(Op{Bytes: BStr(buf.String()), N: o.N + int64(buf.Len())})))
	case "row":
		row, err := df.Row(int(o.N))
		if err != nil {
			return errOut(err)
		}
		return Out{Status: "ok", Val: &Val{K: "row", Row: rowToKVs(row)}}
	case "columnnames":
		names := df.ColumnNames()
		v := &Val{K: "strs", Strs: []BStr{}}
		for _, n := range names {
			v.Strs = append(v.Strs, BStr(n))
		}
		return Out{Status: "ok", Val: v}
	case "nrows":
		return Out{Status: "ok", Val: &Val{K: "int", Int: int64(df.Nrows())}}
	case "ncols":
		return Out{Status: "ok", Val: &Val{K: "int", Int: int64(df.Ncols())}}
	case "agg":
		var m map[string]float64
		var err error
		switch o.Agg {
		case "sum":
			m, err = df.Sum()
		case "mean":
			m, err = df.Mean()
		case "min":
			m, err = df.Min()
		default:
			m, err = df.Max()
		}
		if err != nil {
			return errOut(err)
		}
		// the same statistic through the Series methods directly (a fresh Series per column over the live cells)
		// must agree with the frame-level result, key by key and bit by bit
		for name, col := range df.Columns {
			s := dataframe.NewSeries(name, col.Data)
			var sv float64
			var serr error
			switch o.Agg {
			case "sum":
				sv, serr = s.Sum()
			case "mean":
				sv, serr = s.Mean()
			case "min":
				sv, serr = s.Min()
			default:
				sv, serr = s.Max()
			}
			fv, present := m[name]
			if serr != nil || !present || math.Float64bits(sv) != math.Float64bits(fv) && !(sv != sv && fv != fv) {
				return Out{Status: "panic", Msg: fmt.Sprintf("Series.%s and DataFrame.%s disagree on column %q: %v (%v) vs %v", o.Agg, o.Agg, name, sv, serr, fv)}
			}
			// a Series used directly and edited through its exported Data between two calls
			if len(col.Data) > 0 {
				own := append([]any{}, col.Data...)
				held := dataframe.NewSeries(name, own)
				before, _ := held.Sum()
				held.Data[0] = before + 1.5
				after, aerr := held.Sum()
				fresh, ferr := dataframe.NewSeries(name, append([]any{}, own...)).Sum()
				if (aerr == nil) != (ferr == nil) || (aerr == nil && math.Float64bits(after) != math.Float64bits(fresh) && !(after != after && fresh != fresh)) {
					return Out{Status: "panic", Msg: fmt.Sprintf("Series.Sum after an edit of Series.Data: %v, a fresh Series over the same cells: %v", after, fresh)}
				}
			}
			if fl, ferr := s.AsFloat64(); ferr != nil || len(fl) != len(col.Data) {
				return Out{Status: "panic", Msg: fmt.Sprintf("AsFloat64 failed or changed the length on a column the aggregate accepted: %v", ferr)}
			}
		}
		v := &Val{K: "floats", Floats: []FloatKV{}}
		keys := []string{}
		for k := range m {
			keys = append(keys, k)
		}
		sort.Strings(keys)
		for _, k := range keys {
			v.Floats = append(v.Floats, FloatKV{BStr(k), F64Cell(m[k])})
		}
		return Out{Status: "ok", Val: v}
	case "appendrow":
		row := map[string]any{}
		for _, kv := range o.Row {
			row[string(kv.K)] = kv.V.ToAny()
		}
		if o.Alt && o.G >= 0 && o.G < len(r.pool) {
			// AppendRow(result, row) appends to its argument; the receiver may be any frame
			return edit(r.pool[o.G].AppendRow(df, row))
		}
		return edit(df.AppendRow(df, row))
	case "droprow":
		return edit(df.DropRow(int(o.N)))
	case "fillna":
		df.FillNa(o.Cell.ToAny())
		return edit(nil)
	case "dropna":
		return edit(df.DropNa())
	case "astype":
		return edit(df.Astype(string(o.S1), string(o.S2)))
	case "datetime":
		if c, ok := df.Columns[string(o.S1)]; ok && c != nil {
			for _, v := range c.Data {
				if s, ok := v.(string); ok {
					r.tp[[2]string{string(o.S2), s}] = true
				}
			}
		}
		return edit(df.AddDatetimeIndex(string(o.S1), string(o.S2)))
	case "rename":
		return edit(df.RenameColumn(string(o.S1), string(o.S2)))
	case "addcolumn":
		data := make([]any, len(o.Cells))
		for i, c := range o.Cells {
			data[i] = c.ToAny()
		}
		if viaRoot(o) {
			return edit(goframe.AddTypedColumn(df, goframe.NewColumn(string(o.S1), data)))
		}
		if (len(o.Cells)+len(o.S1))%3 == 1 {
			// AddColumn directly, on a column converted by hand
			return edit(df.AddColumn(goframe.ConvertToAnyColumn(dataframe.NewColumn(string(o.S1), data))))
		}
		return edit(dataframe.AddTypedColumn(df, dataframe.NewColumn(string(o.S1), data)))
	case "dropcolumn":
		return edit(df.DropColumn(string(o.S1)))
	case "setcell":
		c, ok := df.Columns[string(o.S1)]
		if !ok || c == nil || o.N < 0 || int(o.N) >= len(c.Data) {
			return Out{Status: "err", Msg: "no such cell"}
		}
		c.Data[int(o.N)] = o.Cell.ToAny()
		return edit(nil)
	}
	panic("Exec: unknown op " + o.K)
}

// ---- oracle tables: filled from the standard library itself ----
func collectCells(c Cell, strs map[string]bool, fmts map[string]Cell) {
	switch c.T {
	case "str":
		strs[string(c.S)] = true
	case "f64", "f32":
		fmts[c.T+c.F] = c
	case "time":
		fmts[fmt.Sprint(c.Tm)] = c
	}
}

func (r *Runner) buildOracles(h *Hist) {
	strs := map[string]bool{}
	fmts := map[string]Cell{}
	visitFrame := func(f Frame) {
		for _, c := range f.Cols {
			for _, v := range c.Data {
				collectCells(v, strs, fmts)
			}
		}
	}
	for _, f := range h.Pool {
		visitFrame(f)
	}
	for _, s := range h.Steps {
		for _, f := range s.Pool {
			visitFrame(f)
		}
		for _, c := range s.Op.Cells {
			collectCells(c, strs, fmts)
		}
		for _, kv := range s.Op.Row {
			collectCells(kv.V, strs, fmts)
		}
		if s.Op.Cell != nil {
			collectCells(*s.Op.Cell, strs, fmts)
		}
		if s.Op.Fill != nil {
			collectCells(*s.Op.Fill, strs, fmts)
		}
	}
	for s := range r.pf {
		strs[s] = true
	}
	keys := make([]string, 0, len(strs))
	for s := range strs {
		keys = append(keys, s)
	}
	sort.Strings(keys)
	h.Or = Oracles{Pf: []PfEntry{}, Fmt: []FmtEntry{}, Tp: []TpEntry{}}
	for _, s := range keys {
		v, err := strconv.ParseFloat(s, 64)
		e := PfEntry{S: BStr(s), Ok: err == nil}
		if err == nil {
			c := F64Cell(v)
			e.V = &c
			// the parsed value may be rendered again later
			fmts["f64"+c.F] = c
		}
		h.Or.Pf = append(h.Or.Pf, e)
	}
	fkeys := make([]string, 0, len(fmts))
	for k := range fmts {
		fkeys = append(fkeys, k)
	}
	sort.Strings(fkeys)
	for _, k := range fkeys {
		c := fmts[k]
		h.Or.Fmt = append(h.Or.Fmt, FmtEntry{C: c, S: BStr(fmt.Sprintf("%v", c.ToAny()))})
	}
	tkeys := make([][2]string, 0, len(r.tp))
	for k := range r.tp {
		tkeys = append(tkeys, k)
	}
	sort.Slice(tkeys, func(i, j int) bool {
		if tkeys[i][0] != tkeys[j][0] {
			return tkeys[i][0] < tkeys[j][0]
		}
		return tkeys[i][1] < tkeys[j][1]
	})
	for _, k := range tkeys {
		t, err := time.Parse(k[0], k[1])
		e := TpEntry{Layout: BStr(k[0]), S: BStr(k[1]), Ok: err == nil}
		if err == nil {
			c := TimeCell(t)
			e.V = &c
		}
		h.Or.Tp = append(h.Or.Tp, e)
	}
}

// execTimeout: a library call that has not returned after this long is reported like a panic ("did not
// return normally"); the largest generated inputs take milliseconds
const execTimeout = 30 * time.Second

func (r *Runner) execGuard(o Op) (Out, bool) {
	done := make(chan Out, 1)
	go func() { done <- r.Exec(o) }()
	select {
	case out := <-done:
		return out, false
	case <-time.After(execTimeout):
		return Out{Status: "panic", Msg: "the call did not return within " + execTimeout.String()}, true
	}
}

// csvSource: the same bytes behind readers of different habits (o.N selects; not visible to the model): a plain
// reader, one that returns its last block together with io.EOF, one byte at a time, half-filled reads, a
// buffered reader, and a seekable reader that has already been advanced past a preamble
func csvSource(o Op) io.Reader {
	data := []byte(o.Bytes)
	switch ((o.N % 6) + 6) % 6 {
	case 1:
		return iotest.DataErrReader(bytes.NewReader(data))
	case 2:
		return iotest.OneByteReader(bytes.NewReader(data))
	case 3:
		return iotest.HalfReader(bytes.NewReader(data))
	case 4:
		return bufio.NewReaderSize(bytes.NewReader(data), 16)
	case 5:
		pre := "# exported by some tool\n\n"
		r := strings.NewReader(pre + string(data))
		if _, err := r.Seek(int64(len(pre)), io.SeekStart); err != nil {
			panic(err)
		}
		return r
	}
	return bytes.NewReader(data)
}

func cellsKey(x []any) string {
	parts := make([]string, len(x))
	for i, v := range x {
		c := FromAny(v)
		parts[i] = c.T + ":" + c.I + c.F + string(c.S) + fmt.Sprint(c.B, c.Tm)
	}
	return strings.Join(parts, "|")
}

// callsExpected: the argument lists a sequential Apply passes to the function, sorted
func callsExpected(df *dataframe.DataFrame, rowWise bool) []string {
	names := df.ColumnNames()
	out := []string{}
	if rowWise {
		for i := 0; i < df.Nrows(); i++ {
			row := make([]any, len(names))
			for j, n := range names {
				if i < len(df.Columns[n].Data) {
					row[j] = df.Columns[n].Data[i]
				}
			}
			out = append(out, cellsKey(row))
		}
	} else {
		for _, n := range names {
			out = append(out, cellsKey(df.Columns[n].Data))
		}
	}
	sort.Strings(out)
	return out
}

// RunHist executes ops on fresh frames and records every observation.
func RunHist(tag string, frames []Frame, ops []Op) Hist {
	r := NewRunner(frames)
	h := Hist{Tag: tag, Steps: []StepObs{}}
	h.Pool, _ = r.snapshot()
	// the model is given the frames that were asked for: where building one through the public constructors changed
	// a name or a cell, the difference shows as a change of that frame at the first step
	for i := range frames {
		if want := Snapshot(buildFrame(frames[i], true)); !reflect.DeepEqual(want, h.Pool[i]) {
			h.Pool[i] = want
		}
	}
	lastPool, lastNrows := r.snapshot()
	for _, o := range ops {
		r.Prep(&o)
		out, hung := r.execGuard(o)
		if hung {
			// the call never came back: the frames may still be in use by it, so they are not read again and
			// the history ends here
			h.Steps = append(h.Steps, StepObs{Op: o, Out: out, Pool: lastPool, Nrows: lastNrows})
			break
		}
		pool, nrows := r.snapshot()
		lastPool, lastNrows = pool, nrows
		h.Steps = append(h.Steps, StepObs{Op: o, Out: out, Pool: pool, Nrows: nrows, Shared: sharedArrays(r.pool)})
	}
	r.buildOracles(&h)
	r.cleanup()
	return h
}
