module verifharness

go 1.24.7

require (
	github.com/kishyassin/goframe v0.0.0
	github.com/wcharczuk/go-chart/v2 v2.1.2
)

require (
	github.com/golang/freetype v0.0.0-20170609003504-e2365dfdc4a0 // indirect
	golang.org/x/image v0.18.0 // indirect
)

replace github.com/kishyassin/goframe => /repo
