package main

// Size streams: the same operations on frames far larger than the random streams draw (tens,
// hundreds, beyond a thousand rows; long strings; many columns), so that a fast path, buffer or
// batch boundary that only large inputs reach is exercised.  The theorems cover every size on the
// model; these cases extend the tie between model and code beyond the small shapes.

import (
	"fmt"
	"math"
	"strconv"
	"strings"
	"time"
)

func init() {
	extend("C01", bigKinds("C01", []string{"sort", "head", "tail", "rowslice", "filter", "iloc", "multiselect", "shift", "dedup", "appendrow", "droprow", "fillna", "dropna", "rename", "addcolumn", "setcell", "dedupinplace"}, []bigCfg{{70, 5, false, false}, {300, 3, false, false}, {600, 2, false, false}}, false))
	extend("C02", bigC02)
	extend("C03", bigC03)
	extend("C04", bigKinds("C04", []string{"groupby"}, []bigCfg{{70, 2, false, false}, {600, 2, true, false}}, false))
	extend("C05", bigKinds("C05", []string{"groupagg"}, []bigCfg{{70, 3, false, false}, {600, 3, true, false}}, false))
	extend("C06", bigC06)
	extend("C07", bigKinds("C07", []string{"dedup", "dedupinplace"}, []bigCfg{{70, 3, false, false}, {300, 2, false, false}, {600, 2, true, false}}, false))
	extend("C08", bigKinds("C08", []string{"filter", "row", "head", "tail", "rowslice", "iloc", "loc", "multiselect", "droprow", "dropcolumn", "nrows", "select", "colat", "series", "string"}, []bigCfg{{70, 6, false, false}, {300, 4, false, false}, {600, 3, true, false}, {1100, 1, true, false}}, false))
	extend("C09", bigC09)
	extend("C10", bigC10)
	extend("C15", bigKinds("C15", []string{"astype", "fillna", "dropna"}, []bigCfg{{70, 3, false, false}, {300, 3, false, false}, {1100, 2, true, false}}, false))
	extend("C15", bigC15)
	extend("C16", bigC16)
	extend("C17seq", bigC17)
	extend("C18", bigKinds("C18", []string{"resample"}, []bigCfg{{70, 3, false, false}, {300, 3, true, false}}, true))
	extend("C19", bigKinds("C19", []string{"shift"}, []bigCfg{{70, 3, false, false}, {300, 2, false, false}, {1100, 1, true, false}}, false))
	extend("C01", gapC01)
	extend("C01", gap6C01)
	extend("C01", gap7CSVReceiver)
	extend("C10", gap7CSVReceiver)
	extend("C04", gap7C04)
	extend("C08", gap7MixedCase("C08"))
	extend("C09", gap7MixedCase("C09"))
	extend("C17seq", gap7MixedCase("C17"))
	extend("C20", gap7C20)
	extend("C06", gap8C06)
	extend("C01", gap9Scribbler)
	extend("C02", gap9Scribbler)
	extend("C18", gap9Scribbler)
	extend("C02", gap9C02)
	extend("C03", gap9C03)
	extend("C04", gap9C04)
	extend("C05", gap9C05)
	extend("C06", gap9C06)
	extend("C15", gap9Names("C15"))
	extend("C07", gap9C07)
	extend("C10", gap9C10)
	extend("C16", gap9C16)
	extend("C17seq", gap9C17)
	extend("C18", gap9C18)
	extend("C19", gap9C19)
	extend("C20", gap9C20)
	extend("C07", gap8EmptyName("C07"))
	extend("C20", gap8EmptyName("C20"))
	extend("C08", gap8EmptyName("C08"))
	extend("C15", gap8C15)
	extend("C20", gap8C20)
	extend("C02", gap6C02)
	extend("C03", gap6C03)
	extend("C04", gap6C04)
	extend("C05", gap6C05)
	extend("C06", gap6C06)
	extend("C09", gap6C09)
	extend("C15", gap6C15)
	extend("C16", gap6C16)
	extend("C17seq", gap6C17)
	extend("C18", gap6C18)
	extend("C20", gap6C20)
	extend("C03", gapC03)
	extend("C04", gapC04)
	extend("C05", gapC05)
	extend("C09", gapC09)
	extend("C20", gapC20)
	extend("C20", bigKinds("C20", []string{"apply", "head", "tail", "row", "rowslice", "iloc", "droprow", "sort", "multiselect", "join", "add", "resample", "astype", "colat", "series", "plot"}, []bigCfg{{70, 6, false, false}, {300, 4, false, false}, {600, 1, true, false}}, false))
	// round 10: sizes just past the thresholds at which an implementation might switch to a batched, parallel or
	// cached path (1024, 2048; never a multiple of 8 or 256), and groupings with as many groups as rows
	extend("C01", bigKinds("C01", []string{"filter", "dropna", "dedupinplace", "head", "shift"}, []bigCfg{{1027, 2, true, false}, {2051, 1, true, false}}, false))
	extend("C04", bigKinds("C04", []string{"groupby"}, []bigCfg{{203, 1, true, true}, {1027, 1, true, false}, {2051, 1, true, false}}, false))
	extend("C05", bigKinds("C05", []string{"groupagg"}, []bigCfg{{211, 3, true, true}, {1027, 1, true, true}, {2051, 1, true, false}}, false))
	extend("C07", bigKinds("C07", []string{"dedup", "dedupinplace"}, []bigCfg{{1027, 2, true, false}, {2051, 2, true, false}}, false))
	extend("C08", bigKinds("C08", []string{"filter", "iloc", "head", "tail", "rowslice", "droprow"}, []bigCfg{{2051, 3, true, false}}, false))
	extend("C15", bigKinds("C15", []string{"dropna", "astype", "fillna"}, []bigCfg{{2051, 1, true, false}}, false))
	extend("C20", bigKinds("C20", []string{"head", "tail", "rowslice", "iloc", "droprow", "astype"}, []bigCfg{{2051, 2, true, false}}, false))
	extend("C07", gap10C07)
	extend("C16", gap10C16)
}

// C07: classes of equal rows whose members lie far apart - two at the start and one near the end, one in each half,
// one at each end - in frames past 1024 and 2048 rows, under every Keep, in place and not (a deduplication done
// block by block and then merged is only right for first and last)
func gap10C07(g *Gen, tier string, res *GenOutput) {
	for _, n := range bigSizes(tier, []int{1500, 2051}, []int{4099}) {
		k := Col{Key: "k", Name: "k", Data: make([]Cell, 0, n)}
		w := Col{Key: "w", Name: "w", Data: make([]Cell, 0, n)}
		for i := 0; i < n; i++ {
			v := int64(i)
			switch i {
			case 0, 1, n - 40:
				v = -1
			case 5, n - 7:
				v = -2
			case 1023, 1024, 1025:
				v = -3
			case 700, 701, 702, n - 3, n - 2:
				v = -4
			}
			k.Data = append(k.Data, IntCell("int", v))
			w.Data = append(w.Data, IntCell("int", int64(i%2)))
		}
		f := mkFrame(k, w)
		ops := []Op{}
		for _, keep := range []string{"none", "first", "last"} {
			ops = append(ops, Op{K: "dedup", F: 0, HasOpt: true, Strs: []BStr{"k"}, S1: BStr(keep)})
		}
		ops = append(ops, Op{K: "dedup", F: 0, HasOpt: true, Strs: []BStr{}, S1: "none"}, Op{K: "dedupinplace", F: 0, HasOpt: true, Strs: []BStr{"k"}, S1: "none"}, Op{K: "nrows", F: 0})
		res.Hists = append(res.Hists, RunHist(fmt.Sprintf("far-apart-duplicates rows=%d", n), []Frame{f}, ops))
		bump(res.Stats, "far-apart-duplicates")
	}
}

// C16: Add on integer cells whose sum leaves the int64 range, in every integer width, against the same numbers as
// float64 and as text
func gap10C16(g *Gen, tier string, res *GenOutput) {
	big := []int64{9000000000000000000, math.MaxInt64, math.MinInt64, math.MaxInt64, 1 << 62, -(1 << 62), 5000000000000000000, 9007199254740993}
	oth := []int64{9000000000000000000, 1, -1, math.MaxInt64, 1 << 62, -(1 << 62) - 1, 5000000000000000000, 9007199254740993}
	mk := func(kind string, vals []int64) Col {
		c := Col{Key: "x", Name: "x"}
		for _, v := range vals {
			switch kind {
			case "f64":
				c.Data = append(c.Data, F64Cell(float64(v)))
			case "str":
				c.Data = append(c.Data, StrCell(strconv.FormatInt(v, 10)))
			case "uint64":
				if v < 0 {
					c.Data = append(c.Data, UintCell("uint64", math.MaxUint64-uint64(-(v+1))))
				} else {
					c.Data = append(c.Data, UintCell("uint64", uint64(v)+(1<<63)))
				}
			default:
				c.Data = append(c.Data, IntCell(kind, v))
			}
		}
		return c
	}
	zero := IntCell("int", 0)
	for _, ka := range []string{"int", "int64", "uint64", "f64", "str"} {
		for _, kb := range []string{"int", "int64", "uint64", "f64"} {
			a, b := mkFrame(mk(ka, big)), mkFrame(mk(kb, oth))
			ops := []Op{{K: "add", F: 0, G: 1}, {K: "add", F: 1, G: 0}, {K: "add", F: 0, G: 0}, {K: "add", F: 0, G: 1, Fill: &zero}, {K: "agg", F: 0, Agg: "sum"}, {K: "describe", F: 0}}
			res.Hists = append(res.Hists, RunHist("add-beyond-int64 "+ka+"+"+kb, []Frame{a, b}, ops))
			bump(res.Stats, "add-beyond-int64")
		}
	}
}

// one size of a size stream: rows, number of steps, narrow (three columns only)
type bigCfg struct {
	n      int
	steps  int
	narrow bool
	// many: group by the row number (as many groups as rows) instead of a key with a few values
	many bool
}

func bigCfgs(tier string, cfgs []bigCfg) []bigCfg {
	if tier != "thorough" {
		return cfgs
	}
	out := append([]bigCfg{}, cfgs...)
	last := cfgs[len(cfgs)-1]
	if last.n > 1200 {
		// a threshold stream: one more size past the next power of two
		return append(out, bigCfg{n: 4099, steps: 1, narrow: true, many: false})
	}
	out = append(out, bigCfg{n: 2 * last.n, steps: last.steps, narrow: true}, bigCfg{n: 2600, steps: 1, narrow: true})
	return out
}

func bigSizes(tier string, quick []int, thorough []int) []int {
	if tier == "thorough" {
		return append(append([]int{}, quick...), thorough...)
	}
	return quick
}

// bigFrame: regular data, so that the case files stay small (runs and progressions are written compactly):
// id 0..n-1; k0 an int key in runs of 7 that recur (11 values); k1 a text key in runs of 13 (5 values, a run
// of nils); v0 an int progression with short runs of nils; v1 floats in runs of 8 with runs of nils; s text in
// runs of 25; optionally a time column advancing by the hour in runs of 5.
func (g *Gen) bigFrame(n int, withTime bool) Frame {
	id := Col{Key: "id", Name: "id", Data: make([]Cell, 0, n)}
	k0 := Col{Key: "k0", Name: "k0", Data: make([]Cell, 0, n)}
	k1 := Col{Key: "k1", Name: "k1", Data: make([]Cell, 0, n)}
	k2 := Col{Key: "k2", Name: "k2", Data: make([]Cell, 0, n)}
	v0 := Col{Key: "v0", Name: "v0", Data: make([]Cell, 0, n)}
	v1 := Col{Key: "v1", Name: "v1", Data: make([]Cell, 0, n)}
	s := Col{Key: "s", Name: "s", Data: make([]Cell, 0, n)}
	t := Col{Key: "t", Name: "t", Data: make([]Cell, 0, n)}
	off := g.r.Intn(5)
	base := time.Date(2020, 1, 1, 0, 0, 0, 0, time.UTC)
	for i := 0; i < n; i++ {
		id.Data = append(id.Data, IntCell("int", int64(i)))
		k0.Data = append(k0.Data, IntCell("int", int64((i/7+off)%11)))
		k2.Data = append(k2.Data, IntCell("int", int64((i/5+off)%3)))
		if (i/13)%9 == 8 {
			k1.Data = append(k1.Data, NilCell())
		} else {
			k1.Data = append(k1.Data, StrCell(fmt.Sprintf("g%d", (i/13)%5)))
		}
		if i%97 >= 90 && i%97 < 95 {
			v0.Data = append(v0.Data, NilCell())
		} else {
			v0.Data = append(v0.Data, IntCell("int", int64(3*i-1000)))
		}
		if (i/8)%13 == 12 {
			v1.Data = append(v1.Data, NilCell())
		} else {
			v1.Data = append(v1.Data, F64Cell(float64((i/8)%40)/4-2))
		}
		s.Data = append(s.Data, StrCell(plainStrs[(i/25+off)%len(plainStrs)]))
		t.Data = append(t.Data, TimeCell(base.Add(time.Duration(((i*7919)%n/5)*47)*time.Minute)))
	}
	if withTime {
		return mkFrame(id, k0, k1, k2, s, t, v0, v1)
	}
	return mkFrame(id, k0, k1, k2, s, v0, v1)
}

// bigKinds: per size one history of `steps` operations of the given kinds on a big frame (and on the
// frames derived from it)
func bigKinds(prop string, kinds []string, cfgs []bigCfg, withTime bool) func(g *Gen, tier string, res *GenOutput) {
	return func(g *Gen, tier string, res *GenOutput) {
		bad := 0.0
		if prop == "C20" {
			bad = 0.5
		}
		for _, cfg := range bigCfgs(tier, cfgs) {
			n, nsteps, steps := cfg.n, cfg.steps, cfg.steps
			f := g.bigFrame(n, withTime)
			if cfg.narrow {
				keep := map[string]bool{"id": true, "k2": true, "v1": true, "t": true}
				cols := []Col{}
				for _, c := range f.Cols {
					if keep[string(c.Key)] {
						cols = append(cols, c)
					}
				}
				f = mkFrame(cols...)
			}
			h := runInterleaved(fmt.Sprintf("big rows=%d", n), []Frame{f}, nsteps, func(step int, pool []Frame) *Op {
				k := kinds[g.r.Intn(len(kinds))]
				if step < len(kinds) && (len(kinds) <= steps || step == 0) {
					k = kinds[step]
				}
				// stay on big frames: the source or the latest result
				sub := pool[:1]
				o := g.genOp(k, sub, bad)
				if len(pool) > 1 && g.chance(0.4) && pool[len(pool)-1].nrows() > 20 {
					o = g.genOp(k, pool[len(pool)-1:], bad)
					o.F = len(pool) - 1
					if k == "join" || k == "add" {
						o.G = 0
					}
				}
				if k == "groupby" || k == "groupagg" {
					// key columns with few distinct values
					if o.GList && len(f.Cols) > 4 {
						o.Strs = []BStr{"k0", "k1"}
					} else {
						o.GList, o.S1 = false, BStr([]string{"k2", "k0"}[g.r.Intn(2)])
						if len(f.Cols) <= 4 {
							o.S1 = "k2"
						}
					}
					if cfg.many {
						o.GList, o.S1 = false, "id"
						if k == "groupagg" {
							o.Agg, o.Cols = []string{"sum", "mean", "count"}[step%3], []BStr{"v1"}
						}
					}
					if k == "groupagg" && len(o.Cols) == 0 {
						o.Cols = []BStr{"v1"}
					}
				}
				if k == "sort" {
					o.Strs = []BStr{"k2"}
					if n > 300 {
						// the model's comparator is linear in the row position: long sorts are in the C06 stream (300 rows)
						k = "tail"
						o = Op{K: "tail", F: o.F, N: int64(n - 5)}
					}
				}
				if k == "filter" {
					// regular predicates: everything, every second row, all but every third, a prefix
					m := pool[o.F].nrows()
					pat := g.r.Intn(4)
					o.Keep = make([]bool, m)
					for i := range o.Keep {
						o.Keep[i] = pat == 0 || (pat == 1 && i%2 == 0) || (pat == 2 && i%3 != 0) || (pat == 3 && i < m/2)
					}
				}
				if k == "iloc" && g.chance(0.7) {
					m := pool[o.F].nrows()
					o.Ints = []int64{}
					for i := m / 10; i < m-m/10; i++ {
						o.Ints = append(o.Ints, int64(i))
					}
					o.Ints2 = []int64{0, 1}
				}
				if (k == "head" || k == "tail") && g.chance(0.7) {
					o.N = int64(pool[o.F].nrows() - 1 - g.r.Intn(40))
				}
				if k == "rowslice" && g.chance(0.7) {
					o.A, o.B = int64(g.r.Intn(20)), int64(pool[o.F].nrows()-g.r.Intn(20))
				}
				if k == "join" {
					o.S1 = "id"
				}
				if k == "resample" {
					// aggregates that depend on the order of the rows inside a bucket
					o.S1 = "t"
					o.Fn = []int{1, 2, 1, 0}[step%4]
					o.S2 = BStr([]string{"D", "H", "Y", "T"}[step%4])
				}
				if k == "shift" && n > 100 {
					o.N = int64([]int{0, 1, -1, 2, -3, 40, -40}[g.r.Intn(7)])
				}
				if k == "astype" {
					o.S1 = BStr([]string{"v1", "id"}[g.r.Intn(2)])
					o.S2 = BStr([]string{"int", "float64", "string"}[g.r.Intn(3)])
				}
				if k == "apply" {
					o.Fn = []int{0, 1, 3}[g.r.Intn(3)]
					ax := []int64{1}
					o.Axis = &ax
				}
				if k == "dedup" || k == "dedupinplace" {
					o.HasOpt = true
					o.Strs = []BStr{"k2"}
					if len(f.Cols) > 4 && g.chance(0.5) {
						o.Strs = []BStr{"k0", "k1"}
					}
					if g.chance(0.3) {
						o.Strs = []BStr{"id"} // no duplicates at all
					}
					o.S1 = BStr([]string{"first", "last", "none"}[g.r.Intn(3)])
				}
				if k == "plot" {
					o.S1, o.S2 = "v1", "v1"
					o.PathOK = true
				}
				return &o
			})
			res.Hists = append(res.Hists, h)
			bump(res.Stats, fmt.Sprintf("big rows=%d", n))
		}
	}
}

// C02: derive from a big frame, then edit the source and the derived frame in place
func bigC02(g *Gen, tier string, res *GenOutput) {
	derive := []string{"head", "tail", "rowslice", "filter", "iloc", "multiselect", "sort", "shift", "dedup", "describe", "groupagg", "apply"}
	longCuts := []string{"head", "tail", "rowslice", "shift"}
	for i, n := range bigSizes(tier, []int{70, 300, 1100, 1100}, []int{1100, 1100, 2600, 2600}) {
		f := g.bigFrame(n, false)
		dk := derive[g.r.Intn(len(derive))]
		nsteps := 6
		if n > 300 {
			// long cuts: Head/Tail/RowSlice/Shift of more than a thousand rows, on a narrow frame
			f = mkFrame(f.Cols[0], f.Cols[len(f.Cols)-1])
			dk = longCuts[i%2]
			if tier == "thorough" {
				dk = longCuts[i%4]
			}
			nsteps = 5
		}
		c1, c2 := StrCell("written"), IntCell("int", -7)
		h := runInterleaved(fmt.Sprintf("big rows=%d derive=%s", n, dk), []Frame{f}, nsteps, func(step int, pool []Frame) *Op {
			var o Op
			switch step {
			case 0:
				o = g.genOp(dk, pool[:1], 0)
				if dk == "sort" {
					o.Strs = []BStr{"k2"}
				}
				if dk == "groupagg" {
					o.GList, o.S1, o.Cols = false, "k2", []BStr{"v1"}
				}
				if dk == "head" || dk == "tail" {
					o.N = int64(n - 3)
				}
				if dk == "rowslice" {
					o.A, o.B = 2, int64(n-2)
				}
				if dk == "shift" {
					o.N = int64([]int{-1, 1, -2, 0}[g.r.Intn(4)])
				}
			case 1:
				o = Op{K: "setcell", F: 0, S1: f.Cols[len(f.Cols)-1].Key, N: int64(n / 2), Cell: &c1}
			case 2:
				if len(pool) < 2 || pool[1].nrows() == 0 || len(pool[1].Cols) == 0 {
					o = Op{K: "nrows", F: 0}
				} else {
					o = Op{K: "setcell", F: 1, S1: pool[1].Cols[0].Key, N: int64(pool[1].nrows() / 2), Cell: &c1}
				}
			case 3:
				o = Op{K: "droprow", F: len(pool) - 1, N: 0}
			case 4:
				o = Op{K: "fillna", F: 0, Cell: &c2}
			default:
				o = Op{K: "appendrow", F: 0, Row: []KV{{K: "id", V: c2}}}
			}
			return &o
		})
		res.Hists = append(res.Hists, h)
		bump(res.Stats, fmt.Sprintf("big rows=%d", n))
	}
}

// C03: long frames: a shorter left frame with repeated, unsorted keys against a longer right one (the product
// of the lengths beyond a few thousand), and a long left frame with unique keys against a shorter right one
func bigC03(g *Gen, tier string, res *GenOutput) {
	type pair struct{ l, r int }
	pairs := []pair{{60, 90}, {600, 150}}
	if tier == "thorough" {
		pairs = append(pairs, pair{150, 600}, pair{1500, 400})
	}
	for _, pr := range pairs {
		lk, la := Col{Key: "k", Name: "k", Data: []Cell{}}, Col{Key: "a", Name: "a", Data: []Cell{}}
		rk, rv := Col{Key: "k", Name: "k", Data: []Cell{}}, Col{Key: "v", Name: "v", Data: []Cell{}}
		perm := g.r.Perm(pr.l)
		for i := 0; i < pr.l; i++ {
			if pr.l > pr.r {
				lk.Data = append(lk.Data, IntCell("int", int64(perm[i])))
			} else {
				lk.Data = append(lk.Data, IntCell("int", int64(g.r.Intn(pr.l/2))))
			}
			la.Data = append(la.Data, IntCell("int", int64(1000+i)))
		}
		for j := 0; j < pr.r; j++ {
			if pr.l > pr.r {
				rk.Data = append(rk.Data, IntCell("int", int64(g.r.Intn(pr.l+pr.l/10))))
			} else {
				rk.Data = append(rk.Data, IntCell("int", int64(g.r.Intn(pr.l/2+3))))
			}
			rv.Data = append(rv.Data, IntCell("int", int64(j)))
		}
		res.Hists = append(res.Hists, joinHist(fmt.Sprintf("big %dx%d", pr.l, pr.r), mkFrame(lk, la), mkFrame(rk, rv), "k"))
		bump(res.Stats, fmt.Sprintf("big %dx%d", pr.l, pr.r))
	}
}

// C06: long columns with many ties (the model's comparator is linear in the row position, so the
// largest size here is 300)
func bigC06(g *Gen, tier string, res *GenOutput) {
	for _, n := range bigSizes(tier, []int{70, 300}, []int{600}) {
		for _, kind := range []string{"int", "pstr", "f64"} {
			s0 := Col{Key: "s0", Name: "s0", Data: []Cell{}}
			s1 := Col{Key: "s1", Name: "s1", Data: []Cell{}}
			id := Col{Key: "id", Name: "id", Data: []Cell{}}
			for i := 0; i < n; i++ {
				switch {
				case g.chance(0.05):
					s0.Data = append(s0.Data, NilCell())
				case kind == "int":
					s0.Data = append(s0.Data, IntCell("int", int64(g.r.Intn(n/3+2))))
				case kind == "pstr":
					s0.Data = append(s0.Data, StrCell(fmt.Sprintf("w%03d", g.r.Intn(n/3+2))))
				default:
					s0.Data = append(s0.Data, F64Cell(float64(g.r.Intn(n/3+2))/4))
				}
				s1.Data = append(s1.Data, IntCell("int", int64(g.r.Intn(5))))
				id.Data = append(id.Data, IntCell("int", int64(i)))
			}
			t, fl := true, false
			ops := []Op{{K: "sort", F: 0, Strs: []BStr{"s0"}, Asc: &t}, {K: "sort", F: 0, Strs: []BStr{"s1", "s0"}, Asc: &fl}}
			res.Hists = append(res.Hists, RunHist(fmt.Sprintf("big rows=%d %s", n, kind), []Frame{mkFrame(s0, s1, id)}, ops))
			bump(res.Stats, fmt.Sprintf("big rows=%d", n))
		}
	}
}

// C09: long fields (beyond the 4096-byte buffers of bufio/csv), many rows, many columns
func bigC09(g *Gen, tier string, res *GenOutput) {
	long := func(n int, quoteEvery int) string {
		var b strings.Builder
		for i := 0; b.Len() < n; i++ {
			if quoteEvery > 0 && i%quoteEvery == quoteEvery-1 {
				b.WriteString("\"q\",\n")
			} else {
				b.WriteString("abcdefghij")
			}
		}
		return b.String()
	}
	// one frame with fields around the buffer size
	a := strCol("a", long(4090, 0), long(4096, 0), long(4097, 0), "x")
	b := strCol("b", long(5000, 7), "", long(8200, 3), long(100, 2))
	c := intCol("c", 1, 2, 3, 4)
	ops := []Op{{K: "tocsv", F: 0}, {K: "csvroundtrip", F: 0}, {K: "csvroundtrip", F: 0, ViaFile: true}}
	res.Hists = append(res.Hists, RunHist("big long-fields", []Frame{mkFrame(a, b, c)}, ops))
	bump(res.Stats, "big long-fields")
	// many columns
	cols := []Col{}
	for j := 0; j < 120; j++ {
		cols = append(cols, strCol(fmt.Sprintf("c%03d", j), fmt.Sprintf("v%d", j), "", "a,b"))
	}
	res.Hists = append(res.Hists, RunHist("big many-columns", []Frame{mkFrame(cols...)}, ops))
	bump(res.Stats, "big many-columns")
	for _, n := range bigSizes(tier, []int{300}, []int{1100, 2600}) {
		f := g.bigFrame(n, false)
		// text-only view of the frame so that the round trip is the identity on it
		tf := Frame{Cols: []Col{}}
		for _, cc := range f.Cols {
			if cc.Data[0].T == "str" {
				tf.Cols = append(tf.Cols, cc)
			}
		}
		id := Col{Key: "w", Name: "w", Data: []Cell{}}
		for i := 0; i < n; i++ {
			id.Data = append(id.Data, StrCell(fmt.Sprintf("row %d, \"quoted\"", i)))
		}
		tf.Cols = append(tf.Cols, id)
		res.Hists = append(res.Hists, RunHist(fmt.Sprintf("big rows=%d", n), []Frame{mkFrame(tf.Cols...)}, ops))
		bump(res.Stats, fmt.Sprintf("big rows=%d", n))
	}
}

// C10: long inputs: many records (a column that turns numeric only after record 280), fields beyond the
// 4096-byte buffers, many columns
func bigC10(g *Gen, tier string, res *GenOutput) {
	for _, n := range bigSizes(tier, []int{300}, []int{1100, 2600}) {
		var b strings.Builder
		b.WriteString("name,flag,late\n")
		for i := 0; i < n; i++ {
			// "late": text (or empty) for the first 280 records, numbers afterwards
			late := []string{"x", "", "n/a"}[i%3]
			if i >= 280 {
				late = []string{" 42.5 ", "1e3", "7"}[i%3]
			}
			switch i % 7 {
			case 3:
				fmt.Fprintf(&b, "\"quoted, %d\",true,%s\n", i%10, late)
			case 5:
				fmt.Fprintf(&b, " n%d ,,%s\n", i%10, late)
			default:
				fmt.Fprintf(&b, "n%d,x,%s\n", i%10, late)
			}
		}
		res.Hists = append(res.Hists, RunHist(fmt.Sprintf("big records=%d", n), []Frame{}, []Op{{K: "fromcsv", Bytes: BStr(b.String())}}))
		bump(res.Stats, fmt.Sprintf("big records=%d", n))
	}
	flen := scale(tier, 4200, 9000)
	long := strings.Repeat("0123456789", flen/10)
	in := "a,b\n" + long + ",1\n\"" + long[:flen/2] + "\"\"" + long[:flen/2] + "\",2\n3," + long[:4095] + "\n"
	ops := []Op{{K: "fromcsv", Bytes: BStr(in)}}
	if tier == "thorough" {
		ops = append(ops, Op{K: "fromcsv", Bytes: BStr(in), ViaFile: true})
	}
	res.Hists = append(res.Hists, RunHist("big long-fields", []Frame{}, ops))
	bump(res.Stats, "big long-fields")
	var hb, rb strings.Builder
	for j := 0; j < scale(tier, 100, 400); j++ {
		if j > 0 {
			hb.WriteString(",")
			rb.WriteString(",")
		}
		fmt.Fprintf(&hb, "c%d", j)
		fmt.Fprintf(&rb, "v%d", j%3)
	}
	res.Hists = append(res.Hists, RunHist("big many-columns", []Frame{}, []Op{{K: "fromcsv", Bytes: BStr(hb.String() + "\n" + rb.String() + "\n" + rb.String() + "\n")}}))
	bump(res.Stats, "big many-columns")
}

// C17: many more rows than workers, both axes
func bigC17(g *Gen, tier string, res *GenOutput) {
	one := []int64{1}
	zero := []int64{0}
	for _, n := range bigSizes(tier, []int{130, 600}, []int{1100, 2600}) {
		a := Col{Key: "a", Name: "a", Data: []Cell{}}
		b := Col{Key: "b", Name: "b", Data: []Cell{}}
		for i := 0; i < n; i++ {
			a.Data = append(a.Data, IntCell("int", int64(i)))
			b.Data = append(b.Data, IntCell("int", int64(g.r.Intn(100))))
		}
		ops := []Op{}
		for _, fn := range []int{0, 1, 2, 3} {
			ops = append(ops, Op{K: "apply", F: 0, Fn: fn, Axis: &one})
		}
		ops = append(ops, Op{K: "apply", F: 0, Fn: 0, Axis: &zero}, Op{K: "apply", F: 0, Fn: 4})
		res.Hists = append(res.Hists, RunHist(fmt.Sprintf("big rows=%d", n), []Frame{mkFrame(a, b)}, ops))
		bump(res.Stats, fmt.Sprintf("big rows=%d", n))
	}
}

// C15: a conversion that must fail late in a long column (beyond a thousand cells) and leave it as it was
func bigC15(g *Gen, tier string, res *GenOutput) {
	for _, bad := range []int{1024, 1050, 1099} {
		n := 1100
		v := Col{Key: "v", Name: "v", Data: make([]Cell, 0, n)}
		d := Col{Key: "d", Name: "d", Data: make([]Cell, 0, n)}
		for i := 0; i < n; i++ {
			v.Data = append(v.Data, F64Cell(float64((i/50)%7)))
			d.Data = append(d.Data, StrCell("2021-03-04"))
		}
		v.Data[bad] = StrCell("oops")
		d.Data[bad] = StrCell("2021-02-30")
		ops := []Op{{K: "astype", F: 0, S1: "v", S2: "int"}, {K: "datetime", F: 0, S1: "d", S2: "2006-01-02"}, {K: "astype", F: 0, S1: "v", S2: "string"}}
		res.Hists = append(res.Hists, RunHist(fmt.Sprintf("big late-failure at %d", bad), []Frame{mkFrame(d, v)}, ops))
		bump(res.Stats, "big late-failure")
	}
}

// ---- streams added after the fifth round of seeded changes ----

// C01: header names that differ only by surrounding blanks are different names (the header is not trimmed)
func gapC01(g *Gen, tier string, res *GenOutput) {
	for _, in := range []string{"id, id,name\n1,2,3\n4,5,6\n", "k,v,k \n1,2,3\n", " a,a\n1,2\n", "a,a \n1,2\n3,4\n", "x,\tx,x \n1,2,3\n4,5,6\n7,8,9\n"} {
		ops := []Op{{K: "fromcsv", Bytes: BStr(in)}, {K: "fromcsv", Bytes: BStr(in), ViaFile: true}, {K: "columnnames", F: 0}, {K: "nrows", F: 0}}
		res.Hists = append(res.Hists, RunHist("header-blanks", []Frame{}, ops))
		bump(res.Stats, "header-blanks")
	}
}

// C03: join, change the key column in place without changing its length, join again
func gapC03(g *Gen, tier string, res *GenOutput) {
	for i := 0; i < scale(tier, 10, 60); i++ {
		l := mkFrame(Col{Key: "k", Name: "k", Data: []Cell{IntCell("int", 1), NilCell(), IntCell("int", 2), IntCell("int", 3), NilCell()}}, intCol("a", 10, 11, 12, 13, 14))
		r := mkFrame(Col{Key: "k", Name: "k", Data: []Cell{IntCell("int", 2), IntCell("int", 9), NilCell(), IntCell("int", 1)}}, strCol("v", "p", "q", "r", "s"))
		nine, two := IntCell("int", 9), IntCell("int", 2)
		jk := []string{"inner", "left", "right", "outer"}
		ops := []Op{}
		edits := []Op{{K: "fillna", F: 1, Cell: &nine}, {K: "setcell", F: 0, S1: "k", N: int64(g.r.Intn(5)), Cell: &two}, {K: "astype", F: 1, S1: "k", S2: "string"},
			{K: "fillna", F: 0, Cell: &two}, {K: "setcell", F: 1, S1: "k", N: int64(g.r.Intn(4)), Cell: &nine}, {K: "astype", F: 0, S1: "k", S2: "float64"}}
		ops = append(ops, Op{K: "join", F: 0, G: 1, JK: jk[g.r.Intn(4)], S1: "k"}, Op{K: "join", F: 0, G: 1, JK: jk[g.r.Intn(4)], S1: "k"})
		for r2 := 0; r2 < 2; r2++ {
			ops = append(ops, edits[g.r.Intn(len(edits))])
			for _, k := range jk {
				ops = append(ops, Op{K: "join", F: 0, G: 1, JK: k, S1: "k"})
			}
		}
		res.Hists = append(res.Hists, RunHist("join-edit-join", []Frame{l, r}, ops))
		bump(res.Stats, "join-edit-join")
	}
}

// C04: aggregate on a grouped object, edit the report in place, look at the grouped object again
func gapC04(g *Gen, tier string, res *GenOutput) {
	for i := 0; i < scale(tier, 12, 80); i++ {
		k := Col{Key: "k0", Name: "k0", Data: []Cell{StrCell("IT"), StrCell("HR"), NilCell(), StrCell("IT"), StrCell("Ops"), StrCell("HR")}}
		f := mkFrame(k, intCol("v0", 1, 2, 3, 4, 5, 6))
		seven := IntCell("int", 7)
		list := g.chance(0.3)
		gb := Op{K: "groupby", F: 0, S1: "k0"}
		if list {
			gb = Op{K: "groupby", F: 0, GList: true, Strs: []BStr{"k0"}}
		}
		ag := gb
		ag.K, ag.Agg, ag.Reuse, ag.Cols = "groupagg", []string{"sum", "mean", "count"}[g.r.Intn(3)], true, []BStr{"v0"}
		again := gb
		again.Reuse = true
		edit := []Op{{K: "droprow", F: 1, N: int64(g.r.Intn(3))}, {K: "fillna", F: 1, Cell: &seven}, {K: "setcell", F: 1, S1: "GroupKey", N: 0, Cell: &seven}}[g.r.Intn(3)]
		ag2 := ag
		ag2.Agg = "count"
		ops := []Op{gb, ag, edit, again, ag2}
		res.Hists = append(res.Hists, RunHist("aggregate-edit-report-regroup", []Frame{f}, ops))
		bump(res.Stats, "aggregate-edit-report")
	}
}

// C05: float32 cells that are not binary fractions: the group sums must add up to the frame-level Sum
func gapC05(g *Gen, tier string, res *GenOutput) {
	vals := []float32{0.1, 2.7, 19.99, 0.3, 1.1, 7.07, 3.3, 0.7}
	for i := 0; i < scale(tier, 6, 40); i++ {
		k := Col{Key: "k0", Name: "k0", Data: []Cell{}}
		v := Col{Key: "v0", Name: "v0", Data: []Cell{}}
		w := Col{Key: "v1", Name: "v1", Data: []Cell{}}
		n := 3 + g.r.Intn(8)
		for j := 0; j < n; j++ {
			k.Data = append(k.Data, IntCell("int", int64(g.r.Intn(3))))
			v.Data = append(v.Data, F32Cell(vals[g.r.Intn(len(vals))]))
			w.Data = append(w.Data, F64Cell(float64(vals[g.r.Intn(len(vals))])))
		}
		ops := []Op{{K: "groupagg", F: 0, S1: "k0", Agg: "sum", Cols: []BStr{"v0", "v1"}}, {K: "agg", F: 0, Agg: "sum"}, {K: "agg", F: 0, Agg: "mean"},
			{K: "groupagg", F: 0, S1: "k0", Agg: "mean"}, {K: "describe", F: 0}}
		res.Hists = append(res.Hists, RunHist("float32-fractions", []Frame{mkFrame(k, v, w)}, ops))
		bump(res.Stats, "float32-fractions")
	}
}

// C09: a second export to the same file replaces the first, also when it is shorter
func gapC09(g *Gen, tier string, res *GenOutput) {
	long := mkFrame(strCol("a", "one", "two", "three", "four", "five", "six"), strCol("b", "x", "y", "z", "x", "y", "z"))
	short := mkFrame(strCol("a", "p", "q"), strCol("b", "r", "s"))
	tiny := mkFrame(strCol("z", ""))
	ops := []Op{{K: "tocsv", F: 0, ViaFile: true}, {K: "csvroundtrip", F: 1, ViaFile: true}, {K: "tocsv", F: 0, ViaFile: true}, {K: "tocsv", F: 2, ViaFile: true},
		{K: "csvroundtrip", F: 2, ViaFile: true}, {K: "csvroundtrip", F: 0, ViaFile: true}, {K: "csvroundtrip", F: 1, ViaFile: true}}
	res.Hists = append(res.Hists, RunHist("overwrite-same-file", []Frame{long, short, tiny}, ops))
	bump(res.Stats, "overwrite-same-file")
}

// C20: Resample over a column whose first cells are times and a later one is not
func gapC20(g *Gen, tier string, res *GenOutput) {
	t1 := TimeCell(time.Date(2021, 3, 4, 5, 6, 7, 0, time.UTC))
	t2 := TimeCell(time.Date(2021, 3, 5, 5, 6, 7, 0, time.UTC))
	for _, lastCell := range []Cell{NilCell(), StrCell("2021-03-06"), IntCell("int", 3), F64Cell(1.5), BoolCell(true)} {
		for _, pos := range []int{1, 2, 3} {
			data := []Cell{t1, t2, t1, t2}
			data[pos] = lastCell
			f := mkFrame(Col{Key: "t", Name: "t", Data: data}, intCol("v", 1, 2, 3, 4))
			ops := []Op{}
			for _, fq := range []string{"D", "H", "Y"} {
				ops = append(ops, Op{K: "resample", F: 0, S1: "t", S2: BStr(fq), Fn: 0})
			}
			ops = append(ops, Op{K: "shift", F: 0, N: -1}, Op{K: "resample", F: 1, S1: "t", S2: "D", Fn: 1})
			res.Hists = append(res.Hists, RunHist("resample-mixed-time-column", []Frame{f}, ops))
			bump(res.Stats, "resample-mixed")
		}
	}
}

// C16: long numeric columns (hundreds of cells per sum), every aggregate, Describe and Add
func bigC16(g *Gen, tier string, res *GenOutput) {
	for _, n := range bigSizes(tier, []int{150, 300}, []int{1100, 2600}) {
		a := Col{Key: "a", Name: "a", Data: make([]Cell, 0, n)}
		b := Col{Key: "b", Name: "b", Data: make([]Cell, 0, n)}
		c := Col{Key: "c", Name: "c", Data: make([]Cell, 0, n)}
		for i := 0; i < n; i++ {
			a.Data = append(a.Data, IntCell("int", int64(3*i-400)))
			b.Data = append(b.Data, F64Cell(float64((i/8)%40)/4-2))
			c.Data = append(c.Data, IntCell("int64", int64((i/3)%50)))
		}
		f := mkFrame(a, b, c)
		ops := []Op{{K: "agg", F: 0, Agg: "sum"}, {K: "agg", F: 0, Agg: "mean"}, {K: "agg", F: 0, Agg: "min"}, {K: "agg", F: 0, Agg: "max"}, {K: "describe", F: 0}, {K: "add", F: 0, G: 0}}
		res.Hists = append(res.Hists, RunHist(fmt.Sprintf("big rows=%d", n), []Frame{f}, ops))
		bump(res.Stats, fmt.Sprintf("big rows=%d", n))
	}
}

// ---- streams added after the sixth round of seeded changes (values, state, subtle) ----

// C01: a selection edited in place must not tear the rows of its source apart (code 13); AppendRow through a
// receiver other than its target, with a column the target does not have yet
func gap6C01(g *Gen, tier string, res *GenOutput) {
	for i := 0; i < scale(tier, 10, 60); i++ {
		f := mkFrame(intCol("id", 1, 2, 3, 4), strCol("name", "n1", "n2", "n3", "n4"), intCol("score", 10, 20, 30, 40))
		nine := IntCell("int", 9)
		derive := []Op{{K: "multiselect", F: 0, Strs: []BStr{"id", "name"}}, {K: "sort", F: 0, Strs: []BStr{"score"}}, {K: "head", F: 0, N: 3},
			{K: "iloc", F: 0, Ints: []int64{0, 1, 2, 3}, Ints2: []int64{0, 1}}, {K: "loc", F: 0, Cells: []Cell{}, Strs: []BStr{"id", "name"}}, {K: "filter", F: 0, Keep: []bool{true, true, true, true}}}
		edits := []Op{{K: "droprow", F: 1, N: int64(g.r.Intn(2))}, {K: "dedupinplace", F: 1, S1: "first"}, {K: "dropna", F: 1}, {K: "fillna", F: 1, Cell: &nine},
			{K: "appendrow", F: 1, Row: []KV{{K: "id", V: nine}}}}
		ops := []Op{derive[g.r.Intn(len(derive))], edits[g.r.Intn(len(edits))], edits[g.r.Intn(len(edits))], {K: "row", F: 0, N: 0}, {K: "nrows", F: 0}}
		res.Hists = append(res.Hists, RunHist("edit-a-selection", []Frame{f}, ops))
		bump(res.Stats, "edit-a-selection")
	}
	for i := 0; i < scale(tier, 10, 60); i++ {
		big := mkFrame(intCol("id", 1, 2, 3, 4, 5), strCol("name", "a", "b", "c", "d", "e"))
		small := mkFrame(intCol("id", 7), strCol("name", "x"))
		row := []KV{{K: "extra", V: F64Cell(2.5)}, {K: "id", V: IntCell("int", 11)}, {K: "name", V: StrCell("y")}}
		if g.chance(0.5) {
			row = row[:2]
		}
		ops := []Op{{K: "appendrow", F: 1, G: 0, Alt: true, Row: row}, {K: "appendrow", F: 0, G: 1, Alt: true, Row: row}, {K: "nrows", F: 0}, {K: "nrows", F: 1},
			{K: "appendrow", F: 1, G: 1, Alt: true, Row: []KV{{K: "more", V: BoolCell(true)}}}}
		res.Hists = append(res.Hists, RunHist("appendrow-other-receiver", []Frame{big, small}, ops))
		bump(res.Stats, "appendrow-other-receiver")
	}
}

// C02: Resample over a datetime column held as text must fail and leave the text as it was
func gap6C02(g *Gen, tier string, res *GenOutput) {
	for _, vals := range [][]string{{"2021-03-04", "2021-03-05", "2021-03-04"}, {"2021-03-04 05:06:07", "2021-03-04 07:00:00"}, {"2021-03-04T05:06:07Z", "2021-03-04T05:06:07.5+02:00"}, {"2021-03-04", "n/a"}} {
		v := Col{Key: "v", Name: "v", Data: []Cell{}}
		for i := range vals {
			v.Data = append(v.Data, IntCell("int", int64(i)))
		}
		f := mkFrame(strCol("ts", vals...), v)
		ops := []Op{{K: "resample", F: 0, S1: "ts", S2: "D", Fn: 0}, {K: "row", F: 0, N: 0}, {K: "resample", F: 0, S1: "ts", S2: "H", Fn: 1}, {K: "tocsv", F: 0}}
		res.Hists = append(res.Hists, RunHist("resample-text-dates", []Frame{f}, ops))
		bump(res.Stats, "resample-text-dates")
	}
}

// C03: keys that are the zero value of their type (0, "", false, 0.0) next to nil and to each other
func gap6C03(g *Gen, tier string, res *GenOutput) {
	zeros := []Cell{IntCell("int", 0), StrCell(""), BoolCell(false), F64Cell(0), NilCell(), IntCell("int64", 0), IntCell("int", 1), StrCell("0"), StrCell("false")}
	for i := 0; i < scale(tier, 16, 100); i++ {
		lk, rk := Col{Key: "k", Name: "k", Data: []Cell{}}, Col{Key: "k", Name: "k", Data: []Cell{}}
		la, rv := Col{Key: "a", Name: "a", Data: []Cell{}}, Col{Key: "v", Name: "v", Data: []Cell{}}
		for j := 0; j < 2+g.r.Intn(3); j++ {
			lk.Data = append(lk.Data, zeros[g.r.Intn(len(zeros))])
			la.Data = append(la.Data, IntCell("int", int64(10+j)))
		}
		for j := 0; j < 2+g.r.Intn(3); j++ {
			rk.Data = append(rk.Data, zeros[g.r.Intn(len(zeros))])
			rv.Data = append(rv.Data, IntCell("int", int64(100+j)))
		}
		res.Hists = append(res.Hists, joinHist("zero-valued-keys", mkFrame(lk, la), mkFrame(rk, rv), "k"))
		bump(res.Stats, "zero-valued-keys")
	}
}

// C04: time cells as keys, equal to the second but not to the nanosecond, alone and in key lists
func gap6C04(g *Gen, tier string, res *GenOutput) {
	base := time.Date(2021, 3, 4, 12, 0, 0, 0, time.UTC)
	for i := 0; i < scale(tier, 8, 40); i++ {
		k := Col{Key: "k0", Name: "k0", Data: []Cell{}}
		k1 := Col{Key: "k1", Name: "k1", Data: []Cell{}}
		v := Col{Key: "v0", Name: "v0", Data: []Cell{}}
		for j := 0; j < 3+g.r.Intn(4); j++ {
			k.Data = append(k.Data, TimeCell(base.Add(time.Duration([]int64{0, 500000000, 1, 0, 1000000000, 999999999}[g.r.Intn(6)]))))
			k1.Data = append(k1.Data, StrCell([]string{"a", "b"}[g.r.Intn(2)]))
			v.Data = append(v.Data, IntCell("int", int64(j)))
		}
		f := mkFrame(k, k1, v)
		ops := []Op{{K: "groupby", F: 0, S1: "k0"}, {K: "groupby", F: 0, GList: true, Strs: []BStr{"k0"}}, {K: "groupby", F: 0, GList: true, Strs: []BStr{"k1", "k0"}},
			{K: "groupagg", F: 0, GList: true, Strs: []BStr{"k0", "k1"}, Agg: "count", Cols: []BStr{"v0"}}}
		res.Hists = append(res.Hists, RunHist("time-keys", []Frame{f}, ops))
		bump(res.Stats, "time-keys")
	}
}

// C05: integers at the ends of the int64/uint64 range in one group; a report edited in place before the
// grouped object is used again
func gap6C05(g *Gen, tier string, res *GenOutput) {
	ext := []Cell{IntCell("int64", 9223372036854775807), IntCell("int64", 9223372036854775807), IntCell("int8", 1), UintCell("uint64", 1<<63), IntCell("int64", -9223372036854775808),
		IntCell("int", 9223372036854775806), UintCell("uint64", 18446744073709551615), IntCell("int", 3), F64Cell(0.5), NilCell()}
	for i := 0; i < scale(tier, 10, 60); i++ {
		k := Col{Key: "k0", Name: "k0", Data: []Cell{}}
		v := Col{Key: "v0", Name: "v0", Data: []Cell{}}
		for j := 0; j < 3+g.r.Intn(5); j++ {
			k.Data = append(k.Data, StrCell([]string{"a", "b"}[g.r.Intn(2)]))
			v.Data = append(v.Data, ext[g.r.Intn(len(ext))])
		}
		ops := []Op{{K: "groupagg", F: 0, S1: "k0", Agg: "sum", Cols: []BStr{"v0"}}, {K: "groupagg", F: 0, S1: "k0", Agg: "mean", Cols: []BStr{"v0"}}, {K: "agg", F: 0, Agg: "sum"},
			{K: "groupagg", F: 0, GList: true, Strs: []BStr{"k0"}, Agg: "sum"}}
		res.Hists = append(res.Hists, RunHist("extreme-integers", []Frame{mkFrame(k, v)}, ops))
		bump(res.Stats, "extreme-integers")
	}
	for i := 0; i < scale(tier, 10, 60); i++ {
		k := Col{Key: "k0", Name: "k0", Data: []Cell{StrCell("a"), StrCell("b"), NilCell(), StrCell("a"), StrCell("c"), StrCell("b"), StrCell("a")}}
		f := mkFrame(k, intCol("v0", 1, 2, 3, 4, 5, 6, 7))
		seven := IntCell("int", 7)
		ag := func(a string, reuse bool) Op {
			return Op{K: "groupagg", F: 0, S1: "k0", Agg: a, Cols: []BStr{"v0"}, Reuse: reuse}
		}
		edit := []Op{{K: "droprow", F: 1, N: int64(g.r.Intn(3))}, {K: "fillna", F: 1, Cell: &seven}, {K: "setcell", F: 1, S1: "GroupKey", N: int64(g.r.Intn(3)), Cell: &seven}}[g.r.Intn(3)]
		ops := []Op{ag([]string{"sum", "mean", "count"}[g.r.Intn(3)], false), edit, ag("count", true), ag("sum", true), ag("mean", true)}
		res.Hists = append(res.Hists, RunHist("report-edited-then-aggregate-again", []Frame{f}, ops))
		bump(res.Stats, "report-edited")
	}
}

// C06: float keys closer than 1e-9 (different numbers are never ties); the same frame sorted again after its
// key column was edited in place; a column named twice in the sort list
func gap6C06(g *Gen, tier string, res *GenOutput) {
	t, fl := true, false
	close9 := []float64{3e-10, 1e-10, 2e-10, 0, -1e-10, 0.1 + 0.2, 0.3, 0.30000000000000004 + 1e-12, 1, 1 + 2.220446049250313e-16, 1 - 1.1102230246251565e-16}
	for i := 0; i < scale(tier, 10, 60); i++ {
		s0 := Col{Key: "s0", Name: "s0", Data: []Cell{}}
		s1 := Col{Key: "s1", Name: "s1", Data: []Cell{}}
		id := Col{Key: "id", Name: "id", Data: []Cell{}}
		n := 3 + g.r.Intn(6)
		for j := 0; j < n; j++ {
			s0.Data = append(s0.Data, F64Cell(close9[g.r.Intn(len(close9))]))
			s1.Data = append(s1.Data, IntCell("int", int64(g.r.Intn(3))))
			id.Data = append(id.Data, IntCell("int", int64(j)))
		}
		ops := []Op{{K: "sort", F: 0, Strs: []BStr{"s0"}, Asc: &t}, {K: "sort", F: 0, Strs: []BStr{"s0"}, Asc: &fl}, {K: "sort", F: 0, Strs: []BStr{"s0", "s1"}, Asc: &t},
			{K: "sort", F: 0, Strs: []BStr{"s1", "s0"}, Asc: &fl}}
		res.Hists = append(res.Hists, RunHist("nearly-equal-floats", []Frame{mkFrame(s0, s1, id)}, ops))
		bump(res.Stats, "nearly-equal-floats")
	}
	for i := 0; i < scale(tier, 12, 80); i++ {
		s0 := Col{Key: "s0", Name: "s0", Data: []Cell{IntCell("int", 30), NilCell(), IntCell("int", 10), IntCell("int", 20), NilCell()}}
		f := mkFrame(s0, intCol("id", 0, 1, 2, 3, 4))
		five, big := IntCell("int", 5), IntCell("int", 1000)
		edits := []Op{{K: "fillna", F: 0, Cell: &five}, {K: "setcell", F: 0, S1: "s0", N: int64(g.r.Intn(5)), Cell: &big}, {K: "setcell", F: 0, S1: "s0", N: int64(g.r.Intn(5)), Cell: &five},
			{K: "droprow", F: 0, N: 0}, {K: "appendrow", F: 0, Row: []KV{{K: "id", V: IntCell("int", 9)}, {K: "s0", V: IntCell("int", 15)}}}}
		asc := g.chance(0.5)
		ops := []Op{{K: "sort", F: 0, Strs: []BStr{"s0"}, Asc: &asc}}
		for r := 0; r < 3; r++ {
			ops = append(ops, edits[g.r.Intn(len(edits))])
			if g.chance(0.4) {
				ops = append(ops, edits[g.r.Intn(len(edits))])
			}
			ops = append(ops, Op{K: "sort", F: 0, Strs: []BStr{"s0"}, Asc: &asc})
		}
		res.Hists = append(res.Hists, RunHist("sort-edit-sort-same-frame", []Frame{f}, ops))
		bump(res.Stats, "sort-edit-sort-same-frame")
	}
	for _, by := range [][]BStr{{"k", "k"}, {"g", "k", "g"}, {"k", "g", "k"}, {"g", "g", "k"}} {
		f := mkFrame(intCol("k", 3, 1, 2, 1, 3), strCol("g", "b", "a", "b", "b", "a"), strCol("name", "three", "one", "two", "uno", "tres"))
		ops := []Op{{K: "sort", F: 0, Strs: by, Asc: &t}, {K: "sort", F: 0, Strs: by, Asc: &fl}, {K: "sort", F: 0, Strs: by}}
		res.Hists = append(res.Hists, RunHist("repeated-sort-column", []Frame{f}, ops))
		bump(res.Stats, "repeated-sort-column")
	}
}

// C09: an export whose sink fails, then ordinary exports of other frames (nothing may be left over)
func gap6C09(g *Gen, tier string, res *GenOutput) {
	a := mkFrame(strCol("a", "one", "two", "three"), strCol("b", "x", "y", "z"), strCol("c", "1", "", "q\"r"))
	b := mkFrame(strCol("only", "p", "q"))
	for _, file := range []bool{false, true} {
		ops := []Op{{K: "tocsv", F: 1}, {K: "iofail", F: 0, ViaFile: file}, {K: "tocsv", F: 1}, {K: "csvroundtrip", F: 1}, {K: "iofail", F: 1, ViaFile: file}, {K: "csvroundtrip", F: 0},
			{K: "csvroundtrip", F: 0, ViaFile: true}, {K: "tocsv", F: 0}}
		res.Hists = append(res.Hists, RunHist("export-after-a-failed-export", []Frame{a, b}, ops))
		bump(res.Stats, "export-after-a-failed-export")
	}
	// the other ways an export or import can fail for reasons outside the frame: a file that cannot be created or
	// opened (must be reported), a sink that fills up after 7 or after 5000 bytes, a writer that reports short
	// writes; on a small frame, a frame beyond the writer's buffer, and a one-column frame of empty strings
	long := Col{Key: "t", Name: "t"}
	num := Col{Key: "n", Name: "n"}
	for i := 0; i < scale(tier, 400, 1500); i++ {
		long.Data = append(long.Data, StrCell(fmt.Sprintf("value number %d, with a comma", i)))
		num.Data = append(num.Data, IntCell("int", int64(i)))
	}
	big := mkFrame(long, num)
	empties := mkFrame(strCol("e", "", "", ""))
	for fi, f := range []Frame{a, big, empties} {
		ops := []Op{}
		for n := 1; n <= 5; n++ {
			ops = append(ops, Op{K: "iofail", F: 0, N: int64(n)}, Op{K: "tocsv", F: 0})
		}
		ops = append(ops, Op{K: "iofail", F: 0}, Op{K: "iofail", F: 0, ViaFile: true}, Op{K: "csvroundtrip", F: 0}, Op{K: "csvroundtrip", F: 1})
		res.Hists = append(res.Hists, RunHist("io-failures-of-every-kind", []Frame{f, b}, ops))
		bump(res.Stats, "io-failures-of-every-kind")
		_ = fi
	}
}

// C15: floats a hair away from an integer (truncation, never rounding); a fill value keeps its own type
func gap6C15(g *Gen, tier string, res *GenOutput) {
	near := []float64{434.99999999999994, 0.9999999999, -0.9999999999, -2.99999999999, 4.35 * 100, 1.0000000001, 2.9999999999999996, -0.0000000001, 8388607.9999999, 0.1 + 0.7}
	v := Col{Key: "v", Name: "v", Data: []Cell{}}
	for _, x := range near {
		v.Data = append(v.Data, F64Cell(x))
	}
	res.Hists = append(res.Hists, RunHist("near-integers", []Frame{mkFrame(v)}, []Op{{K: "astype", F: 0, S1: "v", S2: "int"}, {K: "astype", F: 0, S1: "v", S2: "string"}}))
	bump(res.Stats, "near-integers")
	fills := []Cell{IntCell("int", 0), IntCell("int", 9007199254740993), F64Cell(0), StrCell("0"), BoolCell(false), IntCell("int64", 7)}
	for i, fill := range fills {
		c := fill
		f := mkFrame(Col{Key: "price", Name: "price", Data: []Cell{F64Cell(1.5), NilCell(), F64Cell(2.25), NilCell()}}, Col{Key: "qty", Name: "qty", Data: []Cell{IntCell("int", 1), NilCell(), NilCell(), IntCell("int", 4)}},
			Col{Key: "none", Name: "none", Data: []Cell{NilCell(), NilCell(), NilCell(), NilCell()}})
		ops := []Op{{K: "fillna", F: 0, Cell: &c}, {K: "row", F: 0, N: 1}, {K: "astype", F: 0, S1: "price", S2: "int"}, {K: "astype", F: 0, S1: "qty", S2: "float64"}}
		res.Hists = append(res.Hists, RunHist(fmt.Sprintf("fill-value-type #%d", i), []Frame{f}, ops))
		bump(res.Stats, "fill-value-type")
	}
}

// C16: aggregate, edit the column in place keeping its length, aggregate again
func gap6C16(g *Gen, tier string, res *GenOutput) {
	for i := 0; i < scale(tier, 12, 80); i++ {
		f := mkFrame(Col{Key: "v", Name: "v", Data: []Cell{F64Cell(1.5), F64Cell(2.5), F64Cell(3.5), F64Cell(4.5)}}, intCol("w", 1, 2, 3, 4))
		hundred, na := IntCell("int", 100), StrCell("n/a")
		edits := []Op{{K: "setcell", F: 0, S1: "v", N: int64(g.r.Intn(4)), Cell: &hundred}, {K: "astype", F: 0, S1: "v", S2: "int"}, {K: "setcell", F: 0, S1: "w", N: int64(g.r.Intn(4)), Cell: &na},
			{K: "droprow", F: 0, N: 0}, {K: "appendrow", F: 0, Row: []KV{{K: "v", V: IntCell("int", 1000)}, {K: "w", V: IntCell("int", 1000)}}}, {K: "astype", F: 0, S1: "w", S2: "string"}}
		ags := []string{"sum", "mean", "min", "max"}
		ops := []Op{{K: "agg", F: 0, Agg: ags[g.r.Intn(4)]}}
		for r := 0; r < 3; r++ {
			ops = append(ops, edits[g.r.Intn(len(edits))])
			if g.chance(0.3) {
				ops = append(ops, edits[g.r.Intn(len(edits))])
			}
			ops = append(ops, Op{K: "agg", F: 0, Agg: ags[g.r.Intn(4)]}, Op{K: "describe", F: 0})
		}
		res.Hists = append(res.Hists, RunHist("aggregate-edit-aggregate", []Frame{f}, ops))
		bump(res.Stats, "aggregate-edit-aggregate")
	}
}

// C17: frames without rows or without columns, both axes
func gap6C17(g *Gen, tier string, res *GenOutput) {
	one, zero := []int64{1}, []int64{0}
	for _, f := range []Frame{mkFrame(), mkFrame(Col{Key: "a", Name: "a", Data: []Cell{}}, Col{Key: "b", Name: "b", Data: []Cell{}}), mkFrame(intCol("a", 5)), mkFrame(intCol("a", 5), strCol("b", "x"))} {
		ops := []Op{}
		for _, fn := range []int{0, 2, 3} {
			ops = append(ops, Op{K: "apply", F: 0, Fn: fn, Axis: &one}, Op{K: "apply", F: 0, Fn: fn, Axis: &zero}, Op{K: "apply", F: 0, Fn: fn})
		}
		res.Hists = append(res.Hists, RunHist("empty-shapes", []Frame{f}, ops))
		bump(res.Stats, "empty-shapes")
	}
}

// C18: the identity aggregation (each cell of the result is the very slice the function was given); zones whose
// offset is not a whole number of hours or minutes
func gap6C18(g *Gen, tier string, res *GenOutput) {
	for i := 0; i < scale(tier, 12, 80); i++ {
		off := []int{0, 19800, 20700, -17762, 1172, 3600, -12600}[g.r.Intn(7)]
		tcol := Col{Key: "t", Name: "t", Data: []Cell{}}
		x := Col{Key: "x", Name: "x", Data: []Cell{}}
		y := Col{Key: "y", Name: "y", Data: []Cell{}}
		n := 3 + g.r.Intn(6)
		for j := 0; j < n; j++ {
			tcol.Data = append(tcol.Data, TimeCell(time.Date(2021, 3, 4+g.r.Intn(2), 9+g.r.Intn(3), g.r.Intn(60), g.r.Intn(60), 0, zoneFor(off))))
			x.Data = append(x.Data, IntCell("int", int64(10*(j+1))))
			if g.chance(0.2) {
				y.Data = append(y.Data, NilCell())
			} else {
				y.Data = append(y.Data, StrCell(fmt.Sprintf("r%d", j)))
			}
		}
		ops := []Op{}
		for _, fq := range []string{"D", "H", "T", "M"} {
			ops = append(ops, Op{K: "resample", F: 0, S1: "t", S2: BStr(fq), Fn: 4}, Op{K: "resample", F: 0, S1: "t", S2: BStr(fq), Fn: 1})
		}
		res.Hists = append(res.Hists, RunHist(fmt.Sprintf("identity offset=%d", off), []Frame{mkFrame(tcol, x, y)}, ops))
		bump(res.Stats, "identity-aggregation")
	}
}

// C20: SortValues over a column that mixes times with other scalars; a failing sink
func gap6C20(g *Gen, tier string, res *GenOutput) {
	t1 := TimeCell(time.Date(2021, 3, 4, 5, 6, 7, 0, time.UTC))
	t2 := TimeCell(time.Date(2020, 1, 1, 0, 0, 0, 5, zoneFor(3600)))
	tr, fl := true, false
	for _, other := range []Cell{StrCell("n/a"), BoolCell(true), IntCell("int", 3), F64Cell(1.5), StrCell("2021-03-04 05:06:07 +0000 UTC")} {
		for _, order := range [][]Cell{{other, t1}, {t1, other}, {t2, other, t1}, {other, t2, NilCell(), t1}} {
			id := Col{Key: "id", Name: "id", Data: []Cell{}}
			for i := range order {
				id.Data = append(id.Data, IntCell("int", int64(i)))
			}
			f := mkFrame(Col{Key: "m", Name: "m", Data: order}, id)
			ops := []Op{{K: "sort", F: 0, Strs: []BStr{"m"}, Asc: &tr}, {K: "sort", F: 0, Strs: []BStr{"m"}, Asc: &fl}, {K: "sort", F: 0, Strs: []BStr{"id", "m"}},
				{K: "iofail", F: 0}, {K: "iofail", F: 0, ViaFile: true}, {K: "string", F: 0}}
			res.Hists = append(res.Hists, RunHist("sort-mixed-time-column", []Frame{f}, ops))
			bump(res.Stats, "sort-mixed-time-column")
		}
	}
}

// ---- streams added after the seventh round of seeded changes (options, order, surface) ----

// C01 / C10: the method form df.FromCSV(file) on a receiver that already holds data: the receiver stays as it
// was and the result is a new frame
func gap7CSVReceiver(g *Gen, tier string, res *GenOutput) {
	for _, in := range []string{"id,city\n1,Oslo\n2,Rome\n", "name\nx\n", "id,name,extra\n7,a,1\n8,b,2\n9,c,3\n10,d,4\n11,e,5\n", "a,b\n1\n"} {
		f := mkFrame(intCol("id", 1, 2, 3, 4), strCol("name", "n1", "n2", "n3", "n4"))
		ops := []Op{{K: "fromcsv", F: 0, Bytes: BStr(in), ViaFile: true, Alt: true}, {K: "nrows", F: 0}, {K: "row", F: 0, N: 3}, {K: "fromcsv", F: 0, Bytes: BStr(in), ViaFile: true, Alt: true},
			{K: "fromcsv", F: 1, Bytes: BStr("z\n1\n"), ViaFile: true, Alt: true}, {K: "columnnames", F: 0}}
		res.Hists = append(res.Hists, RunHist("fromcsv-on-a-loaded-receiver", []Frame{f}, ops))
		bump(res.Stats, "fromcsv-on-a-loaded-receiver")
	}
}

// C04: key lists that name a column more than once
func gap7C04(g *Gen, tier string, res *GenOutput) {
	f := mkFrame(strCol("region", "EU", "EU", "US", "EU", "US"), strCol("dept", "IT", "HR", "IT", "IT", "HR"), intCol("score", 1, 2, 3, 4, 5), intCol("v0", 10, 20, 30, 40, 50))
	for _, ks := range [][]BStr{{"region", "region", "dept"}, {"dept", "dept", "region", "score"}, {"region", "dept", "region"}, {"dept", "dept"}, {"region", "region", "region", "dept"}} {
		ops := []Op{{K: "groupby", F: 0, GList: true, Strs: ks}, {K: "groupagg", F: 0, GList: true, Strs: ks, Agg: "sum", Cols: []BStr{"v0"}}, {K: "groupagg", F: 0, GList: true, Strs: ks, Agg: "count", Cols: []BStr{"v0"}}}
		res.Hists = append(res.Hists, RunHist("repeated-key-column", []Frame{f}, ops))
		bump(res.Stats, "repeated-key-column")
	}
}

// column names in mixed case: the library's column order is byte order ("B" < "a"), everywhere
func gap7MixedCase(prop string) func(g *Gen, tier string, res *GenOutput) {
	return func(g *Gen, tier string, res *GenOutput) {
		sets := [][]string{{"Name", "age"}, {"ID", "Score", "city"}, {"B", "a"}, {"k", "K"}, {"b", "A", "a", "B"},
			{"q1", "q2", "q10"}, {"2024", "31", "4"}, {"col10", "col9", "col09"}} // byte order, not "natural" order
		one, zero := []int64{1}, []int64{0}
		for _, names := range sets {
			cols := []Col{}
			for j, nm := range names {
				c := Col{Key: BStr(nm), Name: BStr(nm), Data: []Cell{}}
				for i := 0; i < 3; i++ {
					if j%2 == 0 {
						c.Data = append(c.Data, StrCell(fmt.Sprintf("%s%d", nm, i)))
					} else {
						c.Data = append(c.Data, IntCell("int", int64(10*j+i)))
					}
				}
				cols = append(cols, c)
			}
			f := mkFrame(cols...)
			var ops []Op
			switch prop {
			case "C09":
				ops = []Op{{K: "tocsv", F: 0}, {K: "csvroundtrip", F: 0}, {K: "csvroundtrip", F: 0, ViaFile: true}}
			case "C17":
				ops = []Op{{K: "apply", F: 0, Fn: 0, Axis: &one}, {K: "apply", F: 0, Fn: 1, Axis: &one}, {K: "apply", F: 0, Fn: 14, Axis: &one}, {K: "apply", F: 0, Fn: 0, Axis: &zero}}
			case "C19":
				ops = []Op{{K: "shift", F: 0, N: 1}, {K: "shift", F: 0, N: 0}, {K: "shift", F: 0, N: -1}, {K: "shift", F: 0, N: 5}}
			default:
				ops = []Op{{K: "columnnames", F: 0}, {K: "row", F: 0, N: 1}, {K: "iloc", F: 0, Ints: []int64{0, 2}, Ints2: []int64{0, 1}}, {K: "string", F: 0}, {K: "multiselect", F: 0, Strs: []BStr{BStr(names[len(names)-1]), BStr(names[0])}}}
			}
			res.Hists = append(res.Hists, RunHist("mixed-case-names", []Frame{f}, ops))
			bump(res.Stats, "mixed-case-names")
		}
		if prop == "C17" {
			// a function that returns nil for some rows and a slice for the others, under every completion order the
			// scheduler plan forces elsewhere; here: rows in which the first cell is nil
			for i := 0; i < scale(tier, 8, 40); i++ {
				a := Col{Key: "a", Name: "a", Data: []Cell{}}
				b := Col{Key: "b", Name: "b", Data: []Cell{}}
				n := 2 + g.r.Intn(6)
				for r := 0; r < n; r++ {
					if g.chance(0.4) {
						a.Data = append(a.Data, NilCell())
					} else {
						a.Data = append(a.Data, IntCell("int", int64(r)))
					}
					b.Data = append(b.Data, IntCell("int", int64(10+r)))
				}
				ops := []Op{{K: "apply", F: 0, Fn: 14, Axis: &one}, {K: "apply", F: 0, Fn: 14, Axis: &zero}, {K: "apply", F: 0, Fn: 14}}
				res.Hists = append(res.Hists, RunHist("mixed-result-shapes", []Frame{mkFrame(a, b)}, ops))
				bump(res.Stats, "mixed-result-shapes")
			}
		}
	}
}

// C20: SortValues given several direction flags (only the first one counts), fewer or more than sort columns
func gap7C20(g *Gen, tier string, res *GenOutput) {
	f := mkFrame(strCol("team", "x", "y", "x", "y", "x"), intCol("grade", 1, 1, 1, 2, 1), intCol("score", 2, 5, 9, 1, 4))
	tr, fl := true, false
	for _, by := range [][]BStr{{"team"}, {"team", "grade"}, {"team", "grade", "score"}, {}} {
		for _, extra := range [][]bool{{false}, {true, false}, {false, false, false, true}} {
			ops := []Op{{K: "sort", F: 0, Strs: by, Asc: &tr, Keep: extra}, {K: "sort", F: 0, Strs: by, Asc: &fl, Keep: extra}}
			res.Hists = append(res.Hists, RunHist("several-direction-flags", []Frame{f}, ops))
			bump(res.Stats, "several-direction-flags")
		}
	}
}

// ---- streams added after the eighth round of seeded changes (helpers, results and errors, promises) ----

// C06: text that starts with digits but is not a number (dates, times, addresses) is ordered as text
func gap8C06(g *Gen, tier string, res *GenOutput) {
	t, fl := true, false
	pools := [][]string{{"2024-03-01", "2024-01-15", "2023-12-31", "2024-01-02", "2024-10-01"}, {"10:45", "9:30", "10:05", "23:59", "1:00"},
		{"12 Oak Avenue", "3rd", "12 kg", "45%", "12b", "120 Main"}, {"1st", "2nd", "10th", "11th", "3rd"}}
	for _, pool := range pools {
		for i := 0; i < scale(tier, 3, 12); i++ {
			s0 := Col{Key: "s0", Name: "s0", Data: []Cell{}}
			id := Col{Key: "id", Name: "id", Data: []Cell{}}
			n := 4 + g.r.Intn(14)
			for j := 0; j < n; j++ {
				if g.chance(0.15) {
					s0.Data = append(s0.Data, NilCell())
				} else {
					s0.Data = append(s0.Data, StrCell(pool[g.r.Intn(len(pool))]))
				}
				id.Data = append(id.Data, IntCell("int", int64(j)))
			}
			ops := []Op{{K: "sort", F: 0, Strs: []BStr{"s0"}, Asc: &t}, {K: "sort", F: 0, Strs: []BStr{"s0"}, Asc: &fl}}
			res.Hists = append(res.Hists, RunHist("digit-leading-text", []Frame{mkFrame(s0, id)}, ops))
			bump(res.Stats, "digit-leading-text")
		}
	}
}

// a column whose name is the empty string (a CSV with a blank header field gives one) is a column like any other
func gap8EmptyName(prop string) func(g *Gen, tier string, res *GenOutput) {
	return func(g *Gen, tier string, res *GenOutput) {
		f := mkFrame(Col{Key: "", Name: "", Data: []Cell{IntCell("int", 0), IntCell("int", 1), IntCell("int", 2), IntCell("int", 3)}},
			strCol("city", "Oslo", "Rome", "Oslo", "Rome"), intCol("temp", 1, 2, 1, 2))
		var ops []Op
		switch prop {
		case "C07":
			ops = []Op{{K: "dedup", F: 0, HasOpt: true, Strs: []BStr{"city"}, S1: "first"}, {K: "dedup", F: 0, HasOpt: true, Strs: []BStr{"city", "temp"}, S1: "last"},
				{K: "dedup", F: 0}, {K: "dedup", F: 0, HasOpt: true, Strs: []BStr{""}, S1: "none"}, {K: "dedupinplace", F: 0, Strs: []BStr{"city"}, S1: "first"}}
		case "C17":
			one, zero := []int64{1}, []int64{0}
			ops = []Op{{K: "apply", F: 0, Fn: 0, Axis: &one}, {K: "apply", F: 0, Fn: 1, Axis: &zero}, {K: "apply", F: 0, Fn: 3, Axis: &one}, {K: "apply", F: 0, Fn: 0},
				{K: "rename", F: 0, S1: "city", S2: " "}, {K: "apply", F: 0, Fn: 0, Axis: &one}, {K: "apply", F: 0, Fn: 1, Axis: &zero}}
		case "C19":
			ops = []Op{{K: "shift", F: 0, N: 1}, {K: "shift", F: 0, N: 0}, {K: "shift", F: 0, N: -2}, {K: "rename", F: 0, S1: "city", S2: " "}, {K: "shift", F: 0, N: 1}, {K: "shift", F: 0, N: 9}}
		case "C08":
			ops = []Op{{K: "columnnames", F: 0}, {K: "row", F: 0, N: 1}, {K: "select", F: 0, S1: ""}, {K: "multiselect", F: 0, Strs: []BStr{"", "city"}}, {K: "head", F: 0, N: 2},
				{K: "iloc", F: 0, Ints: []int64{1}, Ints2: []int64{0, 1}}, {K: "dropcolumn", F: 0, S1: ""}}
		default:
			half := F64Cell(0.5)
			ops = []Op{{K: "appendrow", F: 0, Row: []KV{{K: "", V: half}, {K: "city", V: StrCell("d")}, {K: "extra", V: BoolCell(true)}}},
				{K: "appendrow", F: 1, Row: []KV{{K: "", V: half}, {K: "extra", V: BoolCell(true)}, {K: "id", V: IntCell("int", 4)}, {K: "name", V: StrCell("d")}}},
				{K: "appendrow", F: 1, Row: []KV{{K: " ", V: half}, {K: "more", V: half}}}, {K: "addcolumn", F: 1, S1: "", Cells: []Cell{half, half, half, half, half}},
				{K: "rename", F: 0, S1: "city", S2: ""}, {K: "sort", F: 0, Strs: []BStr{""}}, {K: "astype", F: 0, S1: "", S2: "string"}}
		}
		frames := []Frame{f}
		if prop == "C20" {
			frames = append(frames, mkFrame(intCol("id", 1, 2, 3), strCol("name", "a", "b", "c")))
		}
		res.Hists = append(res.Hists, RunHist("column-named-empty-string", frames, ops))
		bump(res.Stats, "column-named-empty-string")
		if prop == "C20" {
			// a row bringing several new columns, one of them named "": whatever order the library adds them in,
			// the call either succeeds completely or leaves the frame as it was (several attempts: the order in
			// which a Go map is walked differs from call to call)
			half := F64Cell(0.5)
			for i := 0; i < 8; i++ {
				fr := mkFrame(intCol("id", 1, 2, 3), strCol("name", "a", "b", "c"))
				row := []KV{{K: "", V: half}, {K: "extra", V: BoolCell(true)}, {K: "id", V: IntCell("int", 4)}, {K: "more", V: half}, {K: "name", V: StrCell("d")}, {K: "zz", V: half}}
				res.Hists = append(res.Hists, RunHist("row-with-new-columns-one-unnamed", []Frame{fr}, []Op{{K: "appendrow", F: 0, Row: row}, {K: "nrows", F: 0}}))
				bump(res.Stats, "row-with-new-columns-one-unnamed")
			}
		}
	}
}

// C15: NaN is a value, not a missing cell
func gap8C15(g *Gen, tier string, res *GenOutput) {
	nan := F64Cell(math.NaN())
	zero := IntCell("int", 0)
	for _, x := range [][]Cell{{F64Cell(1.5), nan, F64Cell(3.5), F64Cell(4.5)}, {nan, F64Cell(2), nan}, {nan, NilCell(), F64Cell(1), nan}} {
		id := Col{Key: "id", Name: "id", Data: []Cell{}}
		s := Col{Key: "s", Name: "s", Data: []Cell{}}
		for i := range x {
			id.Data = append(id.Data, IntCell("int", int64(i)))
			if i == 2 && len(x) == 4 {
				s.Data = append(s.Data, NilCell())
			} else {
				s.Data = append(s.Data, StrCell("a"))
			}
		}
		f := mkFrame(id, Col{Key: "x", Name: "x", Data: x}, s)
		ops := []Op{{K: "dropna", F: 0}, {K: "nrows", F: 0}, {K: "fillna", F: 0, Cell: &zero}, {K: "row", F: 0, N: 0}}
		res.Hists = append(res.Hists, RunHist("nan-is-not-missing", []Frame{f}, ops))
		bump(res.Stats, "nan-is-not-missing")
	}
}

// C20: Add between frames with the same columns and different heights, in both directions, with and without a
// fill value
func gap8C20(g *Gen, tier string, res *GenOutput) {
	long := mkFrame(intCol("a", 1, 2, 3), Col{Key: "b", Name: "b", Data: []Cell{F64Cell(0.5), StrCell("x"), NilCell()}})
	short := mkFrame(intCol("a", 10, 20), Col{Key: "b", Name: "b", Data: []Cell{IntCell("int", 1), StrCell("y")}})
	empty := mkFrame(Col{Key: "a", Name: "a", Data: []Cell{}}, Col{Key: "b", Name: "b", Data: []Cell{}})
	zero, txt := IntCell("int", 0), StrCell("x")
	ops := []Op{}
	for _, pr := range [][2]int{{0, 1}, {1, 0}, {0, 2}, {2, 0}, {1, 2}, {2, 1}, {2, 2}} {
		ops = append(ops, Op{K: "add", F: pr[0], G: pr[1]}, Op{K: "add", F: pr[0], G: pr[1], Fill: &zero}, Op{K: "add", F: pr[0], G: pr[1], Fill: &txt})
	}
	res.Hists = append(res.Hists, RunHist("add-different-heights", []Frame{long, short, empty}, ops[:11]))
	res.Hists = append(res.Hists, RunHist("add-different-heights", []Frame{long, short, empty}, ops[11:]))
	bump(res.Stats, "add-different-heights")
}

// ---- streams added after the ninth round (free choice, aimed at what a model-based checker is least likely to try) ----

// an aggregation function that scribbles on the slice it is given: the slice is its own, the source frame and
// the other buckets must not notice (time-ordered rows, so that a bucket is a run of consecutive source rows)
func gap9Scribbler(g *Gen, tier string, res *GenOutput) {
	for i := 0; i < scale(tier, 4, 20); i++ {
		tcol := Col{Key: "ts", Name: "ts", Data: []Cell{}}
		v := Col{Key: "v", Name: "v", Data: []Cell{}}
		site := Col{Key: "site", Name: "site", Data: []Cell{}}
		n := 4 + g.r.Intn(6)
		for j := 0; j < n; j++ {
			tcol.Data = append(tcol.Data, TimeCell(time.Date(2021, 3, 1+j/3, 1+j%3, 0, 0, 0, time.UTC)))
			v.Data = append(v.Data, IntCell("int", int64([]int{3, 1, 2, 9, 7, 8, 5, 4, 6}[j%9])))
			site.Data = append(site.Data, StrCell(fmt.Sprintf("s%d", j)))
		}
		ops := []Op{{K: "resample", F: 0, S1: "ts", S2: "D", Fn: 5}, {K: "row", F: 0, N: 0}, {K: "resample", F: 0, S1: "ts", S2: "M", Fn: 5}, {K: "resample", F: 0, S1: "ts", S2: "H", Fn: 5},
			{K: "tocsv", F: 0}}
		res.Hists = append(res.Hists, RunHist("aggregation-scribbles-on-its-argument", []Frame{mkFrame(tcol, v, site)}, ops))
		bump(res.Stats, "aggregation-scribbles")
	}
}

// C02: two reports of one grouped object are separate frames
func gap9C02(g *Gen, tier string, res *GenOutput) {
	f := mkFrame(Col{Key: "k0", Name: "k0", Data: []Cell{StrCell("IT"), StrCell("HR"), NilCell(), StrCell("IT"), StrCell("OPS")}}, intCol("v0", 1, 2, 3, 4, 5))
	seven := StrCell("seven")
	for _, list := range []bool{false, true} {
		ag := func(a string, reuse bool) Op {
			o := Op{K: "groupagg", F: 0, S1: "k0", Agg: a, Cols: []BStr{"v0"}, Reuse: reuse}
			if list {
				o.S1, o.GList, o.Strs = "", true, []BStr{"k0"}
			}
			return o
		}
		ops := []Op{ag("sum", false), ag("count", true), ag("mean", true), {K: "droprow", F: 1, N: 0}, {K: "setcell", F: 2, S1: "GroupKey", N: 1, Cell: &seven}, {K: "fillna", F: 3, Cell: &seven}, ag("sum", true)}
		res.Hists = append(res.Hists, RunHist("several-reports-of-one-grouping", []Frame{f}, ops))
		bump(res.Stats, "several-reports-of-one-grouping")
	}
}

// C03: keys that are nearly equal floats, column names that differ only in case, names with a comma
func gap9C03(g *Gen, tier string, res *GenOutput) {
	near := []float64{0.1 + 0.2, 0.3, 1000000.0001, 1000000.0002, 1, 1 + 2.220446049250313e-16, 5e-324, 0}
	for i := 0; i < scale(tier, 8, 40); i++ {
		lk, rk := Col{Key: "k", Name: "k", Data: []Cell{}}, Col{Key: "k", Name: "k", Data: []Cell{}}
		la, rv := Col{Key: "Name", Name: "Name", Data: []Cell{}}, Col{Key: "name", Name: "name", Data: []Cell{}}
		for j := 0; j < 3+g.r.Intn(3); j++ {
			lk.Data = append(lk.Data, F64Cell(near[g.r.Intn(len(near))]))
			la.Data = append(la.Data, IntCell("int", int64(10+j)))
		}
		for j := 0; j < 3+g.r.Intn(3); j++ {
			rk.Data = append(rk.Data, F64Cell(near[g.r.Intn(len(near))]))
			rv.Data = append(rv.Data, IntCell("int", int64(100+j)))
		}
		res.Hists = append(res.Hists, joinHist("near-equal-float-keys-and-case-colliding-names", mkFrame(lk, la), mkFrame(rk, rv), "k"))
		bump(res.Stats, "near-equal-float-keys")
	}
	for _, key := range []string{"city,state", "last, first", "a,b,c", ","} {
		l := mkFrame(Col{Key: BStr(key), Name: BStr(key), Data: []Cell{IntCell("int", 1), IntCell("int", 2), IntCell("int", 3)}}, strCol("l", "a", "b", "c"), intCol("city", 7, 8, 9))
		r := mkFrame(Col{Key: BStr(key), Name: BStr(key), Data: []Cell{IntCell("int", 3), IntCell("int", 1)}}, strCol("r", "x", "y"), intCol("K2", 1, 2), intCol("k2", 3, 4))
		res.Hists = append(res.Hists, joinHist("key-name-with-a-comma", l, r, key))
		bump(res.Stats, "key-name-with-a-comma")
	}
}

// C04: a missing key that differs from an existing column only in letter case is still missing; a key column
// whose name contains a comma; key cells with a percent sign
func gap9C04(g *Gen, tier string, res *GenOutput) {
	f := mkFrame(strCol("dept", "IT", "HR", "IT"), intCol("score", 1, 2, 3), Col{Key: "city, state", Name: "city, state", Data: []Cell{StrCell("a"), StrCell("b"), StrCell("a")}},
		strCol("tier", "10%", "10%", "%.0s"), strCol("last", "x", "y", "x"), strCol("first", "p", "p", "q"), strCol("last, first", "m", "n", "m"))
	ops := []Op{{K: "groupby", F: 0, S1: "Dept"}, {K: "groupby", F: 0, GList: true, Strs: []BStr{"dept", "SCORE"}}, {K: "groupagg", F: 0, S1: "DEPT", Agg: "sum"},
		{K: "groupby", F: 0, S1: "city, state"}, {K: "groupby", F: 0, S1: "last, first"}, {K: "groupby", F: 0, GList: true, Strs: []BStr{"tier", "dept"}},
		{K: "groupagg", F: 0, GList: true, Strs: []BStr{"tier", "dept"}, Agg: "count", Cols: []BStr{"score"}}, {K: "groupagg", F: 0, S1: "last, first", Agg: "sum", Cols: []BStr{"score"}}}
	res.Hists = append(res.Hists, RunHist("key-names-by-case-and-comma", []Frame{f}, ops))
	bump(res.Stats, "key-names-by-case-and-comma")
}

// C05: a value column whose name looks like the printed key list; percent signs in key cells; a rejected
// aggregation leaves the grouped object usable
func gap9C05(g *Gen, tier string, res *GenOutput) {
	f := mkFrame(intCol("year", 2020, 2020, 2021), intCol("month", 1, 2, 1), Col{Key: "[year month]", Name: "[year month]", Data: []Cell{IntCell("int64", 5), IntCell("int64", 6), IntCell("int64", 7)}},
		intCol("sales", 10, 20, 30), strCol("tier", "10%", "5%", "10%"), Col{Key: "year|month", Name: "year|month", Data: []Cell{IntCell("int", 1), IntCell("int", 2), IntCell("int", 3)}})
	ks := []BStr{"year", "month"}
	ops := []Op{{K: "groupagg", F: 0, GList: true, Strs: ks, Agg: "sum"}, {K: "groupagg", F: 0, GList: true, Strs: ks, Agg: "mean"}, {K: "groupagg", F: 0, GList: true, Strs: []BStr{"tier", "year"}, Agg: "sum", Cols: []BStr{"sales"}},
		{K: "groupagg", F: 0, S1: "year", Agg: "sum", Cols: []BStr{"sales", "sales"}}, {K: "groupagg", F: 0, S1: "year", Agg: "sum", Cols: []BStr{"sales"}, Reuse: true},
		{K: "groupagg", F: 0, S1: "year", Agg: "mean", Cols: []BStr{"GroupKey"}, Reuse: true}, {K: "groupagg", F: 0, S1: "year", Agg: "count", Cols: []BStr{"sales"}, Reuse: true}}
	res.Hists = append(res.Hists, RunHist("odd-value-names-and-rejected-aggregations", []Frame{f}, ops))
	bump(res.Stats, "odd-value-names-and-rejected-aggregations")
}

// column names with leading or trailing blanks are names like any other (a CSV header "name, score" gives " score")
func gap9Names(prop string) func(g *Gen, tier string, res *GenOutput) {
	return func(g *Gen, tier string, res *GenOutput) {
		f := mkFrame(Col{Key: " score", Name: " score", Data: []Cell{F64Cell(3), F64Cell(1), F64Cell(2)}}, Col{Key: "x", Name: "x", Data: []Cell{IntCell("int", 1), IntCell("int", 3), IntCell("int", 2)}},
			Col{Key: "x ", Name: "x ", Data: []Cell{IntCell("int", 9), IntCell("int", 8), IntCell("int", 7)}}, strCol(" day", "2021-03-04", "2021-03-05", "2021-03-06"))
		t := true
		var ops []Op
		if prop == "C06" {
			ops = []Op{{K: "sort", F: 0, Strs: []BStr{" score"}, Asc: &t}, {K: "sort", F: 0, Strs: []BStr{"x "}}, {K: "sort", F: 0, Strs: []BStr{"score"}}, {K: "sort", F: 0, Strs: []BStr{"x", "x "}}}
		} else {
			ops = []Op{{K: "astype", F: 0, S1: " score", S2: "int"}, {K: "astype", F: 0, S1: "x ", S2: "float64"}, {K: "astype", F: 0, S1: "score", S2: "int"}, {K: "datetime", F: 0, S1: " day", S2: "2006-01-02"},
				{K: "datetime", F: 0, S1: "day", S2: "2006-01-02"}, {K: "row", F: 0, N: 0}}
		}
		res.Hists = append(res.Hists, RunHist("names-with-outer-blanks", []Frame{f}, ops))
		bump(res.Stats, "names-with-outer-blanks")
	}
}

// C06: many sort columns with many distinct values each (the product of the cardinalities is astronomically large)
func gap9C06(g *Gen, tier string, res *GenOutput) {
	gap9Names("C06")(g, tier, res)
	t, fl := true, false
	for _, shape := range [][2]int{{16, 24}, {8, 60}} {
		nk, n := shape[0], shape[1]
		cols := []Col{}
		by := []BStr{}
		for j := 0; j < nk; j++ {
			c := Col{Key: BStr(fmt.Sprintf("s%02d", j)), Name: BStr(fmt.Sprintf("s%02d", j)), Data: []Cell{}}
			perm := g.r.Perm(n)
			for i := 0; i < n; i++ {
				v := perm[i]
				if j < 2 {
					v = perm[i] / (n / 3) // ties on the first keys, so that the later ones decide
				}
				c.Data = append(c.Data, IntCell("int", int64(v)))
			}
			cols = append(cols, c)
			by = append(by, c.Key)
		}
		ops := []Op{{K: "sort", F: 0, Strs: by, Asc: &t}, {K: "sort", F: 0, Strs: by, Asc: &fl}}
		res.Hists = append(res.Hists, RunHist(fmt.Sprintf("many-sort-columns %dx%d", nk, n), []Frame{mkFrame(cols...)}, ops))
		bump(res.Stats, "many-sort-columns")
	}
}

// C07: very wide frames with small value domains per column
func gap9C07(g *Gen, tier string, res *GenOutput) {
	for _, shape := range [][3]int{{65, 3, 2}, {66, 3, 2}, {17, 17, 16}} {
		nc, n, dom := shape[0], shape[1], shape[2]
		cols := []Col{}
		for j := 0; j < nc; j++ {
			c := Col{Key: BStr(fmt.Sprintf("f%02d", j)), Name: BStr(fmt.Sprintf("f%02d", j)), Data: []Cell{}}
			for i := 0; i < n; i++ {
				switch {
				case dom == 2 && i == 1 && j == 0:
					c.Data = append(c.Data, BoolCell(true)) // row 1 differs from row 0 in the first column only
				case dom == 2:
					c.Data = append(c.Data, BoolCell(i == 2)) // row 2: true everywhere, so that every column has two values
				default:
					c.Data = append(c.Data, IntCell("int", int64((i*(j+1)+i/16)%dom)))
				}
			}
			cols = append(cols, c)
		}
		ops := []Op{{K: "dedup", F: 0}, {K: "dedup", F: 0, HasOpt: true, Strs: []BStr{}, S1: "last"}, {K: "dedup", F: 0, HasOpt: true, Strs: []BStr{}, S1: "none"}, {K: "dedupinplace", F: 0, S1: "first"}}
		res.Hists = append(res.Hists, RunHist(fmt.Sprintf("wide-frame %d columns", nc), []Frame{mkFrame(cols...)}, ops))
		bump(res.Stats, "wide-frame")
	}
}

// C10: byte-order marks are bytes of the first header name; every kind of reader
func gap9C10(g *Gen, tier string, res *GenOutput) {
	ins := []string{"\xff\xfe,x\n1,2\n", "\xfe\xff,b\n1,2,3\n", "\xef\xbb\xbfid,name\n1,a\n", "\xff\xfea\x00,\x00b\x00\n\x001\x00,\x002\x00\n\x00", "a,b\n1,2\n3,4", "a,a\n1,2\n", "#id,name\n#1,x\n2,#y\n"}
	for _, in := range ins {
		ops := []Op{}
		for fl := 0; fl < 6; fl++ {
			ops = append(ops, Op{K: "fromcsv", Bytes: BStr(in), N: int64(fl)})
		}
		ops = append(ops, Op{K: "fromcsv", Bytes: BStr(in), ViaFile: true})
		res.Hists = append(res.Hists, RunHist("byte-order-marks-and-reader-kinds", []Frame{}, ops))
		bump(res.Stats, "byte-order-marks-and-reader-kinds")
	}
}

// C16: values that are nearly tied, the more extreme one later in the column
func gap9C16(g *Gen, tier string, res *GenOutput) {
	cols := [][]Cell{{IntCell("int64", 1700000603), IntCell("int64", 1700000602), IntCell("int64", 1700000601), IntCell("int64", 1700000600)},
		{IntCell("int64", 5000000007), IntCell("int64", 5000000003), IntCell("int64", 5000000009), IntCell("int64", 5000000001)},
		{F64Cell(0.1 + 0.2), F64Cell(0.3), F64Cell(0.30000000000000004), F64Cell(0.29999999999999993)},
		{F64Cell(1e6 + 3e-5), F64Cell(1e6 + 2e-5), F64Cell(1e6 + 4e-5), F64Cell(1e6)}}
	for i, d := range cols {
		f := mkFrame(Col{Key: "v", Name: "v", Data: d})
		ops := []Op{{K: "agg", F: 0, Agg: "min"}, {K: "agg", F: 0, Agg: "max"}, {K: "describe", F: 0}, {K: "agg", F: 0, Agg: "mean"}}
		res.Hists = append(res.Hists, RunHist(fmt.Sprintf("near-ties #%d", i), []Frame{f}, ops))
		bump(res.Stats, "near-ties")
	}
	// zero-padded and prefixed numeric strings are decimal (ParseFloat), never octal or hex integers
	s := mkFrame(strCol("a", "010", "0100", "0031", "-017"), strCol("b", "0x1F", "1", "2", "3"), strCol("c", "099", "0100", "08", "1_000"))
	ops := []Op{{K: "agg", F: 0, Agg: "sum"}, {K: "describe", F: 0}, {K: "add", F: 0, G: 0}, {K: "agg", F: 0, Agg: "max"}}
	res.Hists = append(res.Hists, RunHist("zero-padded-numeric-strings", []Frame{s}, ops))
	bump(res.Stats, "zero-padded-numeric-strings")
}

// C17: a function that appends to its argument (spare capacity must be its own); column-wise results of another
// length (a summary, a filter)
func gap9C17(g *Gen, tier string, res *GenOutput) {
	one, zero := []int64{1}, []int64{0}
	for _, n := range []int{2, 6, 40} {
		a := Col{Key: "a", Name: "a", Data: []Cell{}}
		b := Col{Key: "b", Name: "b", Data: []Cell{}}
		for i := 0; i < n; i++ {
			a.Data = append(a.Data, IntCell("int", int64(10*(i+1))))
			b.Data = append(b.Data, IntCell("int", int64(i)))
		}
		ops := []Op{{K: "apply", F: 0, Fn: 15, Axis: &one}, {K: "apply", F: 0, Fn: 15, Axis: &zero}, {K: "apply", F: 0, Fn: 10, Axis: &zero}, {K: "apply", F: 0, Fn: 11}, {K: "apply", F: 0, Fn: 12}, {K: "apply", F: 0, Fn: 13, Axis: &zero}}
		res.Hists = append(res.Hists, RunHist(fmt.Sprintf("appending-function rows=%d", n), []Frame{mkFrame(a, b)}, ops))
		bump(res.Stats, "appending-function")
	}
}

// C18: a value column called GroupKey (the name the grouped reports use)
func gap9C18(g *Gen, tier string, res *GenOutput) {
	tcol := Col{Key: "t", Name: "t", Data: []Cell{}}
	for j := 0; j < 4; j++ {
		tcol.Data = append(tcol.Data, TimeCell(time.Date(2021, 3, 1+j/2, 5, j, 0, 0, time.UTC)))
	}
	f := mkFrame(tcol, intCol("GroupKey", 1, 2, 3, 4), strCol("stat", "a", "b", "c", "d"), intCol("index", 4, 3, 2, 1))
	ops := []Op{}
	for _, fq := range []string{"D", "H", "T"} {
		ops = append(ops, Op{K: "resample", F: 0, S1: "t", S2: BStr(fq), Fn: 1}, Op{K: "resample", F: 0, S1: "t", S2: BStr(fq), Fn: 0})
	}
	res.Hists = append(res.Hists, RunHist("library-known-value-column-names", []Frame{f}, ops))
	bump(res.Stats, "library-known-value-column-names")
}

// C19: Shift after AddDatetimeIndex moves the datetime column like every other; frames with more columns than
// the machine has CPUs
func gap9C19(g *Gen, tier string, res *GenOutput) {
	f := mkFrame(strCol("day", "2021-03-04", "2021-03-05", "2021-03-06", "2021-03-07"), intCol("v", 1, 2, 3, 4))
	ops := []Op{{K: "datetime", F: 0, S1: "day", S2: "2006-01-02"}, {K: "shift", F: 0, N: 1}, {K: "shift", F: 1, N: -1}, {K: "shift", F: 0, N: -2}, {K: "shift", F: 0, N: 9}}
	res.Hists = append(res.Hists, RunHist("shift-after-datetime-index", []Frame{f}, ops))
	bump(res.Stats, "shift-after-datetime-index")
	for _, nc := range []int{17, 50, 100} {
		cols := []Col{}
		for j := 0; j < nc; j++ {
			cols = append(cols, intCol(fmt.Sprintf("k%03d", j), int64(j), int64(j+1), int64(j+2)))
		}
		ops := []Op{{K: "shift", F: 0, N: 1}, {K: "shift", F: 0, N: -1}, {K: "appendrow", F: 1, Row: []KV{{K: "k000", V: IntCell("int", -1)}}}, {K: "shift", F: 0, N: 0}}
		res.Hists = append(res.Hists, RunHist(fmt.Sprintf("wide-frame %d columns", nc), []Frame{mkFrame(cols...)}, ops))
		bump(res.Stats, "wide-frame")
	}
}

// C20: a grouped object stays usable after a request it rejected
func gap9C20(g *Gen, tier string, res *GenOutput) {
	f := mkFrame(strCol("k", "a", "b", "a"), intCol("v", 1, 2, 3))
	ag := func(a string, cols []BStr, reuse bool) Op {
		return Op{K: "groupagg", F: 0, S1: "k", Agg: a, Cols: cols, Reuse: reuse}
	}
	ops := []Op{ag("sum", []BStr{"v"}, false), ag("sum", []BStr{"v", "v"}, true), ag("sum", []BStr{"v"}, true), ag("mean", []BStr{"GroupKey"}, true), ag("count", []BStr{"v"}, true),
		{K: "groupby", F: 0, S1: "k", Reuse: true}}
	res.Hists = append(res.Hists, RunHist("grouped-object-after-a-rejected-request", []Frame{f}, ops))
	bump(res.Stats, "grouped-object-after-a-rejected-request")
}
