package main

// Plans for the frame-operation properties C01-C10, C15-C18, C20.

import (
	"fmt"
	"math"
	"time"
)

func init() {
	plans["C01"] = planC01
	plans["C02"] = planC02
	plans["C03"] = planC03
	plans["C04"] = planC04
	plans["C05"] = planC05
	plans["C06"] = planC06
	plans["C07"] = planC07
	plans["C08"] = planC08
	plans["C09"] = planC09
	plans["C10"] = planC10
	plans["C15"] = planC15
	plans["C16"] = planC16
	plans["C17seq"] = planC17seq
	plans["C17sched"] = planC17sched
	plans["C18"] = planC18
	plans["C20"] = planC20
}

func col(name string, cells ...Cell) Col { return Col{Key: BStr(name), Name: BStr(name), Data: cells} }
func mkFrame(cols ...Col) Frame {
	f := Frame{Cols: cols}
	if f.Cols == nil {
		f.Cols = []Col{}
	}
	for i := range f.Cols {
		if f.Cols[i].Data == nil {
			f.Cols[i].Data = []Cell{}
		}
	}
	sortFrame(&f)
	return f
}

// ---------------- C01: rectangularity through histories ----------------
func planC01(g *Gen, tier string) GenOutput {
	res := GenOutput{Stats: map[string]int{}}
	n := scale(tier, 320, 5000)
	// weights biased to the three inputs the statement names
	kinds := []string{}
	kinds = append(kinds, deriveKinds...)
	kinds = append(kinds, editKinds...)
	kinds = append(kinds, "appendrow", "appendrow", "appendrow", "loc", "iloc", "iloc", "fromcsv", "fromcsv", "fromcsv", "join", "dedupinplace", "dropna", "droprow")
	spec := FrameSpec{MinRows: 0, MaxRows: 6, MinCols: 0, MaxCols: 4,
		Kinds: []string{"int", "f64", "pstr", "bool", "mixed", "int64", "time"}, NilProb: 0.25}
	for i := 0; i < n; i++ {
		np := 1 + g.r.Intn(3)
		frames := []Frame{}
		for j := 0; j < np; j++ {
			frames = append(frames, g.frame(spec))
		}
		steps := 1 + g.r.Intn(12)
		h := runInterleaved("c01", frames, steps, func(step int, pool []Frame) *Op {
			k := kinds[g.r.Intn(len(kinds))]
			o := g.genOp(k, pool, 0.05)
			f := pool[o.F]
			switch k {
			case "appendrow":
				// a column name the frame does not have yet, on a frame that already has rows
				if g.chance(0.6) {
					o.Row = append(o.Row, KV{BStr(fmt.Sprintf("n%d", g.r.Intn(3))), g.cellOfKind("mixed", false, 0)})
					seen := map[BStr]bool{}
					row := []KV{}
					for _, kv := range o.Row {
						if !seen[kv.K] {
							seen[kv.K] = true
							row = append(row, kv)
						}
					}
					o.Row = row
					sortKVs(o.Row)
				}
			case "iloc":
				// repeated row and column positions
				if len(f.Cols) > 0 && g.chance(0.7) {
					c := int64(g.r.Intn(len(f.Cols)))
					o.Ints2 = append(o.Ints2, c, c)
				}
				if f.nrows() > 0 && g.chance(0.5) {
					r := int64(g.r.Intn(f.nrows()))
					o.Ints = []int64{r, r}
				}
			case "loc":
				if len(f.Cols) > 0 {
					nm := BStr(f.names()[g.r.Intn(len(f.Cols))])
					o.Strs = []BStr{nm, nm}
					if g.chance(0.5) {
						o.Strs = append(o.Strs, BStr(f.names()[g.r.Intn(len(f.Cols))]))
					}
				}
			case "fromcsv":
				if g.chance(0.5) {
					o.Bytes = BStr([]string{"a,a,b\n1,2,3\n4,5,6\n", "x,y,x\n1,2,3\n", "a,b\n1,2\n3,4\n", "h\n\"\"\n1\n", "p,q,p,q\n1,2,3,4\n"}[g.r.Intn(5)])
				}
			}
			bump(res.Stats, "op "+k)
			return &o
		})
		res.Hists = append(res.Hists, h)
	}
	return res
}

// ---------------- C02: no shared mutable state ----------------
func c02Derive(g *Gen, k string, f Frame) Op {
	o := Op{K: k, F: 0}
	n := f.nrows()
	switch k {
	case "head", "tail":
		o.N = int64(1 + g.r.Intn(n+1))
		if g.chance(0.4) {
			o.N = int64(n)
		}
	case "rowslice":
		o.A, o.B = 0, int64(n)
		if g.chance(0.5) {
			o.A, o.B = 1, int64(n)
		}
	case "filter":
		for i := 0; i < n; i++ {
			o.Keep = append(o.Keep, true)
		}
	case "loc":
		for _, c := range f.Cols {
			if string(c.Key) == "index" {
				o.Cells = append(o.Cells, c.Data...)
			}
		}
		for _, nm := range f.names() {
			o.Strs = append(o.Strs, BStr(nm))
		}
	case "iloc":
		for i := 0; i < n; i++ {
			o.Ints = append(o.Ints, int64(i))
		}
		for i := range f.Cols {
			o.Ints2 = append(o.Ints2, int64(i))
		}
	case "multiselect":
		for _, nm := range f.names() {
			o.Strs = append(o.Strs, BStr(nm))
		}
	case "sort":
		o.Strs = []BStr{BStr(f.names()[g.r.Intn(len(f.Cols))])}
	case "shift":
		o.N = []int64{0, 1, -1}[g.r.Intn(3)]
	case "dedup":
		o.HasOpt = g.chance(0.5)
		o.S1 = "first"
	case "join":
		o.G = 0
		o.JK = []string{"inner", "left", "right", "outer"}[g.r.Intn(4)]
		o.S1 = "index"
	case "add":
		o.G = 0
	case "apply":
		o.Fn = []int{0, 1, 8}[g.r.Intn(3)]
		if g.chance(0.5) {
			ax := []int64{1}
			o.Axis = &ax
		}
	case "groupagg":
		o.S1 = "index"
		o.Agg = []string{"sum", "mean", "count"}[g.r.Intn(3)]
		o.Cols = []BStr{"a"}
	case "resample":
		o.S1, o.S2, o.Fn = "t", "D", 1
	}
	return o
}

func planC02(g *Gen, tier string) GenOutput {
	res := GenOutput{Stats: map[string]int{}}
	base := func() Frame {
		return mkFrame(
			col("a", IntCell("int", 1), IntCell("int", 2), IntCell("int", 3)),
			col("b", StrCell("x"), NilCell(), StrCell("z")),
			col("index", IntCell("int", 10), IntCell("int", 20), IntCell("int", 30)),
			col("t", g.timeVal(0), g.timeVal(0), g.timeVal(0)))
	}
	derivers := []string{"head", "tail", "rowslice", "filter", "loc", "iloc", "multiselect", "sort", "shift", "dedup", "join", "add", "apply", "describe", "resample", "groupagg"}
	editors := []string{"appendrow", "droprow", "fillna", "dropna", "astype", "rename", "addcolumn", "dropcolumn", "setcell", "setcell", "appendrow"}
	reps := scale(tier, 2, 12)
	// chains: derive from a derived frame (the first result is the second one's source), then edit both.
	// These run first: state shared through anything that outlives one call shows here before other histories disturb it
	for rep := 0; rep < reps; rep++ {
		for _, d := range derivers {
			for _, e := range editors {
				f := base()
				h := runInterleaved(fmt.Sprintf("chain %s/%s", d, e), []Frame{f}, 6, func(step int, pool []Frame) *Op {
					if step < 2 {
						if len(pool) <= step {
							return nil
						}
						src := pool[step]
						if len(src.Cols) == 0 {
							return nil
						}
						kind := d
						hasIndex, hasT, hasA := false, false, false
						for _, n := range src.names() {
							hasIndex = hasIndex || n == "index"
							hasT = hasT || n == "t"
							hasA = hasA || n == "a"
						}
						if (kind == "loc" || kind == "join" || kind == "groupagg") && !hasIndex {
							kind = "describe"
						}
						if kind == "resample" && !hasT {
							kind = "describe"
						}
						if kind == "groupagg" && !hasA {
							kind = "describe"
						}
						o := c02Derive(g, kind, src)
						o.F = step
						if kind == "join" || kind == "add" {
							o.G = step
						}
						return &o
					}
					if len(pool) < 3 {
						return nil
					}
					target := 1 + (step % 2)
					kind := e
					if step >= 4 {
						kind = editors[g.r.Intn(len(editors))]
					}
					o := g.genOp(kind, []Frame{pool[target]}, 0)
					o.F = target
					if kind == "setcell" && pool[target].nrows() > 0 {
						o.N = int64(g.r.Intn(pool[target].nrows()))
					}
					return &o
				})
				res.Hists = append(res.Hists, h)
				bump(res.Stats, "chain "+d)
			}
		}
	}
	// every (deriving operation, edit, side) pair, then the other side, then both again
	for rep := 0; rep < reps; rep++ {
		for _, d := range derivers {
			for _, e := range editors {
				for side := 0; side < 2; side++ {
					f := base()
					dop := c02Derive(g, d, f)
					h := runInterleaved(fmt.Sprintf("pair %s/%s/side%d", d, e, side), []Frame{f}, 4, func(step int, pool []Frame) *Op {
						if step == 0 {
							return &dop
						}
						if len(pool) < 2 {
							return nil
						}
						target := side
						if step >= 2 {
							target = (side + step - 1) % 2
						}
						sub := []Frame{pool[target]}
						kind := e
						if step >= 2 {
							kind = editors[g.r.Intn(len(editors))]
						}
						o := g.genOp(kind, sub, 0)
						o.F = target
						if kind == "setcell" && pool[target].nrows() > 0 {
							o.N = int64(g.r.Intn(pool[target].nrows()))
						}
						return &o
					})
					res.Hists = append(res.Hists, h)
					bump(res.Stats, "pair "+d)
				}
			}
		}
	}
	// random longer interleavings over a pool of up to 5 live frames
	n := scale(tier, 150, 3000)
	spec := FrameSpec{MinRows: 1, MaxRows: 6, MinCols: 1, MaxCols: 4, Kinds: []string{"int", "f64", "pstr", "mixed"}, NilProb: 0.2,
		Must: []string{"index"}, MustKinds: map[string]string{"index": "int"}}
	mix := append(append([]string{}, derivers...), editors...)
	mix = append(mix, editors...)
	for i := 0; i < n; i++ {
		frames := []Frame{g.frame(spec)}
		if g.chance(0.4) {
			frames = append(frames, g.frame(spec))
		}
		steps := 3 + g.r.Intn(14)
		h := runInterleaved("interleave", frames, steps, func(step int, pool []Frame) *Op {
			k := mix[g.r.Intn(len(mix))]
			if len(pool) >= 5 {
				k = editors[g.r.Intn(len(editors))]
			}
			o := g.genOp(k, pool, 0.02)
			if k == "head" || k == "tail" {
				o.N = int64(1 + g.r.Intn(pool[o.F].nrows()+1))
			}
			bump(res.Stats, "op "+k)
			return &o
		})
		res.Hists = append(res.Hists, h)
	}
	return res
}

// ---------------- C03: joins ----------------
var keyAlphabet = []Cell{NilCell(), IntCell("int", 1), IntCell("int", 2), IntCell("int64", 1), F64Cell(1.0), StrCell("1"), StrCell("a"), BoolCell(true)}

func joinHist(tag string, l, r Frame, key string) Hist {
	ops := []Op{}
	for _, jk := range []string{"inner", "left", "right", "outer"} {
		ops = append(ops, Op{K: "join", F: 0, G: 1, JK: jk, S1: BStr(key)})
	}
	return RunHist(tag, []Frame{l, r}, ops)
}

func planC03(g *Gen, tier string) GenOutput {
	res := GenOutput{Stats: map[string]int{}, Exhaustive: true}
	// exhaustive: all pairs of key columns up to a length over the key alphabet
	maxL, maxR := 1, 1
	if tier == "thorough" {
		maxL, maxR = 2, 2
	}
	var seqs func(n int) [][]Cell
	seqs = func(n int) [][]Cell {
		if n == 0 {
			return [][]Cell{{}}
		}
		out := [][]Cell{}
		for _, s := range seqs(n - 1) {
			for _, c := range keyAlphabet {
				out = append(out, append(append([]Cell{}, s...), c))
			}
		}
		return out
	}
	all := func(max int) [][]Cell {
		out := [][]Cell{}
		for n := 0; n <= max; n++ {
			out = append(out, seqs(n)...)
		}
		return out
	}
	for _, lk := range all(maxL) {
		for _, rk := range all(maxR) {
			lcol := col("k", lk...)
			a := Col{Key: "a", Name: "a", Data: []Cell{}}
			for i := range lk {
				a.Data = append(a.Data, IntCell("int", int64(100+i)))
			}
			rcol := col("k", rk...)
			v := Col{Key: "v", Name: "v", Data: []Cell{}}
			for i := range rk {
				v.Data = append(v.Data, StrCell(fmt.Sprintf("r%d", i)))
			}
			res.Hists = append(res.Hists, joinHist("exh", mkFrame(lcol, a), mkFrame(rcol, v), "k"))
			bump(res.Stats, "exhaustive")
		}
	}
	// a slice of the next scope in the quick tier: left length 2 against right length <= 1, sampled
	nrand := scale(tier, 260, 4000)
	for i := 0; i < nrand; i++ {
		maxRows := scale(tier, 6, 9)
		nl, nr := g.r.Intn(maxRows+1), g.r.Intn(maxRows+1)
		mk := func(n int, others []string, tagc string) Frame {
			cols := []Col{}
			k := Col{Key: "k", Name: "k", Data: []Cell{}}
			alpha := keyAlphabet
			if g.chance(0.5) {
				alpha = keyAlphabet[:4+g.r.Intn(4)]
			}
			for j := 0; j < n; j++ {
				k.Data = append(k.Data, alpha[g.r.Intn(len(alpha))])
			}
			cols = append(cols, k)
			for _, o := range others {
				if g.chance(0.7) {
					c := Col{Key: BStr(o), Name: BStr(o), Data: []Cell{}}
					for j := 0; j < n; j++ {
						if g.chance(0.15) {
							c.Data = append(c.Data, NilCell())
						} else {
							c.Data = append(c.Data, StrCell(fmt.Sprintf("%s%d", tagc, j)))
						}
					}
					cols = append(cols, c)
				}
			}
			return mkFrame(cols...)
		}
		lo, ro := []string{"a", "b"}, []string{"v", "w"}
		tag := "rand"
		if g.chance(0.1) {
			ro = []string{"a", "w"} // a shared non-key column: the left value wins
			tag = "rand-shared-column"
		}
		l, r := mk(nl, lo, "l"), mk(nr, ro, "r")
		key := "k"
		if g.chance(0.06) {
			key = []string{"a", "v", "nope"}[g.r.Intn(3)]
			tag = "rand-missing-key"
		}
		if g.chance(0.05) {
			l = mkFrame(l.Cols[1:]...)
			tag = "rand-missing-key"
		}
		res.Hists = append(res.Hists, joinHist(tag, l, r, key))
		bump(res.Stats, fmt.Sprintf("%s left=%d right=%d", tag, nl, nr))
	}
	return res
}

// ---------------- C04 / C05: groupby ----------------
var groupKeyStrs = []string{"x", "y", "x|y", "y|z", "z", "|", "", "1", "<nil>", "true", "a b"}

func (g *Gen) groupFrame(maxRows int, collide bool, valueKinds []string) Frame {
	n := g.r.Intn(maxRows + 1)
	nk := 1 + g.r.Intn(3)
	cols := []Col{}
	for j := 0; j < nk; j++ {
		c := Col{Key: BStr(fmt.Sprintf("k%d", j)), Name: BStr(fmt.Sprintf("k%d", j)), Data: []Cell{}}
		kind := []string{"pstr", "int", "bool", "mixedkey"}[g.r.Intn(4)]
		for i := 0; i < n; i++ {
			switch {
			case collide:
				ks := []Cell{StrCell("x|y"), StrCell("x"), StrCell("y|z"), StrCell("z"), StrCell("y"), IntCell("int", 1), StrCell("1"), NilCell(), StrCell("<nil>"), BoolCell(true), StrCell("true")}
				c.Data = append(c.Data, ks[g.r.Intn(len(ks))])
			case kind == "mixedkey":
				if i == 0 && g.chance(0.4) {
					c.Data = append(c.Data, NilCell()) // a nil key in the very first row
				} else {
					c.Data = append(c.Data, keyAlphabet[g.r.Intn(len(keyAlphabet))])
				}
			case kind == "pstr":
				c.Data = append(c.Data, StrCell([]string{"p", "q", "r", "p q", ""}[g.r.Intn(5)]))
			case kind == "int":
				c.Data = append(c.Data, IntCell("int", int64(g.r.Intn(3))))
			default:
				c.Data = append(c.Data, BoolCell(g.chance(0.5)))
			}
		}
		cols = append(cols, c)
	}
	nv := 1 + g.r.Intn(2)
	vnames := []string{"v0", "v1"}
	if g.chance(0.3) {
		// names contained in (or containing) the key column's name
		vnames = [][]string{{"k", "v1"}, {"0", "v"}, {"", "vk0"}, {"k00", "0k"}}[g.r.Intn(4)]
	}
	for j := 0; j < nv; j++ {
		c := Col{Key: BStr(vnames[j]), Name: BStr(vnames[j]), Data: []Cell{}}
		kind := valueKinds[g.r.Intn(len(valueKinds))]
		for i := 0; i < n; i++ {
			if g.chance(0.2) {
				c.Data = append(c.Data, NilCell())
			} else {
				c.Data = append(c.Data, g.cellOfKind(kind, false, 0))
			}
		}
		cols = append(cols, c)
	}
	return mkFrame(cols...)
}

func planC04(g *Gen, tier string) GenOutput {
	res := GenOutput{Stats: map[string]int{}}
	n := scale(tier, 400, 6000)
	for i := 0; i < n; i++ {
		collide := g.chance(0.2)
		f := g.groupFrame(scale(tier, 8, 12), collide, []string{"int", "pstr"})
		ops := []Op{}
		keyCols := []string{}
		for _, nm := range f.names() {
			if len(nm) == 2 && nm[0] == 'k' && nm[1] >= '0' && nm[1] <= '9' {
				keyCols = append(keyCols, nm)
			}
		}
		tag := "single"
		if g.chance(0.45) {
			ops = append(ops, Op{K: "groupby", F: 0, S1: BStr(keyCols[g.r.Intn(len(keyCols))])})
		} else {
			tag = "list"
			if collide {
				tag = "list-colliding-alphabet"
			}
			k := 1 + g.r.Intn(len(keyCols))
			strs := []BStr{}
			for j := 0; j < k; j++ {
				strs = append(strs, BStr(keyCols[j]))
			}
			ops = append(ops, Op{K: "groupby", F: 0, GList: true, Strs: strs})
		}
		if g.chance(0.08) {
			ops = []Op{{K: "groupby", F: 0, S1: "nope"}, {K: "groupagg", F: 0, S1: "nope", Agg: "sum"}, {K: "groupagg", F: 0, GList: true, Strs: []BStr{"k0", "nope"}, Agg: "count", Cols: []BStr{"v0"}}}
			tag = "missing-column"
		}
		res.Hists = append(res.Hists, RunHist(tag, []Frame{f}, ops))
		bump(res.Stats, tag)
	}
	return res
}

func planC05(g *Gen, tier string) GenOutput {
	res := GenOutput{Stats: map[string]int{}}
	n := scale(tier, 400, 6000)
	valueKinds := []string{"int", "int64", "ints", "f64", "f32", "ints", "int64"}
	for i := 0; i < n; i++ {
		f := g.groupFrame(scale(tier, 8, 12), false, valueKinds)
		vcols := []BStr{}
		for _, nm := range f.names() {
			if !(len(nm) == 2 && nm[0] == 'k' && nm[1] >= '0' && nm[1] <= '9') {
				vcols = append(vcols, BStr(nm))
			}
		}
		ops := []Op{}
		for _, ag := range []string{"sum", "mean", "count"} {
			o := Op{K: "groupagg", F: 0, Agg: ag}
			if g.chance(0.7) {
				o.S1 = "k0"
			} else {
				o.GList = true
				o.Strs = []BStr{"k0"}
				hasK1 := false
				for _, nm := range f.names() {
					hasK1 = hasK1 || nm == "k1"
				}
				if g.chance(0.5) && hasK1 {
					o.Strs = append(o.Strs, "k1")
				}
			}
			if g.chance(0.7) || ag == "count" {
				o.Cols = vcols
			}
			ops = append(ops, o)
		}
		ops = append(ops, Op{K: "agg", F: 0, Agg: "sum"})
		res.Hists = append(res.Hists, RunHist("groupagg", []Frame{f}, ops))
		bump(res.Stats, fmt.Sprintf("rows=%d", f.nrows()))
	}
	return res
}

// ---------------- C06: SortValues ----------------
func planC06(g *Gen, tier string) GenOutput {
	res := GenOutput{Stats: map[string]int{}}
	n := scale(tier, 300, 5000)
	for i := 0; i < n; i++ {
		maxRows := []int{4, 12, 13, 40}[g.r.Intn(4)]
		nr := g.r.Intn(maxRows + 1)
		nc := 1 + g.r.Intn(3)
		cols := []Col{}
		for j := 0; j < nc; j++ {
			kind := []string{"int", "f64", "pstr", "bool", "int", "f64", "pstr", "width", "width", "f32"}[g.r.Intn(10)]
			// one integer width per column: the property speaks of columns holding cells of one kind
			width := []string{"int8", "int16", "int32", "int64", "uint", "uint8", "uint16", "uint32", "uint64"}[g.r.Intn(9)]
			c := Col{Key: BStr(fmt.Sprintf("s%d", j)), Name: BStr(fmt.Sprintf("s%d", j)), Data: []Cell{}}
			dup := 2 + g.r.Intn(4)
			nilFirst := g.chance(0.3)
			for r := 0; r < nr; r++ {
				switch {
				case g.chance(0.2) || (r == 0 && nilFirst):
					c.Data = append(c.Data, NilCell())
				case kind == "int":
					c.Data = append(c.Data, IntCell("int", []int64{9, 10, 100, -5, 2, 33}[g.r.Intn(dup+1)]))
				case kind == "f64":
					c.Data = append(c.Data, F64Cell([]float64{9.75, 10.25, 100.5, -2, 0.5, 33}[g.r.Intn(dup+1)]))
				case kind == "pstr":
					c.Data = append(c.Data, StrCell([]string{"b", "a", "ab", "B", "é", "", "a b"}[g.r.Intn(dup+1)]))
				case kind == "width":
					v := []int64{9, 10, 100, 5, 2, 33}[g.r.Intn(dup+1)]
					if width[0] == 'u' {
						c.Data = append(c.Data, UintCell(width, uint64(v)))
					} else {
						c.Data = append(c.Data, IntCell(width, v-20))
					}
				case kind == "f32":
					c.Data = append(c.Data, F32Cell([]float32{9.75, 10.25, 100.5, -2, 0.5, 33}[g.r.Intn(dup+1)]))
				default:
					c.Data = append(c.Data, BoolCell(g.chance(0.5)))
				}
			}
			cols = append(cols, c)
		}
		// a payload column that identifies the row (sometimes under a name the library itself uses)
		idName := BStr([]string{"id", "id", "index", "stat", "GroupKey"}[g.r.Intn(5)])
		id := Col{Key: idName, Name: idName, Data: []Cell{}}
		for r := 0; r < nr; r++ {
			id.Data = append(id.Data, IntCell("int", int64(r)))
		}
		cols = append(cols, id)
		f := mkFrame(cols...)
		by := []BStr{}
		nk := 1 + g.r.Intn(nc)
		perm := g.r.Perm(nc)
		for j := 0; j < nk; j++ {
			by = append(by, BStr(fmt.Sprintf("s%d", perm[j])))
		}
		ops := []Op{}
		t, fl := true, false
		ops = append(ops, Op{K: "sort", F: 0, Strs: by, Asc: &t}, Op{K: "sort", F: 0, Strs: by, Asc: &fl})
		if g.chance(0.3) {
			ops = append(ops, Op{K: "sort", F: 0, Strs: by})
		}
		res.Hists = append(res.Hists, RunHist("sort", []Frame{f}, ops))
		bump(res.Stats, fmt.Sprintf("rows<=%d keys=%d", maxRows, nk))
	}
	return res
}

// ---------------- C07: DropDuplicates ----------------
var dedupAlphabet = []Cell{NilCell(), StrCell("nil"), StrCell(""), StrCell("|"), StrCell(":"), StrCell("a|b:c"), IntCell("int", 1), StrCell("1"),
	StrCell("x|b:y"), StrCell("x"), StrCell("y|b:z"), StrCell("z"), StrCell("y"), StrCell("1.0"), StrCell("01"), StrCell("1e0"), StrCell("NaN"), StrCell("NaN"),
	IntCell("int", 9007199254740992), IntCell("int", 9007199254740993), F64Cell(1)}

func planC07(g *Gen, tier string) GenOutput {
	res := GenOutput{Stats: map[string]int{}}
	n := scale(tier, 350, 6000)
	for i := 0; i < n; i++ {
		nr := g.r.Intn(scale(tier, 7, 12))
		nc := 1 + g.r.Intn(3)
		cols := []Col{}
		for j := 0; j < nc; j++ {
			kind := []string{"special", "int", "f64", "bool", "special"}[g.r.Intn(5)]
			c := Col{Key: BStr([]string{"a", "b", "c"}[j]), Name: BStr([]string{"a", "b", "c"}[j]), Data: []Cell{}}
			for r := 0; r < nr; r++ {
				switch {
				case kind == "special":
					if g.chance(0.5) {
						c.Data = append(c.Data, dedupAlphabet[g.r.Intn(6)])
					} else {
						c.Data = append(c.Data, dedupAlphabet[g.r.Intn(len(dedupAlphabet))])
					}
				case g.chance(0.2):
					c.Data = append(c.Data, NilCell())
				case kind == "int":
					c.Data = append(c.Data, IntCell("int", int64(g.r.Intn(3))))
				case kind == "f64":
					c.Data = append(c.Data, F64Cell([]float64{0, math.Copysign(0, -1), 1, 1.5}[g.r.Intn(4)]))
				default:
					c.Data = append(c.Data, BoolCell(g.chance(0.5)))
				}
			}
			cols = append(cols, c)
		}
		f := mkFrame(cols...)
		ops := []Op{}
		for _, keep := range []string{"", "first", "last", "none", "bogus"} {
			if keep == "bogus" && !g.chance(0.3) {
				continue
			}
			o := Op{K: "dedup", F: 0, HasOpt: true, S1: BStr(keep)}
			if g.chance(0.5) {
				o.Strs = g.someNames(f, 1, 2, 0.08)
			}
			ops = append(ops, o)
		}
		if g.chance(0.3) {
			ops = append(ops, Op{K: "dedup", F: 0})
		}
		// in place last: it edits frame 0
		ip := Op{K: "dedupinplace", F: 0, S1: BStr([]string{"", "first", "last", "none", "Last"}[g.r.Intn(5)])}
		if g.chance(0.4) {
			ip.Strs = g.someNames(f, 1, 2, 0.08)
		}
		ops = append(ops, ip)
		res.Hists = append(res.Hists, RunHist("dedup", []Frame{f}, ops))
		bump(res.Stats, fmt.Sprintf("rows=%d cols=%d", nr, nc))
	}
	return res
}

// index labels of mixed types whose printed forms coincide: Loc must match by identity, not by text
var locAlphabet = []Cell{IntCell("int", 1), IntCell("int", 2), StrCell("1"), StrCell("a"), NilCell(), StrCell("<nil>"), F64Cell(1), IntCell("int64", 1), BoolCell(true), StrCell("true"), StrCell("2")}

// ---------------- C08: selection ----------------
func planC08(g *Gen, tier string) GenOutput {
	res := GenOutput{Stats: map[string]int{}}
	spec := FrameSpec{MinRows: 0, MaxRows: 5, MinCols: 0, MaxCols: 4, Kinds: []string{"int", "pstr", "f64", "mixed", "f64", "time", "bool"}, NilProb: 0.15, Wild: true}
	kinds := []string{"row", "head", "tail", "rowslice", "iloc", "loc", "filter", "multiselect", "droprow", "dropcolumn", "columnnames", "nrows", "ncols", "select", "colat", "series", "string"}
	// exhaustive boundary stream on small frames
	maxRows := 4
	for n := 0; n <= maxRows; n++ {
		a := Col{Key: "a", Name: "a", Data: []Cell{}}
		idx := Col{Key: "index", Name: "index", Data: []Cell{}}
		fl := Col{Key: "f", Name: "f", Data: []Cell{}}
		for i := 0; i < n; i++ {
			a.Data = append(a.Data, StrCell(fmt.Sprintf("r%d", i)))
			idx.Data = append(idx.Data, IntCell("int", int64(i%2)))
			fl.Data = append(fl.Data, []Cell{F64Cell(math.NaN()), F64Cell(1.5), F64Cell(math.Copysign(0, -1)), NilCell(), F64Cell(math.Inf(-1))}[i%5])
		}
		f := mkFrame(a, idx, fl)
		ops := []Op{}
		for c := int64(-1); c <= int64(n+2); c++ {
			ops = append(ops, Op{K: "head", F: 0, N: c}, Op{K: "tail", F: 0, N: c}, Op{K: "row", F: 0, N: c})
		}
		for s := int64(-2); s <= int64(n+2); s++ {
			for e := int64(-2); e <= int64(n+2); e++ {
				ops = append(ops, Op{K: "rowslice", F: 0, A: s, B: e})
			}
		}
		// every predicate as a row set
		for mask := 0; mask < 1<<n; mask++ {
			keep := []bool{}
			for i := 0; i < n; i++ {
				keep = append(keep, mask>>i&1 == 1)
			}
			ops = append(ops, Op{K: "filter", F: 0, Keep: keep})
		}
		// every Iloc row-position list up to length min(n,4)+... over the rows (repeats, permutations)
		if n >= 1 && n <= 4 {
			var lists [][]int64
			var rec func(p []int64, k int)
			rec = func(p []int64, k int) {
				if len(p) > 0 {
					lists = append(lists, append([]int64{}, p...))
				}
				if k == 0 {
					return
				}
				for r := 0; r < n; r++ {
					rec(append(p, int64(r)), k-1)
				}
			}
			maxLen := n
			if maxLen > 4 {
				maxLen = 4
			}
			rec([]int64{}, maxLen)
			for _, l := range lists {
				ops = append(ops, Op{K: "iloc", F: 0, Ints: l, Ints2: []int64{0, 1, 2}})
			}
		}
		for i := 0; i < len(ops); i += 12 {
			j := i + 12
			if j > len(ops) {
				j = len(ops)
			}
			res.Hists = append(res.Hists, RunHist(fmt.Sprintf("boundary rows=%d", n), []Frame{f}, ops[i:j]))
			bump(res.Stats, "boundary")
		}
	}
	n := scale(tier, 250, 4000)
	for i := 0; i < n; i++ {
		f := g.frame(spec)
		if g.chance(0.5) {
			// an index column for Loc
			idx := Col{Key: "index", Name: "index", Data: []Cell{}}
			for r := 0; r < f.nrows() || (len(f.Cols) == 0 && r < 3); r++ {
				idx.Data = append(idx.Data, locAlphabet[g.r.Intn(len(locAlphabet))])
			}
			nf := Frame{Cols: []Col{}}
			for _, c := range f.Cols {
				if string(c.Key) != "index" {
					nf.Cols = append(nf.Cols, c)
				}
			}
			nf.Cols = append(nf.Cols, idx)
			sortFrame(&nf)
			f = nf
		}
		steps := 1 + g.r.Intn(6)
		h := runInterleaved("select", []Frame{f}, steps, func(step int, pool []Frame) *Op {
			k := kinds[g.r.Intn(len(kinds))]
			o := g.genOp(k, pool[:1], 0.03)
			bump(res.Stats, "op "+k)
			return &o
		})
		res.Hists = append(res.Hists, h)
	}
	return res
}

// ---------------- C09 / C10: CSV ----------------
var csvNames = []string{"a", "b", "c d", "x,y", "q\"r", "l\nm", "é", "n\rz", "tab\tx"}
var csvTexts = []string{"", "x", "hello world", "a,b", "say \"hi\"", "line1\nline2", "cr\rx", "tab\there", "é ü", "\"", ",", "\n", "\r", "a\"b,c\nd", "x\\.y", "\\.", "#", "'q'"}

func (g *Gen) csvFrame(maxRows, maxCols int) Frame {
	nr := g.r.Intn(maxRows + 1)
	nc := 1 + g.r.Intn(maxCols)
	used := map[string]bool{}
	cols := []Col{}
	for len(cols) < nc {
		nm := csvNames[g.r.Intn(len(csvNames))]
		if used[nm] {
			continue
		}
		used[nm] = true
		c := Col{Key: BStr(nm), Name: BStr(nm), Data: []Cell{}}
		kind := []string{"int", "f64", "text", "mixed"}[g.r.Intn(4)]
		for r := 0; r < nr; r++ {
			k := kind
			if k == "mixed" {
				k = []string{"int", "f64", "text"}[g.r.Intn(3)]
			}
			switch k {
			case "int":
				v := g.intVal(false)
				if g.chance(0.1) {
					v = []int64{1 << 53, -(1 << 53), 123456789012}[g.r.Intn(3)]
				}
				c.Data = append(c.Data, IntCell("int", v))
			case "f64":
				c.Data = append(c.Data, F64Cell(g.f64Val(true)))
			default:
				c.Data = append(c.Data, StrCell(csvTexts[g.r.Intn(len(csvTexts))]))
			}
		}
		cols = append(cols, c)
	}
	return mkFrame(cols...)
}

func planC09(g *Gen, tier string) GenOutput {
	res := GenOutput{Stats: map[string]int{}}
	// rows made only of empty strings, in 1..3 columns, at every position
	for nc := 1; nc <= 3; nc++ {
		for pos := 0; pos < 3; pos++ {
			cols := []Col{}
			for c := 0; c < nc; c++ {
				col := Col{Key: BStr([]string{"a", "b", "c"}[c]), Name: BStr([]string{"a", "b", "c"}[c]), Data: []Cell{}}
				for r := 0; r < 3; r++ {
					if r == pos {
						col.Data = append(col.Data, StrCell(""))
					} else {
						col.Data = append(col.Data, StrCell(fmt.Sprintf("v%d%d", c, r)))
					}
				}
				cols = append(cols, col)
			}
			ops := []Op{{K: "tocsv", F: 0}, {K: "csvroundtrip", F: 0}, {K: "csvroundtrip", F: 0, ViaFile: true}}
			res.Hists = append(res.Hists, RunHist("all-empty-row", []Frame{mkFrame(cols...)}, ops))
			bump(res.Stats, "all-empty-row")
		}
	}
	// frames with columns but no rows, through the file variants too
	for nc := 1; nc <= 2; nc++ {
		cols := []Col{{Key: "a", Name: "a", Data: []Cell{}}}
		if nc == 2 {
			cols = append(cols, Col{Key: "b,c", Name: "b,c", Data: []Cell{}})
		}
		ops := []Op{{K: "tocsv", F: 0, ViaFile: true}, {K: "csvroundtrip", F: 0, ViaFile: true}, {K: "csvroundtrip", F: 0}}
		res.Hists = append(res.Hists, RunHist("no-rows", []Frame{mkFrame(cols...)}, ops))
		bump(res.Stats, "no-rows")
	}
	n := scale(tier, 400, 6000)
	for i := 0; i < n; i++ {
		f := g.csvFrame(scale(tier, 6, 9), 4)
		ops := []Op{{K: "tocsv", F: 0}, {K: "csvroundtrip", F: 0}}
		if i%5 == 0 {
			// the file variants ToCSV(filename) / FromCSV(filename)
			ops = []Op{{K: "tocsv", F: 0, ViaFile: true}, {K: "csvroundtrip", F: 0, ViaFile: true}}
		}
		res.Hists = append(res.Hists, RunHist("roundtrip", []Frame{f}, ops))
		bump(res.Stats, fmt.Sprintf("rows=%d cols=%d", f.nrows(), len(f.Cols)))
	}
	return res
}

func planC10(g *Gen, tier string) GenOutput {
	res := GenOutput{Stats: map[string]int{}}
	// small-scope exhaustive: every byte string up to a length over 6 bytes
	alpha := []byte{'a', ',', '"', '\n', '\r', '1'}
	maxLen := scale(tier, 4, 6)
	var all []string
	var rec func(prefix []byte, n int)
	rec = func(prefix []byte, n int) {
		all = append(all, string(prefix))
		if n == 0 {
			return
		}
		for _, b := range alpha {
			rec(append(append([]byte{}, prefix...), b), n-1)
		}
	}
	rec([]byte{}, maxLen)
	for i := 0; i < len(all); i += 25 {
		j := i + 25
		if j > len(all) {
			j = len(all)
		}
		ops := []Op{}
		for _, s := range all[i:j] {
			ops = append(ops, Op{K: "fromcsv", Bytes: BStr(s)})
		}
		res.Hists = append(res.Hists, RunHist("exhaustive-bytes", []Frame{}, ops))
		bump(res.Stats, "exhaustive-bytes")
	}
	res.Exhaustive = true
	n := scale(tier, 500, 8000)
	for i := 0; i < n; i++ {
		ops := []Op{}
		for j := 0; j < 3; j++ {
			ops = append(ops, Op{K: "fromcsv", Bytes: BStr(g.csvText()), ViaFile: i%6 == 0})
		}
		res.Hists = append(res.Hists, RunHist("grammar+mutation", []Frame{}, ops))
		bump(res.Stats, "grammar+mutation")
	}
	return res
}

// ---------------- C15: cleaning and conversion ----------------
func planC15(g *Gen, tier string) GenOutput {
	res := GenOutput{Stats: map[string]int{}}
	// an unconvertible cell at each position of an otherwise convertible column: the column must stay as it was
	for n := 1; n <= 4; n++ {
		for bad := 0; bad < n; bad++ {
			d := Col{Key: "d", Name: "d", Data: []Cell{}}
			fcol := Col{Key: "f", Name: "f", Data: []Cell{}}
			icol := Col{Key: "i", Name: "i", Data: []Cell{}}
			for i := 0; i < n; i++ {
				if i == bad {
					d.Data = append(d.Data, StrCell("not a date"))
					fcol.Data = append(fcol.Data, StrCell("x"))
					icol.Data = append(icol.Data, F64Cell(1.5))
				} else {
					d.Data = append(d.Data, StrCell(fmt.Sprintf("2021-03-%02d", i+1)))
					fcol.Data = append(fcol.Data, F64Cell(float64(i)+0.75))
					icol.Data = append(icol.Data, IntCell("int", int64(i)))
				}
			}
			ops := []Op{{K: "datetime", F: 0, S1: "d", S2: "2006-01-02"}, {K: "astype", F: 0, S1: "f", S2: "int"},
				{K: "astype", F: 0, S1: "i", S2: "float64"}, {K: "astype", F: 0, S1: "i", S2: "complex"}}
			res.Hists = append(res.Hists, RunHist(fmt.Sprintf("bad-cell-at-%d-of-%d", bad, n), []Frame{mkFrame(d, fcol, icol)}, ops))
			bump(res.Stats, "bad-cell-each-position")
		}
	}
	// DropNa / FillNa on every nil pattern of a 3x2 frame
	for mask := 0; mask < 64; mask++ {
		a := Col{Key: "a", Name: "a", Data: []Cell{}}
		b := Col{Key: "b", Name: "b", Data: []Cell{}}
		for i := 0; i < 3; i++ {
			if mask>>(2*i)&1 == 1 {
				a.Data = append(a.Data, NilCell())
			} else {
				a.Data = append(a.Data, IntCell("int", int64(i)))
			}
			if mask>>(2*i+1)&1 == 1 {
				b.Data = append(b.Data, NilCell())
			} else {
				b.Data = append(b.Data, StrCell(fmt.Sprintf("s%d", i)))
			}
		}
		v := IntCell("int", 0)
		ops := []Op{{K: "dropna", F: 0}}
		if mask%2 == 0 {
			ops = []Op{{K: "fillna", F: 0, Cell: &v}, {K: "dropna", F: 0}}
		}
		res.Hists = append(res.Hists, RunHist("nil-patterns", []Frame{mkFrame(a, b)}, ops))
		bump(res.Stats, "nil-patterns")
	}
	n := scale(tier, 400, 6000)
	dates := []string{"2021-03-04", "1999-12-31", "2021-02-30", "2021-3-4", "", "2020-02-29 10:11:12", "03/04/2021", "x"}
	for i := 0; i < n; i++ {
		nr := g.r.Intn(5)
		cols := []Col{}
		kinds := []string{"int", "f64", "pstr", "bool", "mixed", "dates", "gooddates", "bigf"}
		nc := 1 + g.r.Intn(3)
		for j := 0; j < nc; j++ {
			kind := kinds[g.r.Intn(len(kinds))]
			nm := []string{"a", "b", "c"}[j]
			c := Col{Key: BStr(nm), Name: BStr(nm), Data: []Cell{}}
			for r := 0; r < nr; r++ {
				switch {
				case kind != "gooddates" && g.chance(0.2):
					c.Data = append(c.Data, NilCell())
				case kind == "dates":
					c.Data = append(c.Data, StrCell(dates[g.r.Intn(len(dates))]))
				case kind == "gooddates":
					c.Data = append(c.Data, StrCell(dates[g.r.Intn(2)]))
				case kind == "bigf":
					c.Data = append(c.Data, F64Cell([]float64{-2.75, 2.75, -0.5, 4611686018427387903, -4611686018427387903, 1e15 + 0.5, 123456789.9, -1e-9}[g.r.Intn(8)]))
				default:
					c.Data = append(c.Data, g.cellOfKind(kind, false, 0))
				}
			}
			cols = append(cols, c)
		}
		f := mkFrame(cols...)
		steps := 1 + g.r.Intn(5)
		h := runInterleaved("clean", []Frame{f}, steps, func(step int, pool []Frame) *Op {
			k := []string{"fillna", "dropna", "astype", "astype", "datetime", "datetime"}[g.r.Intn(6)]
			o := g.genOp(k, pool[:1], 0.08)
			bump(res.Stats, "op "+k)
			return &o
		})
		res.Hists = append(res.Hists, h)
	}
	return res
}

// ---------------- C16: aggregations and Add ----------------
func (g *Gen) numFrame(maxRows int, nanOK bool, badProb float64) Frame {
	nr := g.r.Intn(maxRows + 1)
	nc := 1 + g.r.Intn(3)
	cols := []Col{}
	for j := 0; j < nc; j++ {
		nm := []string{"a", "b", "c"}[j]
		c := Col{Key: BStr(nm), Name: BStr(nm), Data: []Cell{}}
		bad := -1
		if nr > 0 && g.chance(badProb) {
			bad = g.r.Intn(nr)
		}
		for r := 0; r < nr; r++ {
			if r == bad {
				c.Data = append(c.Data, []Cell{StrCell("x"), NilCell(), BoolCell(true), StrCell(""), IntCell("int8", 3), StrCell(" 1")}[g.r.Intn(6)])
				continue
			}
			switch g.r.Intn(6) {
			case 0:
				c.Data = append(c.Data, IntCell("int", g.intVal(true)))
			case 1:
				c.Data = append(c.Data, IntCell("int64", g.intVal(true)))
			case 2:
				c.Data = append(c.Data, F32Cell(float32(g.f64Val(false))))
			case 3:
				c.Data = append(c.Data, g.cellOfKind("nstr", false, 0))
			default:
				v := g.f64Val(false)
				if nanOK && g.chance(0.25) {
					v = math.NaN()
				}
				if g.chance(0.1) {
					v = g.r.NormFloat64() * math.Pow(10, float64(g.r.Intn(300)-150))
				}
				c.Data = append(c.Data, F64Cell(v))
			}
		}
		cols = append(cols, c)
	}
	return mkFrame(cols...)
}

func planC16(g *Gen, tier string) GenOutput {
	res := GenOutput{Stats: map[string]int{}}
	n := scale(tier, 350, 3500)
	for i := 0; i < n; i++ {
		f := g.numFrame(6, true, 0.2)
		ops := []Op{{K: "agg", F: 0, Agg: "sum"}, {K: "agg", F: 0, Agg: "mean"}, {K: "agg", F: 0, Agg: "min"}, {K: "agg", F: 0, Agg: "max"}, {K: "describe", F: 0}}
		res.Hists = append(res.Hists, RunHist("agg", []Frame{f}, ops))
		bump(res.Stats, "agg")
	}
	for i := 0; i < n/2; i++ {
		a := g.numFrame(4, false, 0.3)
		b := g.numFrame(4, false, 0.3)
		// same column names, independent lengths
		for len(b.Cols) > len(a.Cols) {
			b.Cols = b.Cols[:len(b.Cols)-1]
		}
		for len(a.Cols) > len(b.Cols) {
			a.Cols = a.Cols[:len(a.Cols)-1]
		}
		if g.chance(0.07) && len(b.Cols) > 0 {
			b.Cols[0].Key, b.Cols[0].Name = "zz", "zz"
			sortFrame(&b)
		}
		// rectangular operands
		trim := func(f *Frame) {
			m := -1
			for _, c := range f.Cols {
				if m < 0 || len(c.Data) < m {
					m = len(c.Data)
				}
			}
			for i := range f.Cols {
				f.Cols[i].Data = f.Cols[i].Data[:m]
			}
		}
		trim(&a)
		trim(&b)
		ops := []Op{{K: "add", F: 0, G: 1}}
		fill := g.cellOfKind("mixed", false, 0)
		ops = append(ops, Op{K: "add", F: 0, G: 1, Fill: &fill}, Op{K: "add", F: 1, G: 0})
		res.Hists = append(res.Hists, RunHist("add", []Frame{a, b}, ops))
		bump(res.Stats, "add")
	}
	return res
}

// ---------------- C17 (sequential part): Apply equals the model's loop ----------------
func planC17seq(g *Gen, tier string) GenOutput {
	res := GenOutput{Stats: map[string]int{}}
	n := scale(tier, 250, 3000)
	spec := FrameSpec{MinRows: 0, MaxRows: 40, MinCols: 0, MaxCols: 4, Kinds: []string{"int", "pstr", "f64", "mixed"}, NilProb: 0.15}
	for i := 0; i < n; i++ {
		sp := spec
		if g.chance(0.6) {
			sp.MaxRows = 6
		}
		f := g.frame(sp)
		ops := []Op{}
		for j := 0; j < 3; j++ {
			o := g.genOp("apply", []Frame{f}, 0)
			if g.chance(0.25) {
				// functions returning a slice of another length, or their own argument
				o.Fn = []int{9, 10, 11, 12, 13}[g.r.Intn(5)]
				if (o.Fn == 12 || o.Fn == 13) && o.Axis != nil && len(*o.Axis) > 0 && (*o.Axis)[0] != 0 {
					o.Axis = nil // typed slices are not scalar cells row-wise
				}
			}
			ops = append(ops, o)
		}
		res.Hists = append(res.Hists, RunHist("apply", []Frame{f}, ops))
		bump(res.Stats, fmt.Sprintf("rows<=%d", sp.MaxRows))
	}
	// many more rows than workers, with a function that hands back its argument slice: a worker that
	// reuses a buffer across rows, or a collector that keeps a reference, shows up in the content
	for i := 0; i < scale(tier, 6, 40); i++ {
		n := 300 + g.r.Intn(1500)
		a := Col{Key: "a", Name: "a", Data: []Cell{}}
		b := Col{Key: "b", Name: "b", Data: []Cell{}}
		for r := 0; r < n; r++ {
			a.Data = append(a.Data, IntCell("int", int64(r)))
			b.Data = append(b.Data, IntCell("int", int64(-r)))
		}
		ax := []int64{1}
		ops := []Op{{K: "apply", F: 0, Fn: 9, Axis: &ax}, {K: "apply", F: 0, Fn: 1, Axis: &ax}}
		res.Hists = append(res.Hists, RunHist("apply-many-rows", []Frame{mkFrame(a, b)}, ops))
		bump(res.Stats, "many-rows")
	}
	return res
}

// ---------------- C18: Resample ----------------
func planC18(g *Gen, tier string) GenOutput {
	res := GenOutput{Stats: map[string]int{}}
	n := scale(tier, 300, 5000)
	// buckets first seen in the order 1,3,1,2 (return to an earlier bucket, then a new one in between)
	for _, days := range [][]int{{1, 3, 1, 2}, {2, 1, 2, 3, 1}, {5, 1, 5, 3, 1, 4}, {1, 1, 1}, {3, 2, 1}} {
		t := Col{Key: "t", Name: "t", Data: []Cell{}}
		v := Col{Key: "v", Name: "v", Data: []Cell{}}
		for i, d := range days {
			t.Data = append(t.Data, TimeCell(time.Date(2021, 3, d, 10+i, 0, 0, 0, time.UTC)))
			if d == 3 {
				v.Data = append(v.Data, NilCell())
			} else {
				v.Data = append(v.Data, IntCell("int", int64(i)))
			}
		}
		ops := []Op{}
		for fn := 0; fn < 4; fn++ {
			ops = append(ops, Op{K: "resample", F: 0, S1: "t", S2: "D", Fn: fn})
		}
		res.Hists = append(res.Hists, RunHist("bucket-order-pattern", []Frame{mkFrame(t, v)}, ops))
		bump(res.Stats, "bucket-order-pattern")
	}
	for i := 0; i < n; i++ {
		nr := g.r.Intn(scale(tier, 12, 40))
		off := 0
		if g.chance(0.4) {
			off = []int{3600, -18000, 19800, 45 * 60}[g.r.Intn(4)]
		}
		t := Col{Key: "t", Name: "t", Data: []Cell{}}
		pool := []Cell{}
		for j := 0; j < 1+g.r.Intn(5); j++ {
			pool = append(pool, g.timeVal(off))
		}
		for r := 0; r < nr; r++ {
			if g.chance(0.5) {
				t.Data = append(t.Data, pool[g.r.Intn(len(pool))])
			} else {
				t.Data = append(t.Data, g.timeVal(off))
			}
		}
		cols := []Col{t}
		nv := g.r.Intn(3)
		for j := 0; j < nv; j++ {
			c := Col{Key: BStr(fmt.Sprintf("v%d", j)), Name: BStr(fmt.Sprintf("v%d", j)), Data: []Cell{}}
			nilp := 0.1
			if g.chance(0.25) {
				nilp = 0.75 // whole buckets without a value
			}
			for r := 0; r < nr; r++ {
				if g.chance(nilp) {
					c.Data = append(c.Data, NilCell())
				} else {
					c.Data = append(c.Data, IntCell("int", int64(r*10+j)))
				}
			}
			cols = append(cols, c)
		}
		f := mkFrame(cols...)
		freq := []string{"Y", "M", "D", "H", "T", "S"}[g.r.Intn(6)]
		fn := g.r.Intn(4)
		ops := []Op{}
		for rep := 0; rep < 5; rep++ {
			ops = append(ops, Op{K: "resample", F: 0, S1: "t", S2: BStr(freq), Fn: fn})
		}
		res.Hists = append(res.Hists, RunHist("resample "+freq, []Frame{f}, ops))
		bump(res.Stats, "freq "+freq)
	}
	return res
}

// ---------------- C20: invalid requests ----------------
func planC20(g *Gen, tier string) GenOutput {
	res := GenOutput{Stats: map[string]int{}}
	// every integer parameter at its boundary and extreme values, on frames of 0..3 rows
	for n := 0; n <= 3; n++ {
		a := Col{Key: "a", Name: "a", Data: []Cell{}}
		b := Col{Key: "b", Name: "b", Data: []Cell{}}
		for i := 0; i < n; i++ {
			a.Data = append(a.Data, IntCell("int", int64(i)))
			b.Data = append(b.Data, StrCell(fmt.Sprintf("s%d", i)))
		}
		f := mkFrame(a, b)
		ext := []int64{math.MinInt64, math.MinInt64 + 1, -2, -1, 0, int64(n), int64(n + 1), math.MaxInt64 - 1, math.MaxInt64, math.MaxInt32, math.MinInt32}
		ops := []Op{}
		for _, v := range ext {
			ops = append(ops, Op{K: "head", F: 0, N: v}, Op{K: "tail", F: 0, N: v}, Op{K: "row", F: 0, N: v}, Op{K: "shift", F: 0, N: v},
				Op{K: "rowslice", F: 0, A: v, B: int64(n)}, Op{K: "rowslice", F: 0, A: 0, B: v}, Op{K: "iloc", F: 0, Ints: []int64{v}, Ints2: []int64{0}},
				Op{K: "iloc", F: 0, Ints: []int64{}, Ints2: []int64{v}}, Op{K: "droprow", F: 0, N: v})
		}
		for i := 0; i < len(ops); i += 11 {
			j := i + 11
			if j > len(ops) {
				j = len(ops)
			}
			res.Hists = append(res.Hists, RunHist(fmt.Sprintf("extreme-ints rows=%d", n), []Frame{f}, ops[i:j]))
			bump(res.Stats, "extreme-ints")
		}
		// requests that must fail and leave the frame (names included) exactly as it was
		bad := []Op{{K: "rename", F: 0, S1: "a", S2: "b"}, {K: "rename", F: 0, S1: "a", S2: "a"}, {K: "rename", F: 0, S1: "zz", S2: "a"},
			{K: "addcolumn", F: 0, S1: "a", Cells: []Cell{}}, {K: "dropcolumn", F: 0, S1: "zz"}, {K: "astype", F: 0, S1: "zz", S2: "int"},
			{K: "astype", F: 0, S1: "b", S2: "int"}, {K: "astype", F: 0, S1: "a", S2: "bogus"}, {K: "datetime", F: 0, S1: "a", S2: "2006-01-02"},
			{K: "datetime", F: 0, S1: "b", S2: "2006-01-02"}, {K: "sort", F: 0, Strs: []BStr{"a", "zz"}}, {K: "multiselect", F: 0, Strs: []BStr{"a", "zz"}},
			{K: "multiselect", F: 0}, {K: "loc", F: 0, Cells: []Cell{IntCell("int", 1)}, Strs: []BStr{"a"}}, {K: "join", F: 0, G: 0, JK: "outer", S1: "zz"},
			{K: "resample", F: 0, S1: "a", S2: "D"}, {K: "resample", F: 0, S1: "zz", S2: "D"}, {K: "dedupinplace", F: 0, S1: "sometimes"},
			{K: "dedupinplace", F: 0, S1: "first", Strs: []BStr{"zz"}}, {K: "groupagg", F: 0, S1: "zz", Agg: "sum"}, {K: "multiselect", F: 0, Strs: []BStr{"a", "b"}},
			{K: "columnnames", F: 0}}
		res.Hists = append(res.Hists, RunHist(fmt.Sprintf("must-fail-and-keep rows=%d", n), []Frame{f}, bad))
		bump(res.Stats, "must-fail-and-keep")
	}
	// LinePlot / BarPlot: numeric columns of every shape (empty, one point, constant, NaN, infinities, huge),
	// columns that are not float64, names that do not exist, an output path that cannot be created
	plotVals := [][]float64{{}, {1}, {2, 2, 2}, {1, 2, 3, 4}, {3, -1, 2.5}, {0, 0}, {math.NaN(), 1}, {math.Inf(1), 1, 2}, {math.Inf(-1), math.Inf(1)},
		{1e308, -1e308}, {math.NaN(), math.NaN()}, {-1, -2, -3}, {5e-324, 0}, {1, 2, 3, 4, 5, 6, 7, 8, 9, 10, 11, 12}}
	for i, xs := range plotVals {
		x := Col{Key: "x", Name: "x", Data: []Cell{}}
		y := Col{Key: "y", Name: "y", Data: []Cell{}}
		s := Col{Key: "s", Name: "s", Data: []Cell{}}
		k := Col{Key: "k", Name: "k", Data: []Cell{}}
		for j, v := range xs {
			x.Data = append(x.Data, F64Cell(v))
			other := plotVals[(i+3)%len(plotVals)]
			if len(other) == 0 {
				other = []float64{7}
			}
			y.Data = append(y.Data, F64Cell(other[j%len(other)]))
			s.Data = append(s.Data, StrCell("t"))
			k.Data = append(k.Data, IntCell("int", int64(j)))
		}
		f := mkFrame(x, y, s, k)
		ops := []Op{}
		for _, pathOK := range []bool{true, false} {
			ops = append(ops, Op{K: "plot", F: 0, S1: "x", S2: "y", PathOK: pathOK}, Op{K: "plot", F: 0, Bar: true, S1: "x", PathOK: pathOK},
				Op{K: "plot", F: 0, S1: "y", S2: "x", PathOK: pathOK}, Op{K: "plot", F: 0, Bar: true, S1: "y", PathOK: pathOK})
		}
		ops = append(ops, Op{K: "plot", F: 0, S1: "x", S2: "s", PathOK: true}, Op{K: "plot", F: 0, S1: "k", S2: "x", PathOK: true},
			Op{K: "plot", F: 0, S1: "x", S2: "zz", PathOK: true}, Op{K: "plot", F: 0, S1: "zz", S2: "x", PathOK: true},
			Op{K: "plot", F: 0, Bar: true, S1: "s", PathOK: true}, Op{K: "plot", F: 0, Bar: true, S1: "k", PathOK: true},
			Op{K: "plot", F: 0, Bar: true, S1: "zz", PathOK: true}, Op{K: "string", F: 0}, Op{K: "select", F: 0, S1: "zz"},
			Op{K: "colat", F: 0, S1: "x", N: int64(len(xs))}, Op{K: "colat", F: 0, S1: "x", N: -1}, Op{K: "colat", F: 0, S1: "zz", N: 0},
			Op{K: "series", F: 0, S1: "x", N: int64(len(xs))}, Op{K: "series", F: 0, S1: "x", N: -1}, Op{K: "series", F: 0, S1: "x", N: math.MinInt64},
			Op{K: "colat", F: 0, S1: "x", N: math.MaxInt64}, Op{K: "groupbyother", F: 0, KeyKind: 3}, Op{K: "groupbyother", F: 0, KeyKind: 4},
			Op{K: "groupbyother", F: 0, KeyKind: 0}, Op{K: "groupbyother", F: 0, KeyKind: 6})
		res.Hists = append(res.Hists, RunHist(fmt.Sprintf("plots-and-views #%d", i), []Frame{f}, ops))
		bump(res.Stats, "plots-and-views")
	}
	n := scale(tier, 350, 6000)
	all := append(append(append([]string{}, deriveKinds...), editKinds...), observeKinds...)
	all = append(all, "fromcsv")
	spec := FrameSpec{MinRows: 0, MaxRows: 4, MinCols: 0, MaxCols: 3,
		Kinds: []string{"int", "f64", "pstr", "bool", "mixed", "time", "str"}, NilProb: 0.2}
	for i := 0; i < n; i++ {
		frames := []Frame{g.frame(spec), g.frame(spec)}
		steps := 2 + g.r.Intn(8)
		h := runInterleaved("invalid", frames, steps, func(step int, pool []Frame) *Op {
			k := all[g.r.Intn(len(all))]
			o := g.genOp(k, pool, 0.5)
			bump(res.Stats, "op "+k)
			return &o
		})
		res.Hists = append(res.Hists, h)
	}
	return res
}

// ---------------- C17 (schedules): forced completion orders through the gate hook ----------------
func planC17sched(g *Gen, tier string) GenOutput {
	res := GenOutput{Stats: map[string]int{}, Exhaustive: true}
	one := int64(1)
	runOne := func(tag string, f Frame, fn int, pick func(w []int, k int) int) {
		r := NewRunner([]Frame{f})
		r.pick = pick
		h := Hist{Tag: tag, Steps: []StepObs{}}
		h.Pool, _ = r.snapshot()
		ax := []int64{one}
		o := Op{K: "apply", F: 0, Fn: fn, Axis: &ax}
		out := r.Exec(o)
		pool, nrows := r.snapshot()
		h.Steps = append(h.Steps, StepObs{Op: o, Out: out, Pool: pool, Nrows: nrows})
		r.buildOracles(&h)
		h.Tag = fmt.Sprintf("%s order=%v", tag, r.realised)
		if r.realised == nil && f.nrows() > 0 {
			h.Tag = tag + " UNFORCED (gate hook not reached)"
			bump(res.Stats, "unforced")
		}
		res.Hists = append(res.Hists, h)
	}
	mk := func(n int) Frame {
		a := Col{Key: "a", Name: "a", Data: []Cell{}}
		b := Col{Key: "b", Name: "b", Data: []Cell{}}
		for i := 0; i < n; i++ {
			a.Data = append(a.Data, IntCell("int", int64(i+1)))
			b.Data = append(b.Data, StrCell(fmt.Sprintf("s%d", i)))
		}
		return mkFrame(a, b)
	}
	// every permutation for 1..5 rows
	maxN := scale(tier, 5, 6)
	for n := 1; n <= maxN; n++ {
		for _, p := range perms(n) {
			perm := p
			fn := []int{1, 0, 2, 8}[len(res.Hists)%4]
			runOne(fmt.Sprintf("all-permutations rows=%d", n), mk(n), fn, func(w []int, k int) int {
				want := perm[k]
				for _, r := range w {
					if r == want {
						return r
					}
				}
				return w[0]
			})
			bump(res.Stats, fmt.Sprintf("perm rows=%d", n))
		}
	}
	// a function whose result has another shape for some rows (nil where the row starts with nil, a slice
	// elsewhere): every permutation of 2..4 rows, so that a row of either shape completes first
	mkNil := func(n int, nilAt int) Frame {
		f := mk(n)
		f.Cols[0].Data[nilAt] = NilCell()
		if n > 2 {
			f.Cols[0].Data[(nilAt+2)%n] = NilCell()
		}
		return f
	}
	for n := 2; n <= scale(tier, 4, 5); n++ {
		for pi, p := range perms(n) {
			perm := p
			runOne(fmt.Sprintf("mixed-result-shapes rows=%d", n), mkNil(n, pi%n), 14, func(w []int, k int) int {
				want := perm[k]
				for _, r := range w {
					if r == want {
						return r
					}
				}
				return w[0]
			})
			bump(res.Stats, fmt.Sprintf("mixed-shapes rows=%d", n))
		}
	}
	// more rows than workers: a random valid order (any waiting row may complete next)
	nbig := scale(tier, 60, 600)
	for i := 0; i < nbig; i++ {
		n := 17 + g.r.Intn(24)
		if g.chance(0.3) {
			n = 6 + g.r.Intn(10)
		}
		mode := g.r.Intn(3)
		runOne(fmt.Sprintf("sampled rows=%d", n), mk(n), []int{1, 0, 3, 8, 9, 9}[g.r.Intn(6)], func(w []int, k int) int {
			switch mode {
			case 0:
				return w[g.r.Intn(len(w))]
			case 1:
				return w[len(w)-1] // always the latest row first
			default:
				if k%2 == 0 {
					return w[0]
				}
				return w[len(w)-1]
			}
		})
		bump(res.Stats, "sampled")
	}
	return res
}
