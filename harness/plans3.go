package main

// Sequence and size streams: state carried from one call into a later one (caches, retained
// slices, pooled buffers, stamps on objects), cooperating sites and size thresholds.  Each
// stream is appended to the property's plan; context steps (edits between two calls of the
// operation under study) are checked too, but a model mismatch on them is not attributed
// to the property (see "focus" in lib/props.py).

import (
	"fmt"
	"math"
	"strings"
	"time"
)

func extend(name string, extra func(g *Gen, tier string, res *GenOutput)) {
	base := plans[name]
	plans[name] = func(g *Gen, tier string) GenOutput {
		res := base(g, tier)
		extra(g, tier, &res)
		return res
	}
}

func init() {
	extend("C01", seqC01)
	extend("C03", seqC03)
	extend("C04", seqC04)
	extend("C05", seqC05)
	extend("C06", seqC06)
	extend("C08", seqC08)
	extend("C09", seqC09)
	extend("C10", seqC10)
	extend("C15", seqC15)
	extend("C16", seqC16)
	extend("C17seq", seqC17)
	extend("C18", seqC18)
	extend("C19", seqC19)
	extend("C20", seqC20)
}

func intCol(name string, vals ...int64) Col {
	c := Col{Key: BStr(name), Name: BStr(name), Data: []Cell{}}
	for _, v := range vals {
		c.Data = append(c.Data, IntCell("int", v))
	}
	return c
}
func strCol(name string, vals ...string) Col {
	c := Col{Key: BStr(name), Name: BStr(name), Data: []Cell{}}
	for _, v := range vals {
		c.Data = append(c.Data, StrCell(v))
	}
	return c
}
func cellp(c Cell) *Cell { return &c }

// edits that change cells or names without changing the shape much: the context between two calls
func (g *Gen) contextEdit(pool []Frame, fi int) Op {
	f := pool[fi]
	kinds := []string{"setcell", "fillna", "rename", "appendrow", "droprow", "addcolumn", "dropcolumn", "astype"}
	k := kinds[g.r.Intn(len(kinds))]
	if len(f.Cols) == 0 {
		k = "addcolumn"
	}
	o := g.genOp(k, []Frame{f}, 0)
	o.F = fi
	if k == "rename" {
		o.S2 = BStr([]string{"zz", "r1", "aa", "k9"}[g.r.Intn(4)])
	}
	if k == "setcell" && f.nrows() > 0 {
		o.N = int64(g.r.Intn(f.nrows()))
		for _, c := range f.Cols {
			if string(c.Key) == string(o.S1) && len(c.Data) > 0 {
				// often a value already present in that column: keys that become identical, ties that appear
				if g.chance(0.6) {
					o.Cell = cellp(c.Data[g.r.Intn(len(c.Data))])
				}
			}
		}
	}
	return o
}

// op; edit; same op again - on the same frame object
func seqSame(g *Gen, res *GenOutput, tag string, f Frame, mk func(pool []Frame) Op, rounds int) {
	h := runInterleaved(tag, []Frame{f}, 2*rounds+1, func(step int, pool []Frame) *Op {
		if step%2 == 0 {
			o := mk(pool)
			o.F = 0
			return &o
		}
		o := g.contextEdit(pool, 0)
		return &o
	})
	res.Hists = append(res.Hists, h)
	bump(res.Stats, "sequence")
}

// ---- C03: result sizes beyond small thresholds (few distinct keys, many pairs) ----
func seqC03(g *Gen, tier string, res *GenOutput) {
	for i := 0; i < scale(tier, 12, 80); i++ {
		nl, nr := 2+g.r.Intn(6), 2+g.r.Intn(6)
		nkeys := 1 + g.r.Intn(2)
		lk, rk := Col{Key: "k", Name: "k", Data: []Cell{}}, Col{Key: "k", Name: "k", Data: []Cell{}}
		la, rv := Col{Key: "a", Name: "a", Data: []Cell{}}, Col{Key: "v", Name: "v", Data: []Cell{}}
		for j := 0; j < nl; j++ {
			lk.Data = append(lk.Data, IntCell("int", int64(g.r.Intn(nkeys))))
			la.Data = append(la.Data, StrCell(fmt.Sprintf("L%d", j)))
		}
		for j := 0; j < nr; j++ {
			rk.Data = append(rk.Data, IntCell("int", int64(g.r.Intn(nkeys))))
			rv.Data = append(rv.Data, IntCell("int", int64(100+j)))
		}
		res.Hists = append(res.Hists, joinHist("many-pairs", mkFrame(lk, la), mkFrame(rk, rv), "k"))
		bump(res.Stats, fmt.Sprintf("many-pairs %dx%d", nl, nr))
	}
}

// ---- C04: Groupby again after an in-place change of cells ----
func seqC04(g *Gen, tier string, res *GenOutput) {
	for i := 0; i < scale(tier, 40, 400); i++ {
		f := g.groupFrame(6, false, []string{"int", "pstr"})
		if f.nrows() == 0 {
			continue
		}
		list := g.chance(0.3)
		seqSame(g, res, "groupby-edit-groupby", f, func(pool []Frame) Op {
			if list {
				return Op{K: "groupby", GList: true, Strs: []BStr{"k0"}}
			}
			return Op{K: "groupby", S1: "k0"}
		}, 2)
	}
}

// ---- C05: several aggregations on ONE grouped object; aggregation again after edits ----
func seqC05(g *Gen, tier string, res *GenOutput) {
	for i := 0; i < scale(tier, 40, 400); i++ {
		f := g.groupFrame(8, false, []string{"int", "int64", "ints", "f64"})
		vcols := []BStr{}
		for _, nm := range f.names() {
			if !(len(nm) == 2 && nm[0] == 'k' && nm[1] >= '0' && nm[1] <= '9') {
				vcols = append(vcols, BStr(nm))
			}
		}
		aggs := []string{"sum", "mean", "count", "mean", "sum"}
		g.r.Shuffle(len(aggs), func(a, b int) { aggs[a], aggs[b] = aggs[b], aggs[a] })
		ops := []Op{}
		for j, a := range aggs {
			o := Op{K: "groupagg", F: 0, S1: "k0", Agg: a, Reuse: j > 0}
			if g.chance(0.7) || a == "count" {
				o.Cols = vcols
			}
			ops = append(ops, o)
		}
		res.Hists = append(res.Hists, RunHist("one-grouped-object", []Frame{f}, ops))
		bump(res.Stats, "one-grouped-object")
		seqSame(g, res, "agg-edit-agg", f, func(pool []Frame) Op {
			return Op{K: "groupagg", S1: "k0", Agg: aggs[g.r.Intn(len(aggs))], Cols: vcols}
		}, 2)
	}
}

// ---- C06: sort, edit the RESULT, sort the result again with the same keys ----
func seqC06(g *Gen, tier string, res *GenOutput) {
	for i := 0; i < scale(tier, 40, 400); i++ {
		n := 2 + g.r.Intn(6)
		a := Col{Key: "s0", Name: "s0", Data: []Cell{}}
		id := Col{Key: "id", Name: "id", Data: []Cell{}}
		for r := 0; r < n; r++ {
			a.Data = append(a.Data, IntCell("int", []int64{3, 1, 2, 10, 9, 100}[g.r.Intn(6)]))
			id.Data = append(id.Data, IntCell("int", int64(r)))
		}
		asc := g.chance(0.5)
		by := []BStr{"s0"}
		h := runInterleaved("sort-edit-sort", []Frame{mkFrame(a, id)}, 5, func(step int, pool []Frame) *Op {
			last := len(pool) - 1
			switch step % 2 {
			case 0:
				return &Op{K: "sort", F: last, Strs: by, Asc: &asc}
			default:
				// edit the frame that was just produced
				if g.chance(0.5) {
					return &Op{K: "appendrow", F: last, Row: []KV{{K: "id", V: IntCell("int", 99)}, {K: "s0", V: IntCell("int", []int64{0, 5, 50, 1000}[g.r.Intn(4)])}}}
				}
				o := Op{K: "setcell", F: last, S1: "s0", N: int64(g.r.Intn(pool[last].nrows())), Cell: cellp(IntCell("int", []int64{0, 5, 50, 1000}[g.r.Intn(4)]))}
				return &o
			}
		})
		res.Hists = append(res.Hists, h)
		bump(res.Stats, "sort-edit-sort")
	}
}

// ---- C08: names and positions again after renames and column changes ----
func seqC08(g *Gen, tier string, res *GenOutput) {
	spec := FrameSpec{MinRows: 1, MaxRows: 4, MinCols: 2, MaxCols: 4, Kinds: []string{"int", "pstr"}, NilProb: 0.1}
	for i := 0; i < scale(tier, 40, 400); i++ {
		f := g.frame(spec)
		h := runInterleaved("names-rename-names", []Frame{f}, 7, func(step int, pool []Frame) *Op {
			cur := pool[0]
			switch step % 3 {
			case 0:
				return &Op{K: "columnnames", F: 0}
			case 1:
				switch g.r.Intn(3) {
				case 0:
					if len(cur.Cols) > 0 {
						return &Op{K: "rename", F: 0, S1: BStr(cur.names()[g.r.Intn(len(cur.Cols))]), S2: BStr([]string{"zz", "aa", "m", "c9"}[g.r.Intn(4)])}
					}
				case 1:
					if len(cur.Cols) > 1 {
						// same number of columns afterwards: drop one, add one
						return &Op{K: "dropcolumn", F: 0, S1: BStr(cur.names()[g.r.Intn(len(cur.Cols))])}
					}
				}
				data := []Cell{}
				for r := 0; r < cur.nrows(); r++ {
					data = append(data, IntCell("int", int64(r)))
				}
				return &Op{K: "addcolumn", F: 0, S1: BStr([]string{"n1", "b0", "zz9"}[g.r.Intn(3)]), Cells: data}
			default:
				cols := []int64{}
				for c := range cur.Cols {
					cols = append(cols, int64(c))
				}
				rows := []int64{}
				for r := 0; r < cur.nrows(); r++ {
					rows = append(rows, int64(r))
				}
				return &Op{K: "iloc", F: 0, Ints: rows, Ints2: cols}
			}
		})
		res.Hists = append(res.Hists, h)
		bump(res.Stats, "names-rename-names")
	}
}

// ---- C09: taller frames, mixed columns (text first, numbers later and the other way round) ----
func seqC09(g *Gen, tier string, res *GenOutput) {
	for i := 0; i < scale(tier, 30, 300); i++ {
		n := 9 + g.r.Intn(16)
		m := Col{Key: "mixed", Name: "mixed", Data: []Cell{}}
		x := Col{Key: "x", Name: "x", Data: []Cell{}}
		numbersFrom := g.r.Intn(n)
		for r := 0; r < n; r++ {
			if (r >= numbersFrom) != g.chance(0.1) {
				m.Data = append(m.Data, F64Cell(float64(r)+0.5))
			} else {
				m.Data = append(m.Data, StrCell(csvTexts[g.r.Intn(len(csvTexts))]))
			}
			x.Data = append(x.Data, IntCell("int", int64(r)))
		}
		ops := []Op{{K: "tocsv", F: 0}, {K: "csvroundtrip", F: 0}}
		res.Hists = append(res.Hists, RunHist("tall-mixed", []Frame{mkFrame(m, x)}, ops))
		bump(res.Stats, "tall-mixed")
	}
}

// ---- C10: longer inputs, failing imports followed by good ones (buffers carried over) ----
func seqC10(g *Gen, tier string, res *GenOutput) {
	for i := 0; i < scale(tier, 30, 300); i++ {
		ops := []Op{}
		for j := 0; j < 4; j++ {
			n := 8 + g.r.Intn(20)
			var b strings.Builder
			b.WriteString("x,y\n")
			for r := 0; r < n; r++ {
				switch g.r.Intn(3) {
				case 0:
					fmt.Fprintf(&b, "t%d,%d\n", r, r)
				case 1:
					fmt.Fprintf(&b, "%d.5, w%d \n", r, r)
				default:
					fmt.Fprintf(&b, "\"q,%d\",1e%d\n", r, r%5)
				}
			}
			switch g.r.Intn(4) {
			case 0:
				b.WriteString("only-one-field\n") // ragged: the import fails after n good rows
			case 1:
				b.WriteString("a,\"unterminated\n")
			}
			ops = append(ops, Op{K: "fromcsv", Bytes: BStr(b.String())})
			ops = append(ops, Op{K: "fromcsv", Bytes: BStr("x,y\nhello,1.5\n")})
		}
		res.Hists = append(res.Hists, RunHist("long-then-short", []Frame{}, ops))
		bump(res.Stats, "long-then-short")
	}
}

// ---- C15: several conversions in a row on different columns (scratch buffers) ----
func seqC15(g *Gen, tier string, res *GenOutput) {
	for i := 0; i < scale(tier, 30, 300); i++ {
		n := 1 + g.r.Intn(5)
		a := Col{Key: "a", Name: "a", Data: []Cell{}}
		b := Col{Key: "b", Name: "b", Data: []Cell{}}
		c := Col{Key: "c", Name: "c", Data: []Cell{}}
		for r := 0; r < n; r++ {
			a.Data = append(a.Data, IntCell("int", int64(10*(r+1))))
			b.Data = append(b.Data, F64Cell(float64(r)+1.5))
			c.Data = append(c.Data, StrCell(fmt.Sprintf("2021-03-%02d", r+1)))
		}
		if g.chance(0.5) {
			b.Data[n-1] = StrCell("x")
		}
		if g.chance(0.3) {
			c.Data[n-1] = StrCell("bad")
		}
		all := []Op{{K: "astype", F: 0, S1: "a", S2: "string"}, {K: "astype", F: 0, S1: "b", S2: "int"}, {K: "astype", F: 0, S1: "a", S2: "float64"},
			{K: "datetime", F: 0, S1: "c", S2: "2006-01-02"}, {K: "astype", F: 0, S1: "b", S2: "string"}, {K: "astype", F: 0, S1: "c", S2: "string"}}
		g.r.Shuffle(len(all), func(x, y int) { all[x], all[y] = all[y], all[x] })
		res.Hists = append(res.Hists, RunHist("conversions-in-a-row", []Frame{mkFrame(a, b, c)}, all[:4]))
		bump(res.Stats, "conversions-in-a-row")
	}
}

// ---- C16: the same aggregate twice, on columns of 16+ cells with a non-numeric text somewhere ----
func seqC16(g *Gen, tier string, res *GenOutput) {
	for i := 0; i < scale(tier, 25, 250); i++ {
		n := 14 + g.r.Intn(10)
		a := Col{Key: "a", Name: "a", Data: []Cell{}}
		bad := g.r.Intn(n)
		for r := 0; r < n; r++ {
			switch {
			case r == bad && g.chance(0.7):
				a.Data = append(a.Data, StrCell([]string{"n/a", "x", "", "1,5"}[g.r.Intn(4)]))
			case g.chance(0.3):
				a.Data = append(a.Data, StrCell(fmt.Sprintf("%d.25", r)))
			default:
				a.Data = append(a.Data, F64Cell(float64(r)*1.5))
			}
		}
		f := mkFrame(a)
		ops := []Op{}
		for j := 0; j < 2; j++ {
			for _, ag := range []string{"sum", "mean", "min", "max"} {
				ops = append(ops, Op{K: "agg", F: 0, Agg: ag})
			}
			ops = append(ops, Op{K: "describe", F: 0})
		}
		res.Hists = append(res.Hists, RunHist("twice-16-cells", []Frame{f}, ops))
		bump(res.Stats, "twice-16-cells")
	}
}

// ---- C17: Apply, change the columns (same count), Apply again ----
func seqC17(g *Gen, tier string, res *GenOutput) {
	for i := 0; i < scale(tier, 30, 300); i++ {
		f := mkFrame(intCol("a", 1, 2, 3, 4), strCol("b", "p", "q", "r", "s"), intCol("c", 7, 8, 9, 10))
		ax := []int64{1}
		axis := &ax
		if g.chance(0.3) {
			axis = nil
		}
		fn := []int{1, 0, 8, 3}[g.r.Intn(4)]
		h := runInterleaved("apply-rename-apply", []Frame{f}, 5, func(step int, pool []Frame) *Op {
			cur := pool[0]
			if step%2 == 0 {
				return &Op{K: "apply", F: 0, Fn: fn, Axis: axis}
			}
			if g.chance(0.6) || len(cur.Cols) < 2 {
				return &Op{K: "rename", F: 0, S1: BStr(cur.names()[g.r.Intn(len(cur.Cols))]), S2: BStr([]string{"z", "aa", "bb", "m"}[g.r.Intn(4)])}
			}
			return &Op{K: "setcell", F: 0, S1: BStr(cur.names()[0]), N: 0, Cell: cellp(StrCell("edited"))}
		})
		res.Hists = append(res.Hists, h)
		bump(res.Stats, "apply-rename-apply")
	}
}

// ---- C18: the same instants in two zones, resampled one after the other ----
func seqC18(g *Gen, tier string, res *GenOutput) {
	for i := 0; i < scale(tier, 25, 250); i++ {
		n := 2 + g.r.Intn(6)
		offs := []int{0, 19800, -12600, 3600}
		o1, o2 := offs[g.r.Intn(len(offs))], offs[g.r.Intn(len(offs))]
		t1 := Col{Key: "t", Name: "t", Data: []Cell{}}
		t2 := Col{Key: "t", Name: "t", Data: []Cell{}}
		v := Col{Key: "v", Name: "v", Data: []Cell{}}
		base := time.Date(2021, 3, 1+g.r.Intn(3), 18+g.r.Intn(6), 30*g.r.Intn(2), 0, 0, time.UTC)
		for r := 0; r < n; r++ {
			inst := base.Add(time.Duration(g.r.Intn(8)) * time.Hour).Add(time.Duration(g.r.Intn(60)) * time.Minute)
			t1.Data = append(t1.Data, TimeCell(inst.In(zoneFor(o1))))
			t2.Data = append(t2.Data, TimeCell(inst.In(zoneFor(o2))))
			v.Data = append(v.Data, IntCell("int", int64(1<<uint(r))))
		}
		freq := BStr([]string{"D", "H", "M", "T"}[g.r.Intn(4)])
		ops := []Op{{K: "resample", F: 0, S1: "t", S2: freq, Fn: 3}, {K: "resample", F: 1, S1: "t", S2: freq, Fn: 3},
			{K: "resample", F: 0, S1: "t", S2: freq, Fn: 0}, {K: "resample", F: 1, S1: "t", S2: freq, Fn: 1}}
		res.Hists = append(res.Hists, RunHist("same-instants-two-zones", []Frame{mkFrame(t1, v), mkFrame(t2, v)}, ops))
		bump(res.Stats, "same-instants-two-zones")
	}
}

// ---- C19: Shift after in-place edits that leave spare capacity; frames whose columns were renamed ----
func seqC19(g *Gen, tier string, res *GenOutput) {
	for i := 0; i < scale(tier, 40, 300); i++ {
		n := 3 + g.r.Intn(4)
		a := Col{Key: "a", Name: "a", Data: []Cell{}}
		b := Col{Key: "b", Name: "b", Data: []Cell{}}
		for r := 0; r < n; r++ {
			a.Data = append(a.Data, IntCell("int", int64(r+1)))
			b.Data = append(b.Data, StrCell(fmt.Sprintf("s%d", r)))
		}
		p := []int64{-1, -2, 1, 0, int64(-(n - 1))}[g.r.Intn(5)]
		pre := []Op{{K: "droprow", F: 0, N: 0}, {K: "appendrow", F: 0, Row: []KV{{K: "a", V: IntCell("int", 77)}, {K: "b", V: StrCell("new")}}},
			{K: "rename", F: 0, S1: "a", S2: "zz"}, {K: "droprow", F: 0, N: int64(n - 1)}}
		ops := []Op{pre[g.r.Intn(len(pre))], {K: "shift", F: 0, N: p}}
		// then edits on both sides
		ops = append(ops, Op{K: "appendrow", F: 0, Row: []KV{{K: "b", V: StrCell("later")}}},
			Op{K: "setcell", F: 1, S1: "b", N: 0, Cell: cellp(StrCell("w"))},
			Op{K: "fillna", F: 1, Cell: cellp(IntCell("int", -1))}, Op{K: "droprow", F: 0, N: 0})
		res.Hists = append(res.Hists, RunHist("edit-then-shift-then-edit", []Frame{mkFrame(a, b)}, ops))
		bump(res.Stats, "edit-then-shift-then-edit")
	}
}

// ---- C20: conversions that fail part-way, after which the frame must be as before ----
func seqC20(g *Gen, tier string, res *GenOutput) {
	for n := 2; n <= 4; n++ {
		for bad := 1; bad < n; bad++ {
			d := Col{Key: "d", Name: "d", Data: []Cell{}}
			f := Col{Key: "f", Name: "f", Data: []Cell{}}
			for i := 0; i < n; i++ {
				if i == bad {
					d.Data = append(d.Data, StrCell("2024-13-45"))
					f.Data = append(f.Data, StrCell("x"))
				} else {
					d.Data = append(d.Data, StrCell(fmt.Sprintf("2024-01-%02d", i+1)))
					f.Data = append(f.Data, F64Cell(float64(i)+0.5))
				}
			}
			ops := []Op{{K: "datetime", F: 0, S1: "d", S2: "2006-01-02"}, {K: "astype", F: 0, S1: "f", S2: "int"}, {K: "astype", F: 0, S1: "d", S2: "float64"}}
			res.Hists = append(res.Hists, RunHist("fails-part-way", []Frame{mkFrame(d, f)}, ops))
			bump(res.Stats, "fails-part-way")
		}
	}
}

// ---- C01: shapes after edits of derived frames, joins with nil keys, NaN cells ----
func seqC01(g *Gen, tier string, res *GenOutput) {
	derivers := []string{"head", "tail", "rowslice", "filter", "multiselect", "sort", "shift", "dedup", "iloc", "loc"}
	for rep := 0; rep < scale(tier, 2, 10); rep++ {
		for _, d := range derivers {
			f := mkFrame(intCol("a", 1, 2, 3), strCol("b", "x", "y", "z"), intCol("index", 10, 20, 30))
			dop := c02Derive(g, d, f)
			if d == "head" || d == "tail" {
				dop.N = 3
			}
			if d == "rowslice" {
				dop.A, dop.B = 0, 3
			}
			ops := []Op{dop,
				{K: "dropcolumn", F: 1, S1: "b"},
				{K: "appendrow", F: 1, Row: []KV{{K: "a", V: IntCell("int", 9)}, {K: "index", V: IntCell("int", 90)}}},
				{K: "droprow", F: 0, N: 0},
				{K: "appendrow", F: 0, Row: []KV{{K: "a", V: IntCell("int", 7)}}},
				{K: "rename", F: 1, S1: "a", S2: "zz"},
				{K: "dropna", F: 0}}
			res.Hists = append(res.Hists, RunHist("derive-then-reshape-both "+d, []Frame{f}, ops))
			bump(res.Stats, "derive-then-reshape-both")
		}
	}
	for i := 0; i < scale(tier, 40, 400); i++ {
		nl, nr := 1+g.r.Intn(4), 1+g.r.Intn(4)
		keys := []Cell{NilCell(), IntCell("int", 1), IntCell("int", 2), StrCell("a"), NilCell()}
		lk, rk := Col{Key: "k", Name: "k", Data: []Cell{}}, Col{Key: "k", Name: "k", Data: []Cell{}}
		la, rv := Col{Key: "a", Name: "a", Data: []Cell{}}, Col{Key: "v", Name: "v", Data: []Cell{}}
		for j := 0; j < nl; j++ {
			lk.Data = append(lk.Data, keys[g.r.Intn(len(keys))])
			la.Data = append(la.Data, StrCell(fmt.Sprintf("L%d", j)))
		}
		for j := 0; j < nr; j++ {
			rk.Data = append(rk.Data, keys[g.r.Intn(len(keys))])
			rv.Data = append(rv.Data, F64Cell([]float64{1.5, 0, 2.25}[g.r.Intn(3)]))
		}
		ops := []Op{}
		for _, jk := range []string{"inner", "left", "right", "outer"} {
			ops = append(ops, Op{K: "join", F: 0, G: 1, JK: jk, S1: "k"})
		}
		ops = append(ops, Op{K: "dropna", F: 5}, Op{K: "appendrow", F: 3, Row: []KV{{K: "k", V: IntCell("int", 5)}}})
		res.Hists = append(res.Hists, RunHist("joins-with-nil-keys", []Frame{mkFrame(lk, la), mkFrame(rk, rv)}, ops))
		bump(res.Stats, "joins-with-nil-keys")
	}
	// NaN and other special floats next to nils: cleaning operations must treat every column alike
	for i := 0; i < scale(tier, 30, 300); i++ {
		n := 1 + g.r.Intn(5)
		a := Col{Key: "a", Name: "a", Data: []Cell{}}
		b := Col{Key: "b", Name: "b", Data: []Cell{}}
		for r := 0; r < n; r++ {
			a.Data = append(a.Data, []Cell{F64Cell(math.NaN()), F64Cell(1.5), NilCell(), F64Cell(math.Inf(1)), F64Cell(math.Copysign(0, -1))}[g.r.Intn(5)])
			b.Data = append(b.Data, []Cell{IntCell("int", int64(r)), NilCell(), StrCell("NaN"), StrCell("")}[g.r.Intn(4)])
		}
		ops := []Op{{K: "dropna", F: 0}, {K: "dedupinplace", F: 0, S1: "first"}, {K: "fillna", F: 0, Cell: cellp(F64Cell(math.NaN()))}, {K: "dropna", F: 0}, {K: "csvroundtrip", F: 0}, {K: "dropna", F: 1}}
		res.Hists = append(res.Hists, RunHist("nan-and-nil", []Frame{mkFrame(a, b)}, ops))
		bump(res.Stats, "nan-and-nil")
	}
}
