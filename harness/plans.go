package main

// Per-property generation plans.

import (
	"fmt"
	"math"
)

var plans = map[string]func(g *Gen, tier string) GenOutput{}

func init() {
	plans["C19"] = planC19
	plans["HIST"] = planHist
}

func scale(tier string, quick, thorough int) int {
	if tier == "thorough" {
		return thorough
	}
	return quick
}

var generalSpec = FrameSpec{MinRows: 0, MaxRows: 6, MinCols: 0, MaxCols: 4,
	Kinds: []string{"int", "f64", "pstr", "str", "bool", "mixed", "int64", "time"}, NilProb: 0.2}

func bump(m map[string]int, k string) { m[k]++ }

// C19: exhaustive small scope (every frame shape 0..R rows x boundary offsets), then random frames.
func planC19(g *Gen, tier string) GenOutput {
	res := GenOutput{Stats: map[string]int{}, Exhaustive: true}
	maxRows := scale(tier, 3, 5)
	for n := 0; n <= maxRows; n++ {
		offs := []int64{}
		for p := int64(-7); p <= 7; p++ {
			offs = append(offs, p)
		}
		offs = append(offs, int64(n), int64(-n), int64(n+1), int64(-n-1),
			math.MinInt64, math.MinInt64+1, math.MaxInt64-1, math.MaxInt64)
		f := Frame{Cols: []Col{{Key: "a", Name: "a", Data: []Cell{}}, {Key: "b", Name: "b", Data: []Cell{}}}}
		for i := 0; i < n; i++ {
			f.Cols[0].Data = append(f.Cols[0].Data, IntCell("int", int64(i+1)))
			if i%2 == 0 {
				f.Cols[1].Data = append(f.Cols[1].Data, StrCell(fmt.Sprintf("s%d", i)))
			} else {
				f.Cols[1].Data = append(f.Cols[1].Data, NilCell())
			}
		}
		for _, p := range offs {
			ops := []Op{{K: "shift", F: 0, N: p}}
			if p != math.MinInt64 {
				ops = append(ops, Op{K: "shift", F: 1, N: -p})
			}
			res.Hists = append(res.Hists, RunHist(fmt.Sprintf("exh rows=%d p=%d", n, p), []Frame{f}, ops))
			bump(res.Stats, "exhaustive")
		}
	}
	// Shift returns a copy: edits of the result are not visible in the source and vice versa
	for n := 1; n <= maxRows; n++ {
		for _, p := range []int64{0, 1, -1, int64(n), int64(-n)} {
			a := Col{Key: "a", Name: "a", Data: []Cell{}}
			for i := 0; i < n; i++ {
				if i%2 == 1 {
					a.Data = append(a.Data, NilCell())
				} else {
					a.Data = append(a.Data, IntCell("int", int64(i+1)))
				}
			}
			f := mkFrame(a)
			c1, c2, c3 := StrCell("written"), IntCell("int", 0), IntCell("int", 99)
			ops := []Op{{K: "shift", F: 0, N: p},
				{K: "setcell", F: 1, S1: "a", N: 0, Cell: &c1},
				{K: "fillna", F: 0, Cell: &c2},
				{K: "appendrow", F: 1, Row: []KV{{K: "a", V: c3}}},
				{K: "droprow", F: 0, N: 0}}
			res.Hists = append(res.Hists, RunHist(fmt.Sprintf("copy-independence rows=%d p=%d", n, p), []Frame{f}, ops))
			bump(res.Stats, "copy-independence")
		}
	}
	nrand := scale(tier, 200, 3000)
	for i := 0; i < nrand; i++ {
		f := g.frame(generalSpec)
		h := runInterleaved("rand", []Frame{f}, 2, func(step int, pool []Frame) *Op {
			o := g.genOp("shift", pool, 0)
			o.F = step
			return &o
		})
		res.Hists = append(res.Hists, h)
		bump(res.Stats, fmt.Sprintf("rand rows=%d", f.nrows()))
	}
	return res
}

// HIST: random interleavings of all frame operations over a pool of live frames.
func planHist(g *Gen, tier string) GenOutput {
	res := GenOutput{Stats: map[string]int{}}
	n := scale(tier, 300, 4000)
	all := append(append(append([]string{}, deriveKinds...), editKinds...), observeKinds...)
	all = append(all, "fromcsv")
	for i := 0; i < n; i++ {
		np := 1 + g.r.Intn(3)
		frames := []Frame{}
		for j := 0; j < np; j++ {
			frames = append(frames, g.frame(generalSpec))
		}
		steps := 1 + g.r.Intn(12)
		h := runInterleaved("hist", frames, steps, func(step int, pool []Frame) *Op {
			k := all[g.r.Intn(len(all))]
			o := g.genOp(k, pool, 0.1)
			bump(res.Stats, "op "+k)
			return &o
		})
		res.Hists = append(res.Hists, h)
	}
	return res
}
