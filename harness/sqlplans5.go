// Round 11, SQL side: names with dots, failures while hostile names are in play, non-finite floats in results,
// and the number of times a query is run.
package main

import (
	"fmt"
	"math"
)

func init() {
	extendSQL("C11", dottedNames)
	extendSQL("C11", nonFiniteExports)
	extendSQL("C11", refusedCommit)
	extendSQL("C13", dottedNames)
	extendSQL("C13", hostileNamesUnderFailure)
	extendSQL("C14", nonFiniteResults)
}

// dottedNames: a column or table name with dots in it is one identifier, not a path
func dottedNames(g *Gen, tier string, add func(c SQLCase)) {
	sets := [][]string{{"sepal.length", "sepal.width"}, {"a.b.c", "a"}, {".", "x"}, {"a.", ".a"}, {"schema.table", "schema", "table"}, {"v1.2", "v1", "2"}}
	for di, d := range []string{"sqlite", "postgres", "mysql"} {
		for si, names := range sets {
			cols := []Col{}
			for ci, nm := range names {
				cols = append(cols, Col{Key: BStr(nm), Name: BStr(nm), Data: []Cell{IntCell("int", int64(ci)), IntCell("int", int64(10+ci))}})
			}
			table := []string{"t", "analytics.events", "a.b"}[(di+si)%3]
			w := &WCase{HasOpt: true, IfExists: BStr([]string{"fail", "replace", "append"}[(di+si)%3]), Dialect: BStr(d), Batch: int64(si % 3), TypeMapNil: true, Table: BStr(table), Frame: mkFrame(cols...),
				Entry: []string{"ToSQL", "ToSQLContext", "ToSQLTx", "ToSQLTxContext"}[(di+si)%4]}
			w.Tx = (di+si)%4 >= 2
			w.Store = sortStore([]NamedTable{otherTable()})
			add(SQLCase{Kind: "w", Tag: "names-with-dots", W: w})
		}
	}
}

// nonFiniteExports: NaN and the infinities are values, not missing cells, through every entry point
func nonFiniteExports(g *Gen, tier string, add func(c SQLCase)) {
	x := Col{Key: "x", Name: "x", Data: []Cell{F64Cell(math.NaN()), F64Cell(1.5), F64Cell(math.Inf(1)), NilCell(), F64Cell(math.Inf(-1)), F64Cell(math.Copysign(0, -1))}}
	y := Col{Key: "y", Name: "y", Data: []Cell{F64Cell(math.NaN()), F64Cell(math.NaN()), F64Cell(math.NaN()), F64Cell(math.NaN()), F64Cell(math.NaN()), F64Cell(math.NaN())}}
	z := Col{Key: "z", Name: "z", Data: []Cell{F64Cell(math.NaN()), StrCell("x"), NilCell(), StrCell("y"), F64Cell(2), NilCell()}}
	for di, d := range []string{"sqlite", "postgres", "mysql"} {
		for ei, entry := range []string{"ToSQL", "ToSQLContext", "ToSQLTx", "ToSQLTxContext"} {
			w := &WCase{HasOpt: true, IfExists: "fail", Dialect: BStr(d), Batch: int64((di + ei) % 3), TypeMapNil: true, Table: "t", Frame: mkFrame(x, y, z), Entry: entry}
			w.Tx = ei >= 2
			w.Store = sortStore([]NamedTable{otherTable()})
			add(SQLCase{Kind: "w", Tag: "non-finite-floats-exported", W: w})
		}
	}
}

// hostileNamesUnderFailure: the last INSERT of an export with hostile names is rejected by the driver; whatever the
// library does next (nothing, one hopes) still has to quote every name
func hostileNamesUnderFailure(g *Gen, tier string, add func(c SQLCase)) {
	names := [][]string{{"a; --", "b"}, {"x\" --", "y` --"}, {"p'q", "r\\"}, {"Robert\"); DROP TABLE students;--", "z"}, {"/* c */", "--"}, {"semi;colon", "`tick`"}}
	for di, d := range []string{"sqlite", "postgres", "mysql"} {
		for ni, nms := range names {
			for _, nr := range []int{2, 3} {
				cols := []Col{}
				for ci, nm := range nms {
					c := Col{Key: BStr(nm), Name: BStr(nm)}
					for r := 0; r < nr; r++ {
						c.Data = append(c.Data, StrCell(fmt.Sprintf("v%d_%d", ci, r)))
					}
					cols = append(cols, c)
				}
				base := WCase{HasOpt: true, IfExists: "replace", Dialect: BStr(d), Batch: int64([]int{0, 2, 5}[(di+ni)%3]), TypeMapNil: true, Table: BStr([]string{"my table", "t\"x", "t`y"}[(di+ni)%3]), Frame: mkFrame(cols...), Entry: "ToSQL"}
				base.Store = sortStore([]NamedTable{otherTable()})
				probe := base
				RunW(&probe)
				if !probe.Ok || len(probe.Log) < 3 {
					continue
				}
				for _, kind := range []string{"", "locked", "exists"} {
					w := base
					w.Fault = len(probe.Log) - 1 // the call before Commit: the last INSERT
					w.FaultKind = kind
					add(SQLCase{Kind: "w", Tag: "hostile-names-under-failure", W: &w})
				}
			}
		}
	}
}

// nonFiniteResults: NaN and the infinities in float columns of a result set are values under every NULL policy
func nonFiniteResults(g *Gen, tier string, add func(c SQLCase)) {
	names := []BStr{"a", "b", "c"}
	typesets := [][]BStr{{"REAL", "FLOAT", "TEXT"}, {"DOUBLE", "NUMERIC", "INTEGER"}, {"DOUBLE PRECISION", "REAL", "BOOLEAN"}}
	hs := []Handler{{Kind: "default"}, {Kind: "string", S: "nil"}, {Kind: "string", S: "zero"}, {Kind: "string", S: "skip_row"},
		{Kind: "map", M: []KV{{"a", F64Cell(9.5)}, {"b", IntCell("int", 7)}}}}
	third := func(t BStr, r int) Cell {
		switch t {
		case "TEXT":
			return StrCell(fmt.Sprintf("s%d", r))
		case "INTEGER":
			return IntCell("int64", int64(r))
		}
		return BoolCell(r%2 == 0)
	}
	n := 0
	for _, types := range typesets {
		for _, h := range hs {
			rs := ResultSet{Names: names, Types: types, Rows: [][]Cell{}, ErrAt: -1}
			vals := []Cell{F64Cell(math.NaN()), F64Cell(math.Inf(1)), NilCell(), F64Cell(math.Inf(-1)), F64Cell(math.Copysign(0, -1)), F64Cell(2.5)}
			for r := 0; r < len(vals); r++ {
				rs.Rows = append(rs.Rows, []Cell{vals[r], vals[(r+1)%len(vals)], third(types[2], r)})
			}
			r := &RCase{Handler: h, RS: rs, DatesNil: true, Entry: []string{"FromSQL", "FromSQLContext", "FromSQLTx", "FromSQLTxContext"}[n%4]}
			r.Root = n%3 == 1
			n++
			add(SQLCase{Kind: "r", Tag: "non-finite-floats-in-results", R: r})
		}
	}
}

// refusedCommit: an export whose COMMIT is refused is not a successful export (nothing was written, so the call
// must not say it succeeded), in every dialect and IfExists mode
func refusedCommit(g *Gen, tier string, add func(c SQLCase)) {
	for di, d := range []string{"sqlite", "postgres", "mysql"} {
		for mi, mode := range []string{"fail", "replace", "append"} {
			for present := 0; present < 2; present++ {
				if mode == "fail" && present == 1 {
					continue
				}
				f := g.sqlFrame(3, 2)
				base := WCase{HasOpt: true, IfExists: BStr(mode), Dialect: BStr(d), Batch: 2, TypeMapNil: true, Table: "t", Frame: f, Entry: []string{"ToSQL", "ToSQLContext"}[(di+mi+present)%2]}
				base.Store = []NamedTable{otherTable()}
				if present == 1 {
					base.Store = append(base.Store, NamedTable{Name: "t", Table: existingTable(g, f, 0)})
				}
				base.Store = sortStore(base.Store)
				probe := base
				RunW(&probe)
				if !probe.Ok {
					continue
				}
				w := base
				w.Fault = len(probe.Log) // the last call of a successful export is its Commit
				w.FaultKind = []string{"", "locked", "deadline"}[(di+mi)%3]
				add(SQLCase{Kind: "w", Tag: "refused-commit", W: &w})
			}
		}
	}
}
