package main

// Plans for the SQL properties C11-C14.

import (
	"fmt"
	"math"
	"strings"
	"time"
)

var sqlPlans = map[string]func(g *Gen, tier string) ([]SQLCase, map[string]int, bool){
	"C11": planC11, "C12": planC12, "C13": planC13, "C14": planC14,
}

var dialectNames = []string{"sqlite", "sqlite3", "SQLite", "postgres", "postgresql", "pq", "Postgres", "mysql", "MySQL"}

func (g *Gen) sqlFrame(nr, nc int) Frame {
	names := []string{"id", "name", "score", "flag", "when", "note", "Email", "userID"}
	kinds := []string{"int", "str", "f64", "bool", "time", "int64", "mixednil"}
	cols := []Col{}
	perm := g.r.Perm(len(names))
	for j := 0; j < nc; j++ {
		nm := names[perm[j]]
		kind := kinds[g.r.Intn(len(kinds))]
		c := Col{Key: BStr(nm), Name: BStr(nm), Data: []Cell{}}
		for i := 0; i < nr; i++ {
			switch {
			case g.chance(0.2) || kind == "mixednil":
				c.Data = append(c.Data, NilCell())
			case kind == "int":
				c.Data = append(c.Data, IntCell("int", []int64{int64(i*10 + j), 0, -1}[g.r.Intn(3)]))
			case kind == "int64":
				c.Data = append(c.Data, IntCell("int64", int64(-i*7+j)))
			case kind == "str":
				c.Data = append(c.Data, StrCell([]string{"x", "it's", "a,b", "", "q\"r", "é"}[g.r.Intn(6)]+fmt.Sprint(i)))
			case kind == "f64":
				c.Data = append(c.Data, F64Cell([]float64{float64(i) + 0.25, 0, math.Copysign(0, -1), math.Inf(1), math.NaN()}[g.r.Intn(5)]))
			case kind == "bool":
				c.Data = append(c.Data, BoolCell(i%2 == 0))
			default:
				if g.chance(0.2) {
					c.Data = append(c.Data, TimeCell(time.Time{})) // the zero time is a value, not NULL
				} else {
					c.Data = append(c.Data, TimeCell(time.Date(2020+i, time.Month(1+j), 1+i, i, j, 0, 0, time.UTC)))
				}
			}
		}
		if g.chance(0.08) && nr > 0 {
			// other integer/float widths
			c.Data[0] = []Cell{IntCell("int8", 3), UintCell("uint16", 9), F32Cell(1.5), UintCell("uint64", 77), IntCell("int32", -4)}[g.r.Intn(5)]
		}
		cols = append(cols, c)
	}
	return mkFrame(cols...)
}

func existingTable(g *Gen, f Frame, variant int) MemTable {
	t := MemTable{Cols: []BStr{}, Types: []BStr{}, Rows: [][]Cell{}}
	names := f.names()
	switch variant {
	case 1: // superset, other order
		names = append([]string{"zz_extra"}, names...)
		for i, j := 0, len(names)-1; i < j; i, j = i+1, j-1 {
			names[i], names[j] = names[j], names[i]
		}
	case 2: // lacks a column
		if len(names) > 1 {
			names = names[1:]
		}
	}
	for _, n := range names {
		t.Cols = append(t.Cols, BStr(n))
		t.Types = append(t.Types, "TEXT")
	}
	for r := 0; r < g.r.Intn(3); r++ {
		row := []Cell{}
		for range names {
			row = append(row, StrCell(fmt.Sprintf("old%d", r)))
		}
		t.Rows = append(t.Rows, row)
	}
	return t
}

func otherTable() NamedTable {
	return NamedTable{Name: "other", Table: MemTable{Cols: []BStr{"k"}, Types: []BStr{"INTEGER"}, Rows: [][]Cell{{IntCell("int64", 1)}, {NilCell()}}}}
}

func sortStore(s []NamedTable) []NamedTable {
	for i := 1; i < len(s); i++ {
		for j := i; j > 0 && s[j].Name < s[j-1].Name; j-- {
			s[j], s[j-1] = s[j-1], s[j]
		}
	}
	return s
}

func planC11(g *Gen, tier string) ([]SQLCase, map[string]int, bool) {
	cases := []SQLCase{}
	stats := map[string]int{}
	maxRows := scale(tier, 4, 7)
	// exhaustive: every batch size 0(default),1..rows+2 x 3 dialects x 3 modes x present/absent
	for n := 0; n <= maxRows; n++ {
		for bs := 0; bs <= n+2; bs++ {
			for _, d := range []string{"sqlite", "postgres", "mysql"} {
				for _, mode := range []string{"fail", "replace", "append"} {
					for present := 0; present < 2; present++ {
						f := g.sqlFrame(n, 1+g.r.Intn(3))
						w := &WCase{HasOpt: true, IfExists: BStr(mode), Dialect: BStr(d), Batch: int64(bs), TypeMapNil: true, Table: "t", Frame: f, Entry: "ToSQL"}
						w.Store = []NamedTable{otherTable()}
						if present == 1 {
							w.Store = append(w.Store, NamedTable{Name: "t", Table: existingTable(g, f, 0)})
						}
						w.Store = sortStore(w.Store)
						cases = append(cases, SQLCase{Kind: "w", Tag: "exhaustive", W: w})
						stats["exhaustive"]++
					}
				}
			}
		}
	}
	// taller frames whose columns start with many nils (type inference must still find the first value)
	for i := 0; i < scale(tier, 24, 200); i++ {
		nr := 10 + g.r.Intn(6)
		lead := 8 + g.r.Intn(5)
		if lead > nr {
			lead = nr
		}
		f := g.sqlFrame(nr, 1+g.r.Intn(3))
		for ci := range f.Cols {
			for r := 0; r < lead && r < len(f.Cols[ci].Data); r++ {
				f.Cols[ci].Data[r] = NilCell()
			}
			if lead < nr && f.Cols[ci].Data[lead].T == "nil" {
				f.Cols[ci].Data[lead] = []Cell{IntCell("int", 5), F64Cell(2.5), BoolCell(true), TimeCell(time.Date(2021, 1, 2, 3, 4, 5, 0, time.UTC)), IntCell("int64", 9)}[g.r.Intn(5)]
			}
		}
		d := []string{"sqlite", "postgres", "mysql"}[g.r.Intn(3)]
		w := &WCase{HasOpt: true, IfExists: BStr([]string{"fail", "replace"}[g.r.Intn(2)]), Dialect: BStr(d), Batch: int64([]int{0, 1, 4}[g.r.Intn(3)]), TypeMapNil: true, Table: "t", Frame: f, Entry: "ToSQL"}
		w.Store = sortStore([]NamedTable{otherTable()})
		cases = append(cases, SQLCase{Kind: "w", Tag: "tall-leading-nils", W: w})
		stats["tall-leading-nils"]++
	}
	n := scale(tier, 250, 4000)
	for i := 0; i < n; i++ {
		nr := g.r.Intn(maxRows + 1)
		f := g.sqlFrame(nr, 1+g.r.Intn(4))
		w := &WCase{HasOpt: true, Dialect: BStr(dialectNames[g.r.Intn(len(dialectNames))]), TypeMapNil: true, Table: BStr([]string{"t", "my table", "T2"}[g.r.Intn(3)]), Frame: f}
		w.IfExists = BStr([]string{"", "fail", "replace", "append"}[g.r.Intn(4)])
		w.Batch = []int64{0, 1, 2, 3, int64(nr), int64(nr + 1), 1000, math.MaxInt32, math.MaxInt64, math.MaxInt64 - 1}[g.r.Intn(10)]
		if g.chance(0.15) && len(f.Cols) > 0 {
			// a column name with a printf verb, a question mark or blanks in it
			ci := g.r.Intn(len(f.Cols))
			nm := BStr([]string{"growth %", "100%s", "ok?", "a b ", "%d%%", "[x y]"}[g.r.Intn(6)])
			clash := false
			for _, c := range f.Cols {
				clash = clash || c.Key == nm
			}
			if !clash {
				f.Cols[ci].Key, f.Cols[ci].Name = nm, nm
				f = mkFrame(f.Cols...)
				w.Frame = f
			}
		}
		w.Entry = []string{"ToSQL", "ToSQLContext", "ToSQLTx", "ToSQLTxContext"}[g.r.Intn(4)]
		w.Tx = w.Entry == "ToSQLTx" || w.Entry == "ToSQLTxContext"
		tag := "random"
		if g.chance(0.4) {
			w.TypeMapNil = false
			for _, nm := range f.names() {
				if g.chance(0.5) {
					w.TypeMap = append(w.TypeMap, SKV{BStr(nm), BStr([]string{"VARCHAR(255)", "INTEGER PRIMARY KEY", "NUMERIC(10, 2)"}[g.r.Intn(3)])})
				}
			}
			if g.chance(0.3) {
				w.TypeMap = append(w.TypeMap, SKV{"not_a_column", "TEXT"})
			}
		}
		w.Store = []NamedTable{otherTable()}
		if g.chance(0.5) {
			variant := 0
			if g.chance(0.3) {
				variant = 1 + g.r.Intn(2)
				tag = "random-existing-other-columns"
			}
			w.Store = append(w.Store, NamedTable{Name: w.Table, Table: existingTable(g, f, variant)})
		}
		w.Store = sortStore(w.Store)
		if g.chance(0.1) {
			tag = "invalid-options"
			switch g.r.Intn(5) {
			case 0:
				w.IfExists = "overwrite"
			case 1:
				w.Batch = -1
			case 2:
				w.Dialect = "oracle"
			case 3:
				w.Dialect = ""
			default:
				w.HasOpt = false
			}
		}
		cases = append(cases, SQLCase{Kind: "w", Tag: tag, W: w})
		stats[tag]++
	}
	// every kind of invalid option, every run, through every entry point, with the table present and absent:
	// the call is refused and the database is never touched
	for vi := 0; vi < 7; vi++ {
		for ei, entry := range []string{"ToSQL", "ToSQLContext", "ToSQLTx", "ToSQLTxContext"} {
			f := g.sqlFrame(1+(vi+ei)%3, 1+(vi+ei)%2)
			w := &WCase{HasOpt: true, IfExists: "append", Dialect: BStr(dialectNames[(vi+ei)%len(dialectNames)]), Batch: 2, TypeMapNil: true, Table: "t", Frame: f, Entry: entry}
			w.Tx = ei >= 2
			w.Store = []NamedTable{otherTable()}
			if (vi+ei)%2 == 0 {
				w.Store = append(w.Store, NamedTable{Name: w.Table, Table: existingTable(g, f, 0)})
			}
			w.Store = sortStore(w.Store)
			switch vi {
			case 0:
				w.IfExists = "overwrite"
			case 1:
				w.Batch = -1
			case 2:
				w.Dialect = "oracle"
			case 3:
				w.Dialect = ""
			case 4:
				w.HasOpt = false
			case 5:
				w.Dialect = "sqlite4"
			default:
				w.IfExists = "REPLACE "
			}
			cases = append(cases, SQLCase{Kind: "w", Tag: "invalid-options-each", W: w})
			stats["invalid-options-each"]++
		}
	}
	cases = append(cases, ambiguousColumnLists(stats)...)
	return cases, stats, true
}

func planC12(g *Gen, tier string) ([]SQLCase, map[string]int, bool) {
	cases := []SQLCase{}
	stats := map[string]int{}
	maxRows := scale(tier, 3, 5)
	sizes := []int{}
	for n := 0; n <= maxRows; n++ {
		sizes = append(sizes, n)
	}
	sizes = append(sizes, 11, 13) // many batches: a count threshold must not split the transaction
	for _, n := range sizes {
		for _, bs := range []int{1, 2, 0} {
			if n > maxRows && bs != 1 {
				continue
			}
			for _, mode := range []string{"fail", "replace", "append"} {
				for present := 0; present < 2; present++ {
					if n > maxRows && !(mode == "replace" || (mode == "fail" && present == 0)) {
						continue
					}
					d := []string{"sqlite", "postgres", "mysql"}[g.r.Intn(3)]
					f := g.sqlFrame(n, 1+g.r.Intn(2))
					base := WCase{HasOpt: true, IfExists: BStr(mode), Dialect: BStr(d), Batch: int64(bs), TypeMapNil: true, Table: "t", Frame: f, Entry: "ToSQLContext"}
					base.Store = []NamedTable{otherTable()}
					if present == 1 {
						base.Store = append(base.Store, NamedTable{Name: "t", Table: existingTable(g, f, 0)})
					}
					base.Store = sortStore(base.Store)
					probe := base
					RunW(&probe)
					ncalls := len(probe.Log)
					if !probe.Ok {
						// the trailing rollback is not a call that can be made to fail
						ncalls--
					}
					for k := 1; k <= ncalls; k++ {
						w := base
						w.Fault = k
						// the failure is sometimes a context error coming from the driver (a statement timeout) although the
						// caller's context is alive
						w.FaultKind = []string{"", "", "deadline", "canceled", "wrapped", "locked", "deadlock", "serialize"}[(k+n+bs+present)%8]
						cases = append(cases, SQLCase{Kind: "w", Tag: "fault", W: &w})
						stats["fault"]++
						// the database's own words for "this already exists" / "no such table": a failure is a failure
						// whatever its text says
						e := base
						e.Fault = k
						e.FaultKind = []string{"exists", "nosuch"}[(k+present)%2]
						if k <= 4 {
							e.FaultKind = "exists"
						}
						cases = append(cases, SQLCase{Kind: "w", Tag: "fault-with-a-familiar-text", W: &e})
						stats["fault-with-a-familiar-text"]++
						c := base
						c.Cancel = k
						// the cancellation arrives while the last statements run: database/sql has already marked the
						// transaction as done when the library reaches Commit
						c.Settle = k >= ncalls-2 && (n+bs+present)%2 == 0
						cases = append(cases, SQLCase{Kind: "w", Tag: "cancel", W: &c})
						stats["cancel"]++
					}
					// the existence query itself succeeds but its result cannot be fetched
					qn := base
					qn.Fault, qn.FaultNext = 2, true
					cases = append(cases, SQLCase{Kind: "w", Tag: "fault-while-fetching-existence-result", W: &qn})
					stats["fault-fetching"]++
					nf := base
					cases = append(cases, SQLCase{Kind: "w", Tag: "no-fault", W: &nf})
					stats["no-fault"]++
					// the Tx variants: the caller's transaction is never finished, with or without a failure
					for k := 0; k <= ncalls-1; k++ {
						if k >= 1 && k <= ncalls-2 && (k+n)%2 == 0 {
							// the context passed to ToSQLTxContext is cancelled once k calls have been made (k = 1: before
							// the export's first call); only positions after which the export still has a call to make: a
							// cancellation after its last call is not observed by the export at all, or - when that call was
							// the existence query - is observed or not depending on when database/sql closes the rows
							c := base
							c.Tx, c.Entry, c.Cancel = true, "ToSQLTxContext", k
							cases = append(cases, SQLCase{Kind: "w", Tag: "tx-variant-cancel", W: &c})
							stats["tx-variant-cancel"]++
						}
						if k == 1 {
							continue // call 1 is the harness's own Begin
						}
						w := base
						w.Tx = true
						w.Entry = []string{"ToSQLTx", "ToSQLTxContext"}[g.r.Intn(2)]
						w.Fault = k
						cases = append(cases, SQLCase{Kind: "w", Tag: "tx-variant", W: &w})
						stats["tx-variant"]++
					}
				}
			}
		}
	}
	return cases, stats, true
}

func planC13(g *Gen, tier string) ([]SQLCase, map[string]int, bool) {
	cases := []SQLCase{}
	stats := map[string]int{}
	alpha := []byte{'"', '`', '\'', '\\', ';', '-', ' ', 'a'}
	maxLen := scale(tier, 3, 4)
	var names []string
	var rec func(p []byte, n int)
	rec = func(p []byte, n int) {
		names = append(names, string(p))
		if n == 0 {
			return
		}
		for _, b := range alpha {
			rec(append(append([]byte{}, p...), b), n-1)
		}
	}
	rec([]byte{}, maxLen)
	dq := map[string]int{"sqlite": '"', "postgres": '"', "mysql": '`'}
	for _, nm := range names {
		for _, d := range []string{"sqlite", "postgres", "mysql"} {
			cases = append(cases, SQLCase{Kind: "q", Tag: "exhaustive", Q: &QCase{Quote: dq[d], DName: d, Name: BStr(nm)}})
			stats["exhaustive-names"]++
		}
	}
	long := []string{"Robert\"); DROP TABLE students;--", "a\"\"b", "``", "\"", "`", "x\x00y", "名前", "ta\"ble`na'me", "\\\"", "\"\"\"", "a\" TEXT, \"b", "semi;colon", "--comment", "/* c */", "é\"è",
		// printf verbs (a name must never reach a format string) and names beyond 63 bytes (PostgreSQL's identifier limit) with quote characters around the cut
		"ok?", "who? what", "a?b?c", "?", "$1", "report v1.2", ".", "a.b.c", "schema.table", "t ", "a  ", " lead",
		"100%sure", "a%%b", "a%b", "50%\"; DROP TABLE x;--", "%s", "%d%v%", "%!s(MISSING)",
		strings.Repeat("a", 62) + "\"b", strings.Repeat("a", 61) + "\"\"b", strings.Repeat("n", 63), strings.Repeat("n", 64), strings.Repeat("é", 32) + "\"x", strings.Repeat("`q", 40), strings.Repeat("long_", 60)}
	for i := 0; i < scale(tier, 300, 3000); i++ {
		nm := long[g.r.Intn(len(long))]
		if g.chance(0.5) {
			b := []byte{}
			for j := 0; j < 4+g.r.Intn(20); j++ {
				if g.chance(0.4) {
					b = append(b, alpha[g.r.Intn(len(alpha))])
				} else {
					b = append(b, byte(g.r.Intn(256)))
				}
			}
			nm = string(b)
		}
		d := []string{"sqlite", "postgres", "mysql"}[g.r.Intn(3)]
		cases = append(cases, SQLCase{Kind: "q", Tag: "random-long", Q: &QCase{Quote: dq[d], DName: d, Name: BStr(nm)}})
		stats["random-names"]++
	}
	// whole statements with hostile table and column names: the driver's own lexer must read
	// every CREATE / DROP / INSERT as the intended statement and nothing else
	hostile := append([]string{}, long...)
	for _, nm := range names {
		if len(nm) >= 2 && len(nm) <= 3 && g.chance(0.15) {
			hostile = append(hostile, nm)
		}
	}
	for i := 0; i < scale(tier, 200, 2500); i++ {
		nr := g.r.Intn(3)
		nc := 1 + g.r.Intn(3)
		used := map[string]bool{}
		cols := []Col{}
		for len(cols) < nc {
			nm := hostile[g.r.Intn(len(hostile))]
			if g.chance(0.08) {
				nm = []string{"", "unnamed", "column", "col0"}[g.r.Intn(4)] // a blank header gives a column named ""
			}
			if used[nm] {
				continue
			}
			used[nm] = true
			c := Col{Key: BStr(nm), Name: BStr(nm), Data: []Cell{}}
			for r := 0; r < nr; r++ {
				c.Data = append(c.Data, StrCell(fmt.Sprintf("v%d", r)))
			}
			cols = append(cols, c)
		}
		f := mkFrame(cols...)
		d := []string{"sqlite", "postgres", "mysql"}[g.r.Intn(3)]
		if g.chance(0.3) {
			d = dialectNames[g.r.Intn(len(dialectNames))] // aliases and other spellings select the same dialect
		}
		tname := hostile[g.r.Intn(len(hostile))]
		if tname == "other" {
			tname = "t"
		}
		w := &WCase{HasOpt: true, IfExists: BStr([]string{"fail", "replace", "append"}[g.r.Intn(3)]), Dialect: BStr(d), Batch: int64(g.r.Intn(3)), TypeMapNil: true,
			Table: BStr(tname), Frame: f, Entry: "ToSQL"}
		w.Store = []NamedTable{otherTable()}
		if g.chance(0.5) && tname != "" {
			w.Store = append(w.Store, NamedTable{Name: BStr(tname), Table: existingTable(g, f, 0)})
		}
		w.Store = sortStore(w.Store)
		cases = append(cases, SQLCase{Kind: "w", Tag: "hostile-statement-names", W: w})
		stats["hostile-statements"]++
	}
	cases = append(cases, ambiguousColumnLists(stats)...)
	return cases, stats, true
}

// ambiguousColumnLists: consecutive exports (same process, same table name, dialect and row count) whose column
// lists are different but read the same once joined with blanks, commas or printed with %v - anything the
// library keeps between calls and keys by such a text hands the second export the first one's statement
func ambiguousColumnLists(stats map[string]int) []SQLCase {
	out := []SQLCase{}
	groups := [][][]string{
		{{"a b", "c"}, {"a", "b c"}, {"a b c"}},
		{{"a,b", "c"}, {"a", "b,c"}},
		{{"a, b", "c"}, {"a", "b, c"}},
		{{"x] [y", "z"}, {"x", "y] [z"}},
		{{"p\"q", "r"}, {"p", "q\"r"}},
		{{"m|n", "o"}, {"m", "n|o"}},
	}
	for _, d := range []string{"sqlite", "postgres", "mysql"} {
		for gi, grp := range groups {
			for round := 0; round < 2; round++ {
				for _, names := range grp {
					cols := []Col{}
					for ci, nm := range names {
						cols = append(cols, Col{Key: BStr(nm), Name: BStr(nm), Data: []Cell{StrCell(fmt.Sprintf("v%d", ci)), StrCell(fmt.Sprintf("w%d", ci))}})
					}
					w := &WCase{HasOpt: true, IfExists: "replace", Dialect: BStr(d), Batch: int64(round), TypeMapNil: true, Table: BStr(fmt.Sprintf("amb%d", gi)), Frame: mkFrame(cols...), Entry: "ToSQL"}
					w.Store = sortStore([]NamedTable{otherTable()})
					out = append(out, SQLCase{Kind: "w", Tag: "ambiguous-column-lists", W: w})
					stats["ambiguous-column-lists"]++
				}
			}
		}
	}
	return out
}

var declTypes = []string{"INTEGER", "INT", "BIGINT", "SMALLINT", "TINYINT", "REAL", "FLOAT", "DOUBLE", "NUMERIC", "DOUBLE PRECISION",
	"BOOL", "BOOLEAN", "DATE", "DATETIME", "TIMESTAMP", "TEXT", "CHAR", "VARCHAR", "VARCHAR(255)", "BLOB", "JSON", "", "integer", "Point", "INTERVAL", "boolean", "timestamp with time zone"}

func (g *Gen) valueFor(kind string, dateCol bool) Cell {
	switch kind {
	case "int":
		if dateCol {
			return IntCell("int64", []int64{0, 1600000000, -86400, 1700000000, 951782400, 1600000000000, 20000000000000, 9007199254740993, -3000000000000}[g.r.Intn(9)])
		}
		return IntCell("int64", g.intVal(true))
	case "float":
		if dateCol {
			return F64Cell([]float64{0, 1600000000.5, 1.6e12 + 250, -1.5, 1700000000.123456, -2e12, 0.999999999, 1e9 + 0.9999999999}[g.r.Intn(8)])
		}
		return F64Cell(g.f64Val(false))
	case "bool":
		return BoolCell(g.chance(0.5))
	case "time":
		return g.timeVal(0)
	default:
		if dateCol {
			return StrCell([]string{"2021-03-04", "2021-03-04 05:06:07", "2021-03-04T05:06:07Z", "2021-03-04T05:06:07.123+02:00", "2021-03-04 05:06:07.123456",
				"Thu, 04 Mar 2021 05:06:07 UTC", "04 Mar 21 05:06 UTC", "not a date", "", "2021-13-40"}[g.r.Intn(10)])
		}
		if g.chance(0.2) {
			return StrCell([]string{"tail  ", " ", "tab\t ", "  lead", " both ", "x\n", "", "pad   "}[g.r.Intn(8)])
		}
		return StrCell(plainStrs[g.r.Intn(len(plainStrs))])
	}
}

func planC14(g *Gen, tier string) ([]SQLCase, map[string]int, bool) {
	cases := []SQLCase{}
	stats := map[string]int{}
	add := func(tag string, r *RCase) {
		r.Root = len(cases)%3 == 1   // every third import goes through the root package's wrapper
		r.NilCtx = len(cases)%4 == 2 // and every fourth hands the Context entry points a nil context
		cases = append(cases, SQLCase{Kind: "r", Tag: tag, R: r})
		stats[tag]++
	}
	handlers := func(names []BStr) []Handler {
		m := []KV{}
		for _, n := range names {
			if g.chance(0.5) {
				m = append(m, KV{n, []Cell{IntCell("int", 7), StrCell("dflt"), F64Cell(1.5), BoolCell(true), StrCell("2021-03-04"), IntCell("int64", 1600000000)}[g.r.Intn(6)]})
			}
		}
		sortKVs(m)
		odd := []string{"bogus", "skip_rows", "skip_row ", "no_skip_row", "Nil", "ZERO", "", " nil", "zero_value", "skip"}
		return []Handler{{Kind: "default"}, {Kind: "string", S: "nil"}, {Kind: "string", S: "zero"}, {Kind: "string", S: "skip_row"},
			{Kind: "map", M: m}, {Kind: "string", S: BStr(odd[g.r.Intn(len(odd))])}, {Kind: "other"}}
	}
	// exhaustive NULL patterns on small result sets x every handler kind
	dim := scale(tier, 2, 3)
	for nr := 0; nr <= dim; nr++ {
		for nc := 1; nc <= dim; nc++ {
			for mask := 0; mask < 1<<(nr*nc); mask++ {
				names := []BStr{}
				types := []BStr{}
				for c := 0; c < nc; c++ {
					names = append(names, BStr(fmt.Sprintf("c%d", c)))
					types = append(types, BStr([]string{"INTEGER", "TEXT", "REAL", "BOOLEAN", "TIMESTAMP"}[(c+nr)%5]))
				}
				for _, h := range handlers(names) {
					rs := ResultSet{Names: names, Types: types, Rows: [][]Cell{}, ErrAt: -1}
					for r := 0; r < nr; r++ {
						row := []Cell{}
						for c := 0; c < nc; c++ {
							if mask>>(r*nc+c)&1 == 1 {
								row = append(row, NilCell())
							} else {
								row = append(row, g.valueFor(harnessScanKind(string(types[c])), false))
							}
						}
						rs.Rows = append(rs.Rows, row)
					}
					add("null-patterns", &RCase{Handler: h, RS: rs, DatesNil: true, Entry: []string{"FromSQL", "FromSQLContext", "FromSQLTx", "FromSQLTxContext"}[g.r.Intn(4)]})
				}
			}
		}
	}
	n := scale(tier, 400, 6000)
	for i := 0; i < n; i++ {
		nc := 1 + g.r.Intn(4)
		nr := g.r.Intn(7)
		names := []BStr{}
		types := []BStr{}
		for c := 0; c < nc; c++ {
			names = append(names, BStr(fmt.Sprintf("c%d", c)))
			types = append(types, BStr(declTypes[g.r.Intn(len(declTypes))]))
		}
		tag := "random"
		if g.chance(0.06) && nc > 1 {
			names[1] = names[0]
			tag = "repeated-result-column"
		}
		dates := []BStr{}
		datesNil := g.chance(0.4)
		isDate := map[int]bool{}
		if !datesNil {
			for c := 0; c < nc; c++ {
				if g.chance(0.4) {
					dates = append(dates, names[c])
					isDate[c] = true
				}
			}
			if len(dates) > 1 && g.chance(0.5) {
				// the list in another order than the result set's, sometimes with a repeat
				g.r.Shuffle(len(dates), func(a, b int) { dates[a], dates[b] = dates[b], dates[a] })
				if g.chance(0.3) {
					dates = append(dates, dates[0])
				}
			}
			if g.chance(0.1) {
				dates = append(dates, "no_such_column")
			}
		}
		rs := ResultSet{Names: names, Types: types, Rows: [][]Cell{}, ErrAt: -1}
		for r := 0; r < nr; r++ {
			row := []Cell{}
			for c := 0; c < nc; c++ {
				k := harnessScanKind(string(types[c]))
				switch {
				case g.chance(0.2):
					row = append(row, NilCell())
				case k != "str" && g.chance(0.04):
					row = append(row, StrCell("not a number"))
					tag = "scan-error"
				default:
					row = append(row, g.valueFor(k, isDate[c]))
				}
			}
			rs.Rows = append(rs.Rows, row)
		}
		hs := handlers(names)
		h := hs[g.r.Intn(len(hs))]
		rs.NotNull = g.chance(0.25)
		if rs.ErrAt >= 0 {
			rs.ErrKind = []string{"", "eof", "neteof"}[g.r.Intn(3)]
		}
		r := &RCase{Handler: h, RS: rs, Dates: dates, DatesNil: datesNil, Entry: []string{"FromSQL", "FromSQLContext", "FromSQLTx", "FromSQLTxContext"}[g.r.Intn(4)]}
		if g.chance(0.1) {
			r.NoOpts = true
		}
		switch {
		case g.chance(0.06):
			r.RS.ErrAt = g.r.Intn(nr + 1)
			tag = "iteration-error"
		case g.chance(0.05):
			if r.Entry == "FromSQL" || r.Entry == "FromSQLContext" {
				r.Invalid = "nildb"
			} else {
				r.Invalid = "niltx"
			}
			tag = "nil-handle"
		case g.chance(0.04):
			r.Invalid = "emptyquery"
			tag = "empty-query"
		case g.chance(0.04):
			r.Invalid = "queryerr"
			tag = "query-error"
		}
		add(tag, r)
	}
	// one options map reused by consecutive calls (with and without ParseDates): it must not be changed
	for i := 0; i < scale(tier, 30, 300); i++ {
		id := fmt.Sprintf("shared%d", i)
		m := []KV{{K: "c0", V: StrCell("1999-12-31")}, {K: "c1", V: IntCell("int", 7)}}
		if g.chance(0.5) {
			m = []KV{{K: "c0", V: StrCell("2021-03-04 05:06:07")}, {K: "c1", V: StrCell("dflt")}}
		}
		for call := 0; call < 3; call++ {
			rs := ResultSet{Names: []BStr{"c0", "c1"}, Types: []BStr{"TEXT", "INTEGER"}, Rows: [][]Cell{}, ErrAt: -1}
			for r := 0; r < 1+g.r.Intn(3); r++ {
				row := []Cell{StrCell("2020-01-02"), IntCell("int64", int64(r))}
				if g.chance(0.6) {
					row[0] = NilCell()
				}
				if g.chance(0.3) {
					row[1] = NilCell()
				}
				rs.Rows = append(rs.Rows, row)
			}
			dates := []BStr{}
			if call != 1 {
				dates = []BStr{"c0"}
			}
			add("shared-handler-map", &RCase{SharedMap: id, Handler: Handler{Kind: "map", M: m}, RS: rs, Dates: dates, Entry: "FromSQL"})
		}
	}
	// an error injected at each row of the iteration
	for nr := 0; nr <= 4; nr++ {
		for at := 0; at <= nr; at++ {
			for _, kind := range []string{"", "eof", "neteof"} {
				rs := ResultSet{Names: []BStr{"a", "b"}, Types: []BStr{"INTEGER", "TEXT"}, Rows: [][]Cell{}, ErrAt: at, ErrKind: kind}
				for r := 0; r < nr; r++ {
					rs.Rows = append(rs.Rows, []Cell{IntCell("int64", int64(r)), StrCell("x")})
				}
				add("iteration-error-each-row", &RCase{Handler: Handler{Kind: "default"}, RS: rs, DatesNil: true, Entry: "FromSQL"})
			}
		}
	}
	return cases, stats, true
}
