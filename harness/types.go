package main

// Data types shared by the generators, the interpreter, the JSON replay files and the
// Gallina emitter.  A Cell is a scalar goframe cell with its dynamic Go type.

import (
	"encoding/json"
	"fmt"
	"hash/fnv"
	"math"
	"math/big"
	"sort"
	"strconv"
	"sync"
	"time"
	"unicode/utf8"

	goframe "github.com/kishyassin/goframe"
	"github.com/kishyassin/goframe/dataframe"
)

// BStr is a Go string (arbitrary bytes) with a JSON form that survives invalid UTF-8.
type BStr string

func (b BStr) MarshalJSON() ([]byte, error) {
	s := string(b)
	ok := utf8.ValidString(s)
	if ok {
		for _, r := range s {
			if r < 0x20 || r == 0x7f || r == utf8.RuneError {
				ok = false
				break
			}
		}
	}
	if ok {
		return json.Marshal(s)
	}
	arr := make([]int, len(s))
	for i := 0; i < len(s); i++ {
		arr[i] = int(s[i])
	}
	return json.Marshal(arr)
}

func (b *BStr) UnmarshalJSON(data []byte) error {
	if len(data) > 0 && data[0] == '[' {
		var arr []int
		if err := json.Unmarshal(data, &arr); err != nil {
			return err
		}
		bs := make([]byte, len(arr))
		for i, v := range arr {
			bs[i] = byte(v)
		}
		*b = BStr(bs)
		return nil
	}
	var s string
	if err := json.Unmarshal(data, &s); err != nil {
		return err
	}
	*b = BStr(s)
	return nil
}

// Cell kinds: nil int int8 int16 int32 int64 uint uint8 uint16 uint32 uint64 f32 f64 str bool time
type Cell struct {
	T  string  `json:"t"`
	I  string  `json:"i,omitempty"`  // decimal, integer kinds
	F  string  `json:"f,omitempty"`  // hex of Float64bits (f32: of the widened value)
	G  string  `json:"g,omitempty"`  // human-readable rendering of F (ignored on input)
	S  BStr    `json:"s,omitempty"`  // str
	B  bool    `json:"b,omitempty"`  // bool
	Tm []int64 `json:"tm,omitempty"` // time: Y M D h m s ns offset-seconds
}

var (
	zoneMu sync.Mutex
	zones  = map[int]*time.Location{}
)

func zoneFor(off int) *time.Location {
	if off == 0 {
		return time.UTC
	}
	zoneMu.Lock()
	defer zoneMu.Unlock()
	if z, ok := zones[off]; ok {
		return z
	}
	z := time.FixedZone(fmt.Sprintf("Z%+d", off), off)
	zones[off] = z
	return z
}

func NilCell() Cell                  { return Cell{T: "nil"} }
func IntCell(k string, v int64) Cell { return Cell{T: k, I: strconv.FormatInt(v, 10)} }
func UintCell(k string, v uint64) Cell {
	return Cell{T: k, I: strconv.FormatUint(v, 10)}
}
func F64Cell(v float64) Cell {
	return Cell{T: "f64", F: fmt.Sprintf("0x%016x", math.Float64bits(v)), G: strconv.FormatFloat(v, 'g', -1, 64)}
}
func F32Cell(v float32) Cell {
	return Cell{T: "f32", F: fmt.Sprintf("0x%016x", math.Float64bits(float64(v))), G: strconv.FormatFloat(float64(v), 'g', -1, 32)}
}
func StrCell(s string) Cell { return Cell{T: "str", S: BStr(s)} }
func BoolCell(b bool) Cell  { return Cell{T: "bool", B: b} }
func TimeCell(t time.Time) Cell {
	_, off := t.Zone()
	return Cell{T: "time", Tm: []int64{int64(t.Year()), int64(t.Month()), int64(t.Day()), int64(t.Hour()), int64(t.Minute()), int64(t.Second()), int64(t.Nanosecond()), int64(off)}}
}

func (c Cell) floatVal() float64 {
	u, err := strconv.ParseUint(c.F[2:], 16, 64)
	if err != nil {
		panic("bad float cell " + c.F)
	}
	return math.Float64frombits(u)
}

// ToAny converts a Cell to the Go value stored in a goframe column.
func (c Cell) ToAny() any {
	switch c.T {
	case "nil":
		return nil
	case "int", "int8", "int16", "int32", "int64":
		v, err := strconv.ParseInt(c.I, 10, 64)
		if err != nil {
			panic(err)
		}
		switch c.T {
		case "int":
			return int(v)
		case "int8":
			return int8(v)
		case "int16":
			return int16(v)
		case "int32":
			return int32(v)
		default:
			return v
		}
	case "uint", "uint8", "uint16", "uint32", "uint64":
		v, err := strconv.ParseUint(c.I, 10, 64)
		if err != nil {
			panic(err)
		}
		switch c.T {
		case "uint":
			return uint(v)
		case "uint8":
			return uint8(v)
		case "uint16":
			return uint16(v)
		case "uint32":
			return uint32(v)
		default:
			return v
		}
	case "f64":
		return c.floatVal()
	case "f32":
		return float32(c.floatVal())
	case "str":
		return string(c.S)
	case "bool":
		return c.B
	case "time":
		t := c.Tm
		return time.Date(int(t[0]), time.Month(t[1]), int(t[2]), int(t[3]), int(t[4]), int(t[5]), int(t[6]), zoneFor(int(t[7])))
	}
	panic("unknown cell kind " + c.T)
}

// FromAny observes a Go value found in a goframe column.  Non-scalar values become an
// "other" cell that matches nothing in the model.
func FromAny(v any) Cell {
	switch x := v.(type) {
	case nil:
		return NilCell()
	case []any:
		return StrCell(fmt.Sprintf("%v", x)) // the identity aggregation of Resample (show_cells in Ops.v)
	case int:
		return IntCell("int", int64(x))
	case int8:
		return IntCell("int8", int64(x))
	case int16:
		return IntCell("int16", int64(x))
	case int32:
		return IntCell("int32", int64(x))
	case int64:
		return IntCell("int64", x)
	case uint:
		return UintCell("uint", uint64(x))
	case uint8:
		return UintCell("uint8", uint64(x))
	case uint16:
		return UintCell("uint16", uint64(x))
	case uint32:
		return UintCell("uint32", uint64(x))
	case uint64:
		return UintCell("uint64", x)
	case float64:
		return F64Cell(x)
	case float32:
		return F32Cell(x)
	case string:
		return StrCell(x)
	case bool:
		return BoolCell(x)
	case time.Time:
		return TimeCell(x)
	}
	return Cell{T: "other", S: BStr(fmt.Sprintf("%T", v))}
}

type Col struct {
	Key  BStr   `json:"key"`
	Name BStr   `json:"name"`
	Data []Cell `json:"data"`
}
type Frame struct {
	Cols []Col `json:"cols"`
}

type KV struct {
	K BStr `json:"k"`
	V Cell `json:"v"`
}

func sortKVs(kvs []KV) { sort.Slice(kvs, func(i, j int) bool { return kvs[i].K < kvs[j].K }) }

// Snapshot observes a live goframe frame completely.
func Snapshot(df *dataframe.DataFrame) Frame {
	keys := make([]string, 0, len(df.Columns))
	for k := range df.Columns {
		keys = append(keys, k)
	}
	sort.Strings(keys)
	f := Frame{Cols: []Col{}}
	for _, k := range keys {
		c := df.Columns[k]
		col := Col{Key: BStr(k), Data: []Cell{}}
		if c != nil {
			col.Name = BStr(c.Name)
			for _, v := range c.Data {
				col.Data = append(col.Data, FromAny(v))
			}
		} else {
			col.Name = BStr("<nil column>")
		}
		f.Cols = append(f.Cols, col)
	}
	return f
}

// Build creates a live frame; every column gets spare capacity (appended cell by cell)
// so that in-place appends through an aliasing slice would be visible.
func Build(f Frame) *dataframe.DataFrame { return buildFrame(f, false) }

// buildFrame: byHand writes every column into the map directly (what the frame is meant to be); otherwise the
// public constructors are used where they can be
func buildFrame(f Frame, byHand bool) *dataframe.DataFrame {
	df := dataframe.NewDataFrame()
	if len(f.Cols)%2 == 1 {
		df = goframe.NewDataFrame() // the root package's wrapper
	}
	for ci, c := range f.Cols {
		data := []any{}
		for _, v := range c.Data {
			data = append(data, v.ToAny())
		}
		name := string(c.Name)
		if c.Key == c.Name && !byHand {
			// the public constructors, in turn (a column whose name differs from its key can only be made by hand);
			// whatever they do to the name or the cells shows as a difference from the frame that was asked for
			var err error = errSkip
			switch buildVariant(c, ci) {
			case 1:
				err = df.AddColumn(dataframe.ConvertToAnyColumn(dataframe.NewColumn(name, data)))
			case 2:
				err = dataframe.AddTypedColumn(df, goframe.NewColumn(name, data))
			case 3:
				err = addTyped(df, name, data)
			}
			if err == nil {
				continue
			}
			if got, ok := df.Columns[name]; ok && err != errSkip && got != nil {
				delete(df.Columns, name)
			}
		}
		df.Columns[string(c.Key)] = &dataframe.Column[any]{Name: name, Data: data}
	}
	return df
}

var errSkip = fmt.Errorf("built by hand")

// buildVariant: which way a column is built, decided by its content (so that a replay builds it the same way)
func buildVariant(c Col, ci int) int {
	h := fnv.New32a()
	h.Write([]byte(c.Key))
	fmt.Fprintf(h, "|%d|%d", len(c.Data), ci)
	for _, v := range c.Data {
		fmt.Fprintf(h, "|%s%s%s%s%v", v.T, v.I, v.F, v.S, v.B)
	}
	return int(h.Sum32()>>3) % 4
}

// addTyped adds the column through AddTypedColumn as a []float64, []int, []string or []bool column when every
// cell has that type (no nils), else as a []any column.
func addTyped(df *dataframe.DataFrame, name string, data []any) error {
	if len(data) == 0 {
		return errSkip
	}
	switch data[0].(type) {
	case float64:
		out := make([]float64, 0, len(data))
		for _, v := range data {
			x, ok := v.(float64)
			if !ok {
				return dataframe.AddTypedColumn(df, dataframe.NewColumn(name, data))
			}
			out = append(out, x)
		}
		return dataframe.AddTypedColumn(df, dataframe.NewColumn(name, out))
	case int:
		out := make([]int, 0, len(data))
		for _, v := range data {
			x, ok := v.(int)
			if !ok {
				return dataframe.AddTypedColumn(df, dataframe.NewColumn(name, data))
			}
			out = append(out, x)
		}
		return dataframe.AddTypedColumn(df, dataframe.NewColumn(name, out))
	case string:
		out := make([]string, 0, len(data))
		for _, v := range data {
			x, ok := v.(string)
			if !ok {
				return dataframe.AddTypedColumn(df, dataframe.NewColumn(name, data))
			}
			out = append(out, x)
		}
		return dataframe.AddTypedColumn(df, dataframe.NewColumn(name, out))
	}
	return dataframe.AddTypedColumn(df, dataframe.NewColumn(name, data))
}

func rowToKVs(m map[string]any) []KV {
	kvs := []KV{}
	for k, v := range m {
		kvs = append(kvs, KV{BStr(k), FromAny(v)})
	}
	sortKVs(kvs)
	return kvs
}

// ---- operations ----
type Op struct {
	K      string   `json:"k"`
	F      int      `json:"f"`
	G      int      `json:"g,omitempty"`
	N      int64    `json:"n,omitempty"`
	A      int64    `json:"a,omitempty"`
	B      int64    `json:"b,omitempty"`
	Keep   []bool   `json:"keep,omitempty"`
	Cells  []Cell   `json:"cells,omitempty"`
	Strs   []BStr   `json:"strs,omitempty"`
	S1     BStr     `json:"s1,omitempty"`
	S2     BStr     `json:"s2,omitempty"`
	Asc    *bool    `json:"asc,omitempty"`
	HasOpt bool     `json:"hasopt,omitempty"`
	Ints   []int64  `json:"ints,omitempty"`
	Ints2  []int64  `json:"ints2,omitempty"`
	Fill   *Cell    `json:"fill,omitempty"`
	Fn     int      `json:"fn,omitempty"`
	Axis   *[]int64 `json:"axis,omitempty"`
	Row    []KV     `json:"row,omitempty"`
	JK     string   `json:"jk,omitempty"`    // inner left right outer
	GList  bool     `json:"glist,omitempty"` // group key is a list (Strs) else S1
	Agg    string   `json:"agg,omitempty"`   // sum mean count | min max (OAgg)
	Cols   []BStr   `json:"cols,omitempty"`
	Bytes  BStr     `json:"bytes,omitempty"`
	Cell   *Cell    `json:"cell,omitempty"`
	// Reuse: aggregate on the GroupedDataFrame object of the previous groupby/groupagg step of this history
	// (same frame, same key) instead of calling Groupby again; not visible to the model, which is stateless
	Reuse bool `json:"reuse,omitempty"`
	// ViaFile: use the file variants ToCSV(filename) / FromCSV(filename) on a temporary file instead of
	// the Writer/Reader variants (same observable behaviour; not visible to the model)
	ViaFile bool `json:"viafile,omitempty"`
	// Alt: call the alias of the operation (filter: BooleanIndex instead of Filter; not visible to the model)
	Alt bool `json:"alt,omitempty"`
	// plot: Bar selects BarPlot(S1) over LinePlot(S1, S2); PathOK: the output path can be created;
	// RenderOK: the chart library renders these numbers without error (measured by Prep, outside goframe)
	Bar      bool `json:"bar,omitempty"`
	PathOK   bool `json:"pathok,omitempty"`
	RenderOK bool `json:"renderok,omitempty"`
	// groupbyother: the dynamic type of the key (0 Series, 1 map[string]string, 2 func: accepted; 3 int, 4 nil,
	// 5 []any, 6 *Series: rejected)
	KeyKind int `json:"keykind,omitempty"`
}

type GroupObs struct {
	Key  Cell   `json:"key"`
	Rows [][]KV `json:"rows"`
}
type FloatKV struct {
	K BStr `json:"k"`
	V Cell `json:"v"`
}
type Val struct {
	K      string     `json:"k"` // none frame row strs int bytes floats groups filter
	Frame  *Frame     `json:"frame,omitempty"`
	Row    []KV       `json:"row,omitempty"`
	Strs   []BStr     `json:"strs,omitempty"`
	Int    int64      `json:"int,omitempty"`
	Bytes  BStr       `json:"bytes,omitempty"`
	Floats []FloatKV  `json:"floats,omitempty"`
	Groups []GroupObs `json:"groups,omitempty"`
	Seen   [][]KV     `json:"seen,omitempty"`
	Name   BStr       `json:"name,omitempty"`  // cells: the column name
	Cells  []Cell     `json:"cells,omitempty"` // cells
}
type Out struct {
	Status string `json:"status"` // ok err panic
	Val    *Val   `json:"val,omitempty"`
	Msg    string `json:"msg,omitempty"`
}
type StepObs struct {
	Op    Op      `json:"op"`
	Out   Out     `json:"out"`
	Pool  []Frame `json:"pool"`
	Nrows []int64 `json:"nrows"`
	// Shared: non-empty when, after this step, two column slots of live frames have overlapping backing arrays
	// (names the first such pair); the separation invariant of Heap.v observed on the real heap
	Shared string `json:"shared,omitempty"`
}
type PfEntry struct {
	S  BStr  `json:"s"`
	Ok bool  `json:"ok"`
	V  *Cell `json:"v,omitempty"`
}
type FmtEntry struct {
	C Cell `json:"c"`
	S BStr `json:"s"`
}
type TpEntry struct {
	Layout BStr  `json:"layout"`
	S      BStr  `json:"s"`
	Ok     bool  `json:"ok"`
	V      *Cell `json:"v,omitempty"`
}
type Oracles struct {
	Pf  []PfEntry  `json:"pf"`
	Fmt []FmtEntry `json:"fmt"`
	Tp  []TpEntry  `json:"tp"`
}
type Hist struct {
	Tag   string    `json:"tag"`
	Or    Oracles   `json:"oracles"`
	Pool  []Frame   `json:"pool"`
	Steps []StepObs `json:"steps"`
}

// gridZ gives a finite float64 as an integer count of 2^-1074.
func gridZ(v float64) *big.Int {
	bits := math.Float64bits(v)
	neg := bits>>63 == 1
	exp := int((bits >> 52) & 0x7ff)
	mant := bits & ((1 << 52) - 1)
	r := new(big.Int)
	if exp == 0 {
		r.SetUint64(mant)
	} else {
		r.SetUint64(mant | (1 << 52))
		r.Lsh(r, uint(exp-1))
	}
	if neg {
		r.Neg(r)
	}
	return r
}
