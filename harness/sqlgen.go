package main

// SQL cases: export (C11, C12), identifier quoting (C13), import (C14).

import (
	"context"
	"database/sql"
	"errors"
	"fmt"
	"math"
	"sort"
	"strings"
	"time"

	goframe "github.com/kishyassin/goframe"
	"github.com/kishyassin/goframe/dataframe"
)

type SKV struct {
	K BStr `json:"k"`
	V BStr `json:"v"`
}
type NamedTable struct {
	Name  BStr     `json:"name"`
	Table MemTable `json:"table"`
}
type WCase struct {
	HasOpt     bool         `json:"hasopt"`
	IfExists   BStr         `json:"ifexists"`
	Dialect    BStr         `json:"dialect"`
	Batch      int64        `json:"batch"`
	TypeMapNil bool         `json:"typemap_nil"`
	TypeMap    []SKV        `json:"typemap"`
	Table      BStr         `json:"table"`
	Frame      Frame        `json:"frame"`
	Store      []NamedTable `json:"store"`
	Fault      int          `json:"fault"`
	FaultNext  bool         `json:"fault_next,omitempty"` // the call numbered Fault (a query) succeeds, its rows fail on Next
	Cancel     int          `json:"cancel"`
	Tx         bool         `json:"tx"`
	Entry      string       `json:"entry"`
	// FaultKind: what the injected failure returns: "" a plain driver error, "deadline"/"canceled" a context error
	// (the caller's context is still alive), "wrapped" a driver error wrapping one.  Settle: see MemDB.Settle.
	// Both are invisible to the model (a failure is a failure, a cancellation a cancellation).
	FaultKind string `json:"fault_kind,omitempty"`
	Settle    bool   `json:"settle,omitempty"`

	liveTypeMap map[string]string
	// observed
	Ok    bool         `json:"ok"`
	Msg   string       `json:"msg,omitempty"`
	Log   []DrvCall    `json:"log"`
	Final []NamedTable `json:"final"`
}
type QCase struct {
	Quote  int    `json:"quote"`
	DName  string `json:"dialect"`
	Name   BStr   `json:"name"`
	Quoted BStr   `json:"quoted"`
}
type Handler struct {
	Kind string `json:"kind"` // default string map other
	S    BStr   `json:"s,omitempty"`
	M    []KV   `json:"m,omitempty"`
}
type UnixEntry struct {
	Sec  int64 `json:"sec"`
	Nsec int64 `json:"nsec"`
	T    Cell  `json:"t"`
}
type RCase struct {
	// SharedMap: the same Go map object is passed as NullHandler by every case carrying this id (a caller
	// reusing its options); the library must not change it
	SharedMap string    `json:"shared_map,omitempty"`
	Handler   Handler   `json:"handler"`
	NoOpts    bool      `json:"noopts"`
	Dates     []BStr    `json:"dates"`
	DatesNil  bool      `json:"dates_nil"`
	RS        ResultSet `json:"rs"`
	Entry     string    `json:"entry"`
	Invalid   string    `json:"invalid,omitempty"` // nildb niltx emptyquery queryerr
	// Root: call the root package's wrapper goframe.FromSQL* instead of dataframe.FromSQL* (not visible to the model)
	Root bool `json:"root,omitempty"`
	// NilCtx: the Context entry points are given a nil context, which they document as "use the background
	// context" (not visible to the model: the result must be the same)
	NilCtx bool `json:"nilctx,omitempty"`
	// oracles
	Tp        []TpEntry   `json:"tp"`
	Unix      []UnixEntry `json:"unix"`
	UnixMilli []UnixEntry `json:"unixmilli"`
	// observed
	Out Out `json:"out"`

	liveMap map[string]any
}

var sharedMaps = map[string]map[string]any{}

type SQLCase struct {
	Kind string `json:"kind"` // w q r
	Tag  string `json:"tag"`
	W    *WCase `json:"w,omitempty"`
	Q    *QCase `json:"q,omitempty"`
	R    *RCase `json:"r,omitempty"`
}

func quoteFor(dialect string) byte {
	if strings.ToLower(dialect) == "mysql" {
		return '`'
	}
	return '"'
}

func tablesToMap(ts []NamedTable) map[string]*MemTable {
	m := map[string]*MemTable{}
	for _, nt := range ts {
		t := nt.Table
		m[string(nt.Name)] = &t
	}
	return copyTables(m)
}
func mapToTables(m map[string]*MemTable) []NamedTable {
	names := []string{}
	for k := range m {
		names = append(names, k)
	}
	sort.Strings(names)
	out := []NamedTable{}
	for _, n := range names {
		t := m[n]
		nt := NamedTable{Name: BStr(n), Table: MemTable{Cols: append([]BStr{}, t.Cols...), Types: append([]BStr{}, t.Types...), Rows: [][]Cell{}}}
		for _, r := range t.Rows {
			nt.Table.Rows = append(nt.Table.Rows, append([]Cell{}, r...))
		}
		out = append(out, nt)
	}
	return out
}

func (w *WCase) options() []dataframe.SQLWriteOption {
	if !w.HasOpt {
		return nil
	}
	o := dataframe.SQLWriteOption{IfExists: string(w.IfExists), Dialect: string(w.Dialect), BatchSize: int(w.Batch)}
	if !w.TypeMapNil {
		o.TypeMap = map[string]string{}
		for _, kv := range w.TypeMap {
			o.TypeMap[string(kv.K)] = string(kv.V)
		}
		w.liveTypeMap = o.TypeMap
	}
	return []dataframe.SQLWriteOption{o}
}

func dedupSKVs(m []SKV) map[string]string {
	out := map[string]string{}
	for _, kv := range m {
		out[string(kv.K)] = string(kv.V)
	}
	return out
}

// laterSKV: a later entry with the same key overrides this one (the Go map holds the last)
func laterSKV(m []SKV, kv SKV) bool {
	return dedupSKVs(m)[string(kv.K)] != string(kv.V)
}

// RunW executes one export scenario against the in-memory driver.
func RunW(w *WCase) {
	mem := &MemDB{Quote: quoteFor(string(w.Dialect)), Committed: tablesToMap(w.Store), FailAt: w.Fault, CancelAt: w.Cancel}
	if w.FaultNext {
		mem.FailAt, mem.NextFailAt = 0, w.Fault
	}
	mem.Settle = w.Settle
	switch w.FaultKind {
	case "deadline":
		mem.FaultErr = context.DeadlineExceeded
	case "canceled":
		mem.FaultErr = context.Canceled
	case "wrapped":
		mem.FaultErr = fmt.Errorf("driver: statement timeout: %w", context.DeadlineExceeded)
	case "locked":
		mem.FaultErr = errors.New("database is locked")
	case "deadlock":
		mem.FaultErr = errors.New("ERROR: deadlock detected; try restarting transaction (SQLSTATE 40P01)")
	case "exists":
		mem.FaultErr = errors.New("table \"t\" already exists (relation \"t\" already exists; Error 1050: Table 't' already exists)")
	case "nosuch":
		mem.FaultErr = errors.New("no such table: t (relation \"t\" does not exist; Error 1146: Table 'db.t' doesn't exist)")
	case "serialize":
		mem.FaultErr = errors.New("could not serialize access due to concurrent update; lock wait timeout exceeded")
	}
	db := OpenMem(mem)
	defer CloseMem(db)
	df := Build(w.Frame)
	var err error
	func() {
		defer func() {
			if e := recover(); e != nil {
				err = fmt.Errorf("PANIC: %v", e)
				w.Msg = "panic"
			}
		}()
		if w.Tx {
			tx, berr := db.Begin()
			if berr != nil {
				err = berr
				return
			}
			start := len(mem.Log)
			// the context given to ToSQLTxContext may be cancelled during the export; the transaction itself was
			// begun on the background context and stays the caller's
			ctx, cancel := context.WithCancel(context.Background())
			defer cancel()
			mem.cancel = cancel
			mem.afterStep() // a cancellation "after call 1": right after the caller's Begin
			switch w.Entry {
			case "ToSQLTxContext":
				err = df.ToSQLTxContext(ctx, tx, string(w.Table), w.options()...)
			default:
				err = df.ToSQLTx(tx, string(w.Table), w.options()...)
			}
			mem.mu.Lock()
			w.Log = append([]DrvCall{}, mem.Log[start:]...)
			mem.mu.Unlock()
			if err != nil {
				tx.Rollback()
			} else {
				tx.Commit()
			}
			return
		}
		ctx, cancel := context.WithCancel(context.Background())
		defer cancel()
		mem.cancel = cancel
		switch w.Entry {
		case "ToSQL":
			err = df.ToSQL(db, string(w.Table), w.options()...)
		default:
			err = df.ToSQLContext(ctx, db, string(w.Table), w.options()...)
		}
		if err != nil && w.Cancel > 0 {
			mem.waitRollback(2 * time.Second)
		}
	}()
	mem.mu.Lock()
	defer mem.mu.Unlock()
	if !w.Tx {
		w.Log = append([]DrvCall{}, mem.Log...)
	}
	w.Ok = err == nil
	if err != nil && w.Msg == "" {
		w.Msg = err.Error()
	}
	// the caller's TypeMap must come back exactly as it was passed
	if w.liveTypeMap != nil {
		same := len(w.liveTypeMap) == len(dedupSKVs(w.TypeMap))
		for _, kv := range w.TypeMap {
			if v, ok := w.liveTypeMap[string(kv.K)]; !ok || (v != string(kv.V) && !laterSKV(w.TypeMap, kv)) {
				same = false
			}
		}
		if !same {
			w.Ok = false
			w.Msg = "panic"
			err = errors.New("the library modified the caller's TypeMap")
		}
	}
	w.Final = mapToTables(mem.Committed)
}

func RunQ(q *QCase) {
	var d dataframe.SQLDialect
	switch q.DName {
	case "sqlite":
		d = &dataframe.SQLiteDialect{}
	case "postgres":
		d = &dataframe.PostgresDialect{}
	default:
		d = &dataframe.MySQLDialect{}
	}
	q.Quoted = BStr(d.QuoteIdentifier(string(q.Name)))
}

var dateLayouts = []string{time.RFC3339, time.RFC3339Nano, "2006-01-02 15:04:05", "2006-01-02", "2006-01-02 15:04:05.999999", time.RFC1123, time.RFC822}

func harnessScanKind(ty string) string {
	u := strings.ToUpper(ty)
	switch {
	case strings.Contains(u, "INT"):
		return "int"
	case strings.Contains(u, "FLOAT") || strings.Contains(u, "REAL") || strings.Contains(u, "DOUBLE") || strings.Contains(u, "NUMERIC"):
		return "float"
	case strings.Contains(u, "BOOL"):
		return "bool"
	case strings.Contains(u, "TIME") || strings.Contains(u, "DATE"):
		return "time"
	}
	return "str"
}

func (r *RCase) options() []dataframe.SQLReadOption {
	if r.NoOpts {
		return nil
	}
	o := dataframe.SQLReadOption{}
	switch r.Handler.Kind {
	case "string":
		o.NullHandler = string(r.Handler.S)
	case "map":
		m := map[string]any{}
		for _, kv := range r.Handler.M {
			m[string(kv.K)] = kv.V.ToAny()
		}
		if r.SharedMap != "" {
			if prev, ok := sharedMaps[r.SharedMap]; ok {
				m = prev
			} else {
				sharedMaps[r.SharedMap] = m
			}
		}
		r.liveMap = m
		o.NullHandler = m
	case "other":
		o.NullHandler = 42
	}
	if !r.DatesNil {
		o.ParseDates = strsOf(r.Dates)
	}
	return []dataframe.SQLReadOption{o}
}

func (r *RCase) buildOracles() {
	strs := map[string]bool{}
	ints := map[int64]bool{}
	floats := map[uint64]float64{}
	note := func(c Cell) {
		switch c.T {
		case "str":
			strs[string(c.S)] = true
		case "int64", "int":
			v := c.ToAny()
			switch x := v.(type) {
			case int64:
				ints[x] = true
			case int:
				ints[int64(x)] = true
			}
		case "f64":
			floats[math.Float64bits(c.floatVal())] = c.floatVal()
		}
	}
	for _, row := range r.RS.Rows {
		for _, c := range row {
			note(c)
		}
	}
	for _, kv := range r.Handler.M {
		note(kv.V)
	}
	strs[""] = true
	ints[0] = true
	r.Tp, r.Unix, r.UnixMilli = []TpEntry{}, []UnixEntry{}, []UnixEntry{}
	ss := []string{}
	for s := range strs {
		ss = append(ss, s)
	}
	sort.Strings(ss)
	for _, s := range ss {
		for _, l := range dateLayouts {
			t, err := time.Parse(l, s)
			e := TpEntry{Layout: BStr(l), S: BStr(s), Ok: err == nil}
			if err == nil {
				c := TimeCell(t)
				e.V = &c
			}
			r.Tp = append(r.Tp, e)
		}
	}
	is := []int64{}
	for v := range ints {
		is = append(is, v)
	}
	sort.Slice(is, func(i, j int) bool { return is[i] < is[j] })
	for _, v := range is {
		r.Unix = append(r.Unix, UnixEntry{Sec: v, Nsec: 0, T: TimeCell(time.Unix(v, 0))})
	}
	fs := []uint64{}
	for b := range floats {
		fs = append(fs, b)
	}
	sort.Slice(fs, func(i, j int) bool { return fs[i] < fs[j] })
	for _, b := range fs {
		v := floats[b]
		if v != v || math.IsInf(v, 0) {
			continue
		}
		if v > 1e12 || v < -1e12 {
			ms := int64(v)
			r.UnixMilli = append(r.UnixMilli, UnixEntry{Sec: ms, T: TimeCell(time.UnixMilli(ms))})
		} else {
			sec, frac := math.Modf(v)
			nanos := int64(math.Round(frac * 1e9))
			r.Unix = append(r.Unix, UnixEntry{Sec: int64(sec), Nsec: nanos, T: TimeCell(time.Unix(int64(sec), nanos))})
		}
	}
}

// a Go map holds one value per key: of several generated entries with one key the last one is the map's
// (this happens when the result set repeats a column name); the case records the map as the library saw it
func dedupKVs(m []KV) []KV {
	out := []KV{}
	for i, kv := range m {
		last := true
		for _, later := range m[i+1:] {
			if later.K == kv.K {
				last = false
			}
		}
		if last {
			out = append(out, kv)
		}
	}
	return out
}

func RunR(r *RCase) {
	if r.Handler.Kind == "map" {
		r.Handler.M = dedupKVs(r.Handler.M)
	}
	r.buildOracles()
	mem := &MemDB{Quote: '"', Result: &r.RS}
	db := OpenMem(mem)
	defer CloseMem(db)
	if r.Invalid == "queryerr" {
		mem.FailAt = 1
		if strings.Contains(r.Entry, "Tx") {
			mem.FailAt = 2
		}
	}
	query := "SELECT * FROM t"
	if r.Invalid == "emptyquery" {
		query = ""
	}
	func() {
		defer func() {
			if e := recover(); e != nil {
				r.Out = Out{Status: "panic", Msg: fmt.Sprint(e)}
			}
		}()
		var res *dataframe.DataFrame
		var err error
		var bg context.Context = context.Background()
		if r.NilCtx {
			bg = nil
		}
		switch r.Entry {
		case "FromSQL":
			h := db
			if r.Invalid == "nildb" {
				h = nil
			}
			if r.Root {
				res, err = goframe.FromSQL(h, query, nil, r.options()...)
			} else {
				res, err = dataframe.FromSQL(h, query, nil, r.options()...)
			}
		case "FromSQLContext":
			h := db
			if r.Invalid == "nildb" {
				h = nil
			}
			if r.Root {
				res, err = goframe.FromSQLContext(bg, h, query, []any{}, r.options()...)
			} else {
				res, err = dataframe.FromSQLContext(bg, h, query, []any{}, r.options()...)
			}
		default:
			var tx *sql.Tx
			if r.Invalid != "niltx" {
				var berr error
				tx, berr = db.Begin()
				if berr != nil {
					panic(berr)
				}
				defer tx.Rollback()
			}
			switch {
			case r.Entry == "FromSQLTx" && r.Root:
				res, err = goframe.FromSQLTx(tx, query, nil, r.options()...)
			case r.Entry == "FromSQLTx":
				res, err = dataframe.FromSQLTx(tx, query, nil, r.options()...)
			case r.Root:
				res, err = goframe.FromSQLTxContext(bg, tx, query, nil, r.options()...)
			default:
				res, err = dataframe.FromSQLTxContext(bg, tx, query, nil, r.options()...)
			}
		}
		if err != nil {
			r.Out = Out{Status: "err", Msg: err.Error()}
			return
		}
		if res == nil {
			r.Out = Out{Status: "err", Msg: "nil frame without error"}
			return
		}
		r.Out = okFrame(res)
	}()
	// one import runs its query at most once, and sends nothing else to the database
	queries, others := 0, 0
	for _, c := range mem.Log {
		switch c.Kind {
		case "query":
			queries++
		case "exec", "commit":
			others++
		}
	}
	if queries > 1 || others > 0 {
		r.Out = Out{Status: "panic", Msg: fmt.Sprintf("the import ran its query %d times and sent %d other statements; original result: %s", queries, others, r.Out.Status)}
	}
	// the caller's handler map must come back exactly as it was passed
	if r.liveMap != nil {
		same := len(r.liveMap) == len(r.Handler.M)
		for _, kv := range r.Handler.M {
			v, ok := r.liveMap[string(kv.K)]
			if !ok || fmt.Sprintf("%T|%v", v, v) != fmt.Sprintf("%T|%v", kv.V.ToAny(), kv.V.ToAny()) {
				same = false
			}
		}
		if !same {
			r.Out = Out{Status: "panic", Msg: "the library modified the caller's NullHandler map (observed after the call); original result: " + r.Out.Status}
		}
	}
}

// ---------------- emission ----------------
func emTable(t MemTable) string {
	cols := make([]string, len(t.Cols))
	for i := range t.Cols {
		cols[i] = "(" + emStr(t.Cols[i]) + "," + emStr(t.Types[i]) + ")"
	}
	return "([" + strings.Join(cols, ";") + "]," + emList(t.Rows, emCells) + ")"
}
func emStore(ts []NamedTable) string {
	return emList(ts, func(nt NamedTable) string { return "(" + emStr(nt.Name) + "," + emTable(nt.Table) + ")" })
}
func emCall(c DrvCall) string {
	k := map[string]string{"begin": "0", "query": "1", "exec": "2", "commit": "3", "rollback": "4"}[c.Kind]
	return "(" + k + "%N," + emStr(c.Text) + "," + emCells(c.Args) + ")"
}
func emSQLCase(c SQLCase) string {
	switch c.Kind {
	case "w":
		w := c.W
		tm := "None"
		if !w.TypeMapNil {
			tm = "(Some " + emList(w.TypeMap, func(kv SKV) string { return "(" + emStr(kv.K) + "," + emStr(kv.V) + ")" }) + ")"
		}
		return "SW {| wc_opts := {| w_has := " + emBool(w.HasOpt) + "; w_ifexists := " + emStr(w.IfExists) + "; w_dialect := " + emStr(w.Dialect) +
			"; w_batch := " + emZ(w.Batch) + "; w_typemap := " + tm + " |}; wc_table := " + emStr(w.Table) + "; wc_frame := " + emFrame(w.Frame) +
			"; wc_store := " + emStore(w.Store) + "; wc_fault := " + emNat(w.Fault) + "; wc_cancel := " + emNat(w.Cancel) + "; wc_tx := " + emBool(w.Tx) +
			"; wc_ok := " + emBool(w.Ok) + "; wc_log := " + emList(w.Log, emCall) + "; wc_final := " + emStore(w.Final) + " |}"
	case "q":
		return fmt.Sprintf("SQ {| qc_quote := %d%%N; qc_name := %s; qc_quoted := %s |}", c.Q.Quote, emStr(c.Q.Name), emStr(c.Q.Quoted))
	default:
		r := c.R
		h := "NHDefault"
		switch r.Handler.Kind {
		case "string":
			h = "(NHString " + emStr(r.Handler.S) + ")"
		case "map":
			h = "(NHMap " + emKVs(r.Handler.M) + ")"
		case "other":
			h = "NHOther"
		}
		if r.NoOpts {
			h = "NHDefault"
		}
		dates := emStrs(r.Dates)
		if r.DatesNil || r.NoOpts {
			dates = "[]"
		}
		tp := emList(r.Tp, func(e TpEntry) string {
			if e.Ok {
				return "((" + emStr(e.Layout) + "," + emStr(e.S) + "),Some " + emList(e.V.Tm, emZ) + ")"
			}
			return "((" + emStr(e.Layout) + "," + emStr(e.S) + "),None)"
		})
		ux := emList(r.Unix, func(e UnixEntry) string {
			return "((" + emZ(e.Sec) + "," + emZ(e.Nsec) + ")," + emList(e.T.Tm, emZ) + ")"
		})
		um := emList(r.UnixMilli, func(e UnixEntry) string { return "(" + emZ(e.Sec) + "," + emList(e.T.Tm, emZ) + ")" })
		served := r.RS.Rows
		iterErr := false
		if r.RS.ErrAt >= 0 {
			iterErr = true
			if r.RS.ErrAt < len(served) {
				served = served[:r.RS.ErrAt]
			}
		}
		out := "Err"
		switch r.Out.Status {
		case "ok":
			out = "(Ok " + emFrame(*r.Out.Val.Frame) + ")"
		case "panic":
			out = "Panic"
		}
		return "SR {| rc_T := {| t_parse := " + tp + "; t_unix := " + ux + "; t_unixmilli := " + um + " |}; rc_handler := " + h +
			"; rc_dates := " + dates + "; rc_names := " + emStrs(r.RS.Names) + "; rc_types := " + emStrs(r.RS.Types) +
			"; rc_rows := " + emList(served, emCells) + "; rc_iter_err := " + emBool(iterErr) + "; rc_invalid := " + emBool(r.Invalid != "") +
			"; rc_out := " + out + " |}"
	}
}

func emSQLCasesFile(cs []SQLCase) string {
	var b strings.Builder
	b.WriteString("From GF Require Import SqlCorr.\nOpen Scope Z_scope.\n")
	b.WriteString("Definition cases : list sqlcase := [\n")
	for i, c := range cs {
		if i > 0 {
			b.WriteString(";\n")
		}
		b.WriteString(emSQLCase(c))
	}
	b.WriteString("\n].\n")
	b.WriteString("Definition result := Eval vm_compute in sql_failures cases 0.\n")
	b.WriteString("Print result.\n")
	return b.String()
}

func runSQLCase(c *SQLCase) {
	switch c.Kind {
	case "w":
		RunW(c.W)
	case "q":
		RunQ(c.Q)
	default:
		RunR(c.R)
	}
}
