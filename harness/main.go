package main

// verifharness: runs the real goframe library on generated histories and writes the
// observations as Gallina case files (evaluated by coqc against the model) and as JSON.
//
//   harness gen -prop C19 -tier quick -seed 1 -out DIR
//   harness replay -in replay.json -out DIR

import (
	"encoding/json"
	"flag"
	"fmt"
	"math/rand"
	"os"
	"path/filepath"
	"time"
)

type GenOutput struct {
	Prop       string         `json:"prop"`
	Tier       string         `json:"tier"`
	Seed       int64          `json:"seed"`
	Hists      []Hist         `json:"hists"`
	SQLCases   []SQLCase      `json:"sqlcases,omitempty"`
	Stats      map[string]int `json:"stats"`
	Shards     []string       `json:"shards"`
	ShardOf    []int          `json:"shard_of"` // history index -> shard
	IndexIn    []int          `json:"index_in"` // history index -> index inside its shard
	Exhaustive bool           `json:"exhaustive"`
}

// Interleaved generation and execution: next sees the current pool.
func runInterleaved(tag string, frames []Frame, steps int, next func(step int, pool []Frame) *Op) Hist {
	r := NewRunner(frames)
	h := Hist{Tag: tag, Steps: []StepObs{}}
	h.Pool, _ = r.snapshot()
	cur := h.Pool
	for i := 0; i < steps; i++ {
		o := next(i, cur)
		if o == nil {
			break
		}
		r.Prep(o)
		out, hung := r.execGuard(*o)
		if hung {
			nr := make([]int64, len(cur))
			for i, f := range cur {
				nr[i] = int64(f.nrows())
			}
			h.Steps = append(h.Steps, StepObs{Op: *o, Out: out, Pool: cur, Nrows: nr})
			break
		}
		pool, nrows := r.snapshot()
		h.Steps = append(h.Steps, StepObs{Op: *o, Out: out, Pool: pool, Nrows: nrows, Shared: sharedArrays(r.pool)})
		cur = pool
	}
	r.buildOracles(&h)
	r.cleanup()
	return h
}

func writeShards(outDir string, hs []Hist, perShard int) ([]string, []int, []int) {
	shards := []string{}
	shardOf := make([]int, len(hs))
	indexIn := make([]int, len(hs))
	for s := 0; s*perShard < len(hs); s++ {
		lo, hi := s*perShard, (s+1)*perShard
		if hi > len(hs) {
			hi = len(hs)
		}
		name := fmt.Sprintf("cases_%03d.v", s)
		if err := os.WriteFile(filepath.Join(outDir, name), []byte(emCasesFile(hs[lo:hi])), 0o644); err != nil {
			panic(err)
		}
		shards = append(shards, name)
		for i := lo; i < hi; i++ {
			shardOf[i] = s
			indexIn[i] = i - lo
		}
	}
	return shards, shardOf, indexIn
}

func writeSQLShards(outDir string, cs []SQLCase, perShard int) ([]string, []int, []int) {
	shards := []string{}
	shardOf := make([]int, len(cs))
	indexIn := make([]int, len(cs))
	for s := 0; s*perShard < len(cs); s++ {
		lo, hi := s*perShard, (s+1)*perShard
		if hi > len(cs) {
			hi = len(cs)
		}
		name := fmt.Sprintf("cases_%03d.v", s)
		if err := os.WriteFile(filepath.Join(outDir, name), []byte(emSQLCasesFile(cs[lo:hi])), 0o644); err != nil {
			panic(err)
		}
		shards = append(shards, name)
		for i := lo; i < hi; i++ {
			shardOf[i] = s
			indexIn[i] = i - lo
		}
	}
	return shards, shardOf, indexIn
}

func main() {
	time.Local = time.UTC
	if len(os.Args) < 2 {
		fmt.Fprintln(os.Stderr, "usage: harness gen|replay ...")
		os.Exit(2)
	}
	switch os.Args[1] {
	case "gen":
		fs := flag.NewFlagSet("gen", flag.ExitOnError)
		prop := fs.String("prop", "", "property id")
		tier := fs.String("tier", "quick", "quick|thorough")
		seed := fs.Int64("seed", 1, "seed")
		out := fs.String("out", "", "output directory")
		perShard := fs.Int("pershard", 150, "histories per case file")
		fs.Parse(os.Args[2:])
		g := &Gen{r: rand.New(rand.NewSource(*seed))}
		os.MkdirAll(*out, 0o755)
		var res GenOutput
		var shards []string
		var shardOf, indexIn []int
		if sp, ok := sqlPlans[*prop]; ok {
			cs, stats, exh := sp(g, *tier)
			for i := range cs {
				runSQLCase(&cs[i])
			}
			res = GenOutput{SQLCases: cs, Stats: stats, Exhaustive: exh, Hists: []Hist{}}
			shards, shardOf, indexIn = writeSQLShards(*out, cs, *perShard*4)
		} else {
			plan, ok := plans[*prop]
			if !ok {
				fmt.Fprintln(os.Stderr, "no plan for", *prop)
				os.Exit(2)
			}
			res = plan(g, *tier)
			shards, shardOf, indexIn = writeShards(*out, res.Hists, *perShard)
		}
		res.Prop, res.Tier, res.Seed = *prop, *tier, *seed
		res.Shards, res.ShardOf, res.IndexIn = shards, shardOf, indexIn
		data, err := json.Marshal(res)
		if err != nil {
			panic(err)
		}
		if err := os.WriteFile(filepath.Join(*out, "cases.json"), data, 0o644); err != nil {
			panic(err)
		}
		fmt.Printf("generated %d histories / %d sql cases in %d shards\n", len(res.Hists), len(res.SQLCases), len(shards))
	case "replay":
		fs := flag.NewFlagSet("replay", flag.ExitOnError)
		in := fs.String("in", "", "replay file")
		out := fs.String("out", "", "output directory")
		fs.Parse(os.Args[2:])
		data, err := os.ReadFile(*in)
		if err != nil {
			panic(err)
		}
		var rp struct {
			Prop string   `json:"property"`
			Hist Hist     `json:"history"`
			SQL  *SQLCase `json:"sqlcase"`
		}
		if err := json.Unmarshal(data, &rp); err != nil {
			panic(err)
		}
		if rp.SQL != nil {
			c := *rp.SQL
			runSQLCase(&c)
			os.MkdirAll(*out, 0o755)
			res := GenOutput{Prop: rp.Prop, Tier: "replay", Hists: []Hist{}, SQLCases: []SQLCase{c}, Stats: map[string]int{}}
			res.Shards, res.ShardOf, res.IndexIn = writeSQLShards(*out, res.SQLCases, 10)
			d2, _ := json.Marshal(res)
			os.WriteFile(filepath.Join(*out, "cases.json"), d2, 0o644)
			return
		}
		ops := []Op{}
		for _, s := range rp.Hist.Steps {
			ops = append(ops, s.Op)
		}
		h := RunHist(rp.Hist.Tag, rp.Hist.Pool, ops)
		os.MkdirAll(*out, 0o755)
		res := GenOutput{Prop: rp.Prop, Tier: "replay", Hists: []Hist{h}, Stats: map[string]int{}}
		res.Shards, res.ShardOf, res.IndexIn = writeShards(*out, res.Hists, 10)
		d2, _ := json.Marshal(res)
		os.WriteFile(filepath.Join(*out, "cases.json"), d2, 0o644)
	default:
		fmt.Fprintln(os.Stderr, "unknown command", os.Args[1])
		os.Exit(2)
	}
}
