package main

// Gallina emission of histories (the cases.v files evaluated by coqc).

import (
	"fmt"
	"math/big"
	"strconv"
	"strings"
)

func emStr(s BStr) string {
	if len(s) == 0 {
		return "[]"
	}
	var b strings.Builder
	b.WriteString("[")
	for i := 0; i < len(s); i++ {
		if i > 0 {
			b.WriteByte(';')
		}
		b.WriteString(strconv.Itoa(int(s[i])))
	}
	b.WriteString("]%N")
	return b.String()
}

func emZ(v int64) string {
	if v < 0 {
		return "(" + strconv.FormatInt(v, 10) + ")"
	}
	return strconv.FormatInt(v, 10)
}
func emNat(v int) string { return strconv.Itoa(v) + "%nat" }
func emBool(b bool) string {
	if b {
		return "true"
	}
	return "false"
}

func emList[T any](xs []T, f func(T) string) string {
	if len(xs) == 0 {
		return "[]"
	}
	parts := make([]string, len(xs))
	for i, x := range xs {
		parts[i] = f(x)
	}
	return "[" + strings.Join(parts, ";") + "]"
}

var ikinds = map[string]string{"int": "KInt", "int8": "KInt8", "int16": "KInt16", "int32": "KInt32", "int64": "KInt64",
	"uint": "KUint", "uint8": "KUint8", "uint16": "KUint16", "uint32": "KUint32", "uint64": "KUint64"}

func emFl(c Cell) string {
	v := c.floatVal()
	switch {
	case v != v:
		return "FNaN"
	case v > 1.7976931348623157e308:
		return "FPInf"
	case v < -1.7976931348623157e308:
		return "FNInf"
	}
	g := gridZ(v)
	if g.Sign() == 0 {
		if c.F == "0x8000000000000000" {
			return "FNegZero"
		}
		return "(FFin 0)"
	}
	if g.Sign() < 0 {
		return "(FFin (-0x" + g.Neg(g).Text(16) + "))"
	}
	return "(FFin 0x" + g.Text(16) + ")"
}

func emCell(c Cell) string {
	switch c.T {
	case "nil":
		return "CNil"
	case "f64":
		return "(CF KF64 " + emFl(c) + ")"
	case "f32":
		return "(CF KF32 " + emFl(c) + ")"
	case "str":
		return "(CS " + emStr(c.S) + ")"
	case "bool":
		return "(CB " + emBool(c.B) + ")"
	case "time":
		return "(CT " + emList(c.Tm, emZ) + ")"
	case "other":
		return "(CT [(-1)])"
	}
	if k, ok := ikinds[c.T]; ok {
		if strings.HasPrefix(c.I, "-") {
			return "(CI " + k + " (" + c.I + "))"
		}
		return "(CI " + k + " " + c.I + ")"
	}
	panic("emCell: " + c.T)
}

// emCells writes a cell list; long lists are written compactly where they are regular: a run of
// identical cells as (rep n c), an arithmetic progression of integers of one kind as (iota K start step n)
func emCells(cs []Cell) string {
	if len(cs) < 12 {
		return emList(cs, emCell)
	}
	same := func(a, b Cell) bool {
		if a.T != b.T || a.I != b.I || a.F != b.F || a.S != b.S || a.B != b.B || len(a.Tm) != len(b.Tm) {
			return false
		}
		for i := range a.Tm {
			if a.Tm[i] != b.Tm[i] {
				return false
			}
		}
		return true
	}
	ival := func(c Cell) (*big.Int, bool) {
		if _, ok := ikinds[c.T]; !ok {
			return nil, false
		}
		v, ok := new(big.Int).SetString(c.I, 10)
		return v, ok
	}
	zlit := func(v *big.Int) string {
		if v.Sign() < 0 {
			return "(" + v.String() + ")"
		}
		return v.String()
	}
	parts := []string{}
	lit := []Cell{}
	flush := func() {
		if len(lit) > 0 {
			parts = append(parts, emList(lit, emCell))
			lit = nil
		}
	}
	i := 0
	for i < len(cs) {
		j := i + 1
		for j < len(cs) && same(cs[j], cs[i]) {
			j++
		}
		if j-i >= 4 {
			flush()
			parts = append(parts, fmt.Sprintf("(rep %d %s)", j-i, emCell(cs[i])))
			i = j
			continue
		}
		if v0, ok := ival(cs[i]); ok && i+1 < len(cs) && cs[i+1].T == cs[i].T {
			v1, _ := ival(cs[i+1])
			step := new(big.Int).Sub(v1, v0)
			prev := v1
			j = i + 2
			for j < len(cs) && cs[j].T == cs[i].T {
				vj, _ := ival(cs[j])
				if new(big.Int).Sub(vj, prev).Cmp(step) != 0 {
					break
				}
				prev = vj
				j++
			}
			if j-i >= 4 {
				flush()
				parts = append(parts, fmt.Sprintf("(iota %s %s %s %d)", ikinds[cs[i].T], zlit(v0), zlit(step), j-i))
				i = j
				continue
			}
		}
		lit = append(lit, cs[i])
		i++
	}
	flush()
	if len(parts) == 1 {
		return parts[0]
	}
	return "(" + strings.Join(parts, " ++ ") + ")"
}

func emFrame(f Frame) string {
	return emList(f.Cols, func(c Col) string {
		return "(" + emStr(c.Key) + ",(" + emStr(c.Name) + "," + emCells(c.Data) + "))"
	})
}
func emPool(p []Frame) string { return emList(p, emFrame) }
func emKVs(r []KV) string {
	return emList(r, func(kv KV) string { return "(" + emStr(kv.K) + "," + emCell(kv.V) + ")" })
}
func emStrs(ss []BStr) string { return emList(ss, emStr) }

func emOp(o Op) string {
	f := emNat(o.F)
	switch o.K {
	case "head":
		return fmt.Sprintf("(OHead %s %s)", f, emZ(o.N))
	case "tail":
		return fmt.Sprintf("(OTail %s %s)", f, emZ(o.N))
	case "rowslice":
		return fmt.Sprintf("(ORowSlice %s %s %s)", f, emZ(o.A), emZ(o.B))
	case "filter":
		return fmt.Sprintf("(OFilter %s %s)", f, emList(o.Keep, emBool))
	case "loc":
		return fmt.Sprintf("(OLoc %s %s %s)", f, emCells(o.Cells), emStrs(o.Strs))
	case "iloc":
		return fmt.Sprintf("(OIloc %s %s %s)", f, emList(o.Ints, emZ), emList(o.Ints2, emZ))
	case "multiselect":
		return fmt.Sprintf("(OMultiSelect %s %s)", f, emStrs(o.Strs))
	case "sort":
		asc := "None"
		if o.Asc != nil {
			asc = "(Some " + emBool(*o.Asc) + ")"
		}
		return fmt.Sprintf("(OSort %s %s %s)", f, emStrs(o.Strs), asc)
	case "shift":
		return fmt.Sprintf("(OShift %s %s)", f, emZ(o.N))
	case "dedup":
		return fmt.Sprintf("(ODedup %s %s %s %s)", f, emBool(o.HasOpt), emStrs(o.Strs), emStr(o.S1))
	case "dedupinplace":
		return fmt.Sprintf("(ODedupInplace %s %s %s)", f, emStrs(o.Strs), emStr(o.S1))
	case "join":
		jk := map[string]string{"inner": "JInner", "left": "JLeft", "right": "JRight", "outer": "JOuter"}[o.JK]
		return fmt.Sprintf("(OJoin %s %s %s %s)", jk, f, emNat(o.G), emStr(o.S1))
	case "add":
		fill := "None"
		if o.Fill != nil {
			fill = "(Some " + emCell(*o.Fill) + ")"
		}
		return fmt.Sprintf("(OAdd %s %s %s)", f, emNat(o.G), fill)
	case "apply":
		ax := "None"
		if o.Axis != nil {
			ax = "(Some " + emList(*o.Axis, emZ) + ")"
		}
		return fmt.Sprintf("(OApply %s %s %s)", f, emNat(o.Fn), ax)
	case "describe":
		return fmt.Sprintf("(ODescribe %s)", f)
	case "resample":
		return fmt.Sprintf("(OResample %s %s %s %s)", f, emStr(o.S1), emStr(o.S2), emNat(o.Fn))
	case "groupagg", "groupby":
		gk := "(GOne " + emStr(o.S1) + ")"
		if o.GList {
			gk = "(GList " + emStrs(o.Strs) + ")"
		}
		if o.K == "groupby" {
			return fmt.Sprintf("(OGroupby %s %s)", f, gk)
		}
		ag := map[string]string{"sum": "GSum", "mean": "GMean", "count": "GCount"}[o.Agg]
		return fmt.Sprintf("(OGroupAgg %s %s %s %s)", f, gk, ag, emStrs(o.Cols))
	case "string":
		return fmt.Sprintf("(OString %s)", f)
	case "select":
		return fmt.Sprintf("(OSelect %s %s)", f, emStr(o.S1))
	case "colat":
		return fmt.Sprintf("(OColAt %s %s %s)", f, emStr(o.S1), emZ(o.N))
	case "series":
		return fmt.Sprintf("(OSeries %s %s %s)", f, emStr(o.S1), emZ(o.N))
	case "plot":
		return fmt.Sprintf("(OPlot %s %s %s %s %s %s)", emBool(o.Bar), f, emStr(o.S1), emStr(o.S2), emBool(o.PathOK), emBool(o.RenderOK))
	case "groupbyother":
		return fmt.Sprintf("(OGroupbyOther %s %s)", f, emBool(o.KeyKind <= 2))
	case "iofail":
		return fmt.Sprintf("(OIoFail %s false)", f) // the step emitter supplies the observed outcome
	case "fromcsv":
		return fmt.Sprintf("(OFromCSV %s)", emStr(o.Bytes))
	case "csvroundtrip":
		return fmt.Sprintf("(OCsvRoundTrip %s)", f)
	case "tocsv":
		return fmt.Sprintf("(OToCSV %s)", f)
	case "row":
		return fmt.Sprintf("(ORow %s %s)", f, emZ(o.N))
	case "columnnames":
		return fmt.Sprintf("(OColumnNames %s)", f)
	case "nrows":
		return fmt.Sprintf("(ONrows %s)", f)
	case "ncols":
		return fmt.Sprintf("(ONcols %s)", f)
	case "agg":
		ag := map[string]string{"sum": "ASum", "mean": "AMean", "min": "AMin", "max": "AMax"}[o.Agg]
		return fmt.Sprintf("(OAgg %s %s)", f, ag)
	case "appendrow":
		return fmt.Sprintf("(OAppendRow %s %s)", f, emKVs(o.Row))
	case "droprow":
		return fmt.Sprintf("(ODropRow %s %s)", f, emZ(o.N))
	case "fillna":
		return fmt.Sprintf("(OFillNa %s %s)", f, emCell(*o.Cell))
	case "dropna":
		return fmt.Sprintf("(ODropNa %s)", f)
	case "astype":
		return fmt.Sprintf("(OAstype %s %s %s)", f, emStr(o.S1), emStr(o.S2))
	case "datetime":
		return fmt.Sprintf("(ODatetime %s %s %s)", f, emStr(o.S1), emStr(o.S2))
	case "rename":
		return fmt.Sprintf("(ORename %s %s %s)", f, emStr(o.S1), emStr(o.S2))
	case "addcolumn":
		return fmt.Sprintf("(OAddColumn %s %s %s)", f, emStr(o.S1), emCells(o.Cells))
	case "dropcolumn":
		return fmt.Sprintf("(ODropColumn %s %s)", f, emStr(o.S1))
	case "setcell":
		return fmt.Sprintf("(OSetCell %s %s %s %s)", f, emStr(o.S1), emZ(o.N), emCell(*o.Cell))
	}
	panic("emOp: " + o.K)
}

func emVal(v *Val) string {
	switch v.K {
	case "none":
		return "VNone"
	case "frame":
		return "(VFrame " + emFrame(*v.Frame) + ")"
	case "row":
		return "(VRow " + emKVs(v.Row) + ")"
	case "strs":
		return "(VStrs " + emStrs(v.Strs) + ")"
	case "int":
		return "(VInt " + emZ(v.Int) + ")"
	case "bytes":
		return "(VBytes " + emStr(v.Bytes) + ")"
	case "floats":
		return "(VFloats " + emList(v.Floats, func(kv FloatKV) string { return "(" + emStr(kv.K) + "," + emFl(kv.V) + ")" }) + ")"
	case "groups":
		return "(VGroups " + emList(v.Groups, func(g GroupObs) string {
			return "(" + emCell(g.Key) + "," + emList(g.Rows, emKVs) + ")"
		}) + ")"
	case "cells":
		return "(VCells " + emStr(v.Name) + " " + emCells(v.Cells) + ")"
	case "filter":
		return "(VFilter " + emFrame(*v.Frame) + " " + emList(v.Seen, emKVs) + ")"
	}
	panic("emVal: " + v.K)
}

func emOut(o Out) string {
	switch o.Status {
	case "ok":
		return "(Ok " + emVal(o.Val) + ")"
	case "err":
		return "Err"
	}
	return "Panic"
}

func emOracles(o Oracles) string {
	pf := emList(o.Pf, func(e PfEntry) string {
		if e.Ok {
			return "(" + emStr(e.S) + ",Some " + emFl(*e.V) + ")"
		}
		return "(" + emStr(e.S) + ",None)"
	})
	fm := emList(o.Fmt, func(e FmtEntry) string { return "(" + emCell(e.C) + "," + emStr(e.S) + ")" })
	tp := emList(o.Tp, func(e TpEntry) string {
		if e.Ok {
			return "((" + emStr(e.Layout) + "," + emStr(e.S) + "),Some " + emList(e.V.Tm, emZ) + ")"
		}
		return "((" + emStr(e.Layout) + "," + emStr(e.S) + "),None)"
	})
	return "{| o_pf := " + pf + "; o_fmt := " + fm + "; o_tparse := " + tp + " |}"
}

func emDelta(pre, post []Frame) string {
	parts := []string{}
	for i, f := range post {
		cur := emFrame(f)
		if i < len(pre) && emFrame(pre[i]) == cur {
			continue
		}
		parts = append(parts, "("+emNat(i)+","+cur+")")
	}
	return "[" + strings.Join(parts, ";") + "]"
}

func emHist(h Hist) string {
	prev := h.Pool
	parts := make([]string, len(h.Steps))
	for i, s := range h.Steps {
		opText := emOp(s.Op)
		if s.Op.K == "iofail" {
			opText = fmt.Sprintf("(OIoFail %s %s)", emNat(s.Op.F), emBool(s.Out.Status == "err"))
		}
		parts[i] = "{| s_op := " + opText + "; s_out := " + emOut(s.Out) + "; s_delta := " + emDelta(prev, s.Pool) + "; s_shared := " + emBool(s.Shared != "") +
			"; s_nrows := " + emList(s.Nrows, emZ) + " |}"
		prev = s.Pool
	}
	steps := "[" + strings.Join(parts, ";") + "]"
	return "{| h_or := " + emOracles(h.Or) + ";\n h_pool := " + emPool(h.Pool) + ";\n h_steps := " + steps + " |}"
}

// emCasesFile writes a complete cases file whose compilation prints the failures.
func emCasesFile(hs []Hist) string {
	var b strings.Builder
	b.WriteString("From GF Require Import Corr.\nOpen Scope Z_scope.\n")
	b.WriteString("Definition cases : list hist := [\n")
	for i, h := range hs {
		if i > 0 {
			b.WriteString(";\n")
		}
		b.WriteString(emHist(h))
	}
	b.WriteString("\n].\n")
	b.WriteString("Definition result := Eval vm_compute in failures cases 0.\n")
	b.WriteString("Print result.\n")
	return b.String()
}
