package main

// The read-only views of View.v: String, Select, Column.At, Series, LinePlot/BarPlot, Groupby with a key
// that is neither a string nor a []string.

import (
	"fmt"
	"io"
	"math"
	"os"
	"path/filepath"
	"time"

	goframe "github.com/kishyassin/goframe"
	"github.com/kishyassin/goframe/dataframe"
	"github.com/wcharczuk/go-chart/v2"
)

// renderOK asks the chart library itself (not goframe) whether these numbers render without an error.
// go-chart v2.1.2 does not terminate on a bar chart whose values are not finite or whose range overflows;
// not terminating counts as "does not render".
func renderOK(bar bool, xs, ys []float64) bool {
	if bar {
		lo, hi := math.Inf(1), math.Inf(-1)
		for _, v := range xs {
			if math.IsNaN(v) || math.IsInf(v, 0) {
				return false
			}
			lo, hi = math.Min(lo, v), math.Max(hi, v)
		}
		if len(xs) > 0 && math.IsInf(hi-lo, 0) {
			return false
		}
	}
	done := make(chan bool, 1)
	go func() { done <- renderOK1(bar, xs, ys) }()
	select {
	case ok := <-done:
		return ok
	case <-time.After(plotTimeout):
		return false
	}
}

const plotTimeout = 8 * time.Second

func renderOK1(bar bool, xs, ys []float64) (ok bool) {
	defer func() {
		if recover() != nil {
			ok = false
		}
	}()
	if bar {
		g := chart.BarChart{Bars: []chart.Value{}}
		for i, v := range xs {
			g.Bars = append(g.Bars, chart.Value{Value: v, Label: itoa(i)})
		}
		return g.Render(chart.PNG, io.Discard) == nil
	}
	g := chart.Chart{Series: []chart.Series{chart.ContinuousSeries{XValues: xs, YValues: ys}}}
	return g.Render(chart.PNG, io.Discard) == nil
}

type failingWriter struct{}

func (failingWriter) Write(p []byte) (int, error) { return 0, fmt.Errorf("sink refuses the write") }

// lateFailingWriter accepts the first `room` bytes and refuses everything after them.
type lateFailingWriter struct{ room int }

func (w *lateFailingWriter) Write(p []byte) (int, error) {
	if len(p) <= w.room {
		w.room -= len(p)
		return len(p), nil
	}
	n := w.room
	w.room = 0
	return n, fmt.Errorf("sink is full")
}

// shortWriter reports fewer bytes written than given, without an error (a misbehaving io.Writer).
type shortWriter struct{}

func (shortWriter) Write(p []byte) (int, error) {
	if len(p) == 0 {
		return 0, nil
	}
	return len(p) - 1, nil
}

func itoa(i int) string {
	if i == 0 {
		return "0"
	}
	s := ""
	for i > 0 {
		s = string(rune('0'+i%10)) + s
		i /= 10
	}
	return s
}

func floatsOf(df *dataframe.DataFrame, name string) ([]float64, bool) {
	c, ok := df.Columns[name]
	if !ok {
		return nil, false
	}
	out := make([]float64, 0, len(c.Data))
	for _, v := range c.Data {
		f, isF := v.(float64)
		if !isF {
			return nil, false
		}
		out = append(out, f)
	}
	return out, true
}

// Prep fills the oracle bits of an operation that the model takes as given (measured outside goframe).
func (r *Runner) Prep(o *Op) {
	if o.K != "plot" || o.F < 0 || o.F >= len(r.pool) {
		return
	}
	df := r.pool[o.F]
	o.RenderOK = true
	xs, okx := floatsOf(df, string(o.S1))
	if !okx {
		return
	}
	if o.Bar {
		o.RenderOK = renderOK(true, xs, nil)
		return
	}
	ys, oky := floatsOf(df, string(o.S2))
	if !oky || len(xs) != len(ys) {
		return
	}
	o.RenderOK = renderOK(false, xs, ys)
}

func cellsVal(name string, vs ...any) Out {
	v := &Val{K: "cells", Name: BStr(name), Cells: []Cell{}}
	for _, x := range vs {
		v.Cells = append(v.Cells, FromAny(x))
	}
	return Out{Status: "ok", Val: v}
}

func (r *Runner) execView(o Op, df *dataframe.DataFrame) Out {
	switch o.K {
	case "string":
		return Out{Status: "ok", Val: &Val{K: "bytes", Bytes: BStr(df.String())}}
	case "select":
		c, err := df.Select(string(o.S1))
		if err != nil {
			return errOut(err)
		}
		return cellsVal(c.Name, c.Data...)
	case "colat":
		c, err := df.Select(string(o.S1))
		if err != nil {
			return errOut(err)
		}
		v, err := c.At(int(o.N))
		if err != nil {
			return errOut(err)
		}
		return cellsVal(c.Name, v)
	case "series":
		c, err := df.Select(string(o.S1))
		if err != nil {
			return errOut(err)
		}
		s := dataframe.NewSeries(c.Name, c.Data)
		if viaRoot(o) {
			s = goframe.NewSeries(c.Name, c.Data)
		}
		if c.Len() != s.Len() {
			return Out{Status: "ok", Val: &Val{K: "strs", Strs: []BStr{"Column.Len and Series.Len disagree"}}}
		}
		return cellsVal(s.Name, s.Len(), s.At(int(o.N)))
	case "plot":
		dir, err := os.MkdirTemp("", "verifplot")
		if err != nil {
			panic(err)
		}
		defer os.RemoveAll(dir)
		path := filepath.Join(dir, "p.png")
		if !o.PathOK {
			path = filepath.Join(dir, "missing", "p.png")
		}
		// a call that does not come back is reported like a panic: the operation did not return normally
		type res struct {
			err error
			pan any
		}
		done := make(chan res, 1)
		go func() {
			defer func() {
				if e := recover(); e != nil {
					done <- res{pan: e}
				}
			}()
			if o.Bar {
				done <- res{err: df.BarPlot(string(o.S1), path)}
			} else {
				done <- res{err: df.LinePlot(string(o.S1), string(o.S2), path)}
			}
		}()
		select {
		case rr := <-done:
			if rr.pan != nil {
				return Out{Status: "panic", Msg: fmt.Sprint(rr.pan)}
			}
			err = rr.err
		case <-time.After(plotTimeout):
			return Out{Status: "panic", Msg: "the call did not return within " + plotTimeout.String()}
		}
		if err != nil {
			return errOut(err)
		}
		if st, e := os.Stat(path); e != nil || st.Size() == 0 {
			return Out{Status: "err", Msg: "plot reported success but wrote no file"}
		}
		return Out{Status: "ok", Val: &Val{K: "none"}}
	case "iofail":
		// an export whose sink fails: a writer that refuses every write, or the file /dev/full.  Whether the
		// failure is reported is recorded, not judged; what matters is that nothing else changes and that later
		// exports are not affected
		var err error
		must := false // the failure cannot go unnoticed by the library: it has to be reported
		switch {
		case o.N == 1:
			// a file that cannot be created
			must = true
			err = df.ToCSV(filepath.Join(os.TempDir(), "gf-no-such-dir-for-the-harness", "x", "out.csv"))
		case o.N == 2:
			// a file that cannot be opened for reading
			must = true
			var got *dataframe.DataFrame
			got, err = df.FromCSV(filepath.Join(os.TempDir(), "gf-no-such-dir-for-the-harness", "in.csv"))
			if err != nil && got != nil {
				return Out{Status: "panic", Msg: "FromCSV returned both an error and a frame"}
			}
		case o.N == 3:
			// a sink that fills up part of the way through
			err = df.ToCSVWriter(&lateFailingWriter{room: 7})
		case o.N == 4:
			err = df.ToCSVWriter(&lateFailingWriter{room: 5000})
		case o.N == 5:
			err = df.ToCSVWriter(shortWriter{})
		case o.ViaFile:
			err = df.ToCSV("/dev/full")
		default:
			err = df.ToCSVWriter(failingWriter{})
		}
		if err != nil {
			return errOut(err)
		}
		if must {
			return Out{Status: "panic", Msg: "an input/output failure that had to be reported was not"}
		}
		return Out{Status: "ok", Val: &Val{K: "none"}}
	case "groupbyother":
		var key any
		switch o.KeyKind {
		case 0:
			key = dataframe.Series{Name: "a", Data: []any{1}}
		case 1:
			key = map[string]string{"a": "b"}
		case 2:
			key = func(map[string]any) any { return 1 }
		case 3:
			key = 7
		case 4:
			key = nil
		case 5:
			key = []any{"a"}
		default:
			key = &dataframe.Series{Name: "a"}
		}
		g := df.Groupby(key)
		if g.Error() != nil {
			return errOut(g.Error())
		}
		v := &Val{K: "groups", Groups: []GroupObs{}}
		if len(g.KeyOrder) != 0 || len(g.Groups) != 0 {
			return Out{Status: "ok", Val: &Val{K: "strs", Strs: []BStr{"groups from a key that names no column"}}}
		}
		return Out{Status: "ok", Val: v}
	}
	panic("execView: " + o.K)
}
