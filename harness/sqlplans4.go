package main

// Size cases for the SQL plans: more rows than the default batch (1000), a failure in a late batch,
// a long result set.

import "fmt"

func extendSQL(name string, extra func(g *Gen, tier string, add func(c SQLCase))) {
	base := sqlPlans[name]
	sqlPlans[name] = func(g *Gen, tier string) ([]SQLCase, map[string]int, bool) {
		cases, stats, exh := base(g, tier)
		extra(g, tier, func(c SQLCase) {
			cases = append(cases, c)
			stats[c.Tag]++
		})
		return cases, stats, exh
	}
}

func init() {
	extendSQL("C11", bigC11)
	extendSQL("C12", bigC12)
	extendSQL("C14", bigC14)
}

// a tall narrow frame: an int id and a text column with some nils
func tallSQLFrame(g *Gen, n int) Frame {
	id := Col{Key: "id", Name: "id", Data: make([]Cell, 0, n)}
	nm := Col{Key: "name", Name: "name", Data: make([]Cell, 0, n)}
	for i := 0; i < n; i++ {
		id.Data = append(id.Data, IntCell("int", int64(i)))
		if g.chance(0.1) {
			nm.Data = append(nm.Data, NilCell())
		} else {
			nm.Data = append(nm.Data, StrCell(fmt.Sprintf("n%d", i)))
		}
	}
	return mkFrame(id, nm)
}

func bigC11(g *Gen, tier string, add func(c SQLCase)) {
	type shape struct {
		n  int
		bs int64
	}
	shapes := []shape{{1001, 0}, {300, 7}, {1100, 1000}}
	if tier == "thorough" {
		shapes = append(shapes, shape{2001, 0}, shape{2500, 1000}, shape{1000, 0}, shape{999, 0}, shape{3000, 999})
	}
	for i, sh := range shapes {
		d := []string{"sqlite", "postgres", "mysql"}[i%3]
		w := &WCase{HasOpt: true, IfExists: BStr([]string{"fail", "replace", "append"}[i%3]), Dialect: BStr(d), Batch: sh.bs, TypeMapNil: true, Table: "t", Frame: tallSQLFrame(g, sh.n),
			Entry: []string{"ToSQL", "ToSQLContext", "ToSQLTx", "ToSQLTxContext"}[i%4]}
		w.Tx = w.Entry == "ToSQLTx" || w.Entry == "ToSQLTxContext"
		w.Store = sortStore([]NamedTable{otherTable()})
		add(SQLCase{Kind: "w", Tag: fmt.Sprintf("big rows=%d batch=%d", sh.n, sh.bs), W: w})
	}
}

func bigC12(g *Gen, tier string, add func(c SQLCase)) {
	ns := []int{1100}
	if tier == "thorough" {
		ns = append(ns, 2100, 10001)
	}
	for _, n := range ns {
		base := WCase{HasOpt: true, IfExists: "replace", Dialect: "postgres", Batch: 0, TypeMapNil: true, Table: "t", Frame: tallSQLFrame(g, n), Entry: "ToSQLContext"}
		base.Store = sortStore([]NamedTable{otherTable(), {Name: "t", Table: existingTable(g, base.Frame, 0)}})
		probe := base
		RunW(&probe)
		ncalls := len(probe.Log)
		// a failure or a cancellation at each of the late calls: the last inserts and the commit
		for k := ncalls - 2; k <= ncalls; k++ {
			if k < 1 {
				continue
			}
			w := base
			w.Fault = k
			add(SQLCase{Kind: "w", Tag: fmt.Sprintf("big rows=%d fault", n), W: &w})
			c := base
			c.Cancel = k
			add(SQLCase{Kind: "w", Tag: fmt.Sprintf("big rows=%d cancel", n), W: &c})
		}
	}
}

func bigC14(g *Gen, tier string, add func(c SQLCase)) {
	ns := []int{300, 2049}
	if tier == "thorough" {
		ns = append(ns, 5003)
	}
	for i, n := range ns {
		rs := ResultSet{Names: []BStr{"c0", "c1"}, Types: []BStr{"INTEGER", "TEXT"}, Rows: [][]Cell{}, ErrAt: -1}
		for r := 0; r < n; r++ {
			// (floats are avoided here: a binary64 literal of the model is some 280 characters long)
			row := []Cell{IntCell("int64", int64(r)), StrCell([]string{"x", "y"}[(r/9)%2])}
			if r%41 == 40 {
				row[r%2] = NilCell()
			}
			rs.Rows = append(rs.Rows, row)
		}
		h := []Handler{{Kind: "string", S: "skip_row"}, {Kind: "string", S: "zero"}, {Kind: "default"}}[i%3]
		add(SQLCase{Kind: "r", Tag: fmt.Sprintf("big rows=%d", n), R: &RCase{Handler: h, RS: rs, Dates: []BStr{}, Entry: "FromSQL"}})
		// an iteration error late in a long result set
		rs2 := rs
		rs2.ErrAt = n - 3
		add(SQLCase{Kind: "r", Tag: fmt.Sprintf("big rows=%d late-error", n), R: &RCase{Handler: h, RS: rs2, Dates: []BStr{}, Entry: "FromSQLContext"}})
	}
}
