package main

// Generators: random frames and random operations with mostly-valid arguments plus
// boundary values.  Every choice derives from one seeded PRNG.

import (
	"math"
	"math/rand"
	"time"
)

type Gen struct {
	r *rand.Rand
}

func (g *Gen) pick(xs []string) string { return xs[g.r.Intn(len(xs))] }
func (g *Gen) chance(p float64) bool   { return g.r.Float64() < p }

var colNames = []string{"a", "b", "c", "k", "index", "v", "w"}
var oddNames = []string{"", " ", "a,b", "q\"r", "x\ny", "é", "stat", "GroupKey"}

var strPool = []string{"x", "y", "z", "", "nil", "<nil>", "a|b", "a", "b", "b:c", "|", ":", "x|b:y", "1", "2.5", " 7", "1e3", "true", "é", "a,b", "q\"r", "l\nm", "NaN", "Inf", "0x10", "1_0"}
var plainStrs = []string{"x", "y", "z", "w", "apple", "pear", "fig", ""}

var intPool = []int64{0, 1, 2, 3, -1, -2, 5, 7, 10, 100, -100, 1 << 20}
var bigInts = []int64{1 << 53, -(1 << 53), 1<<53 + 1, math.MaxInt64, math.MinInt64, 1<<62 + 12345}
var f64Pool = []float64{0, 1, 2, 0.5, -1.5, 2.25, 3, 10, -0.25, 100.125, 1e6, 1e-3, 0.1, 0.2, 0.3, 1.0 / 3.0, 2.5e10, -7.75}
var f64Special = []float64{math.NaN(), math.Inf(1), math.Inf(-1), math.Copysign(0, -1), math.MaxFloat64, math.SmallestNonzeroFloat64, 1e21, 1e20, 123456789.125, 1e-7}

func (g *Gen) intVal(big bool) int64 {
	if big && g.chance(0.15) {
		return bigInts[g.r.Intn(len(bigInts))]
	}
	if g.chance(0.2) {
		return int64(g.r.Intn(2001) - 1000)
	}
	return intPool[g.r.Intn(len(intPool))]
}
func (g *Gen) f64Val(special bool) float64 {
	if special && g.chance(0.15) {
		return f64Special[g.r.Intn(len(f64Special))]
	}
	if g.chance(0.3) {
		return float64(g.r.Intn(4001)-2000) / 8
	}
	if g.chance(0.1) {
		return g.r.NormFloat64() * math.Pow(10, float64(g.r.Intn(40)-20))
	}
	return f64Pool[g.r.Intn(len(f64Pool))]
}
func (g *Gen) timeVal(off int) Cell {
	y := 1900 + g.r.Intn(201)
	if g.chance(0.6) {
		y = 2020 + g.r.Intn(2)
	}
	mo := 1 + g.r.Intn(12)
	if g.chance(0.5) {
		mo = []int{1, 2, 12}[g.r.Intn(3)]
	}
	d := 1 + g.r.Intn(28)
	if g.chance(0.3) {
		d = []int{1, 28, 31}[g.r.Intn(3)]
		if d == 31 && (mo == 2 || mo == 4 || mo == 6 || mo == 9 || mo == 11) {
			d = 28
		}
	}
	h, mi, s, ns := g.r.Intn(24), g.r.Intn(60), g.r.Intn(60), 0
	if g.chance(0.4) {
		h, mi, s = []int{0, 23}[g.r.Intn(2)], []int{0, 59}[g.r.Intn(2)], []int{0, 59}[g.r.Intn(2)]
	}
	if g.chance(0.3) {
		ns = g.r.Intn(1000000000)
	}
	return TimeCell(time.Date(y, time.Month(mo), d, h, mi, s, ns, zoneFor(off)))
}

// cellOfKind draws one cell of a column kind.
// kinds: int int64 ints(any width) f64 f32 str pstr(plain) nstr(numeric strings) bool time mixed
func (g *Gen) cellOfKind(kind string, wild bool, zoneOff int) Cell {
	switch kind {
	case "int":
		return IntCell("int", g.intVal(wild))
	case "int64":
		return IntCell("int64", g.intVal(wild))
	case "ints":
		ks := []string{"int", "int8", "int16", "int32", "int64", "uint", "uint8", "uint16", "uint32", "uint64"}
		k := ks[g.r.Intn(len(ks))]
		v := int64(g.r.Intn(100))
		if k[0] == 'u' {
			return UintCell(k, uint64(v))
		}
		if g.chance(0.3) {
			v = -v
		}
		return IntCell(k, v)
	case "f64":
		return F64Cell(g.f64Val(wild))
	case "f32":
		return F32Cell(float32(g.f64Val(false)))
	case "str":
		return StrCell(strPool[g.r.Intn(len(strPool))])
	case "pstr":
		return StrCell(plainStrs[g.r.Intn(len(plainStrs))])
	case "nstr":
		return StrCell([]string{"1", "2.5", "-3", "1e3", "0.125", "7", ".5", "+1", "-.25", "5.", "1E2", "0x10", "inf", "-Inf", "1_000", "+.5e1", "Infinity", "00.5", "0.1", "16777217", "1e100", "3.4028236e38", "1e-50", "0.30000000000000004"}[g.r.Intn(24)])
	case "bool":
		return BoolCell(g.chance(0.5))
	case "time":
		return g.timeVal(zoneOff)
	case "nil":
		return NilCell()
	default: // mixed
		ks := []string{"int", "f64", "str", "bool", "int64", "pstr", "nil"}
		return g.cellOfKind(ks[g.r.Intn(len(ks))], wild, zoneOff)
	}
}

type FrameSpec struct {
	MinRows, MaxRows int
	MinCols, MaxCols int
	Kinds            []string
	NilProb          float64
	Wild             bool     // extreme numbers
	Names            []string // nil: default names
	OddNames         float64
	Must             []string // columns that must be present (kind drawn from Kinds)
	MustKinds        map[string]string
}

func (g *Gen) frame(sp FrameSpec) Frame {
	nr := sp.MinRows + g.r.Intn(sp.MaxRows-sp.MinRows+1)
	nc := sp.MinCols + g.r.Intn(sp.MaxCols-sp.MinCols+1)
	names := sp.Names
	if names == nil {
		names = colNames
	}
	chosen := map[string]bool{}
	order := []string{}
	for _, m := range sp.Must {
		if !chosen[m] {
			chosen[m] = true
			order = append(order, m)
		}
	}
	for tries := 0; len(order) < nc && tries < 50; tries++ {
		n := names[g.r.Intn(len(names))]
		if g.chance(sp.OddNames) {
			n = oddNames[g.r.Intn(len(oddNames))]
		}
		if !chosen[n] {
			chosen[n] = true
			order = append(order, n)
		}
	}
	zoneOff := 0
	if g.chance(0.3) {
		zoneOff = []int{3600, -18000, 19800}[g.r.Intn(3)]
	}
	f := Frame{Cols: []Col{}}
	for _, n := range order {
		kind := sp.Kinds[g.r.Intn(len(sp.Kinds))]
		if k, ok := sp.MustKinds[n]; ok {
			kind = k
		}
		col := Col{Key: BStr(n), Name: BStr(n), Data: []Cell{}}
		for i := 0; i < nr; i++ {
			if kind != "time" && g.chance(sp.NilProb) {
				col.Data = append(col.Data, NilCell())
			} else {
				col.Data = append(col.Data, g.cellOfKind(kind, sp.Wild, zoneOff))
			}
		}
		f.Cols = append(f.Cols, col)
	}
	sortFrame(&f)
	return f
}

func sortFrame(f *Frame) {
	cols := f.Cols
	for i := 1; i < len(cols); i++ {
		for j := i; j > 0 && cols[j].Key < cols[j-1].Key; j-- {
			cols[j], cols[j-1] = cols[j-1], cols[j]
		}
	}
}

func (f Frame) nrows() int {
	if len(f.Cols) == 0 {
		return 0
	}
	return len(f.Cols[0].Data)
}
func (f Frame) names() []string {
	out := []string{}
	for _, c := range f.Cols {
		out = append(out, string(c.Key))
	}
	return out
}

// boundary-biased integer around n
func (g *Gen) countArg(n int) int64 {
	switch g.r.Intn(10) {
	case 0:
		return -1
	case 1:
		return 0
	case 2:
		return int64(n)
	case 3:
		return int64(n + 1)
	case 4:
		return int64(n + 2)
	case 5:
		return []int64{math.MinInt64, math.MaxInt64, -2, math.MaxInt32}[g.r.Intn(4)]
	default:
		if n == 0 {
			return int64(g.r.Intn(2))
		}
		return int64(g.r.Intn(n + 1))
	}
}

func (g *Gen) someNames(f Frame, min, max int, missingProb float64) []BStr {
	ns := f.names()
	k := min + g.r.Intn(max-min+1)
	out := []BStr{}
	for i := 0; i < k; i++ {
		if len(ns) == 0 || g.chance(missingProb) {
			out = append(out, BStr([]string{"nope", "zz", ""}[g.r.Intn(3)]))
		} else {
			out = append(out, BStr(ns[g.r.Intn(len(ns))]))
		}
	}
	return out
}
func (g *Gen) oneName(f Frame, missingProb float64) BStr {
	return g.someNames(f, 1, 1, missingProb)[0]
}

// a cell that occurs in column name of f (or a fresh one)
func (g *Gen) cellFrom(f Frame, name string) Cell {
	for _, c := range f.Cols {
		if string(c.Key) == name && len(c.Data) > 0 && g.chance(0.8) {
			return c.Data[g.r.Intn(len(c.Data))]
		}
	}
	return g.cellOfKind("mixed", false, 0)
}

var deriveKinds = []string{"head", "tail", "rowslice", "filter", "loc", "iloc", "multiselect", "sort", "shift", "dedup", "join", "add", "apply", "describe", "resample", "groupagg", "csvroundtrip"}
var editKinds = []string{"appendrow", "droprow", "fillna", "dropna", "astype", "datetime", "rename", "addcolumn", "dropcolumn", "setcell", "dedupinplace"}
var observeKinds = []string{"groupby", "tocsv", "row", "columnnames", "nrows", "ncols", "agg", "string", "select", "colat", "series", "plot", "groupbyother"}

// genOp draws arguments for an operation of the given kind on the current pool.
// bad = probability of deliberately invalid arguments.
func (g *Gen) genOp(kind string, pool []Frame, bad float64) Op {
	fi := g.r.Intn(len(pool))
	f := pool[fi]
	n := f.nrows()
	o := Op{K: kind, F: fi}
	switch kind {
	case "head", "tail":
		o.N = g.countArg(n)
	case "rowslice":
		o.A = int64(g.r.Intn(n+5) - 2)
		o.B = int64(g.r.Intn(n+5) - 2)
		if g.chance(0.1) {
			o.A = []int64{math.MinInt64, math.MaxInt64}[g.r.Intn(2)]
		}
		if g.chance(0.1) {
			o.B = []int64{math.MinInt64, math.MaxInt64}[g.r.Intn(2)]
		}
	case "filter":
		k := n
		if g.chance(0.2) {
			k = g.r.Intn(n + 2)
		}
		p := g.r.Float64()
		for i := 0; i < k; i++ {
			o.Keep = append(o.Keep, g.chance(p))
		}
		o.Alt = g.chance(0.3)
	case "loc":
		k := g.r.Intn(4)
		for i := 0; i < k; i++ {
			if g.chance(0.5) {
				o.Cells = append(o.Cells, locAlphabet[g.r.Intn(len(locAlphabet))])
			} else {
				o.Cells = append(o.Cells, g.cellFrom(f, "index"))
			}
		}
		o.Strs = g.someNames(f, 0, 3, bad)
	case "iloc":
		k := g.r.Intn(5)
		for i := 0; i < k; i++ {
			if g.chance(bad) {
				o.Ints = append(o.Ints, []int64{-1, int64(n), int64(n + 1), math.MinInt64, math.MaxInt64}[g.r.Intn(5)])
			} else if n > 0 {
				o.Ints = append(o.Ints, int64(g.r.Intn(n)))
			}
		}
		k = g.r.Intn(4)
		for i := 0; i < k; i++ {
			if g.chance(bad) || len(f.Cols) == 0 {
				o.Ints2 = append(o.Ints2, []int64{-1, int64(len(f.Cols)), math.MaxInt64}[g.r.Intn(3)])
			} else {
				o.Ints2 = append(o.Ints2, int64(g.r.Intn(len(f.Cols))))
			}
		}
	case "multiselect":
		o.Strs = g.someNames(f, 0, 3, bad)
	case "sort":
		o.Strs = g.someNames(f, 0, 3, bad)
		if g.chance(0.7) {
			b := g.chance(0.5)
			o.Asc = &b
		}
	case "shift":
		choices := []int64{0, 1, -1, 2, -2, int64(n), int64(-n), int64(n + 1), int64(-n - 1), int64(n - 1), 7, -7,
			math.MinInt64, math.MinInt64 + 1, math.MaxInt64 - 1, math.MaxInt64}
		o.N = choices[g.r.Intn(len(choices))]
	case "dedup", "dedupinplace":
		o.HasOpt = kind == "dedupinplace" || g.chance(0.8)
		if g.chance(0.5) {
			o.Strs = g.someNames(f, 1, 2, bad)
		}
		o.S1 = BStr([]string{"", "first", "last", "none"}[g.r.Intn(4)])
		if g.chance(bad) {
			o.S1 = BStr([]string{"bogus", "First", "all"}[g.r.Intn(3)])
		}
	case "join":
		o.G = g.r.Intn(len(pool))
		o.JK = []string{"inner", "left", "right", "outer"}[g.r.Intn(4)]
		o.S1 = g.oneName(f, bad)
	case "add":
		o.G = g.r.Intn(len(pool))
		if g.chance(0.4) {
			c := g.cellOfKind("mixed", false, 0)
			o.Fill = &c
		}
	case "apply":
		o.Fn = g.r.Intn(9)
		if bad > 0.3 && g.chance(0.3) {
			o.Fn = 10 + g.r.Intn(6) // results of another length or shape
		}
		switch g.r.Intn(5) {
		case 0:
		case 1:
			ax := []int64{0}
			o.Axis = &ax
		case 2:
			ax := []int64{}
			o.Axis = &ax
		default:
			ax := []int64{[]int64{1, 1, 2, -1}[g.r.Intn(4)]}
			o.Axis = &ax
			// typed slices are not scalar cells row-wise: keep to the []any / single-value menu
			o.Fn = []int{0, 1, 2, 3, 7, 8}[g.r.Intn(6)]
		}
	case "describe", "csvroundtrip", "tocsv", "columnnames", "nrows", "ncols", "dropna", "string":
	case "select":
		o.S1 = g.oneName(f, bad)
	case "colat", "series":
		o.S1 = g.oneName(f, bad)
		o.N = g.countArg(n)
		if n > 0 && g.chance(0.6) {
			o.N = int64(g.r.Intn(n))
		}
	case "plot":
		o.Bar = g.chance(0.5)
		o.PathOK = !g.chance(0.15)
		o.S1 = g.oneName(f, bad)
		o.S2 = g.oneName(f, bad)
		// prefer columns that hold only float64 cells, when there are any
		fl := []BStr{}
		for _, c := range f.Cols {
			all := true
			for _, v := range c.Data {
				if v.T != "f64" {
					all = false
				}
			}
			if all {
				fl = append(fl, c.Key)
			}
		}
		if len(fl) > 0 && g.chance(0.8) {
			o.S1 = fl[g.r.Intn(len(fl))]
			o.S2 = fl[g.r.Intn(len(fl))]
		}
	case "groupbyother":
		o.KeyKind = g.r.Intn(7)
	case "resample":
		o.S1 = g.oneName(f, bad)
		for _, c := range f.Cols {
			if len(c.Data) > 0 && c.Data[0].T == "time" && g.chance(0.9) {
				o.S1 = c.Key
			}
		}
		o.S2 = BStr([]string{"Y", "M", "D", "H", "T", "S"}[g.r.Intn(6)])
		if g.chance(bad) {
			o.S2 = BStr([]string{"W", "", "y", "MM"}[g.r.Intn(4)])
		}
		o.Fn = g.r.Intn(4)
	case "groupagg", "groupby":
		if g.chance(0.6) {
			o.S1 = g.oneName(f, bad)
		} else {
			o.GList = true
			o.Strs = g.someNames(f, 1, 3, bad)
		}
		o.Agg = []string{"sum", "mean", "count"}[g.r.Intn(3)]
		if g.chance(0.6) {
			o.Cols = g.someNames(f, 1, 2, bad)
		}
	case "row":
		o.N = g.countArg(n)
	case "agg":
		o.Agg = []string{"sum", "mean", "min", "max"}[g.r.Intn(4)]
	case "appendrow":
		for _, nm := range f.names() {
			if g.chance(0.8) {
				o.Row = append(o.Row, KV{BStr(nm), g.cellFrom(f, nm)})
			}
		}
		if g.chance(0.3) {
			nm := []string{"new", "zz", "a", "k"}[g.r.Intn(4)]
			dup := false
			for _, kv := range o.Row {
				if string(kv.K) == nm {
					dup = true
				}
			}
			if !dup {
				o.Row = append(o.Row, KV{BStr(nm), g.cellOfKind("mixed", false, 0)})
			}
		}
		sortKVs(o.Row)
	case "droprow":
		o.N = g.countArg(n)
		if n > 0 && g.chance(0.6) {
			o.N = int64(g.r.Intn(n))
		}
	case "fillna":
		c := g.cellOfKind("mixed", false, 0)
		o.Cell = &c
	case "astype":
		o.S1 = g.oneName(f, bad)
		o.S2 = BStr([]string{"int", "float64", "string"}[g.r.Intn(3)])
		if g.chance(bad) {
			o.S2 = BStr([]string{"bool", "", "Int"}[g.r.Intn(3)])
		}
	case "datetime":
		o.S1 = g.oneName(f, bad)
		o.S2 = BStr([]string{"2006-01-02", "2006-01-02 15:04:05", "01/02/2006"}[g.r.Intn(3)])
	case "rename":
		o.S1 = g.oneName(f, bad)
		o.S2 = BStr([]string{"r1", "r2", "a", "b"}[g.r.Intn(4)])
		if g.chance(0.1) {
			o.S2 = o.S1
		}
	case "addcolumn":
		o.S1 = BStr([]string{"n1", "n2", "a", "b", "index"}[g.r.Intn(5)])
		k := n
		if len(f.Cols) == 0 {
			k = g.r.Intn(4)
		}
		kind := []string{"int", "f64", "pstr", "mixed"}[g.r.Intn(4)]
		o.Cells = []Cell{}
		for i := 0; i < k; i++ {
			o.Cells = append(o.Cells, g.cellOfKind(kind, false, 0))
		}
	case "dropcolumn":
		o.S1 = g.oneName(f, bad)
	case "setcell":
		o.S1 = g.oneName(f, 0)
		if n > 0 {
			o.N = int64(g.r.Intn(n))
		}
		c := g.cellOfKind("mixed", false, 0)
		o.Cell = &c
	case "fromcsv":
		o.Bytes = BStr(g.csvText())
		o.N = int64(g.r.Intn(6)) // which kind of reader delivers the bytes
	default:
		panic("genOp: " + kind)
	}
	return o
}

// csvText draws CSV input: grammar-generated tables, then optional byte-level mutation.
func (g *Gen) csvText() string {
	fields := []string{"a", "b", "c", "1", " 7 ", "2.5", "1e5", "Inf", "nan", "0x1p-2", "1_0", "1e400", "+.5", "", " ", "x y", "é", "-0", "\t3\t", " 4 ", " 5"}
	quoted := []string{"a,b", "q\"r", "l\nm", "cr\rx", " lead", "", "1", "x\r\ny"}
	w := 1 + g.r.Intn(3)
	nrec := g.r.Intn(5)
	var b []byte
	header := []string{"a", "b"}
	writeField := func(s string, q bool) {
		if q {
			b = append(b, '"')
			for i := 0; i < len(s); i++ {
				if s[i] == '"' {
					b = append(b, '"')
				}
				b = append(b, s[i])
			}
			b = append(b, '"')
		} else {
			b = append(b, s...)
		}
	}
	dupHeader := g.chance(0.15)
	for i := 0; i < w; i++ {
		if i > 0 {
			b = append(b, ',')
		}
		name := string([]byte{'a' + byte(i)})
		if dupHeader {
			name = header[g.r.Intn(2)]
		}
		if g.chance(0.1) {
			name = " " + name
		}
		writeField(name, g.chance(0.2))
	}
	eol := func() {
		switch g.r.Intn(6) {
		case 0:
			b = append(b, '\r', '\n')
		default:
			b = append(b, '\n')
		}
	}
	eol()
	for r := 0; r < nrec; r++ {
		ww := w
		if g.chance(0.08) {
			ww = w + g.r.Intn(3) - 1
		}
		if g.chance(0.05) {
			eol() // blank line
		}
		for i := 0; i < ww; i++ {
			if i > 0 {
				b = append(b, ',')
			}
			if g.chance(0.25) {
				writeField(quoted[g.r.Intn(len(quoted))], true)
			} else {
				writeField(fields[g.r.Intn(len(fields))], false)
			}
		}
		if r < nrec-1 || g.chance(0.7) {
			eol()
		}
	}
	if g.chance(0.35) {
		// byte-level mutation
		muts := 1 + g.r.Intn(2)
		special := []byte{'"', ',', '\r', '\n', ' ', 'a', '1'}
		for m := 0; m < muts; m++ {
			if len(b) == 0 {
				b = append(b, special[g.r.Intn(len(special))])
				continue
			}
			pos := g.r.Intn(len(b))
			switch g.r.Intn(3) {
			case 0:
				b = append(b[:pos], append([]byte{special[g.r.Intn(len(special))]}, b[pos:]...)...)
			case 1:
				b = append(b[:pos], b[pos+1:]...)
			default:
				b[pos] = special[g.r.Intn(len(special))]
			}
		}
	}
	if g.chance(0.03) {
		return ""
	}
	return string(b)
}
