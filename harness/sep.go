package main

// The separation invariant of Heap.v observed on the real heap: no two column slots of live frames
// have overlapping backing arrays (a column with capacity 0 owns no array).

import (
	"fmt"
	"sort"
	"unsafe"

	"github.com/kishyassin/goframe/dataframe"
)

type colArray struct {
	frame int
	name  string
	lo    uintptr
	hi    uintptr // exclusive
}

// sharedArrays names the first pair of column slots whose backing arrays overlap, or "" when all are disjoint.
// The same *Column object stored twice (two keys, or two frames) is such a pair as well.
func sharedArrays(pool []*dataframe.DataFrame) string {
	arrs := []colArray{}
	for fi, df := range pool {
		if df == nil {
			continue
		}
		names := make([]string, 0, len(df.Columns))
		for k := range df.Columns {
			names = append(names, k)
		}
		sort.Strings(names)
		for _, k := range names {
			c := df.Columns[k]
			if c == nil || cap(c.Data) == 0 {
				continue
			}
			full := c.Data[:cap(c.Data)]
			lo := uintptr(unsafe.Pointer(unsafe.SliceData(full)))
			arrs = append(arrs, colArray{fi, k, lo, lo + uintptr(cap(c.Data))*unsafe.Sizeof(full[0])})
		}
	}
	sort.Slice(arrs, func(i, j int) bool { return arrs[i].lo < arrs[j].lo })
	for i := 1; i < len(arrs); i++ {
		if arrs[i].lo < arrs[i-1].hi {
			a, b := arrs[i-1], arrs[i]
			return fmt.Sprintf("frame %d column %q and frame %d column %q share a backing array", a.frame, a.name, b.frame, b.name)
		}
	}
	return ""
}
