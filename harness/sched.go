package main

// Forcing the completion order of row-wise Apply through the verif-tagged gate hook.

import (
	"sync"
	"time"

	"github.com/kishyassin/goframe/dataframe"
)

type scheduler struct {
	mu      sync.Mutex
	waiting map[int]chan struct{}
	arrived chan int
	sent    chan int
	order   []int // realised completion order
}

// runScheduled runs f while releasing the rows blocked at the gate in an order chosen by
// pick(waiting rows, how many released so far): the chosen row's result is sent before the
// next row is released.  It returns the realised order, or nil when no row ever reached the
// gate (hook absent).
func runScheduled(nrows int, pick func(waiting []int, k int) int, f func()) []int {
	s := &scheduler{waiting: map[int]chan struct{}{}, arrived: make(chan int, nrows+1), sent: make(chan int, nrows+1)}
	dataframe.VerifGate = func(phase string, row int) {
		if phase == "before-send" {
			ch := make(chan struct{})
			s.mu.Lock()
			s.waiting[row] = ch
			s.mu.Unlock()
			s.arrived <- row
			<-ch
		} else {
			s.sent <- row
		}
	}
	defer func() { dataframe.VerifGate = nil }()
	done := make(chan struct{})
	go func() {
		defer close(done)
		f()
	}()
	workers := nrows
	if workers > 64 {
		workers = 64
	}
	released := 0
	for released < nrows {
		// wait until nothing more can arrive: either all remaining rows wait, or a short quiet period
		quiet := time.NewTimer(30 * time.Millisecond)
	gather:
		for {
			s.mu.Lock()
			nw := len(s.waiting)
			s.mu.Unlock()
			if nw >= nrows-released {
				break
			}
			select {
			case <-s.arrived:
				if !quiet.Stop() {
					select {
					case <-quiet.C:
					default:
					}
				}
				quiet.Reset(30 * time.Millisecond)
			case <-quiet.C:
				break gather
			case <-done:
				return s.order
			}
		}
		quiet.Stop()
		s.mu.Lock()
		ws := []int{}
		for r := range s.waiting {
			ws = append(ws, r)
		}
		s.mu.Unlock()
		if len(ws) == 0 {
			select {
			case <-done:
				return s.order
			case <-time.After(2 * time.Second):
				// the hook is not being called: let the run finish unforced
				<-done
				return nil
			case <-s.arrived:
				continue
			}
		}
		sortInts(ws)
		r := pick(ws, released)
		s.mu.Lock()
		ch := s.waiting[r]
		delete(s.waiting, r)
		s.mu.Unlock()
		close(ch)
		select {
		case <-s.sent:
		case <-time.After(5 * time.Second):
		}
		s.order = append(s.order, r)
		released++
	}
	<-done
	return s.order
}

func sortInts(a []int) {
	for i := 1; i < len(a); i++ {
		for j := i; j > 0 && a[j] < a[j-1]; j-- {
			a[j], a[j-1] = a[j-1], a[j]
		}
	}
}

// permutations of 0..n-1
func perms(n int) [][]int {
	if n == 0 {
		return [][]int{{}}
	}
	out := [][]int{}
	for _, p := range perms(n - 1) {
		for i := 0; i <= len(p); i++ {
			q := append(append(append([]int{}, p[:i]...), n-1), p[i:]...)
			out = append(out, q)
		}
	}
	return out
}
