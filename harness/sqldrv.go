package main

// An in-memory database/sql driver written for the verification harness: it logs every
// driver call (Begin, Query, Exec, Commit, Rollback) with statement text and bound
// values, executes the four statement shapes goframe issues against a transactional
// table store using its own dialect-aware lexer, can fail or cancel at the k-th call,
// and serves configured result sets (declared column types, NULLs, iteration errors).

import (
	"context"
	"database/sql"
	"database/sql/driver"
	"errors"
	"fmt"
	"io"
	"net"
	"strings"
	"sync"
	"time"
)

type DrvCall struct {
	Kind string `json:"kind"` // begin query exec commit rollback
	Text BStr   `json:"text,omitempty"`
	Args []Cell `json:"args,omitempty"`
	Fail bool   `json:"fail,omitempty"` // this call was made to fail
}

type MemTable struct {
	Cols  []BStr   `json:"cols"`
	Types []BStr   `json:"types"`
	Rows  [][]Cell `json:"rows"`
}

type ResultSet struct {
	Names []BStr   `json:"names"`
	Types []BStr   `json:"types"`  // declared database type names
	Rows  [][]Cell `json:"rows"`   // nil cell = NULL
	ErrAt int      `json:"err_at"` // iteration error instead of row ErrAt (0-based); -1 none
	// ErrKind: what the iteration error is: "" a plain error, "eof" an error wrapping io.EOF (a dropped
	// connection), "neteof" a *net.OpError around io.EOF.  NotNull: the driver reports every column as NOT NULL
	// through RowsColumnTypeNullable (declared nullability is a hint: NULLs still occur, e.g. outer joins).
	// Neither is visible to the model.
	ErrKind string `json:"err_kind,omitempty"`
	NotNull bool   `json:"not_null,omitempty"`
}

type MemDB struct {
	mu         sync.Mutex
	Quote      byte
	Committed  map[string]*MemTable
	working    map[string]*MemTable
	inTx       bool
	Log        []DrvCall
	calls      int // Begin/Query/Exec/Commit calls so far
	FailAt     int // 1-based; 0 = never
	NextFailAt int // the query made as call NextFailAt succeeds but its rows fail on the first Next; 0 = never
	CancelAt   int // cancel the context when call CancelAt has been processed; 0 = never
	// Settle: after cancelling, stay inside the call for a moment so that database/sql's watcher has marked the
	// transaction as done before the library makes its next call (Commit then answers sql.ErrTxDone)
	Settle bool
	// FaultErr: the error an injected failure returns (nil: a plain driver error); e.g. a context error coming
	// from the driver while the caller's context is still alive
	FaultErr  error
	cancel    context.CancelFunc
	Result    *ResultSet
	rollbackC chan struct{}
}

func copyTables(m map[string]*MemTable) map[string]*MemTable {
	out := map[string]*MemTable{}
	for k, t := range m {
		nt := &MemTable{Cols: append([]BStr{}, t.Cols...), Types: append([]BStr{}, t.Types...)}
		for _, r := range t.Rows {
			nt.Rows = append(nt.Rows, append([]Cell{}, r...))
		}
		out[k] = nt
	}
	return out
}

var (
	drvOnce sync.Once
	dbsMu   sync.Mutex
	dbs     = map[string]*MemDB{}
	dbSeq   int
)

type memDriver struct{}

func (memDriver) Open(name string) (driver.Conn, error) {
	dbsMu.Lock()
	defer dbsMu.Unlock()
	db, ok := dbs[name]
	if !ok {
		return nil, errors.New("no such mem db")
	}
	return &memConn{db: db}, nil
}

// OpenMem registers a fresh in-memory database and opens it through database/sql.
func OpenMem(m *MemDB) *sql.DB {
	drvOnce.Do(func() { sql.Register("verifmem", memDriver{}) })
	dbsMu.Lock()
	dbSeq++
	name := fmt.Sprintf("db%d", dbSeq)
	dbs[name] = m
	dbsMu.Unlock()
	if m.Committed == nil {
		m.Committed = map[string]*MemTable{}
	}
	m.rollbackC = make(chan struct{}, 4)
	db, err := sql.Open("verifmem", name)
	if err != nil {
		panic(err)
	}
	db.SetMaxOpenConns(1)
	return db
}

func CloseMem(db *sql.DB) { db.Close() }

type memConn struct{ db *MemDB }

func (c *memConn) Prepare(q string) (driver.Stmt, error) {
	return nil, errors.New("prepare not supported")
}
func (c *memConn) Close() error { return nil }
func (c *memConn) Begin() (driver.Tx, error) {
	return c.BeginTx(context.Background(), driver.TxOptions{})
}

// step counts a driver call and decides whether it fails; it also fires the cancellation.
func (m *MemDB) step(call DrvCall) (fail bool) {
	m.calls++
	fail = m.FailAt != 0 && m.calls == m.FailAt
	call.Fail = fail
	m.Log = append(m.Log, call)
	return fail
}
func (m *MemDB) afterStep() {
	if m.CancelAt != 0 && m.calls == m.CancelAt && m.cancel != nil {
		m.cancel()
		if m.Settle {
			time.Sleep(15 * time.Millisecond)
		}
	}
}

var errPlain = errors.New("injected driver failure")

func (m *MemDB) errInjected() error {
	if m.FaultErr != nil {
		return m.FaultErr
	}
	return errPlain
}

func (c *memConn) BeginTx(ctx context.Context, opts driver.TxOptions) (driver.Tx, error) {
	m := c.db
	m.mu.Lock()
	defer m.mu.Unlock()
	if m.step(DrvCall{Kind: "begin"}) {
		return nil, m.errInjected()
	}
	m.inTx = true
	m.working = copyTables(m.Committed)
	m.afterStep()
	return &memTx{db: m}, nil
}

type memTx struct{ db *MemDB }

func (t *memTx) Commit() error {
	m := t.db
	m.mu.Lock()
	defer m.mu.Unlock()
	if m.step(DrvCall{Kind: "commit"}) {
		m.inTx = false
		m.working = nil
		return m.errInjected()
	}
	m.Committed = m.working
	m.working = nil
	m.inTx = false
	m.afterStep()
	return nil
}
func (t *memTx) Rollback() error {
	m := t.db
	m.mu.Lock()
	defer m.mu.Unlock()
	m.Log = append(m.Log, DrvCall{Kind: "rollback"})
	m.working = nil
	m.inTx = false
	select {
	case m.rollbackC <- struct{}{}:
	default:
	}
	return nil
}

func argsToCells(args []driver.NamedValue) []Cell {
	out := []Cell{}
	for _, a := range args {
		switch v := a.Value.(type) {
		case []byte:
			out = append(out, Cell{T: "other", S: "[]byte"})
			_ = v
		default:
			out = append(out, FromAny(a.Value))
		}
	}
	return out
}

func (m *MemDB) tables() map[string]*MemTable {
	if m.inTx {
		return m.working
	}
	return m.Committed
}

// ---- the lexer/parser for the statements goframe issues ----
type sqlTok struct {
	kind string // word qid ph punct
	text string
	pos  int // start offset in the statement
	end  int // end offset
}

func lexSQL(s string, q byte) ([]sqlTok, error) {
	toks := []sqlTok{}
	i := 0
	for i < len(s) {
		c := s[i]
		start, before := i, len(toks)
		_ = start
		switch {
		case c == ' ' || c == '\t' || c == '\n':
			i++
		case c == q:
			// quoted identifier: doubled quote is an escaped quote; backslash is ordinary
			j := i + 1
			var val []byte
			closed := false
			for j < len(s) {
				if s[j] == q {
					if j+1 < len(s) && s[j+1] == q {
						val = append(val, q)
						j += 2
						continue
					}
					closed = true
					j++
					break
				}
				val = append(val, s[j])
				j++
			}
			if !closed {
				return nil, errors.New("unterminated quoted identifier")
			}
			toks = append(toks, sqlTok{kind: "qid", text: string(val)})
			i = j
		case c == '?':
			toks = append(toks, sqlTok{kind: "ph", text: "?"})
			i++
		case c == '$':
			j := i + 1
			for j < len(s) && s[j] >= '0' && s[j] <= '9' {
				j++
			}
			toks = append(toks, sqlTok{kind: "ph", text: s[i:j]})
			i = j
		case c == '(' || c == ')' || c == ',' || c == ';' || c == '=' || c == '\'':
			toks = append(toks, sqlTok{kind: "punct", text: string(c)})
			i++
		case c == '-' && i+1 < len(s) && s[i+1] == '-':
			toks = append(toks, sqlTok{kind: "punct", text: "--"})
			i += 2
		default:
			j := i
			for j < len(s) && !strings.ContainsRune(" \t\n(),;='?$", rune(s[j])) && s[j] != q {
				j++
			}
			if j == i {
				j = i + 1
			}
			toks = append(toks, sqlTok{kind: "word", text: s[i:j]})
			i = j
		}
		if len(toks) > before {
			toks[len(toks)-1].pos = start
			toks[len(toks)-1].end = i
		}
	}
	return toks, nil
}

type parsedStmt struct {
	Kind   string // drop create insert
	Table  string
	Cols   []string
	Types  []string
	NPh    int
	PhText []string
	NRows  int
}

func isWord(t sqlTok, w string) bool { return t.kind == "word" && strings.EqualFold(t.text, w) }

func parseStmt(s string, q byte) (*parsedStmt, error) {
	toks, err := lexSQL(s, q)
	if err != nil {
		return nil, err
	}
	bad := func(why string) (*parsedStmt, error) { return nil, fmt.Errorf("syntax error: %s in %q", why, s) }
	switch {
	case len(toks) >= 3 && isWord(toks[0], "DROP") && isWord(toks[1], "TABLE"):
		if len(toks) != 3 || toks[2].kind != "qid" {
			return bad("DROP TABLE expects one quoted identifier")
		}
		return &parsedStmt{Kind: "drop", Table: toks[2].text}, nil
	case len(toks) >= 5 && isWord(toks[0], "CREATE") && isWord(toks[1], "TABLE"):
		if toks[2].kind != "qid" || toks[3].text != "(" || toks[len(toks)-1].text != ")" {
			return bad("CREATE TABLE shape")
		}
		p := &parsedStmt{Kind: "create", Table: toks[2].text}
		body := toks[4 : len(toks)-1]
		// column definitions separated by top-level commas: qid then the type words
		i := 0
		for i < len(body) {
			if body[i].kind != "qid" {
				return bad("column definition must start with a quoted identifier")
			}
			name := body[i].text
			i++
			depth := 0
			tstart, tend := -1, -1
			for i < len(body) && !(depth == 0 && body[i].text == "," && body[i].kind == "punct") {
				if body[i].kind == "qid" {
					return bad("unexpected quoted identifier inside a column type")
				}
				if body[i].text == "(" {
					depth++
				}
				if body[i].text == ")" {
					depth--
				}
				if tstart < 0 {
					tstart = body[i].pos
				}
				tend = body[i].end
				i++
			}
			if i < len(body) {
				i++ // comma
				if i == len(body) {
					return bad("trailing comma")
				}
			}
			p.Cols = append(p.Cols, name)
			if tstart < 0 {
				p.Types = append(p.Types, "")
			} else {
				p.Types = append(p.Types, s[tstart:tend])
			}
		}
		return p, nil
	case len(toks) >= 4 && isWord(toks[0], "INSERT") && isWord(toks[1], "INTO"):
		if toks[2].kind != "qid" || toks[3].text != "(" {
			return bad("INSERT shape")
		}
		p := &parsedStmt{Kind: "insert", Table: toks[2].text}
		i := 4
		for {
			if i >= len(toks) || toks[i].kind != "qid" {
				return bad("INSERT column list")
			}
			p.Cols = append(p.Cols, toks[i].text)
			i++
			if i < len(toks) && toks[i].text == "," {
				i++
				continue
			}
			break
		}
		if i >= len(toks) || toks[i].text != ")" {
			return bad("INSERT column list not closed")
		}
		i++
		if i >= len(toks) || !isWord(toks[i], "VALUES") {
			return bad("VALUES expected")
		}
		i++
		for {
			if i >= len(toks) || toks[i].text != "(" {
				return bad("row expected")
			}
			i++
			n := 0
			for {
				if i >= len(toks) || toks[i].kind != "ph" {
					return bad("placeholder expected")
				}
				p.PhText = append(p.PhText, toks[i].text)
				n++
				i++
				if i < len(toks) && toks[i].text == "," {
					i++
					continue
				}
				break
			}
			if n != len(p.Cols) {
				return bad("row width differs from the column list")
			}
			if i >= len(toks) || toks[i].text != ")" {
				return bad("row not closed")
			}
			i++
			p.NRows++
			if i < len(toks) && toks[i].text == "," {
				i++
				continue
			}
			break
		}
		if i != len(toks) {
			return bad("trailing tokens")
		}
		p.NPh = len(p.PhText)
		return p, nil
	}
	return bad("unknown statement")
}

func (m *MemDB) execStmt(text string, args []Cell) error {
	p, err := parseStmt(text, m.Quote)
	if err != nil {
		return err
	}
	tabs := m.tables()
	switch p.Kind {
	case "drop":
		if _, ok := tabs[p.Table]; !ok {
			return fmt.Errorf("no such table %q", p.Table)
		}
		delete(tabs, p.Table)
	case "create":
		if _, ok := tabs[p.Table]; ok {
			return fmt.Errorf("table %q already exists", p.Table)
		}
		seen := map[string]bool{}
		t := &MemTable{Cols: []BStr{}, Types: []BStr{}, Rows: [][]Cell{}}
		for i, c := range p.Cols {
			if seen[c] {
				return fmt.Errorf("duplicate column %q", c)
			}
			seen[c] = true
			t.Cols = append(t.Cols, BStr(c))
			t.Types = append(t.Types, BStr(p.Types[i]))
		}
		tabs[p.Table] = t
	case "insert":
		t, ok := tabs[p.Table]
		if !ok {
			return fmt.Errorf("no such table %q", p.Table)
		}
		if len(args) != p.NPh {
			return fmt.Errorf("%d bound values for %d placeholders", len(args), p.NPh)
		}
		if m.Quote == '"' && len(p.PhText) > 0 && p.PhText[0] != "?" {
			for i, ph := range p.PhText {
				if ph != fmt.Sprintf("$%d", i+1) {
					return fmt.Errorf("placeholder %s at position %d", ph, i+1)
				}
			}
		}
		pos := make([]int, len(p.Cols))
		for i, c := range p.Cols {
			pos[i] = -1
			for j, tc := range t.Cols {
				if string(tc) == c {
					pos[i] = j
				}
			}
			if pos[i] < 0 {
				return fmt.Errorf("no column %q in table %q", c, p.Table)
			}
		}
		for r := 0; r < p.NRows; r++ {
			row := make([]Cell, len(t.Cols))
			for j := range row {
				row[j] = NilCell()
			}
			for i := range p.Cols {
				row[pos[i]] = args[r*len(p.Cols)+i]
			}
			t.Rows = append(t.Rows, row)
		}
	}
	return nil
}

func (c *memConn) ExecContext(ctx context.Context, query string, args []driver.NamedValue) (driver.Result, error) {
	m := c.db
	m.mu.Lock()
	defer m.mu.Unlock()
	cells := argsToCells(args)
	if m.step(DrvCall{Kind: "exec", Text: BStr(query), Args: cells}) {
		return nil, m.errInjected()
	}
	err := m.execStmt(query, cells)
	m.afterStep()
	if err != nil {
		return nil, err
	}
	return driver.RowsAffected(0), nil
}

func (c *memConn) QueryContext(ctx context.Context, query string, args []driver.NamedValue) (driver.Rows, error) {
	m := c.db
	m.mu.Lock()
	defer m.mu.Unlock()
	cells := argsToCells(args)
	if m.step(DrvCall{Kind: "query", Text: BStr(query), Args: cells}) {
		return nil, m.errInjected()
	}
	defer m.afterStep()
	if m.NextFailAt != 0 && m.calls == m.NextFailAt {
		return &memRows{rs: &ResultSet{Names: []BStr{"name"}, Types: []BStr{"TEXT"}, ErrAt: 0}}, nil
	}
	if m.Result != nil {
		return &memRows{rs: m.Result}, nil
	}
	// the table-existence query: one row when the named table exists
	rs := &ResultSet{Names: []BStr{"name"}, Types: []BStr{"TEXT"}, ErrAt: -1}
	if len(cells) == 1 && cells[0].T == "str" {
		if _, ok := m.tables()[string(cells[0].S)]; ok {
			rs.Rows = [][]Cell{{cells[0]}}
		}
	}
	return &memRows{rs: rs}, nil
}

type memRows struct {
	rs  *ResultSet
	pos int
}

func (r *memRows) Columns() []string {
	out := make([]string, len(r.rs.Names))
	for i, n := range r.rs.Names {
		out[i] = string(n)
	}
	return out
}
func (r *memRows) Close() error { return nil }
func (r *memRows) Next(dest []driver.Value) error {
	if r.rs.ErrAt >= 0 && r.pos == r.rs.ErrAt {
		switch r.rs.ErrKind {
		case "eof":
			return fmt.Errorf("connection lost while reading rows: %w", io.EOF)
		case "neteof":
			return &net.OpError{Op: "read", Net: "tcp", Err: io.EOF}
		}
		return errors.New("injected iteration error")
	}
	if r.pos >= len(r.rs.Rows) {
		return io.EOF
	}
	row := r.rs.Rows[r.pos]
	r.pos++
	for i := range dest {
		v := row[i].ToAny()
		switch x := v.(type) {
		case int:
			dest[i] = int64(x)
		default:
			dest[i] = v
		}
	}
	return nil
}
func (r *memRows) ColumnTypeDatabaseTypeName(i int) string { return string(r.rs.Types[i]) }

// ColumnTypeNullable: (nullable, ok); with NotNull the driver claims NOT NULL for every column
func (r *memRows) ColumnTypeNullable(i int) (bool, bool) {
	if r.rs.NotNull {
		return false, true
	}
	return false, false
}

// waitRollback gives database/sql's context watcher time to roll the transaction back.
func (m *MemDB) waitRollback(d time.Duration) {
	select {
	case <-m.rollbackC:
	case <-time.After(d):
	}
}
