#!/bin/bash
# usage: eval_m7.sh <Cxx>   - evaluates /tmp/m7-Cxx-out/{a,b,c} against the quick check of Cxx
p=$1
for x in a b c; do
  d=/tmp/m7-$p-out/$x
  [ -f $d/patch.diff ] && [ -s $d/patch.diff ] || { echo "m7-$p$x: no patch"; continue; }
  /verif/lib/eval_mutant_wt.sh $d m7-$p$x $p 2>&1 | grep -v "^$"
done
