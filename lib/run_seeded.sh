#!/bin/bash
# usage: run_seeded.sh <seeded-dir> <property> [more properties...]
# applies seeded/<dir>/patch.diff to /repo, runs the quick checks, restores /repo.
d=$1; shift
cd /verif
git -C /repo apply "$(realpath $d)/patch.diff" || { echo "patch does not apply"; exit 3; }
for p in "$@"; do
  ./check quick "$p" > "out/seeded_$(basename $d)_$p.log" 2>&1
  echo "$(basename $d) $p exit=$? $(grep -c '^VIOLATION' out/seeded_$(basename $d)_$p.log) violation-lines; $(tail -1 out/seeded_$(basename $d)_$p.log)"
done
git -C /repo checkout -- .
git -C /repo status --short | head -3
