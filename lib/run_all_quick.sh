#!/bin/bash
# usage: run_all_quick.sh [repo-dir]   - runs the 20 quick checks (4 at a time) and prints one line each
cd "$(dirname "$(readlink -f "$0")")/.."
export VERIF_REPO=${1:-/repo}
mkdir -p out/all
printf "%s\n" C01 C02 C03 C04 C05 C06 C07 C08 C09 C10 C11 C12 C13 C14 C15 C16 C17 C18 C19 C20 | \
  xargs -P 4 -I{} sh -c './check quick {} > out/all/{}.log 2>&1; echo "{} exit=$? $(grep -c "^VIOLATION" out/all/{}.log) viol :: $(tail -1 out/all/{}.log)"' | sort
