#!/bin/bash
# usage: eval_m6.sh <Cxx>   - evaluates /tmp/m6-Cxx-out/{a,b,c} against the quick check of Cxx
p=$1
for x in a b c; do
  d=/tmp/m6-$p-out/$x
  [ -f $d/patch.diff ] && [ -s $d/patch.diff ] || { echo "m6-$p$x: no patch"; continue; }
  /verif/lib/eval_mutant_wt.sh $d m6-$p$x $p 2>&1 | grep -v "^$"
done
