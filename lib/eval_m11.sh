#!/bin/bash
# usage: eval_m11.sh <Cxx>   - evaluates /tmp/m11-Cxx-out/{a,b,c} against the quick check of Cxx
p=$1
for x in a b c; do
  d=/tmp/m11-$p-out/$x
  [ -f $d/patch.diff ] && [ -s $d/patch.diff ] || { echo "m11-$p$x: no patch"; continue; }
  /verif/lib/eval_mutant_wt.sh $d m11-$p$x $p 2>&1 | grep -v "^$"
done
