#!/bin/bash
# usage: lib/regress_seeded.sh [repo] [parallel]  - re-runs the quick check of the owning property on every seeded
# change (scratch worktree of <repo> with patch.diff applied, VERIF_REPO), one lane per property, <parallel> lanes
# at a time; prints one line per seeded change: name property violation_lines summary.  ONLY="name name" restricts the run.
cd "$(dirname "$(readlink -f "$0")")/.."
REPO=${1:-/repo}
PAR=${2:-5}
export GOFLAGS=-mod=mod GOPROXY=off
mkdir -p out/regress
lane() {
  p=$1
  for d in seeded/*/; do
    name=$(basename $d)
    case $name in harmless-*) continue;; esac
    if [ -n "${ONLY:-}" ]; then case " $ONLY " in *" $name "*) ;; *) continue;; esac; fi
    [ -f $d/meta.json ] || continue
    br=$(python3 -c "import json,sys; print(json.load(open('$d/meta.json')).get('breaks',''))")
    [ "$br" = "$p" ] || continue
    wt=/tmp/regress-$name
    rm -rf $wt; git -C $REPO worktree prune
    git -C $REPO worktree add -q --detach $wt HEAD || { echo "$name $p worktree-failed"; continue; }
    if ! ( cd $wt && git apply $OLDPWD/$d/patch.diff 2>/dev/null ); then
      echo "$name $p patch-does-not-apply"; git -C $REPO worktree remove --force $wt; continue
    fi
    VERIF_REPO=$wt ./check quick $p > out/regress/${name}_$p.log 2>&1
    nv=$(grep -c '^VIOLATION' out/regress/${name}_$p.log)
    echo "$name $p violation_lines=$nv :: $(tail -1 out/regress/${name}_$p.log)"
    git -C $REPO worktree remove --force $wt
  done
}
export -f lane
export REPO ONLY
printf "%s\n" C01 C02 C03 C04 C05 C06 C07 C08 C09 C10 C11 C12 C13 C14 C15 C16 C17 C18 C19 C20 | xargs -P $PAR -I{} bash -c 'lane {}'
