#!/usr/bin/env python3
"""Regenerates MANIFEST.json from lib/props.py and lib/manifest_meta.py."""
import json, os, sys
sys.path.insert(0, os.path.dirname(os.path.abspath(__file__)))
import props as P
import manifest_meta as M

ALL = ["C%02d" % i for i in range(1, 21)]
checks = []
for pid in ALL:
    if pid not in P.PROPS or pid not in M.META or not os.path.exists(os.path.join(os.path.dirname(os.path.abspath(__file__)), "..", "coq", "theories", "props", "P_%s.v" % pid)):
        continue
    m = M.META[pid]
    checks.append({
        "property_id": pid,
        "quick_cmd": "./check quick %s" % pid,
        "thorough_cmd": "./check thorough %s" % pid,
        "evidence_file": "/verif/evidence/%s.json" % pid,
        "replay_cmd_template": "./check replay %s {path}" % pid,
        "engine": "rocq-model+correspondence",
        "level_claimed": {"category": "proof", "text": m["text"], "design_ref": m["design_ref"]},
        "level_note": m["note"],
        "technique": m["technique"],
    })
na = [{"property_id": pid, "reason": M.NOT_YET.get(pid, "check not built yet in this round; see DESIGN.md section 10")}
      for pid in ALL if pid not in [c["property_id"] for c in checks]]
man = {
    "version": 1,
    "setup_cmd": "./setup.sh",
    "hooks": {
        "guard": "verif",
        "enable": "go build -tags verif (the harness in /verif/harness is always built with this tag against /repo via a replace directive)",
        "baseline_off_cmd": "cd /repo && go test -mod=mod -json -vet=off -count=1 -timeout 25m ./...",
        "source_commits": M.HOOK_COMMITS,
        "add_only": True,
    },
    "engines": [{
        "name": "rocq-model+correspondence", "path": "/verif/coq",
        "serves_properties": [c["property_id"] for c in checks],
        "kind_free_text": "hand-written executable Gallina model of goframe with theorems per property (Coq 8.16.1), tied to /repo by a "
                          "correspondence check: a Go harness runs the real library, coqc re-evaluates model and boolean specs on the same histories",
    }],
    "checks": checks,
    "notes": "See DESIGN.md. KNOWN_FINDINGS.txt lists recorded and repaired defects.",
    "not_applicable": na,
}
json.dump(man, open(os.path.join(os.path.dirname(os.path.abspath(__file__)), "..", "MANIFEST.json"), "w"), indent=1)
print("checks:", [c["property_id"] for c in checks])
