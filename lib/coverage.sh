#!/bin/bash
# usage: lib/coverage.sh [tier]   - statement coverage of /repo/dataframe reached by the correspondence harness
# (all plans, given tier; default quick).  Prints per-function coverage; functions at 0% are outside the tie.
set -e
tier=${1:-quick}
export GOFLAGS=-mod=mod GOPROXY=off; unset GOTOOLCHAIN GOSUMDB
REPO=${VERIF_REPO:-/repo}
W=$(mktemp -d /var/tmp/gfcov.XXXXXX)
trap 'rm -rf "$W"' EXIT
mkdir -p $W/src $W/cov $W/out
cp /verif/harness/*.go $W/src/
sed "s#replace github.com/kishyassin/goframe => .*#replace github.com/kishyassin/goframe => $REPO#" /verif/harness/go.mod > $W/src/go.mod
cp $REPO/go.sum $W/src/go.sum 2>/dev/null || cp /verif/harness/go.sum $W/src/go.sum
(cd $W/src && go build -tags verif -cover -coverpkg=./...,github.com/kishyassin/goframe/dataframe -o $W/h .)
for p in HIST C01 C02 C03 C04 C05 C06 C07 C08 C09 C10 C11 C12 C13 C14 C15 C16 C17seq C17sched C18 C19 C20; do
  mkdir -p $W/out/$p
  GOCOVERDIR=$W/cov $W/h gen -prop $p -tier $tier -seed 1 -out $W/out/$p >/dev/null 2>&1 || echo "plan $p failed"
  rm -rf $W/out/$p
done
(cd $W/src && go tool covdata textfmt -i=$W/cov -o $W/prof.txt && grep "goframe/dataframe/.* 0$" $W/prof.txt | sed 's#github.com/kishyassin/goframe/dataframe/##' | sort -t: -k1,1 -k2,2n > /verif/out/uncovered_blocks.txt)
(cd $W/src && go tool covdata func -i=$W/cov) | grep goframe/dataframe | sed 's#github.com/kishyassin/goframe/dataframe/##'
