#!/bin/bash
# usage: run_seeded_all.sh <repo-dir> [seed]   - applies every seeded mutant to <repo-dir> in turn and runs the owning property's quick check
REPO=${1:-/repo}; export VERIF_SEED=${2:-1}; export VERIF_REPO=$REPO
cd "$(dirname "$0")/.."
for d in seeded/*/; do
  n=$(basename $d)
  [ -f $d/patch.diff ] || continue
  case $n in harmless-*) continue;; esac
  p=$(python3 -c "import json;print(json.load(open('$d/meta.json'))['breaks'])")
  git -C $REPO apply "$(realpath $d)/patch.diff" 2>/dev/null || { echo "$n: PATCH DOES NOT APPLY"; continue; }
  ./check quick $p > out/seedall_$n.log 2>&1
  echo "$n $p seed=$VERIF_SEED viol_lines=$(grep -c '^VIOLATION' out/seedall_$n.log) nofail=$(grep -c 'no-failing-input-found' out/seedall_$n.log) :: $(tail -1 out/seedall_$n.log)"
  git -C $REPO checkout -- .
done
