#!/bin/bash
# usage: lib/harmless_sweep.sh [repo]  - applies every seeded/harmless-*/patch.diff to a scratch worktree of <repo>
# and runs the 20 quick checks on it; prints the lines that are not "exit=0 0 viol" (nothing = no alarm).  ONLY="name name" restricts it.
cd "$(dirname "$(readlink -f "$0")")/.."
REPO=${1:-/repo}
for d in seeded/harmless-*/; do
  name=$(basename $d)
  if [ -n "${ONLY:-}" ]; then case " $ONLY " in *" $name "*) ;; *) continue;; esac; fi
  wt=/tmp/hsweep-$name
  rm -rf $wt; git -C $REPO worktree prune
  git -C $REPO worktree add -q --detach $wt HEAD || { echo "$name worktree-failed"; continue; }
  if ! ( cd $wt && git apply $OLDPWD/$d/patch.diff 2>/dev/null ); then
    echo "$name patch-does-not-apply (the tree moved on since it was written)"; git -C $REPO worktree remove --force $wt; continue
  fi
  echo "== $name"
  lib/run_all_quick.sh $wt 2>&1 | grep -v "exit=0 0 viol"
  git -C $REPO worktree remove --force $wt
done
echo "== done"
