#!/bin/bash
# usage: eval_m8.sh <Cxx>   - evaluates /tmp/m8-Cxx-out/{a,b,c} against the quick check of Cxx
p=$1
for x in a b c; do
  d=/tmp/m8-$p-out/$x
  [ -f $d/patch.diff ] && [ -s $d/patch.diff ] || { echo "m8-$p$x: no patch"; continue; }
  /verif/lib/eval_mutant_wt.sh $d m8-$p$x $p 2>&1 | grep -v "^$"
done
