#!/bin/bash
# usage: eval_mutant_wt.sh <out-dir with patch.diff + demo> <seeded-name> <property> [more properties]
# like eval_mutant.sh, but the checks run against a scratch worktree (VERIF_REPO) instead of /repo, so
# mutants of different properties can be evaluated in parallel.  /repo itself is never modified.
set -u
src=$1; name=$2; shift 2
export GOFLAGS=-mod=mod GOPROXY=off
wt=/tmp/mutcheck-$name
rm -rf $wt; git -C /repo worktree prune
git -C /repo worktree add -q --detach $wt HEAD || exit 3
demo=$(ls $src/demo*_test.go $src/demo_test.go 2>/dev/null | head -1)
( cd $wt && git apply $src/patch.diff ) || { echo "$name: patch does not apply"; git -C /repo worktree remove --force $wt; exit 3; }
suite=$(cd $wt && go build ./... 2>&1 && go test -vet=off -count=1 ./... 2>&1 | tail -3)
suite_ok=$(echo "$suite" | grep -c "^FAIL\|panic:\|cannot\|error")
cp $demo $wt/goframe_tests/zz_demo_test.go
with=$(cd $wt && timeout 600 go test -vet=off -count=1 ./goframe_tests/ 2>&1 | tail -4)
with_fail=$(echo "$with" | grep -c "^FAIL\|^--- FAIL\|panic")
( cd $wt && git apply -R $src/patch.diff )
without=$(cd $wt && timeout 600 go test -vet=off -count=1 ./goframe_tests/ 2>&1 | tail -2)
without_ok=$(echo "$without" | grep -c "^ok")
rm -f $wt/goframe_tests/zz_demo_test.go
( cd $wt && git apply $src/patch.diff )
echo "$name: suite_with_patch_failures=$suite_ok demo_fails_with_patch=$with_fail demo_passes_without=$without_ok"
mkdir -p /verif/seeded/$name
cp $src/patch.diff /verif/seeded/$name/patch.diff
cp $demo /verif/seeded/$name/demo_test.go
[ -f $src/notes.md ] && cp $src/notes.md /verif/seeded/$name/notes.md
cd /verif
summ=""
for p in "$@"; do
  VERIF_REPO=$wt ./check quick $p > out/seeded_${name}_$p.log 2>&1
  line=$(tail -1 out/seeded_${name}_$p.log)
  nv=$(grep -c '^VIOLATION' out/seeded_${name}_$p.log)
  nf=$(grep -c 'no-failing-input-found' out/seeded_${name}_$p.log)
  echo "   check $p: violation_lines=$nv no_failing_input=$nf :: $line"
  summ="$summ$p:$nv:$nf:$line|"
done
git -C /repo worktree remove --force $wt
python3 - "$name" "$suite_ok" "$with_fail" "$without_ok" "$summ" "$*" <<'PY'
import json,sys
name,suite_ok,with_fail,without_ok,summ,props=sys.argv[1:7]
res={}
for part in summ.split('|'):
    if not part: continue
    p,nv,nf,line=part.split(':',3)
    res[p]={"violation_lines":int(nv),"no_failing_input_found_lines":int(nf),"summary":line}
meta={"id":name,"kind":"written by an independent sub-agent from the property text only (no access to /verif)",
      "breaks":props.split()[0],
      "confirmed_by_me":{"existing_suite_passes_with_patch":suite_ok=="0","demo_fails_with_patch":with_fail!="0","demo_passes_without_patch":without_ok!="0",
                         "how":"scratch worktree of /repo HEAD: git apply patch.diff; go test ./...; demo copied into goframe_tests/; git apply -R; demo again"},
      "ran":"scratch worktree of /repo HEAD with patch.diff applied; VERIF_REPO=<worktree> ./check quick <property>",
      "results":res,
      "needs_to_manifest":"see notes.md"}
json.dump(meta,open('/verif/seeded/%s/meta.json'%name,'w'),indent=1)
PY
