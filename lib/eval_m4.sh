#!/bin/bash
# usage: eval_m4.sh <Cxx>   - evaluates /tmp/m4-Cxx-out/{a,b,c}
p=$1
for x in a b c; do
  d=/tmp/m4-$p-out/$x
  [ -f $d/patch.diff ] && [ -s $d/patch.diff ] || { echo "m4-$p$x: no patch"; continue; }
  /verif/lib/eval_mutant.sh $d m4-$p$x $p 2>&1 | grep -v "^$"
done
