#!/bin/bash
# usage: eval_m10.sh <Cxx>   - evaluates /tmp/m10-Cxx-out/{a,b,c} against the quick check of Cxx
p=$1
for x in a b c; do
  d=/tmp/m10-$p-out/$x
  [ -f $d/patch.diff ] && [ -s $d/patch.diff ] || { echo "m10-$p$x: no patch"; continue; }
  /verif/lib/eval_mutant_wt.sh $d m10-$p$x $p 2>&1 | grep -v "^$"
done
