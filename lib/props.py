"""Property registry for ./check: generation plans, which finding codes belong to which
property, known-finding matching, trusted base."""

CODES = {
    1: "the implementation's result differs from the model's result on this input",
    2: "the implementation's post-state (content of the live frames) differs from the model's",
    10: "C01: a live frame is not rectangular / a column is stored under another name",
    11: "C01: Nrows() disagrees with the common column length",
    12: "C01: cells that shared a row no longer share one",
    20: "C02: a frame other than the one being edited changed",
    30: "C20: the call panicked",
    31: "C20: a call that returned an error changed a frame",
    32: "C20: an invalid request was not signalled through the error result",
    40: "C06: result is not an ordered permutation of the input rows",
    41: "C19: result is not the source moved by the offset and padded with nil",
    42: "C04: groups are not the partition of the rows by key",
    43: "C04: known class - distinct key tuples with equal '|'-joined text (composite key collision)",
    44: "C03: join result differs from the relational specification",
    45: "C07: kept rows are not exactly the first/last/unique members of the duplicate classes",
    46: "C09: re-imported frame differs from the exported one",
    47: "C08: selection does not return exactly the requested cells",
    48: "C05: grouped aggregate differs from the per-group arithmetic",
    49: "C16: aggregate differs from the arithmetic reference",
    50: "C18: resampled frame is not one correctly aggregated row per bucket in time order",
    51: "C15: cleaning/conversion result differs from the rule or was not all-or-nothing",
    52: "C10: CSV import result differs from the typing rule / malformed input accepted",
    53: "C17: Apply result differs from the sequential loop",
}

TRUSTED_BASE = [
    "Coq 8.16.1 kernel incl. vm_compute (used for the correspondence evaluation and witness lemmas); no native_compute",
    "axioms: none (Print Assumptions of every property theorem must say 'Closed under the global context')",
    "no extraction (no Extract Constant / Extract Inductive)",
    "hand-written Gallina model of dataframe/*.go (coq/theories/Ops.v, Csv.v, Step.v), tied to /repo by this correspondence run only",
    "modelled not verified: Go map iteration (sorted order), fmt %v of floats/times, strconv.ParseFloat, time.Parse (finite oracle tables filled from the stdlib per case), binary64 arithmetic (exact rational model with round-to-nearest-even)",
    "the Go harness (harness/*.go), this driver and lib/props.py",
]

HIST_RULE = ("Random interleavings of all frame operations (derive/edit/observe) over a pool of 1-3 live frames, "
             "arguments mostly valid with ~10% deliberately invalid; every step is compared with the model starting "
             "from the implementation's own pre-state.")

PROPS = {
    "HIST": {"plans": ["HIST"], "codes": [1, 2, 10, 11, 12, 20, 30, 31, 40, 41], "rule": HIST_RULE},
    "C19": {"plans": ["C19"], "codes": [1, 2, 41, 20], "exhaustive_all": False,
            "rule": "C19 plan: every frame of 0..R rows x 23 boundary offsets (exhaustive stream), then random frames and offsets; each history is Shift(p) then Shift(-p)."},
}


def match_known(pid, codes, hist, step, known):
    """return the known-finding entry this failure is an instance of, or None"""
    for kf in known:
        if kf.get("property") != pid:
            continue
        cls = kf.get("class")
        if cls == "composite-key-collision" and 43 in codes and not any(c in codes for c in (1, 2)):
            op = hist["steps"][step]["op"]
            if op.get("glist"):
                return kf
    return None
