"""Property registry for ./check: generation plans, which finding codes belong to which
property, known-finding matching, trusted base."""
import json

CODES = {
    1: "the implementation's result differs from the model's result on this input",
    2: "the implementation's post-state (content of the live frames) differs from the model's",
    10: "C01: a live frame is not rectangular / a column is stored under another name",
    11: "C01: Nrows() disagrees with the common column length",
    12: "C01: cells that shared a row no longer share one",
    13: "C01: a frame the operation was not applied to changed and no longer consists of whole rows of its former self",
    20: "C02: a frame other than the one being edited changed",
    21: "C02: two column slots of live frames share a backing array (the separation invariant, observed on the heap)",
    30: "C20: the call panicked",
    31: "C20: a call that returned an error changed a frame",
    32: "C20: an invalid request was not signalled through the error result",
    40: "C06: result is not an ordered permutation of the input rows",
    41: "C19: result is not the source moved by the offset and padded with nil",
    42: "C04: groups are not the partition of the rows by key",
    43: "C04: known class - distinct key tuples with equal '|'-joined text (composite key collision)",
    44: "C03: join result differs from the relational specification",
    45: "C07: kept rows are not exactly the first/last/unique members of the duplicate classes",
    46: "C09: re-imported frame differs from the exported one",
    47: "C08: selection does not return exactly the requested cells",
    48: "C05: grouped aggregate differs from the per-group arithmetic",
    49: "C16: aggregate differs from the arithmetic reference",
    50: "C18: resampled frame is not one correctly aggregated row per bucket in time order",
    51: "C15: cleaning/conversion result differs from the rule or was not all-or-nothing",
    52: "C10: CSV import result differs from the typing rule / malformed input accepted",
    53: "C17: Apply result differs from the sequential loop",
    3: "the implementation's success/error status differs from the model's",
    61: "C11: after a successful export the table does not hold exactly the frame's rows under their columns (or another table changed)",
    62: "C12: not all-or-nothing (store changed after a failure, commit after a failure, missing/duplicate commit, Tx variant finished the transaction)",
    64: "C13: the quoted text is not read back by the dialect's lexer as one identifier with exactly that name",
    65: "C14: a frame was returned although something failed, or its shape does not match the result set",
}

TRUSTED_BASE = [
    "Coq 8.16.1 kernel incl. vm_compute (used for the correspondence evaluation and witness lemmas); no native_compute",
    "axioms: none (Print Assumptions of every property theorem must say 'Closed under the global context')",
    "no extraction (no Extract Constant / Extract Inductive)",
    "hand-written Gallina model of dataframe/*.go (coq/theories/Ops.v, Csv.v, Step.v), tied to /repo by this correspondence run only",
    "modelled not verified: Go map iteration (sorted order), fmt %v of floats/times, strconv.ParseFloat, time.Parse (finite oracle tables filled from the stdlib per case), binary64 arithmetic (exact rational model with round-to-nearest-even)",
    "the Go harness (harness/*.go), this driver and lib/props.py",
]

HIST_RULE = ("Random interleavings of all frame operations (derive/edit/observe) over a pool of 1-3 live frames, "
             "arguments mostly valid with ~10% deliberately invalid; every step is compared with the model starting "
             "from the implementation's own pre-state.")

PROPS = {
    "HIST": {"plans": ["HIST"], "codes": [1, 2, 10, 11, 12, 20, 30, 31, 40, 41], "rule": HIST_RULE},
    "C01": {"plans": ["C01", "C14"], "codes": [10, 11, 12, 13, 65],
            "rule": "C01 plan: random histories of 1-12 operations over 1-3 live frames, weighted towards AppendRow with unseen column names, "
                    "repeated Loc/Iloc labels and repeated CSV header names; after every successful step every live frame must be rectangular, "
                    "stored under its own names, Nrows() must agree, and surviving rows must be whole rows of the source."},
    "C02": {"plans": ["C02"], "codes": [20, 21],
            "rule": "C02 plan: every (deriving operation, in-place edit, side) pair on a 3-row frame followed by further edits on alternating sides, "
                    "then random interleavings over up to 5 live frames; every frame other than the edited one must keep its content."},
    "C03": {"focus": ["join"], "plans": ["C03"], "codes": [1, 2, 44],
            "rule": "C03 plan: all pairs of key columns up to a length over {nil,1,2,int64 1,1.0,'1','a',true} (exhaustive stream), then random frame pairs "
                    "with duplicate, missing, one-sided, nil and mixed-type keys; each history runs the four joins on one pair."},
    "C04": {"focus": ["groupby", "groupagg"], "plans": ["C04"], "codes": [1, 2, 42], "known_codes": [43],
            "rule": "C04 plan: Groupby on one column or a list, key cells of mixed scalar types incl. strings containing '|'; 20% of frames use a colliding alphabet."},
    "C05": {"focus": ["groupagg", "agg"], "plans": ["C05"], "codes": [1, 2, 48],
            "rule": "C05 plan: grouped Sum/Mean/Count with and without column arguments on value columns of every integer and float width plus nil, and the frame-level Sum."},
    "C06": {"focus": ["sort"], "plans": ["C06"], "codes": [1, 2, 40],
            "rule": "C06 plan: frames of 0..40 rows, 1-3 sort columns each of one kind plus nils and heavy duplicates, both directions; compared through the ordered-permutation specification and on the sort columns."},
    "C07": {"focus": ["dedup", "dedupinplace"], "plans": ["C07"], "codes": [1, 2, 45],
            "rule": "C07 plan: frames over {nil,'nil','','|',':','a|b:c',1,'1',...}, every Keep value (valid or not), subsets, with and without Inplace."},
    "C08": {"focus": ["row", "head", "tail", "rowslice", "iloc", "loc", "filter", "multiselect", "droprow", "dropcolumn", "columnnames", "nrows", "ncols", "select", "colat", "series", "string"], "plans": ["C08"], "codes": [1, 2, 47],
            "rule": "C08 plan: every count, every (start,end) pair and every predicate row set on frames of 0..R rows (exhaustive stream), then random selection calls incl. Loc/Iloc with repeats."},
    "C09": {"focus": ["tocsv", "csvroundtrip"], "plans": ["C09"], "codes": [1, 2, 46],
            "rule": "C09 plan: frames with 1-4 columns whose names and text cells contain commas, quotes, LF, CR, tabs, non-ASCII and empty strings; ints up to 2^53, any float64; the bytes written are compared with the model writer byte for byte and the re-imported frame with the model reader."},
    "C10": {"focus": ["fromcsv"], "plans": ["C10"], "codes": [1, 2, 30, 52],
            "rule": "C10 plan: every byte string up to a length over {a , \" LF CR 1} (exhaustive stream), then grammar-generated tables with numeric look-alikes, ragged and blank records, CR/LF variants and byte-level mutations."},
    "C11": {"plans": ["C11"], "codes": [1, 2, 3, 61], "pershard": 10,
            "rule": "C11 plan: every batch size 0(default),1..rows+2 x {sqlite,postgres,mysql} x {fail,replace,append} x table present/absent for frames of 0..R rows "
                    "(exhaustive stream), then random frames with dialect aliases in mixed case, TypeMap overrides, existing tables with other column sets, the four "
                    "entry points and invalid options; the statement texts and bound values reaching the driver are compared with the model exactly and the table "
                    "store of the harness's own in-memory engine with the model's store and with the effect specification."},
    "C12": {"plans": ["C12"], "codes": [1, 2, 3, 62], "pershard": 10,
            "rule": "C12 plan: for every scenario (rows 0..R x batch {1,2,default} x IfExists x present/absent) a failure injected at each driver call it makes "
                    "(Begin, existence query, DROP, CREATE, each INSERT batch, Commit), a context cancellation after each call, and the Tx variants with and without a failure."},
    "C13": {"plans": ["C13"], "codes": [1, 2, 3, 61, 64], "pershard": 30,
            "rule": "C13 plan: every name up to length L over {\" ` ' \\ ; - space a} in three dialects (exhaustive stream), random long and non-ASCII names, and whole exports "
                    "whose table and column names are hostile, executed by the harness's own dialect-aware lexer and table store."},
    "C14": {"plans": ["C14"], "codes": [1, 65], "pershard": 10,
            "rule": "C14 plan: every NULL pattern on result sets up to RxR x seven handlers (exhaustive stream), then random result sets over 27 declared type names, ParseDates "
                    "subsets with text/int/float date columns, the four entry points, scan errors, iteration errors at each row, nil handles, empty and failing queries."},
    "C15": {"focus": ["fillna", "dropna", "astype", "datetime"], "plans": ["C15"], "codes": [1, 2, 51, 31],
            "rule": "C15 plan: FillNa/DropNa/Astype/AddDatetimeIndex on columns of every kind with nils, unconvertible cells at any position, valid and invalid target names and layouts."},
    "C16": {"focus": ["agg", "describe", "add"], "plans": ["C16"], "codes": [1, 2, 49],
            "rule": "C16 plan: Sum/Mean/Min/Max/Describe on columns mixing int, int64, float32, float64 and numeric strings, NaN anywhere, one non-numeric cell at any position, empty columns; Add on frame pairs with independent lengths."},
    "C17": {"focus": ["apply"], "plans": ["C17seq", "C17sched"], "race": ["C17sched"], "codes": [1, 2, 53, 30],
            "rule": "C17 plans: (seq) Apply on both axes with every function of the menu, frames up to 40 rows (more rows than workers); "
                    "(sched) row-wise Apply with its completion order FORCED through the verif-tagged gate hook: every permutation for 1..5 rows, then "
                    "sampled worker-valid orders for 6..40 rows (more rows than workers), the whole plan under the Go race detector."},
    "C18": {"focus": ["resample"], "plans": ["C18"], "codes": [1, 2, 50],
            "rule": "C18 plan: frames with an unsorted, repeating time column 1900-2100 in UTC or one fixed-offset zone, six frequency codes, four aggregators, each call repeated 5 times."},
    "C19": {"focus": ["shift"], "plans": ["C19"], "codes": [1, 2, 41, 20, 21], "exhaustive_all": False,
            "rule": "C19 plan: every frame of 0..R rows x 23 boundary offsets (exhaustive stream), then random frames and offsets; each history is Shift(p) then Shift(-p)."},
    "C20": {"plans": ["C20"], "codes": [30, 31, 32],
            "rule": "C20 plan: histories in which half of the arguments are deliberately invalid (unknown names, out-of-range and extreme indices, unknown option strings, operands with other columns, cells of the wrong kind)."},
}


def match_known(pid, codes, hist, step, known):
    """return the known-finding entry this failure is an instance of, or None"""
    for kf in known:
        if kf.get("property") != pid:
            continue
        cls = kf.get("class")
        if cls == "composite-key-collision" and 43 in codes and not any(c in codes for c in (1, 2)):
            op = hist["steps"][step]["op"]
            if op.get("glist"):
                return kf
        if cls == "integers-equal-as-float64" and set(codes) <= {1, 40} and _sort_int_tie_instance(hist, step):
            return kf
    return None


INT_KINDS = {"int", "int8", "int16", "int32", "int64", "uint", "uint8", "uint16", "uint32", "uint64"}


def _sort_int_tie_instance(hist, step):
    """the failing step is a SortValues whose sort columns hold only integers and nils, at least one of them with two
    different integers that convert to the same float64, and the real output is exactly what the pinned comparator
    promises: the source's rows, each kept whole, in order of the float64 images of the keys (nils last)"""
    st = hist["steps"][step]
    op, out = st["op"], st["out"]
    if op.get("k") != "sort" or out.get("status") != "ok":
        return False
    if any(s["op"].get("k") not in ("sort", "nrows", "columnnames", "row", "string", "tocsv") for s in hist["steps"][:step]):
        return False
    if not (0 <= op.get("f", 0) < len(hist["pool"])):
        return False
    src = {c["key"]: c["data"] for c in hist["pool"][op.get("f", 0)]["cols"]}
    res = {c["key"]: c["data"] for c in ((out.get("val") or {}).get("frame") or {}).get("cols", [])}
    by = op.get("strs") or []
    asc = op.get("asc", True)
    if asc is None:
        asc = True
    if not by or set(src) != set(res) or any(k not in src for k in by):
        return False
    n = len(next(iter(src.values()))) if src else 0
    if any(len(d) != n for d in src.values()) or any(len(d) != n for d in res.values()):
        return False

    def ival(c):
        return None if c.get("t") == "nil" else int(c["i"])
    collision = False
    for k in by:
        if any(c.get("t") != "nil" and c.get("t") not in INT_KINDS for c in src[k]):
            return False
        vals = {ival(c) for c in src[k] if c.get("t") != "nil"}
        if len({float(v) for v in vals}) < len(vals):
            collision = True
    if not collision:
        return False
    names = sorted(src)
    rows = lambda fr: sorted(json.dumps([fr[k][i] for k in names], sort_keys=True) for i in range(n))
    if rows(src) != rows(res):
        return False

    def key(i):
        out_ = []
        for k in by:
            v = ival(res[k][i])
            out_.append((1, 0.0) if v is None else (0, float(v) if asc else -float(v)))
        return out_
    return all(key(i) <= key(i + 1) for i in range(n - 1))
