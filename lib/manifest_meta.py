"""Texts for MANIFEST.json."""
HOOK_COMMITS = ["3ece184"]
NOT_YET = {}
COMMON_NOTE = ("Trusted: Coq 8.16.1 kernel + vm_compute, no axioms, no extraction; the Gallina model is hand-written and tied to the code "
               "only by the correspondence run (differential, bounded by its generators); stdlib calls (fmt %v, ParseFloat, time.Parse/Unix) are "
               "finite oracle tables filled from the stdlib per case; Go map iteration is modelled as sorted order; binary64 arithmetic is modelled "
               "exactly (round-to-nearest-even on rationals). ")
TECH = "Rocq proof over executable model + coqc-evaluated correspondence with the Go code"
def m(text, ref, note=""):
    return {"text": text, "design_ref": ref, "note": COMMON_NOTE + note, "technique": TECH}
META = {
    "C01": m("Invariant by induction over operation histories: every public frame operation of the model maps well-formed (rectangular, own-name, "
             "Nrows-consistent) frames to well-formed frames, hence every reachable state of every finite history is well formed; row alignment "
             "lemmas (whole rows stay together). The model is run against the real library on random histories and the invariant is also evaluated "
             "on the implementation's own frames after every step.", "6.1",
             "Apply callbacks come from a fixed length-preserving menu; AddColumn data of matching length is a premise, as in the property's quantifier."),
    "C02": m("Proof on a slice-level (L2) heap model: a separation invariant (no two column slots share a backing array) is preserved by every copy-derivation "
             "and in-place edit for every growth policy, under it a step changes only the edited frame, and L2 refines the value-level model; the historical "
             "aliasing Head is refuted in the model. The real library is run on every (derive, edit, side) pair and random interleavings and checked "
             "for cross-frame interference after every step.", "6.2",
             "The L2 transcription (which operations copy, which splice in place) is by hand; capacities are not observable through the public API, so the "
             "correspondence compares contents only. Garbage collector and unsafe are outside the model."),
    "C03": m("Theorems: the four joins of the model are the relational comprehensions of the statement (order, unmatched rows, union of columns, "
             "left-wins merge, counting), missing key iff error, never panic, rectangular result. Exhaustive small-scope key columns plus random pairs are "
             "run on the real library and compared cell by cell.", "6.3", "NaN, non-comparable and time keys are outside the quantifier."),
    "C04": m("Theorems: single-key Groupby is the stable partition by Go == with KeyOrder = first appearance, missing column iff error. The key-list form "
             "is proved partial (under injectivity of the joined text) and refuted in general; the refutation is the recorded finding D5.", "6.4",
             "The key-list defect (composite '|'-joined text key) is a KNOWN-FINDING: the model is faithful to it and the partition specification evaluated "
             "on the implementation's groups reports exactly that class."),
    "C05": m("Theorems: Count = group size, Sum/Mean over exactly the cells of any integer/float width, mean divides by the number of numeric cells, "
             "conservation of totals in exact arithmetic, result shape. The real grouped aggregates are compared bit for bit with the model's "
             "binary64 arithmetic.", "6.5", "Conservation is proved on exact sums; the bit-exact float model is validated, not proved, against Go."),
    "C06": m("Theorems: any sequence of Swap calls keeps whole rows together (covers whatever sort.Sort does), the model's result is a permutation of the "
             "input rows, the comparator is a strict weak order on one-kind columns, insertion sort under such a comparator is sorted, nil last in both "
             "directions. The real SortValues output is checked through the ordered-permutation specification (tie order free) and on its sort columns. Known finding D15 (KNOWN_FINDINGS.txt): integers beyond 2^53 with one float64 image are a tie (refuted on the model by sort_wide_integers_refuted; proved to hold below 2^53 by int_col_canonical).", "6.6",
             "sort.Sort itself is standard-library code: modelled by a verified insertion sort; its contract (sorts under a strict weak order, touches data "
             "only through Less/Swap) is assumed."),
    "C07": m("Theorems: first/last/none keep exactly the first/last/unique member of every class of identical rows, in order, no false merge whatever the "
             "characters, one per class, bad Keep/subset are errors, Inplace keeps the same rows.", "6.7", ""),
    "C08": m("Theorems (L1 = L0): Head/Tail/RowSlice/Filter/Iloc/Row/DropRow/DropColumn return exactly the denoted rows and columns with whole rows intact; "
             "the predicate sees each row once; error iff out of range. Exhaustive boundary arguments on small frames plus random calls on the real library.", "6.8", ""),
    "C09": m("Theorem: for records of any bytes except CR-LF pairs, parsing what the writer wrote returns the records (full model of encoding/csv reader and "
             "writer); exporter-to-importer link. The bytes written by ToCSVWriter are compared byte for byte with the model writer and the re-imported "
             "frame with the model reader.", "6.9",
             "The cell-level float round trip relies on strconv (ParseFloat(FormatFloat(x)) = x), an oracle premise validated per case."),
    "C10": m("Theorems: the importer never panics for any byte string; it is an error exactly for unparsable records, width mismatch, empty input or repeated "
             "header names; otherwise a rectangular frame typed by the one rule. Every byte string up to a length over six bytes plus grammar/mutation streams "
             "are run on the real importer.", "6.10", "ParseFloat's own grammar is an oracle; panics inside encoding/csv are outside the model."),
    "C11": m("Theorems on the statement model: batches concatenate to the rows with 1..BatchSize rows each, placeholders = bound values, PostgreSQL numbering 1..k, "
             "nil bound as NULL, effect on an ideal table store, created column types. The statement texts and bound values reaching a driver written for "
             "the harness are compared exactly with the model, the driver's own SQL parser/table store with the model's store and the effect specification.", "6.11",
             "SQL engines are modelled as one ideal table store; uint64 values above MaxInt64 are not modelled."),
    "C12": m("Theorems: for every scenario and every fault or cancellation index the model run returns an error with the committed store unchanged and no "
             "commit; success commits exactly once, last; Tx variants never finish the transaction. A failure is injected at each individual driver call "
             "and a cancellation after each call of the real ToSQL.", "6.12",
             "Partial w.r.t. the runtime: database/sql's own rollback goroutine and engines whose DDL is not transactional are outside the model."),
    "C13": m("Theorem: for every byte string, the dialect's lexer reads the quoted identifier back as exactly that name and stops there; quoting is injective; "
             "the identifiers of whole statements are the intended ones. Exhaustive names over the hostile alphabet in three dialects; whole exports with "
             "hostile names executed by an independent lexer.", "6.13", "TypeMap texts are raw SQL by contract and excluded."),
    "C14": m("Theorems on the import model: never a partial frame, NULL policy table, skip_row drops exactly the rows containing NULL, declared-type mapping, "
             "ParseDates layouts in order. Result sets served by the harness's driver under every NULL pattern/handler, entry point and injected error.", "6.14",
             "database/sql's convertAssign is exercised only on type-matching values plus non-numeric text in a non-text column; time.Parse/Unix are oracles."),
    "C15": m("Theorems: FillNa/DropNa exact, Astype/AddDatetimeIndex conversion table, all-or-nothing (an error leaves every frame unchanged).", "6.15", ""),
    "C16": m("Theorems: Min/Max ignore NaN anywhere, error iff non-numeric cell or empty, Describe agrees with Series aggregates, binary64 sum exact where "
             "binary64 is exact, Add cell table and fill. The real aggregates are compared bit for bit with the model's binary64 arithmetic.", "6.16",
             "Rounding error bounds w.r.t. real arithmetic are not proved; the model reproduces Go's left-to-right float64 evaluation."),
    "C17": m("Theorems: the collector's result is the same for every completion order of the per-row results (all permutations), equals the sequential loop; "
             "function applied once per row / once per column. The real Apply is compared with the sequential model on both axes.", "6.17",
             "Partial: data-race freedom is a property of the Go memory model that the Gallina model cannot exhibit; the harness runs Apply under forced "
             "completion orders and the race detector as supporting evidence only."),
    "C18": m("Theorems: one bucket per distinct truncated time, strictly ascending, independent of row/iteration order; cells aggregate exactly the bucket's "
             "cells in row order; truncation idempotent and not after the timestamp. Each real call is repeated 5 times.", "6.18",
             "Partial: the calendar (time.Date, zones, DST) is not modelled; frames use UTC or one fixed offset."),
    "C19": m("Theorems over the model for all columns and all int64 offsets (wrap-around of i-p included): cell-level specification, shape, "
             "Shift(0)=copy, round trip. Exhaustive small scope + random on the real library.", "6.19", ""),
    "C20": m("Theorems: no operation of the model panics on well-formed frames whatever the arguments (Panic is an explicit outcome of the model wherever the "
             "code indexes, reslices or asserts), an error leaves all frames unchanged, table of invalid requests that are errors. Histories with 50% "
             "deliberately invalid arguments are run on the real library under recover.", "6.20",
             "Partial: the list of panic sources is the hand transcription; recover in the harness observes the real thing."),
}
