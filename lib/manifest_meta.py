"""Texts for MANIFEST.json."""
HOOK_COMMITS = []
NOT_YET = {}
COMMON_NOTE = ("Trusted: Coq 8.16.1 kernel + vm_compute, no axioms, no extraction; the Gallina model is hand-written and tied to the code "
               "only by the correspondence run (differential, bounded by its generators); stdlib calls (fmt %v, ParseFloat, time.Parse) are "
               "finite oracle tables filled from the stdlib per case; Go map iteration is modelled as sorted order. ")
META = {
    "C19": {
        "text": "Theorems over the model for all columns and all int64 offsets (wrap-around of i-p included): cell-level specification, shape, "
                "Shift(0)=copy, round trip. The model is tied to the code by running Shift on the real library (exhaustive small scope + random) "
                "and re-evaluating model and specification in coqc on the same inputs.",
        "design_ref": "6.19", "note": COMMON_NOTE, "technique": "Rocq proof over executable model + coqc-evaluated correspondence with the Go code",
    },
}
