(* Proof_C11.v - ToSQL writes every cell exactly once: the batches partition the rows in
   order, the placeholders of an INSERT are numbered 1..rows*cols, nil is bound as NULL,
   IfExists "fail" issues no write, and after a successful export the target table holds
   exactly the frame's rows (after the old rows for "append") while every other table is
   untouched. *)
From GF Require Import SqlCorr Lemmas.
From Coq Require Import Lia.
Require Coq.Strings.String.
Import Coq.Strings.String.StringSyntax.
Arguments N.eqb : simpl never.

(* ------------------------------------------------------------------------- *)
(* 1. batches                                                                 *)
(* ------------------------------------------------------------------------- *)

Lemma chunks_fuel_concat {A} bs : (1 <= bs)%nat -> forall fuel (l : list A),
  (List.length l <= fuel)%nat -> List.concat (chunks_fuel fuel bs l) = l.
Proof.
  intros Hbs. induction fuel as [|f IH]; intros l Hl.
  - destruct l; [reflexivity | cbn in Hl; lia].
  - destruct l as [|x l']; [reflexivity|].
    cbn [chunks_fuel List.concat]. rewrite IH.
    + apply firstn_skipn.
    + rewrite skipn_length. cbn [List.length] in *. lia.
Qed.

Theorem chunks_concat : forall {A} bs (l : list A), (1 <= bs)%nat -> List.concat (chunks bs l) = l.
Proof. intros A bs l H. unfold chunks. now apply chunks_fuel_concat. Qed.

Lemma chunks_fuel_bounds {A} bs : (1 <= bs)%nat -> forall fuel (l : list A),
  Forall (fun c => (1 <= List.length c <= bs)%nat) (chunks_fuel fuel bs l).
Proof.
  intros Hbs. induction fuel as [|f IH]; intros l; [constructor|].
  destruct l as [|x l']; [constructor|]. cbn [chunks_fuel]. constructor; [|apply IH].
  rewrite firstn_length. cbn [List.length]. lia.
Qed.

Theorem chunks_bounds : forall {A} bs (l : list A), (1 <= bs)%nat ->
  Forall (fun c => (1 <= List.length c <= bs)%nat) (chunks bs l).
Proof. intros A bs l H. unfold chunks. now apply chunks_fuel_bounds. Qed.

Theorem chunks_nil : forall {A} bs, chunks bs ([] : list A) = [].
Proof. reflexivity. Qed.

Example chunks_ex : chunks 2 [1; 2; 3; 4; 5]%nat = [[1; 2]; [3; 4]; [5]]%nat.
Proof. reflexivity. Qed.

(* ------------------------------------------------------------------------- *)
(* 2. one INSERT: bound values and placeholder numbering                      *)
(* ------------------------------------------------------------------------- *)

Lemma seqZ_length a n : List.length (seqZ a n) = n.
Proof. revert a. induction n as [|n IH]; intros a; cbn [seqZ List.length]; auto. Qed.

Lemma seqZ_app : forall n m a, seqZ a (n + m) = seqZ a n ++ seqZ (a + Z.of_nat n) m.
Proof.
  induction n as [|n IH]; intros m a.
  - cbn [seqZ plus app]. f_equal. lia.
  - cbn [seqZ plus app]. f_equal. rewrite IH. f_equal. f_equal. lia.
Qed.

(* PostgreSQL: over the whole statement the indices are exactly 1..rows*cols, in order *)
Theorem ph_indices : forall nc nr,
  List.concat (map (fun r => seqZ (Z.of_nat (r * nc) + 1) nc) (seq 0 nr)) = seqZ 1 (nr * nc).
Proof.
  intros nc. induction nr as [|nr IH]; [reflexivity|].
  rewrite seq_S, map_app, concat_app, IH. cbn [map List.concat plus].
  rewrite app_nil_r. replace (S nr * nc)%nat with (nr * nc + nc)%nat by lia.
  rewrite seqZ_app. f_equal. f_equal. lia.
Qed.

Lemma concat_length_const {A} n (l : list (list A)) :
  Forall (fun r => List.length r = n) l -> List.length (List.concat l) = (List.length l * n)%nat.
Proof.
  induction 1 as [|r l Hr _ IH]; [reflexivity|].
  cbn [List.concat List.length]. rewrite app_length, IH, Hr. lia.
Qed.

(* the statement text, and the number of bound values *)
Theorem insert_text d t cols rws :
  fst (render_stmt d (SInsert t cols rws)) =
  lit "INSERT INTO " ++ quote_id (quote_char d) t ++ lit " (" ++
  join_sep comma_sp (map (quote_id (quote_char d)) cols) ++ lit ") VALUES " ++
  join_sep comma_sp
    (map (fun r => lit "(" ++ join_sep comma_sp
                      (map (placeholder d) (seqZ (Z.of_nat (r * List.length cols) + 1) (List.length cols))) ++ lit ")")
         (seq 0 (List.length rws))).
Proof. reflexivity. Qed.

Theorem insert_wellformed d t cols rws :
  Forall (fun r => List.length r = List.length cols) rws ->
  snd (render_stmt d (SInsert t cols rws)) = map bound_value (List.concat rws)
  /\ List.length (snd (render_stmt d (SInsert t cols rws))) = (List.length rws * List.length cols)%nat
  /\ List.length (List.concat (map (fun r => seqZ (Z.of_nat (r * List.length cols) + 1) (List.length cols))
                                   (seq 0 (List.length rws))))
     = List.length (snd (render_stmt d (SInsert t cols rws))).
Proof.
  intros H. cbn [render_stmt snd]. split; [reflexivity|].
  rewrite map_length, (concat_length_const _ _ H). split; [reflexivity|].
  now rewrite ph_indices, seqZ_length.
Qed.

Example insert_ex :
  render_stmt DPostgres (SInsert (lit "t") [lit "a"; lit "b"] [[CI KInt 1; CNil]; [CI KInt8 2; CS (lit "x")]])
  = (lit "INSERT INTO ""t"" (""a"", ""b"") VALUES ($1, $2), ($3, $4)",
     [CI KInt64 1; CNil; CI KInt64 2; CS (lit "x")]).
Proof. vm_compute. reflexivity. Qed.

(* ------------------------------------------------------------------------- *)
(* 3. what the driver receives                                                *)
(* ------------------------------------------------------------------------- *)

Theorem bound_value_nil : bound_value CNil = CNil.
Proof. reflexivity. Qed.
Theorem bound_value_int k z : bound_value (CI k z) = CI KInt64 z.
Proof. reflexivity. Qed.
Theorem bound_value_float k x : bound_value (CF k x) = CF KF64 x.
Proof. reflexivity. Qed.
Theorem bound_value_text s : bound_value (CS s) = CS s.
Proof. reflexivity. Qed.
Theorem bound_value_bool b : bound_value (CB b) = CB b.
Proof. reflexivity. Qed.
Theorem bound_value_time t : bound_value (CT t) = CT t.
Proof. reflexivity. Qed.
Theorem bound_value_nil_iff c : bound_value c = CNil <-> c = CNil.
Proof. destruct c; cbn; split; intro H; try discriminate; auto. Qed.
Theorem bound_value_idem c : bound_value (bound_value c) = bound_value c.
Proof. now destruct c. Qed.

(* ------------------------------------------------------------------------- *)
(* finite maps                                                                *)
(* ------------------------------------------------------------------------- *)

Lemma fget_fset_same {A} (f : list (str * A)) k c : fget (fset f k c) k = Some c.
Proof.
  induction f as [|[k0 c0] r IH]; cbn [fset fget].
  - now rewrite str_eqb_refl.
  - destruct (str_compare k k0) eqn:C; cbn [fget].
    + now rewrite str_eqb_refl.
    + now rewrite str_eqb_refl.
    + assert (E : str_eqb k k0 = false).
      { apply str_eqb_neq. intros ->. assert (X : str_compare k0 k0 = Eq) by now apply str_compare_eq. congruence. }
      now rewrite E.
Qed.

Lemma fget_fset_other {A} (f : list (str * A)) k k' c : k' <> k -> fget (fset f k c) k' = fget f k'.
Proof.
  intros Hne. apply str_eqb_neq in Hne.
  induction f as [|[k0 c0] r IH]; cbn [fset fget].
  - now rewrite Hne.
  - destruct (str_compare k k0) eqn:C; cbn [fget].
    + apply str_compare_eq in C. subst k0. now rewrite Hne.
    + now rewrite Hne.
    + now rewrite IH.
Qed.

Lemma fget_fdel_other {A} (f : list (str * A)) k k' : k' <> k -> fget (fdel f k) k' = fget f k'.
Proof.
  intros Hne. induction f as [|[k0 c0] r IH]; cbn [fdel fget]; [reflexivity|].
  destruct (str_eqb k k0) eqn:E.
  - apply str_eqb_eq in E. subst k0. apply str_eqb_neq in Hne. now rewrite Hne.
  - cbn [fget]. now rewrite IH.
Qed.

Lemma fget_notin {A} (f : list (str * A)) k : ~ In k (fkeys f) -> fget f k = None.
Proof.
  induction f as [|[k0 c0] r IH]; intros H; cbn [fget]; [reflexivity|].
  cbn [fkeys map fst In] in H.
  assert (E : str_eqb k k0 = false) by (apply str_eqb_neq; intros ->; apply H; now left).
  rewrite E. apply IH. intros Hin. apply H. now right.
Qed.

Lemma fget_fdel_same {A} (f : list (str * A)) k : NoDup (fkeys f) -> fget (fdel f k) k = None.
Proof.
  induction f as [|[k0 c0] r IH]; intros H; cbn [fdel fget]; [reflexivity|].
  cbn [fkeys map fst] in H. inversion H as [|x l Hx Hl]; subst.
  destruct (str_eqb k k0) eqn:E.
  - apply str_eqb_eq in E. subst k0. now apply fget_notin.
  - cbn [fget]. rewrite E. now apply IH.
Qed.

Lemma sk_tail a t : sorted_keys (a :: t) = true -> sorted_keys t = true.
Proof.
  destruct t as [|b t]; [reflexivity|]. cbn [sorted_keys]. intros H.
  apply andb_prop in H. now destruct H.
Qed.

Lemma sk_head_lt a t : sorted_keys (a :: t) = true -> forall x, In x t -> str_ltb a x = true.
Proof.
  revert a. induction t as [|b t IH]; intros a H x Hin; [destruct Hin|].
  cbn [sorted_keys] in H. apply andb_prop in H. destruct H as [Hab Ht].
  destruct Hin as [<-|Hin]; [assumption|].
  apply str_ltb_trans with (b := b); [assumption|]. now apply IH.
Qed.

Lemma sorted_NoDup l : sorted_keys l = true -> NoDup l.
Proof.
  induction l as [|a l IH]; intros H; constructor.
  - intros Hin. pose proof (sk_head_lt _ _ H a Hin) as X. rewrite str_ltb_irrefl in X. discriminate.
  - apply IH. now apply sk_tail in H.
Qed.

Lemma has_dup_false l : NoDup l -> has_dup l = false.
Proof.
  induction 1 as [|x l Hx _ IH]; [reflexivity|]. cbn [has_dup]. rewrite IH, orb_false_r.
  destruct (existsb (str_eqb x) l) eqn:E; [|reflexivity].
  apply existsb_exists in E. destruct E as [y [Hy E]]. apply str_eqb_eq in E. subst y. contradiction.
Qed.

(* ------------------------------------------------------------------------- *)
(* placing a row whose columns are the table's columns                        *)
(* ------------------------------------------------------------------------- *)

Lemma index_of_app k suf : forall pre i, ~ In k pre -> index_of k (pre ++ k :: suf) i = Some (i + List.length pre)%nat.
Proof.
  induction pre as [|x pre IH]; intros i H; cbn [app index_of List.length].
  - rewrite str_eqb_refl. f_equal. lia.
  - assert (E : str_eqb k x = false) by (apply str_eqb_neq; intros ->; apply H; now left).
    rewrite E, IH by (intros Hin; apply H; now right). f_equal. lia.
Qed.

Lemma nth_opt_app_len {A} (a b : list A) x : nth_opt (a ++ x :: b) (List.length a) = Some x.
Proof. induction a as [|y a IH]; cbn [app List.length nth_opt]; auto. Qed.

Lemma place_row_gen : forall suf pre rpre rsuf,
  NoDup (pre ++ suf) -> List.length rpre = List.length pre -> List.length rsuf = List.length suf ->
  map (fun tc => match index_of tc (pre ++ suf) 0 with
                 | Some i => match nth_opt (rpre ++ rsuf) i with Some c => c | None => CNil end
                 | None => CNil end) suf = rsuf.
Proof.
  induction suf as [|k suf IH]; intros pre rpre rsuf Hnd Hp Hs.
  - destruct rsuf; [reflexivity | discriminate].
  - destruct rsuf as [|c rsuf]; [discriminate|]. cbn [map]. f_equal.
    + rewrite index_of_app by (apply NoDup_remove_2 in Hnd; intros Hin; apply Hnd; apply in_or_app; now left).
      cbn [plus]. rewrite <- Hp. now rewrite nth_opt_app_len.
    + specialize (IH (pre ++ [k]) (rpre ++ [c]) rsuf).
      rewrite <- !app_assoc in IH. cbn [app] in IH. apply IH.
      * exact Hnd.
      * rewrite !app_length. cbn [List.length]. lia.
      * cbn [List.length] in Hs. lia.
Qed.

Lemma place_row_id cols r : NoDup cols -> List.length r = List.length cols -> place_row cols cols r = r.
Proof. intros Hnd Hl. unfold place_row. exact (place_row_gen cols [] [] r Hnd eq_refl Hl). Qed.

Lemma forallb_self cols : forallb (fun c => existsb (str_eqb c) cols) cols = true.
Proof.
  apply forallb_forall. intros c Hc. apply existsb_exists. exists c. split; [assumption | apply str_eqb_refl].
Qed.

(* ------------------------------------------------------------------------- *)
(* the rows of a frame                                                        *)
(* ------------------------------------------------------------------------- *)

Lemma all_some_keys {B} (h : str * B -> option cell) : forall (f : list (str * B)) r,
  all_some (map (fun kc => option_map (pair (fst kc)) (h kc)) f) = Some r -> map fst r = map fst f.
Proof.
  induction f as [|a f IH]; intros r H; cbn [map all_some] in H.
  - injection H as <-. reflexivity.
  - destruct (h a) as [c|]; cbn [option_map] in H; [|discriminate].
    destruct (all_some (map (fun kc => option_map (pair (fst kc)) (h kc)) f)) as [r'|] eqn:E; [|discriminate].
    injection H as <-. cbn [map fst]. f_equal. now apply IH.
Qed.

Lemma row_keys f r : In r (rows f) -> map fst r = fkeys f.
Proof.
  unfold rows. intros H. apply in_flat_map in H. destruct H as [i [_ H]].
  destruct (frow f i) as [r'|] eqn:E; cbn [In] in H; [|destruct H]. destruct H as [<-|[]].
  unfold frow in E. destruct (Nat.ltb i (nrows f)); [|discriminate].
  exact (all_some_keys (fun kc => nth_opt (cdata (snd kc)) i) f r' E).
Qed.

Lemma rget_map (r : rowmap) : NoDup (map fst r) -> map (fun k => rget r k) (map fst r) = map snd r.
Proof.
  induction r as [|[k c] r IH]; intros H; [reflexivity|].
  cbn [map fst snd] in *. inversion H as [|x l Hx Hl]; subst. f_equal.
  - unfold rget. cbn [fget]. now rewrite str_eqb_refl.
  - rewrite <- IH by assumption. apply map_ext_in. intros k' Hk'.
    unfold rget. cbn [fget].
    assert (E : str_eqb k' k = false) by (apply str_eqb_neq; intros ->; contradiction).
    now rewrite E.
Qed.

Definition new_rows (f : frame) : list (list cell) := map (map bound_value) (frame_rows_cells f).

(* the independent specification of SqlCorr.v: each cell under its own column *)
Lemma new_rows_expected f : sorted_keys (fkeys f) = true -> new_rows f = expected_rows (fkeys f) f.
Proof.
  intros Hs. unfold new_rows, frame_rows_cells, expected_rows. rewrite map_map.
  apply map_ext_in. intros r Hin. pose proof (row_keys f r Hin) as Hk.
  rewrite <- Hk. rewrite <- (rget_map r) by (rewrite Hk; now apply sorted_NoDup).
  now rewrite map_map.
Qed.

Lemma frame_rows_width f : Forall (fun r => List.length r = List.length (fkeys f)) (frame_rows_cells f).
Proof.
  apply Forall_forall. intros r Hr. unfold frame_rows_cells in Hr. apply in_map_iff in Hr.
  destruct Hr as [r0 [<- Hin]]. rewrite map_length. rewrite <- (row_keys f r0 Hin). now rewrite map_length.
Qed.

Lemma frame_rows_empty f : nrows f = 0%nat -> frame_rows_cells f = [].
Proof. intros H. unfold frame_rows_cells, rows. now rewrite H. Qed.

(* a rectangular frame has one row map per row index *)
Lemma all_some_is_some {A} (l : list (option A)) :
  (forall x, In x l -> x <> None) -> exists r, all_some l = Some r.
Proof.
  induction l as [|x l IH]; intros H; [now exists []|].
  destruct x as [a|]; [|exfalso; apply (H None); [now left | reflexivity]].
  destruct IH as [r Hr]; [intros y Hy; apply H; now right|].
  exists (a :: r). cbn [all_some]. now rewrite Hr.
Qed.

Lemma frow_some f i : rect f = true -> (i < nrows f)%nat -> exists r, frow f i = Some r.
Proof.
  intros Hr Hi. unfold frow. apply Nat.ltb_lt in Hi. rewrite Hi. apply all_some_is_some.
  intros x Hx. apply in_map_iff in Hx. destruct Hx as [[k c] [<- Hin]]. cbn [fst snd].
  unfold rect in Hr. rewrite forallb_forall in Hr. specialize (Hr _ Hin). cbn [snd] in Hr.
  apply Nat.eqb_eq in Hr. apply Nat.ltb_lt in Hi.
  rewrite (nth_opt_nth (cdata c) i CNil) by lia. discriminate.
Qed.

Lemma flat_map_some_length {A B} (g : A -> option B) (l : list A) :
  (forall i, In i l -> exists r, g i = Some r) ->
  List.length (flat_map (fun i => match g i with Some r => [r] | None => [] end) l) = List.length l.
Proof.
  induction l as [|a l IH]; intros H; [reflexivity|].
  cbn [flat_map]. rewrite app_length, IH by (intros i Hi; apply H; now right).
  destruct (H a (or_introl eq_refl)) as [r ->]. reflexivity.
Qed.

Lemma rows_length f : rect f = true -> List.length (rows f) = nrows f.
Proof.
  intros Hr. unfold rows. rewrite flat_map_some_length; [apply seq_length|].
  intros i Hi. apply in_seq in Hi. apply frow_some; [assumption | lia].
Qed.

Lemma expected_rows_length tcols f : rect f = true -> List.length (expected_rows tcols f) = nrows f.
Proof. intros Hr. unfold expected_rows. rewrite map_length. now apply rows_length. Qed.

(* ------------------------------------------------------------------------- *)
(* options                                                                    *)
(* ------------------------------------------------------------------------- *)

Lemma resolve_opts_valid o d ife bs tm : resolve_opts o = Ok (d, ife, bs, tm) ->
  1 <= bs /\ (ife = s_fail \/ ife = s_replace \/ ife = s_append).
Proof.
  unfold resolve_opts. intros H. cbv zeta in H.
  destruct (w_has o && negb (null (w_ifexists o)) &&
            negb (str_eqb (w_ifexists o) s_fail || str_eqb (w_ifexists o) s_replace || str_eqb (w_ifexists o) s_append)) eqn:E1;
    [discriminate|].
  destruct (w_has o && (w_batch o <? 0)); [discriminate|].
  match type of H with (if ?c then _ else _) = _ => destruct c end; [discriminate|].
  destruct (dialect_of (if w_has o then w_dialect o else [])); [|discriminate].
  injection H as H1 H2 H3 H4. subst d ife bs tm. split.
  - destruct (w_has o && (0 <? w_batch o)) eqn:E3; [|lia].
    apply andb_prop in E3. destruct E3 as [_ E3]. apply Z.ltb_lt in E3. lia.
  - destruct (w_has o); cbn [andb] in *; [|now left].
    destruct (null (w_ifexists o)); cbn [negb andb] in *; [now left|].
    apply negb_false_iff in E1. apply orb_prop in E1. destruct E1 as [E1|E1].
    + apply orb_prop in E1. destruct E1 as [E1|E1]; apply str_eqb_eq in E1; auto.
    + apply str_eqb_eq in E1; auto.
Qed.

(* ------------------------------------------------------------------------- *)
(* 4. IfExists "fail" on an existing table                                    *)
(* ------------------------------------------------------------------------- *)

Theorem plan_stmts_fail d bs tm t f : plan_stmts d s_fail bs tm t f true = Err.
Proof. reflexivity. Qed.

Theorem tosql_fail_existing o t f st d bs tm :
  resolve_opts o = Ok (d, s_fail, bs, tm) -> fhas st t = true ->
  tosql o t f st 0 0 = ([c_begin; (1%N, exists_sql d, [CS t]); c_rollback], st, false).
Proof.
  intros Hres Hhas. unfold tosql, tx_body. cbn [Nat.eqb]. rewrite Hres.
  cbn [Nat.eqb negb andb]. rewrite Hhas, plan_stmts_fail. reflexivity.
Qed.

(* ------------------------------------------------------------------------- *)
(* 6. the created table                                                       *)
(* ------------------------------------------------------------------------- *)

Definition typed_cols (d : dialect) (tm : option (list (str * str))) (f : frame) : list (str * str) :=
  map (fun kc => (fst kc, col_sql_type d tm (fst kc) (cdata (snd kc)))) f.

Lemma typed_cols_names d tm f : map fst (typed_cols d tm f) = fkeys f.
Proof. unfold typed_cols, fkeys. rewrite map_map. reflexivity. Qed.

Theorem create_types d tm f :
  List.length (typed_cols d tm f) = List.length f
  /\ map fst (typed_cols d tm f) = fkeys f
  /\ map snd (typed_cols d tm f) = map (fun kc => col_sql_type d tm (fst kc) (cdata (snd kc))) f.
Proof.
  unfold typed_cols. rewrite map_length, !map_map. repeat split.
Qed.

Theorem col_sql_type_override d m k data ty :
  fget m k = Some ty -> col_sql_type d (Some m) k data = ty.
Proof. intros H. unfold col_sql_type. now rewrite H. Qed.
Theorem col_sql_type_inferred d m k data :
  fget m k = None -> col_sql_type d (Some m) k data = sql_type d (first_non_nil data).
Proof. intros H. unfold col_sql_type. now rewrite H. Qed.
Theorem col_sql_type_nomap d k data : col_sql_type d None k data = sql_type d (first_non_nil data).
Proof. reflexivity. Qed.

Theorem first_non_nil_skip l : first_non_nil (CNil :: l) = first_non_nil l.
Proof. reflexivity. Qed.
Theorem first_non_nil_hit c l : is_nil c = false -> first_non_nil (c :: l) = c.
Proof. intros H. unfold first_non_nil. cbn [filter]. now rewrite H. Qed.
Theorem first_non_nil_all_nil l : forallb is_nil l = true -> first_non_nil l = CNil.
Proof.
  induction l as [|c l IH]; intros H; [reflexivity|]. cbn [forallb] in H.
  apply andb_prop in H. destruct H as [Hc Hl]. destruct c; try discriminate.
  rewrite first_non_nil_skip. now apply IH.
Qed.
Theorem first_non_nil_spec l : forall pre c post, l = pre ++ c :: post -> forallb is_nil pre = true ->
  is_nil c = false -> first_non_nil l = c.
Proof.
  intros pre c post -> Hp Hc. induction pre as [|x pre IH]; cbn [app].
  - now apply first_non_nil_hit.
  - cbn [forallb] in Hp. apply andb_prop in Hp. destruct Hp as [Hx Hp]. destruct x; try discriminate.
    rewrite first_non_nil_skip. now apply IH.
Qed.

(* the documented type names, as an explicit table over the dynamic types *)
Inductive gotype := GNil | GInt (k : ikind) | GFloat (k : fkind) | GString | GBool | GTime.
Definition gotype_of (c : cell) : gotype :=
  match c with
  | CNil => GNil | CI k _ => GInt k | CF k _ => GFloat k | CS _ => GString | CB _ => GBool | CT _ => GTime
  end.
Definition small_int_pg (k : ikind) : bool :=
  match k with KInt | KInt8 | KInt16 | KInt32 | KUint8 | KUint16 => true | _ => false end.
Definition small_int_my (k : ikind) : bool :=
  match k with KUint8 | KUint16 => true | _ => false end.
Definition doc_type (d : dialect) (g : gotype) : str :=
  match g with
  | GNil | GString => lit "TEXT"
  | GInt k =>
    match d with
    | DSqlite => lit "INTEGER"
    | DPostgres => if small_int_pg k then lit "INTEGER" else lit "BIGINT"
    | DMysql => if small_int_my k then lit "INT" else lit "BIGINT"
    end
  | GFloat KF32 => match d with DSqlite => lit "REAL" | DPostgres => lit "REAL" | DMysql => lit "FLOAT" end
  | GFloat KF64 => match d with DSqlite => lit "REAL" | DPostgres => lit "DOUBLE PRECISION" | DMysql => lit "DOUBLE" end
  | GBool => match d with DSqlite => lit "INTEGER" | DPostgres => lit "BOOLEAN" | DMysql => lit "TINYINT(1)" end
  | GTime => match d with DSqlite => lit "TIMESTAMP" | DPostgres => lit "TIMESTAMP" | DMysql => lit "DATETIME" end
  end.

Theorem sql_type_table d c : sql_type d c = doc_type d (gotype_of c).
Proof. destruct d; destruct c as [|k z|k x|s|b|t]; try destruct k; reflexivity. Qed.

(* an all-nil or empty column is created as TEXT in every dialect *)
Corollary sql_type_all_nil d tm k data :
  tm = None -> forallb is_nil data = true -> col_sql_type d tm k data = lit "TEXT".
Proof. intros -> H. rewrite col_sql_type_nomap, first_non_nil_all_nil by assumption. now destruct d. Qed.

(* ------------------------------------------------------------------------- *)
(* 5. the effect of a successful export                                       *)
(* ------------------------------------------------------------------------- *)

Lemma run_stmts_step d s rest st n acc :
  run_stmts d (s :: rest) st n 0 0 acc =
  match exec_stmt st s with
  | None => ((2%N, fst (render_stmt d s), snd (render_stmt d s)) :: acc, st, false, S n)
  | Some st' => run_stmts d rest st' (S n) 0 0 ((2%N, fst (render_stmt d s), snd (render_stmt d s)) :: acc)
  end.
Proof. cbn [run_stmts Nat.eqb negb andb]. destruct (render_stmt d s) as [text args]. reflexivity. Qed.

Lemma Forall_concat_inv {A} (P : A -> Prop) (cl : list (list A)) :
  Forall P (List.concat cl) -> Forall (Forall P) cl.
Proof.
  induction cl as [|c cl IH]; intros H; constructor; cbn [List.concat] in H; apply Forall_app in H; destruct H; auto.
Qed.

(* a run of INSERTs into a table whose columns are the statement's columns appends the
   bound rows, in order, and touches nothing else *)
Lemma run_inserts d t cols : NoDup cols -> forall cl (st1 : store) n acc tcols trows,
  fget st1 t = Some (tcols, trows) -> map fst tcols = cols ->
  Forall (Forall (fun r => List.length r = List.length cols)) cl ->
  exists acc' st2 n',
    run_stmts d (map (SInsert t cols) cl) st1 n 0 0 acc = (acc', st2, true, n')
    /\ fget st2 t = Some (tcols, trows ++ map (map bound_value) (List.concat cl))
    /\ forall t', t' <> t -> fget st2 t' = fget st1 t'.
Proof.
  intros Hnd. induction cl as [|c cl IH]; intros st1 n acc tcols trows Hget Hcols Hw.
  - exists acc, st1, n. cbn [map run_stmts List.concat]. rewrite app_nil_r. auto.
  - inversion Hw as [|x l Hc Hcl]; subst x l.
    cbn [map]. rewrite run_stmts_step. cbn [exec_stmt]. rewrite Hget, Hcols, forallb_self.
    assert (E : map (fun r => place_row cols cols (map bound_value r)) c = map (map bound_value) c).
    { apply map_ext_in. intros r Hr. apply place_row_id; [assumption|].
      rewrite map_length. rewrite Forall_forall in Hc. now apply Hc. }
    rewrite E.
    destruct (IH (fset st1 t (tcols, trows ++ map (map bound_value) c)) (S n)
                 ((2%N, fst (render_stmt d (SInsert t cols c)), snd (render_stmt d (SInsert t cols c))) :: acc)
                 tcols (trows ++ map (map bound_value) c))
      as (acc' & st2 & n' & Hrun & Hg & Ho); [apply fget_fset_same | assumption | assumption |].
    exists acc', st2, n'. split; [exact Hrun|]. split.
    + rewrite Hg. cbn [List.concat]. now rewrite map_app, app_assoc.
    + intros t' Hne. rewrite Ho by assumption. now apply fget_fset_other.
Qed.

(* the INSERT statements of a plan: consecutive batches of the frame's rows *)
Definition plan_inserts (bs : Z) (t : str) (f : frame) : list stmt :=
  if Nat.eqb (nrows f) 0 then []
  else map (SInsert t (fkeys f))
           (chunks (Z.to_nat (Z.min bs (Z.of_nat (List.length (frame_rows_cells f))))) (frame_rows_cells f)).

Lemma plan_inserts_batches bs t f : 1 <= bs ->
  exists cl, plan_inserts bs t f = map (SInsert t (fkeys f)) cl
             /\ List.concat cl = frame_rows_cells f
             /\ Forall (fun c => (1 <= List.length c <= Z.to_nat bs)%nat) cl.
Proof.
  intros Hbs. unfold plan_inserts. destruct (Nat.eqb (nrows f) 0) eqn:E.
  - exists []. apply Nat.eqb_eq in E. rewrite frame_rows_empty by assumption. repeat split. constructor.
  - set (rws := frame_rows_cells f). destruct rws as [|r rws'] eqn:Er.
    + exists []. repeat split. constructor.
    + rewrite <- Er. set (b := Z.to_nat (Z.min bs (Z.of_nat (List.length rws)))).
      assert (Hb : (1 <= b <= Z.to_nat bs)%nat).
      { unfold b. subst rws. rewrite Er. cbn [List.length]. lia. }
      exists (chunks b rws). split; [reflexivity|]. split; [apply chunks_concat; lia|].
      eapply Forall_impl; [|apply chunks_bounds; lia]. cbn beta. intros c Hc. lia.
Qed.

Lemma plan_stmts_absent d ife bs tm t f :
  plan_stmts d ife bs tm t f false = Ok (SCreate t (typed_cols d tm f) :: plan_inserts bs t f).
Proof. reflexivity. Qed.

Lemma plan_stmts_replace d bs tm t f :
  plan_stmts d s_replace bs tm t f true = Ok (SDrop t :: SCreate t (typed_cols d tm f) :: plan_inserts bs t f).
Proof. reflexivity. Qed.

Lemma plan_stmts_append d bs tm t f :
  plan_stmts d s_append bs tm t f true = Ok (plan_inserts bs t f).
Proof. reflexivity. Qed.

(* every INSERT of a plan carries between 1 and BatchSize rows *)
Theorem plan_batch_sizes bs t f : 1 <= bs ->
  Forall (fun s => match s with
                   | SInsert t' cols rws => t' = t /\ cols = fkeys f /\ (1 <= List.length rws <= Z.to_nat bs)%nat
                   | _ => False end) (plan_inserts bs t f).
Proof.
  intros Hbs. destruct (plan_inserts_batches bs t f Hbs) as (cl & -> & _ & Hb).
  apply Forall_forall. intros s Hs. apply in_map_iff in Hs. destruct Hs as [c [<- Hc]].
  rewrite Forall_forall in Hb. auto.
Qed.

Lemma tosql_run o t f (st : store) d ife bs tm ss calls st' n :
  resolve_opts o = Ok (d, ife, bs, tm) ->
  plan_stmts d ife bs tm t f (fhas st t) = Ok ss ->
  run_stmts d ss st 2 0 0 [((1%N, exists_sql d, [CS t]) : call)] = (calls, st', true, n) ->
  tosql o t f st 0 0 = (c_begin :: rev calls ++ [c_commit], st', true).
Proof.
  intros Hres Hplan Hrun. unfold tosql, tx_body. cbn [Nat.eqb]. rewrite Hres.
  cbn [Nat.eqb negb andb]. rewrite Hplan, Hrun. reflexivity.
Qed.

Lemma run_create_inserts d t tcols cl (st : store) n acc :
  fhas st t = false -> NoDup (map fst tcols) ->
  Forall (Forall (fun r => List.length r = List.length (map fst tcols))) cl ->
  exists acc' st2 n',
    run_stmts d (SCreate t tcols :: map (SInsert t (map fst tcols)) cl) st n 0 0 acc = (acc', st2, true, n')
    /\ fget st2 t = Some (tcols, map (map bound_value) (List.concat cl))
    /\ forall t', t' <> t -> fget st2 t' = fget st t'.
Proof.
  intros Hab Hnd Hw. rewrite run_stmts_step. cbn [exec_stmt]. rewrite Hab, (has_dup_false _ Hnd). cbn [orb].
  destruct (run_inserts d t (map fst tcols) Hnd cl (fset st t (tcols, [])) (S n)
              ((2%N, fst (render_stmt d (SCreate t tcols)), snd (render_stmt d (SCreate t tcols))) :: acc)
              tcols [] (fget_fset_same _ _ _) eq_refl Hw) as (acc' & st2 & n' & Hrun & Hg & Ho).
  exists acc', st2, n'. split; [exact Hrun|]. split; [exact Hg|].
  intros t' Hne. rewrite Ho by assumption. now apply fget_fset_other.
Qed.

(* a new table: it holds exactly the frame's rows in frame order, each cell (as the driver
   receives it) under its own column; every other table is untouched *)
Theorem tosql_effect_absent o t f st d ife bs tm :
  resolve_opts o = Ok (d, ife, bs, tm) -> sorted_keys (fkeys f) = true -> fhas st t = false ->
  exists trace st',
    tosql o t f st 0 0 = (trace, st', true)
    /\ fget st' t = Some (typed_cols d tm f, expected_rows (fkeys f) f)
    /\ forall t', t' <> t -> fget st' t' = fget st t'.
Proof.
  intros Hres Hs Hab. destruct (resolve_opts_valid _ _ _ _ _ Hres) as [Hbs _].
  destruct (plan_inserts_batches bs t f Hbs) as (cl & Hins & Hcat & _).
  pose proof (sorted_NoDup _ Hs) as Hnd.
  assert (Hw : Forall (Forall (fun r => List.length r = List.length (map fst (typed_cols d tm f)))) cl).
  { apply Forall_concat_inv. rewrite Hcat, typed_cols_names. apply frame_rows_width. }
  rewrite <- (typed_cols_names d tm f) in Hnd.
  destruct (run_create_inserts d t (typed_cols d tm f) cl st 2 [(1%N, exists_sql d, [CS t])] Hab Hnd Hw)
    as (calls & st2 & n' & Hrun & Hg & Ho).
  exists (c_begin :: rev calls ++ [c_commit]), st2. split; [|split; [|exact Ho]].
  - eapply tosql_run; [exact Hres | rewrite Hab; apply plan_stmts_absent |].
    rewrite Hins, <- typed_cols_names with (d := d) (tm := tm). exact Hrun.
  - rewrite Hg, Hcat. fold (new_rows f). now rewrite new_rows_expected.
Qed.

(* IfExists "replace" on an existing table: same content as for a new table *)
Theorem tosql_effect_replace o t f st d bs tm :
  resolve_opts o = Ok (d, s_replace, bs, tm) -> sorted_keys (fkeys f) = true ->
  sorted_keys (fkeys st) = true -> fhas st t = true ->
  exists trace st',
    tosql o t f st 0 0 = (trace, st', true)
    /\ fget st' t = Some (typed_cols d tm f, expected_rows (fkeys f) f)
    /\ forall t', t' <> t -> fget st' t' = fget st t'.
Proof.
  intros Hres Hs Hst Hpr. destruct (resolve_opts_valid _ _ _ _ _ Hres) as [Hbs _].
  destruct (plan_inserts_batches bs t f Hbs) as (cl & Hins & Hcat & _).
  pose proof (sorted_NoDup _ Hs) as Hnd.
  assert (Hw : Forall (Forall (fun r => List.length r = List.length (map fst (typed_cols d tm f)))) cl).
  { apply Forall_concat_inv. rewrite Hcat, typed_cols_names. apply frame_rows_width. }
  rewrite <- (typed_cols_names d tm f) in Hnd.
  assert (Hab : fhas (fdel st t) t = false).
  { unfold fhas. now rewrite fget_fdel_same by now apply sorted_NoDup. }
  destruct (run_create_inserts d t (typed_cols d tm f) cl (fdel st t) 3
              ((2%N, fst (render_stmt d (SDrop t)), snd (render_stmt d (SDrop t))) :: [(1%N, exists_sql d, [CS t])])
              Hab Hnd Hw)
    as (calls & st2 & n' & Hrun & Hg & Ho).
  exists (c_begin :: rev calls ++ [c_commit]), st2. split; [|split].
  - eapply tosql_run; [exact Hres | rewrite Hpr; apply plan_stmts_replace |].
    rewrite run_stmts_step. cbn [exec_stmt]. rewrite Hpr.
    rewrite Hins, <- typed_cols_names with (d := d) (tm := tm). exact Hrun.
  - rewrite Hg, Hcat. fold (new_rows f). now rewrite new_rows_expected.
  - intros t' Hne. rewrite Ho by assumption. now apply fget_fdel_other.
Qed.

(* IfExists "append" to an existing table whose columns are the frame's columns: the old
   rows, then the frame's rows *)
Theorem tosql_effect_append o t f (st : store) d bs tm tcols old :
  resolve_opts o = Ok (d, s_append, bs, tm) -> sorted_keys (fkeys f) = true ->
  fget st t = Some (tcols, old) -> map fst tcols = fkeys f ->
  exists trace st',
    tosql o t f st 0 0 = (trace, st', true)
    /\ fget st' t = Some (tcols, old ++ expected_rows (fkeys f) f)
    /\ forall t', t' <> t -> fget st' t' = fget st t'.
Proof.
  intros Hres Hs Hget Hcols. destruct (resolve_opts_valid _ _ _ _ _ Hres) as [Hbs _].
  destruct (plan_inserts_batches bs t f Hbs) as (cl & Hins & Hcat & _).
  pose proof (sorted_NoDup _ Hs) as Hnd.
  assert (Hw : Forall (Forall (fun r => List.length r = List.length (fkeys f))) cl).
  { apply Forall_concat_inv. rewrite Hcat. apply frame_rows_width. }
  assert (Hpr : fhas st t = true) by (unfold fhas; now rewrite Hget).
  destruct (run_inserts d t (fkeys f) Hnd cl st 2 [(1%N, exists_sql d, [CS t])] tcols old Hget Hcols Hw)
    as (calls & st2 & n' & Hrun & Hg & Ho).
  exists (c_begin :: rev calls ++ [c_commit]), st2. split; [|split; [|exact Ho]].
  - eapply tosql_run; [exact Hres | rewrite Hpr; apply plan_stmts_append |].
    rewrite Hins. exact Hrun.
  - rewrite Hg, Hcat. fold (new_rows f). now rewrite new_rows_expected.
Qed.

(* the same, for a well-formed frame *)
Corollary tosql_effect o t f st d ife bs tm :
  resolve_opts o = Ok (d, ife, bs, tm) -> wf_frame f = true -> fhas st t = false ->
  exists trace st',
    tosql o t f st 0 0 = (trace, st', true)
    /\ fget st' t = Some (typed_cols d tm f, expected_rows (fkeys f) f)
    /\ forall t', t' <> t -> fget st' t' = fget st t'.
Proof.
  intros Hres Hwf Hab. apply (tosql_effect_absent o t f st d ife bs tm); auto.
  unfold wf_frame in Hwf. apply andb_prop in Hwf. now destruct Hwf.
Qed.

(* hypotheses are satisfiable, and the result is the expected table *)
Definition ex_opts : wopts :=
  {| w_has := true; w_ifexists := []; w_dialect := lit "sqlite"; w_batch := 2; w_typemap := None |}.
Definition ex_frame : frame :=
  [(lit "a", (lit "a", [CI KInt 1; CNil; CI KInt 3])); (lit "b", (lit "b", [CS (lit "x"); CS (lit "y"); CNil]))].
Example ex_effect :
  resolve_opts ex_opts = Ok (DSqlite, s_fail, 2, None) /\ wf_frame ex_frame = true
  /\ (let '(tr, st', ok) := tosql ex_opts (lit "t") ex_frame [] 0 0 in
      (map kind_of tr, fget st' (lit "t"), ok))
     = ([0; 1; 2; 2; 2; 3]%N,
        Some ([(lit "a", lit "INTEGER"); (lit "b", lit "TEXT")],
              [[CI KInt64 1; CS (lit "x")]; [CNil; CS (lit "y")]; [CI KInt64 3; CNil]]), true).
Proof. vm_compute. repeat split. Qed.

Definition ex_store : store :=
  [(lit "t", ([(lit "a", lit "INTEGER"); (lit "b", lit "TEXT")], [[CI KInt64 9; CS (lit "old")]]));
   (lit "u", ([(lit "z", lit "REAL")], [[CF KF64 (FFin 0)]]))].
Definition ex_opts_with (ife : str) : wopts :=
  {| w_has := true; w_ifexists := ife; w_dialect := lit "sqlite"; w_batch := 2; w_typemap := None |}.
Example ex_effect_replace_append :
  sorted_keys (fkeys ex_store) = true /\ fhas ex_store (lit "t") = true
  /\ resolve_opts (ex_opts_with s_replace) = Ok (DSqlite, s_replace, 2, None)
  /\ resolve_opts (ex_opts_with s_append) = Ok (DSqlite, s_append, 2, None)
  /\ (let '(tr, st', ok) := tosql (ex_opts_with s_replace) (lit "t") ex_frame ex_store 0 0 in
      (map kind_of tr, option_map snd (fget st' (lit "t")), fget st' (lit "u"), ok))
     = ([0; 1; 2; 2; 2; 2; 3]%N,
        Some [[CI KInt64 1; CS (lit "x")]; [CNil; CS (lit "y")]; [CI KInt64 3; CNil]],
        fget ex_store (lit "u"), true)
  /\ (let '(tr, st', ok) := tosql (ex_opts_with s_append) (lit "t") ex_frame ex_store 0 0 in
      (map kind_of tr, option_map snd (fget st' (lit "t")), fget st' (lit "u"), ok))
     = ([0; 1; 2; 2; 3]%N,
        Some [[CI KInt64 9; CS (lit "old")]; [CI KInt64 1; CS (lit "x")]; [CNil; CS (lit "y")]; [CI KInt64 3; CNil]],
        fget ex_store (lit "u"), true)
  /\ tosql (ex_opts_with s_fail) (lit "t") ex_frame ex_store 0 0
     = ([c_begin; (1%N, exists_sql DSqlite, [CS (lit "t")]); c_rollback], ex_store, false).
Proof. vm_compute. repeat split. Qed.

Print Assumptions chunks_concat.
Print Assumptions chunks_bounds.
Print Assumptions ph_indices.
Print Assumptions insert_wellformed.
Print Assumptions tosql_fail_existing.
Print Assumptions sql_type_table.
Print Assumptions plan_batch_sizes.
Print Assumptions tosql_effect_absent.
Print Assumptions tosql_effect_replace.
Print Assumptions tosql_effect_append.
Print Assumptions tosql_effect.
Print Assumptions expected_rows_length.
