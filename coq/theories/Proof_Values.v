(* Proof_Values.v - facts about VALUES that recent test rounds only sampled, proved of the
   model for all inputs:

     1  less_dup_head / less_dup / op_sort_dup    a sort column named a second time never decides anything
     2  cell_eqb_char / cell_eqb_type / ...       Go's == on cells: keys of different dynamic types never match;
        key_eq_type, matches_l_types, join_rows_types_disjoint   (joins)
        group_add_other_types, groupby_one_types, groupby_one_same_group   (single-column Groupby)
     3  astype_int_truncates / astype_int_near    Astype "int" truncates toward zero (near-integers lose a unit)
     4  still_own_rows_refl / others_aligned_refl / still_own_rows_detects_torn
     5  rep_length / rep_nth / iota_length / iota_nth   the compact literals denote what they appear to
     6  resample_identity / dec_Z_inj / show_cells_inj_ints    the identity aggregation of Resample

   Nothing was found false as asked; the places where the statement had to be made precise are
   marked ADJUSTED below, and oddities of the definitions are marked NOTE. *)
From GF Require Import Ops Step Corr Lemmas.
From GF Require Proof_C13 Proof_C15 Proof_Spec.
From Coq Require Import Lia.
Arguments N.eqb : simpl never.
Open Scope Z_scope.

(* ================================================================== *)
(* 1. Sort columns named twice                                         *)
(* ================================================================== *)

(* what one sort column says about the positions i, j: None = "tie, ask the next column" *)
Definition col_dec (O : oracles) (f : frame) (k : str) (asc : bool) (i j : nat) : option bool :=
  let a := cell_at f k i in
  let b := cell_at f k j in
  match a, b with
  | CNil, CNil => None
  | CNil, _ => Some false
  | _, CNil => Some true
  | _, _ =>
    match to_float O a, to_float O b with
    | Some x, Some y => if fl_eq x y then None else Some (if asc then fl_lt x y else fl_lt y x)
    | _, _ => if str_eqb (render O a) (render O b) then None
              else Some (if asc then str_ltb (render O a) (render O b) else str_ltb (render O b) (render O a))
    end
  end.

Lemma less_cons O f k rest asc i j :
  less O f (k :: rest) asc i j =
  match col_dec O f k asc i j with None => less O f rest asc i j | Some b => b end.
Proof.
  cbn [less]. unfold col_dec.
  destruct (cell_at f k i) as [|ka za|ka xa|sa|ba|ta], (cell_at f k j) as [|kb zb|kb xb|sb|bb|tb];
    cbv zeta; try reflexivity;
    repeat match goal with
           | |- context [match to_float ?o ?c with _ => _ end] => destruct (to_float o c)
           | |- context [if ?c then _ else _] => destruct c
           end; reflexivity.
Qed.

(* a column that ties can be dropped from anywhere in the list *)
Lemma less_drop_tie O f k asc i j by2 : col_dec O f k asc i j = None ->
  forall by1, less O f (by1 ++ k :: by2) asc i j = less O f (by1 ++ by2) asc i j.
Proof.
  intros Hk by1. induction by1 as [|k' by1 IH].
  - cbn [app]. rewrite less_cons, Hk. reflexivity.
  - cbn [app]. rewrite !less_cons. destruct (col_dec O f k' asc i j); [reflexivity | exact IH].
Qed.

Theorem less_dup O f by1 k by2 asc i j : In k by1 ->
  less O f (by1 ++ k :: by2) asc i j = less O f (by1 ++ by2) asc i j.
Proof.
  induction by1 as [|k' by1 IH]; intros Hin; [destruct Hin|].
  cbn [app]. rewrite !less_cons. destruct (col_dec O f k' asc i j) eqn:Ek'; [reflexivity|].
  destruct Hin as [-> | Hin].
  - apply less_drop_tie. exact Ek'.
  - apply IH. exact Hin.
Qed.

Theorem less_dup_head O f k rest asc i j :
  less O f (k :: k :: rest) asc i j = less O f (k :: rest) asc i j.
Proof. apply (less_dup O f [k] k rest asc i j). now left. Qed.

Lemma insert_by_ext lt1 lt2 x l : (forall a b, lt1 a b = lt2 a b) -> insert_by lt1 x l = insert_by lt2 x l.
Proof.
  intros H. induction l as [|y t IH]; cbn [insert_by]; [reflexivity|]. now rewrite H, IH.
Qed.
Lemma isort_ext lt1 lt2 l : (forall a b, lt1 a b = lt2 a b) -> isort lt1 l = isort lt2 l.
Proof.
  intros H. unfold isort. induction l as [|x t IH]; cbn [fold_right]; [reflexivity|].
  rewrite IH. now apply insert_by_ext.
Qed.

Lemma forallb_dup {A} (p : A -> bool) by1 k by2 : In k by1 ->
  forallb p (by1 ++ k :: by2) = forallb p (by1 ++ by2).
Proof.
  intros Hin. rewrite !forallb_app. cbn [forallb].
  destruct (forallb p by1) eqn:E; [|reflexivity].
  rewrite forallb_forall in E. now rewrite (E k Hin).
Qed.

(* the whole operation: same error behaviour (the existence check sees the same names) and
   the very same frame, not only the same frame up to ties *)
Theorem op_sort_dup O f by1 k by2 asc : In k by1 ->
  op_sort O f (by1 ++ k :: by2) asc = op_sort O f (by1 ++ by2) asc.
Proof.
  intros Hin. unfold op_sort. rewrite (forallb_dup (fhas f) by1 k by2 Hin).
  destruct (negb (forallb (fhas f) (by1 ++ by2))); [reflexivity|].
  rewrite (isort_ext (less O f (by1 ++ k :: by2) asc) (less O f (by1 ++ by2) asc)); [reflexivity|].
  intros a b. now apply less_dup.
Qed.

Corollary op_sort_dup_head O f k rest asc :
  op_sort O f (k :: k :: rest) asc = op_sort O f (k :: rest) asc.
Proof. apply (op_sort_dup O f [k] k rest asc). now left. Qed.

Definition vs (l : list N) : str := l.
Definition fr_ab : frame :=
  [(vs [97], (vs [97], [CI KInt 2; CI KInt 1; CI KInt 2; CNil]));
   (vs [98], (vs [98], [CS (vs [121]); CS (vs [122]); CS (vs [120]); CS (vs [119])]))]%N.
Definition O_none : oracles := Build_oracles [] [] [].
Example op_sort_dup_example :
  wf_frame fr_ab = true
  /\ op_sort O_none fr_ab [vs [97]; vs [98]; vs [97]]%N true = op_sort O_none fr_ab [vs [97]; vs [98]]%N true
  /\ op_sort O_none fr_ab [vs [97]; vs [98]]%N true =
     Ok [(vs [97], (vs [97], [CI KInt 1; CI KInt 2; CI KInt 2; CNil]));
         (vs [98], (vs [98], [CS (vs [122]); CS (vs [120]); CS (vs [121]); CS (vs [119])]))]%N
  /\ op_sort O_none fr_ab [vs [97]; vs [99]; vs [97]]%N true = Err.
Proof. vm_compute. repeat split. Qed.

Print Assumptions less_dup.
Print Assumptions less_dup_head.
Print Assumptions op_sort_dup.

(* Finding D15 (C06), recorded in KNOWN_FINDINGS.txt: the full statement "numbers numerically" is FALSE of the
   faithful model (and of the code) for integers beyond 2^53 - both compare integer cells through their
   float64 image, so two different integers with the same image are a tie.  The witness: an ascending sort
   whose result holds 2^53+1 before 2^53.  (Replayed on the implementation by the C06 stream
   "wide-integers-of-different-lengths".) *)
Definition fr_wide : frame :=
  [(vs [107], (vs [107], [CI KInt 9007199254740992; CI KInt 9007199254740993; CI KInt 5]))]%N%Z.
Theorem sort_wide_integers_refuted :
  exists (f : frame) (k : str) (x y : Z),
    wf_frame f = true /\ Z.lt y x /\
    op_sort O_none f [k] true = Ok [(k, (k, [CI KInt 5; CI KInt x; CI KInt y]))]
    /\ less O_none f [k] true 0 1 = false /\ less O_none f [k] true 1 0 = false.
Proof.
  exists fr_wide, (vs [107])%N, 9007199254740993%Z, 9007199254740992%Z.
  vm_compute. repeat split; reflexivity.
Qed.
Print Assumptions sort_wide_integers_refuted.

(* ================================================================== *)
(* 2. Keys of different types never match                              *)
(* ================================================================== *)

(* the dynamic type of the Go value a cell stands for *)
Inductive ctype := TNil | TI (k : ikind) | TF (k : fkind) | TS | TB | TT.
Definition type_of (c : cell) : ctype :=
  match c with
  | CNil => TNil | CI k _ => TI k | CF k _ => TF k | CS _ => TS | CB _ => TB | CT _ => TT
  end.

Lemma ikind_eqb_eq a b : ikind_eqb a b = true <-> a = b.
Proof. destruct a, b; cbn [ikind_eqb]; split; intro H; first [reflexivity | discriminate H]. Qed.
Lemma fkind_eqb_eq a b : fkind_eqb a b = true <-> a = b.
Proof. destruct a, b; cbn [fkind_eqb]; split; intro H; first [reflexivity | discriminate H]. Qed.
Lemma zlist_eqb_eq a : forall b, zlist_eqb a b = true <-> a = b.
Proof.
  induction a as [|x a IH]; intros [|y b]; cbn [zlist_eqb]; split; intro H; try discriminate H; try reflexivity.
  - apply andb_prop in H. destruct H as [H1 H2]. apply Z.eqb_eq in H1. apply IH in H2. now subst.
  - injection H as -> ->. rewrite Z.eqb_refl. now apply IH.
Qed.

(* Ops.same_type (used by Add) is exactly "same dynamic type" *)
Lemma same_type_iff a b : same_type a b = true <-> type_of a = type_of b.
Proof.
  destruct a as [|ka za|ka xa|sa|ba|ta], b as [|kb zb|kb xb|sb|bb|tb]; cbn [same_type type_of];
    try (split; intro H; first [reflexivity | discriminate H]).
  - rewrite ikind_eqb_eq. split; [now intros -> | now intros [= ->]].
  - rewrite fkind_eqb_eq. split; [now intros -> | now intros [= ->]].
Qed.

(* the complete description of cell_eqb (Go's == on two interface values) *)
Theorem cell_eqb_char a b :
  cell_eqb a b = true <->
  match a, b with
  | CNil, CNil => True
  | CI k x, CI k' y => k = k' /\ x = y
  | CF k x, CF k' y => k = k' /\ fl_eq x y = true     (* IEEE ==: NaN <> NaN, 0 == -0 *)
  | CS x, CS y => x = y
  | CB x, CB y => x = y
  | CT x, CT y => x = y                                (* the whole field list, zone offset included *)
  | _, _ => False
  end.
Proof.
  destruct a as [|ka za|ka xa|sa|ba|ta], b as [|kb zb|kb xb|sb|bb|tb]; cbn [cell_eqb];
    try (split; intro H; solve [exact I | reflexivity | discriminate H | destruct H]).
  - rewrite andb_true_iff, ikind_eqb_eq, Z.eqb_eq. reflexivity.
  - rewrite andb_true_iff, fkind_eqb_eq. reflexivity.
  - apply str_eqb_eq.
  - apply Bool.eqb_true_iff.
  - apply zlist_eqb_eq.
Qed.

Theorem cell_eqb_type a b : cell_eqb a b = true -> type_of a = type_of b.
Proof.
  intros H. apply cell_eqb_char in H.
  destruct a as [|ka za|ka xa|sa|ba|ta], b as [|kb zb|kb xb|sb|bb|tb]; try destruct H; cbn [type_of];
    try reflexivity; now subst.
Qed.
Corollary cell_eqb_diff_type a b : type_of a <> type_of b -> cell_eqb a b = false.
Proof.
  intros H. destruct (cell_eqb a b) eqn:E; [|reflexivity]. apply cell_eqb_type in E. contradiction.
Qed.
Corollary cell_eqb_same_type a b : cell_eqb a b = true -> same_type a b = true.
Proof. intros H. apply same_type_iff. now apply cell_eqb_type. Qed.

(* the sampled instances: a zero of one type is not the nil / false / zero of another *)
Example cell_eqb_int0_nil k : cell_eqb (CI k 0) CNil = false.           Proof. reflexivity. Qed.
Example cell_eqb_nil_int0 k : cell_eqb CNil (CI k 0) = false.           Proof. reflexivity. Qed.
Example cell_eqb_empty_nil : cell_eqb (CS []) CNil = false.             Proof. reflexivity. Qed.
Example cell_eqb_false_int0 k : cell_eqb (CB false) (CI k 0) = false.   Proof. reflexivity. Qed.
Example cell_eqb_int_int64 z : cell_eqb (CI KInt z) (CI KInt64 z) = false.  Proof. reflexivity. Qed.
Example cell_eqb_int_float z x : cell_eqb (CI KInt z) (CF KF64 x) = false.  Proof. reflexivity. Qed.
Example cell_eqb_f32_f64 x : cell_eqb (CF KF32 x) (CF KF64 x) = false.      Proof. reflexivity. Qed.
Example cell_eqb_text_int s z : cell_eqb (CS s) (CI KInt z) = false.        Proof. reflexivity. Qed.
Lemma cell_eqb_kinds k k' x y : k <> k' -> cell_eqb (CI k x) (CI k' y) = false.
Proof. intros H. apply cell_eqb_diff_type. cbn [type_of]. congruence. Qed.

(* time cells.  NOTE: the comparison is on the FIELD LIST (civil fields and zone offset), not on
   the instant: the same instant written in two zones gives two different keys.  That is also what
   Go's == on time.Time does (it compares the struct, location included), so the statement asked
   for holds as written. *)
Theorem cell_eqb_time t1 t2 : cell_eqb (CT t1) (CT t2) = true <-> t1 = t2.
Proof. apply (cell_eqb_char (CT t1) (CT t2)). Qed.
Example cell_eqb_time_same_instant_two_zones :   (* 12:00 UTC and 13:00 at +01:00 *)
  cell_eqb (CT [2024; 1; 1; 12; 0; 0; 0; 0]) (CT [2024; 1; 1; 13; 0; 0; 0; 3600]) = false.
Proof. reflexivity. Qed.

(* ---------- joins ---------- *)
(* the key test used by every join *)
Theorem key_eq_type key a b : key_eq key a b = true -> type_of (rget a key) = type_of (rget b key).
Proof. unfold key_eq. apply cell_eqb_type. Qed.
Corollary key_eq_diff_type key a b : type_of (rget a key) <> type_of (rget b key) -> key_eq key a b = false.
Proof. unfold key_eq. apply cell_eqb_diff_type. Qed.
Corollary key_eq_not_same_type key a b : same_type (rget a key) (rget b key) = false -> key_eq key a b = false.
Proof.
  intros H. apply key_eq_diff_type. intros E. apply same_type_iff in E. congruence.
Qed.

(* the partners of a row are found among the rows whose key has the same type: rows of the other
   side whose key has another type can be deleted without changing anything *)
Theorem matches_l_types key a R :
  matches_l key a R = matches_l key a (filter (fun b => same_type (rget a key) (rget b key)) R).
Proof.
  unfold matches_l. induction R as [|b R IH]; [reflexivity|]. cbn [flat_map filter].
  destruct (same_type (rget a key) (rget b key)) eqn:E.
  - cbn [flat_map]. now rewrite IH.
  - rewrite (key_eq_not_same_type key a b E). cbn [app]. exact IH.
Qed.
Theorem matches_r_types key b L :
  matches_r key b L = matches_r key b (filter (fun a => same_type (rget b key) (rget a key)) L).
Proof.
  unfold matches_r. induction L as [|a L IH]; [reflexivity|]. cbn [flat_map filter].
  destruct (same_type (rget b key) (rget a key)) eqn:E.
  - cbn [flat_map]. now rewrite IH.
  - rewrite (key_eq_not_same_type key b a E). cbn [app]. exact IH.
Qed.

Lemma flat_map_all_nil {A B} (g : A -> list B) l : (forall x, In x l -> g x = []) -> flat_map g l = [].
Proof.
  induction l as [|x l IH]; intros H; [reflexivity|]. cbn [flat_map].
  rewrite (H x (or_introl eq_refl)). cbn [app]. apply IH. intros y Hy. apply H. now right.
Qed.
Lemma flat_map_all_single {A} (g : A -> list A) l : (forall x, In x l -> g x = [x]) -> flat_map g l = l.
Proof.
  induction l as [|x l IH]; intros H; [reflexivity|]. cbn [flat_map].
  rewrite (H x (or_introl eq_refl)). cbn [app]. f_equal. apply IH. intros y Hy. apply H. now right.
Qed.

(* all four joins at once: when no left key has the type of any right key, nothing is paired -
   Inner is empty, Left/Right/Outer return their unmatched rows as they are *)
Theorem join_rows_types_disjoint key L R :
  (forall a b, In a L -> In b R -> type_of (rget a key) <> type_of (rget b key)) ->
  join_rows JInner key L R = []
  /\ join_rows JLeft key L R = L
  /\ join_rows JRight key L R = R
  /\ join_rows JOuter key L R = L ++ R.
Proof.
  intros H.
  assert (ML : forall a, In a L -> matches_l key a R = []).
  { intros a Ha. unfold matches_l. apply flat_map_all_nil. intros b Hb.
    now rewrite (key_eq_diff_type key a b (H a b Ha Hb)). }
  assert (MR : forall b, In b R -> matches_r key b L = []).
  { intros b Hb. unfold matches_r. apply flat_map_all_nil. intros a Ha.
    assert (E : key_eq key b a = false).
    { apply key_eq_diff_type. intros E. apply (H a b Ha Hb). now symmetry. }
    now rewrite E. }
  assert (JL : flat_map (fun a => if null (matches_l key a R) then [a] else matches_l key a R) L = L).
  { apply flat_map_all_single. intros a Ha. now rewrite (ML a Ha). }
  cbn [join_rows]. cbv zeta. split; [|split; [|split]].
  - apply flat_map_all_nil. exact ML.
  - exact JL.
  - apply flat_map_all_single. intros b Hb. now rewrite (MR b Hb).
  - rewrite JL. f_equal. clear ML MR JL. induction R as [|b R IH]; [reflexivity|]. cbn [filter].
    assert (E : existsb (fun a => key_eq key a b) L = false).
    { destruct (existsb (fun a => key_eq key a b) L) eqn:E; [|reflexivity].
      apply existsb_exists in E. destruct E as [a [Ha E]].
      rewrite (key_eq_diff_type key a b (H a b Ha (or_introl eq_refl))) in E. discriminate E. }
    rewrite E. cbn [negb]. f_equal. apply IH.
    intros a b' Ha Hb'. apply H; [exact Ha | now right].
Qed.

(* the same at the level of the operation (rows f / rows g are the row maps of the two frames) *)
Corollary op_join_types_disjoint f g key :
  fhas f key = true -> fhas g key = true ->
  (forall a b, In a (rows f) -> In b (rows g) -> type_of (rget a key) <> type_of (rget b key)) ->
  let names := fkeys f ++ fkeys g in
  op_join JInner f g key = Ok (frame_of_rows names [])
  /\ op_join JLeft f g key = Ok (frame_of_rows names (rows f))
  /\ op_join JRight f g key = Ok (frame_of_rows names (rows g))
  /\ op_join JOuter f g key = Ok (frame_of_rows names (rows f ++ rows g)).
Proof.
  intros Hf Hg H names. destruct (join_rows_types_disjoint key (rows f) (rows g) H) as [J1 [J2 [J3 J4]]].
  unfold op_join. rewrite Hf, Hg, J1, J2, J3, J4. cbn [negb orb]. repeat split.
Qed.

Definition row1 (k : str) (c : cell) (tag : Z) : rowmap := [(k, c); (vs [122]%N, CI KInt tag)].
Example join_rows_types_example :   (* int 1 / int64 1 / "1" / nil / false / int 0 *)
  let key := vs [107]%N in
  let L := [row1 key (CI KInt 1) 1; row1 key CNil 2; row1 key (CB false) 3] in
  let R := [row1 key (CI KInt64 1) 4; row1 key (CS (vs [49]%N)) 5; row1 key (CI KInt 0) 6] in
  join_rows JInner key L R = [] /\ join_rows JOuter key L R = L ++ R.
Proof. vm_compute. split; reflexivity. Qed.

(* ---------- single-column Groupby ---------- *)
(* adding a row whose key is k leaves every group whose key has another type as it was *)
Theorem group_add_other_types g k r :
  filter (fun kr => negb (same_type k (fst kr))) (group_add g k r)
  = filter (fun kr => negb (same_type k (fst kr))) g.
Proof.
  induction g as [|[k' rs] t IH]; cbn [group_add].
  - cbn [filter fst]. assert (E : same_type k k = true) by now apply same_type_iff. now rewrite E.
  - destruct (cell_eqb k k') eqn:E.
    + cbn [filter fst]. now rewrite (cell_eqb_same_type k k' E).
    + cbn [filter fst]. rewrite IH. reflexivity.
Qed.

(* every row sits in a group whose key has the type of the row's own key cell *)
Definition groups_typed (k : str) (g : groups) : Prop :=
  forall k' rs r, In (k', rs) g -> In r rs -> type_of (rget r k) = type_of k'.

Lemma group_add_typed k g r : groups_typed k g -> groups_typed k (group_add g (rget r k) r).
Proof.
  induction g as [|[k0 rs0] t IH]; intros Hg; cbn [group_add].
  - intros k' rs r' [E|[]] Hr. injection E as <- <-. destruct Hr as [<-|[]]. reflexivity.
  - destruct (cell_eqb (rget r k) k0) eqn:E.
    + intros k' rs r' [E'|Hin] Hr.
      * injection E' as <- <-. apply in_app_or in Hr. destruct Hr as [Hr|[<-|[]]].
        -- apply (Hg k0 rs0 r'); [now left | exact Hr].
        -- now apply cell_eqb_type.
      * apply (Hg k' rs r'); [now right | exact Hr].
    + intros k' rs r' [E'|Hin] Hr.
      * injection E' as <- <-. apply (Hg k0 rs0 r'); [now left | exact Hr].
      * apply (IH (fun k' rs r' H1 H2 => Hg k' rs r' (or_intror H1) H2) k' rs r' Hin Hr).
Qed.

Lemma fold_group_add_typed k rs : forall g, groups_typed k g ->
  groups_typed k (fold_left (fun g r => group_add g (rget r k) r) rs g).
Proof.
  induction rs as [|r rs IH]; intros g Hg; cbn [fold_left]; [exact Hg|].
  apply IH. now apply group_add_typed.
Qed.

Theorem groupby_one_types O f k g : op_groupby O f (GOne k) = Ok g -> groups_typed k g.
Proof.
  unfold op_groupby. destruct (negb (forallb (fhas f) (gkey_cols (GOne k)))); [discriminate|].
  destruct (all_some (map (frow f) (seq 0 (nrows f)))) as [rs|]; [|discriminate].
  intros [= <-]. cbn [group_key]. apply fold_group_add_typed. intros k' rs' r [].
Qed.

(* two rows whose key cells differ in type are never in the same group *)
Corollary groupby_one_same_group O f k g kg rs r1 r2 :
  op_groupby O f (GOne k) = Ok g -> In (kg, rs) g -> In r1 rs -> In r2 rs ->
  type_of (rget r1 k) = type_of (rget r2 k).
Proof.
  intros Hg Hin H1 H2. pose proof (groupby_one_types O f k g Hg) as T.
  rewrite (T kg rs r1 Hin H1), (T kg rs r2 Hin H2). reflexivity.
Qed.

Definition fr_keys : frame :=
  [(vs [107], (vs [107], [CI KInt 1; CI KInt64 1; CS (vs [49]); CNil; CI KInt 0; CB false; CI KInt 1]))]%N.
Example groupby_types_example :
  wf_frame fr_keys = true /\
  match op_groupby O_none fr_keys (GOne (vs [107]%N)) with
  | Ok g => map (fun kr => (fst kr, length (snd kr))) g
            = [(CI KInt 1, 2%nat); (CI KInt64 1, 1%nat); (CS (vs [49]%N), 1%nat); (CNil, 1%nat);
               (CI KInt 0, 1%nat); (CB false, 1%nat)]
  | _ => False
  end.
Proof. vm_compute. split; reflexivity. Qed.

Print Assumptions cell_eqb_char.
Print Assumptions cell_eqb_type.
Print Assumptions cell_eqb_time.
Print Assumptions matches_l_types.
Print Assumptions join_rows_types_disjoint.
Print Assumptions op_join_types_disjoint.
Print Assumptions group_add_other_types.
Print Assumptions groupby_one_same_group.

(* ================================================================== *)
(* 3. Near-integers truncate                                           *)
(* ================================================================== *)

(* Astype "int" on a finite float FFin m (the number m / grid, grid = 2^1074) gives the int z with
   z = m quot grid: same sign as the float or zero, |z| <= |x|, and less than one unit is lost.
   (Proof_C15.astype_rule has the equation; this adds the arithmetic reading.) *)
Theorem astype_int_truncates O m :
  let z := Z.quot m grid in
  astype_cell O s_int (CF KF64 (FFin m)) = Ok (CI KInt z)
  /\ grid = 2 ^ 1074
  /\ Z.abs (m - z * grid) < grid            (* | x - z | < 1 *)
  /\ 0 <= z * m                             (* same sign, or z = 0 *)
  /\ 0 <= (m - z * grid) * m                (* the part cut off has the sign of x: rounding is TOWARD zero *)
  /\ Z.abs z * grid <= Z.abs m              (* | z | <= | x | *)
  /\ Z.abs m < (Z.abs z + 1) * grid         (* | x | - | z | < 1 *)
  /\ (z = 0 <-> Z.abs m < grid).            (* everything strictly between -1 and 1 becomes 0 *)
Proof.
  intros z. pose proof Proof_C15.grid_pos as G.
  assert (R : m - z * grid = Z.rem m grid).
  { pose proof (Z.quot_rem' m grid) as Q. subst z. lia. }
  destruct (Proof_C15.fl_trunc_bounds m z (Proof_C15.fl_trunc_fin m)) as [[B1 B2] B3].
  split; [apply Proof_C15.astype_int_fin|].
  split; [apply Proof_C15.grid_pow|].
  split; [rewrite R; rewrite <- (Z.abs_eq grid) at 2 by lia; apply Z.rem_bound_abs; lia|].
  split; [exact B3|].
  split; [rewrite R; apply Z.rem_sign_mul; lia|].
  split; [exact B1|].
  split; [exact B2|].
  split.
  - intros E. rewrite E in B2. cbn [Z.abs] in B2. lia.
  - intros E. destruct (Z.eq_dec z 0) as [E0|N0]; [exact E0|].
    assert (1 <= Z.abs z) by lia. nia.
Qed.

(* the sampled case: a float just below a whole number n >= 1 becomes n - 1, not n (and the mirror image) *)
Theorem astype_int_near O n e : 0 < n -> 0 < e <= grid ->
  astype_cell O s_int (CF KF64 (FFin (n * grid - e))) = Ok (CI KInt (n - 1))
  /\ astype_cell O s_int (CF KF64 (FFin (- (n * grid - e)))) = Ok (CI KInt (- (n - 1))).
Proof.
  intros Hn He. pose proof Proof_C15.grid_pos as G.
  assert (P : 0 <= n * grid - e) by nia.
  assert (Q : Z.quot (n * grid - e) grid = n - 1).
  { rewrite Z.quot_div_nonneg by lia. symmetry. apply (Z.div_unique _ _ _ (grid - e)); [left; lia | lia]. }
  rewrite !Proof_C15.astype_int_fin. rewrite Z.quot_opp_l by lia. rewrite Q. split; reflexivity.
Qed.
Theorem astype_int_whole O n :
  astype_cell O s_int (CF KF64 (FFin (n * grid))) = Ok (CI KInt n).
Proof.
  pose proof Proof_C15.grid_pos as G. rewrite Proof_C15.astype_int_fin. rewrite Z.quot_mul by lia. reflexivity.
Qed.

Example astype_int_near_example :   (* 3 - 2^-1074 (not a double, but on the model's grid) and 2.999999999999999556 = 3 - 2^-51 *)
  astype_cell O_none s_int (CF KF64 (FFin (3 * grid - 1))) = Ok (CI KInt 2)
  /\ astype_cell O_none s_int (CF KF64 (FFin (3 * grid - Z.shiftl 1 1023))) = Ok (CI KInt 2)
  /\ astype_cell O_none s_int (CF KF64 (FFin (- (3 * grid - Z.shiftl 1 1023)))) = Ok (CI KInt (-2))
  /\ astype_cell O_none s_int (CF KF64 (FFin (3 * grid))) = Ok (CI KInt 3).
Proof. vm_compute. repeat split. Qed.

Print Assumptions astype_int_truncates.
Print Assumptions astype_int_near.

(* ================================================================== *)
(* 4. still_own_rows / others_aligned                                  *)
(* ================================================================== *)

Theorem still_own_rows_refl a : still_own_rows a a = true.
Proof. unfold still_own_rows. now rewrite Proof_Spec.frame_same_refl. Qed.

Theorem others_aligned_refl p : forall i target, others_aligned p p i target = true.
Proof.
  induction p as [|a p IH]; intros i target; cbn [others_aligned]; [reflexivity|].
  rewrite IH, still_own_rows_refl, andb_true_r. destruct target as [t|]; [|reflexivity].
  destruct (Nat.eqb t i); reflexivity.
Qed.
Corollary c01_others_aligned_refl p o : c01_others_aligned p o p = true.
Proof. apply others_aligned_refl. Qed.

(* a torn frame: column "a" moved up by one position (last cell duplicated), column "b" untouched *)
Definition fr_whole : frame :=
  [(vs [97], (vs [97], [CI KInt 1; CI KInt 2; CI KInt 3]));
   (vs [98], (vs [98], [CS (vs [120]); CS (vs [121]); CS (vs [122])]))]%N.
Definition fr_torn : frame :=
  [(vs [97], (vs [97], [CI KInt 2; CI KInt 3; CI KInt 3]));
   (vs [98], (vs [98], [CS (vs [120]); CS (vs [121]); CS (vs [122])]))]%N.
Definition fr_fewer : frame :=     (* the middle row removed from both columns: still whole rows *)
  [(vs [97], (vs [97], [CI KInt 1; CI KInt 3]));
   (vs [98], (vs [98], [CS (vs [120]); CS (vs [122])]))]%N.
Example still_own_rows_detects_torn :
  wf_frame fr_whole = true /\ wf_frame fr_torn = true
  /\ nrows fr_whole = nrows fr_torn /\ ncols fr_whole = ncols fr_torn
  /\ fkeys fr_whole = fkeys fr_torn
  /\ still_own_rows fr_whole fr_torn = false
  /\ others_aligned [fr_whole; fr_whole] [fr_whole; fr_torn] 0 (Some 0%nat) = false
  /\ still_own_rows fr_whole fr_fewer = true
  /\ frame_same fr_whole fr_fewer = false.
Proof. vm_compute. repeat split. Qed.

Print Assumptions still_own_rows_refl.
Print Assumptions others_aligned_refl.

(* ================================================================== *)
(* 5. rep / iota                                                       *)
(* ================================================================== *)

Theorem rep_length {A} n (x : A) : length (rep n x) = Z.to_nat n.
Proof. unfold rep. apply repeat_length. Qed.
Theorem rep_nth {A} n (x : A) i : (i < Z.to_nat n)%nat -> nth_error (rep n x) i = Some x.
Proof. unfold rep. apply nth_error_repeat. Qed.
Theorem rep_nth_none {A} n (x : A) i : (Z.to_nat n <= i)%nat -> nth_error (rep n x) i = None.
Proof. intros H. apply nth_error_None. now rewrite rep_length. Qed.
Corollary rep_all {A} n (x y : A) : In y (rep n x) -> y = x.
Proof. unfold rep. apply repeat_spec. Qed.
Corollary rep_nonpos {A} n (x : A) : n <= 0 -> rep n x = [].
Proof. intros H. unfold rep. replace (Z.to_nat n) with O by lia. reflexivity. Qed.

Lemma iota_nat_length k d n : forall s, length (iota_nat k s d n) = n.
Proof. induction n as [|n IH]; intros s; cbn [iota_nat length]; [reflexivity|]. now rewrite IH. Qed.
Lemma iota_nat_nth k d n : forall s i, (i < n)%nat ->
  nth_error (iota_nat k s d n) i = Some (CI k (s + Z.of_nat i * d)).
Proof.
  induction n as [|n IH]; intros s i Hi; [lia|]. cbn [iota_nat]. destruct i as [|i].
  - cbn [nth_error]. do 2 f_equal. lia.
  - cbn [nth_error]. rewrite IH by lia. do 2 f_equal. lia.
Qed.

Theorem iota_length k s d n : length (iota k s d n) = Z.to_nat n.
Proof. unfold iota. apply iota_nat_length. Qed.
Theorem iota_nth k s d n i : (i < Z.to_nat n)%nat ->
  nth_error (iota k s d n) i = Some (CI k (s + Z.of_nat i * d)).
Proof. unfold iota. apply iota_nat_nth. Qed.
Theorem iota_nth_none k s d n i : (Z.to_nat n <= i)%nat -> nth_error (iota k s d n) i = None.
Proof. intros H. apply nth_error_None. now rewrite iota_length. Qed.
(* the same for the model's own accessor *)
Lemma nth_opt_nth_error {A} (l : list A) : forall i, nth_opt l i = nth_error l i.
Proof. induction l as [|x l IH]; intros [|i]; cbn [nth_opt nth_error]; auto. Qed.
Corollary iota_nth_opt k s d n i : (i < Z.to_nat n)%nat ->
  nth_opt (iota k s d n) i = Some (CI k (s + Z.of_nat i * d)).
Proof. rewrite nth_opt_nth_error. apply iota_nth. Qed.
Corollary rep_nth_opt {A} n (x : A) i : (i < Z.to_nat n)%nat -> nth_opt (rep n x) i = Some x.
Proof. rewrite nth_opt_nth_error. apply rep_nth. Qed.

Example rep_iota_example :
  rep 3 (CS []) = [CS []; CS []; CS []] /\ rep (-2) CNil = []
  /\ iota KInt64 5 (-2) 4 = [CI KInt64 5; CI KInt64 3; CI KInt64 1; CI KInt64 (-1)].
Proof. vm_compute. repeat split. Qed.

Print Assumptions rep_length.
Print Assumptions rep_nth.
Print Assumptions iota_length.
Print Assumptions iota_nth.

(* ================================================================== *)
(* 6. The identity aggregation of Resample                             *)
(* ================================================================== *)

Theorem resample_identity x : resample_fn 4 x = CS (show_cells x).
Proof. reflexivity. Qed.
(* (every id from 4 on, except 5, is the identity) *)
Theorem resample_identity_ge id x : (4 <= id)%nat -> id <> 5%nat -> resample_fn id x = CS (show_cells x).
Proof.
  intros H N. do 4 (destruct id as [|id]; [lia|]). destruct id as [|id]; [reflexivity|].
  destruct id as [|id]; [congruence|]. reflexivity.
Qed.
(* menu function 5 scribbles on its argument; its value is the argument's last cell *)
Theorem resample_scribbler x : resample_fn 5 x = last x CNil.
Proof. reflexivity. Qed.

(* ---------- dec_Z is injective ---------- *)
(* reading a decimal text back *)
Definition undec_step (a : Z) (c : N) : Z := 10 * a + (Z.of_N c - 48).
Definition undec (s : str) : Z := fold_left undec_step s 0.

Lemma dec_pos_fuel_undec fuel : forall n acc, 0 <= n < 2 ^ Z.of_nat fuel ->
  fold_left undec_step (dec_pos_fuel fuel n acc) 0 = fold_left undec_step acc n.
Proof.
  induction fuel as [|fuel IH]; intros n acc Hn.
  - cbn [dec_pos_fuel]. change (2 ^ Z.of_nat 0) with 1 in Hn. replace n with 0 by lia. reflexivity.
  - cbn [dec_pos_fuel]. cbv zeta.
    assert (M : 0 <= n mod 10 < 10) by (apply Z.mod_pos_bound; lia).
    assert (D : Z.of_N (48 + Z.to_N (n mod 10)) - 48 = n mod 10).
    { rewrite N2Z.inj_add, Z2N.id by lia. change (Z.of_N 48) with 48. lia. }
    destruct (n <? 10) eqn:E.
    + apply Z.ltb_lt in E. cbn [fold_left]. unfold undec_step at 2. rewrite D.
      rewrite Z.mod_small by lia. f_equal.
    + apply Z.ltb_ge in E. rewrite IH.
      * cbn [fold_left]. unfold undec_step at 2. rewrite D. f_equal.
        pose proof (Z.div_mod n 10). lia.
      * split; [apply Z.div_pos; lia|]. apply Z.div_lt_upper_bound; [lia|].
        rewrite Nat2Z.inj_succ, Z.pow_succ_r in Hn by lia. lia.
Qed.

Lemma log2_fuel_enough n : 0 <= n -> 0 <= n < 2 ^ Z.of_nat (S (Z.to_nat (Z.log2 n))).
Proof.
  intros Hn. split; [exact Hn|]. rewrite Nat2Z.inj_succ, Z2Nat.id by apply Z.log2_nonneg.
  destruct (Z.eq_dec n 0) as [->|N0]; [reflexivity|]. apply Z.log2_spec. lia.
Qed.

Lemma undec_dec_nonneg n : 0 <= n -> undec (dec_pos_fuel (S (Z.to_nat (Z.log2 n))) n []) = n.
Proof. intros Hn. unfold undec. rewrite dec_pos_fuel_undec by now apply log2_fuel_enough. reflexivity. Qed.

Lemma dec_Z_nonneg n : 0 <= n -> dec_Z n = dec_pos_fuel (S (Z.to_nat (Z.log2 n))) n [].
Proof. intros H. unfold dec_Z. apply Z.ltb_ge in H. now rewrite H. Qed.
Lemma dec_Z_neg n : n < 0 -> dec_Z n = 45%N :: dec_pos_fuel (S (Z.to_nat (Z.log2 (- n)))) (- n) [].
Proof. intros H. unfold dec_Z. apply Z.ltb_lt in H. now rewrite H. Qed.

Lemma dec_pos_fuel_no_minus fuel n : ~ In 45%N (dec_pos_fuel fuel n []).
Proof.
  intros H. apply Proof_C13.dec_pos_fuel_digits in H. destruct H as [[]|H]. lia.
Qed.

Theorem dec_Z_inj a b : dec_Z a = dec_Z b -> a = b.
Proof.
  intros H. destruct (Z_lt_ge_dec a 0) as [A|A], (Z_lt_ge_dec b 0) as [B|B].
  - rewrite (dec_Z_neg a A), (dec_Z_neg b B) in H. apply (f_equal (@tl N)) in H. cbn [tl] in H.
    apply (f_equal undec) in H. rewrite !undec_dec_nonneg in H by lia. lia.
  - rewrite (dec_Z_neg a A), dec_Z_nonneg in H by lia. exfalso.
    apply (dec_pos_fuel_no_minus (S (Z.to_nat (Z.log2 b))) b). rewrite <- H. now left.
  - rewrite dec_Z_nonneg, (dec_Z_neg b B) in H by lia. exfalso.
    apply (dec_pos_fuel_no_minus (S (Z.to_nat (Z.log2 a))) a). rewrite H. now left.
  - rewrite !dec_Z_nonneg in H by lia.
    apply (f_equal undec) in H. rewrite !undec_dec_nonneg in H by lia. exact H.
Qed.

Lemma dec_pos_fuel_nonempty fuel : forall n acc, dec_pos_fuel (S fuel) n acc <> [].
Proof.
  induction fuel as [|fuel IH]; intros n acc; cbn [dec_pos_fuel]; cbv zeta.
  - destruct (n <? 10); discriminate.
  - destruct (n <? 10); [discriminate|]. apply IH.
Qed.
Lemma dec_Z_nonempty z : dec_Z z <> [].
Proof. unfold dec_Z. destruct (z <? 0); [discriminate | apply dec_pos_fuel_nonempty]. Qed.
Lemma dec_Z_no_space z : ~ In 32%N (dec_Z z).
Proof. intros H. apply Proof_C13.dec_Z_bytes in H. destruct H as [H|H]; [discriminate H | lia]. Qed.

(* ---------- join_sp is injective on non-empty texts without a space ---------- *)
Definition word (s : str) : Prop := s <> [] /\ ~ In 32%N s.

Lemma split_at_first (c : N) : forall s s' r r', ~ In c s -> ~ In c s' ->
  s ++ c :: r = s' ++ c :: r' -> s = s' /\ r = r'.
Proof.
  induction s as [|x s IH]; intros [|y s'] r r' Hs Hs' E; cbn [app] in E.
  - injection E as E. now split.
  - injection E as E1 E2. exfalso. apply Hs'. now left.
  - injection E as E1 E2. exfalso. apply Hs. now left.
  - injection E as E1 E2. subst y. destruct (IH s' r r') as [-> ->]; auto.
    + intros H. apply Hs. now right.
    + intros H. apply Hs'. now right.
Qed.

Lemma join_sp_cons s t : join_sp (s :: t) = match t with [] => s | _ :: _ => s ++ 32%N :: join_sp t end.
Proof. destruct t; reflexivity. Qed.

Lemma join_sp_inj : forall l l', Forall word l -> Forall word l' -> join_sp l = join_sp l' -> l = l'.
Proof.
  induction l as [|s t IH]; intros [|s' t'] Hl Hl' E.
  - reflexivity.
  - exfalso. inversion Hl' as [|? ? [Hne _] _]; subst. rewrite join_sp_cons in E. cbn [join_sp] in E.
    destruct t'; [now apply Hne | destruct s'; [now apply Hne | discriminate E]].
  - exfalso. inversion Hl as [|? ? [Hne _] _]; subst. rewrite join_sp_cons in E. cbn [join_sp] in E.
    destruct t; [now apply Hne | destruct s; [now apply Hne | discriminate E]].
  - inversion Hl as [|? ? [Hne Hsp] Ht]; subst. inversion Hl' as [|? ? [Hne' Hsp'] Ht']; subst.
    rewrite !join_sp_cons in E. destruct t as [|u t], t' as [|u' t'].
    + now subst.
    + exfalso. apply Hsp. rewrite E. apply in_or_app. right. now left.
    + exfalso. apply Hsp'. rewrite <- E. apply in_or_app. right. now left.
    + destruct (split_at_first 32%N s s' _ _ Hsp Hsp' E) as [-> E']. f_equal. now apply IH.
Qed.

(* the printed bucket determines the integers in it (for one integer kind) *)
Theorem show_cells_inj_ints k zs zs' :
  show_cells (map (CI k) zs) = show_cells (map (CI k) zs') -> zs = zs'.
Proof.
  unfold show_cells. rewrite !map_map. cbn [render_plain app]. intros H. injection H as H.
  apply app_inv_tail in H. apply join_sp_inj in H.
  - revert zs' H. induction zs as [|z zs IH]; intros [|z' zs'] H; cbn [map] in H; try discriminate H; [reflexivity|].
    injection H as H1 H2. apply dec_Z_inj in H1. subst. f_equal. now apply IH.
  - apply Forall_forall. intros s Hs. apply in_map_iff in Hs. destruct Hs as [z [<- _]].
    split; [apply dec_Z_nonempty | apply dec_Z_no_space].
  - apply Forall_forall. intros s Hs. apply in_map_iff in Hs. destruct Hs as [z [<- _]].
    split; [apply dec_Z_nonempty | apply dec_Z_no_space].
Qed.
Corollary resample_identity_inj_ints k zs zs' :
  resample_fn 4 (map (CI k) zs) = resample_fn 4 (map (CI k) zs') -> map (CI k) zs = map (CI k) zs'.
Proof.
  rewrite !resample_identity. intros H.
  assert (H' : show_cells (map (CI k) zs) = show_cells (map (CI k) zs')) by congruence.
  apply show_cells_inj_ints in H'. now subst.
Qed.

(* NOTE: beyond integer cells of ONE kind the printed bucket does not determine the cells: the kind is
   not printed, text may contain spaces or look like a number, and the empty text prints as nothing. *)
Example show_cells_not_injective :
  show_cells [CI KInt 1] = show_cells [CI KInt64 1]
  /\ show_cells [CI KInt 1] = show_cells [CS (vs [49]%N)]
  /\ show_cells [CS (vs [97; 32; 98]%N)] = show_cells [CS (vs [97]%N); CS (vs [98]%N)]
  /\ show_cells [CS []] = show_cells []
  /\ show_cells [CNil] = show_cells [CS s_nil]
  /\ show_cells [CF KF64 (FFin 0)] = show_cells [CT []].
Proof. vm_compute. repeat split. Qed.
Example show_cells_example :
  show_cells [CI KInt 10; CI KInt (-7); CI KInt 0] = vs [91; 49; 48; 32; 45; 55; 32; 48; 93]%N.   (* "[10 -7 0]" *)
Proof. vm_compute. reflexivity. Qed.

Print Assumptions resample_identity.
Print Assumptions dec_Z_inj.
Print Assumptions show_cells_inj_ints.
