(* Proof_C18.v - Resample: truncation of a civil time to a frequency is idempotent and never
   later than the time; the tuple order is a strict total order on tuples of one length; the
   bucket list is strictly ascending, duplicate free, holds exactly the truncated times and does
   not depend on the order of the rows; shape and cells of the result; error behaviour. *)
From GF Require Import Ops Lemmas.
From Coq Require Import List ZArith Bool Lia Arith Permutation Sorted.
Import ListNotations.
Arguments N.eqb : simpl never.

(* ================================================================== *)
(* 1. trunc_time                                                       *)
(* ================================================================== *)

Lemma trunc_time_spec fq y mo d h mi s ns off :
  trunc_time [y; mo; d; h; mi; s; ns; off] fq =
  if N.eqb fq 89 then [y; 1; 1; 0; 0; 0; 0; off]
  else if N.eqb fq 77 then [y; mo; 1; 0; 0; 0; 0; off]
  else if N.eqb fq 68 then [y; mo; d; 0; 0; 0; 0; off]
  else if N.eqb fq 72 then [y; mo; d; h; 0; 0; 0; off]
  else if N.eqb fq 84 then [y; mo; d; h; mi; 0; 0; off]
  else [y; mo; d; h; mi; s; 0; off].
Proof.
  destruct fq as [|p]; [reflexivity|].
  do 7 (try destruct p as [p|p|]); reflexivity.
Qed.

Lemma trunc_time_cases fq y mo d h mi s ns off :
  (fq = 89%N /\ trunc_time [y; mo; d; h; mi; s; ns; off] fq = [y; 1; 1; 0; 0; 0; 0; off]) \/
  (fq = 77%N /\ trunc_time [y; mo; d; h; mi; s; ns; off] fq = [y; mo; 1; 0; 0; 0; 0; off]) \/
  (fq = 68%N /\ trunc_time [y; mo; d; h; mi; s; ns; off] fq = [y; mo; d; 0; 0; 0; 0; off]) \/
  (fq = 72%N /\ trunc_time [y; mo; d; h; mi; s; ns; off] fq = [y; mo; d; h; 0; 0; 0; off]) \/
  (fq = 84%N /\ trunc_time [y; mo; d; h; mi; s; ns; off] fq = [y; mo; d; h; mi; 0; 0; off]) \/
  (fq <> 89%N /\ fq <> 77%N /\ fq <> 68%N /\ fq <> 72%N /\ fq <> 84%N /\
   trunc_time [y; mo; d; h; mi; s; ns; off] fq = [y; mo; d; h; mi; s; 0; off]).
Proof.
  rewrite trunc_time_spec.
  destruct (N.eqb_spec fq 89) as [E1|E1]; [left; now split|right].
  destruct (N.eqb_spec fq 77) as [E2|E2]; [left; now split|right].
  destruct (N.eqb_spec fq 68) as [E3|E3]; [left; now split|right].
  destruct (N.eqb_spec fq 72) as [E4|E4]; [left; now split|right].
  destruct (N.eqb_spec fq 84) as [E5|E5]; [left; now split|right].
  repeat split; assumption.
Qed.

(* a tuple that does not have exactly 8 fields is left alone *)
Lemma trunc_time_not8 t fq : length t <> 8%nat -> trunc_time t fq = t.
Proof.
  intros H.
  destruct t as [|y [|mo [|d [|h [|mi [|s [|ns [|off [|x t]]]]]]]]]; try reflexivity.
  now contradiction H.
Qed.

Lemma trunc_time_length t fq : length (trunc_time t fq) = length t.
Proof.
  destruct t as [|y [|mo [|d [|h [|mi [|s [|ns [|off [|x t]]]]]]]]]; try reflexivity.
  rewrite trunc_time_spec.
  repeat match goal with |- context [N.eqb fq ?c] => destruct (N.eqb fq c) end; reflexivity.
Qed.

(* holds for every tuple and every code (the default branch is S) *)
Theorem trunc_idempotent t fq : trunc_time (trunc_time t fq) fq = trunc_time t fq.
Proof.
  destruct t as [|y [|mo [|d [|h [|mi [|s [|ns [|off [|x t]]]]]]]]]; try reflexivity.
  rewrite (trunc_time_spec fq y mo d h mi s ns off).
  destruct (N.eqb fq 89) eqn:E1; [now rewrite trunc_time_spec, E1|].
  destruct (N.eqb fq 77) eqn:E2; [now rewrite trunc_time_spec, E1, E2|].
  destruct (N.eqb fq 68) eqn:E3; [now rewrite trunc_time_spec, E1, E2, E3|].
  destruct (N.eqb fq 72) eqn:E4; [now rewrite trunc_time_spec, E1, E2, E3, E4|].
  destruct (N.eqb fq 84) eqn:E5; [now rewrite trunc_time_spec, E1, E2, E3, E4, E5|].
  now rewrite trunc_time_spec, E1, E2, E3, E4, E5.
Qed.

(* the zone offset and the year are never touched *)
Lemma trunc_time_year_off fq y mo d h mi s ns off :
  exists mo' d' h' mi' s' ns', trunc_time [y; mo; d; h; mi; s; ns; off] fq = [y; mo'; d'; h'; mi'; s'; ns'; off].
Proof.
  rewrite trunc_time_spec.
  repeat match goal with |- context [N.eqb fq ?c] => destruct (N.eqb fq c) end; repeat eexists.
Qed.

Definition zlist_le (a b : list Z) : Prop := zlist_ltb a b = true \/ a = b.

Lemma zlist_le_refl a : zlist_le a a.
Proof. now right. Qed.

Lemma zlist_le_cons x y a b : x <= y -> (x = y -> zlist_le a b) -> zlist_le (x :: a) (y :: b).
Proof.
  intros Hxy H. unfold zlist_le. cbn [zlist_ltb].
  destruct (Z.ltb_spec x y) as [L|L]; [now left|].
  assert (E : x = y) by lia. subst y.
  rewrite Z.ltb_irrefl. destruct (H eq_refl) as [H1|H1]; [now left | right; now f_equal].
Qed.

(* the civil-range condition as a decidable predicate on a tuple *)
Definition civil_ok (t : list Z) : bool :=
  match t with
  | [y; mo; d; h; mi; s; ns; off] => (1 <=? mo) && (1 <=? d) && (0 <=? h) && (0 <=? mi) && (0 <=? s) && (0 <=? ns)
  | _ => true
  end.

Lemma trunc_le8 fq y mo d h mi s ns off :
  1 <= mo -> 1 <= d -> 0 <= h -> 0 <= mi -> 0 <= s -> 0 <= ns ->
  zlist_le (trunc_time [y; mo; d; h; mi; s; ns; off] fq) [y; mo; d; h; mi; s; ns; off].
Proof.
  intros Hmo Hd Hh Hmi Hs Hns. rewrite trunc_time_spec.
  repeat match goal with |- context [N.eqb fq ?c] => destruct (N.eqb fq c) end;
    repeat (apply zlist_le_cons; [lia | intros _]); apply zlist_le_refl.
Qed.

Theorem trunc_le t fq : civil_ok t = true ->
  zlist_ltb (trunc_time t fq) t = true \/ trunc_time t fq = t.
Proof.
  intros H.
  destruct t as [|y [|mo [|d [|h [|mi [|s [|ns [|off [|x t]]]]]]]]]; try (now right).
  cbn [civil_ok] in H.
  repeat (apply andb_prop in H; let H' := fresh "H" in destruct H as [H H']).
  apply trunc_le8; apply Z.leb_le; assumption.
Qed.

Example trunc_ex :
  trunc_time [2024; 3; 15; 10; 30; 12; 999; 3600] 68 = [2024; 3; 15; 0; 0; 0; 0; 3600]
  /\ trunc_time [2024; 3; 15; 10; 30; 12; 999; 3600] 77 = [2024; 3; 1; 0; 0; 0; 0; 3600]
  /\ civil_ok [2024; 3; 15; 10; 30; 12; 999; 3600] = true
  /\ zlist_ltb (trunc_time [2024; 3; 15; 10; 30; 12; 999; 3600] 72) [2024; 3; 15; 10; 30; 12; 999; 3600] = true
  /\ trunc_time [2024; 3; 15; 10; 30; 12; 999; 3600] 200 = [2024; 3; 15; 10; 30; 12; 0; 3600].
Proof. vm_compute. repeat split. Qed.
(* without the range condition the truncated tuple can be later: month 0 is "raised" to 1 *)
Example trunc_le_needs_range :
  zlist_ltb [2024; 0; 15; 0; 0; 0; 0; 0] (trunc_time [2024; 0; 15; 0; 0; 0; 0; 0] 89) = true.
Proof. vm_compute. reflexivity. Qed.

(* ================================================================== *)
(* 2. zlist_ltb is a strict order, total on tuples of one length       *)
(* ================================================================== *)

Lemma zlist_eqb_eq a b : zlist_eqb a b = true <-> a = b.
Proof.
  revert b; induction a as [|x a IH]; intros [|y b]; cbn [zlist_eqb]; split; intro H; try discriminate; auto.
  - apply andb_prop in H. destruct H as [H1 H2]. apply Z.eqb_eq in H1. apply IH in H2. now subst.
  - inversion H; subst. rewrite Z.eqb_refl. now apply IH.
Qed.

Lemma zlist_eqb_refl a : zlist_eqb a a = true.
Proof. now apply zlist_eqb_eq. Qed.

Lemma zlist_eqb_neq a b : zlist_eqb a b = false <-> a <> b.
Proof.
  split; intro H.
  - intro E. subst. now rewrite zlist_eqb_refl in H.
  - destruct (zlist_eqb a b) eqn:E; auto. apply zlist_eqb_eq in E. contradiction.
Qed.

Lemma zlist_ltb_irrefl a : zlist_ltb a a = false.
Proof. induction a as [|x a IH]; cbn [zlist_ltb]; auto. now rewrite Z.ltb_irrefl. Qed.

Lemma zlist_ltb_trans a b c : zlist_ltb a b = true -> zlist_ltb b c = true -> zlist_ltb a c = true.
Proof.
  revert b c; induction a as [|x a IH]; intros [|y b] [|z c]; cbn [zlist_ltb]; intros H1 H2; try discriminate.
  destruct (Z.ltb_spec x y), (Z.ltb_spec y x), (Z.ltb_spec y z), (Z.ltb_spec z y),
           (Z.ltb_spec x z), (Z.ltb_spec z x); try discriminate; try lia; auto.
  eapply IH; eauto.
Qed.

Lemma zlist_ltb_asym a b : zlist_ltb a b = true -> zlist_ltb b a = false.
Proof.
  intros H. destruct (zlist_ltb b a) eqn:E; auto.
  pose proof (zlist_ltb_trans _ _ _ H E) as H'. now rewrite zlist_ltb_irrefl in H'.
Qed.

Lemma zlist_ltb_neq a b : zlist_ltb a b = true -> zlist_eqb a b = false.
Proof.
  intros H. apply zlist_eqb_neq. intros E. subst. now rewrite zlist_ltb_irrefl in H.
Qed.

Lemma zlist_trichotomy a b : length a = length b ->
  zlist_ltb a b = true \/ zlist_eqb a b = true \/ zlist_ltb b a = true.
Proof.
  revert b; induction a as [|x a IH]; intros [|y b] H; cbn [length] in H; try discriminate.
  - right; left; reflexivity.
  - cbn [zlist_ltb zlist_eqb].
    destruct (Z.ltb_spec x y) as [L1|L1]; [now left|].
    destruct (Z.ltb_spec y x) as [L2|L2]; [right; now right|].
    assert (E : x = y) by lia. subst y. rewrite Z.eqb_refl. cbn [andb].
    apply IH. now inversion H.
Qed.

(* exactly one of the three holds *)
Lemma zlist_trichotomy_excl a b :
  (zlist_ltb a b = true -> zlist_eqb a b = false /\ zlist_ltb b a = false) /\
  (zlist_eqb a b = true -> zlist_ltb a b = false /\ zlist_ltb b a = false) /\
  (zlist_ltb b a = true -> zlist_ltb a b = false /\ zlist_eqb a b = false).
Proof.
  split; [|split]; intros H.
  - split; [now apply zlist_ltb_neq | now apply zlist_ltb_asym].
  - apply zlist_eqb_eq in H. subst. now rewrite zlist_ltb_irrefl.
  - split; [now apply zlist_ltb_asym|]. apply zlist_eqb_neq. intros E. subst. now rewrite zlist_ltb_irrefl in H.
Qed.

(* tuples of different lengths can be incomparable *)
Example zlist_incomparable :
  zlist_ltb [1] [1; 2] = false /\ zlist_eqb [1] [1; 2] = false /\ zlist_ltb [1; 2] [1] = false.
Proof. vm_compute. repeat split. Qed.

Definition tlt (a b : list Z) : Prop := zlist_ltb a b = true.
Definition all_len (n : nat) (l : list (list Z)) : Prop := Forall (fun x => length x = n) l.

Theorem insert_time_in b l x : In x (insert_time b l) <-> x = b \/ In x l.
Proof.
  induction l as [|y t IH]; cbn [insert_time].
  - cbn [In]. split; [intros [H|[]]; now left | intros [H|[]]; now left].
  - destruct (zlist_eqb b y) eqn:E1.
    + apply zlist_eqb_eq in E1. subst y. split; [now right|]. intros [H|H]; [subst; now left | exact H].
    + destruct (zlist_ltb b y) eqn:E2.
      * cbn [In]. split; [intros [H|H]; [now left | now right] | intros [H|H]; [now left | now right]].
      * cbn [In]. rewrite IH. split.
        -- intros [H|[H|H]]; auto.
        -- intros [H|[H|H]]; auto.
Qed.

Lemma insert_time_all_len n b l : length b = n -> all_len n l -> all_len n (insert_time b l).
Proof.
  unfold all_len. intros Hb Hl. rewrite Forall_forall in *. intros x Hx.
  apply insert_time_in in Hx. destruct Hx as [Hx|Hx]; [now subst | now apply Hl].
Qed.

Theorem insert_time_sorted n b l : length b = n -> all_len n l ->
  StronglySorted tlt l -> StronglySorted tlt (insert_time b l).
Proof.
  intros Hb. induction l as [|x t IH]; intros Hl Hs; cbn [insert_time].
  - constructor; constructor.
  - destruct (zlist_eqb b x) eqn:E1; [exact Hs|].
    inversion Hs as [|x' t' Hs' Hx]; subst x' t'.
    inversion Hl as [|x' t' Hlx Hlt]; subst x' t'.
    destruct (zlist_ltb b x) eqn:E2.
    + constructor; [exact Hs|]. constructor; [exact E2|].
      eapply Forall_impl; [|exact Hx]. intros y Hy. unfold tlt in *. eapply zlist_ltb_trans; eauto.
    + constructor; [now apply IH|].
      rewrite Forall_forall. intros y Hy. apply insert_time_in in Hy. destruct Hy as [Hy|Hy].
      * subst y. assert (Hlen : length b = length x) by congruence.
        destruct (zlist_trichotomy b x Hlen) as [H|[H|H]]; [congruence | congruence | exact H].
      * rewrite Forall_forall in Hx. now apply Hx.
Qed.

Example insert_time_ex :
  insert_time [2024; 2] [[2024; 1]; [2024; 3]] = [[2024; 1]; [2024; 2]; [2024; 3]]
  /\ insert_time [2024; 3] [[2024; 1]; [2024; 3]] = [[2024; 1]; [2024; 3]].
Proof. vm_compute. split; reflexivity. Qed.

(* ================================================================== *)
(* 3. the bucket list                                                  *)
(* ================================================================== *)

Definition buckets_of (bs : list (list Z)) : list (list Z) :=
  fold_left (fun acc b => insert_time b acc) bs [].

Lemma fold_insert_in bs : forall acc x,
  In x (fold_left (fun acc b => insert_time b acc) bs acc) <-> In x bs \/ In x acc.
Proof.
  induction bs as [|b bs IH]; intros acc x; cbn [fold_left In].
  - split; [now right | intros [[]|H]; exact H].
  - rewrite IH, insert_time_in. split.
    + intros [H|[H|H]]; auto.
    + intros [[H|H]|H]; auto.
Qed.

Lemma fold_insert_sorted n bs : forall acc, all_len n bs -> all_len n acc -> StronglySorted tlt acc ->
  StronglySorted tlt (fold_left (fun acc b => insert_time b acc) bs acc)
  /\ all_len n (fold_left (fun acc b => insert_time b acc) bs acc).
Proof.
  induction bs as [|b bs IH]; intros acc Hbs Hacc Hs; cbn [fold_left].
  - now split.
  - inversion Hbs as [|b' bs' Hb Hbs']; subst b' bs'.
    apply IH; [exact Hbs' | now apply insert_time_all_len | now apply insert_time_sorted with (n := n)].
Qed.

Theorem buckets_in bs x : In x (buckets_of bs) <-> In x bs.
Proof.
  unfold buckets_of. rewrite fold_insert_in. cbn [In]. split; [intros [H|[]]; exact H | now left].
Qed.

Theorem buckets_sorted n bs : all_len n bs -> StronglySorted tlt (buckets_of bs).
Proof.
  intros H. apply (fold_insert_sorted n bs []); [exact H | constructor | constructor].
Qed.

Lemma buckets_all_len n bs : all_len n bs -> all_len n (buckets_of bs).
Proof.
  intros H. apply (fold_insert_sorted n bs []); [exact H | constructor | constructor].
Qed.

(* a list that ascends strictly for an irreflexive relation has no repetition *)
Lemma sorted_nodup {A} (R : A -> A -> Prop) (Hirr : forall a, ~ R a a) l :
  StronglySorted R l -> NoDup l.
Proof.
  induction l as [|a l IH]; intros Hs; [constructor|].
  inversion Hs as [|a' l' Hs' Ha]; subst a' l'. constructor; [|now apply IH].
  intros Hin. rewrite Forall_forall in Ha. exact (Hirr a (Ha a Hin)).
Qed.

(* two strictly ascending lists with the same members are the same list *)
Lemma sorted_unique {A} (R : A -> A -> Prop)
  (Hirr : forall a, ~ R a a) (Htr : forall a b c, R a b -> R b c -> R a c) :
  forall l1 l2, StronglySorted R l1 -> StronglySorted R l2 ->
  (forall x, In x l1 <-> In x l2) -> l1 = l2.
Proof.
  induction l1 as [|a l1 IH]; intros [|b l2] H1 H2 Hm.
  - reflexivity.
  - exfalso. apply (proj2 (Hm b)). now left.
  - exfalso. apply (proj1 (Hm a)). now left.
  - inversion H1 as [|a' l1' Hs1 Ha]; subst a' l1'.
    inversion H2 as [|b' l2' Hs2 Hb]; subst b' l2'.
    rewrite Forall_forall in Ha, Hb.
    assert (E : a = b).
    { destruct (proj1 (Hm a) (or_introl eq_refl)) as [E|Hin]; [now symmetry|].
      destruct (proj2 (Hm b) (or_introl eq_refl)) as [E|Hin']; [exact E|].
      exfalso. apply (Hirr a). eapply Htr; [apply Ha; exact Hin' | apply Hb; exact Hin]. }
    subst b. f_equal. apply IH; [exact Hs1 | exact Hs2|].
    intros x. split; intros Hx.
    + destruct (proj1 (Hm x) (or_intror Hx)) as [E|Hin]; [|exact Hin].
      subst x. exfalso. exact (Hirr a (Ha a Hx)).
    + destruct (proj2 (Hm x) (or_intror Hx)) as [E|Hin]; [|exact Hin].
      subst x. exfalso. exact (Hirr a (Hb a Hx)).
Qed.

Lemma tlt_irrefl a : ~ tlt a a.
Proof. unfold tlt. rewrite zlist_ltb_irrefl. discriminate. Qed.
Lemma tlt_trans a b c : tlt a b -> tlt b c -> tlt a c.
Proof. apply zlist_ltb_trans. Qed.

Lemma all_len_perm n l l' : Permutation l l' -> all_len n l -> all_len n l'.
Proof.
  unfold all_len. intros P H. rewrite Forall_forall in *. intros x Hx.
  apply H. eapply Permutation_in; [apply Permutation_sym; exact P | exact Hx].
Qed.

(* the bucket list does not depend on the order in which the rows are met *)
Theorem buckets_perm n bs bs' : all_len n bs -> Permutation bs bs' -> buckets_of bs = buckets_of bs'.
Proof.
  intros H P.
  apply (sorted_unique tlt tlt_irrefl tlt_trans).
  - now apply buckets_sorted with (n := n).
  - apply buckets_sorted with (n := n). now apply all_len_perm with (l := bs).
  - intros x. rewrite !buckets_in. split; intros Hx.
    + eapply Permutation_in; eauto.
    + eapply Permutation_in; [apply Permutation_sym|]; eauto.
Qed.

(* more generally: the bucket list is a function of the SET of truncated times *)
Theorem buckets_same_set n bs bs' : all_len n bs -> all_len n bs' ->
  (forall x, In x bs <-> In x bs') -> buckets_of bs = buckets_of bs'.
Proof.
  intros H H' Hm.
  apply (sorted_unique tlt tlt_irrefl tlt_trans).
  - now apply buckets_sorted with (n := n).
  - now apply buckets_sorted with (n := n).
  - intros x. rewrite !buckets_in. apply Hm.
Qed.

Theorem buckets_sorted_distinct n bs : all_len n bs ->
  StronglySorted (fun a b => zlist_ltb a b = true) (buckets_of bs)
  /\ NoDup (buckets_of bs)
  /\ (forall x, In x (buckets_of bs) <-> In x bs)
  /\ (forall bs', Permutation bs bs' -> buckets_of bs = buckets_of bs').
Proof.
  intros H. split; [|split; [|split]].
  - now apply buckets_sorted with (n := n).
  - apply (sorted_nodup tlt tlt_irrefl). now apply buckets_sorted with (n := n).
  - intros x. apply buckets_in.
  - intros bs' P. now apply buckets_perm with (n := n).
Qed.

Example buckets_ex :
  buckets_of [[2024; 2; 3]; [2024; 1; 15]; [2024; 2; 3]; [2023; 12; 31]] = [[2023; 12; 31]; [2024; 1; 15]; [2024; 2; 3]]
  /\ buckets_of [[2023; 12; 31]; [2024; 2; 3]; [2024; 2; 3]; [2024; 1; 15]] = [[2023; 12; 31]; [2024; 1; 15]; [2024; 2; 3]].
Proof. vm_compute. split; reflexivity. Qed.
(* with tuples of different lengths the result is neither ascending nor order independent *)
Example buckets_needs_len :
  buckets_of [[1; 2]; [1]] = [[1; 2]; [1]] /\ buckets_of [[1]; [1; 2]] = [[1]; [1; 2]].
Proof. vm_compute. split; reflexivity. Qed.

(* ================================================================== *)
(* 4. finite maps, all_some, rows                                      *)
(* ================================================================== *)

Lemma all_some_none {A} (l : list (option A)) : all_some l = None <-> In None l.
Proof.
  induction l as [|[x|] t IH]; cbn [all_some In].
  - split; [discriminate | intros []].
  - destruct (all_some t) as [r|] eqn:E.
    + split; [discriminate|]. intros [H|H]; [discriminate|]. apply IH in H. discriminate.
    + split; [intros _; right; now apply IH | reflexivity].
  - split; [intros _; now left | reflexivity].
Qed.

Lemma all_some_some {A} (l : list (option A)) r : all_some l = Some r -> l = map Some r.
Proof.
  revert r; induction l as [|[x|] t IH]; intros r H; cbn [all_some] in H.
  - inversion H. reflexivity.
  - destruct (all_some t) as [r'|] eqn:E; [|discriminate]. inversion H; subst r.
    cbn [map]. f_equal. now apply IH.
  - discriminate.
Qed.

Lemma all_some_map_Some {A} (r : list A) : all_some (map Some r) = Some r.
Proof. induction r as [|x r IH]; cbn [map all_some]; [reflexivity | now rewrite IH]. Qed.

Lemma all_some_length {A} (l : list (option A)) r : all_some l = Some r -> length r = length l.
Proof. intros H. apply all_some_some in H. subst l. now rewrite map_length. Qed.

Lemma str_compare_gt_neq k k' : str_compare k k' = Gt -> str_eqb k k' = false.
Proof.
  intros H. apply str_eqb_neq. intros E. apply str_compare_eq in E. congruence.
Qed.
Lemma str_compare_lt_ltb k k' : str_compare k k' = Lt -> str_ltb k k' = true.
Proof. intros H. unfold str_ltb. now rewrite H. Qed.
Lemma str_compare_gt_ltb k k' : str_compare k k' = Gt -> str_ltb k' k = true.
Proof. intros H. unfold str_ltb. rewrite (str_compare_antisym k k'). now rewrite H. Qed.
Lemma sorted_cons2 a b t : sorted_keys (a :: b :: t) = str_ltb a b && sorted_keys (b :: t).
Proof. reflexivity. Qed.

Section FMap.
Context {A : Type}.
Implicit Types (f : list (str * A)) (k : str) (c : A).

Lemma fkeys_cons k c f : fkeys ((k, c) :: f) = k :: fkeys f.
Proof. reflexivity. Qed.

Lemma fget_fset_same f k c : fget (fset f k c) k = Some c.
Proof.
  induction f as [|[k' c'] t IH]; cbn [fset fget].
  - now rewrite str_eqb_refl.
  - destruct (str_compare k k') eqn:E; cbn [fget].
    + now rewrite str_eqb_refl.
    + now rewrite str_eqb_refl.
    + rewrite (str_compare_gt_neq _ _ E). exact IH.
Qed.

Lemma fget_fset_other f k k' c : k <> k' -> fget (fset f k c) k' = fget f k'.
Proof.
  intros N. assert (H : str_eqb k' k = false) by (apply str_eqb_neq; congruence).
  induction f as [|[k0 c0] t IH]; cbn [fset fget].
  - now rewrite H.
  - destruct (str_compare k k0) eqn:E; cbn [fget].
    + apply str_compare_eq in E. subst k0. now rewrite H.
    + now rewrite H.
    + now rewrite IH.
Qed.

Lemma fset_sorted_aux k c : forall f lo,
  sorted_keys (lo :: fkeys f) = true -> str_ltb lo k = true ->
  sorted_keys (lo :: fkeys (fset f k c)) = true.
Proof.
  induction f as [|[k0 c0] t IH]; intros lo Hs Hlo; cbn [fset].
  - rewrite fkeys_cons, sorted_cons2, Hlo. reflexivity.
  - rewrite fkeys_cons, sorted_cons2 in Hs. apply andb_prop in Hs. destruct Hs as [H1 H2].
    destruct (str_compare k k0) eqn:E.
    + apply str_compare_eq in E. subst k0. rewrite fkeys_cons, sorted_cons2, H1. exact H2.
    + rewrite !fkeys_cons, !sorted_cons2, Hlo, (str_compare_lt_ltb _ _ E). exact H2.
    + rewrite fkeys_cons, sorted_cons2, H1. cbn [andb].
      apply IH; [exact H2 | now apply str_compare_gt_ltb].
Qed.

Lemma fset_sorted f k c :
  sorted_keys (fkeys f) = true -> sorted_keys (fkeys (fset f k c)) = true.
Proof.
  destruct f as [|[k0 c0] t]; intros Hs; cbn [fset]; [reflexivity|].
  rewrite fkeys_cons in Hs.
  destruct (str_compare k k0) eqn:E.
  - apply str_compare_eq in E. subst k0. now rewrite fkeys_cons.
  - rewrite !fkeys_cons, sorted_cons2, (str_compare_lt_ltb _ _ E). exact Hs.
  - rewrite fkeys_cons. apply fset_sorted_aux; [exact Hs | now apply str_compare_gt_ltb].
Qed.

Lemma In_fset f k c kc : In kc (fset f k c) -> kc = (k, c) \/ In kc f.
Proof.
  induction f as [|[k0 c0] t IH]; cbn [fset]; intros H.
  - destruct H as [H|[]]. now left.
  - destruct (str_compare k k0).
    + destruct H as [H|H]; [now left | right; now right].
    + destruct H as [H|H]; [now left | now right].
    + destruct H as [H|H]; [right; now left|].
      destruct (IH H) as [H'|H']; [now left | right; now right].
Qed.

Lemma fkeys_fset_in f k c x : In x (fkeys (fset f k c)) <-> x = k \/ In x (fkeys f).
Proof.
  induction f as [|[k0 c0] t IH]; cbn [fset].
  - cbn. split; [intros [H|[]]; now left | intros [H|[]]; now left].
  - destruct (str_compare k k0) eqn:E.
    + apply str_compare_eq in E. subst k0. rewrite !fkeys_cons. cbn [In].
      split; [intros [H|H]; [now left | right; now right] | intros [H|[H|H]]; [now left | now left | now right]].
    + rewrite !fkeys_cons. cbn [In].
      split; [intros [H|H]; [now left | now right] | intros [H|H]; [now left | now right]].
    + rewrite !fkeys_cons. cbn [In]. rewrite IH.
      split; [intros [H|[H|H]]; auto | intros [H|[H|H]]; auto].
Qed.

Lemma fget_some_in f k c : fget f k = Some c -> In k (fkeys f).
Proof.
  induction f as [|[k0 c0] t IH]; cbn [fget]; [discriminate|].
  rewrite fkeys_cons. destruct (str_eqb k k0) eqn:E; intros H.
  - apply str_eqb_eq in E. now left.
  - right. now apply IH.
Qed.

Lemma fget_in_some f k : In k (fkeys f) -> exists c, fget f k = Some c.
Proof.
  induction f as [|[k0 c0] t IH]; cbn [fget]; [intros []|].
  rewrite fkeys_cons. intros H. destruct (str_eqb k k0) eqn:E; [now eexists|].
  destruct H as [H|H]; [subst; now rewrite str_eqb_refl in E | now apply IH].
Qed.

(* a fold of fset: the last write wins, and all writes of one key carry the same value *)
Lemma fold_fset_fget (F : str -> A) ks : forall f k,
  fget (fold_left (fun acc k => fset acc k (F k)) ks f) k =
  if existsb (str_eqb k) ks then Some (F k) else fget f k.
Proof.
  induction ks as [|k0 ks IH]; intros f k; cbn [fold_left existsb]; [reflexivity|].
  rewrite IH. destruct (str_eqb k k0) eqn:E; cbn [orb].
  - apply str_eqb_eq in E. subst k0. rewrite fget_fset_same. now destruct (existsb (str_eqb k) ks).
  - apply str_eqb_neq in E. rewrite fget_fset_other by congruence. reflexivity.
Qed.

Lemma fold_fset_keys (F : str -> A) ks : forall f x,
  In x (fkeys (fold_left (fun acc k => fset acc k (F k)) ks f)) <-> In x ks \/ In x (fkeys f).
Proof.
  induction ks as [|k0 ks IH]; intros f x; cbn [fold_left In].
  - split; [now right | intros [[]|H]; exact H].
  - rewrite IH, fkeys_fset_in. split.
    + intros [H|[H|H]]; auto.
    + intros [[H|H]|H]; auto.
Qed.

Lemma fold_fset_sorted (F : str -> A) ks : forall f,
  sorted_keys (fkeys f) = true ->
  sorted_keys (fkeys (fold_left (fun acc k => fset acc k (F k)) ks f)) = true.
Proof.
  induction ks as [|k0 ks IH]; intros f H; cbn [fold_left]; [exact H|].
  apply IH. now apply fset_sorted.
Qed.

Lemma fold_fset_In (F : str -> A) ks : forall f kc,
  In kc (fold_left (fun acc k => fset acc k (F k)) ks f) -> (exists k, kc = (k, F k)) \/ In kc f.
Proof.
  induction ks as [|k0 ks IH]; intros f kc H; cbn [fold_left] in H; [now right|].
  destruct (IH _ _ H) as [H'|H']; [now left|].
  apply In_fset in H'. destruct H' as [H'|H']; [left; now exists k0 | now right].
Qed.

End FMap.

Lemma existsb_str_in k ks : existsb (str_eqb k) ks = true <-> In k ks.
Proof.
  rewrite existsb_exists. split.
  - intros [x [Hx E]]. apply str_eqb_eq in E. now subst.
  - intros H. exists k. split; [exact H | apply str_eqb_refl].
Qed.

(* rows: the cells of a row map are the cells of the frame at that position *)
Lemma all_some_frow_fget i : forall (f : frame) r k c,
  all_some (map (fun kc => option_map (pair (fst kc)) (nth_opt (cdata (snd kc)) i)) f) = Some r ->
  fget f k = Some c -> exists v, nth_opt (cdata c) i = Some v /\ fget r k = Some v.
Proof.
  induction f as [|[k0 c0] t IH]; intros r k c H G; cbn [map all_some fst snd] in H; cbn [fget] in G.
  - discriminate.
  - destruct (nth_opt (cdata c0) i) as [v|] eqn:E; cbn [option_map] in H; [|discriminate].
    destruct (all_some _) as [r'|] eqn:E2; [|discriminate].
    inversion H; subst r. cbn [fget]. destruct (str_eqb k k0).
    + inversion G; subst c0. exists v. now split.
    + eapply IH; eauto.
Qed.

Lemma frow_cell f i r k c : frow f i = Some r -> fget f k = Some c ->
  nth_opt (cdata c) i = Some (rget r k).
Proof.
  unfold frow. destruct (Nat.ltb i (nrows f)); [|discriminate]. intros H G.
  destruct (all_some_frow_fget i f r k c H G) as [v [H1 H2]].
  unfold rget. now rewrite H2.
Qed.

Lemma map_eq_nth_opt {A B C} (g : A -> C) (h : B -> C) : forall l1 l2,
  map g l1 = map h l2 -> forall i b, nth_opt l2 i = Some b ->
  exists a, nth_opt l1 i = Some a /\ g a = h b.
Proof.
  induction l1 as [|a l1 IH]; intros [|b0 l2] E i b H; cbn [map] in E; try discriminate.
  inversion E as [[E1 E2]]. destruct i as [|i]; cbn [nth_opt] in *.
  - inversion H; subst b0. now exists a.
  - now apply (IH l2 E2).
Qed.

Lemma nth_opt_seq s n i a : nth_opt (seq s n) i = Some a -> a = (s + i)%nat.
Proof.
  revert s i; induction n as [|n IH]; intros s i H; cbn [seq] in H.
  - destruct i; cbn [nth_opt] in H; discriminate.
  - destruct i as [|i]; cbn [nth_opt] in H.
    + inversion H. lia.
    + apply IH in H. lia.
Qed.

Definition all_rows (f : frame) : option (list rowmap) := all_some (map (frow f) (seq 0 (nrows f))).

Lemma all_rows_length f rs : all_rows f = Some rs -> length rs = nrows f.
Proof. intros H. apply all_some_length in H. now rewrite map_length, seq_length in H. Qed.

Lemma all_rows_nth f rs i r : all_rows f = Some rs -> nth_opt rs i = Some r -> frow f i = Some r.
Proof.
  intros H Hi. apply all_some_some in H.
  destruct (map_eq_nth_opt _ _ _ _ H i r Hi) as [a [Ha E]].
  apply nth_opt_seq in Ha. now subst a.
Qed.

(* row i of the list the operation works on holds cell i of every column *)
Theorem all_rows_cell f rs i r k c : all_rows f = Some rs -> nth_opt rs i = Some r ->
  fget f k = Some c -> nth_opt (cdata c) i = Some (rget r k).
Proof. intros H Hi G. eapply frow_cell; [eapply all_rows_nth; eauto | exact G]. Qed.

Lemma all_rows_rect f : rect f = true -> exists rs, all_rows f = Some rs.
Proof.
  intros Hr. unfold all_rows.
  destruct (all_some (map (frow f) (seq 0 (nrows f)))) as [rs|] eqn:E; [now eexists|].
  exfalso. apply all_some_none in E. apply in_map_iff in E. destruct E as [i [E Hi]].
  apply in_seq in Hi. unfold frow in E.
  assert (L : Nat.ltb i (nrows f) = true) by (apply Nat.ltb_lt; lia). rewrite L in E.
  apply all_some_none in E. apply in_map_iff in E. destruct E as [[k c] [E Hin]].
  unfold rect in Hr. rewrite forallb_forall in Hr. specialize (Hr _ Hin). cbn [fst snd] in *.
  apply Nat.eqb_eq in Hr. rewrite (nth_opt_nth _ _ CNil) in E by lia. discriminate.
Qed.

(* ================================================================== *)
(* 5. op_resample                                                      *)
(* ================================================================== *)

Lemma freq_code_ok c :
  (N.eqb c 89 || N.eqb c 77 || N.eqb c 68 || N.eqb c 72 || N.eqb c 84 || N.eqb c 83) = true
  <-> In c [89; 77; 68; 72; 84; 83]%N.
Proof.
  split; intros H.
  - repeat (apply orb_true_iff in H; destruct H as [H|H]); apply N.eqb_eq in H; subst c; cbn [In]; auto 10.
  - cbn [In] in H. repeat (destruct H as [H|H]; [subst c; reflexivity|]). destruct H.
Qed.

(* the accepted frequency codes are exactly the one-byte strings Y M D H T S *)
Theorem freq_ok_spec freq c :
  freq_ok freq = Some c <-> freq = [c] /\ In c [89; 77; 68; 72; 84; 83]%N.
Proof.
  destruct freq as [|c0 [|c1 t]]; cbn [freq_ok].
  - split; [discriminate | intros [H _]; discriminate].
  - destruct (N.eqb c0 89 || N.eqb c0 77 || N.eqb c0 68 || N.eqb c0 72 || N.eqb c0 84 || N.eqb c0 83) eqn:E.
    + apply freq_code_ok in E. split.
      * intros H. inversion H; subst c. now split.
      * intros [H _]. now inversion H.
    + split; [discriminate|]. intros [H1 H2]. inversion H1; subst c0.
      apply freq_code_ok in H2. congruence.
  - split; [discriminate | intros [H _]; discriminate].
Qed.

Lemma freq_ok_none freq : freq_ok freq = None <-> forall c, In c [89; 77; 68; 72; 84; 83]%N -> freq <> [c].
Proof.
  split.
  - intros H c Hc E. assert (X : freq_ok freq = Some c) by (apply freq_ok_spec; now split). congruence.
  - intros H. destruct (freq_ok freq) as [c|] eqn:E; [|reflexivity].
    apply freq_ok_spec in E. destruct E as [E1 E2]. exfalso. exact (H c E2 E1).
Qed.

(* the cells the aggregation of column k, bucket b, is applied to (the model's expression) *)
Definition rs_cells (rs : list rowmap) (bs : list (list Z)) (k : str) (b : list Z) : list cell :=
  flat_map (fun rb : rowmap * list Z => if zlist_eqb (snd rb) b then [rget (fst rb) k] else []) (combine rs bs).
Definition rs_col (agg : nat) (rs : list rowmap) (bs buckets : list (list Z)) (k : str) : col :=
  (k, map (fun b => resample_fn agg (rs_cells rs bs k b)) buckets).
Definition others_of (f : frame) (tcol : str) : list str :=
  filter (fun k => negb (str_eqb k tcol)) (fkeys f).
(* the bucket of a row *)
Definition row_bucket (tcol : str) (fq : N) (r : rowmap) : list Z :=
  match time_of (rget r tcol) with Some t => trunc_time t fq | None => [] end.

Lemma op_resample_ok_inv f tcol freq agg g : op_resample f tcol freq agg = Ok g ->
  exists tc fq rs ts,
    fget f tcol = Some tc /\ freq_ok freq = Some fq /\ all_rows f = Some rs /\
    all_some (map (fun r => time_of (rget r tcol)) rs) = Some ts /\
    g = fold_left (fun acc k => fset acc k
            (rs_col agg rs (map (fun t => trunc_time t fq) ts) (buckets_of (map (fun t => trunc_time t fq) ts)) k))
          (others_of f tcol)
          [(tcol, (tcol, map CT (buckets_of (map (fun t => trunc_time t fq) ts))))].
Proof.
  unfold op_resample, all_rows.
  destruct (fget f tcol) as [tc|] eqn:E1; [|discriminate].
  destruct (freq_ok freq) as [fq|] eqn:E2; [|discriminate].
  destruct (all_some (map (frow f) (seq 0 (nrows f)))) as [rs|] eqn:E3; [|discriminate].
  destruct (all_some (map (fun r => time_of (rget r tcol)) rs)) as [ts|] eqn:E4; [|discriminate].
  intros H. inversion H as [Hg]. exists tc, fq, rs, ts.
  split; [reflexivity|]. split; [reflexivity|]. split; [reflexivity|]. split; [exact E4|].
  reflexivity.
Qed.

Lemma op_resample_ok f tcol freq agg tc fq rs ts :
  fget f tcol = Some tc -> freq_ok freq = Some fq -> all_rows f = Some rs ->
  all_some (map (fun r => time_of (rget r tcol)) rs) = Some ts ->
  op_resample f tcol freq agg =
  Ok (fold_left (fun acc k => fset acc k
            (rs_col agg rs (map (fun t => trunc_time t fq) ts) (buckets_of (map (fun t => trunc_time t fq) ts)) k))
          (others_of f tcol)
          [(tcol, (tcol, map CT (buckets_of (map (fun t => trunc_time t fq) ts))))]).
Proof.
  unfold op_resample, all_rows. intros E1 E2 E3 E4. rewrite E1, E2, E3, E4. reflexivity.
Qed.

Theorem resample_no_panic f tcol freq agg : op_resample f tcol freq agg <> Panic.
Proof.
  unfold op_resample.
  destruct (fget f tcol); [|discriminate].
  destruct (freq_ok freq); [|discriminate].
  destruct (all_some (map (frow f) (seq 0 (nrows f)))) as [rs|]; [|discriminate].
  destruct (all_some (map (fun r => time_of (rget r tcol)) rs)); discriminate.
Qed.

(* exactly when the call fails *)
Theorem resample_err f tcol freq agg :
  op_resample f tcol freq agg = Err <->
  fget f tcol = None \/ freq_ok freq = None \/ all_rows f = None \/
  exists rs, all_rows f = Some rs /\ exists r, In r rs /\ time_of (rget r tcol) = None.
Proof.
  unfold op_resample, all_rows.
  destruct (fget f tcol) as [tc|] eqn:E1; [|split; [now left | reflexivity]].
  destruct (freq_ok freq) as [fq|] eqn:E2; [|split; [right; now left | reflexivity]].
  destruct (all_some (map (frow f) (seq 0 (nrows f)))) as [rs|] eqn:E3;
    [|split; [right; right; now left | reflexivity]].
  destruct (all_some (map (fun r => time_of (rget r tcol)) rs)) as [ts|] eqn:E4.
  - split; [discriminate|]. intros [H|[H|[H|[rs' [H1 [r [H2 H3]]]]]]]; try discriminate.
    inversion H1; subst rs'. exfalso.
    assert (X : In None (map (fun r => time_of (rget r tcol)) rs)).
    { apply in_map_iff. exists r. now split. }
    apply all_some_none in X. congruence.
  - split; [|reflexivity]. intros _. right; right; right. exists rs. split; [reflexivity|].
    apply all_some_none in E4. apply in_map_iff in E4. destruct E4 as [r [H1 H2]]. exists r. now split.
Qed.

(* on a rectangular frame the rows always exist, so three causes remain *)
Corollary resample_err_rect f tcol freq agg : rect f = true ->
  (op_resample f tcol freq agg = Err <->
   fget f tcol = None \/ freq_ok freq = None \/
   exists rs, all_rows f = Some rs /\ exists r, In r rs /\ time_of (rget r tcol) = None).
Proof.
  intros Hr. rewrite resample_err. destruct (all_rows_rect f Hr) as [rs E].
  split.
  - intros [H|[H|[H|H]]]; auto. congruence.
  - intros [H|[H|H]]; auto.
Qed.

Lemma others_no_tcol f tcol : existsb (str_eqb tcol) (others_of f tcol) = false.
Proof.
  destruct (existsb (str_eqb tcol) (others_of f tcol)) eqn:E; [|reflexivity].
  apply existsb_str_in in E. unfold others_of in E. apply filter_In in E. destruct E as [_ E].
  now rewrite str_eqb_refl in E.
Qed.

Lemma others_in f tcol k : In k (others_of f tcol) <-> In k (fkeys f) /\ k <> tcol.
Proof.
  unfold others_of. rewrite filter_In. split; intros [H1 H2]; split; auto.
  - apply negb_true_iff in H2. now apply str_eqb_neq.
  - apply negb_true_iff. now apply str_eqb_neq.
Qed.

Lemma times_row_bucket tcol fq : forall rs ts,
  all_some (map (fun r => time_of (rget r tcol)) rs) = Some ts ->
  map (fun t => trunc_time t fq) ts = map (row_bucket tcol fq) rs
  /\ combine rs (map (fun t => trunc_time t fq) ts) = map (fun r => (r, row_bucket tcol fq r)) rs.
Proof.
  induction rs as [|r rs IH]; intros ts H; cbn [map all_some] in H.
  - inversion H. split; reflexivity.
  - destruct (time_of (rget r tcol)) as [t|] eqn:E; [|discriminate].
    destruct (all_some _) as [ts'|] eqn:E2; [|discriminate].
    inversion H; subst ts. destruct (IH ts' eq_refl) as [IH1 IH2].
    cbn [map combine]. rewrite IH2, IH1.
    assert (R : row_bucket tcol fq r = trunc_time t fq) by (unfold row_bucket; now rewrite E).
    rewrite R. split; reflexivity.
Qed.

(* the bridge: the model's flat_map over (row, bucket) pairs is "the cells of column k of the
   rows whose bucket is b, in row order" *)
Lemma rs_cells_filter_pairs rs bs k b :
  rs_cells rs bs k b =
  map (fun r => rget r k) (map fst (filter (fun rb : rowmap * list Z => zlist_eqb (snd rb) b) (combine rs bs))).
Proof.
  unfold rs_cells. induction (combine rs bs) as [|[r b0] l IH]; [reflexivity|].
  cbn [flat_map filter fst snd]. destruct (zlist_eqb b0 b); cbn [map fst app]; now rewrite IH.
Qed.

Lemma rs_cells_rows tcol fq rs ts k b :
  all_some (map (fun r => time_of (rget r tcol)) rs) = Some ts ->
  rs_cells rs (map (fun t => trunc_time t fq) ts) k b =
  map (fun r => rget r k) (filter (fun r => zlist_eqb (row_bucket tcol fq r) b) rs).
Proof.
  intros H. unfold rs_cells. rewrite (proj2 (times_row_bucket tcol fq rs ts H)).
  clear H. induction rs as [|r rs IH]; [reflexivity|].
  cbn [map flat_map filter fst snd]. destruct (zlist_eqb (row_bucket tcol fq r) b); cbn [map app]; now rewrite IH.
Qed.

Lemma time_of_some c t : time_of c = Some t <-> c = CT t.
Proof. destruct c; cbn [time_of]; split; intros H; try discriminate; now inversion H. Qed.

Theorem resample_shape f tcol freq agg g : op_resample f tcol freq agg = Ok g ->
  exists fq rs ts,
    freq_ok freq = Some fq /\
    all_some (map (frow f) (seq 0 (nrows f))) = Some rs /\
    all_some (map (fun r => time_of (rget r tcol)) rs) = Some ts /\
    let buckets := buckets_of (map (fun t => trunc_time t fq) ts) in
    fget g tcol = Some (tcol, map CT buckets) /\
    (forall k, In k (fkeys f) -> k <> tcol ->
       exists d, fget g k = Some (k, d) /\ length d = length buckets) /\
    (forall k, In k (fkeys g) <-> In k (fkeys f)) /\
    (forall k, fget f k = None -> fget g k = None).
Proof.
  intros H. destruct (op_resample_ok_inv _ _ _ _ _ H) as [tc [fq [rs [ts [E1 [E2 [E3 [E4 Eg]]]]]]]].
  exists fq, rs, ts. split; [exact E2|]. split; [exact E3|]. split; [exact E4|]. cbv zeta.
  set (bs := map (fun t => trunc_time t fq) ts) in *. set (bk := buckets_of bs) in *.
  split; [|split; [|split]].
  - rewrite Eg, (fold_fset_fget (rs_col agg rs bs bk)), others_no_tcol.
    cbn [fget]. now rewrite str_eqb_refl.
  - intros k Hk Hn. eexists. split.
    + rewrite Eg, (fold_fset_fget (rs_col agg rs bs bk)).
      assert (X : existsb (str_eqb k) (others_of f tcol) = true)
        by (apply existsb_str_in, others_in; now split).
      rewrite X. reflexivity.
    + now rewrite map_length.
  - intros k. rewrite Eg, (fold_fset_keys (rs_col agg rs bs bk)), others_in. cbn [fkeys map fst In].
    split.
    + intros [[Hk _]|[Hk|[]]]; [exact Hk|]. subst k. eapply fget_some_in; eauto.
    + intros Hk. destruct (str_eqb k tcol) eqn:E.
      * apply str_eqb_eq in E. right; left. now symmetry.
      * apply str_eqb_neq in E. left. now split.
  - intros k Hk. rewrite Eg, (fold_fset_fget (rs_col agg rs bs bk)).
    destruct (existsb (str_eqb k) (others_of f tcol)) eqn:X.
    + apply existsb_str_in, others_in in X. destruct X as [X _].
      apply fget_in_some in X. destruct X as [c X]. congruence.
    + cbn [fget]. destruct (str_eqb k tcol) eqn:E; [|reflexivity].
      apply str_eqb_eq in E. subst k. congruence.
Qed.

(* every other column: one aggregated cell per bucket, computed from the cells of that column in
   the rows of the bucket, in row order *)
Theorem resample_cells f tcol freq agg g : op_resample f tcol freq agg = Ok g ->
  exists fq rs ts,
    freq_ok freq = Some fq /\
    all_some (map (frow f) (seq 0 (nrows f))) = Some rs /\
    all_some (map (fun r => time_of (rget r tcol)) rs) = Some ts /\
    map (fun t => trunc_time t fq) ts = map (row_bucket tcol fq) rs /\
    let buckets := buckets_of (map (fun t => trunc_time t fq) ts) in
    forall k, In k (fkeys f) -> k <> tcol ->
      fget g k = Some (k, map (fun b => resample_fn agg
                   (map (fun r => rget r k) (filter (fun r => zlist_eqb (row_bucket tcol fq r) b) rs))) buckets)
      /\ fget g k = Some (k, map (fun b => resample_fn agg
                   (flat_map (fun rb : rowmap * list Z => if zlist_eqb (snd rb) b then [rget (fst rb) k] else [])
                             (combine rs (map (fun t => trunc_time t fq) ts)))) buckets).
Proof.
  intros H. destruct (op_resample_ok_inv _ _ _ _ _ H) as [tc [fq [rs [ts [E1 [E2 [E3 [E4 Eg]]]]]]]].
  exists fq, rs, ts. split; [exact E2|]. split; [exact E3|]. split; [exact E4|].
  split; [exact (proj1 (times_row_bucket tcol fq rs ts E4))|]. cbv zeta.
  set (bs := map (fun t => trunc_time t fq) ts) in *. set (bk := buckets_of bs) in *.
  intros k Hk Hn.
  assert (X : existsb (str_eqb k) (others_of f tcol) = true)
    by (apply existsb_str_in, others_in; now split).
  assert (Y : fget g k = Some (rs_col agg rs bs bk k))
    by (rewrite Eg, (fold_fset_fget (rs_col agg rs bs bk)), X; reflexivity).
  split; [|exact Y].
  rewrite Y. unfold rs_col. f_equal. f_equal. apply map_ext. intros b. f_equal.
  unfold bs. now apply rs_cells_rows.
Qed.

(* every bucket of the result holds at least one row: Resample does not fill gaps *)
Lemma resample_bucket_nonempty tcol fq rs b :
  In b (buckets_of (map (row_bucket tcol fq) rs)) ->
  filter (fun r => zlist_eqb (row_bucket tcol fq r) b) rs <> [].
Proof.
  intros H. apply buckets_in, in_map_iff in H. destruct H as [r [E Hr]].
  intros N. assert (X : In r (filter (fun r => zlist_eqb (row_bucket tcol fq r) b) rs)).
  { apply filter_In. split; [exact Hr|]. rewrite E. apply zlist_eqb_refl. }
  rewrite N in X. destruct X.
Qed.

(* the result is a well-formed frame with one row per bucket *)
Theorem resample_wf f tcol freq agg g : op_resample f tcol freq agg = Ok g -> wf_frame g = true.
Proof.
  intros H. destruct (op_resample_ok_inv _ _ _ _ _ H) as [tc [fq [rs [ts [E1 [E2 [E3 [E4 Eg]]]]]]]].
  set (bs := map (fun t => trunc_time t fq) ts) in *. set (bk := buckets_of bs) in *.
  assert (Hin : forall kc, In kc g -> str_eqb (fst kc) (cname (snd kc)) = true
                                      /\ length (cdata (snd kc)) = length bk).
  { intros kc Hkc. rewrite Eg in Hkc. apply (fold_fset_In (rs_col agg rs bs bk)) in Hkc.
    destruct Hkc as [[k Hk]|[Hk|[]]]; subst kc; cbn [fst snd rs_col cname cdata];
      (split; [apply str_eqb_refl | now rewrite map_length]). }
  unfold wf_frame. apply andb_true_intro. split; [apply andb_true_intro; split|].
  - unfold rect. apply forallb_forall. intros kc Hkc. apply Nat.eqb_eq.
    rewrite (proj2 (Hin kc Hkc)).
    destruct g as [|[k0 c0] g']; [destruct Hkc|]. cbn [nrows].
    symmetry. exact (proj2 (Hin (k0, c0) (or_introl eq_refl))).
  - unfold names_ok. apply forallb_forall. intros kc Hkc. exact (proj1 (Hin kc Hkc)).
  - rewrite Eg. apply (fold_fset_sorted (rs_col agg rs bs bk)). reflexivity.
Qed.

(* when every time has the usual 8 fields the time column of the result ascends strictly *)
Theorem resample_time_sorted f tcol freq agg g fq rs ts :
  op_resample f tcol freq agg = Ok g -> freq_ok freq = Some fq -> all_rows f = Some rs ->
  all_some (map (fun r => time_of (rget r tcol)) rs) = Some ts ->
  all_len 8 ts ->
  exists buckets, fget g tcol = Some (tcol, map CT buckets)
    /\ StronglySorted (fun a b => zlist_ltb a b = true) buckets /\ NoDup buckets
    /\ (forall b, In b buckets <-> exists t, In t ts /\ b = trunc_time t fq).
Proof.
  intros H F2 F3 F4 Hlen.
  destruct (resample_shape _ _ _ _ _ H) as [fq' [rs' [ts' [E2 [E3 [E4 [G _]]]]]]]. cbv zeta in G.
  unfold all_rows in F3.
  assert (fq' = fq) by congruence. subst fq'.
  assert (rs' = rs) by congruence. subst rs'.
  assert (ts' = ts) by congruence. subst ts'.
  exists (buckets_of (map (fun t => trunc_time t fq) ts)). split; [exact G|].
  assert (L : all_len 8 (map (fun t => trunc_time t fq) ts)).
  { unfold all_len in *. rewrite Forall_forall in *. intros x Hx. apply in_map_iff in Hx.
    destruct Hx as [t [Ex Ht]]. subst x. rewrite trunc_time_length. now apply Hlen. }
  destruct (buckets_sorted_distinct 8 _ L) as [S1 [S2 [S3 _]]].
  split; [exact S1|]. split; [exact S2|].
  intros b. rewrite S3, in_map_iff. split; intros [t [A B]]; exists t; auto.
Qed.

Lemma resample_row_has_bucket tcol fq rs r :
  In r rs -> In (row_bucket tcol fq r) (buckets_of (map (row_bucket tcol fq) rs)).
Proof. intros H. apply buckets_in. now apply in_map. Qed.

(* the time column of the result does not depend on the order of the rows *)
Theorem resample_buckets_perm tcol fq n rs rs' :
  all_len n (map (row_bucket tcol fq) rs) -> Permutation rs rs' ->
  buckets_of (map (row_bucket tcol fq) rs) = buckets_of (map (row_bucket tcol fq) rs').
Proof. intros H P. apply buckets_perm with (n := n); [exact H | now apply Permutation_map]. Qed.

(* ---------- a concrete frame ---------- *)
Definition s_t : str := [116]%N.   (* "t" *)
Definition s_v : str := [118]%N.   (* "v" *)
Definition s_D : str := [68]%N.
Definition s_M : str := [77]%N.
Definition exF : frame :=
  [(s_t, (s_t, [CT [2024; 2; 3; 9; 0; 0; 0; 0]; CT [2024; 1; 15; 10; 30; 0; 0; 0]; CT [2024; 1; 15; 11; 0; 0; 5; 0];
                CT [2024; 1; 16; 0; 0; 0; 0; 0]]));
   (s_v, (s_v, [CI KInt 1; CI KInt 2; CI KInt 3; CI KInt 4]))].

Example resample_ex_hyps :
  wf_frame exF = true /\ freq_ok s_D = Some 68%N /\ freq_ok s_M = Some 77%N
  /\ all_rows exF <> None
  /\ match all_rows exF with
     | Some rs => all_some (map (fun r => time_of (rget r s_t)) rs) <> None
                  /\ forallb (fun r => Nat.eqb (length (row_bucket s_t 68 r)) 8) rs = true
     | None => False end.
Proof. vm_compute. repeat split; discriminate. Qed.

(* by day, summing: the rows arrive out of time order, the buckets come out ascending *)
Example resample_ex_day :
  op_resample exF s_t s_D 3 =
  Ok [(s_t, (s_t, [CT [2024; 1; 15; 0; 0; 0; 0; 0]; CT [2024; 1; 16; 0; 0; 0; 0; 0]; CT [2024; 2; 3; 0; 0; 0; 0; 0]]));
      (s_v, (s_v, [CI KInt 5; CI KInt 4; CI KInt 1]))].
Proof. vm_compute. reflexivity. Qed.

(* by month: sum, first (in row order), last, count *)
Example resample_ex_month :
  op_resample exF s_t s_M 3 =
    Ok [(s_t, (s_t, [CT [2024; 1; 1; 0; 0; 0; 0; 0]; CT [2024; 2; 1; 0; 0; 0; 0; 0]]));
        (s_v, (s_v, [CI KInt 9; CI KInt 1]))]
  /\ op_resample exF s_t s_M 1 =
    Ok [(s_t, (s_t, [CT [2024; 1; 1; 0; 0; 0; 0; 0]; CT [2024; 2; 1; 0; 0; 0; 0; 0]]));
        (s_v, (s_v, [CI KInt 2; CI KInt 1]))]
  /\ op_resample exF s_t s_M 2 =
    Ok [(s_t, (s_t, [CT [2024; 1; 1; 0; 0; 0; 0; 0]; CT [2024; 2; 1; 0; 0; 0; 0; 0]]));
        (s_v, (s_v, [CI KInt 4; CI KInt 1]))]
  /\ op_resample exF s_t s_M 0 =
    Ok [(s_t, (s_t, [CT [2024; 1; 1; 0; 0; 0; 0; 0]; CT [2024; 2; 1; 0; 0; 0; 0; 0]]));
        (s_v, (s_v, [CI KInt 3; CI KInt 1]))].
Proof. vm_compute. repeat split. Qed.

(* the three error causes: no such column, bad frequency code, a cell that is not a time *)
Example resample_ex_err :
  op_resample exF [120]%N s_D 0 = Err
  /\ op_resample exF s_t [100]%N 0 = Err
  /\ op_resample exF s_t [68; 68]%N 0 = Err
  /\ op_resample exF s_t [] 0 = Err
  /\ op_resample exF s_v s_D 0 = Err.
Proof. vm_compute. repeat split. Qed.

(* a frame that is not rectangular: the rows cannot be read *)
Example resample_ex_ragged :
  all_rows [(s_t, (s_t, [CT [2024; 1; 1; 0; 0; 0; 0; 0]; CT [2024; 1; 2; 0; 0; 0; 0; 0]])); (s_v, (s_v, [CI KInt 1]))] = None
  /\ op_resample [(s_t, (s_t, [CT [2024; 1; 1; 0; 0; 0; 0; 0]; CT [2024; 1; 2; 0; 0; 0; 0; 0]])); (s_v, (s_v, [CI KInt 1]))]
                  s_t s_D 0 = Err.
Proof. vm_compute. split; reflexivity. Qed.

(* the row list the operation reads holds the cells of the frame *)
Example all_rows_ex :
  all_rows exF = Some [[(s_t, CT [2024; 2; 3; 9; 0; 0; 0; 0]); (s_v, CI KInt 1)];
                       [(s_t, CT [2024; 1; 15; 10; 30; 0; 0; 0]); (s_v, CI KInt 2)];
                       [(s_t, CT [2024; 1; 15; 11; 0; 0; 5; 0]); (s_v, CI KInt 3)];
                       [(s_t, CT [2024; 1; 16; 0; 0; 0; 0; 0]); (s_v, CI KInt 4)]].
Proof. vm_compute. reflexivity. Qed.

Print Assumptions trunc_idempotent.
Print Assumptions trunc_le.
Print Assumptions trunc_time_length.
Print Assumptions trunc_time_cases.
Print Assumptions zlist_eqb_eq.
Print Assumptions zlist_ltb_irrefl.
Print Assumptions zlist_ltb_trans.
Print Assumptions zlist_ltb_asym.
Print Assumptions zlist_trichotomy.
Print Assumptions zlist_trichotomy_excl.
Print Assumptions insert_time_in.
Print Assumptions insert_time_sorted.
Print Assumptions buckets_sorted_distinct.
Print Assumptions buckets_perm.
Print Assumptions buckets_same_set.
Print Assumptions all_some_none.
Print Assumptions all_some_some.
Print Assumptions freq_ok_spec.
Print Assumptions resample_no_panic.
Print Assumptions resample_err.
Print Assumptions resample_err_rect.
Print Assumptions resample_shape.
Print Assumptions resample_cells.
Print Assumptions rs_cells_filter_pairs.
Print Assumptions all_rows_cell.
Print Assumptions resample_wf.
Print Assumptions resample_time_sorted.
Print Assumptions resample_bucket_nonempty.
Print Assumptions resample_buckets_perm.
