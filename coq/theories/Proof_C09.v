(* Proof_C09.v - CSV: what the writer produces, the reader reads back (write-then-read
   round trip on records), and facts about the importer FromCSVReader. *)
From GF Require Import Ops Lemmas Csv.
From Coq Require Import Lia.
Arguments N.eqb : simpl never.

(* ---------- concrete byte comparisons ---------- *)
Ltac conc :=
  repeat first
    [ progress change (N.eqb QT QT) with true
    | progress change (N.eqb QT CM) with false
    | progress change (N.eqb QT NL) with false
    | progress change (N.eqb QT CR) with false
    | progress change (N.eqb CM QT) with false
    | progress change (N.eqb CM CM) with true
    | progress change (N.eqb CM NL) with false
    | progress change (N.eqb CM CR) with false
    | progress change (N.eqb NL QT) with false
    | progress change (N.eqb NL CM) with false
    | progress change (N.eqb NL NL) with true
    | progress change (N.eqb NL CR) with false
    | progress change (N.eqb CR QT) with false
    | progress change (N.eqb CR CM) with false
    | progress change (N.eqb CR NL) with false
    | progress change (N.eqb CR CR) with true ].

(* the bytes that end an unquoted field or are illegal in it *)
Definition special (x : N) : bool := N.eqb x NL || N.eqb x CR || N.eqb x QT || N.eqb x CM.

Lemma special_false x : special x = false ->
  N.eqb x NL = false /\ N.eqb x CR = false /\ N.eqb x QT = false /\ N.eqb x CM = false.
Proof.
  unfold special. intros H.
  apply orb_false_elim in H. destruct H as [H H4].
  apply orb_false_elim in H. destruct H as [H H3].
  apply orb_false_elim in H. destruct H as [H1 H2]. auto.
Qed.

(* ---------- the writer's quoting rule ---------- *)
Lemma wfield_quoted f : needs_quotes f = true -> wfield f = QT :: escq f ++ [QT].
Proof. intros H. unfold wfield. now rewrite H. Qed.
Lemma wfield_raw f : needs_quotes f = false -> wfield f = f.
Proof. intros H. unfold wfield. now rewrite H. Qed.
Lemma wfield_empty : wfield [] = [].
Proof. reflexivity. Qed.

(* an unquoted field holds no comma, quote, CR or LF *)
Lemma needs_quotes_false_special f : needs_quotes f = false -> existsb special f = false.
Proof.
  destruct f as [|c f]; [reflexivity|]. unfold needs_quotes. intros H.
  apply orb_false_elim in H. destruct H as [H _].
  apply orb_false_elim in H. destruct H as [_ H]. exact H.
Qed.
Lemma special_needs_quotes f : existsb special f = true -> needs_quotes f = true.
Proof.
  intros H. destruct (needs_quotes f) eqn:E; [reflexivity|].
  apply needs_quotes_false_special in E. congruence.
Qed.
(* a field that begins with a space character, or is the two bytes \. , is quoted *)
Lemma space_needs_quotes f : is_some (strip_space f) = true -> needs_quotes f = true.
Proof.
  destruct f as [|c f]; [intro H; vm_compute in H; discriminate|].
  intros H. unfold needs_quotes. rewrite H. now rewrite orb_true_r.
Qed.
Lemma backslash_dot_needs_quotes : needs_quotes [92; 46]%N = true.
Proof. reflexivity. Qed.

Lemma escq_app a b : escq (a ++ b) = escq a ++ escq b.
Proof.
  induction a as [|c a IH]; [reflexivity|]. cbn [escq app].
  destruct (N.eqb c QT); cbn [app]; now rewrite IH.
Qed.

Lemma escq_inj a b : escq a = escq b -> a = b.
Proof.
  revert b; induction a as [|c a IH]; intros [|e b] H.
  - reflexivity.
  - cbn [escq] in H. destruct (N.eqb e QT); discriminate.
  - cbn [escq] in H. destruct (N.eqb c QT); discriminate.
  - cbn [escq] in H.
    destruct (N.eqb c QT) eqn:Ec; destruct (N.eqb e QT) eqn:Ee.
    + apply N.eqb_eq in Ec. apply N.eqb_eq in Ee. subst. inversion H as [H1]. f_equal. now apply IH.
    + inversion H as [[H1 H2]]. subst e. now conc.
    + inversion H as [[H1 H2]]. subst c. now conc.
    + inversion H as [[H1 H2]]. f_equal. now apply IH.
Qed.

Lemma wfield_inj a b : wfield a = wfield b -> a = b.
Proof.
  unfold wfield. destruct (needs_quotes a) eqn:Ea; destruct (needs_quotes b) eqn:Eb; intros H.
  - inversion H as [H1]. apply app_inj_tail in H1. destruct H1 as [H1 _]. now apply escq_inj.
  - subst b. cbn [needs_quotes] in Eb.
    replace (existsb (fun x => N.eqb x NL || N.eqb x CR || N.eqb x QT || N.eqb x CM) (QT :: escq a ++ [QT]))
      with true in Eb; [now rewrite orb_true_r in Eb|].
    cbn [existsb]. conc. reflexivity.
  - subst a. cbn [needs_quotes] in Ea.
    replace (existsb (fun x => N.eqb x NL || N.eqb x CR || N.eqb x QT || N.eqb x CM) (QT :: escq b ++ [QT]))
      with true in Ea; [now rewrite orb_true_r in Ea|].
    cbn [existsb]. conc. reflexivity.
  - exact H.
Qed.

(* ---------- step 1: readLine's normalisation leaves the writer's output alone ---------- *)
(* hypothesis (b) on a field: no CR immediately followed by LF *)
Fixpoint no_crlf (s : str) : bool :=
  match s with
  | [] => true
  | c :: r =>
    match r with
    | [] => true
    | e :: _ => negb (N.eqb c CR && N.eqb e NL) && no_crlf r
    end
  end.
(* no CR-LF pair and the last byte is not CR *)
Fixpoint nrm_ok (s : str) : bool :=
  match s with
  | [] => true
  | c :: r =>
    if N.eqb c CR then
      match r with
      | [] => false
      | e :: _ => negb (N.eqb e NL) && nrm_ok r
      end
    else nrm_ok r
  end.

Lemma norm_id s : nrm_ok s = true -> norm s = s.
Proof.
  induction s as [|c s IH]; [reflexivity|]. cbn [nrm_ok norm].
  destruct (N.eqb c CR) eqn:E.
  - destruct s as [|e s]; [discriminate|]. intros H. apply andb_prop in H. destruct H as [H1 H2].
    apply negb_true_iff in H1. rewrite H1. f_equal. now apply IH.
  - intros H. f_equal. now apply IH.
Qed.

Lemma no_crlf_tail c s : no_crlf (c :: s) = true -> no_crlf s = true.
Proof.
  destruct s as [|e s]; [reflexivity|]. intros H. change (no_crlf (c :: e :: s)) with
    (negb (N.eqb c CR && N.eqb e NL) && no_crlf (e :: s)) in H.
  apply andb_prop in H. now destruct H.
Qed.
Lemma no_crlf_head e t : no_crlf (CR :: e :: t) = true -> N.eqb e NL = false.
Proof.
  intros H. change (no_crlf (CR :: e :: t)) with
    (negb (N.eqb CR CR && N.eqb e NL) && no_crlf (e :: t)) in H.
  conc. apply andb_prop in H. destruct H as [H _]. cbn [andb] in H. now apply negb_true_iff in H.
Qed.

(* bytes without CR are transparent *)
Lemma nrm_ok_plain f X : existsb special f = false -> nrm_ok (f ++ X) = nrm_ok X.
Proof.
  induction f as [|c f IH]; [reflexivity|]. cbn [existsb app]. intros H.
  apply orb_false_elim in H. destruct H as [H1 H2]. apply special_false in H1.
  destruct H1 as [_ [H1 _]]. cbn [nrm_ok]. rewrite H1. now apply IH.
Qed.

(* the body of a quoted field up to and including the closing quote *)
Lemma nrm_ok_escq f X : no_crlf f = true -> nrm_ok (escq f ++ QT :: X) = nrm_ok X.
Proof.
  induction f as [|c f IH]; intros H.
  - cbn [escq app nrm_ok]. conc. reflexivity.
  - assert (Ht := no_crlf_tail _ _ H). specialize (IH Ht).
    cbn [escq]. destruct (N.eqb c QT) eqn:Eq.
    + apply N.eqb_eq in Eq. subst c. cbn [app nrm_ok]. conc. exact IH.
    + cbn [app nrm_ok]. destruct (N.eqb c CR) eqn:Ec; [|exact IH].
      apply N.eqb_eq in Ec. subst c.
      destruct f as [|e f].
      * cbn [escq app]. conc. cbn [negb andb]. exact IH.
      * assert (He := no_crlf_head _ _ H). revert IH. cbn [escq].
        destruct (N.eqb e QT) eqn:Ee; cbn [app]; intros IH.
        -- conc. cbn [negb andb]. exact IH.
        -- rewrite He. cbn [negb andb]. exact IH.
Qed.

Lemma nrm_ok_wfield f X : no_crlf f = true -> nrm_ok (wfield f ++ X) = nrm_ok X.
Proof.
  intros H. unfold wfield. destruct (needs_quotes f) eqn:E.
  - cbn [app nrm_ok]. conc. rewrite <- app_assoc. cbn [app]. now apply nrm_ok_escq.
  - apply nrm_ok_plain. now apply needs_quotes_false_special.
Qed.

Lemma nrm_ok_wrec_fields r X : forallb no_crlf r = true -> nrm_ok (wrec_fields r ++ X) = nrm_ok X.
Proof.
  induction r as [|f r IH]; [reflexivity|]. cbn [forallb]. intros H.
  apply andb_prop in H. destruct H as [Hf Hr]. specialize (IH Hr).
  destruct r as [|g r].
  - cbn [wrec_fields]. now apply nrm_ok_wfield.
  - change (wrec_fields (f :: g :: r)) with (wfield f ++ CM :: wrec_fields (g :: r)).
    rewrite <- app_assoc. rewrite nrm_ok_wfield by exact Hf.
    cbn [app nrm_ok]. conc. exact IH.
Qed.

Lemma wrec_unfold r : wrec r = [QT; QT; NL] \/ wrec r = wrec_fields r ++ [NL].
Proof. destruct r as [|[|c f] [|g r]]; cbn [wrec]; auto. Qed.

Lemma nrm_ok_wrec r X : forallb no_crlf r = true -> nrm_ok (wrec r ++ X) = nrm_ok X.
Proof.
  intros H. destruct (wrec_unfold r) as [E|E]; rewrite E.
  - cbn [app nrm_ok]. conc. reflexivity.
  - rewrite <- app_assoc. rewrite nrm_ok_wrec_fields by exact H. cbn [app nrm_ok]. conc. reflexivity.
Qed.

Lemma wfile_cons r recs : wfile (r :: recs) = wrec r ++ wfile recs.
Proof. reflexivity. Qed.

Lemma nrm_ok_wfile recs : forallb (forallb no_crlf) recs = true -> nrm_ok (wfile recs) = true.
Proof.
  induction recs as [|r recs IH]; [reflexivity|]. cbn [forallb]. intros H.
  apply andb_prop in H. destruct H as [Hr Ht]. rewrite wfile_cons.
  rewrite nrm_ok_wrec by exact Hr. now apply IH.
Qed.

Lemma norm_wfile recs : forallb (forallb no_crlf) recs = true -> norm (wfile recs) = wfile recs.
Proof. intros H. apply norm_id. now apply nrm_ok_wfile. Qed.

(* ---------- step 2: the reader consumes exactly one written field ---------- *)
(* inside quotes: doubled quotes give one quote, the closing quote leaves the field in QQ *)
Lemma go_escq f rest acc r d :
  csv_go (escq f ++ QT :: rest) Quo acc r d = csv_go rest QQ (rev f ++ acc) r d.
Proof.
  revert acc; induction f as [|c f IH]; intros acc.
  - cbn [escq app csv_go rev]. conc. reflexivity.
  - cbn [escq]. destruct (N.eqb c QT) eqn:Eq.
    + apply N.eqb_eq in Eq. subst c. cbn [app csv_go]. conc. rewrite IH.
      cbn [rev]. now rewrite <- app_assoc.
    + cbn [app csv_go]. rewrite Eq. rewrite IH. cbn [rev]. now rewrite <- app_assoc.
Qed.

(* outside quotes: plain bytes accumulate *)
Lemma go_plain f rest acc r d : existsb special f = false ->
  csv_go (f ++ rest) Unq acc r d = csv_go rest Unq (rev f ++ acc) r d.
Proof.
  revert acc; induction f as [|c f IH]; intros acc H; [reflexivity|].
  cbn [existsb] in H. apply orb_false_elim in H. destruct H as [H1 H2].
  apply special_false in H1. destruct H1 as [Hn [_ [Hq Hc]]].
  cbn [app csv_go]. rewrite Hc, Hn, Hq. rewrite IH by exact H2.
  cbn [rev]. now rewrite <- app_assoc.
Qed.

(* a field start: FieldStart with any record so far, or RecStart with the empty one *)
Definition at_start (q : st) (r : list str) : Prop := q = FieldStart \/ (q = RecStart /\ r = []).

(* field followed by a comma *)
Lemma go_field_cm f t q r d : at_start q r ->
  csv_go (wfield f ++ CM :: t) q [] r d = csv_go t FieldStart [] (f :: r) d.
Proof.
  intros Hq. unfold wfield. destruct (needs_quotes f) eqn:E.
  - rewrite <- app_comm_cons. rewrite <- app_assoc. cbn [app].
    assert (H : csv_go (QT :: escq f ++ QT :: CM :: t) q [] r d
                = csv_go (escq f ++ QT :: CM :: t) Quo [] r d).
    { destruct Hq as [Hq|[Hq Hr]]; subst; cbn [csv_go]; conc; reflexivity. }
    rewrite H. rewrite go_escq. cbn [csv_go]. conc.
    rewrite app_nil_r. now rewrite rev_involutive.
  - destruct f as [|c f].
    + destruct Hq as [Hq|[Hq Hr]]; subst; cbn [app csv_go]; conc; reflexivity.
    + apply needs_quotes_false_special in E. cbn [existsb] in E.
      apply orb_false_elim in E. destruct E as [E1 E2].
      apply special_false in E1. destruct E1 as [Hn [_ [Hqt Hc]]].
      assert (H : csv_go ((c :: f) ++ CM :: t) q [] r d = csv_go (f ++ CM :: t) Unq [c] r d).
      { destruct Hq as [Hq|[Hq Hr]]; subst; cbn [app csv_go]; rewrite ?Hn, ?Hqt, ?Hc; reflexivity. }
      rewrite H. rewrite go_plain by exact E2. cbn [csv_go]. conc.
      rewrite rev_app_distr. now rewrite rev_involutive.
Qed.

(* field followed by the line end; at RecStart the field must not be written as nothing *)
Lemma go_field_nl f t q r d : at_start q r -> (q = RecStart -> f <> []) ->
  csv_go (wfield f ++ NL :: t) q [] r d = csv_go t RecStart [] [] (rev (f :: r) :: d).
Proof.
  intros Hq Hne. unfold wfield. destruct (needs_quotes f) eqn:E.
  - rewrite <- app_comm_cons. rewrite <- app_assoc. cbn [app].
    assert (H : csv_go (QT :: escq f ++ QT :: NL :: t) q [] r d
                = csv_go (escq f ++ QT :: NL :: t) Quo [] r d).
    { destruct Hq as [Hq|[Hq Hr]]; subst; cbn [csv_go]; conc; reflexivity. }
    rewrite H. rewrite go_escq. cbn [csv_go]. conc.
    rewrite app_nil_r. now rewrite rev_involutive.
  - destruct f as [|c f].
    + destruct Hq as [Hq|[Hq Hr]]; subst.
      * cbn [app csv_go]. conc. reflexivity.
      * exfalso. now apply Hne.
    + apply needs_quotes_false_special in E. cbn [existsb] in E.
      apply orb_false_elim in E. destruct E as [E1 E2].
      apply special_false in E1. destruct E1 as [Hn [_ [Hqt Hc]]].
      assert (H : csv_go ((c :: f) ++ NL :: t) q [] r d = csv_go (f ++ NL :: t) Unq [c] r d).
      { destruct Hq as [Hq|[Hq Hr]]; subst; cbn [app csv_go]; rewrite ?Hn, ?Hqt, ?Hc; reflexivity. }
      rewrite H. rewrite go_plain by exact E2. cbn [csv_go]. conc.
      rewrite rev_app_distr. now rewrite rev_involutive.
Qed.

(* ---------- step 3: one record ---------- *)
Lemma wrec_fields_cons f g r : wrec_fields (f :: g :: r) = wfield f ++ CM :: wrec_fields (g :: r).
Proof. reflexivity. Qed.

Lemma go_fields_fs r' rest r d : r' <> [] ->
  csv_go (wrec_fields r' ++ NL :: rest) FieldStart [] r d
  = csv_go rest RecStart [] [] (rev (rev r' ++ r) :: d).
Proof.
  revert r; induction r' as [|f r' IH]; intros r Hne; [congruence|].
  destruct r' as [|g r'].
  - cbn [wrec_fields]. rewrite go_field_nl; [reflexivity | now left | discriminate].
  - rewrite wrec_fields_cons. rewrite <- app_assoc. rewrite <- app_comm_cons.
    rewrite go_field_cm by now left. rewrite IH by discriminate.
    do 3 f_equal. cbn [rev]. now rewrite <- !app_assoc.
Qed.

Lemma go_wrec r' rest d : r' <> [] ->
  csv_go (wrec r' ++ rest) RecStart [] [] d = csv_go rest RecStart [] [] (r' :: d).
Proof.
  intros Hne. destruct r' as [|f r']; [congruence|]. destruct r' as [|g r'].
  - destruct f as [|c f].
    + cbn [wrec app csv_go rev]. conc. reflexivity.
    + change (wrec [c :: f]) with (wfield (c :: f) ++ [NL]).
      rewrite <- app_assoc. cbn [app].
      rewrite go_field_nl; [reflexivity | right; auto | discriminate].
  - replace (wrec (f :: g :: r')) with (wrec_fields (f :: g :: r') ++ [NL])
      by (destruct f; reflexivity).
    rewrite wrec_fields_cons. rewrite <- !app_assoc. rewrite <- ?app_comm_cons.
    rewrite go_field_cm by (right; auto). cbn [app].
    rewrite go_fields_fs by discriminate.
    do 3 f_equal. rewrite rev_app_distr. now rewrite rev_involutive.
Qed.

(* ---------- step 4: the whole file ---------- *)
Definition nonempty_rec (r : list str) : bool := negb (Nat.eqb (length r) 0).

Lemma nonempty_rec_ne r : nonempty_rec r = true -> r <> [].
Proof. destruct r; [discriminate|discriminate]. Qed.

Lemma go_wfile recs d : forallb nonempty_rec recs = true ->
  csv_go (wfile recs) RecStart [] [] d = Some (rev d ++ recs).
Proof.
  revert d; induction recs as [|r recs IH]; intros d H.
  - cbn [wfile map concat csv_go]. now rewrite app_nil_r.
  - cbn [forallb] in H. apply andb_prop in H. destruct H as [Hr Ht].
    rewrite wfile_cons. rewrite go_wrec by now apply nonempty_rec_ne.
    rewrite IH by exact Ht. cbn [rev]. now rewrite <- app_assoc.
Qed.

(* ---------- step 5: the round trip ---------- *)
Definition fields_ok (recs : list (list str)) : bool := forallb (forallb no_crlf) recs.
(* hypotheses (a) and (b) as one decidable predicate *)
Definition recs_ok (recs : list (list str)) : bool :=
  forallb nonempty_rec recs && same_width recs && fields_ok recs.

(* without the width check: every non-empty record is read back, whatever the widths *)
Theorem csv_read_back recs : forallb nonempty_rec recs = true -> fields_ok recs = true ->
  csv_go (norm (wfile recs)) RecStart [] [] [] = Some recs.
Proof.
  intros Hne Hf. rewrite norm_wfile by exact Hf. now rewrite go_wfile by exact Hne.
Qed.

Theorem csv_roundtrip_b recs : recs_ok recs = true -> csv_parse (wfile recs) = Some recs.
Proof.
  unfold recs_ok. intros H. apply andb_prop in H. destruct H as [H Hf].
  apply andb_prop in H. destruct H as [Hne Hw].
  unfold csv_parse. rewrite csv_read_back by assumption. now rewrite Hw.
Qed.

Lemma width_recs_ok w recs : (1 <= w)%nat -> Forall (fun r => length r = w) recs ->
  forallb nonempty_rec recs = true /\ same_width recs = true.
Proof.
  intros Hw Hall. split.
  - apply forallb_forall. intros r Hin. rewrite Forall_forall in Hall. specialize (Hall r Hin).
    unfold nonempty_rec. destruct r; cbn in *; [lia|reflexivity].
  - destruct recs as [|h t]; [reflexivity|]. cbn [same_width].
    apply forallb_forall. intros r Hin. rewrite Forall_forall in Hall.
    rewrite (Hall r (or_intror Hin)), (Hall h (or_introl eq_refl)). apply Nat.eqb_refl.
Qed.

(* MAIN: records of one width w >= 1 whose fields hold no CR-LF pair - any bytes
   otherwise - are read back exactly *)
Theorem csv_roundtrip recs :
  (exists w, (1 <= w)%nat /\ Forall (fun r => length r = w) recs) ->
  Forall (Forall (fun f => no_crlf f = true)) recs ->
  csv_parse (wfile recs) = Some recs.
Proof.
  intros [w [Hw Hall]] Hf. destruct (width_recs_ok w recs Hw Hall) as [Hne Hsw].
  apply csv_roundtrip_b. unfold recs_ok. rewrite Hne, Hsw. cbn [andb].
  unfold fields_ok. apply forallb_forall. intros r Hr. apply forallb_forall. intros f Hin.
  rewrite Forall_forall in Hf. specialize (Hf r Hr). rewrite Forall_forall in Hf. now apply Hf.
Qed.

(* the hypotheses are met by commas, quotes, lone CR, lone LF, leading space, \. , tab,
   non-ASCII, empty fields, and by the record that is one empty field *)
Example csv_roundtrip_ex :
  let recs := [[[]; [34]; [44]]; [[10]; [13]; [13; 97]]; [[32; 97]; [92; 46]; [34; 34]];
               [[97; 34; 44; 10]; [9; 200]; [10; 13]]]%N in
  recs_ok recs = true /\ recs_ok [[[]]; [[]]] = true /\ recs_ok [[[]]; [[13]]]%N = true
  /\ csv_parse (wfile recs) = Some recs.
Proof. vm_compute. repeat split. Qed.

(* each hypothesis is needed (checked with vm_compute):
   - a CR-LF pair inside a field is turned into LF by the reader, inside quotes too;
   - a record with no field is written as a blank line, which the reader skips;
   - records of different widths are refused by the reader (FieldsPerRecord = 0). *)
Example csv_roundtrip_needs_no_crlf : csv_parse (wfile [[[13; 10]]]%N) = Some [[[10]]]%N.
Proof. vm_compute. reflexivity. Qed.
Example csv_roundtrip_needs_nonempty : csv_parse (wfile [[[97]]; []]%N) = Some [[[97]]]%N.
Proof. vm_compute. reflexivity. Qed.
Example csv_roundtrip_needs_width : csv_parse (wfile [[[97]]; [[97]; [98]]]%N) = None.
Proof. vm_compute. reflexivity. Qed.

(* the stock csv.Writer writes a lone empty field as nothing; the row is then lost (D9) *)
Definition wrec_stock (r : list str) : str := wrec_fields r ++ [NL].
Example csv_lone_empty_refuted :
  csv_parse (concat (map wrec_stock [[[97]]; [[]]]%N)) = Some [[[97]]]%N
  /\ csv_parse (wfile [[[97]]; [[]]]%N) = Some [[[97]]; [[]]]%N.
Proof. vm_compute. split; reflexivity. Qed.

(* consequence: on such records the writer is injective *)
Corollary wfile_inj a b : recs_ok a = true -> recs_ok b = true -> wfile a = wfile b -> a = b.
Proof.
  intros Ha Hb E. apply csv_roundtrip_b in Ha. apply csv_roundtrip_b in Hb.
  rewrite E in Ha. rewrite Ha in Hb. now inversion Hb.
Qed.

(* ---------- the importer ---------- *)
Theorem csv_parse_same_width b recs : csv_parse b = Some recs -> same_width recs = true.
Proof.
  unfold csv_parse. destruct (csv_go (norm b) RecStart [] [] []) as [r|]; [|discriminate].
  destruct (same_width r) eqn:E; [|discriminate]. intros H. inversion H. now subst.
Qed.

Theorem op_from_csv_no_panic O b : op_from_csv O b <> Panic.
Proof.
  unfold op_from_csv. destruct (csv_parse b) as [[|h recs]|]; try discriminate.
  destruct (has_dup h); discriminate.
Qed.

Theorem op_from_csv_err_iff O b :
  op_from_csv O b = Err <->
  csv_parse b = None \/ csv_parse b = Some [] \/
  exists h recs, csv_parse b = Some (h :: recs) /\ has_dup h = true.
Proof.
  unfold op_from_csv. split.
  - destruct (csv_parse b) as [[|h recs]|]; auto.
    destruct (has_dup h) eqn:E; [|discriminate]. intros _. right. right. now exists h, recs.
  - intros [H|[H|[h [recs [H D]]]]]; rewrite H; auto. now rewrite D.
Qed.

(* the other outcome, spelled out *)
Theorem op_from_csv_ok_iff O b f :
  op_from_csv O b = Ok f <->
  exists h recs, csv_parse b = Some (h :: recs) /\ has_dup h = false /\
    f = fold_left (fun acc ih =>
          fset acc (snd ih) (snd ih, map (fun r => csv_cell O (nth_field r (fst ih))) recs))
        (combine (seq 0 (length h)) h) [].
Proof.
  unfold op_from_csv. split.
  - destruct (csv_parse b) as [[|h recs]|]; try discriminate.
    destruct (has_dup h) eqn:E; [discriminate|]. intros H. inversion H. now exists h, recs.
  - intros [h [recs [H [D E]]]]. rewrite H, D. now subst.
Qed.

(* one typing rule for every cell: a float when ParseFloat accepts the trimmed text,
   the trimmed text otherwise *)
Theorem csv_cell_rule O s :
  (forall x, csv_cell O s = CF KF64 x <-> pf O (trim_space s) = Some x) /\
  (pf O (trim_space s) = None -> csv_cell O s = CS (trim_space s)) /\
  (csv_cell O s = CS (trim_space s) \/ exists x, csv_cell O s = CF KF64 x).
Proof.
  unfold csv_cell. cbv zeta. destruct (pf O (trim_space s)) as [y|]; repeat split.
  - intros H. inversion H. reflexivity.
  - intros H. inversion H. reflexivity.
  - discriminate.
  - right. now exists y.
  - discriminate.
  - discriminate.
  - left. reflexivity.
Qed.

(* ---------- the exporter's output is read back as header and rendered rows ---------- *)
Lemma all_some_length {A} (l : list (option A)) r : all_some l = Some r -> length r = length l.
Proof.
  revert r; induction l as [|[x|] l IH]; intros r H; cbn [all_some] in H.
  - inversion H. reflexivity.
  - destruct (all_some l) as [r'|]; [|discriminate]. inversion H. cbn [length]. f_equal. now apply IH.
  - discriminate.
Qed.
Lemma all_some_in {A} (l : list (option A)) r x : all_some l = Some r -> In x r -> In (Some x) l.
Proof.
  revert r; induction l as [|[y|] l IH]; intros r H Hin; cbn [all_some] in H.
  - inversion H. subst. contradiction.
  - destruct (all_some l) as [r'|]; [|discriminate]. inversion H. subst r.
    destruct Hin as [E|Hin]; [left; now subst | right; now apply (IH r')].
  - discriminate.
Qed.
Lemma nth_opt_in {A} (l : list A) i x : nth_opt l i = Some x -> In x l.
Proof.
  revert i; induction l as [|y l IH]; intros [|i] H; cbn [nth_opt] in H; try discriminate.
  - inversion H. now left.
  - right. now apply (IH i).
Qed.

Lemma frow_shape f i r : frow f i = Some r ->
  length r = length f /\
  forall kv, In kv r -> exists kc, In kc f /\ fst kv = fst kc /\ In (snd kv) (cdata (snd kc)).
Proof.
  unfold frow. destruct (Nat.ltb i (nrows f)); [|discriminate]. intros H. split.
  - apply all_some_length in H. now rewrite map_length in H.
  - intros kv Hin. apply (all_some_in _ _ _ H) in Hin. apply in_map_iff in Hin.
    destruct Hin as [kc [E Hkc]]. exists kc. split; [exact Hkc|].
    destruct (nth_opt (cdata (snd kc)) i) as [c|] eqn:En; [|discriminate].
    cbn [option_map] in E. inversion E. cbn [fst snd]. split; [reflexivity|].
    now apply nth_opt_in in En.
Qed.

(* names and rendered cells without a CR-LF pair *)
Definition csv_safe (O : oracles) (f : frame) : bool :=
  forallb (fun kc => no_crlf (fst kc) && forallb (fun c => no_crlf (render O c)) (cdata (snd kc))) f.

Theorem to_csv_parse O f b : f <> [] -> csv_safe O f = true -> op_to_csv O f = Ok b ->
  exists rs, all_some (map (frow f) (seq 0 (nrows f))) = Some rs /\
    csv_parse b = Some (fkeys f :: map (map (fun kv => render O (snd kv))) rs).
Proof.
  intros Hne Hsafe. unfold op_to_csv. cbv zeta.
  destruct (all_some (map (frow f) (seq 0 (nrows f)))) as [rs|] eqn:Ers; [|discriminate].
  intros H. inversion H as [Hb]. exists rs. split; [reflexivity|].
  assert (Hrows : forall r, In r rs -> exists i, frow f i = Some r).
  { intros r Hin. apply (all_some_in _ _ _ Ers) in Hin. apply in_map_iff in Hin.
    destruct Hin as [i [E _]]. now exists i. }
  unfold csv_safe in Hsafe. rewrite forallb_forall in Hsafe.
  apply csv_roundtrip.
  - exists (length f). split.
    + destruct f; [congruence| cbn [length]; lia].
    + constructor; [unfold fkeys; now rewrite map_length|].
      apply Forall_forall. intros r Hin. apply in_map_iff in Hin. destruct Hin as [r0 [E Hin]].
      subst r. rewrite map_length. destruct (Hrows _ Hin) as [i Hi].
      now destruct (frow_shape _ _ _ Hi).
  - constructor.
    + apply Forall_forall. intros k Hin. unfold fkeys in Hin. apply in_map_iff in Hin.
      destruct Hin as [kc [E Hin]]. subst k. specialize (Hsafe _ Hin).
      apply andb_prop in Hsafe. now destruct Hsafe.
    + apply Forall_forall. intros r Hin. apply in_map_iff in Hin. destruct Hin as [r0 [E Hin]].
      subst r. apply Forall_forall. intros s Hs. apply in_map_iff in Hs.
      destruct Hs as [kv [E Hkv]]. subst s. destruct (Hrows _ Hin) as [i Hi].
      destruct (frow_shape _ _ _ Hi) as [_ Hsh]. destruct (Hsh _ Hkv) as [kc [Hkc [_ Hc]]].
      specialize (Hsafe _ Hkc). apply andb_prop in Hsafe. destruct Hsafe as [_ Hcells].
      rewrite forallb_forall in Hcells. now apply Hcells.
Qed.

Example to_csv_parse_ex :
  let O := {| o_pf := []; o_fmt := []; o_tparse := [] |} in
  let f : frame := [([97]%N, ([97]%N, [CS [44; 13]%N; CI KInt 5])); ([98]%N, ([98]%N, [CS []; CB true]))] in
  csv_safe O f = true /\ sorted_keys (fkeys f) = true /\
  match op_to_csv O f with Ok b => csv_parse b = Some [[[97]; [98]]; [[44; 13]; []]; [[53]; s_true]]%N | _ => False end.
Proof. vm_compute. repeat split. Qed.

(* sorted names are distinct, so the importer accepts what the exporter wrote *)
Lemma sorted_keys_tail a l : sorted_keys (a :: l) = true -> sorted_keys l = true.
Proof.
  destruct l as [|b l]; [reflexivity|]. intros H.
  change (sorted_keys (a :: b :: l)) with (str_ltb a b && sorted_keys (b :: l)) in H.
  apply andb_prop in H. now destruct H.
Qed.
Lemma sorted_keys_lt a l x : sorted_keys (a :: l) = true -> In x l -> str_ltb a x = true.
Proof.
  revert a; induction l as [|b l IH]; intros a H Hin; [contradiction|].
  change (sorted_keys (a :: b :: l)) with (str_ltb a b && sorted_keys (b :: l)) in H.
  apply andb_prop in H. destruct H as [H1 H2]. destruct Hin as [E|Hin]; [now subst|].
  apply (str_ltb_trans a b x); [exact H1 | now apply IH].
Qed.
Lemma sorted_keys_no_dup l : sorted_keys l = true -> has_dup l = false.
Proof.
  induction l as [|a l IH]; [reflexivity|]. intros H. cbn [has_dup].
  rewrite IH by now apply sorted_keys_tail with a. rewrite orb_false_r.
  destruct (existsb (str_eqb a) l) eqn:E; [|reflexivity].
  apply existsb_exists in E. destruct E as [x [Hin Ex]]. apply str_eqb_eq in Ex. subst x.
  apply (sorted_keys_lt a l a H) in Hin. now rewrite str_ltb_irrefl in Hin.
Qed.

Theorem to_from_csv_ok O f b : f <> [] -> sorted_keys (fkeys f) = true -> csv_safe O f = true ->
  op_to_csv O f = Ok b -> exists g, op_from_csv O b = Ok g.
Proof.
  intros Hne Hs Hsafe Hb. destruct (to_csv_parse O f b Hne Hsafe Hb) as [rs [_ Hp]].
  unfold op_from_csv. rewrite Hp. rewrite sorted_keys_no_dup by exact Hs. eauto.
Qed.

Print Assumptions csv_roundtrip.
Print Assumptions csv_roundtrip_b.
Print Assumptions csv_read_back.
Print Assumptions wfile_inj.
Print Assumptions wfield_inj.
Print Assumptions escq_inj.
Print Assumptions csv_parse_same_width.
Print Assumptions op_from_csv_no_panic.
Print Assumptions op_from_csv_err_iff.
Print Assumptions op_from_csv_ok_iff.
Print Assumptions csv_cell_rule.
Print Assumptions to_csv_parse.
Print Assumptions to_from_csv_ok.
