(* Frame.v - frames as finite maps from names to columns (association lists kept
   sorted by name with unique keys: the canonical form of Go's map[string]*Column),
   rows, oracles for the standard-library calls.  Definitions only. *)
From GF Require Export Base.

Definition col := (str * list cell)%type.          (* Column.Name, Column.Data *)
Definition frame := list (str * col).              (* key -> column, sorted by key *)
Definition rowmap := list (str * cell).            (* map[string]any, sorted by key *)

Definition cname (c : col) := fst c.
Definition cdata (c : col) := snd c.

Fixpoint fget {A} (f : list (str * A)) (k : str) : option A :=
  match f with
  | [] => None
  | (k', c) :: t => if str_eqb k k' then Some c else fget t k
  end.
Definition fhas {A} (f : list (str * A)) (k : str) : bool :=
  match fget f k with Some _ => true | None => false end.
(* insert or replace, keeping the list sorted *)
Fixpoint fset {A} (f : list (str * A)) (k : str) (c : A) : list (str * A) :=
  match f with
  | [] => [(k, c)]
  | (k', c') :: t =>
    match str_compare k k' with
    | Lt => (k, c) :: f
    | Eq => (k, c) :: t
    | Gt => (k', c') :: fset t k c
    end
  end.
Fixpoint fdel {A} (f : list (str * A)) (k : str) : list (str * A) :=
  match f with
  | [] => []
  | (k', c') :: t => if str_eqb k k' then t else (k', c') :: fdel t k
  end.
Definition fkeys {A} (f : list (str * A)) : list str := map fst f.

Definition map_cols (g : list cell -> list cell) (f : frame) : frame :=
  map (fun kc => (fst kc, (cname (snd kc), g (cdata (snd kc))))) f.

(* Nrows(): "length of whichever column the map yields first"; the model takes the
   first column in sorted order, which is the same number on rectangular frames. *)
Definition nrows (f : frame) : nat :=
  match f with [] => O | (_, c) :: _ => length (cdata c) end.
Definition ncols (f : frame) : nat := length f.

Definition rect (f : frame) : bool :=
  forallb (fun kc => Nat.eqb (length (cdata (snd kc))) (nrows f)) f.
Definition names_ok (f : frame) : bool :=
  forallb (fun kc => str_eqb (fst kc) (cname (snd kc))) f.
Fixpoint sorted_keys (l : list str) : bool :=
  match l with
  | [] => true
  | a :: t => match t with [] => true | b :: _ => str_ltb a b && sorted_keys t end
  end.
Definition wf_frame (f : frame) : bool := rect f && names_ok f && sorted_keys (fkeys f).

(* Row(i) *)
Definition frow (f : frame) (i : nat) : option rowmap :=
  if Nat.ltb i (nrows f) then
    all_some (map (fun kc => option_map (pair (fst kc)) (nth_opt (cdata (snd kc)) i)) f)
  else None.
Definition rows (f : frame) : list rowmap :=
  flat_map (fun i => match frow f i with Some r => [r] | None => [] end) (seq 0 (nrows f)).
Definition rget (r : rowmap) (k : str) : cell :=
  match fget r k with Some c => c | None => CNil end.

(* a frame with the given column names whose rows are the given row maps; a name absent
   from a row yields nil (AppendRow's padding) *)
Definition frame_of_rows (names : list str) (rs : list rowmap) : frame :=
  fold_right (fun k acc => fset acc k (k, map (fun r => rget r k) rs)) [] names.

(* the rows at the given positions, from every column (positions out of range are skipped) *)
Definition pick {A} (d : list A) (idxs : list nat) : list A :=
  flat_map (fun i => match nth_opt d i with Some c => [c] | None => [] end) idxs.
Definition take_rows (f : frame) (idxs : list nat) : frame :=
  map_cols (fun d => pick d idxs) f.

(* ---------- oracles: finite tables filled by the harness from the Go standard library ---------- *)
Record oracles := {
  o_pf : list (str * option fl);            (* strconv.ParseFloat(s, 64): Some on success *)
  o_fmt : list (cell * str);                (* fmt.Sprintf("%v", c) for float and time cells *)
  o_tparse : list ((str * str) * option (list Z))  (* time.Parse(layout, s) *)
}.
Fixpoint lookup {A B} (eqb : A -> A -> bool) (t : list (A * B)) (k : A) : option B :=
  match t with
  | [] => None
  | (k', v) :: r => if eqb k k' then Some v else lookup eqb r k
  end.
Definition pf (O : oracles) (s : str) : option fl :=
  match lookup str_eqb (o_pf O) s with Some r => r | None => None end.
Definition qmarks : str := [63; 63; 63]%N.
Definition fmtv (O : oracles) (c : cell) : str :=
  match lookup cell_same (o_fmt O) c with Some s => s | None => qmarks end.
Definition tparse (O : oracles) (layout s : str) : option (list Z) :=
  match lookup (fun a b => str_eqb (fst a) (fst b) && str_eqb (snd a) (snd b)) (o_tparse O) (layout, s) with
  | Some r => r | None => None end.

Definition s_nil : str := [60; 110; 105; 108; 62]%N.      (* "<nil>" *)
Definition s_true : str := [116; 114; 117; 101]%N.
Definition s_false : str := [102; 97; 108; 115; 101]%N.
(* fmt.Sprintf("%v", c) *)
Definition render (O : oracles) (c : cell) : str :=
  match c with
  | CNil => s_nil
  | CI _ z => dec_Z z
  | CS s => s
  | CB true => s_true
  | CB false => s_false
  | CF _ _ | CT _ => fmtv O c
  end.

(* toFloat (dataframe.go): every integer and float kind, and strings ParseFloat accepts *)
Definition to_float (O : oracles) (c : cell) : option fl :=
  match c with
  | CI _ z => Some (fl_of_Z z)
  | CF _ x => Some x
  | CS s => pf O s
  | _ => None
  end.

(* Z index into a list, Go style: None when out of range *)
Definition zidx {A} (l : list A) (i : Z) : option A :=
  if (0 <=? i) && (i <? Z.of_nat (length l)) then nth_opt l (Z.to_nat i) else None.
