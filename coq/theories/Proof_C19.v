(* Proof_C19.v - Shift: the wrapped index computation of the code agrees with unbounded
   arithmetic for every int64 offset; shape, Shift(0), round trip. *)
From GF Require Import Ops Lemmas.
From Coq Require Import Lia.

Definition in_i64 (z : Z) : Prop := - two63 <= z < two63.

(* the specification over unbounded integers *)
Definition shift0_cell (d : list cell) (p : Z) (i : nat) : cell :=
  let j := Z.of_nat i - p in
  if (0 <=? j) && (j <? Z.of_nat (length d)) then nth (Z.to_nat j) d CNil else CNil.
Definition shift0 (p : Z) (d : list cell) : list cell := map (shift0_cell d p) (seq 0 (length d)).

Lemma wrap_cases z : - two63 < z < two64 ->
  (z < two63 /\ wrap64 z = z) \/ (two63 <= z /\ wrap64 z = z - two64).
Proof.
  unfold wrap64, two63, two64 in *. intros H.
  destruct (Z_lt_ge_dec z (2^63)) as [L|G]; [left|right]; split; try lia.
  - rewrite Z.mod_small; lia.
  - replace (z + 2^63) with ((z - 2^63) + 1 * 2^64) by lia.
    rewrite Z.mod_add by lia. rewrite Z.mod_small; lia.
Qed.

Lemma shift_cell_spec p d i : in_i64 p -> Z.of_nat (length d) < two63 -> (i < length d)%nat ->
  shift_cell d p i = shift0_cell d p i.
Proof.
  intros Hp Hn Hi. unfold shift_cell, shift0_cell. cbv zeta.
  unfold in_i64 in Hp.
  assert (Hr : - two63 < Z.of_nat i - p < two64) by (unfold two63, two64 in *; lia).
  destruct (wrap_cases _ Hr) as [[_ E]|[G E]]; rewrite E.
  - destruct ((0 <=? Z.of_nat i - p) && (Z.of_nat i - p <? Z.of_nat (length d))) eqn:C; [|reflexivity].
    apply andb_prop in C. destruct C as [C1 C2]. apply Z.leb_le in C1. apply Z.ltb_lt in C2.
    rewrite (nth_opt_nth d _ CNil) by lia. reflexivity.
  - unfold two63, two64 in *.
    replace (0 <=? Z.of_nat i - p - 2 ^ 64) with false by (symmetry; apply Z.leb_gt; lia).
    replace (Z.of_nat i - p <? Z.of_nat (length d)) with false by (symmetry; apply Z.ltb_ge; lia).
    now rewrite andb_false_r.
Qed.

Lemma shift_col_spec p d : in_i64 p -> Z.of_nat (length d) < two63 -> shift_col p d = shift0 p d.
Proof.
  intros Hp Hn. unfold shift_col, shift0. apply map_ext_in. intros i Hi. apply in_seq in Hi.
  apply shift_cell_spec; auto; lia.
Qed.

Lemma shift_col_length p d : length (shift_col p d) = length d.
Proof. unfold shift_col. now rewrite map_length, seq_length. Qed.
Lemma shift0_length p d : length (shift0 p d) = length d.
Proof. unfold shift0. now rewrite map_length, seq_length. Qed.

Lemma shift0_nth p d i : (i < length d)%nat -> nth i (shift0 p d) CNil = shift0_cell d p i.
Proof.
  intros H. unfold shift0.
  rewrite nth_indep with (d' := shift0_cell d p 0%nat) by now rewrite map_length, seq_length.
  rewrite map_nth. now rewrite seq_nth.
Qed.

(* row i of the result holds what row i-p held, nil outside the frame *)
Lemma shift_col_nth p d i : in_i64 p -> Z.of_nat (length d) < two63 -> (i < length d)%nat ->
  nth i (shift_col p d) CNil =
  if (0 <=? Z.of_nat i - p) && (Z.of_nat i - p <? Z.of_nat (length d))
  then nth (Z.to_nat (Z.of_nat i - p)) d CNil else CNil.
Proof. intros Hp Hn Hi. rewrite shift_col_spec by assumption. now rewrite shift0_nth. Qed.

Lemma shift0_zero d : shift0 0 d = d.
Proof.
  apply nth_ext with (d := CNil) (d' := CNil); [apply shift0_length|].
  intros i Hi. rewrite shift0_length in Hi. rewrite shift0_nth by assumption.
  unfold shift0_cell. cbv zeta. rewrite Z.sub_0_r.
  replace (0 <=? Z.of_nat i) with true by (symmetry; apply Z.leb_le; lia).
  replace (Z.of_nat i <? Z.of_nat (length d)) with true by (symmetry; apply Z.ltb_lt; lia).
  cbn [andb]. now rewrite Nat2Z.id.
Qed.
Lemma shift_col_zero d : Z.of_nat (length d) < two63 -> shift_col 0 d = d.
Proof. intros H. rewrite shift_col_spec; [apply shift0_zero| unfold in_i64, two63; lia | assumption]. Qed.

Lemma shift0_roundtrip p d i : (i < length d)%nat ->
  0 <= Z.of_nat i + p < Z.of_nat (length d) ->
  nth i (shift0 (-p) (shift0 p d)) CNil = nth i d CNil.
Proof.
  intros Hi Hr. rewrite shift0_nth by now rewrite shift0_length.
  unfold shift0_cell at 1. cbv zeta. rewrite shift0_length.
  replace (Z.of_nat i - - p) with (Z.of_nat i + p) by lia.
  replace (0 <=? Z.of_nat i + p) with true by (symmetry; apply Z.leb_le; lia).
  replace (Z.of_nat i + p <? Z.of_nat (length d)) with true by (symmetry; apply Z.ltb_lt; lia).
  cbn [andb]. rewrite shift0_nth by lia. unfold shift0_cell. cbv zeta.
  rewrite Z2Nat.id by lia.
  replace (Z.of_nat i + p - p) with (Z.of_nat i) by lia.
  replace (0 <=? Z.of_nat i) with true by (symmetry; apply Z.leb_le; lia).
  replace (Z.of_nat i <? Z.of_nat (length d)) with true by (symmetry; apply Z.ltb_lt; lia).
  cbn [andb]. now rewrite Nat2Z.id.
Qed.
Lemma shift_col_roundtrip p d i : in_i64 p -> in_i64 (- p) -> Z.of_nat (length d) < two63 ->
  (i < length d)%nat -> 0 <= Z.of_nat i + p < Z.of_nat (length d) ->
  nth i (shift_col (-p) (shift_col p d)) CNil = nth i d CNil.
Proof.
  intros Hp Hp' Hn Hi Hr.
  rewrite (shift_col_spec p d) by assumption.
  rewrite shift_col_spec; [| assumption | now rewrite shift0_length].
  now apply shift0_roundtrip.
Qed.

(* frame level: same names, same shape, every column moved by the same offset *)
Lemma op_shift_keys f p : fkeys (op_shift f p) = fkeys f.
Proof. unfold op_shift, rekey_cols, fkeys. rewrite map_map. apply map_ext. now intros [k c]. Qed.
Lemma op_shift_cols f p : map (fun kc => cdata (snd kc)) (op_shift f p) = map (fun kc => shift_col p (cdata (snd kc))) f.
Proof. unfold op_shift, rekey_cols. rewrite map_map. apply map_ext. now intros [k c]. Qed.
Lemma op_shift_names_ok f p : names_ok (op_shift f p) = true.
Proof.
  unfold names_ok, op_shift, rekey_cols. rewrite forallb_forall. intros [k c] H.
  apply in_map_iff in H. destruct H as [[k' c'] [E _]]. inversion E; subst. cbn.
  apply str_eqb_refl.
Qed.
Lemma op_shift_rect f p : rect f = true -> rect (op_shift f p) = true.
Proof.
  unfold rect. rewrite !forallb_forall. intros H [k c] Hin.
  unfold op_shift, rekey_cols in Hin. apply in_map_iff in Hin. destruct Hin as [[k' c'] [E Hin]].
  inversion E; subst. cbn. rewrite shift_col_length.
  specialize (H _ Hin). cbn in H. apply Nat.eqb_eq in H. rewrite H.
  apply Nat.eqb_eq. unfold nrows, op_shift, rekey_cols. destruct f as [|[k0 c0] t]; cbn; auto.
  now rewrite shift_col_length.
Qed.

Example shift_extreme :
  shift_col (- two63) [CI KInt 1; CI KInt 2; CI KInt 3] = [CNil; CNil; CNil]
  /\ shift_col (two63 - 1) [CI KInt 1; CI KInt 2; CI KInt 3] = [CNil; CNil; CNil]
  /\ shift_col 1 [CI KInt 1; CI KInt 2; CI KInt 3] = [CNil; CI KInt 1; CI KInt 2].
Proof. vm_compute. repeat split. Qed.
