(* Proof_C09b.v - C09 end to end, at the level of cells: ToCSV followed by FromCSV gives
   back the same column names in the same order, the same number of rows in the same
   order, every numeric cell as the same float64 and every text cell unchanged - for
   text that is trimmed and does not itself read as a number.

   The facts about strconv the property relies on (ParseFloat (FormatFloat x) = x,
   ParseFloat (itoa z) = float64 z, ParseFloat refuses the text cells) are hypotheses
   on the oracle tables here (`csv_cell_ok`); the harness validates them per case. *)
From GF Require Import Ops Lemmas Csv Proof_C09.
From Coq Require Import Lia.
Arguments N.eqb : simpl never.
Local Open Scope nat_scope.

(* ---------- what a cell becomes ---------- *)
(* integers and floats come back as float64, text comes back as itself *)
Definition csv_image (c : cell) : cell :=
  match c with
  | CI _ z => CF KF64 (fl_of_Z z)
  | CF _ x => CF KF64 x
  | _ => c
  end.
Definition csv_frame_image (f : frame) : frame :=
  map (fun kc => (fst kc, (fst kc, map csv_image (cdata (snd kc))))) f.

(* H3 + H4 for one cell, as a proposition ... *)
Definition cell_premise (O : oracles) (c : cell) : Prop :=
  match c with
  | CI _ z => pf O (trim_space (dec_Z z)) = Some (fl_of_Z z)
  | CF _ x => pf O (trim_space (fmtv O c)) = Some x
  | CS s => trim_space s = s /\ pf O s = None
  | _ => False
  end.
(* ... and as a boolean (fl_same is structural identity, so NaN = NaN here) *)
Definition opt_fl_same (a b : option fl) : bool :=
  match a, b with
  | Some x, Some y => fl_same x y
  | None, None => true
  | _, _ => false
  end.
Definition csv_cell_ok (O : oracles) (c : cell) : bool :=
  match c with
  | CI _ z => opt_fl_same (pf O (trim_space (dec_Z z))) (Some (fl_of_Z z))
  | CF _ x => opt_fl_same (pf O (trim_space (fmtv O c))) (Some x)
  | CS s => str_eqb (trim_space s) s && negb (is_some (pf O s))
  | _ => false
  end.
Definition csv_cells_ok (O : oracles) (f : frame) : bool :=
  forallb (fun kc => forallb (csv_cell_ok O) (cdata (snd kc))) f.

Lemma fl_same_eq a b : fl_same a b = true <-> a = b.
Proof.
  destruct a, b; cbn [fl_same]; split; intro H; try discriminate; try reflexivity.
  - apply Z.eqb_eq in H. now subst.
  - inversion H. apply Z.eqb_refl.
Qed.
Lemma opt_fl_same_eq a b : opt_fl_same a b = true <-> a = b.
Proof.
  destruct a as [x|], b as [y|]; cbn [opt_fl_same]; split; intro H; try discriminate; try reflexivity.
  - apply fl_same_eq in H. now subst.
  - inversion H. now apply fl_same_eq.
Qed.

Lemma csv_cell_ok_spec O c : csv_cell_ok O c = true <-> cell_premise O c.
Proof.
  destruct c; cbn [csv_cell_ok cell_premise]; try (split; [discriminate|contradiction]).
  - apply opt_fl_same_eq.
  - apply opt_fl_same_eq.
  - split.
    + intros H. apply andb_prop in H. destruct H as [H1 H2]. apply str_eqb_eq in H1.
      split; [exact H1|]. destruct (pf O s); [discriminate|reflexivity].
    + intros [H1 H2]. rewrite H1, H2, str_eqb_refl. reflexivity.
Qed.

Lemma csv_cells_ok_spec O f : csv_cells_ok O f = true ->
  forall kc c, In kc f -> In c (cdata (snd kc)) -> cell_premise O c.
Proof.
  unfold csv_cells_ok. intros H kc c Hkc Hc. rewrite forallb_forall in H.
  specialize (H kc Hkc). rewrite forallb_forall in H. apply csv_cell_ok_spec. now apply H.
Qed.

(* the reader's typing rule applied to what the writer rendered *)
Lemma csv_cell_image O c : cell_premise O c -> csv_cell O (render O c) = csv_image c.
Proof.
  destruct c; cbn [cell_premise render csv_image]; try contradiction.
  - intros H. unfold csv_cell. cbv zeta. now rewrite H.
  - intros H. unfold csv_cell. cbv zeta. now rewrite H.
  - intros [H1 H2]. unfold csv_cell. cbv zeta. rewrite H1, H2. reflexivity.
Qed.

(* ---------- lists ---------- *)
Lemma all_some_map_some {A B} (g : A -> B) l : all_some (map (fun x => Some (g x)) l) = Some (map g l).
Proof. induction l as [|x l IH]; [reflexivity|]. cbn [map all_some]. now rewrite IH. Qed.

Lemma nth_field_map {A} (R : A -> str) l j d : j < length l -> nth_field (map R l) j = R (nth j l d).
Proof.
  revert j; induction l as [|x l IH]; intros [|j] H; cbn [length] in H; try lia; cbn [map nth_field nth].
  - reflexivity.
  - apply IH. lia.
Qed.

Lemma map_nth_seq {A B} (F : A -> B) l d : map (fun i => F (nth i l d)) (seq 0 (length l)) = map F l.
Proof.
  induction l as [|x l IH]; [reflexivity|]. cbn [length seq map nth]. f_equal.
  rewrite <- seq_shift. rewrite map_map. exact IH.
Qed.

Lemma nth_opt_map {A B} (F : A -> B) l i : nth_opt (map F l) i = option_map F (nth_opt l i).
Proof. revert i; induction l as [|x l IH]; intros [|i]; cbn [map nth_opt option_map]; auto. Qed.

Lemma map_snd_combine_seq {A} (l : list A) s : map snd (combine (seq s (length l)) l) = l.
Proof.
  revert s; induction l as [|x l IH]; intros s; [reflexivity|].
  cbn [length seq combine map snd]. f_equal. apply IH.
Qed.

(* a map over the indexed keys of l is a map over l, when the two agree position by position *)
Lemma map_combine_seq {A K B} (key : A -> K) (P : nat -> K -> B) (Q : A -> B) (l : list A) d s :
  (forall j, j < length l -> P (s + j) (key (nth j l d)) = Q (nth j l d)) ->
  map (fun ik => P (fst ik) (snd ik)) (combine (seq s (length (map key l))) (map key l)) = map Q l.
Proof.
  revert s; induction l as [|x l IH]; intros s H; [reflexivity|].
  cbn [map length seq combine fst snd]. f_equal.
  - specialize (H 0). cbn [nth length] in H. rewrite Nat.add_0_r in H. apply H. lia.
  - apply IH. intros j Hj. specialize (H (S j)). cbn [nth length] in H.
    rewrite Nat.add_succ_r in H. apply H. lia.
Qed.

(* ---------- folding fset over a strictly sorted key list appends ---------- *)
Lemma sorted_app_lt a k r x : sorted_keys (a ++ k :: r) = true -> In x a -> str_ltb x k = true.
Proof.
  induction a as [|y a IH]; intros H Hin; [contradiction|].
  destruct Hin as [E|Hin].
  - subst y. apply (sorted_keys_lt x (a ++ k :: r)); [exact H|].
    apply in_or_app. right. left. reflexivity.
  - apply IH; [|exact Hin]. apply sorted_keys_tail with y. exact H.
Qed.

Lemma fset_snoc {A} (acc : list (str * A)) k c :
  (forall x, In x (fkeys acc) -> str_ltb x k = true) -> fset acc k c = acc ++ [(k, c)].
Proof.
  induction acc as [|[k' c'] t IH]; intros H; cbn [fset app]; [reflexivity|].
  assert (Hlt : str_ltb k' k = true) by (apply H; simpl; auto).
  unfold str_ltb in Hlt. destruct (str_compare k' k) eqn:E; try discriminate.
  rewrite (str_compare_antisym k' k), E. cbn [CompOpp]. f_equal.
  apply IH. intros x Hin. apply H. simpl. auto.
Qed.

Lemma fold_fset_sorted {A I} (G : I * str -> A) (l : list (I * str)) (acc : list (str * A)) :
  sorted_keys (fkeys acc ++ map snd l) = true ->
  fold_left (fun a ih => fset a (snd ih) (G ih)) l acc = acc ++ map (fun ih => (snd ih, G ih)) l.
Proof.
  revert acc; induction l as [|ih l IH]; intros acc H; cbn [fold_left map].
  - now rewrite app_nil_r.
  - cbn [map] in H. rewrite fset_snoc.
    + rewrite IH.
      * rewrite <- app_assoc. reflexivity.
      * unfold fkeys. rewrite map_app. cbn [map fst]. rewrite <- app_assoc. exact H.
    + intros x Hin. apply (sorted_app_lt _ _ _ _ H Hin).
Qed.

(* the form asked for: over a strictly sorted key list the fold rebuilds the columns in order *)
Corollary fold_fset_sorted_id {A} (colf : str -> A) (keys : list str) :
  sorted_keys keys = true ->
  fold_left (fun a k => fset a k (colf k)) keys [] = map (fun k => (k, colf k)) keys.
Proof.
  intros H.
  assert (E : fold_left (fun a ih => fset a (snd ih) (colf (snd ih))) (map (fun k => (tt, k)) keys) []
              = [] ++ map (fun ih => (snd ih, colf (snd ih))) (map (fun k => (tt, k)) keys)).
  { apply (fold_fset_sorted (fun ih : unit * str => colf (snd ih))).
    cbn [fkeys map app]. rewrite map_map. cbn [snd]. now rewrite map_id. }
  cbn [app] in E. rewrite map_map in E. cbn [snd] in E. rewrite <- E.
  clear. generalize (@nil (str * A)). induction keys as [|k keys IH]; intros acc; [reflexivity|].
  cbn [map fold_left snd]. apply IH.
Qed.

(* ---------- the rows of a rectangular frame ---------- *)
Lemma rect_len f kc : rect f = true -> In kc f -> length (cdata (snd kc)) = nrows f.
Proof.
  unfold rect. intros H Hin. rewrite forallb_forall in H. specialize (H kc Hin). now apply Nat.eqb_eq.
Qed.

Lemma frow_rect f i : rect f = true -> i < nrows f ->
  frow f i = Some (map (fun kc => (fst kc, nth i (cdata (snd kc)) CNil)) f).
Proof.
  intros Hr Hi. unfold frow. assert (E : Nat.ltb i (nrows f) = true) by now apply Nat.ltb_lt.
  rewrite E.
  rewrite <- (all_some_map_some (fun kc : str * col => (fst kc, nth i (cdata (snd kc)) CNil))).
  f_equal. apply map_ext_in. intros kc Hin.
  rewrite (nth_opt_nth _ _ CNil); [reflexivity|]. rewrite (rect_len f kc Hr Hin). exact Hi.
Qed.

Lemma rows_rect f : rect f = true ->
  all_some (map (frow f) (seq 0 (nrows f)))
  = Some (map (fun i => map (fun kc => (fst kc, nth i (cdata (snd kc)) CNil)) f) (seq 0 (nrows f))).
Proof.
  intros Hr.
  rewrite <- (all_some_map_some (fun i => map (fun kc : str * col => (fst kc, nth i (cdata (snd kc)) CNil)) f)).
  f_equal. apply map_ext_in. intros i Hin. apply in_seq in Hin. apply frow_rect; [exact Hr|lia].
Qed.

(* column j of the rendered rows, read cell by cell, is column j of the frame under
   "render, then type" *)
Lemma column_back O f j d : rect f = true -> j < length f ->
  map (fun r => csv_cell O (nth_field r j))
      (map (map (fun kv : str * cell => render O (snd kv)))
           (map (fun i => map (fun kc : str * col => (fst kc, nth i (cdata (snd kc)) CNil)) f) (seq 0 (nrows f))))
  = map (fun c => csv_cell O (render O c)) (cdata (snd (nth j f d))).
Proof.
  intros Hr Hj. rewrite !map_map.
  rewrite <- (map_nth_seq (fun c => csv_cell O (render O c)) (cdata (snd (nth j f d))) CNil).
  rewrite (rect_len f (nth j f d) Hr (nth_In f d Hj)).
  apply map_ext. intros i. rewrite map_map. cbn [snd].
  rewrite (nth_field_map (fun kc : str * col => render O (nth i (cdata (snd kc)) CNil)) f j d Hj).
  reflexivity.
Qed.

(* ---------- the image frame ---------- *)
Lemma image_fkeys f : fkeys (csv_frame_image f) = fkeys f.
Proof. unfold fkeys, csv_frame_image. rewrite map_map. reflexivity. Qed.
Lemma image_nrows f : nrows (csv_frame_image f) = nrows f.
Proof. destruct f as [|[k c] t]; [reflexivity|]. cbn [csv_frame_image map nrows fst snd cdata]. apply map_length. Qed.
Lemma image_length f : length (csv_frame_image f) = length f.
Proof. apply map_length. Qed.
Lemma image_wf f : wf_frame f = true -> wf_frame (csv_frame_image f) = true.
Proof.
  unfold wf_frame. intros H. apply andb_prop in H. destruct H as [H Hs].
  apply andb_prop in H. destruct H as [Hr Hn]. rewrite image_fkeys, Hs.
  assert (R : rect (csv_frame_image f) = true).
  { unfold rect. apply forallb_forall. intros kc' Hin. unfold csv_frame_image in Hin at 1.
    apply in_map_iff in Hin. destruct Hin as [kc [E Hin]]. subst kc'.
    cbn [snd cdata]. rewrite map_length, image_nrows. apply Nat.eqb_eq. now apply rect_len. }
  assert (N : names_ok (csv_frame_image f) = true).
  { unfold names_ok. apply forallb_forall. intros kc' Hin. unfold csv_frame_image in Hin.
    apply in_map_iff in Hin. destruct Hin as [kc [E Hin]]. subst kc'.
    cbn [fst snd cname]. apply str_eqb_refl. }
  now rewrite R, N.
Qed.
(* with the names equal to the keys, the image is map_cols *)
Lemma image_map_cols f : names_ok f = true -> csv_frame_image f = map_cols (map csv_image) f.
Proof.
  unfold names_ok, csv_frame_image, map_cols. intros H. apply map_ext_in. intros kc Hin.
  rewrite forallb_forall in H. specialize (H kc Hin). apply str_eqb_eq in H. now rewrite <- H.
Qed.
Lemma fget_image f k c : fget f k = Some c ->
  fget (csv_frame_image f) k = Some (k, map csv_image (cdata c)).
Proof.
  induction f as [|[k0 c0] t IH]; [discriminate|].
  cbn [csv_frame_image map fget fst snd]. destruct (str_eqb k k0) eqn:E.
  - intros H. inversion H. subst c0. apply str_eqb_eq in E. now subst k0.
  - exact IH.
Qed.

(* ---------- MAIN ---------- *)
(* hypotheses on cells as propositions (H3 + H4 of the property) *)
Theorem to_from_csv_prop O f :
  wf_frame f = true -> f <> [] -> csv_safe O f = true ->
  (forall kc c, In kc f -> In c (cdata (snd kc)) -> cell_premise O c) ->
  exists b, op_to_csv O f = Ok b /\ op_from_csv O b = Ok (csv_frame_image f).
Proof.
  intros Hwf Hne Hsafe Hcells.
  unfold wf_frame in Hwf. apply andb_prop in Hwf. destruct Hwf as [Hwf Hsort].
  apply andb_prop in Hwf. destruct Hwf as [Hrect Hnames].
  assert (Hrows := rows_rect f Hrect).
  remember (map (fun i => map (fun kc : str * col => (fst kc, nth i (cdata (snd kc)) CNil)) f)
                (seq 0 (nrows f))) as rs eqn:Ers.
  assert (Hb : op_to_csv O f
               = Ok (wfile (fkeys f :: map (fun r => map (fun kv => render O (snd kv)) r) rs))).
  { unfold op_to_csv. cbv zeta. rewrite Hrows. reflexivity. }
  eexists. split; [exact Hb|].
  destruct (to_csv_parse O f _ Hne Hsafe Hb) as [rs' [Hrs' Hp]].
  rewrite Hrows in Hrs'. inversion Hrs'. subst rs'. clear Hrs'.
  unfold op_from_csv. rewrite Hp. rewrite (sorted_keys_no_dup _ Hsort). f_equal.
  rewrite (fold_fset_sorted
             (fun ih : nat * str =>
                (snd ih, map (fun r => csv_cell O (nth_field r (fst ih)))
                             (map (map (fun kv : str * cell => render O (snd kv))) rs)))).
  2:{ cbn [fkeys map app]. rewrite map_snd_combine_seq. exact Hsort. }
  cbn [app]. unfold fkeys, csv_frame_image.
  apply (map_combine_seq fst
           (fun i k => (k, (k, map (fun r => csv_cell O (nth_field r i))
                                   (map (map (fun kv : str * cell => render O (snd kv))) rs))))
           (fun kc : str * col => (fst kc, (fst kc, map csv_image (cdata (snd kc)))))
           f ([], ([], [])) 0).
  intros j Hj. cbn [Nat.add]. f_equal. f_equal. subst rs.
  rewrite (column_back O f j ([], ([], [])) Hrect Hj).
  apply map_ext_in. intros c Hc. apply csv_cell_image.
  apply (Hcells (nth j f ([], ([], [])))); [now apply nth_In|exact Hc].
Qed.

(* the theorem with every hypothesis a boolean *)
Theorem to_from_csv O f :
  wf_frame f = true -> f <> [] -> csv_safe O f = true -> csv_cells_ok O f = true ->
  exists b g, op_to_csv O f = Ok b /\ op_from_csv O b = Ok g /\
    map (fun kc => (fst kc, (fst kc, map csv_image (cdata (snd kc))))) f = g.
Proof.
  intros Hwf Hne Hsafe Hc.
  destruct (to_from_csv_prop O f Hwf Hne Hsafe (csv_cells_ok_spec O f Hc)) as [b [Hb Hg]].
  exists b, (csv_frame_image f). repeat split; assumption.
Qed.

(* the same, for whatever text and frame the two calls returned *)
Corollary to_from_csv_fun O f b g :
  wf_frame f = true -> f <> [] -> csv_safe O f = true -> csv_cells_ok O f = true ->
  op_to_csv O f = Ok b -> op_from_csv O b = Ok g ->
  g = csv_frame_image f /\ g = map_cols (map csv_image) f.
Proof.
  intros Hwf Hne Hsafe Hc Hb Hg.
  destruct (to_from_csv_prop O f Hwf Hne Hsafe (csv_cells_ok_spec O f Hc)) as [b' [Hb' Hg']].
  rewrite Hb in Hb'. inversion Hb' as [Eb]. subst b'. rewrite Hg in Hg'. inversion Hg' as [Eg].
  split; [reflexivity|]. apply image_map_cols.
  unfold wf_frame in Hwf. apply andb_prop in Hwf. destruct Hwf as [Hwf _].
  apply andb_prop in Hwf. now destruct Hwf.
Qed.

(* column by column and cell by cell *)
Corollary to_from_csv_cell O f b g :
  wf_frame f = true -> f <> [] -> csv_safe O f = true -> csv_cells_ok O f = true ->
  op_to_csv O f = Ok b -> op_from_csv O b = Ok g ->
  forall k c, fget f k = Some c ->
    fget g k = Some (k, map csv_image (cdata c)) /\
    forall i x, nth_opt (cdata c) i = Some x ->
      nth_opt (map csv_image (cdata c)) i = Some (csv_image x).
Proof.
  intros Hwf Hne Hsafe Hc Hb Hg k c Hk.
  destruct (to_from_csv_fun O f b g Hwf Hne Hsafe Hc Hb Hg) as [E _]. subst g. split.
  - now apply fget_image.
  - intros i x Hx. rewrite nth_opt_map, Hx. reflexivity.
Qed.

(* the property's words: same names, same number of rows, a well-formed frame *)
Corollary to_from_csv_shape O f :
  wf_frame f = true -> f <> [] -> csv_safe O f = true -> csv_cells_ok O f = true ->
  exists b g, op_to_csv O f = Ok b /\ op_from_csv O b = Ok g /\
    fkeys g = fkeys f /\ nrows g = nrows f /\ wf_frame g = true.
Proof.
  intros Hwf Hne Hsafe Hc.
  destruct (to_from_csv O f Hwf Hne Hsafe Hc) as [b [g [Hb [Hg E]]]].
  exists b, g. split; [exact Hb|]. split; [exact Hg|]. subst g.
  change (fkeys (csv_frame_image f) = fkeys f /\ nrows (csv_frame_image f) = nrows f
          /\ wf_frame (csv_frame_image f) = true).
  split; [apply image_fkeys|]. split; [apply image_nrows|]. now apply image_wf.
Qed.

(* ---------- the hypotheses are met ---------- *)
(* columns "a" = [5; -12] and "b" = ["x, y"; 1.5]; the oracle tables hold what strconv and
   fmt answer for these cells *)
Definition ex_x15 : fl := FFin (Z.shiftl 3 1073).
Definition ex_O : oracles :=
  {| o_pf := [([53]%N, Some (fl_of_Z 5%Z)); ([45; 49; 50]%N, Some (fl_of_Z (-12)%Z));
              ([49; 46; 53]%N, Some ex_x15)];
     o_fmt := [(CF KF64 ex_x15, [49; 46; 53]%N)];
     o_tparse := [] |}.
Definition ex_f : frame :=
  [([97]%N, ([97]%N, [CI KInt 5%Z; CI KInt (-12)%Z]));
   ([98]%N, ([98]%N, [CS [120; 44; 32; 121]%N; CF KF64 ex_x15]))].
Example to_from_csv_ex :
  wf_frame ex_f = true /\ csv_safe ex_O ex_f = true /\ csv_cells_ok ex_O ex_f = true /\
  match op_to_csv ex_O ex_f with
  | Ok b => op_from_csv ex_O b =
      Ok [([97]%N, ([97]%N, [CF KF64 (fl_of_Z 5%Z); CF KF64 (fl_of_Z (-12)%Z)]));
          ([98]%N, ([98]%N, [CS [120; 44; 32; 121]%N; CF KF64 ex_x15]))]
  | _ => False
  end.
Proof. vm_compute. repeat split. Qed.
Example to_from_csv_ex_ne : ex_f <> [].
Proof. discriminate. Qed.

(* each cell hypothesis is needed (vm_compute): untrimmed text comes back trimmed, text
   that reads as a number comes back as a float *)
Example to_from_csv_needs_trimmed :
  let f : frame := [([97]%N, ([97]%N, [CS [32; 120]%N]))] in
  match op_to_csv ex_O f with
  | Ok b => op_from_csv ex_O b = Ok [([97]%N, ([97]%N, [CS [120]%N]))]
  | _ => False
  end.
Proof. vm_compute. reflexivity. Qed.
Example to_from_csv_needs_non_numeric :
  let f : frame := [([97]%N, ([97]%N, [CS [53]%N]))] in
  match op_to_csv ex_O f with
  | Ok b => op_from_csv ex_O b = Ok [([97]%N, ([97]%N, [CF KF64 (fl_of_Z 5%Z)]))]
  | _ => False
  end.
Proof. vm_compute. reflexivity. Qed.
(* and so is f <> []: the frame without columns is written as one blank line *)
Example to_from_csv_needs_column : match op_to_csv ex_O [] with Ok b => op_from_csv ex_O b = Err | _ => False end.
Proof. vm_compute. reflexivity. Qed.

Print Assumptions to_from_csv_prop.
Print Assumptions to_from_csv.
Print Assumptions to_from_csv_fun.
Print Assumptions to_from_csv_cell.
Print Assumptions to_from_csv_shape.
Print Assumptions fold_fset_sorted_id.
