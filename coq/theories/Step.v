(* Step.v - the public surface as one operation type acting on a pool of live frames;
   step: the model's transition function.  Definitions only. *)
From GF Require Export Csv View.

Inductive val :=
| VNone
| VFrame (f : frame)                         (* a new frame; it joins the pool *)
| VRow (r : rowmap)
| VStrs (l : list str)
| VInt (z : Z)
| VBytes (s : str)
| VFloats (m : list (str * fl))
| VGroups (g : groups)                       (* groups in KeyOrder *)
| VFilter (f : frame) (seen : list rowmap)   (* new frame + the rows the predicate saw *)
| VCells (n : str) (l : list cell).          (* a column name and some of its cells *)

Inductive op :=
(* deriving operations: the result is a new frame *)
| OHead (f : nat) (n : Z)
| OTail (f : nat) (n : Z)
| ORowSlice (f : nat) (a b : Z)
| OFilter (f : nat) (keep : list bool)
| OLoc (f : nat) (labels : list cell) (cols : list str)
| OIloc (f : nat) (rws cls : list Z)
| OMultiSelect (f : nat) (names : list str)
| OSort (f : nat) (by_ : list str) (asc : option bool)
| OShift (f : nat) (p : Z)
| ODedup (f : nat) (has_opt : bool) (subset : list str) (keep : str)
| OJoin (k : jkind) (f g : nat) (key : str)
| OAdd (f g : nat) (fill : option cell)
| OApply (f : nat) (fn : nat) (axis : option (list Z))
| ODescribe (f : nat)
| OResample (f : nat) (tcol freq : str) (agg : nat)
| OGroupAgg (f : nat) (gk : gkey) (a : gagg) (cols : list str)
| OFromCSV (b : str)
| OCsvRoundTrip (f : nat)
(* observations *)
| OGroupby (f : nat) (gk : gkey)
| OToCSV (f : nat)
| ORow (f : nat) (i : Z)
| OColumnNames (f : nat)
| ONrows (f : nat)
| ONcols (f : nat)
| OAgg (f : nat) (k : aggk)
| OString (f : nat)
| OSelect (f : nat) (name : str)
| OColAt (f : nat) (name : str) (i : Z)
| OSeries (f : nat) (name : str) (i : Z)
| OPlot (bar : bool) (f : nat) (x y : str) (path_ok render_ok : bool)
| OGroupbyOther (f : nat) (accepted : bool)
| OIoFail (f : nat) (reported : bool)    (* an export of frame f to a sink that fails; reported: the call returned an error *)
(* in-place edits *)
| OAppendRow (f : nat) (r : rowmap)
| ODropRow (f : nat) (i : Z)
| OFillNa (f : nat) (v : cell)
| ODropNa (f : nat)
| OAstype (f : nat) (cn ty : str)
| ODatetime (f : nat) (cn layout : str)
| ORename (f : nat) (a b : str)
| OAddColumn (f : nat) (n : str) (d : list cell)
| ODropColumn (f : nat) (n : str)
| OSetCell (f : nat) (cn : str) (i : Z) (v : cell)
| ODedupInplace (f : nat) (subset : list str) (keep : str).

Definition pool := list frame.

Definition with_frame {A} (p : pool) (i : nat) (k : frame -> out A) : out A :=
  match nth_opt p i with Some f => k f | None => Err end.

(* a deriving operation: pool grows by the new frame *)
Definition derive (p : pool) (r : out frame) : out val * pool :=
  match r with
  | Ok f => (Ok (VFrame f), p ++ [f])
  | Err => (Err, p)
  | Panic => (Panic, p)
  end.
(* an edit of frame i: on success the frame is replaced, on failure nothing changes *)
Definition edit (p : pool) (i : nat) (r : out frame) : out val * pool :=
  match r with
  | Ok f => (Ok VNone, set_nth p i f)
  | Err => (Err, p)
  | Panic => (Panic, p)
  end.
Definition observe (p : pool) (r : out val) : out val * pool := (r, p).
Definition lift {A B} (g : A -> B) (o : out A) : out B :=
  match o with Ok a => Ok (g a) | Err => Err | Panic => Panic end.

Definition step (O : oracles) (p : pool) (o : op) : out val * pool :=
  match o with
  | OHead i n => derive p (with_frame p i (fun f => op_head f n))
  | OTail i n => derive p (with_frame p i (fun f => op_tail f n))
  | ORowSlice i a b => derive p (with_frame p i (fun f => Ok (op_rowslice f a b)))
  | OFilter i keep =>
    match nth_opt p i with
    | Some f => let r := op_filter f keep in (Ok (VFilter (fst r) (snd r)), p ++ [fst r])
    | None => (Err, p)
    end
  | OLoc i labels cols => derive p (with_frame p i (fun f => op_loc f labels cols))
  | OIloc i rws cls => derive p (with_frame p i (fun f => op_iloc f rws cls))
  | OMultiSelect i names => derive p (with_frame p i (fun f => op_multiselect f names))
  | OSort i by_ asc =>
    derive p (with_frame p i (fun f => op_sort O f by_ (match asc with Some b => b | None => true end)))
  | OShift i n => derive p (with_frame p i (fun f => Ok (op_shift f n)))
  | ODedup i has_opt subset keep => derive p (with_frame p i (fun f => op_dedup f has_opt subset keep))
  | OJoin k i j key =>
    derive p (with_frame p i (fun f => with_frame p j (fun g => op_join k f g key)))
  | OAdd i j fill => derive p (with_frame p i (fun f => with_frame p j (fun g => op_add O f g fill)))
  | OApply i fn axis => derive p (with_frame p i (fun f => op_apply fn f axis))
  | ODescribe i => derive p (with_frame p i (fun f => Ok (op_describe O f)))
  | OResample i tcol freq agg => derive p (with_frame p i (fun f => op_resample f tcol freq agg))
  | OGroupAgg i gk a cols => derive p (with_frame p i (fun f => op_group_agg O f gk a cols))
  | OFromCSV b => derive p (op_from_csv O b)
  | OCsvRoundTrip i =>
    derive p (with_frame p i (fun f => do b <- op_to_csv O f; op_from_csv O b))
  | OGroupby i gk => observe p (with_frame p i (fun f => lift VGroups (op_groupby O f gk)))
  | OToCSV i => observe p (with_frame p i (fun f => lift VBytes (op_to_csv O f)))
  | ORow i n => observe p (with_frame p i (fun f => lift VRow (op_row f n)))
  | OColumnNames i => observe p (with_frame p i (fun f => Ok (VStrs (fkeys f))))
  | ONrows i => observe p (with_frame p i (fun f => Ok (VInt (Z.of_nat (nrows f)))))
  | ONcols i => observe p (with_frame p i (fun f => Ok (VInt (Z.of_nat (ncols f)))))
  | OAgg i k => observe p (with_frame p i (fun f => lift VFloats (op_agg O k f)))
  | OString i => observe p (with_frame p i (fun f => Ok (VBytes (op_string O f))))
  | OSelect i name => observe p (with_frame p i (fun f => lift (fun nc => VCells (fst nc) (snd nc)) (op_select f name)))
  | OColAt i name n => observe p (with_frame p i (fun f => lift (fun nc => VCells (fst nc) (snd nc)) (op_colat f name n)))
  | OSeries i name n => observe p (with_frame p i (fun f => lift (fun nc => VCells (fst nc) (snd nc)) (op_series f name n)))
  | OPlot bar i x y pk rk => observe p (with_frame p i (fun f => lift (fun _ => VNone) (op_plot bar f x y pk rk)))
  | OGroupbyOther i acc => observe p (with_frame p i (fun _ => lift VGroups (op_groupby_other acc)))
  | OIoFail i reported => observe p (with_frame p i (fun _ => if reported then Err else Ok VNone))
  | OAppendRow i r => edit p i (with_frame p i (fun f => Ok (op_append_row f r)))
  | ODropRow i n => edit p i (with_frame p i (fun f => op_droprow f n))
  | OFillNa i v => edit p i (with_frame p i (fun f => Ok (op_fillna f v)))
  | ODropNa i => edit p i (with_frame p i (fun f => op_dropna f))
  | OAstype i cn ty => edit p i (with_frame p i (fun f => op_astype O f cn ty))
  | ODatetime i cn layout => edit p i (with_frame p i (fun f => op_datetime O f cn layout))
  | ORename i a b => edit p i (with_frame p i (fun f => op_rename f a b))
  | OAddColumn i n d => edit p i (with_frame p i (fun f => op_addcolumn f n d))
  | ODropColumn i n => edit p i (with_frame p i (fun f => op_dropcolumn f n))
  | OSetCell i cn n v => edit p i (with_frame p i (fun f => op_setcell f cn n v))
  | ODedupInplace i subset keep => edit p i (with_frame p i (fun f => op_dedup_inplace f subset keep))
  end.

Definition run (O : oracles) (p : pool) (ops : list op) : pool :=
  fold_left (fun q o => snd (step O q o)) ops p.

(* ---------- structural comparison of observations ---------- *)
Definition col_same (a b : col) : bool := str_eqb (fst a) (fst b) && cells_same (snd a) (snd b).
Definition frame_same (a b : frame) : bool :=
  list_eqb (fun x y => str_eqb (fst x) (fst y) && col_same (snd x) (snd y)) a b.
Definition row_same (a b : rowmap) : bool :=
  list_eqb (fun x y => str_eqb (fst x) (fst y) && cell_same (snd x) (snd y)) a b.
Definition pool_same (a b : pool) : bool := list_eqb frame_same a b.
Definition val_same (a b : val) : bool :=
  match a, b with
  | VNone, VNone => true
  | VFrame x, VFrame y => frame_same x y
  | VRow x, VRow y => row_same x y
  | VStrs x, VStrs y => list_eqb str_eqb x y
  | VInt x, VInt y => Z.eqb x y
  | VBytes x, VBytes y => str_eqb x y
  | VFloats x, VFloats y => list_eqb (fun p q => str_eqb (fst p) (fst q) && fl_same (snd p) (snd q)) x y
  | VGroups x, VGroups y =>
    list_eqb (fun p q => cell_same (fst p) (fst q) && list_eqb row_same (snd p) (snd q)) x y
  | VFilter f s, VFilter f' s' => frame_same f f' && list_eqb row_same s s'
  | VCells n l, VCells n' l' => str_eqb n n' && cells_same l l'
  | _, _ => false
  end.
Definition out_same (a b : out val) : bool :=
  match a, b with
  | Ok x, Ok y => val_same x y
  | Err, Err => true
  | Panic, Panic => true
  | _, _ => false
  end.
