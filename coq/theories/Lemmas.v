(* Lemmas.v - basic facts about the data universe used by every proof file. *)
From GF Require Import Frame.
From Coq Require Import Lia.

Lemma str_eqb_refl s : str_eqb s s = true.
Proof. induction s as [|x s IH]; cbn; auto. now rewrite N.eqb_refl. Qed.

Lemma str_eqb_eq a b : str_eqb a b = true <-> a = b.
Proof.
  revert b; induction a as [|x a IH]; intros [|y b]; cbn; split; intro H; try discriminate; auto.
  - apply andb_prop in H. destruct H as [H1 H2]. apply N.eqb_eq in H1. apply IH in H2. now subst.
  - inversion H; subst. rewrite N.eqb_refl. now apply IH.
Qed.

Lemma str_eqb_neq a b : str_eqb a b = false <-> a <> b.
Proof.
  split; intro H.
  - intro E. subst. now rewrite str_eqb_refl in H.
  - destruct (str_eqb a b) eqn:E; auto. apply str_eqb_eq in E. contradiction.
Qed.

Lemma str_eqb_sym a b : str_eqb a b = str_eqb b a.
Proof.
  destruct (str_eqb a b) eqn:E.
  - apply str_eqb_eq in E. subst. now rewrite str_eqb_refl.
  - symmetry. apply str_eqb_neq. apply str_eqb_neq in E. congruence.
Qed.

Lemma str_compare_eq a b : str_compare a b = Eq <-> a = b.
Proof.
  revert b; induction a as [|x a IH]; intros [|y b]; cbn; split; intro H; try discriminate; auto.
  - destruct (N.compare x y) eqn:C; try discriminate. apply N.compare_eq in C. apply IH in H. now subst.
  - inversion H; subst. rewrite N.compare_refl. now apply IH.
Qed.

Lemma str_compare_antisym a b : str_compare b a = CompOpp (str_compare a b).
Proof.
  revert b; induction a as [|x a IH]; intros [|y b]; cbn; auto.
  rewrite (N.compare_antisym x y). destruct (N.compare x y); cbn; auto.
Qed.

Lemma str_compare_lt_trans a b c : str_compare a b = Lt -> str_compare b c = Lt -> str_compare a c = Lt.
Proof.
  revert b c; induction a as [|x a IH]; intros [|y b] [|z c]; cbn; intros H1 H2; try discriminate; auto.
  destruct (N.compare x y) eqn:C1; try discriminate.
  - apply N.compare_eq in C1. subst y. destruct (N.compare x z) eqn:C2; try discriminate; auto. eapply IH; eauto.
  - destruct (N.compare y z) eqn:C2; try discriminate.
    + apply N.compare_eq in C2. subst z. now rewrite C1.
    + apply N.compare_lt_iff in C1. apply N.compare_lt_iff in C2.
      assert (H : (x < z)%N) by (eapply N.lt_trans; eauto). apply N.compare_lt_iff in H. now rewrite H.
Qed.

Lemma str_ltb_irrefl a : str_ltb a a = false.
Proof. unfold str_ltb. assert (str_compare a a = Eq) by now apply str_compare_eq. now rewrite H. Qed.

Lemma str_ltb_trans a b c : str_ltb a b = true -> str_ltb b c = true -> str_ltb a c = true.
Proof.
  unfold str_ltb. destruct (str_compare a b) eqn:E1; try discriminate.
  destruct (str_compare b c) eqn:E2; try discriminate. intros _ _.
  now rewrite (str_compare_lt_trans _ _ _ E1 E2).
Qed.

Lemma nth_opt_nth {A} (l : list A) i (dflt : A) : (i < length l)%nat -> nth_opt l i = Some (nth i l dflt).
Proof.
  revert i; induction l as [|x l IH]; intros [|i] H; cbn in *; try lia; auto. apply IH; lia.
Qed.
Lemma nth_opt_none {A} (l : list A) i : (length l <= i)%nat -> nth_opt l i = None.
Proof.
  revert i; induction l as [|x l IH]; intros [|i] H; cbn in *; try lia; auto. apply IH; lia.
Qed.
Lemma nth_opt_some_lt {A} (l : list A) i x : nth_opt l i = Some x -> (i < length l)%nat.
Proof.
  revert i; induction l as [|y l IH]; intros [|i] H; cbn in *; try discriminate; try lia.
  apply IH in H. lia.
Qed.
