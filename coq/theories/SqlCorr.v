(* SqlCorr.v - correspondence cases for the SQL properties C11-C14: observations of the
   real library made through the harness's own database/sql driver, compared with the
   model, plus independent specifications of the effect and of atomicity.  Definitions only. *)
From GF Require Export SqlRead Step.

(* ---------- export (C11, C12) ---------- *)
Record wcase := {
  wc_opts : wopts; wc_table : str; wc_frame : frame; wc_store : store;
  wc_fault : nat; wc_cancel : nat; wc_tx : bool;
  (* observed *)
  wc_ok : bool; wc_log : list call; wc_final : store
}.

Definition call_same (a b : call) : bool :=
  N.eqb (fst (fst a)) (fst (fst b)) && str_eqb (snd (fst a)) (snd (fst b)) && cells_same (snd a) (snd b).
Definition table_same (a b : table) : bool :=
  list_eqb (fun x y => str_eqb (fst x) (fst y) && str_eqb (snd x) (snd y)) (fst a) (fst b)
  && list_eqb cells_same (snd a) (snd b).
Definition store_same (a b : store) : bool :=
  list_eqb (fun x y => str_eqb (fst x) (fst y) && table_same (snd x) (snd y)) a b.

Definition kind_of (c : call) : N := fst (fst c).
Definition count_kind (k : N) (l : list call) : nat := List.length (filter (fun c => N.eqb (kind_of c) k) l).

(* C11: the effect, stated without the statement machinery: after a successful export the
   target table holds the old rows (append to an existing table) or none, followed by the
   frame's rows in frame order, each cell under its own column, nil as NULL; every other
   table is untouched *)
Definition expected_rows (tcols : list str) (f : frame) : list (list cell) :=
  map (fun r => map (fun tc => bound_value (rget r tc)) tcols) (rows f).
Definition c11_effect (c : wcase) : bool :=
  if negb (wc_ok c) then true else
  let t := wc_table c in
  match fget (wc_final c) t with
  | None => false
  | Some (tcols, trows) =>
    let appended := fhas (wc_store c) t && str_eqb (w_ifexists (wc_opts c)) s_append in
    let old := if appended then match fget (wc_store c) t with Some (_, r) => r | None => [] end else [] in
    list_eqb cells_same trows (old ++ expected_rows (map fst tcols) (wc_frame c))
    && (appended || list_eqb str_eqb (map fst tcols) (fkeys (wc_frame c)))
    && store_same (fdel (wc_final c) t) (fdel (wc_store c) t)
  end.
(* C12: all-or-nothing.  A failed call leaves the committed store as it was and never
   commits (apart from a commit that itself failed); success commits exactly once, last;
   the Tx variants never commit or roll back *)
Definition c12_atomic (c : wcase) : bool :=
  let log := wc_log c in
  if wc_tx c then Nat.eqb (count_kind 3 log) 0 && Nat.eqb (count_kind 4 log) 0 && Nat.eqb (count_kind 0 log) 0
  else if wc_ok c then
    Nat.eqb (count_kind 3 log) 1 && Nat.eqb (count_kind 4 log) 0
    && match rev log with c3 :: _ => N.eqb (kind_of c3) 3 | [] => false end
  else
    store_same (wc_final c) (wc_store c)
    && (Nat.eqb (count_kind 3 log) 0
        || (Nat.eqb (count_kind 3 log) 1 && Nat.eqb (wc_fault c) (List.length log)
            && match rev log with c3 :: _ => N.eqb (kind_of c3) 3 | [] => false end))
    && Nat.leb (count_kind 4 log) 1.

(* codes: 1 trace differs from the model; 2 final store differs; 3 status differs;
   61 C11 effect; 62 C12 atomicity *)
Definition check_wcase (c : wcase) : list nat :=
  let '(mtrace, mstore, mok) :=
    if wc_tx c then
      (if Nat.eqb (wc_cancel c) 0 then tosql_tx (wc_opts c) (wc_table c) (wc_frame c) (wc_store c) (wc_fault c)
       else tosql_tx_c (wc_opts c) (wc_table c) (wc_frame c) (wc_store c) (wc_fault c) (wc_cancel c))
    else tosql (wc_opts c) (wc_table c) (wc_frame c) (wc_store c) (wc_fault c) (wc_cancel c) in
  (if list_eqb call_same mtrace (wc_log c) then [] else [1%nat])
  ++ (if wc_tx c || store_same mstore (wc_final c) then [] else [2%nat])
  ++ (if Bool.eqb mok (wc_ok c) then [] else [3%nat])
  ++ (if wc_tx c || c11_effect c then [] else [61%nat])
  ++ (if c12_atomic c then [] else [62%nat]).

(* ---------- identifiers (C13) ---------- *)
Record qcase := { qc_quote : N; qc_name : str; qc_quoted : str }.
(* codes: 1 differs from the model; 64 the dialect's lexer does not read it back as one
   identifier with exactly that value *)
Definition check_qcase (c : qcase) : list nat :=
  (if str_eqb (quote_id (qc_quote c) (qc_name c)) (qc_quoted c) then [] else [1%nat])
  ++ (match lex_qid (qc_quote c) (qc_quoted c) with
      | Some (v, []) => if str_eqb v (qc_name c) then [] else [64%nat]
      | _ => [64%nat]
      end).

(* ---------- import (C14) ---------- *)
Record rcase := {
  rc_T : toracles; rc_handler : nullh; rc_dates : list str;
  rc_names : list str; rc_types : list str; rc_rows : list (list cell);
  rc_iter_err : bool;          (* the iteration reports an error after the rows served *)
  rc_invalid : bool;           (* nil handle, empty query or failing query *)
  rc_out : out frame           (* observed *)
}.
Definition outf_same (a b : out frame) : bool :=
  match a, b with
  | Ok x, Ok y => frame_same x y
  | Err, Err | Panic, Panic => true
  | _, _ => false
  end.
(* C14 independent shape specification: a frame is returned only when nothing failed; it has
   one column per result column and every column has one cell per kept row *)
Definition c14_shape (c : rcase) : bool :=
  match rc_out c with
  | Ok f =>
    negb (rc_iter_err c) && negb (rc_invalid c)
    && list_eqb str_eqb (fkeys f) (fkeys (fold_left (fun acc n => fset acc n tt) (rc_names c) []))
    && wf_frame f && Nat.leb (nrows f) (List.length (rc_rows c))
  | Err => true
  | Panic => false
  end.
Definition check_rcase (c : rcase) : list nat :=
  let m := if rc_invalid c then Err
           else from_sql (rc_T c) (rc_handler c) (rc_dates c) (rc_names c) (rc_types c) (rc_rows c) (rc_iter_err c) in
  (if outf_same m (rc_out c) then [] else [1%nat])
  ++ (if c14_shape c then [] else [65%nat]).

(* ---------- evaluation of a case file ---------- *)
Inductive sqlcase := SW (c : wcase) | SQ (c : qcase) | SR (c : rcase).
Definition check_sqlcase (c : sqlcase) : list nat :=
  match c with SW w => check_wcase w | SQ q => check_qcase q | SR r => check_rcase r end.
Fixpoint sql_failures (cs : list sqlcase) (k : nat) : list (nat * nat * list nat) :=
  match cs with
  | [] => []
  | c :: t => match check_sqlcase c with
              | [] => sql_failures t (S k)
              | codes => (k, 0%nat, codes) :: sql_failures t (S k)
              end
  end.
