(* Proof_C12.v - ToSQL is all-or-nothing: whatever call fails and whenever the context is
   cancelled, a failed export leaves the committed store as it was; a successful one
   commits exactly once, as its last call; the Tx variants never begin, commit or roll back. *)
From GF Require Import SqlCorr Lemmas.
From Coq Require Import Lia.
Arguments N.eqb : simpl never.

(* ------------------------------------------------------------------------- *)
(* 1. a failed export does not change the store                               *)
(* ------------------------------------------------------------------------- *)

Theorem tosql_fail_keeps_store : forall o t f st fault cancel trace st' ok,
  tosql o t f st fault cancel = (trace, st', ok) -> ok = false -> st' = st.
Proof.
  intros o t f st fault cancel trace st' ok H Hok. unfold tosql in H.
  destruct (Nat.eqb fault 1); [congruence|].
  destruct (tx_body o t f st 1 fault cancel) as [[[calls st1] ok1] n].
  destruct (negb ok1); [congruence|].
  destruct (negb (Nat.eqb cancel 0) && Nat.leb cancel n); [congruence|].
  destruct (Nat.eqb (S n) fault); congruence.
Qed.

(* ------------------------------------------------------------------------- *)
(* invariants of the statement runner and of the transactional body           *)
(* ------------------------------------------------------------------------- *)

Definition is_exec (c : call) : Prop := kind_of c = 2%N.
Definition is_body (c : call) : Prop := kind_of c = 1%N \/ kind_of c = 2%N.

(* run_stmts only adds exec calls, counts them, and succeeds only if the faulty call
   number was not among them *)
Lemma run_stmts_inv d fault cancel : forall ss st n acc calls st' ok n',
  run_stmts d ss st n fault cancel acc = (calls, st', ok, n') ->
  exists new, calls = new ++ acc /\ Forall is_exec new /\ n' = (n + List.length new)%nat
              /\ (ok = true -> forall k, (n < k <= n')%nat -> k <> fault).
Proof.
  induction ss as [|s rest IH]; intros st n acc calls st' ok n' H; cbn [run_stmts] in H.
  - injection H as <- <- <- <-. exists []. repeat split; auto; try (cbn; lia).
  - destruct (negb (Nat.eqb cancel 0) && Nat.leb cancel n).
    { injection H as <- <- <- <-. exists []. repeat split; auto; try discriminate; try (cbn; lia). }
    destruct (render_stmt d s) as [text args].
    assert (One : ((2%N, text, args) :: acc, st, false, S n) = (calls, st', ok, n') ->
      exists new, calls = new ++ acc /\ Forall is_exec new /\ n' = (n + List.length new)%nat
              /\ (ok = true -> forall k, (n < k <= n')%nat -> k <> fault)).
    { intros E. injection E as <- <- <- <-. exists [(2%N, text, args)].
      split; [reflexivity|]. split; [constructor; [reflexivity | constructor]|].
      split; [cbn; lia | discriminate]. }
    destruct (Nat.eqb (S n) fault) eqn:Ef; [now apply One|].
    destruct (exec_stmt st s) as [st1|]; [|now apply One].
    apply IH in H. destruct H as [new [-> [Hn [-> Hok]]]].
    exists (new ++ [(2%N, text, args)]).
    split; [now rewrite <- app_assoc|].
    split; [apply Forall_app; split; [assumption|]; constructor; [reflexivity | constructor]|].
    split; [rewrite app_length; cbn; lia|].
    intros Ht k Hk. destruct (Nat.eq_dec k (S n)) as [->|Hne].
    + apply Nat.eqb_neq. exact Ef.
    + apply Hok; [assumption | lia].
Qed.

Lemma tx_body_inv o t f st n fault cancel calls st' ok n' :
  tx_body o t f st n fault cancel = (calls, st', ok, n') ->
  Forall is_body calls /\ n' = (n + List.length calls)%nat
  /\ (ok = true -> forall k, (n < k <= n')%nat -> k <> fault).
Proof.
  unfold tx_body. intros H.
  assert (Triv : ([] : list call, st, false, n) = (calls, st', ok, n') ->
                 Forall is_body calls /\ n' = (n + List.length calls)%nat
                 /\ (ok = true -> forall k, (n < k <= n')%nat -> k <> fault)).
  { intros E. injection E as <- <- <- <-. repeat split; auto. discriminate. }
  destruct (resolve_opts o) as [[[[d ife] bs] tm]| |]; [|now apply Triv|now apply Triv].
  destruct (negb (Nat.eqb cancel 0) && Nat.leb cancel n); [now apply Triv|].
  set (q := (1%N, exists_sql d, [CS t]) : call) in *.
  assert (Hq : is_body q) by (left; reflexivity).
  assert (One : ([q], st, false, S n) = (calls, st', ok, n') ->
                 Forall is_body calls /\ n' = (n + List.length calls)%nat
                 /\ (ok = true -> forall k, (n < k <= n')%nat -> k <> fault)).
  { intros E. injection E as <- <- <- <-. repeat split; [constructor; auto | cbn; lia | discriminate]. }
  destruct (Nat.eqb (S n) fault) eqn:Ef; [now apply One|].
  destruct (plan_stmts d ife bs tm t f (fhas st t)) as [ss| |]; [|now apply One|now apply One].
  apply run_stmts_inv in H. destruct H as [new [-> [Hn [-> Hok]]]]. repeat split.
  - apply Forall_app. split; [|constructor; auto].
    eapply Forall_impl; [|exact Hn]. intros c Hc. now right.
  - rewrite app_length. cbn. lia.
  - intros Ht k Hk. destruct (Nat.eq_dec k (S n)) as [->|Hne].
    + apply Nat.eqb_neq. exact Ef.
    + apply Hok; [assumption | lia].
Qed.

(* ------------------------------------------------------------------------- *)
(* the shape of every trace of ToSQL                                          *)
(* ------------------------------------------------------------------------- *)

Inductive tosql_shape (st : store) (fault : nat) : list call -> store -> bool -> Prop :=
| ShBeginFailed : fault = 1%nat -> tosql_shape st fault [c_begin] st false
| ShRolledBack body : Forall is_body body ->
    tosql_shape st fault ((c_begin :: body) ++ [c_rollback]) st false
| ShCommitFailed body : Forall is_body body -> fault = List.length ((c_begin :: body) ++ [c_commit]) ->
    tosql_shape st fault ((c_begin :: body) ++ [c_commit]) st false
| ShCommitted body st' : Forall is_body body ->
    (forall k, (1 <= k <= List.length ((c_begin :: body) ++ [c_commit]))%nat -> k <> fault) ->
    tosql_shape st fault ((c_begin :: body) ++ [c_commit]) st' true.

Theorem tosql_has_shape o t f st fault cancel trace st' ok :
  tosql o t f st fault cancel = (trace, st', ok) -> tosql_shape st fault trace st' ok.
Proof.
  unfold tosql. intros H.
  destruct (Nat.eqb fault 1) eqn:E1.
  { injection H as <- <- <-. apply ShBeginFailed. now apply Nat.eqb_eq. }
  destruct (tx_body o t f st 1 fault cancel) as [[[calls st1] ok1] n] eqn:Eb.
  apply tx_body_inv in Eb. destruct Eb as [Hb [Hn Hok]].
  assert (Hrb : Forall is_body (rev calls)) by (apply Forall_rev; exact Hb).
  change (c_begin :: rev calls ++ [c_rollback]) with ((c_begin :: rev calls) ++ [c_rollback]) in H.
  change (c_begin :: rev calls ++ [c_commit]) with ((c_begin :: rev calls) ++ [c_commit]) in H.
  assert (Hlen : forall x : call, List.length ((c_begin :: rev calls) ++ [x]) = S n).
  { intros x. rewrite app_length. cbn [List.length]. rewrite rev_length. lia. }
  destruct ok1; cbn [negb] in H.
  2:{ injection H as <- <- <-. now apply ShRolledBack. }
  destruct (negb (Nat.eqb cancel 0) && Nat.leb cancel n).
  { injection H as <- <- <-. now apply ShRolledBack. }
  destruct (Nat.eqb (S n) fault) eqn:Ec.
  { injection H as <- <- <-. apply ShCommitFailed; [assumption|]. rewrite Hlen.
    symmetry. now apply Nat.eqb_eq. }
  injection H as <- <- <-. apply ShCommitted; [assumption|]. rewrite Hlen.
  intros k Hk. destruct (Nat.eq_dec k 1) as [->|N1]; [intro; subst; discriminate|].
  destruct (Nat.eq_dec k (S n)) as [->|N2]; [now apply Nat.eqb_neq|].
  apply Hok; [reflexivity | lia].
Qed.

(* ------------------------------------------------------------------------- *)
(* counting calls                                                             *)
(* ------------------------------------------------------------------------- *)

Lemma count_kind_app k a b : count_kind k (a ++ b) = (count_kind k a + count_kind k b)%nat.
Proof. unfold count_kind. now rewrite filter_app, app_length. Qed.

Lemma count_kind_cons k c l :
  count_kind k (c :: l) = ((if N.eqb (kind_of c) k then 1 else 0) + count_kind k l)%nat.
Proof. unfold count_kind. cbn [filter]. destruct (N.eqb (kind_of c) k); reflexivity. Qed.

Lemma count_kind_none k l : Forall (fun c => kind_of c <> k) l -> count_kind k l = 0%nat.
Proof.
  induction 1 as [|c l Hc _ IH]; [reflexivity|].
  rewrite count_kind_cons, IH. apply N.eqb_neq in Hc. now rewrite Hc.
Qed.

Lemma body_no_kind k body : k <> 1%N -> k <> 2%N -> Forall is_body body -> count_kind k body = 0%nat.
Proof.
  intros H1 H2 Hb. apply count_kind_none. eapply Forall_impl; [|exact Hb].
  intros c [Hc|Hc]; rewrite Hc; congruence.
Qed.

Lemma count_wrapped k body x : Forall is_body body -> k <> 1%N -> k <> 2%N -> k <> 0%N ->
  count_kind k ((c_begin :: body) ++ [x]) = if N.eqb (kind_of x) k then 1%nat else 0%nat.
Proof.
  intros Hb H1 H2 H0. rewrite count_kind_app, count_kind_cons, (body_no_kind k body) by assumption.
  rewrite count_kind_cons. change (count_kind k []) with 0%nat.
  change (kind_of c_begin) with 0%N. apply not_eq_sym in H0. apply N.eqb_neq in H0. rewrite H0. lia.
Qed.

Definition last_kind (l : list call) : option N :=
  match rev l with c :: _ => Some (kind_of c) | [] => None end.
Lemma last_kind_snoc l x : last_kind (l ++ [x]) = Some (kind_of x).
Proof. unfold last_kind. now rewrite rev_app_distr. Qed.

(* ------------------------------------------------------------------------- *)
(* 2, 3. atomicity                                                            *)
(* ------------------------------------------------------------------------- *)

(* success: exactly one commit, which is the last call; no rollback; and the faulty call
   number was never reached *)
Theorem tosql_ok_commits_once o t f st fault cancel trace st' :
  tosql o t f st fault cancel = (trace, st', true) ->
  count_kind 3 trace = 1%nat /\ count_kind 4 trace = 0%nat /\ last_kind trace = Some 3%N
  /\ count_kind 0 trace = 1%nat
  /\ (fault = 0%nat \/ (List.length trace < fault)%nat).
Proof.
  intros H. apply tosql_has_shape in H. inversion H as [| | |body st2 Hb Hf]; subst.
  rewrite !count_wrapped by (auto; discriminate). rewrite last_kind_snoc.
  repeat split; try reflexivity.
  - rewrite count_kind_app, count_kind_cons, (body_no_kind 0 body) by (auto; discriminate). reflexivity.
  - destruct (Nat.eq_dec fault 0) as [|Hz]; [now left|]. right.
    destruct (Nat.lt_ge_cases (List.length ((c_begin :: body) ++ [c_commit])) fault) as [L|G]; [exact L|].
    exfalso. apply (Hf fault); [lia | reflexivity].
Qed.

(* failure: the store is unchanged; there is no commit, unless the commit itself was the
   failing call (then it is the last call); at most one rollback, which is then last *)
Theorem tosql_fail_atomic o t f st fault cancel trace st' :
  tosql o t f st fault cancel = (trace, st', false) ->
  st' = st
  /\ (count_kind 3 trace = 0%nat
      \/ (count_kind 3 trace = 1%nat /\ fault = List.length trace /\ last_kind trace = Some 3%N))
  /\ (count_kind 4 trace = 0%nat \/ (count_kind 4 trace = 1%nat /\ last_kind trace = Some 4%N)).
Proof.
  intros H. apply tosql_has_shape in H. inversion H as [Hf|body Hb|body Hb Hf|]; subst.
  - repeat split; [left; reflexivity | left; reflexivity].
  - rewrite !count_wrapped by (auto; discriminate). rewrite last_kind_snoc.
    repeat split; [left; reflexivity | right; split; reflexivity].
  - rewrite !count_wrapped by (auto; discriminate). rewrite last_kind_snoc.
    repeat split; [right; repeat split; assumption | left; reflexivity].
Qed.

(* the stated form: a reached fault makes the call fail *)
Theorem tosql_atomic o t f st fault cancel trace st' ok :
  tosql o t f st fault cancel = (trace, st', ok) ->
  (1 <= fault <= List.length trace)%nat -> ok = false /\ st' = st.
Proof.
  intros H Hf. destruct ok.
  - apply tosql_ok_commits_once in H. lia.
  - split; [reflexivity|]. now apply (tosql_fail_keeps_store _ _ _ _ _ _ _ _ _ H).
Qed.

Theorem tosql_commit_once o t f st trace st' :
  tosql o t f st 0 0 = (trace, st', true) ->
  count_kind 3 trace = 1%nat /\ last_kind trace = Some 3%N /\ count_kind 4 trace = 0%nat.
Proof. intros H. apply tosql_ok_commits_once in H. tauto. Qed.

(* ------------------------------------------------------------------------- *)
(* 4. the Tx variants leave the transaction to the caller                     *)
(* ------------------------------------------------------------------------- *)

Theorem tosqltx_never_finishes o t f st fault trace st' ok :
  tosql_tx o t f st fault = (trace, st', ok) ->
  count_kind 0 trace = 0%nat /\ count_kind 3 trace = 0%nat /\ count_kind 4 trace = 0%nat.
Proof.
  unfold tosql_tx. intros H.
  destruct (tx_body o t f st 1 fault 0) as [[[calls st1] ok1] n] eqn:Eb.
  injection H as <- <- <-. apply tx_body_inv in Eb. destruct Eb as [Hb _].
  apply Forall_rev in Hb. repeat split; apply body_no_kind; auto; discriminate.
Qed.

(* ------------------------------------------------------------------------- *)
(* 5. the evaluated specification c12_atomic holds of the model's own output  *)
(* ------------------------------------------------------------------------- *)

Lemma list_eqb_refl {A} (e : A -> A -> bool) : (forall x, e x x = true) -> forall l, list_eqb e l l = true.
Proof. intros He. induction l as [|x l IH]; [reflexivity|]. cbn [list_eqb]. now rewrite He, IH. Qed.

Lemma zlist_eqb_refl l : zlist_eqb l l = true.
Proof. induction l as [|x l IH]; [reflexivity|]. cbn [zlist_eqb]. now rewrite Z.eqb_refl, IH. Qed.

Lemma cell_same_refl c : cell_same c c = true.
Proof.
  destruct c as [|k z|k x|s|b|t]; cbn [cell_same].
  - reflexivity.
  - rewrite Z.eqb_refl. now destruct k.
  - assert (fl_same x x = true) as -> by (destruct x; cbn; auto using Z.eqb_refl). now destruct k.
  - apply str_eqb_refl.
  - now destruct b.
  - apply zlist_eqb_refl.
Qed.

Lemma store_same_refl st : store_same st st = true.
Proof.
  unfold store_same. apply list_eqb_refl. intros [k [cols rws]]. cbn [fst snd].
  rewrite str_eqb_refl. unfold table_same. cbn [fst snd andb].
  rewrite list_eqb_refl.
  - apply list_eqb_refl. intros r. apply list_eqb_refl. apply cell_same_refl.
  - intros [a b]. cbn [fst snd]. now rewrite !str_eqb_refl.
Qed.

Theorem c12_atomic_model o t f st fault cancel :
  let '(trace, st', ok) := tosql o t f st fault cancel in
  c12_atomic {| wc_opts := o; wc_table := t; wc_frame := f; wc_store := st;
                wc_fault := fault; wc_cancel := cancel; wc_tx := false;
                wc_ok := ok; wc_log := trace; wc_final := st' |} = true.
Proof.
  destruct (tosql o t f st fault cancel) as [[trace st'] ok] eqn:E.
  unfold c12_atomic. cbn [wc_tx wc_ok wc_log wc_final wc_store wc_fault].
  destruct ok.
  - apply tosql_ok_commits_once in E. destruct E as (H3 & H4 & HL & _).
    rewrite H3, H4. unfold last_kind in HL. destruct (rev trace) as [|c3 r]; [discriminate|].
    injection HL as ->. reflexivity.
  - apply tosql_fail_atomic in E. destruct E as (-> & H3 & H4).
    rewrite store_same_refl. cbn [andb].
    assert (Hrb : Nat.leb (count_kind 4 trace) 1 = true)
      by (destruct H4 as [-> | [-> _]]; reflexivity).
    rewrite Hrb, andb_true_r.
    destruct H3 as [-> | (-> & -> & HL)]; [reflexivity|].
    rewrite !Nat.eqb_refl. unfold last_kind in HL. destruct (rev trace) as [|c3 r]; [discriminate|].
    injection HL as ->. reflexivity.
Qed.

Theorem c12_atomic_model_tx o t f st fault cancel :
  let '(trace, st', ok) := tosql_tx o t f st fault in
  c12_atomic {| wc_opts := o; wc_table := t; wc_frame := f; wc_store := st;
                wc_fault := fault; wc_cancel := cancel; wc_tx := true;
                wc_ok := ok; wc_log := trace; wc_final := st' |} = true.
Proof.
  destruct (tosql_tx o t f st fault) as [[trace st'] ok] eqn:E.
  apply tosqltx_never_finishes in E. destruct E as (H0 & H3 & H4).
  unfold c12_atomic. cbn [wc_tx wc_log]. now rewrite H0, H3, H4.
Qed.

(* the same with a context that is cancelled during the export (ToSQLTxContext): whatever the position of the
   cancellation and of a failure, the library neither commits nor rolls back the caller's transaction *)
Theorem tosqltx_cancel_never_finishes o t f st fault cancel trace st' ok :
  tosql_tx_c o t f st fault cancel = (trace, st', ok) ->
  count_kind 0 trace = 0%nat /\ count_kind 3 trace = 0%nat /\ count_kind 4 trace = 0%nat.
Proof.
  unfold tosql_tx_c. intros H.
  destruct (tx_body o t f st 1 fault cancel) as [[[calls st1] ok1] n] eqn:Eb.
  injection H as <- <- <-. apply tx_body_inv in Eb. destruct Eb as [Hb _].
  apply Forall_rev in Hb. repeat split; apply body_no_kind; auto; discriminate.
Qed.
Theorem tosql_tx_c_zero o t f st fault : tosql_tx_c o t f st fault 0 = tosql_tx o t f st fault.
Proof. reflexivity. Qed.
Theorem c12_atomic_model_tx_cancel o t f st fault cancel :
  let '(trace, st', ok) := tosql_tx_c o t f st fault cancel in
  c12_atomic {| wc_opts := o; wc_table := t; wc_frame := f; wc_store := st;
                wc_fault := fault; wc_cancel := cancel; wc_tx := true;
                wc_ok := ok; wc_log := trace; wc_final := st' |} = true.
Proof.
  destruct (tosql_tx_c o t f st fault cancel) as [[trace st'] ok] eqn:E.
  apply tosqltx_cancel_never_finishes in E. destruct E as (H0 & H3 & H4).
  unfold c12_atomic. cbn [wc_tx wc_log]. now rewrite H0, H3, H4.
Qed.

(* concrete runs: a frame of two rows into an empty store, every fault position *)
Definition ex_opts : wopts :=
  {| w_has := true; w_ifexists := []; w_dialect := [112; 113]%N (* "pq" *); w_batch := 1; w_typemap := None |}.
Definition ex_frame : frame := [([97%N], ([97%N], [CI KInt 1; CNil]))].
Example ex_runs :
  map (fun fault => let '(tr, st', ok) := tosql ex_opts [116%N] ex_frame [] fault 0 in
                    (map kind_of tr, List.length st', ok)) (seq 0 8)
  = [([0; 1; 2; 2; 2; 3]%N, 1%nat, true);
     ([0]%N, 0%nat, false);
     ([0; 1; 4]%N, 0%nat, false);
     ([0; 1; 2; 4]%N, 0%nat, false);
     ([0; 1; 2; 2; 4]%N, 0%nat, false);
     ([0; 1; 2; 2; 2; 4]%N, 0%nat, false);
     ([0; 1; 2; 2; 2; 3]%N, 0%nat, false);
     ([0; 1; 2; 2; 2; 3]%N, 1%nat, true)].
Proof. vm_compute. reflexivity. Qed.

Print Assumptions tosql_fail_keeps_store.
Print Assumptions tosql_has_shape.
Print Assumptions tosql_ok_commits_once.
Print Assumptions tosql_fail_atomic.
Print Assumptions tosql_atomic.
Print Assumptions tosql_commit_once.
Print Assumptions tosqltx_never_finishes.
Print Assumptions c12_atomic_model.
Print Assumptions c12_atomic_model_tx.
