(* Proof_C13.v - names cannot break out of their SQL identifier: the dialect's lexer reads
   a quoted name back as exactly that name, for every byte string; quoting is injective;
   in the statements ToSQL issues, the quoted identifiers are exactly the table name and
   the column names. *)
From GF Require Import SqlCorr Lemmas.
From Coq Require Import Lia.
Require Coq.Strings.String.
Import Coq.Strings.String.StringSyntax.
Arguments N.eqb : simpl never.

(* ------------------------------------------------------------------------- *)
(* 1. the lexer inverts the quoting                                           *)
(* ------------------------------------------------------------------------- *)

(* rest begins with the quote byte *)
Definition starts_q (q : N) (s : str) : bool :=
  match s with c :: _ => N.eqb c q | [] => false end.

Lemma lex_body_esc q : forall s acc rest fuel,
  starts_q q rest = false -> (List.length (esc q s ++ q :: rest) < fuel)%nat ->
  lex_body q fuel (esc q s ++ q :: rest) acc = Some (rev acc ++ s, rest).
Proof.
  induction s as [|c s IH]; intros acc rest fuel Hr Hf; cbn [esc app] in *.
  - destruct fuel as [|f]; [cbn in Hf; lia|]. cbn [lex_body]. rewrite N.eqb_refl.
    destruct rest as [|c2 r2]; [now rewrite app_nil_r|].
    cbn [starts_q] in Hr. rewrite Hr. now rewrite app_nil_r.
  - destruct (N.eqb c q) eqn:E.
    + apply N.eqb_eq in E; subst c. cbn [app] in *. destruct fuel as [|f]; [cbn in Hf; lia|].
      cbn [lex_body]. rewrite N.eqb_refl.
      rewrite IH by (auto; cbn [List.length] in Hf; lia). cbn [rev]. now rewrite <- app_assoc.
    + cbn [app] in *. destruct fuel as [|f]; [cbn in Hf; lia|]. cbn [lex_body]. rewrite E.
      rewrite IH by (auto; cbn [List.length] in Hf; lia). cbn [rev]. now rewrite <- app_assoc.
Qed.

Theorem lex_quote : forall q s rest, starts_q q rest = false ->
  lex_qid q (quote_id q s ++ rest) = Some (s, rest).
Proof.
  intros q s rest Hr. unfold quote_id, lex_qid. cbn [app]. rewrite N.eqb_refl.
  rewrite <- app_assoc. cbn [app].
  rewrite lex_body_esc; auto.
Qed.

(* 3. no position inside the quoted text ends the identifier early *)
Corollary quote_id_no_early_end : forall q s, lex_qid q (quote_id q s) = Some (s, []).
Proof.
  intros q s. rewrite <- (app_nil_r (quote_id q s)). now apply lex_quote.
Qed.

(* 2. distinct names give distinct identifiers *)
Corollary quote_id_inj : forall q a b, quote_id q a = quote_id q b -> a = b.
Proof.
  intros q a b H.
  pose proof (quote_id_no_early_end q a) as Ha. pose proof (quote_id_no_early_end q b) as Hb.
  rewrite H in Ha. rewrite Ha in Hb. congruence.
Qed.

(* the evaluated check of SqlCorr.v accepts the model's own quoting *)
Corollary check_qcase_model : forall q s,
  check_qcase {| qc_quote := q; qc_name := s; qc_quoted := quote_id q s |} = [].
Proof.
  intros q s. unfold check_qcase. cbn [qc_quote qc_name qc_quoted].
  rewrite str_eqb_refl, quote_id_no_early_end, str_eqb_refl. reflexivity.
Qed.

Example lex_quote_hostile :
  let s := lit "a""b`c\;DROP TABLE x;--" ++ [0; 255; 34; 34]%N in
  lex_qid 34 (quote_id 34 s ++ lit " (") = Some (s, lit " (")
  /\ lex_qid 96 (quote_id 96 s) = Some (s, []).
Proof. vm_compute. split; reflexivity. Qed.

(* 5. the historical quoting (no escaping) does not read back a name holding a quote *)
Definition quote_pinned (q : N) (s : str) : str := q :: s ++ [q].
Example quote_pinned_refuted :
  lex_qid 34 (quote_pinned 34 [34%N]) <> Some ([34%N], [])
  /\ lex_qid 34 (quote_pinned 34 [34%N]) = None   (* an unterminated identifier *)
  /\ quote_pinned 34 (lit "a"" (x TEXT); DROP TABLE ""b") = lit """a"" (x TEXT); DROP TABLE ""b""".
Proof. vm_compute. split; [discriminate | split; reflexivity]. Qed.

(* ------------------------------------------------------------------------- *)
(* 4. statement level                                                         *)
(* ------------------------------------------------------------------------- *)

Lemma lex_body_rest_len q : forall fuel s acc v rest,
  lex_body q fuel s acc = Some (v, rest) -> (List.length rest < List.length s)%nat.
Proof.
  induction fuel as [|f IH]; intros s acc v rest H; cbn [lex_body] in H; [discriminate|].
  destruct s as [|c r]; [discriminate|]. cbn [List.length].
  destruct (N.eqb c q).
  - destruct r as [|c2 r2].
    + injection H as _ <-. cbn. lia.
    + destruct (N.eqb c2 q).
      * apply IH in H. cbn [List.length]. lia.
      * injection H as _ <-. lia.
  - apply IH in H. lia.
Qed.

(* the quoted identifiers of a text, left to right: outside an identifier every byte is
   ordinary; an identifier is read with the dialect's lexer *)
Fixpoint idents_fuel (q : N) (fuel : nat) (s : str) : list str :=
  match fuel with
  | O => []
  | S f =>
    match s with
    | [] => []
    | c :: r =>
      if N.eqb c q then
        match lex_body q (S (List.length r)) r [] with
        | Some (v, rest) => v :: idents_fuel q f rest
        | None => []
        end
      else idents_fuel q f r
    end
  end.
Definition idents (q : N) (s : str) : list str := idents_fuel q (S (List.length s)) s.

Lemma idents_fuel_enough q : forall f1 f2 s,
  (List.length s < f1)%nat -> (List.length s < f2)%nat -> idents_fuel q f1 s = idents_fuel q f2 s.
Proof.
  induction f1 as [|f1 IH]; intros f2 s H1 H2; [lia|].
  destruct f2 as [|f2]; [lia|]. cbn [idents_fuel].
  destruct s as [|c r]; [reflexivity|]. cbn [List.length] in *.
  destruct (N.eqb c q).
  - destruct (lex_body q (S (List.length r)) r []) as [[v rest]|] eqn:E; [|reflexivity].
    apply lex_body_rest_len in E. f_equal. apply IH; lia.
  - apply IH; lia.
Qed.

Definition no_q (q : N) (p : str) : bool := forallb (fun c => negb (N.eqb c q)) p.

Lemma idents_nil q : idents q [] = [].
Proof. reflexivity. Qed.

Lemma idents_plain q : forall p s, no_q q p = true -> idents q (p ++ s) = idents q s.
Proof.
  induction p as [|c p IH]; intros s H; [reflexivity|].
  cbn [no_q forallb] in H. apply andb_prop in H. destruct H as [Hc Hp].
  apply negb_true_iff in Hc. rewrite <- (IH s Hp).
  unfold idents. cbn [app List.length idents_fuel]. rewrite Hc. reflexivity.
Qed.

Lemma idents_fuel_S q f c r :
  idents_fuel q (S f) (c :: r) =
  if N.eqb c q then
    match lex_body q (S (List.length r)) r [] with
    | Some (v, rest) => v :: idents_fuel q f rest
    | None => []
    end
  else idents_fuel q f r.
Proof. reflexivity. Qed.

Lemma idents_quoted q : forall v rest, starts_q q rest = false ->
  idents q (quote_id q v ++ rest) = v :: idents q rest.
Proof.
  intros v rest Hr. unfold idents, quote_id. cbn [app List.length].
  rewrite idents_fuel_S. rewrite N.eqb_refl. rewrite <- app_assoc. cbn [app].
  rewrite lex_body_esc by (auto; lia). cbn [rev app]. f_equal.
  apply idents_fuel_enough; rewrite ?app_length; cbn [List.length]; lia.
Qed.

Lemma no_q_starts q p s : no_q q p = true -> p <> [] -> starts_q q (p ++ s) = false.
Proof.
  destruct p as [|c p]; [congruence|]. intros H _. cbn [no_q forallb] in H.
  apply andb_prop in H. destruct H as [Hc _]. now apply negb_true_iff in Hc.
Qed.

Lemma no_q_app q a b : no_q q (a ++ b) = no_q q a && no_q q b.
Proof. unfold no_q. apply forallb_app. Qed.

Lemma join_sep_cons sep (a : str) l : l <> [] -> join_sep sep (a :: l) = a ++ sep ++ join_sep sep l.
Proof. destruct l as [|b l]; [congruence | reflexivity]. Qed.

(* a comma-separated list of quoted names, each followed by plain text *)
Lemma idents_join q (items : list (str * str)) : forall rest,
  no_q q comma_sp = true ->
  forallb (fun it => no_q q (snd it)) items = true ->
  starts_q q rest = false ->
  idents q (join_sep comma_sp (map (fun it => quote_id q (fst it) ++ snd it) items) ++ rest)
  = map fst items ++ idents q rest.
Proof.
  intros rest Hc. induction items as [|[v p] items IH]; intros Hp Hr; [reflexivity|].
  cbn [forallb snd] in Hp. apply andb_prop in Hp. destruct Hp as [Hp Hps].
  cbn [map fst snd]. destruct items as [|it2 items].
  - cbn [join_sep map fst snd]. rewrite <- app_assoc. rewrite idents_quoted.
    + now rewrite idents_plain.
    + destruct p as [|c p]; [exact Hr|]. apply no_q_starts; [assumption|discriminate].
  - rewrite join_sep_cons by (cbn [map]; discriminate).
    rewrite <- !app_assoc. rewrite idents_quoted.
    + rewrite idents_plain by assumption. rewrite idents_plain by assumption.
      rewrite IH by assumption. reflexivity.
    + destruct p as [|c p].
      * cbn [app]. apply no_q_starts; [assumption|discriminate].
      * apply no_q_starts; [assumption|discriminate].
Qed.

(* plain texts of the statements *)
Lemma dec_pos_fuel_digits : forall fuel n acc c,
  In c (dec_pos_fuel fuel n acc) -> In c acc \/ (48 <= c <= 57)%N.
Proof.
  induction fuel as [|f IH]; intros n acc c H; cbn [dec_pos_fuel] in H; [now left|].
  assert (Hd : (48 <= 48 + Z.to_N (n mod 10) <= 57)%N).
  { pose proof (Z.mod_pos_bound n 10 ltac:(lia)) as Hm. lia. }
  destruct (n <? 10).
  - destruct H as [<-|H]; [right; exact Hd | now left].
  - apply IH in H. destruct H as [[<-|H]|H]; [right; exact Hd | now left | now right].
Qed.

Lemma dec_Z_bytes z c : In c (dec_Z z) -> c = 45%N \/ (48 <= c <= 57)%N.
Proof.
  unfold dec_Z. destruct (z <? 0).
  - intros [<-|H]; [now left|]. apply dec_pos_fuel_digits in H. destruct H as [[]|H]. now right.
  - intros H. apply dec_pos_fuel_digits in H. destruct H as [[]|H]. now right.
Qed.

Lemma placeholder_no_quote d d' i : no_q (quote_char d') (placeholder d i) = true.
Proof.
  unfold no_q. apply forallb_forall. intros c Hc. apply negb_true_iff. apply N.eqb_neq.
  assert (Hq : quote_char d' = 34%N \/ quote_char d' = 96%N) by (destruct d'; cbn; auto).
  destruct d; cbn [placeholder] in Hc.
  - destruct Hc as [<-|[]]. destruct Hq as [-> | ->]; discriminate.
  - destruct Hc as [<-|Hc]; [destruct Hq as [-> | ->]; discriminate|].
    apply dec_Z_bytes in Hc. destruct Hq as [-> | ->]; lia.
  - destruct Hc as [<-|[]]. destruct Hq as [-> | ->]; discriminate.
Qed.

Lemma no_q_join q sep l : no_q q sep = true -> forallb (no_q q) l = true -> no_q q (join_sep sep l) = true.
Proof.
  intros Hs. induction l as [|a l IH]; intros H; [reflexivity|].
  cbn [forallb] in H. apply andb_prop in H. destruct H as [Ha Hl].
  destruct l as [|b l]; [exact Ha|].
  change (join_sep sep (a :: b :: l)) with (a ++ sep ++ join_sep sep (b :: l)).
  rewrite !no_q_app, Ha, Hs, IH by assumption. reflexivity.
Qed.

(* the SQL type names GoTypeToSQLType produces contain no quote byte of any dialect *)
Lemma sql_type_no_quote d d' c : no_q (quote_char d') (sql_type d c) = true.
Proof.
  destruct d'; destruct d; destruct c as [|k z|k x|s|b|t]; try destruct k; vm_compute; reflexivity.
Qed.

Lemma keywords_no_quote d :
  let q := quote_char d in
  no_q q comma_sp = true /\ no_q q (lit "DROP TABLE ") = true /\ no_q q (lit "CREATE TABLE ") = true
  /\ no_q q (lit "INSERT INTO ") = true /\ no_q q (lit " (") = true /\ no_q q (lit ")") = true
  /\ no_q q (lit ") VALUES ") = true /\ no_q q (lit "(") = true /\ no_q q [32%N] = true.
Proof. destruct d; vm_compute; repeat split. Qed.

(* DROP TABLE *)
Theorem drop_text d t :
  fst (render_stmt d (SDrop t)) = lit "DROP TABLE " ++ quote_id (quote_char d) t.
Proof. reflexivity. Qed.

Theorem drop_lex d t :
  lex_qid (quote_char d) (skipn 11 (fst (render_stmt d (SDrop t)))) = Some (t, []).
Proof. cbn [render_stmt fst]. change (skipn 11 (lit "DROP TABLE " ++ ?x)) with x. apply quote_id_no_early_end. Qed.

Theorem drop_idents d t : idents (quote_char d) (fst (render_stmt d (SDrop t))) = [t].
Proof.
  cbn [render_stmt fst]. destruct (keywords_no_quote d) as (_ & Hk & _).
  rewrite idents_plain by exact Hk.
  rewrite <- (app_nil_r (quote_id _ t)). rewrite idents_quoted by reflexivity. reflexivity.
Qed.

(* INSERT *)
Theorem insert_idents d t cols rws :
  idents (quote_char d) (fst (render_stmt d (SInsert t cols rws))) = t :: cols.
Proof.
  cbn [render_stmt fst]. set (q := quote_char d).
  destruct (keywords_no_quote d) as (Hc & _ & _ & Hi & Hop & Hcl & Hv & Hop1 & _). fold q in Hc, Hi, Hop, Hcl, Hv, Hop1.
  rewrite idents_plain by exact Hi.
  rewrite idents_quoted by (apply no_q_starts; [exact Hop | discriminate]).
  rewrite idents_plain by exact Hop. f_equal.
  replace (map (quote_id q) cols) with (map (fun it : str * str => quote_id q (fst it) ++ snd it) (map (fun c => (c, [])) cols)).
  2:{ rewrite map_map. apply map_ext. intros c. cbn [fst snd]. apply app_nil_r. }
  rewrite idents_join.
  - rewrite map_map. cbn [fst]. rewrite map_id.
    rewrite idents_plain by exact Hv.
    rewrite <- (app_nil_r (join_sep _ _)). rewrite idents_plain; [now rewrite app_nil_r|].
    apply no_q_join; [exact Hc|]. apply forallb_forall. intros x Hx. apply in_map_iff in Hx.
    destruct Hx as [r [<- _]]. rewrite !no_q_app, Hop1, Hcl, andb_true_r. cbn [andb].
    apply no_q_join; [exact Hc|]. apply forallb_forall. intros y Hy. apply in_map_iff in Hy.
    destruct Hy as [i [<- _]]. apply placeholder_no_quote.
  - exact Hc.
  - apply forallb_forall. intros x Hx. apply in_map_iff in Hx. destruct Hx as [c [<- _]]. reflexivity.
  - apply no_q_starts; [exact Hv | discriminate].
Qed.

(* CREATE TABLE: the type texts are raw SQL (sql_type, or the user's TypeMap by contract);
   the premise says they hold no quote byte *)
Theorem create_idents d t cols :
  forallb (fun ct => no_q (quote_char d) (snd ct)) cols = true ->
  idents (quote_char d) (fst (render_stmt d (SCreate t cols))) = t :: map fst cols.
Proof.
  intros Hty. cbn [render_stmt fst]. set (q := quote_char d) in *.
  destruct (keywords_no_quote d) as (Hc & _ & Hcr & _ & Hop & Hcl & _ & _ & Hsp). fold q in Hc, Hcr, Hop, Hcl, Hsp.
  rewrite idents_plain by exact Hcr.
  rewrite idents_quoted by (apply no_q_starts; [exact Hop | discriminate]).
  rewrite idents_plain by exact Hop. f_equal.
  match goal with |- context [join_sep comma_sp ?l] => replace l
    with (map (fun it : str * str => quote_id q (fst it) ++ snd it) (map (fun ct : str * str => (fst ct, [32%N] ++ snd ct)) cols)) end.
  2:{ rewrite map_map. apply map_ext. intros c. reflexivity. }
  rewrite idents_join.
  - rewrite map_map. cbn [fst]. rewrite <- (app_nil_r (lit ")")). rewrite idents_plain by exact Hcl.
    rewrite idents_nil. apply app_nil_r.
  - exact Hc.
  - apply forallb_forall. intros x Hx. apply in_map_iff in Hx. destruct Hx as [ct [<- Hin]].
    cbn [snd]. rewrite no_q_app, Hsp. cbn [andb].
    rewrite forallb_forall in Hty. exact (Hty ct Hin).
  - rewrite <- (app_nil_r (lit ")")). apply no_q_starts; [exact Hcl | discriminate].
Qed.

(* the CREATE statement ToSQL plans when no TypeMap is given: all types come from sql_type *)
Corollary create_idents_inferred d t (f : frame) :
  idents (quote_char d)
    (fst (render_stmt d (SCreate t (map (fun kc => (fst kc, col_sql_type d None (fst kc) (cdata (snd kc)))) f))))
  = t :: fkeys f.
Proof.
  rewrite create_idents.
  - rewrite map_map. reflexivity.
  - apply forallb_forall. intros x Hx. apply in_map_iff in Hx. destruct Hx as [kc [<- _]].
    cbn [snd col_sql_type]. apply sql_type_no_quote.
Qed.

Example idents_hostile :
  let t := lit "t"" (x TEXT); DROP TABLE ""u" in
  let c1 := lit "a""b" in let c2 := lit "c`;--" ++ [0; 200]%N in
  idents 34 (fst (render_stmt DPostgres (SInsert t [c1; c2] [[CNil; CNil]; [CNil; CNil]]))) = [t; c1; c2]
  /\ idents 96 (fst (render_stmt DMysql (SCreate t [(c1, lit "TEXT"); (c2, lit "BIGINT")]))) = [t; c1; c2]
  /\ forallb (fun ct => no_q (quote_char DMysql) (snd ct)) [(c1, lit "TEXT"); (c2, lit "BIGINT")] = true.
Proof. vm_compute. repeat split. Qed.

(* without the premise the theorem fails: a TypeMap entry holding a quote adds an identifier *)
Example create_idents_needs_premise :
  idents 34 (fst (render_stmt DSqlite (SCreate (lit "t") [(lit "a", lit "TEXT, ""zz"" INT")])))
  = [lit "t"; lit "a"; lit "zz"].
Proof. vm_compute. reflexivity. Qed.

Print Assumptions lex_quote.
Print Assumptions quote_id_inj.
Print Assumptions quote_id_no_early_end.
Print Assumptions drop_lex.
Print Assumptions drop_idents.
Print Assumptions insert_idents.
Print Assumptions create_idents.
Print Assumptions create_idents_inferred.
Print Assumptions sql_type_no_quote.
