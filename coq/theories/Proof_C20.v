(* Proof_C20.v - invalid requests give errors, never panics, and leave frames untouched.
   In the model Panic is an explicit outcome wherever the Go code indexes or reslices
   without a check; on a pool of well-formed frames no operation, for any argument
   value, reaches it; an operation that fails leaves the pool exactly as it was; and a
   table of invalid requests is shown to give Err. *)
From GF Require Import Ops Csv Step Lemmas.
From Coq Require Import Lia.

Definition wf_pool (p : pool) : bool := forallb wf_frame p.

(* ------------------------------------------------------------------ *)
(* 1. a failed operation leaves every live frame as it was             *)
(* ------------------------------------------------------------------ *)
Lemma derive_err p r : fst (derive p r) = Err -> snd (derive p r) = p.
Proof. destruct r; cbn; auto; discriminate. Qed.
Lemma derive_panic p r : fst (derive p r) = Panic -> snd (derive p r) = p.
Proof. destruct r; cbn; auto; discriminate. Qed.
Lemma edit_err p i r : fst (edit p i r) = Err -> snd (edit p i r) = p.
Proof. destruct r; cbn; auto; discriminate. Qed.
Lemma edit_panic p i r : fst (edit p i r) = Panic -> snd (edit p i r) = p.
Proof. destruct r; cbn; auto; discriminate. Qed.

Theorem step_err_keeps O p o : fst (step O p o) = Err -> snd (step O p o) = p.
Proof.
  destruct o; unfold step;
    try apply derive_err; try apply edit_err; try (intros _; reflexivity).
  destruct (nth_opt p f); cbn; [discriminate|auto].
Qed.
Theorem step_panic_keeps O p o : fst (step O p o) = Panic -> snd (step O p o) = p.
Proof.
  destruct o; unfold step;
    try apply derive_panic; try apply edit_panic; try (intros _; reflexivity).
  destruct (nth_opt p f); cbn; [discriminate|auto].
Qed.
(* both at once: anything but a success leaves the pool unchanged *)
Corollary step_failure_keeps O p o : (forall v, fst (step O p o) <> Ok v) -> snd (step O p o) = p.
Proof.
  intros H. destruct (fst (step O p o)) eqn:E.
  - exfalso. now apply (H a).
  - now apply step_err_keeps.
  - now apply step_panic_keeps.
Qed.

(* ------------------------------------------------------------------ *)
(* 2. no panic on well-formed pools                                     *)
(* ------------------------------------------------------------------ *)

(* --- plumbing --- *)
Lemma bind_np {A B} (o : out A) (k : A -> out B) :
  o <> Panic -> (forall a, o = Ok a -> k a <> Panic) -> bind o k <> Panic.
Proof. intros H1 H2. destruct o as [a| |]; cbn; [now apply H2 | discriminate | congruence]. Qed.
Lemma out_all_np {A} (l : list (out A)) : Forall (fun o => o <> Panic) l -> out_all l <> Panic.
Proof.
  induction l as [|o l IH]; intros H; cbn; [discriminate|].
  inversion H as [|? ? Ho Hl]; subst.
  apply bind_np; [assumption|]. intros a _. apply bind_np; [now apply IH|]. intros; discriminate.
Qed.
Lemma out_all_map_np {A B} (h : A -> out B) l : (forall x, In x l -> h x <> Panic) -> out_all (map h l) <> Panic.
Proof.
  intros H. apply out_all_np. rewrite Forall_forall. intros o Ho.
  apply in_map_iff in Ho. destruct Ho as [x [E Hx]]. subst o. now apply H.
Qed.
Lemma lift_np {A B} (g : A -> B) o : o <> Panic -> lift g o <> Panic.
Proof. destruct o; cbn; congruence. Qed.
Lemma with_frame_np {A} p i (k : frame -> out A) :
  (forall f, nth_opt p i = Some f -> k f <> Panic) -> with_frame p i k <> Panic.
Proof. unfold with_frame. intros H. destruct (nth_opt p i); [now apply H|discriminate]. Qed.
Lemma derive_np p r : r <> Panic -> fst (derive p r) <> Panic.
Proof. destruct r; cbn; congruence. Qed.
Lemma edit_np p i r : r <> Panic -> fst (edit p i r) <> Panic.
Proof. destruct r; cbn; congruence. Qed.
Lemma observe_np p r : r <> Panic -> fst (observe p r) <> Panic.
Proof. cbn. auto. Qed.

Lemma nth_opt_in {A} (l : list A) i x : nth_opt l i = Some x -> In x l.
Proof.
  revert i. induction l as [|y l IH]; intros [|i] H; cbn in *; try discriminate.
  - inversion H. now left.
  - right. eapply IH; eauto.
Qed.
Lemma wf_pool_nth p i f : wf_pool p = true -> nth_opt p i = Some f -> wf_frame f = true.
Proof.
  unfold wf_pool. rewrite forallb_forall. intros W H. apply W. eapply nth_opt_in; eauto.
Qed.
Lemma wf_rect f : wf_frame f = true -> rect f = true.
Proof. unfold wf_frame. intros H. apply andb_prop in H. destruct H as [H _]. apply andb_prop in H. tauto. Qed.
Lemma wf_pool_rect p i f : wf_pool p = true -> nth_opt p i = Some f -> rect f = true.
Proof. intros W H. apply wf_rect. eapply wf_pool_nth; eauto. Qed.
Lemma rect_len f kc : rect f = true -> In kc f -> length (cdata (snd kc)) = nrows f.
Proof. unfold rect. rewrite forallb_forall. intros R H. apply Nat.eqb_eq. now apply R. Qed.
Lemma fget_in {A} (f : list (str * A)) k c : fget f k = Some c -> exists k', In (k', c) f.
Proof.
  induction f as [|[k1 c1] f IH]; cbn; [discriminate|].
  destruct (str_eqb k k1).
  - intros H. inversion H; subst. exists k1. now left.
  - intros H. destruct (IH H) as [k' Hk]. exists k'. now right.
Qed.

(* operations in which Panic does not occur syntactically *)
Ltac np_syn :=
  cbv zeta;
  repeat match goal with
  | |- (if ?c then _ else _) <> Panic => destruct c
  | |- (match ?x with _ => _ end) <> Panic => destruct x
  end; try discriminate.

(* --- Head / Tail: the count is clamped to nrows, every column has nrows cells --- *)
Lemma clamp_le f n : (clamp_count f n <= nrows f)%nat.
Proof.
  unfold clamp_count. destruct (n <? 0) eqn:E1; [lia|].
  destruct (Z.of_nat (nrows f) <? n) eqn:E2; [lia|].
  apply Z.ltb_ge in E1. apply Z.ltb_ge in E2. lia.
Qed.
Lemma no_panic_head f n : rect f = true -> op_head f n <> Panic.
Proof.
  intros R. unfold op_head. cbv zeta.
  destruct (forallb (fun kc : str * col => Nat.leb (clamp_count f n) (length (cdata (snd kc)))) f) eqn:E;
    [discriminate|]. exfalso.
  assert (H : forallb (fun kc : str * col => Nat.leb (clamp_count f n) (length (cdata (snd kc)))) f = true).
  { apply forallb_forall. intros kc Hkc. apply Nat.leb_le. rewrite (rect_len f kc R Hkc). apply clamp_le. }
  congruence.
Qed.
Lemma no_panic_tail f n : rect f = true -> op_tail f n <> Panic.
Proof.
  intros R. unfold op_tail. cbv zeta.
  destruct (forallb (fun kc : str * col => Nat.leb (nrows f - clamp_count f n) (length (cdata (snd kc)))) f) eqn:E;
    [discriminate|]. exfalso.
  assert (H : forallb (fun kc : str * col => Nat.leb (nrows f - clamp_count f n) (length (cdata (snd kc)))) f = true).
  { apply forallb_forall. intros kc Hkc. apply Nat.leb_le. rewrite (rect_len f kc R Hkc). lia. }
  congruence.
Qed.

(* --- Loc: the index column has nrows cells --- *)
Lemma no_panic_loc f labels cols : rect f = true -> op_loc f labels cols <> Panic.
Proof.
  intros R. unfold op_loc.
  destruct (negb (forallb (fhas f) cols)); [discriminate|].
  destruct (fget f index_name) as [ic|] eqn:G; [|discriminate].
  destruct (fget_in _ _ _ G) as [k' Hin].
  pose proof (rect_len f (k', ic) R Hin) as L. cbn [snd] in L.
  assert (E : Nat.leb (nrows f) (length (cdata ic)) = true) by (apply Nat.leb_le; lia).
  rewrite E. cbn [negb]. rewrite andb_false_r. discriminate.
Qed.

(* --- DropRow: the index is below nrows, every column has nrows cells --- *)
Lemma no_panic_droprow f i : rect f = true -> op_droprow f i <> Panic.
Proof.
  intros R. unfold op_droprow.
  destruct ((i <? 0) || (Z.of_nat (nrows f) <=? i)) eqn:E; [discriminate|].
  apply orb_false_elim in E. destruct E as [E1 E2]. apply Z.ltb_ge in E1. apply Z.leb_gt in E2.
  assert (H : forallb (fun kc : str * col => Nat.ltb (Z.to_nat i) (length (cdata (snd kc)))) f = true).
  { apply forallb_forall. intros kc Hkc. apply Nat.ltb_lt. rewrite (rect_len f kc R Hkc). lia. }
  rewrite H. discriminate.
Qed.

(* --- Apply --- *)
Lemma all_some_map_length {A B} (g : A -> option B) l rs :
  all_some (map g l) = Some rs -> length rs = length l.
Proof.
  revert rs. induction l as [|x l IH]; intros rs H; cbn in H.
  - inversion H. reflexivity.
  - destruct (g x); [|discriminate]. destruct (all_some (map g l)) eqn:E; [|discriminate].
    inversion H; subst. cbn. f_equal. now apply IH.
Qed.
Lemma all_some_map_in {A B} (g : A -> option B) l rs r :
  all_some (map g l) = Some rs -> In r rs -> exists x, In x l /\ g x = Some r.
Proof.
  revert rs. induction l as [|x l IH]; intros rs H Hin; cbn in H.
  - inversion H; subst. destruct Hin.
  - destruct (g x) eqn:Ex; [|discriminate]. destruct (all_some (map g l)) eqn:E; [|discriminate].
    inversion H; subst. destruct Hin as [Hin|Hin].
    + subst. exists x. split; [now left|assumption].
    + destruct (IH _ eq_refl Hin) as [y [Hy Ey]]. exists y. split; [now right|assumption].
Qed.
Lemma all_some_map_flat {A B} (g : A -> option B) l rs :
  all_some (map g l) = Some rs ->
  flat_map (fun i => match g i with Some r => [r] | None => [] end) l = rs.
Proof.
  revert rs. induction l as [|x l IH]; intros rs H; cbn in H |- *.
  - now inversion H.
  - destruct (g x); [|discriminate]. destruct (all_some (map g l)) eqn:E; [|discriminate].
    inversion H; subst. cbn. f_equal. now apply IH.
Qed.
Lemma all_rows_are_rows f rs :
  all_some (map (frow f) (seq 0 (nrows f))) = Some rs -> rs = rows f.
Proof. intros H. unfold rows. symmetry. now apply all_some_map_flat. Qed.

(* Row(i) yields one cell per column, whatever the frame *)
Lemma frow_length f i r : frow f i = Some r -> length r = ncols f.
Proof.
  unfold frow. destruct (Nat.ltb i (nrows f)); [|discriminate]. intros H.
  apply all_some_map_length in H. exact H.
Qed.
(* case analysis on a function id of the menu: ids 0 .. 15 one by one and a last case
   S^16 id (the default branch of apply_fn).  The menu currently ends at 14; the spare
   level falls into the default branch and is closed by the same tactics, so the menu can
   grow a little without the case analyses below having to be re-nested. *)
Ltac menu_cases id := do 16 (try (destruct id as [|id]; [|])).
(* a function of the menu may look at its argument before it decides what to return (id 14:
   `match x with CNil :: _ => RNilRes | _ => RAny (rev x) end`); split the argument into the
   shapes such a match distinguishes (empty / first cell by constructor) wherever the goal or
   a hypothesis still contains a match on it, so that the match reduces; the remaining
   occurrences of a non-empty argument are folded back into the variable (equation Earg), so
   that the reasoning that follows sees `rev x`, `length x` as for the other functions.  Does
   nothing for the functions that do not inspect their argument. *)
Ltac arg_split x :=
  let E := fresh "Earg" in let c := fresh "c" in let x' := fresh x in
  destruct x as [|c x'] eqn:E; [|destruct c; try rewrite <- E in *].
Ltac arg_cases x :=
  try match goal with
      | H : context [match x with nil => _ | cons _ _ => _ end] |- _ => arg_split x
      | |- context [match x with nil => _ | cons _ _ => _ end] => arg_split x
      end.

(* every function of the menu that returns a []any returns as many cells as it received,
   except the two that change the length on purpose (10 shortens, 11 lengthens); the other
   two length-changing functions (12, 13) return typed slices, not a []any *)
Lemma apply_fn_any_length_gen id x l : id <> 10%nat -> id <> 11%nat ->
  apply_fn id x = RAny l -> length l = length x.
Proof.
  menu_cases id; cbn [apply_fn]; intros H10 H11 H; arg_cases x;
    try discriminate; try congruence; inversion H;
    rewrite ?rev_length, ?map_length; reflexivity.
Qed.
Lemma apply_fn_any_length id x l : fn_keeps_length id = true ->
  apply_fn id x = RAny l -> length l = length x.
Proof.
  intros Hk. apply apply_fn_any_length_gen; intros ->; discriminate Hk.
Qed.
(* a row result is the cells, or (too few values returned) an error: never a panic, for any
   function, any number of columns, any argument *)
Lemma no_panic_apply_row_cells id nc x : apply_row_cells id nc x <> Panic.
Proof.
  unfold apply_row_cells. destruct (apply_fn id x) as [l|l|l|l|c|]; try discriminate.
  destruct (Nat.leb nc (length l)); discriminate.
Qed.
Lemma no_panic_apply_row id f : op_apply_row id f <> Panic.
Proof.
  unfold op_apply_row. cbv zeta.
  destruct (all_some (map (frow f) (seq 0 (nrows f)))) as [rs|] eqn:E; [|discriminate].
  apply bind_np.
  - apply out_all_map_np. intros r _. apply no_panic_apply_row_cells.
  - intros res _. destruct (null f); discriminate.
Qed.
Lemma apply_col_np id d : apply_col id d <> Panic.
Proof. unfold apply_col. destruct (apply_fn id d); discriminate. Qed.
Lemma no_panic_apply_col id f : op_apply_col id f <> Panic.
Proof.
  unfold op_apply_col. destruct (null f); [discriminate|].
  apply bind_np; [|intros; discriminate].
  apply out_all_map_np. intros kc _. apply bind_np; [apply apply_col_np | intros; discriminate].
Qed.
Lemma no_panic_apply id f axis : op_apply id f axis <> Panic.
Proof.
  unfold op_apply. destruct axis as [[|a l]|]; try apply no_panic_apply_col.
  destruct (a =? 0); [apply no_panic_apply_col | apply no_panic_apply_row].
Qed.

(* --- Add --- *)
Lemma add_cell_np O a b : add_cell O a b <> Panic.
Proof. unfold add_cell. np_syn. Qed.
Lemma add_cols_np O fill a b : add_cols O fill a b <> Panic.
Proof.
  revert b. induction a as [|x a IH]; intros [|y b]; cbn [add_cols]; try discriminate.
  apply bind_np; [apply add_cell_np|]. intros c _.
  apply bind_np; [apply IH|]. intros; discriminate.
Qed.
Lemma no_panic_add O f g fill : op_add O f g fill <> Panic.
Proof.
  unfold op_add. destruct (negb (Nat.eqb (ncols f) (ncols g))); [discriminate|].
  destruct (negb (forallb (fhas g) (fkeys f))); [discriminate|]. cbv zeta.
  apply bind_np; [|intros; discriminate].
  apply out_all_map_np. intros kc _. destruct (fget g (fst kc)); [|discriminate].
  apply bind_np; [apply add_cols_np | intros; discriminate].
Qed.

(* --- the rest: no Panic in the definition --- *)
Lemma no_panic_iloc f rws cls : op_iloc f rws cls <> Panic.
Proof. unfold op_iloc. np_syn. Qed.
Lemma no_panic_multiselect f names : op_multiselect f names <> Panic.
Proof. unfold op_multiselect. np_syn. Qed.
Lemma no_panic_sort O f by_ asc : op_sort O f by_ asc <> Panic.
Proof. unfold op_sort. np_syn. Qed.
Lemma dedup_idx_np f h s k : dedup_idx f h s k <> Panic.
Proof. unfold dedup_idx. np_syn. Qed.
Lemma no_panic_dedup f h s k : op_dedup f h s k <> Panic.
Proof. unfold op_dedup. apply bind_np; [apply dedup_idx_np | intros; discriminate]. Qed.
Lemma no_panic_dedup_inplace f s k : op_dedup_inplace f s k <> Panic.
Proof. unfold op_dedup_inplace. apply bind_np; [apply dedup_idx_np | intros; discriminate]. Qed.
Lemma no_panic_join k f g key : op_join k f g key <> Panic.
Proof. unfold op_join. np_syn. Qed.
Lemma no_panic_resample f tcol freq agg : op_resample f tcol freq agg <> Panic.
Proof. unfold op_resample. np_syn. Qed.
Lemma no_panic_groupby O f gk : op_groupby O f gk <> Panic.
Proof. unfold op_groupby. np_syn. Qed.
Lemma no_panic_group_agg O f gk a cols : op_group_agg O f gk a cols <> Panic.
Proof.
  unfold op_group_agg. apply bind_np; [apply no_panic_groupby|]. intros g _. np_syn.
Qed.
Lemma no_panic_from_csv O b : op_from_csv O b <> Panic.
Proof. unfold op_from_csv. np_syn. Qed.
Lemma no_panic_to_csv O f : op_to_csv O f <> Panic.
Proof. unfold op_to_csv. np_syn. Qed.
Lemma no_panic_csv_roundtrip O f : (do b <- op_to_csv O f; op_from_csv O b) <> Panic.
Proof. apply bind_np; [apply no_panic_to_csv | intros; apply no_panic_from_csv]. Qed.
Lemma no_panic_row f i : op_row f i <> Panic.
Proof. unfold op_row. np_syn. Qed.
Lemma series_agg_np O k d : series_agg O k d <> Panic.
Proof. unfold series_agg. np_syn. Qed.
Lemma no_panic_agg O k f : op_agg O k f <> Panic.
Proof.
  unfold op_agg. apply out_all_map_np. intros kc _.
  apply bind_np; [apply series_agg_np | intros; discriminate].
Qed.
Lemma no_panic_dropna f : op_dropna f <> Panic.
Proof. unfold op_dropna. np_syn. Qed.
Lemma astype_cell_np O ty c : astype_cell O ty c <> Panic.
Proof. unfold astype_cell. np_syn. Qed.
Lemma no_panic_astype O f cn ty : op_astype O f cn ty <> Panic.
Proof.
  unfold op_astype. destruct (fget f cn); [|discriminate].
  apply bind_np; [|intros; discriminate]. apply out_all_map_np. intros; apply astype_cell_np.
Qed.
Lemma no_panic_datetime O f cn layout : op_datetime O f cn layout <> Panic.
Proof.
  unfold op_datetime. destruct (fget f cn); [|discriminate].
  apply bind_np; [|intros; discriminate]. apply out_all_map_np. intros v _. np_syn.
Qed.
Lemma no_panic_rename f a b : op_rename f a b <> Panic.
Proof. unfold op_rename. np_syn. Qed.
Lemma no_panic_addcolumn f n d : op_addcolumn f n d <> Panic.
Proof. unfold op_addcolumn. np_syn. Qed.
Lemma no_panic_dropcolumn f n : op_dropcolumn f n <> Panic.
Proof. unfold op_dropcolumn. np_syn. Qed.
Lemma no_panic_setcell f cn i v : op_setcell f cn i v <> Panic.
Proof. unfold op_setcell. np_syn. Qed.

(* --- the read-only views (View.v) --- *)
Lemma no_panic_select f n : op_select f n <> Panic.
Proof. unfold op_select. np_syn. Qed.
Lemma no_panic_colat f n i : op_colat f n i <> Panic.
Proof. unfold op_colat. np_syn. Qed.
Lemma no_panic_series f n i : op_series f n i <> Panic.
Proof. unfold op_series. np_syn. Qed.
Lemma no_panic_groupby_other a : op_groupby_other a <> Panic.
Proof. unfold op_groupby_other. np_syn. Qed.
(* LinePlot reads y[i] for every index of x: no panic because both columns have nrows cells *)
Lemma plot_scan2_np xs : forall ys, length xs = length ys -> plot_scan2 xs ys <> Panic.
Proof.
  induction xs as [|x xs IH]; intros ys L; cbn [plot_scan2]; [discriminate|].
  destruct ys as [|y ys]; [discriminate L|].
  destruct (is_f64 x && is_f64 y); [|discriminate]. apply IH. now inversion L.
Qed.
Lemma no_panic_plot bar f x y pk rk : rect f = true -> op_plot bar f x y pk rk <> Panic.
Proof.
  intros R. unfold op_plot. apply bind_np.
  - destruct bar.
    + destruct (fget f x); [|discriminate]. unfold plot_scan1. np_syn.
    + destruct (fget f x) as [cx|] eqn:Ex; [|discriminate].
      destruct (fget f y) as [cy|] eqn:Ey; [|discriminate].
      apply plot_scan2_np.
      destruct (fget_in _ _ _ Ex) as [kx Hx]. destruct (fget_in _ _ _ Ey) as [ky Hy].
      pose proof (rect_len f (kx, cx) R Hx) as Lx. pose proof (rect_len f (ky, cy) R Hy) as Ly.
      cbn [snd] in Lx, Ly. congruence.
  - intros _ _. np_syn.
Qed.

(* --- assembly: EVERY operation, EVERY argument value --- *)
Ltac np_step W :=
  repeat first
    [ discriminate
    | apply derive_np | apply edit_np | apply observe_np
    | (apply with_frame_np;
       let fr := fresh "fr" in let H := fresh "Hfr" in
       intros fr H; pose proof (wf_pool_rect _ _ _ W H))
    | (apply no_panic_head; assumption) | (apply no_panic_tail; assumption)
    | (apply no_panic_loc; assumption) | (apply no_panic_droprow; assumption)
    | apply no_panic_iloc | apply no_panic_multiselect | apply no_panic_sort
    | apply no_panic_dedup | apply no_panic_dedup_inplace | apply no_panic_join
    | apply no_panic_add | apply no_panic_apply | apply no_panic_resample
    | apply no_panic_group_agg | apply no_panic_from_csv | apply no_panic_csv_roundtrip
    | apply no_panic_groupby | apply no_panic_to_csv | apply no_panic_row
    | apply no_panic_agg | apply no_panic_dropna | apply no_panic_astype
    | apply no_panic_datetime | apply no_panic_rename | apply no_panic_addcolumn
    | apply no_panic_dropcolumn | apply no_panic_setcell
    | apply no_panic_select | apply no_panic_colat | apply no_panic_series
    | apply no_panic_groupby_other | (apply no_panic_plot; assumption)
    | apply lift_np ].

Theorem C20_no_panic O p o : wf_pool p = true -> fst (step O p o) <> Panic.
Proof.
  intros W. destruct o; unfold step; try solve [np_step W].
  (* OFilter *)
  - destruct (nth_opt p f); cbn; discriminate.
  (* OIoFail *)
  - unfold observe, with_frame. cbn [fst]. destruct (nth_opt p f); [|discriminate]. destruct reported; discriminate.
Qed.

(* every outcome on a well-formed pool is a value or an error; an error changes nothing *)
Corollary C20_ok_or_err O p o : wf_pool p = true ->
  (exists v, fst (step O p o) = Ok v) \/ (fst (step O p o) = Err /\ snd (step O p o) = p).
Proof.
  intros W. pose proof (C20_no_panic O p o W) as NP.
  destruct (fst (step O p o)) eqn:E.
  - left. eexists; reflexivity.
  - right. split; [reflexivity|]. now apply step_err_keeps.
  - congruence.
Qed.

(* rectangularity is what the proof uses; without it Head does panic in the model
   (and the Go code reslices a short column out of range) *)
Definition ragged : frame :=
  [([97%N], ([97%N], [CI KInt 1; CI KInt 2])); ([98%N], ([98%N], [CI KInt 1]))].
Example ragged_head_panics : op_head ragged 2 = Panic /\ wf_frame ragged = false.
Proof. vm_compute. split; reflexivity. Qed.

(* ------------------------------------------------------------------ *)
(* 3. invalid requests give Err                                        *)
(* ------------------------------------------------------------------ *)
Lemma fhas_false_get {A} (f : list (str * A)) k : fhas f k = false -> fget f k = None.
Proof. unfold fhas. destruct (fget f k); [discriminate|reflexivity]. Qed.
Lemma forallb_false_in {A} (q : A -> bool) l x : In x l -> q x = false -> forallb q l = false.
Proof.
  intros Hin Hx. destruct (forallb q l) eqn:E; [|reflexivity].
  rewrite forallb_forall in E. rewrite (E _ Hin) in Hx. discriminate.
Qed.
Lemma all_some_none {A B} (g : A -> option B) l x : In x l -> g x = None -> all_some (map g l) = None.
Proof.
  intros Hin Hx. induction l as [|y l IH]; [destruct Hin|]. cbn.
  destruct Hin as [Hin|Hin].
  - subst y. now rewrite Hx.
  - destruct (g y); [|reflexivity]. now rewrite (IH Hin).
Qed.
Lemma zidx_none {A} (l : list A) i : i < 0 \/ Z.of_nat (length l) <= i -> zidx l i = None.
Proof.
  intros H. unfold zidx.
  destruct (0 <=? i) eqn:E1; [|reflexivity]. destruct (i <? Z.of_nat (length l)) eqn:E2; [|reflexivity].
  apply Z.leb_le in E1. apply Z.ltb_lt in E2. lia.
Qed.
Lemma bad_index f i : i < 0 \/ Z.of_nat (nrows f) <= i -> (i <? 0) || (Z.of_nat (nrows f) <=? i) = true.
Proof.
  intros [H|H]; apply orb_true_iff; [left; now apply Z.ltb_lt | right; now apply Z.leb_le].
Qed.

Lemma invalid_astype O f cn ty : fhas f cn = false -> op_astype O f cn ty = Err.
Proof. intros H. unfold op_astype. now rewrite (fhas_false_get _ _ H). Qed.
Lemma invalid_datetime O f cn layout : fhas f cn = false -> op_datetime O f cn layout = Err.
Proof. intros H. unfold op_datetime. now rewrite (fhas_false_get _ _ H). Qed.
Lemma invalid_rename_unknown f a b : fhas f a = false -> op_rename f a b = Err.
Proof. intros H. unfold op_rename. now rewrite (fhas_false_get _ _ H). Qed.
Lemma invalid_rename_taken f a b : fhas f b = true -> op_rename f a b = Err.
Proof. intros H. unfold op_rename. destruct (fget f a); [now rewrite H|reflexivity]. Qed.
Lemma invalid_dropcolumn f n : fhas f n = false -> op_dropcolumn f n = Err.
Proof. intros H. unfold op_dropcolumn. now rewrite H. Qed.
Lemma invalid_addcolumn f n d : fhas f n = true -> op_addcolumn f n d = Err.
Proof. intros H. unfold op_addcolumn. now rewrite H. Qed.
Lemma invalid_setcell_column f cn i v : fhas f cn = false -> op_setcell f cn i v = Err.
Proof. intros H. unfold op_setcell. now rewrite (fhas_false_get _ _ H). Qed.
Lemma invalid_setcell_index f cn c i v : fget f cn = Some c ->
  i < 0 \/ Z.of_nat (length (cdata c)) <= i -> op_setcell f cn i v = Err.
Proof.
  intros G H. unfold op_setcell. rewrite G.
  destruct (0 <=? i) eqn:E1; [|reflexivity]. destruct (i <? Z.of_nat (length (cdata c))) eqn:E2; [|reflexivity].
  apply Z.leb_le in E1. apply Z.ltb_lt in E2. lia.
Qed.
(* any missing sort column *)
Lemma invalid_sort O f by_ asc k : In k by_ -> fhas f k = false -> op_sort O f by_ asc = Err.
Proof. intros Hin H. unfold op_sort. now rewrite (forallb_false_in (fhas f) by_ k Hin H). Qed.
Lemma invalid_loc_column f labels cols k : In k cols -> fhas f k = false -> op_loc f labels cols = Err.
Proof. intros Hin H. unfold op_loc. now rewrite (forallb_false_in (fhas f) cols k Hin H). Qed.
Lemma invalid_loc_noindex f labels cols : fhas f index_name = false -> op_loc f labels cols = Err.
Proof.
  intros H. unfold op_loc. rewrite (fhas_false_get _ _ H). now destruct (negb (forallb (fhas f) cols)).
Qed.
(* the key missing on either side *)
Lemma invalid_join k f g key : fhas f key = false \/ fhas g key = false -> op_join k f g key = Err.
Proof.
  intros [H|H]; unfold op_join; rewrite H; cbn [negb orb]; [reflexivity|].
  now rewrite orb_true_r.
Qed.
Lemma invalid_resample_column f tcol freq agg : fhas f tcol = false -> op_resample f tcol freq agg = Err.
Proof. intros H. unfold op_resample. now rewrite (fhas_false_get _ _ H). Qed.
Lemma invalid_resample_freq f tcol freq agg : freq_ok freq = None -> op_resample f tcol freq agg = Err.
Proof. intros H. unfold op_resample. destruct (fget f tcol); [now rewrite H|reflexivity]. Qed.
(* which frequencies are unknown: everything but the six one-letter codes Y M D H T S *)
Lemma freq_unknown s : (forall c, s = [c] -> ~ In c [89; 77; 68; 72; 84; 83]%N) -> freq_ok s = None.
Proof.
  intros H. destruct s as [|c [|c' s]]; try reflexivity.
  specialize (H c eq_refl). unfold freq_ok.
  destruct (N.eqb c 89) eqn:E1; [apply N.eqb_eq in E1; subst; exfalso; apply H; cbn; tauto|].
  destruct (N.eqb c 77) eqn:E2; [apply N.eqb_eq in E2; subst; exfalso; apply H; cbn; tauto|].
  destruct (N.eqb c 68) eqn:E3; [apply N.eqb_eq in E3; subst; exfalso; apply H; cbn; tauto|].
  destruct (N.eqb c 72) eqn:E4; [apply N.eqb_eq in E4; subst; exfalso; apply H; cbn; tauto|].
  destruct (N.eqb c 84) eqn:E5; [apply N.eqb_eq in E5; subst; exfalso; apply H; cbn; tauto|].
  destruct (N.eqb c 83) eqn:E6; [apply N.eqb_eq in E6; subst; exfalso; apply H; cbn; tauto|].
  reflexivity.
Qed.
(* a row whose time cell is not a time *)
Lemma invalid_resample_cell f tcol freq agg r : In r (rows f) -> time_of (rget r tcol) = None ->
  op_resample f tcol freq agg = Err.
Proof.
  intros Hin H. unfold op_resample. destruct (fget f tcol); [|reflexivity].
  destruct (freq_ok freq); [|reflexivity].
  destruct (all_some (map (frow f) (seq 0 (nrows f)))) as [rs|] eqn:E; [|reflexivity].
  apply all_rows_are_rows in E. subst rs.
  now rewrite (all_some_none (fun r0 => time_of (rget r0 tcol)) (rows f) r Hin H).
Qed.
Lemma invalid_multiselect_empty f : op_multiselect f [] = Err.
Proof. reflexivity. Qed.
Lemma invalid_multiselect_unknown f names n : In n names -> fhas f n = false -> op_multiselect f names = Err.
Proof.
  intros Hin H. unfold op_multiselect. destruct (null names); [reflexivity|].
  now rewrite (all_some_none (fget f) names n Hin (fhas_false_get _ _ H)).
Qed.
(* a row position that is negative or beyond the last row *)
Lemma invalid_iloc_row f rws cls r : In r rws -> r < 0 \/ Z.of_nat (nrows f) <= r -> op_iloc f rws cls = Err.
Proof.
  intros Hin H. unfold op_iloc. cbv zeta.
  destruct (all_some (map (zidx (fkeys f)) cls)); [|reflexivity].
  rewrite (forallb_false_in _ rws r Hin); [reflexivity|].
  destruct (0 <=? r) eqn:E1; [|reflexivity]. destruct (r <? Z.of_nat (nrows f)) eqn:E2; [|reflexivity].
  apply Z.leb_le in E1. apply Z.ltb_lt in E2. lia.
Qed.
(* a column position that is negative or beyond the last column *)
Lemma invalid_iloc_col f rws cls c : In c cls -> c < 0 \/ Z.of_nat (ncols f) <= c -> op_iloc f rws cls = Err.
Proof.
  intros Hin H. unfold op_iloc. cbv zeta.
  rewrite (all_some_none (zidx (fkeys f)) cls c Hin); [reflexivity|].
  apply zidx_none. unfold fkeys. now rewrite map_length.
Qed.
Lemma invalid_droprow f i : i < 0 \/ Z.of_nat (nrows f) <= i -> op_droprow f i = Err.
Proof. intros H. unfold op_droprow. now rewrite (bad_index f i H). Qed.
Lemma invalid_row f i : i < 0 \/ Z.of_nat (nrows f) <= i -> op_row f i = Err.
Proof. intros H. unfold op_row. now rewrite (bad_index f i H). Qed.
(* a keep option that is neither empty nor one of first/last/none *)
Lemma invalid_dedup_keep f subset keep :
  keep <> [] -> keep <> s_first -> keep <> s_last -> keep <> s_none ->
  dedup_idx f true subset keep = Err.
Proof.
  intros H0 H1 H2 H3. unfold dedup_idx. cbv zeta.
  destruct keep as [|c keep]; [congruence|]. cbn [null negb andb].
  apply str_eqb_neq in H1. apply str_eqb_neq in H2. apply str_eqb_neq in H3.
  rewrite H1, H2, H3. reflexivity.
Qed.
Lemma invalid_dedup f subset keep :
  keep <> [] -> keep <> s_first -> keep <> s_last -> keep <> s_none ->
  op_dedup f true subset keep = Err /\ op_dedup_inplace f subset keep = Err.
Proof.
  intros H0 H1 H2 H3. unfold op_dedup, op_dedup_inplace.
  now rewrite (invalid_dedup_keep f subset keep H0 H1 H2 H3).
Qed.
(* a subset naming a column the frame does not have (on a frame with at least one row) *)
Lemma invalid_dedup_subset f keep n subset :
  nrows f <> O -> In n subset -> fhas f n = false -> dedup_idx f true subset keep = Err.
Proof.
  intros Hn Hin H. unfold dedup_idx. cbv zeta.
  match goal with |- (if ?c then _ else _) = _ => destruct c end; [reflexivity|].
  assert (Es : true && negb (null subset) = true) by (destruct subset; [destruct Hin|reflexivity]).
  rewrite Es.
  rewrite (all_some_none (row_key f subset) (seq 0 (nrows f)) 0%nat); [reflexivity| apply in_seq; lia |].
  unfold row_key.
  apply (all_some_none (fun n0 => match fget f n0 with Some c => nth_opt (cdata c) 0 | None => None end) subset n Hin).
  now rewrite (fhas_false_get _ _ H).
Qed.
(* different column sets *)
Lemma invalid_add_ncols O f g fill : ncols f <> ncols g -> op_add O f g fill = Err.
Proof. intros H. unfold op_add. apply Nat.eqb_neq in H. now rewrite H. Qed.
Lemma invalid_add_key O f g fill k : In k (fkeys f) -> fhas g k = false -> op_add O f g fill = Err.
Proof.
  intros Hin H. unfold op_add. destruct (negb (Nat.eqb (ncols f) (ncols g))); [reflexivity|].
  now rewrite (forallb_false_in (fhas g) (fkeys f) k Hin H).
Qed.
Lemma invalid_groupby O f gk k : In k (gkey_cols gk) -> fhas f k = false -> op_groupby O f gk = Err.
Proof. intros Hin H. unfold op_groupby. now rewrite (forallb_false_in (fhas f) _ k Hin H). Qed.
Lemma invalid_apply_empty id axis : op_apply id [] axis = Err.
Proof. unfold op_apply. destruct axis as [[|a l]|]; try reflexivity. now destruct (a =? 0). Qed.
(* a frame handle that is not live *)
Lemma invalid_handle {A} p i (k : frame -> out A) : (length p <= i)%nat -> with_frame p i k = Err.
Proof. intros H. unfold with_frame. now rewrite (nth_opt_none p i H). Qed.

(* at the level of steps: an operation naming a frame handle that is not live is an error
   (and by step_err_keeps the pool is unchanged) *)
Definition handles (o : op) : list nat :=
  match o with
  | OHead f _ | OTail f _ | ORowSlice f _ _ | OFilter f _ | OLoc f _ _ | OIloc f _ _
  | OMultiSelect f _ | OSort f _ _ | OShift f _ | ODedup f _ _ _ | OApply f _ _ | ODescribe f
  | OResample f _ _ _ | OGroupAgg f _ _ _ | OCsvRoundTrip f | OGroupby f _ | OToCSV f | ORow f _
  | OColumnNames f | ONrows f | ONcols f | OAgg f _ | OString f | OSelect f _ | OColAt f _ _ | OSeries f _ _
  | OPlot _ f _ _ _ _ | OGroupbyOther f _ | OIoFail f _ | OAppendRow f _ | ODropRow f _ | OFillNa f _
  | ODropNa f | OAstype f _ _ | ODatetime f _ _ | ORename f _ _ | OAddColumn f _ _
  | ODropColumn f _ | OSetCell f _ _ _ | ODedupInplace f _ _ => [f]
  | OJoin _ f g _ | OAdd f g _ => [f; g]
  | OFromCSV _ => []
  end.
Theorem step_bad_handle O p o i : In i (handles o) -> (length p <= i)%nat ->
  step O p o = (Err, p).
Proof.
  intros Hin Hlen. pose proof (nth_opt_none p i Hlen) as N.
  destruct o; cbn [handles] in Hin;
    repeat (destruct Hin as [Hin|Hin]; [subst i|]); try destruct Hin;
    unfold step, with_frame; try rewrite N; try reflexivity.
  - destruct (nth_opt p f); reflexivity.
  - destruct (nth_opt p f); reflexivity.
Qed.

(* the table *)
Theorem C20_invalid_is_error :
  (forall O f cn ty, fhas f cn = false -> op_astype O f cn ty = Err) /\
  (forall O f cn layout, fhas f cn = false -> op_datetime O f cn layout = Err) /\
  (forall f a b, fhas f a = false -> op_rename f a b = Err) /\
  (forall f a b, fhas f b = true -> op_rename f a b = Err) /\
  (forall f n, fhas f n = false -> op_dropcolumn f n = Err) /\
  (forall O f by_ asc k, In k by_ -> fhas f k = false -> op_sort O f by_ asc = Err) /\
  (forall k f g key, fhas f key = false \/ fhas g key = false -> op_join k f g key = Err) /\
  (forall f tcol freq agg, fhas f tcol = false -> op_resample f tcol freq agg = Err) /\
  (forall f tcol freq agg, freq_ok freq = None -> op_resample f tcol freq agg = Err) /\
  (forall f tcol freq agg r, In r (rows f) -> time_of (rget r tcol) = None ->
                             op_resample f tcol freq agg = Err) /\
  (forall f, op_multiselect f [] = Err) /\
  (forall f names n, In n names -> fhas f n = false -> op_multiselect f names = Err) /\
  (forall f rws cls r, In r rws -> r < 0 \/ Z.of_nat (nrows f) <= r -> op_iloc f rws cls = Err) /\
  (forall f rws cls c, In c cls -> c < 0 \/ Z.of_nat (ncols f) <= c -> op_iloc f rws cls = Err) /\
  (forall f i, i < 0 \/ Z.of_nat (nrows f) <= i -> op_droprow f i = Err) /\
  (forall f i, i < 0 \/ Z.of_nat (nrows f) <= i -> op_row f i = Err) /\
  (forall f subset keep, keep <> [] -> keep <> s_first -> keep <> s_last -> keep <> s_none ->
                         dedup_idx f true subset keep = Err) /\
  (forall O f g fill, ncols f <> ncols g -> op_add O f g fill = Err) /\
  (forall O f g fill k, In k (fkeys f) -> fhas g k = false -> op_add O f g fill = Err) /\
  (forall f n d, fhas f n = true -> op_addcolumn f n d = Err).
Proof.
  repeat split.
  - apply invalid_astype.
  - apply invalid_datetime.
  - apply invalid_rename_unknown.
  - apply invalid_rename_taken.
  - apply invalid_dropcolumn.
  - apply invalid_sort.
  - apply invalid_join.
  - apply invalid_resample_column.
  - apply invalid_resample_freq.
  - apply invalid_resample_cell.
  - apply invalid_multiselect_unknown.
  - apply invalid_iloc_row.
  - apply invalid_iloc_col.
  - apply invalid_droprow.
  - apply invalid_row.
  - apply invalid_dedup_keep.
  - apply invalid_add_ncols.
  - apply invalid_add_key.
  - apply invalid_addcolumn.
Qed.

(* ------------------------------------------------------------------ *)
(* examples: extreme arguments on a small well-formed frame            *)
(* ------------------------------------------------------------------ *)
Definition O0 : oracles := {| o_pf := []; o_fmt := []; o_tparse := [] |}.
Definition sa : str := [97%N].
Definition sb : str := [98%N].
Definition fr0 : frame :=
  [(sa, (sa, [CI KInt 1; CI KInt 2; CNil]));
   (sb, (sb, [CS [120%N]; CNil; CS [121%N]]))].
Definition maxi : Z := 2 ^ 63 - 1.
Definition mini : Z := - (2 ^ 63).

Example fr0_wf : wf_pool [fr0] = true. Proof. vm_compute. reflexivity. Qed.

Example head_extreme :
  op_head fr0 (-1) = Ok (rekey_cols (fun _ => []) fr0) /\
  op_head fr0 mini = Ok (rekey_cols (fun _ => []) fr0) /\
  op_head fr0 maxi = Ok fr0 /\
  op_tail fr0 (-1) = Ok (rekey_cols (fun _ => []) fr0) /\
  op_tail fr0 mini = Ok (rekey_cols (fun _ => []) fr0) /\
  op_tail fr0 maxi = Ok fr0.
Proof. vm_compute. repeat split. Qed.
Example droprow_extreme :
  op_droprow fr0 mini = Err /\ op_droprow fr0 (-1) = Err /\ op_droprow fr0 3 = Err /\
  op_droprow fr0 maxi = Err /\ op_row fr0 mini = Err /\ op_row fr0 3 = Err /\ op_row fr0 maxi = Err.
Proof. vm_compute. repeat split. Qed.
Example iloc_extreme :
  op_iloc fr0 [mini] [0] = Err /\ op_iloc fr0 [0] [maxi] = Err /\ op_iloc fr0 [3] [0] = Err /\
  op_iloc fr0 [0] [2] = Err /\ op_iloc fr0 [0] [-1] = Err.
Proof. vm_compute. repeat split. Qed.
Example rowslice_shift_extreme :
  op_rowslice fr0 mini maxi = fr0 /\
  op_rowslice fr0 maxi mini = rekey_cols (fun _ => []) fr0 /\
  op_shift fr0 mini = rekey_cols (fun _ => [CNil; CNil; CNil]) fr0 /\
  op_shift fr0 maxi = rekey_cols (fun _ => [CNil; CNil; CNil]) fr0.
Proof. vm_compute. repeat split. Qed.
Example setcell_extreme :
  op_setcell fr0 sa mini CNil = Err /\ op_setcell fr0 sa maxi CNil = Err /\ op_setcell fr0 sa 3 CNil = Err.
Proof. vm_compute. repeat split. Qed.
Example names_invalid :
  op_astype O0 fr0 [122%N] s_int = Err /\ op_rename fr0 [122%N] sa = Err /\ op_rename fr0 sa sb = Err /\
  op_dropcolumn fr0 [] = Err /\ op_addcolumn fr0 sa [] = Err /\ op_multiselect fr0 [] = Err /\
  op_multiselect fr0 [sa; [122%N]] = Err /\ op_sort O0 fr0 [sa; [122%N]] true = Err /\
  op_join JInner fr0 fr0 [122%N] = Err /\ op_resample fr0 sa [68%N] 0 = Err /\
  op_resample fr0 sa [68%N; 68%N] 0 = Err /\ op_resample fr0 [122%N] [68%N] 0 = Err /\
  op_dedup fr0 true [] [120%N] = Err /\ op_add O0 fr0 (op_append_row fr0 [([122%N], CNil)]) None = Err.
Proof. vm_compute. repeat split. Qed.
(* steps: the failed operation leaves the pool as it was, an unknown handle is an error *)
Example step_extreme :
  step O0 [fr0] (ODropRow 0 mini) = (Err, [fr0]) /\
  step O0 [fr0] (ODropRow 7 0) = (Err, [fr0]) /\
  step O0 [fr0] (OHead 1 maxi) = (Err, [fr0]) /\
  step O0 [fr0] (OApply 0 7 None) = (Err, [fr0]) /\
  step O0 [fr0] (OApply 0 10 (Some [1])) = (Err, [fr0]) /\   (* a row function returning too few values *)
  fst (step O0 [fr0] (OApply 0 1 (Some [maxi]))) = Ok (VFrame
     [(sa, (sa, [CS [120%N]; CNil; CS [121%N]])); (sb, (sb, [CI KInt 1; CI KInt 2; CNil]))]).
Proof. vm_compute. repeat split. Qed.

Print Assumptions step_err_keeps.
Print Assumptions step_panic_keeps.
Print Assumptions C20_no_panic.
Print Assumptions C20_ok_or_err.
Print Assumptions C20_invalid_is_error.
Print Assumptions step_bad_handle.
