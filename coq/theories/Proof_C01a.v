(* Proof_C01a.v - C01 "frames stay rectangular", part a: every single-frame operation
   maps a well-formed frame (rectangular, every column stored under its own Name, keys
   sorted and unique) to a well-formed frame.  One lemma wf_<op> per operation. *)
From GF Require Import Ops Lemmas.
From Coq Require Import Lia.
Arguments N.eqb : simpl never.

(* ------------------------------------------------------------------------- *)
(* wf_frame, unpacked                                                         *)
(* ------------------------------------------------------------------------- *)

Lemma rect_iff f : rect f = true <-> forall k c, In (k, c) f -> length (cdata c) = nrows f.
Proof.
  unfold rect. rewrite forallb_forall. split.
  - intros H k c Hin. specialize (H _ Hin). cbn [snd] in H. now apply Nat.eqb_eq in H.
  - intros H [k c] Hin. cbn [snd]. apply Nat.eqb_eq. exact (H k c Hin).
Qed.

(* "all lengths equal to some n" is enough: nrows is then n (or the frame is empty) *)
Lemma rect_of_common_length f n :
  (forall k c, In (k, c) f -> length (cdata c) = n) -> rect f = true.
Proof.
  intros H. apply rect_iff. intros k c Hin.
  destruct f as [|[k0 c0] t]; [destruct Hin|].
  cbn [nrows]. rewrite (H k c Hin). symmetry. apply (H k0 c0). now left.
Qed.

Lemma names_ok_iff f : names_ok f = true <-> forall k c, In (k, c) f -> cname c = k.
Proof.
  unfold names_ok. rewrite forallb_forall. split.
  - intros H k c Hin. specialize (H _ Hin). cbn [fst snd] in H. apply str_eqb_eq in H. now symmetry.
  - intros H [k c] Hin. cbn [fst snd]. apply str_eqb_eq. symmetry. exact (H k c Hin).
Qed.

(* the working invariant: sorted unique keys, every column named by its key, common length n *)
Definition WF (f : frame) (n : nat) : Prop :=
  sorted_keys (fkeys f) = true /\
  forall k c, In (k, c) f -> cname c = k /\ length (cdata c) = n.

Lemma wf_of_WF f n : WF f n -> wf_frame f = true.
Proof.
  intros [Hs Hc]. unfold wf_frame. rewrite Hs.
  rewrite (rect_of_common_length f n) by (intros k c Hin; exact (proj2 (Hc k c Hin))).
  assert (Hn : names_ok f = true) by (apply names_ok_iff; intros k c Hin; exact (proj1 (Hc k c Hin))).
  now rewrite Hn.
Qed.

Lemma WF_of_wf f : wf_frame f = true -> WF f (nrows f).
Proof.
  unfold wf_frame. intros H. apply andb_prop in H. destruct H as [H Hs].
  apply andb_prop in H. destruct H as [Hr Hn]. split; [assumption|].
  intros k c Hin. split.
  - now apply (proj1 (names_ok_iff f) Hn).
  - now apply (proj1 (rect_iff f) Hr k).
Qed.

Lemma wf_frame_iff f : wf_frame f = true <-> WF f (nrows f).
Proof. split; [apply WF_of_wf | apply wf_of_WF]. Qed.

Lemma WF_nil n : WF [] n.
Proof. split; [reflexivity|]. intros k c []. Qed.

(* ------------------------------------------------------------------------- *)
(* sorted key lists                                                           *)
(* ------------------------------------------------------------------------- *)

Lemma sk_cons2 a b t : sorted_keys (a :: b :: t) = str_ltb a b && sorted_keys (b :: t).
Proof. reflexivity. Qed.

Lemma sk_tail a t : sorted_keys (a :: t) = true -> sorted_keys t = true.
Proof.
  destruct t as [|b t]; [reflexivity|]. rewrite sk_cons2. intros H.
  apply andb_prop in H. now destruct H.
Qed.

Lemma sk_head_lt a t : sorted_keys (a :: t) = true -> forall x, In x t -> str_ltb a x = true.
Proof.
  revert a. induction t as [|b t IH]; intros a H x Hin; [destruct Hin|].
  rewrite sk_cons2 in H. apply andb_prop in H. destruct H as [Hab Ht].
  destruct Hin as [<-|Hin]; [assumption|].
  apply str_ltb_trans with (b := b); [assumption|]. now apply IH.
Qed.

Lemma sk_cons a t : sorted_keys t = true -> (forall x, In x t -> str_ltb a x = true) ->
  sorted_keys (a :: t) = true.
Proof.
  intros Ht Ha. destruct t as [|b t]; [reflexivity|].
  rewrite sk_cons2, Ht, (Ha b) by now left. reflexivity.
Qed.

(* ------------------------------------------------------------------------- *)
(* finite-map facts: fget, fset, fdel on association lists                    *)
(* ------------------------------------------------------------------------- *)

Lemma fget_in {A} (f : list (str * A)) k c : fget f k = Some c -> In (k, c) f.
Proof.
  induction f as [|[k0 c0] t IH]; cbn [fget]; [discriminate|].
  destruct (str_eqb k k0) eqn:E.
  - intros H. injection H as <-. apply str_eqb_eq in E. subst. now left.
  - intros H. right. now apply IH.
Qed.

Lemma fset_in {A} (f : list (str * A)) k c k' c' :
  In (k', c') (fset f k c) -> (k', c') = (k, c) \/ In (k', c') f.
Proof.
  induction f as [|[k0 c0] t IH]; cbn [fset].
  - intros [H|[]]. now left.
  - destruct (str_compare k k0).
    + intros [H|H]; [now left | right; now right].
    + intros [H|H]; [now left | now right].
    + intros [H|H]; [right; now left|]. destruct (IH H) as [H'|H']; [now left | right; now right].
Qed.

Lemma fset_key_in {A} (f : list (str * A)) k c x :
  In x (fkeys (fset f k c)) -> x = k \/ In x (fkeys f).
Proof.
  unfold fkeys. intros H. apply in_map_iff in H. destruct H as [[k' c'] [E Hin]].
  cbn [fst] in E. subst k'. apply fset_in in Hin. destruct Hin as [Hin|Hin].
  - left. now injection Hin.
  - right. apply in_map_iff. exists (x, c'). now split.
Qed.

Lemma fset_sorted {A} (f : list (str * A)) k c :
  sorted_keys (fkeys f) = true -> sorted_keys (fkeys (fset f k c)) = true.
Proof.
  induction f as [|[k0 c0] t IH]; intros H; cbn [fset]; [reflexivity|].
  destruct (str_compare k k0) eqn:C.
  - apply str_compare_eq in C. subst k0. exact H.
  - change (sorted_keys (k :: k0 :: fkeys t) = true). rewrite sk_cons2.
    change (sorted_keys (k0 :: fkeys t) = true) in H. rewrite H.
    unfold str_ltb. now rewrite C.
  - change (sorted_keys (k0 :: fkeys (fset t k c)) = true).
    change (sorted_keys (k0 :: fkeys t) = true) in H.
    apply sk_cons; [apply IH; now apply sk_tail in H|].
    intros x Hx. apply fset_key_in in Hx. destruct Hx as [->|Hx].
    + unfold str_ltb. rewrite (str_compare_antisym k k0), C. reflexivity.
    + now apply (sk_head_lt _ _ H).
Qed.

Lemma fdel_in {A} (f : list (str * A)) k k' c' : In (k', c') (fdel f k) -> In (k', c') f.
Proof.
  induction f as [|[k0 c0] t IH]; cbn [fdel]; [auto|].
  destruct (str_eqb k k0); [now right|]. intros [H|H]; [now left | right; now apply IH].
Qed.

Lemma fdel_key_in {A} (f : list (str * A)) k x : In x (fkeys (fdel f k)) -> In x (fkeys f).
Proof.
  unfold fkeys. intros H. apply in_map_iff in H. destruct H as [[k' c'] [E Hin]].
  apply fdel_in in Hin. apply in_map_iff. exists (k', c'). now split.
Qed.

Lemma fdel_sorted {A} (f : list (str * A)) k :
  sorted_keys (fkeys f) = true -> sorted_keys (fkeys (fdel f k)) = true.
Proof.
  induction f as [|[k0 c0] t IH]; intros H; cbn [fdel]; [reflexivity|].
  change (sorted_keys (k0 :: fkeys t) = true) in H.
  destruct (str_eqb k k0); [now apply sk_tail in H|].
  change (sorted_keys (k0 :: fkeys (fdel t k)) = true).
  apply sk_cons; [apply IH; now apply sk_tail in H|].
  intros x Hx. apply fdel_key_in in Hx. now apply (sk_head_lt _ _ H).
Qed.

Lemma WF_fset f n k c : WF f n -> cname c = k -> length (cdata c) = n -> WF (fset f k c) n.
Proof.
  intros [Hs Hc] Hk Hl. split; [now apply fset_sorted|].
  intros k' c' Hin. apply fset_in in Hin. destruct Hin as [E|Hin]; [|now apply Hc].
  injection E as -> ->. now split.
Qed.

Lemma WF_fdel f n k : WF f n -> WF (fdel f k) n.
Proof.
  intros [Hs Hc]. split; [now apply fdel_sorted|].
  intros k' c' Hin. apply fdel_in in Hin. now apply Hc.
Qed.

Lemma WF_fget f n k c : WF f n -> fget f k = Some c -> cname c = k /\ length (cdata c) = n.
Proof. intros [_ Hc] H. apply Hc. now apply fget_in. Qed.

(* ------------------------------------------------------------------------- *)
(* column-wise maps                                                           *)
(* ------------------------------------------------------------------------- *)

(* the general shape of map_cols, rekey_cols and the last step of AppendRow *)
Lemma WF_maph (h : str -> col -> col) f n m :
  WF f n ->
  (forall k c, cname c = k -> length (cdata c) = n ->
               cname (h k c) = k /\ length (cdata (h k c)) = m) ->
  WF (map (fun kc => (fst kc, h (fst kc) (snd kc))) f) m.
Proof.
  intros [Hs Hc] Hh. split.
  - unfold fkeys in *. rewrite map_map. cbn [fst]. exact Hs.
  - intros k c Hin. apply in_map_iff in Hin. destruct Hin as [[k0 c0] [E Hin]].
    cbn [fst snd] in E. injection E as -> <-. destruct (Hc _ _ Hin) as [Hn Hl]. now apply Hh.
Qed.

Lemma WF_map_cols g f n m :
  WF f n -> (forall d, length d = n -> length (g d) = m) -> WF (map_cols g f) m.
Proof.
  intros H Hg. unfold map_cols.
  apply (WF_maph (fun _ c => (cname c, g (cdata c))) f n m H).
  intros k c Hk Hl. cbn [cname cdata fst snd]. split; [exact Hk | now apply Hg].
Qed.

Lemma WF_rekey_cols g f n m :
  WF f n -> (forall d, length d = n -> length (g d) = m) -> WF (rekey_cols g f) m.
Proof.
  intros H Hg. unfold rekey_cols.
  apply (WF_maph (fun k c => (k, g (cdata c))) f n m H).
  intros k c Hk Hl. cbn [cname cdata fst snd]. split; [reflexivity | now apply Hg].
Qed.

Lemma repeat_CNil_length n : length (repeat CNil n) = n.
Proof. apply repeat_length. Qed.

Lemma wf_map_cols_len g f :
  wf_frame f = true ->
  (forall d d', length d = length d' -> length (g d) = length (g d')) ->
  wf_frame (map_cols g f) = true.
Proof.
  intros H Hg. apply WF_of_wf in H.
  apply (wf_of_WF _ (length (g (repeat CNil (nrows f))))).
  apply (WF_map_cols g f (nrows f)); [assumption|].
  intros d Hd. apply Hg. now rewrite repeat_CNil_length.
Qed.

Lemma wf_rekey_cols_len g f :
  wf_frame f = true ->
  (forall d d', length d = length d' -> length (g d) = length (g d')) ->
  wf_frame (rekey_cols g f) = true.
Proof.
  intros H Hg. apply WF_of_wf in H.
  apply (wf_of_WF _ (length (g (repeat CNil (nrows f))))).
  apply (WF_rekey_cols g f (nrows f)); [assumption|].
  intros d Hd. apply Hg. now rewrite repeat_CNil_length.
Qed.

(* ------------------------------------------------------------------------- *)
(* lengths of the column transformers                                         *)
(* ------------------------------------------------------------------------- *)

Lemma nth_opt_none_ge {A} (l : list A) i : nth_opt l i = None -> (length l <= i)%nat.
Proof.
  revert i; induction l as [|x l IH]; intros [|i] H; cbn in *; try discriminate; try lia.
  apply IH in H. lia.
Qed.

Lemma pick_length {A} (d : list A) idxs :
  length (pick d idxs) = length (filter (fun i => Nat.ltb i (length d)) idxs).
Proof.
  unfold pick. induction idxs as [|i idxs IH]; [reflexivity|].
  cbn [flat_map filter]. rewrite app_length, IH.
  destruct (nth_opt d i) eqn:E.
  - apply nth_opt_some_lt in E. apply Nat.ltb_lt in E. rewrite E. reflexivity.
  - apply nth_opt_none_ge in E. apply Nat.ltb_ge in E. rewrite E. reflexivity.
Qed.

Lemma pick_length_eq {A} (d d' : list A) idxs :
  length d = length d' -> length (pick d idxs) = length (pick d' idxs).
Proof. intros H. now rewrite !pick_length, H. Qed.

Lemma remove_nth_length_eq {A} (d d' : list A) i :
  length d = length d' -> length (remove_nth d i) = length (remove_nth d' i).
Proof.
  revert d' i. induction d as [|x d IH]; intros [|y d'] [|i] H; cbn in *; try discriminate; try lia.
  injection H as H. now rewrite (IH d' i H).
Qed.

Lemma set_nth_length {A} (l : list A) i v : length (set_nth l i v) = length l.
Proof.
  revert i. induction l as [|x l IH]; intros [|i]; cbn; auto.
Qed.

Lemma shift_col_len p d : length (shift_col p d) = length d.
Proof. unfold shift_col. now rewrite map_length, seq_length. Qed.

Lemma out_all_length {A} (l : list (out A)) r : out_all l = Ok r -> length r = length l.
Proof.
  revert r. induction l as [|o l IH]; intros r; cbn [out_all bind].
  - intros H. injection H as <-. reflexivity.
  - destruct o as [x| |]; try discriminate. destruct (out_all l) as [r'| |]; try discriminate.
    intros H. injection H as <-. cbn [length]. now rewrite (IH r' eq_refl).
Qed.

Lemma all_some_in {A} (l : list (option A)) r x :
  all_some l = Some r -> In x r -> In (Some x) l.
Proof.
  revert r. induction l as [|o l IH]; intros r; cbn [all_some].
  - intros H. injection H as <-. intros [].
  - destruct o as [y|]; [|discriminate]. destruct (all_some l) as [r'|]; [|discriminate].
    intros H. injection H as <-. intros [->|Hin]; [now left | right; now apply (IH r')].
Qed.

(* ------------------------------------------------------------------------- *)
(* the operations that are column-wise maps                                   *)
(* ------------------------------------------------------------------------- *)

Lemma wf_pick_rekey f idxs : wf_frame f = true -> wf_frame (rekey_cols (fun d => pick d idxs) f) = true.
Proof. intros H. apply wf_rekey_cols_len; [assumption|]. intros d d' E. now apply pick_length_eq. Qed.

Lemma wf_pick_map f idxs : wf_frame f = true -> wf_frame (map_cols (fun d => pick d idxs) f) = true.
Proof. intros H. apply wf_map_cols_len; [assumption|]. intros d d' E. now apply pick_length_eq. Qed.

Lemma wf_head : forall f n g, wf_frame f = true -> op_head f n = Ok g -> wf_frame g = true.
Proof.
  intros f n g Hwf H. unfold op_head in H. cbv zeta in H.
  destruct (forallb _ f); [|discriminate]. injection H as <-.
  apply wf_rekey_cols_len; [assumption|]. intros d d' E. now rewrite !firstn_length, E.
Qed.

Lemma wf_tail : forall f n g, wf_frame f = true -> op_tail f n = Ok g -> wf_frame g = true.
Proof.
  intros f n g Hwf H. unfold op_tail in H. cbv zeta in H.
  destruct (forallb _ f); [|discriminate]. injection H as <-.
  apply wf_rekey_cols_len; [assumption|]. intros d d' E. now rewrite !skipn_length, E.
Qed.

Lemma wf_rowslice : forall f a b, wf_frame f = true -> wf_frame (op_rowslice f a b) = true.
Proof.
  intros f a b Hwf. unfold op_rowslice. cbv zeta.
  destruct (Z.min b (Z.of_nat (nrows f)) <=? Z.max a 0).
  - apply wf_rekey_cols_len; [assumption|]. reflexivity.
  - unfold sel_rows. now apply wf_pick_rekey.
Qed.

Lemma wf_filter : forall f keep, wf_frame f = true -> wf_frame (fst (op_filter f keep)) = true.
Proof. intros f keep Hwf. unfold op_filter. cbn [fst]. now apply wf_pick_rekey. Qed.

Lemma wf_sort : forall O f by_ asc g, wf_frame f = true -> op_sort O f by_ asc = Ok g -> wf_frame g = true.
Proof.
  intros O f by_ asc g Hwf H. unfold op_sort in H. cbv zeta in H.
  destruct (negb (forallb (fhas f) by_)); [discriminate|]. injection H as <-.
  now apply wf_pick_map.
Qed.

Lemma wf_shift : forall f p, wf_frame f = true -> wf_frame (op_shift f p) = true.
Proof.
  intros f p Hwf. unfold op_shift. apply wf_rekey_cols_len; [assumption|].
  intros d d' E. now rewrite !shift_col_len.
Qed.

Lemma wf_dedup : forall f has_opt subset keep g,
  wf_frame f = true -> op_dedup f has_opt subset keep = Ok g -> wf_frame g = true.
Proof.
  intros f has_opt subset keep g Hwf H. unfold op_dedup, bind in H.
  destruct (dedup_idx f has_opt subset keep) as [idxs| |]; try discriminate.
  injection H as <-. now apply wf_pick_rekey.
Qed.

Lemma wf_dedup_inplace : forall f subset keep g,
  wf_frame f = true -> op_dedup_inplace f subset keep = Ok g -> wf_frame g = true.
Proof.
  intros f subset keep g Hwf H. unfold op_dedup_inplace, bind in H.
  destruct (dedup_idx f true subset keep) as [idxs| |]; try discriminate.
  injection H as <-. now apply wf_pick_map.
Qed.

Lemma wf_fillna : forall f v, wf_frame f = true -> wf_frame (op_fillna f v) = true.
Proof.
  intros f v Hwf. unfold op_fillna. apply wf_map_cols_len; [assumption|].
  intros d d' E. now rewrite !map_length.
Qed.

Lemma wf_dropna : forall f g, wf_frame f = true -> op_dropna f = Ok g -> wf_frame g = true.
Proof.
  intros f g Hwf H. unfold op_dropna in H.
  destruct (all_some (map (frow f) (seq 0 (nrows f)))) as [rs|]; [|discriminate].
  cbv zeta in H. injection H as <-. now apply wf_pick_map.
Qed.

Lemma wf_droprow : forall f i g, wf_frame f = true -> op_droprow f i = Ok g -> wf_frame g = true.
Proof.
  intros f i g Hwf H. unfold op_droprow in H.
  destruct ((i <? 0) || (Z.of_nat (nrows f) <=? i)); [discriminate|].
  destruct (forallb _ f); [|discriminate]. injection H as <-.
  apply wf_map_cols_len; [assumption|]. intros d d' E. now apply remove_nth_length_eq.
Qed.

(* ------------------------------------------------------------------------- *)
(* the operations that insert / delete / replace one column                   *)
(* ------------------------------------------------------------------------- *)

Lemma wf_astype : forall O f cn ty g, wf_frame f = true -> op_astype O f cn ty = Ok g -> wf_frame g = true.
Proof.
  intros O f cn ty g Hwf H. apply WF_of_wf in Hwf. unfold op_astype in H.
  destruct (fget f cn) as [c|] eqn:G; [|discriminate]. unfold bind in H.
  destruct (out_all (map (astype_cell O ty) (cdata c))) as [d| |] eqn:E; try discriminate.
  injection H as <-. destruct (WF_fget _ _ _ _ Hwf G) as [Hn Hl].
  apply (wf_of_WF _ (nrows f)). apply WF_fset; [assumption | exact Hn |].
  cbn [cdata snd]. apply out_all_length in E. now rewrite E, map_length.
Qed.

Lemma wf_datetime : forall O f cn layout g,
  wf_frame f = true -> op_datetime O f cn layout = Ok g -> wf_frame g = true.
Proof.
  intros O f cn layout g Hwf H. apply WF_of_wf in Hwf. unfold op_datetime in H.
  destruct (fget f cn) as [c|] eqn:G; [|discriminate]. unfold bind in H.
  destruct (out_all _) as [d| |] eqn:E; try discriminate.
  injection H as <-. destruct (WF_fget _ _ _ _ Hwf G) as [Hn Hl].
  apply (wf_of_WF _ (nrows f)). apply WF_fset; [assumption | exact Hn |].
  cbn [cdata snd]. apply out_all_length in E. now rewrite E, map_length.
Qed.

Lemma wf_setcell : forall f cn i v g, wf_frame f = true -> op_setcell f cn i v = Ok g -> wf_frame g = true.
Proof.
  intros f cn i v g Hwf H. apply WF_of_wf in Hwf. unfold op_setcell in H.
  destruct (fget f cn) as [c|] eqn:G; [|discriminate].
  destruct ((0 <=? i) && (i <? Z.of_nat (length (cdata c)))); [|discriminate].
  injection H as <-. destruct (WF_fget _ _ _ _ Hwf G) as [Hn Hl].
  apply (wf_of_WF _ (nrows f)). apply WF_fset; [assumption | exact Hn |].
  cbn [cdata snd]. now rewrite set_nth_length.
Qed.

Lemma wf_rename : forall f a b g, wf_frame f = true -> op_rename f a b = Ok g -> wf_frame g = true.
Proof.
  intros f a b g Hwf H. apply WF_of_wf in Hwf. unfold op_rename in H.
  destruct (fget f a) as [c|] eqn:G; [|discriminate].
  destruct (fhas f b); [discriminate|]. injection H as <-.
  destruct (WF_fget _ _ _ _ Hwf G) as [Hn Hl].
  apply (wf_of_WF _ (nrows f)). apply WF_fset; [now apply WF_fdel | reflexivity | exact Hl].
Qed.

Lemma wf_dropcolumn : forall f n g, wf_frame f = true -> op_dropcolumn f n = Ok g -> wf_frame g = true.
Proof.
  intros f n g Hwf H. apply WF_of_wf in Hwf. unfold op_dropcolumn in H.
  destruct (fhas f n); [|discriminate]. injection H as <-.
  apply (wf_of_WF _ (nrows f)). now apply WF_fdel.
Qed.

Lemma wf_addcolumn : forall f n d g, wf_frame f = true -> (length d = nrows f \/ f = []) ->
  op_addcolumn f n d = Ok g -> wf_frame g = true.
Proof.
  intros f n d g Hwf Hd H. unfold op_addcolumn in H.
  destruct (fhas f n); [discriminate|]. injection H as <-.
  destruct Hd as [Hd| ->].
  - apply WF_of_wf in Hwf. apply (wf_of_WF _ (nrows f)). now apply WF_fset.
  - apply (wf_of_WF _ (length d)). apply WF_fset; [apply WF_nil | reflexivity | reflexivity].
Qed.

(* ------------------------------------------------------------------------- *)
(* frames rebuilt from rows: Loc, Iloc                                        *)
(* ------------------------------------------------------------------------- *)

Lemma WF_frame_of_rows names rs : WF (frame_of_rows names rs) (length rs).
Proof.
  unfold frame_of_rows. induction names as [|k names IH]; cbn [fold_right]; [apply WF_nil|].
  apply WF_fset; [exact IH | reflexivity |]. cbn [cdata snd]. apply map_length.
Qed.

Lemma wf_frame_of_rows names rs : wf_frame (frame_of_rows names rs) = true.
Proof. apply (wf_of_WF _ (length rs)). apply WF_frame_of_rows. Qed.

(* no premise on f is needed, the result is rebuilt column by column; the premise is kept
   so that all wf_<op> lemmas have the same shape *)
Lemma wf_loc : forall f labels cols g, wf_frame f = true -> op_loc f labels cols = Ok g -> wf_frame g = true.
Proof.
  intros f labels cols g _ H. unfold op_loc in H.
  destruct (negb (forallb (fhas f) cols)); [discriminate|].
  destruct (fget f index_name) as [ic|]; [|discriminate].
  destruct (negb (null labels) && negb (Nat.leb (nrows f) (length (cdata ic)))); [discriminate|].
  cbv zeta in H. injection H as <-. apply wf_frame_of_rows.
Qed.

Lemma wf_iloc : forall f rws cls g, wf_frame f = true -> op_iloc f rws cls = Ok g -> wf_frame g = true.
Proof.
  intros f rws cls g _ H. unfold op_iloc in H. cbv zeta in H.
  destruct (all_some (map (zidx (fkeys f)) cls)) as [cols|]; [|discriminate].
  destruct (forallb _ rws); [|discriminate]. injection H as <-. apply wf_frame_of_rows.
Qed.

(* ------------------------------------------------------------------------- *)
(* Select of several columns                                                  *)
(* ------------------------------------------------------------------------- *)

Lemma WF_multiselect_fold n cs : forall acc,
  WF acc n -> (forall c, In c cs -> length (cdata c) = n) ->
  WF (fold_left (fun acc c => if fhas acc (cname c) then acc else fset acc (cname c) c) cs acc) n.
Proof.
  induction cs as [|c cs IH]; intros acc Hacc Hcs; cbn [fold_left]; [assumption|].
  apply IH; [|intros c' Hin; apply Hcs; now right].
  destruct (fhas acc (cname c)); [assumption|].
  apply WF_fset; [assumption | reflexivity | apply Hcs; now left].
Qed.

Lemma wf_multiselect : forall f names g, wf_frame f = true -> op_multiselect f names = Ok g -> wf_frame g = true.
Proof.
  intros f names g Hwf H. apply WF_of_wf in Hwf. unfold op_multiselect in H.
  destruct (null names); [discriminate|].
  destruct (all_some (map (fget f) names)) as [cs|] eqn:E; [|discriminate].
  injection H as <-. apply (wf_of_WF _ (nrows f)).
  apply WF_multiselect_fold; [apply WF_nil|].
  intros c Hin. apply (all_some_in _ _ _ E) in Hin. apply in_map_iff in Hin.
  destruct Hin as [k [G _]]. now destruct (WF_fget _ _ _ _ Hwf G).
Qed.

(* ------------------------------------------------------------------------- *)
(* AppendRow: no premise on the row is needed                                 *)
(* ------------------------------------------------------------------------- *)

Lemma WF_append_fold n (r : rowmap) : forall acc,
  WF acc n ->
  WF (fold_left (fun acc kv => if fhas acc (fst kv) then acc
                               else fset acc (fst kv) (fst kv, repeat CNil n)) r acc) n.
Proof.
  induction r as [|kv r IH]; intros acc Hacc; cbn [fold_left]; [assumption|].
  apply IH. destruct (fhas _ (fst kv)); [assumption|].
  apply WF_fset; [assumption | reflexivity | apply repeat_CNil_length].
Qed.

Lemma WF_append_row f r : wf_frame f = true -> WF (op_append_row f r) (S (nrows f)).
Proof.
  intros Hwf. apply WF_of_wf in Hwf. unfold op_append_row. cbv zeta.
  apply (WF_maph (fun k c => (cname c, cdata c ++ [rget r k])) _ (nrows f) (S (nrows f))).
  - now apply WF_append_fold.
  - intros k c Hk Hl. cbn [cname cdata fst snd]. split; [exact Hk|].
    rewrite app_length, Hl. cbn [length]. lia.
Qed.

Lemma wf_append_row : forall f r, wf_frame f = true -> wf_frame (op_append_row f r) = true.
Proof. intros f r Hwf. apply (wf_of_WF _ (S (nrows f))). now apply WF_append_row. Qed.

(* the row count after AppendRow on a non-empty frame: one more *)
Lemma nrows_append_row f r : wf_frame f = true -> f <> [] -> nrows (op_append_row f r) = S (nrows f).
Proof.
  intros Hwf Hne. pose proof (WF_append_row f r Hwf) as H.
  destruct (op_append_row f r) as [|[k c] t] eqn:E.
  - exfalso. unfold op_append_row in E. cbv zeta in E. apply map_eq_nil in E.
    clear H. revert E. generalize (nrows f) as n. intros n.
    assert (G : forall (r : rowmap) acc, acc <> [] ->
      fold_left (fun acc kv => if fhas acc (fst kv) then acc
                               else fset acc (fst kv) (fst kv, repeat CNil n)) r acc <> []).
    { clear. induction r as [|kv r IH]; intros acc Hacc; cbn [fold_left]; [assumption|].
      apply IH. destruct (fhas _ (fst kv)); [assumption|].
      destruct acc as [|[k0 c0] t]; [congruence|]. cbn [fset].
      destruct (str_compare (fst kv) k0); discriminate. }
    now apply G.
  - cbn [nrows]. destruct H as [_ H]. apply (H k c). now left.
Qed.

(* ------------------------------------------------------------------------- *)
(* a concrete well-formed frame with 2 rows and 3 columns, and what the       *)
(* operations make of it                                                      *)
(* ------------------------------------------------------------------------- *)

Definition k_a : str := [97]%N.
Definition k_b : str := [98]%N.
Definition k_c : str := [99]%N.
Definition ex_frame : frame :=
  [ (k_a, (k_a, [CI KInt 1; CI KInt 2]));
    (k_b, (k_b, [CS k_a; CNil]));
    (k_c, (k_c, [CF KF64 (FFin 0); CB true])) ].

Example ex_frame_wf : wf_frame ex_frame = true /\ nrows ex_frame = 2%nat /\ ncols ex_frame = 3%nat.
Proof. vm_compute. repeat split. Qed.

Example ex_ops_wf :
  (match op_head ex_frame 1 with Ok g => wf_frame g && Nat.eqb (nrows g) 1 | _ => false end) = true
  /\ (match op_rename ex_frame k_a [100]%N with Ok g => wf_frame g && Nat.eqb (ncols g) 3 | _ => false end) = true
  /\ wf_frame (op_append_row ex_frame [([100]%N, CB false); (k_a, CI KInt 3)]) = true
  /\ nrows (op_append_row ex_frame [([100]%N, CB false); (k_a, CI KInt 3)]) = 3%nat
  /\ (match op_multiselect ex_frame [k_c; k_a; k_c] with Ok g => wf_frame g && Nat.eqb (ncols g) 2 | _ => false end) = true
  /\ (match op_addcolumn ex_frame [100]%N [CNil; CNil] with Ok g => wf_frame g | _ => false end) = true
  /\ (match op_iloc ex_frame [1; 0; 1] [2; 0] with Ok g => wf_frame g && Nat.eqb (nrows g) 3 | _ => false end) = true.
Proof. vm_compute. repeat split. Qed.

(* the premise of wf_addcolumn is needed: a column of another length breaks rectangularity *)
Example ex_addcolumn_bad :
  (match op_addcolumn ex_frame [100]%N [CNil] with Ok g => wf_frame g | _ => true end) = false.
Proof. vm_compute. reflexivity. Qed.

Print Assumptions wf_head.
Print Assumptions wf_tail.
Print Assumptions wf_rowslice.
Print Assumptions wf_filter.
Print Assumptions wf_loc.
Print Assumptions wf_iloc.
Print Assumptions wf_multiselect.
Print Assumptions wf_sort.
Print Assumptions wf_shift.
Print Assumptions wf_dedup.
Print Assumptions wf_dedup_inplace.
Print Assumptions wf_append_row.
Print Assumptions wf_droprow.
Print Assumptions wf_fillna.
Print Assumptions wf_dropna.
Print Assumptions wf_astype.
Print Assumptions wf_datetime.
Print Assumptions wf_rename.
Print Assumptions wf_dropcolumn.
Print Assumptions wf_setcell.
Print Assumptions wf_addcolumn.
