(* Proof_C01.v - assembly: every successful operation keeps every live frame well formed,
   hence every state reachable by any history from well-formed frames is well formed. *)
From GF Require Import Step Lemmas Proof_C01a Proof_C01b.
From Coq Require Import Lia.

Definition wf_pool (p : pool) : bool := forallb wf_frame p.

(* the one premise on user-supplied data (the property's quantifier: "user-supplied columns
   of matching length"): AddColumn gets a column as long as the frame, or the frame is empty.
   Apply needs no premise on the user's function, also for the functions of the menu that
   return a slice of another length (10-13): column-wise every column of a well-formed frame
   changes length alike (Proof_C01b.wfn_apply_col), row-wise a result is cut to ncols cells
   or the call is an error (Proof_C01b.wf_apply_row); see apply_length_changing_wf below. *)
Definition op_ok (p : pool) (o : op) : bool :=
  match o with
  | OAddColumn i _ d =>
    match nth_opt p i with
    | Some f => Nat.eqb (length d) (nrows f) || null f
    | None => true
    end
  | _ => true
  end.

Lemma wf_pool_nth p i f : wf_pool p = true -> nth_opt p i = Some f -> wf_frame f = true.
Proof.
  unfold wf_pool. revert i. induction p as [|x p IH]; intros [|i] H E; cbn in *; try discriminate.
  - inversion E; subst. now apply andb_prop in H.
  - apply andb_prop in H. destruct H as [_ H]. eapply IH; eauto.
Qed.
Lemma wf_pool_app p f : wf_pool p = true -> wf_frame f = true -> wf_pool (p ++ [f]) = true.
Proof. unfold wf_pool. intros H1 H2. rewrite forallb_app, H1. cbn. now rewrite H2. Qed.
Lemma wf_pool_set p i f : wf_pool p = true -> wf_frame f = true -> wf_pool (set_nth p i f) = true.
Proof.
  unfold wf_pool. revert i. induction p as [|x p IH]; intros [|i] H1 H2; cbn in *; auto.
  - apply andb_prop in H1. destruct H1 as [_ H1]. now rewrite H2, H1.
  - apply andb_prop in H1. destruct H1 as [Hx H1]. rewrite Hx. cbn. now apply IH.
Qed.

Lemma wf_derive p r : wf_pool p = true -> (forall g, r = Ok g -> wf_frame g = true) ->
  wf_pool (snd (derive p r)) = true.
Proof.
  intros Hp Hr. destruct r as [g| |]; cbn; auto. apply wf_pool_app; auto.
Qed.
Lemma wf_edit p i r : wf_pool p = true -> (forall g, r = Ok g -> wf_frame g = true) ->
  wf_pool (snd (edit p i r)) = true.
Proof.
  intros Hp Hr. destruct r as [g| |]; cbn; auto. apply wf_pool_set; auto.
Qed.

Lemma with_frame_ok {A} p i (k : frame -> out A) v :
  with_frame p i k = Ok v -> exists f, nth_opt p i = Some f /\ k f = Ok v.
Proof. unfold with_frame. destruct (nth_opt p i) as [f|]; [eauto|discriminate]. Qed.

Ltac wf_one Hp :=
  let g := fresh "g" in let E := fresh "E" in let f := fresh "f" in let Hf := fresh "Hf" in
  intros g E; apply with_frame_ok in E; destruct E as [f [Hf E]];
  pose proof (wf_pool_nth _ _ _ Hp Hf).

Theorem step_wf O p o : wf_pool p = true -> op_ok p o = true -> wf_pool (snd (step O p o)) = true.
Proof.
  intros Hp Hok. destruct o; cbn [step];
    try (apply wf_derive; [assumption|]); try (apply wf_edit; [assumption|]);
    try (cbn [observe snd]; assumption).
  - wf_one Hp. eapply wf_head; eauto.
  - wf_one Hp. eapply wf_tail; eauto.
  - wf_one Hp. inversion E; subst. now apply wf_rowslice.
  - destruct (nth_opt p f) as [fr|] eqn:Hf; cbn [snd]; [|assumption].
    apply wf_pool_app; [assumption|]. apply wf_filter. eapply wf_pool_nth; eauto.
  - wf_one Hp. eapply wf_loc; eauto.
  - wf_one Hp. eapply wf_iloc; eauto.
  - wf_one Hp. eapply wf_multiselect; eauto.
  - wf_one Hp. eapply wf_sort; eauto.
  - wf_one Hp. inversion E; subst. now apply wf_shift.
  - wf_one Hp. eapply wf_dedup; eauto.
  - wf_one Hp. apply with_frame_ok in E. destruct E as [f2 [Hf2 E]].
    eapply wf_join; [eassumption | eapply wf_pool_nth; [exact Hp | exact Hf2] | exact E].
  - wf_one Hp. apply with_frame_ok in E. destruct E as [f2 [Hf2 E]].
    eapply wf_add; [eassumption | eapply wf_pool_nth; [exact Hp | exact Hf2] | exact E].
  - wf_one Hp. eapply wf_apply; eauto.
  - wf_one Hp. inversion E; subst. apply wf_describe.
  - wf_one Hp. eapply wf_resample; eauto.
  - wf_one Hp. eapply wf_group_agg; eauto.
  - intros g E. eapply wf_from_csv; eauto.
  - wf_one Hp. destruct (op_to_csv O f0) as [b| |] eqn:Eb; cbn [bind] in E; try discriminate.
    eapply wf_csv_roundtrip; eauto.
  - wf_one Hp. inversion E; subst. now apply wf_append_row.
  - wf_one Hp. eapply wf_droprow; eauto.
  - wf_one Hp. inversion E; subst. now apply wf_fillna.
  - wf_one Hp. eapply wf_dropna; eauto.
  - wf_one Hp. eapply wf_astype; eauto.
  - wf_one Hp. eapply wf_datetime; eauto.
  - wf_one Hp. eapply wf_rename; eauto.
  - wf_one Hp. cbn [op_ok] in Hok. rewrite Hf in Hok.
    eapply wf_addcolumn; eauto.
    apply orb_prop in Hok. destruct Hok as [Hl|Hn].
    + left. now apply Nat.eqb_eq.
    + right. destruct f0; [reflexivity|discriminate].
  - wf_one Hp. eapply wf_dropcolumn; eauto.
  - wf_one Hp. eapply wf_setcell; eauto.
  - wf_one Hp. eapply wf_dedup_inplace; eauto.
Qed.

(* every operation of the history meets the premise in the state it is applied to *)
Fixpoint run_ok (O : oracles) (p : pool) (ops : list op) : bool :=
  match ops with
  | [] => true
  | o :: rest => op_ok p o && run_ok O (snd (step O p o)) rest
  end.

Theorem histories_wf O ops : forall p, wf_pool p = true -> run_ok O p ops = true -> wf_pool (run O p ops) = true.
Proof.
  induction ops as [|o ops IH]; intros p Hp Hok; cbn in *; [assumption|].
  apply andb_prop in Hok. destruct Hok as [H1 H2]. apply IH; [|assumption]. now apply step_wf.
Qed.

(* Nrows reports the common length: every column of a well-formed frame has nrows cells *)
Lemma wf_nrows f k c : wf_frame f = true -> In (k, c) f -> length (cdata c) = nrows f.
Proof.
  unfold wf_frame, rect. intros H Hin. apply andb_prop in H. destruct H as [H _].
  apply andb_prop in H. destruct H as [H _]. rewrite forallb_forall in H.
  specialize (H _ Hin). cbn in H. now apply Nat.eqb_eq in H.
Qed.
Lemma wf_names f k c : wf_frame f = true -> In (k, c) f -> cname c = k.
Proof.
  unfold wf_frame, names_ok. intros H Hin. apply andb_prop in H. destruct H as [H _].
  apply andb_prop in H. destruct H as [_ H]. rewrite forallb_forall in H.
  specialize (H _ Hin). cbn in H. apply str_eqb_eq in H. now symmetry.
Qed.

Example histories_wf_nonvacuous :
  let f := [([97%N], ([97%N], [CI KInt 1; CNil])); ([98%N], ([98%N], [CS [120%N]; CB true]))] in
  let ops := [OAppendRow 0 [([99%N], CI KInt 5)]; OHead 0 1; OJoin JOuter 0 1 [97%N]; OAddColumn 1 [122%N] [CNil]] in
  wf_pool [f] = true /\ run_ok {| o_pf := []; o_fmt := []; o_tparse := [] |} [f] ops = true
  /\ length (run {| o_pf := []; o_fmt := []; o_tparse := [] |} [f] ops) = 3%nat.
Proof. vm_compute. repeat split. Qed.

(* a history that applies the length-changing functions on both axes: every state is well formed
   (op_ok holds trivially for Apply; the frames change their number of rows, all columns alike) *)
Example apply_length_changing_wf :
  let O := {| o_pf := []; o_fmt := []; o_tparse := [] |} in
  let f := [([97%N], ([97%N], [CI KInt 1; CNil; CNil])); ([98%N], ([98%N], [CS [120%N]; CB true; CNil]))] in
  let ops := [OApply 0 11 None; OApply 0 10 (Some [0]); OApply 1 11 (Some [1]); OApply 0 10 (Some [1])] in
  wf_pool [f] = true /\ run_ok O [f] ops = true /\ wf_pool (run O [f] ops) = true
  /\ map nrows (run O [f] ops) = [3; 4; 1; 4]%nat
  /\ fst (step O [f] (OApply 0 10 (Some [1]))) = Err.
Proof. vm_compute. repeat split. Qed.
(* the same with the typed slices of another length (12: a shorter []int, 13: a longer []string);
   row-wise a typed slice is not taken over at all (every cell of the result is nil), so the
   row-wise calls succeed and keep the number of rows *)
Example apply_length_changing_typed_wf :
  let O := {| o_pf := []; o_fmt := []; o_tparse := [] |} in
  let f := [([97%N], ([97%N], [CI KInt 1; CNil; CNil])); ([98%N], ([98%N], [CS [120%N]; CB true; CNil]))] in
  let ops := [OApply 0 13 None; OApply 0 12 (Some [0]); OApply 1 13 (Some [1]); OApply 0 12 (Some [1])] in
  wf_pool [f] = true /\ run_ok O [f] ops = true /\ wf_pool (run O [f] ops) = true
  /\ map nrows (run O [f] ops) = [3; 4; 1; 4; 3]%nat.
Proof. vm_compute. repeat split. Qed.
