(* Proof_C16b.v - C16 "within floating-point rounding": the a-priori error bounds of the
   binary64 model, proved inside the model in integer arithmetic on the grid
   (FFin m is the real number m * 2^-1074; every statement below is about Z).
   1. rne_div_error    rounding a quotient to the nearest integer is off by at most half a unit
   2. round_pos_error  one rounding: relative error <= 2^-53 at or above 2^53 grid units,
                       absolute error <= half a grid unit below
   3. fl_add_error     one addition: relative error <= 2^-53 (exact below 2^53 grid units)
   4. fl_sum_error     left-to-right sum of n numbers: |s - exact| * (2^53 - n) <= n * sum |m_i|
                       (gamma_n = n u / (1 - n u), u = 2^-53)
   5. fl_mean_error    one more rounding of the quotient by the count
   6. examples on 0.1, 0.2, 0.3 *)
From GF Require Import Ops Lemmas Proof_C16.
From Coq Require Import Lia.
Arguments N.eqb : simpl never.

(* ================================================================== *)
(* 1. nearest integer to a quotient                                    *)
(* ================================================================== *)

Theorem rne_div_error num den : 0 < den ->
  2 * Z.abs (rne_div num den * den - num) <= den.
Proof.
  intros Hd. unfold rne_div. cbv zeta.
  pose proof (Z.div_mod num den ltac:(lia)) as E.
  pose proof (Z.mod_pos_bound num den Hd) as Hr.
  set (q := num / den) in *. set (r := num mod den) in *.
  destruct (Z.compare_spec (2 * r) den) as [C|C|C]; [destruct (Z.even q)| |]; lia.
Qed.

Lemma rne_div_1 num : rne_div num 1 = num.
Proof. unfold rne_div. rewrite Z.mod_1_r, Z.div_1_r. reflexivity. Qed.

(* ================================================================== *)
(* 2. one rounding to binary64                                         *)
(* ================================================================== *)

Lemma round_pos_q0 num den : 0 < den -> (if den =? 1 then num else num / den) = num / den.
Proof.
  intros Hd. destruct (Z.eqb_spec den 1) as [E|E]; [|reflexivity].
  subst den. now rewrite Z.div_1_r.
Qed.

(* below 2^53 grid units the result is the nearest grid point *)
Lemma round_pos_small num den : 0 < den -> num / den < p53 ->
  round_pos num den = FFin (rne_div num den).
Proof.
  intros Hd Hq. unfold round_pos. rewrite round_pos_q0 by assumption. cbv zeta.
  destruct (Z.ltb_spec (num / den) p53) as [_|C]; [|lia].
  destruct (Z.eqb_spec den 1) as [E|E]; [|reflexivity].
  subst den. now rewrite rne_div_1.
Qed.

(* at or above 2^53 grid units the result is the nearest multiple of 2^sh, the spacing of
   the doubles in the binade of the quotient *)
Lemma round_pos_big num den : 0 <= num -> 0 < den -> p53 <= num / den ->
  0 < Z.log2 (num / den) - 52 /\
  round_pos num den =
    if fl_max_grid <? rne_div num (den * 2 ^ (Z.log2 (num / den) - 52)) * 2 ^ (Z.log2 (num / den) - 52)
    then FPInf
    else FFin (rne_div num (den * 2 ^ (Z.log2 (num / den) - 52)) * 2 ^ (Z.log2 (num / den) - 52)).
Proof.
  intros Hn Hd Hq.
  assert (Hsh : 0 < Z.log2 (num / den) - 52).
  { assert (H53 : 53 <= Z.log2 (num / den)).
    { apply Z.log2_le_pow2; [unfold p53 in Hq; lia|]. rewrite <- p53_pow. exact Hq. }
    lia. }
  split; [exact Hsh|].
  unfold round_pos. rewrite round_pos_q0 by assumption. cbv zeta.
  destruct (Z.ltb_spec (num / den) p53) as [C|_]; [lia|].
  set (sh := Z.log2 (num / den) - 52) in *.
  rewrite Z.shiftr_div_pow2, !Z.shiftl_mul_pow2 by lia.
  assert (HB : 0 < 2 ^ sh) by (apply Z.pow_pos_nonneg; lia).
  set (B := 2 ^ sh) in *.
  rewrite Z.div_div by lia.
  assert (Hbig : 0 < den * B) by (apply Z.mul_pos_pos; assumption).
  replace (num - num / (den * B) * (den * B)) with (num mod (den * B))
    by (rewrite Z.mod_eq by lia; ring).
  unfold rne_div. reflexivity.
Qed.

(* round_pos gives a finite value or overflows; nothing else *)
Lemma round_pos_cases num den : 0 <= num -> 0 < den ->
  (exists r, round_pos num den = FFin r) \/ round_pos num den = FPInf.
Proof.
  intros Hn Hd. destruct (Z_lt_ge_dec (num / den) p53) as [C|C].
  - left. eexists. now apply round_pos_small.
  - destruct (round_pos_big num den Hn Hd ltac:(lia)) as [_ E]. rewrite E.
    destruct (Z.ltb fl_max_grid _); [now right | left; eexists; reflexivity].
Qed.

Lemma p53_two52 : p53 = 2 * 2 ^ 52.
Proof. reflexivity. Qed.

Theorem round_pos_error num den r : 0 <= num -> 0 < den -> round_pos num den = FFin r ->
  (p53 <= num / den -> Z.abs (r * den - num) * p53 <= num)
  /\ (num / den < p53 -> 2 * Z.abs (r * den - num) <= den).
Proof.
  intros Hn Hd H. split; intros Hq.
  - destruct (round_pos_big num den Hn Hd Hq) as [Hsh E]. rewrite E in H. clear E.
    set (sh := Z.log2 (num / den) - 52) in *.
    assert (HB : 0 < 2 ^ sh) by (apply Z.pow_pos_nonneg; lia).
    assert (Hq0 : 0 < num / den) by (unfold p53 in Hq; lia).
    (* 2^52 * 2^sh <= num / den *)
    assert (Hlow : 2 ^ 52 * 2 ^ sh <= num / den).
    { rewrite <- Z.pow_add_r by lia. replace (52 + sh) with (Z.log2 (num / den)) by (unfold sh; lia).
      apply Z.log2_spec. exact Hq0. }
    set (B := 2 ^ sh) in *.
    assert (Hbig : 0 < den * B) by (apply Z.mul_pos_pos; assumption).
    pose proof (rne_div_error num (den * B) Hbig) as Hr.
    destruct (Z.ltb fl_max_grid _); [discriminate|]. injection H as <-.
    replace (rne_div num (den * B) * B * den - num) with (rne_div num (den * B) * (den * B) - num) by ring.
    set (A := Z.abs (rne_div num (den * B) * (den * B) - num)) in *.
    (* den * (num / den) <= num, so den * B * 2^52 <= num *)
    pose proof (Z.mul_div_le num den Hd) as Hle.
    assert (H1 : den * (2 ^ 52 * B) <= den * (num / den)) by (apply Z.mul_le_mono_nonneg_l; lia).
    rewrite p53_two52. set (T := 2 ^ 52) in *.
    assert (H2 : den * (T * B) = den * B * T) by ring.
    assert (H3 : 2 * A * T <= den * B * T).
    { apply Z.mul_le_mono_nonneg_r; [unfold T; lia | exact Hr]. }
    replace (A * (2 * T)) with (2 * A * T) by ring. lia.
  - rewrite round_pos_small in H by assumption. injection H as <-.
    now apply rne_div_error.
Qed.

(* ================================================================== *)
(* 3. signed rounding, one addition                                    *)
(* ================================================================== *)

(* the grid integer a value denotes; -0 denotes 0 *)
Definition fl_grid (x : fl) : option Z :=
  match x with FFin m => Some m | FNegZero => Some 0 | _ => None end.

Theorem round_q_error num den r : 0 < den -> fl_grid (round_q num den) = Some r ->
  (p53 <= Z.abs num / den -> Z.abs (r * den - num) * p53 <= Z.abs num)
  /\ (Z.abs num / den < p53 -> 2 * Z.abs (r * den - num) <= den).
Proof.
  intros Hd H. unfold round_q in H. destruct (Z.ltb_spec num 0) as [Hneg|Hpos].
  - assert (Hn : 0 <= - num) by lia.
    replace (Z.abs num) with (- num) by lia.
    destruct (round_pos_cases (- num) den Hn Hd) as [[m E]|E]; rewrite E in H.
    + destruct (round_pos_error (- num) den m Hn Hd E) as [B1 B2].
      assert (Hr : r = - m).
      { destruct m as [|p|p]; cbn [fl_neg fl_grid] in H; injection H as <-; reflexivity. }
      subst r. replace (- m * den - num) with (- (m * den - - num)) by ring.
      rewrite Z.abs_opp. split; assumption.
    + cbn [fl_neg fl_grid] in H. discriminate.
  - replace (Z.abs num) with num by lia.
    destruct (round_pos num den) as [| | | |m] eqn:E; cbn [fl_grid] in H; try discriminate.
    + (* round_pos is never -0 *)
      destruct (round_pos_cases num den Hpos Hd) as [[m E']|E']; rewrite E in E'; discriminate.
    + injection H as <-. now apply round_pos_error.
Qed.

Theorem fl_add_error a b r : fl_add (FFin a) (FFin b) = FFin r ->
  Z.abs (r - (a + b)) * p53 <= Z.abs (a + b).
Proof.
  intros H. cbn [fl_add] in H. destruct (Z.eqb_spec (a + b) 0) as [E|E].
  - injection H as <-. rewrite E. cbn. lia.
  - assert (G : fl_grid (round_q (a + b) 1) = Some r) by now rewrite H.
    destruct (round_q_error (a + b) 1 r ltac:(lia) G) as [B1 B2].
    rewrite Z.div_1_r, Z.mul_1_r in *.
    destruct (Z_lt_ge_dec (Z.abs (a + b)) p53) as [C|C].
    + specialize (B2 C). assert (r = a + b) by lia. subst r. rewrite Z.sub_diag. cbn. lia.
    + apply B1. lia.
Qed.

(* in particular an addition whose exact result is below 2^53 grid units is exact *)
Corollary fl_add_exact_grid a b r : fl_add (FFin a) (FFin b) = FFin r ->
  Z.abs (a + b) < p53 -> r = a + b.
Proof.
  intros H C. pose proof (fl_add_error a b r H) as B.
  assert (Hp : 0 < p53) by (unfold p53; lia).
  destruct (Z.eq_dec r (a + b)) as [|N]; [assumption|]. exfalso.
  assert (1 <= Z.abs (r - (a + b))) by lia.
  assert (1 * p53 <= Z.abs (r - (a + b)) * p53) by (apply Z.mul_le_mono_nonneg_r; lia).
  lia.
Qed.

(* an addition of two finite values is finite or overflows *)
Lemma fl_add_cases a b :
  (exists r, fl_add (FFin a) (FFin b) = FFin r) \/ fl_add (FFin a) (FFin b) = FPInf
  \/ fl_add (FFin a) (FFin b) = FNInf.
Proof.
  cbn [fl_add]. destruct (Z.eqb_spec (a + b) 0) as [E|E]; [left; eexists; reflexivity|].
  unfold round_q. destruct (Z.ltb_spec (a + b) 0) as [Hneg|Hpos].
  - destruct (round_pos_cases (- (a + b)) 1 ltac:(lia) ltac:(lia)) as [[m Em]|Em]; rewrite Em.
    + destruct m as [|p|p]; cbn [fl_neg].
      * (* impossible: a non-zero sum does not round to zero *)
        exfalso. destruct (round_pos_error (- (a + b)) 1 0 ltac:(lia) ltac:(lia) Em) as [B1 B2].
        rewrite Z.div_1_r in *. unfold p53 in *.
        destruct (Z_lt_ge_dec (- (a + b)) 9007199254740992) as [C|C]; [specialize (B2 C) | specialize (B1 ltac:(lia))]; lia.
      * left; eexists; reflexivity.
      * left; eexists; reflexivity.
    + right. right. reflexivity.
  - destruct (round_pos_cases (a + b) 1 Hpos ltac:(lia)) as [[m Em]|Em]; rewrite Em; [left; eexists; reflexivity | right; left; reflexivity].
Qed.

(* ================================================================== *)
(* 4. the left-to-right sum                                            *)
(* ================================================================== *)

Fixpoint exact_sum_Z (ms : list Z) : Z :=
  match ms with [] => 0 | m :: t => m + exact_sum_Z t end.
Fixpoint sumabs (ms : list Z) : Z :=
  match ms with [] => 0 | m :: t => Z.abs m + sumabs t end.

Definition is_fin (x : fl) : bool := match x with FFin _ => true | _ => false end.
(* the accumulator and every later partial result of the fold is finite *)
Fixpoint fold_finite (acc : fl) (l : list fl) : bool :=
  is_fin acc && match l with [] => true | x :: t => fold_finite (fl_add acc x) t end.
Definition sum_finite (ms : list Z) : bool := fold_finite (FFin 0) (map FFin ms).

Lemma sumabs_nonneg ms : 0 <= sumabs ms.
Proof. induction ms as [|m t IH]; cbn [sumabs]; lia. Qed.
Lemma exact_le_sumabs ms : Z.abs (exact_sum_Z ms) <= sumabs ms.
Proof. induction ms as [|m t IH]; cbn [sumabs exact_sum_Z]; lia. Qed.

Lemma fold_finite_acc acc l : fold_finite acc l = true -> exists a, acc = FFin a.
Proof.
  intros H. destruct l; cbn [fold_finite] in H; apply andb_prop in H; destruct H as [H _];
    (destruct acc as [| | | |a]; try discriminate; now exists a).
Qed.

Lemma fold_finite_result l : forall acc, fold_finite acc l = true ->
  exists s, fold_left fl_add l acc = FFin s.
Proof.
  induction l as [|x t IH]; intros acc H.
  - cbn [fold_left]. now apply (fold_finite_acc acc []).
  - cbn [fold_left]. apply IH. cbn [fold_finite] in H. apply andb_prop in H. tauto.
Qed.

(* sum_finite fails only by overflow: the first non-finite partial sum is an infinity *)
Lemma fold_not_finite ms : forall a, fold_finite (FFin a) (map FFin ms) = false ->
  exists pre m post b, ms = pre ++ m :: post
    /\ fold_left fl_add (map FFin pre) (FFin a) = FFin b
    /\ (fl_add (FFin b) (FFin m) = FPInf \/ fl_add (FFin b) (FFin m) = FNInf).
Proof.
  induction ms as [|m t IH]; intros a H; cbn [map fold_finite is_fin andb] in H; [discriminate|].
  destruct (fl_add_cases a m) as [[r E]|E].
  - rewrite E in H. destruct (IH r H) as [pre [m' [post [b [E1 [E2 E3]]]]]].
    exists (m :: pre), m', post, b. subst t. cbn [app map fold_left]. rewrite E. auto.
  - exists [], m, t, a. cbn [app map fold_left]. auto.
Qed.

(* the induction step in pure arithmetic: P = 2^53, E the error so far, d the new rounding
   error, S the sum of absolute values including the new term, k the number of roundings *)
Lemma sum_step_arith P k E d S : 0 < P -> 1 <= k <= P -> 0 <= E -> 0 <= d -> 0 <= S ->
  E * (P - (k - 1)) <= (k - 1) * S -> d * P <= S + E -> (E + d) * (P - k) <= k * S.
Proof.
  intros HP Hk HE Hd HS H1 H2.
  apply (Z.mul_le_mono_pos_l _ _ P HP).
  assert (A1 : P * (E * (P - (k - 1))) <= P * ((k - 1) * S)) by (apply Z.mul_le_mono_nonneg_l; lia).
  assert (A2 : (P - k) * (d * P) <= (P - k) * (S + E)) by (apply Z.mul_le_mono_nonneg_l; lia).
  assert (A3 : 0 <= k * E) by (apply Z.mul_nonneg_nonneg; lia).
  assert (A4 : 0 <= k * S) by (apply Z.mul_nonneg_nonneg; lia).
  nia.
Qed.

Lemma p53_pos : 0 < p53.
Proof. reflexivity. Qed.

(* one step of the running sum: the recurrence on the error *)
Lemma sum_step_error a m a' ex S k :
  fl_add (FFin a) (FFin m) = FFin a' ->
  0 <= k -> k + 1 <= p53 -> Z.abs ex <= S ->
  Z.abs (a - ex) * (p53 - k) <= k * S ->
  Z.abs (a' - (ex + m)) * (p53 - (k + 1)) <= (k + 1) * (S + Z.abs m).
Proof.
  intros Ha Hk Hkp Hex Hinv.
  pose proof (fl_add_error a m a' Ha) as Hd.
  pose proof p53_pos as HP.
  set (d := Z.abs (a' - (a + m))) in *. set (E := Z.abs (a - ex)) in *.
  assert (Hs : 0 <= S) by lia.
  assert (Hstep : (E + d) * (p53 - (k + 1)) <= (k + 1) * (S + Z.abs m)).
  { assert (Hprev : E * (p53 - (k + 1 - 1)) <= (k + 1 - 1) * (S + Z.abs m)).
    { replace (k + 1 - 1) with k by ring.
      transitivity (k * S); [exact Hinv|]. apply Z.mul_le_mono_nonneg_l; lia. }
    apply sum_step_arith; first [exact Hprev | unfold d, E in *; lia]. }
  transitivity ((E + d) * (p53 - (k + 1))); [|exact Hstep].
  apply Z.mul_le_mono_nonneg_r; [lia|]. unfold E, d. lia.
Qed.

Lemma fold_error ms : forall a k ex S,
  0 <= k -> k + Z.of_nat (length ms) <= p53 -> Z.abs ex <= S ->
  Z.abs (a - ex) * (p53 - k) <= k * S ->
  fold_finite (FFin a) (map FFin ms) = true ->
  exists s, fold_left fl_add (map FFin ms) (FFin a) = FFin s
    /\ Z.abs (s - (ex + exact_sum_Z ms)) * (p53 - (k + Z.of_nat (length ms)))
       <= (k + Z.of_nat (length ms)) * (S + sumabs ms).
Proof.
  induction ms as [|m t IH]; intros a k ex S Hk Hlen Hex Hinv Hfin.
  - exists a. split; [reflexivity|]. cbn [length exact_sum_Z sumabs]. change (Z.of_nat 0) with 0.
    now rewrite !Z.add_0_r.
  - cbn [map fold_left fold_finite] in *. apply andb_prop in Hfin. destruct Hfin as [_ Hfin].
    destruct (fold_finite_acc _ _ Hfin) as [a' Ea]. rewrite Ea in *.
    assert (Hl : Z.of_nat (length (m :: t)) = 1 + Z.of_nat (length t)) by (cbn [length]; lia).
    rewrite Hl in *.
    destruct (IH a' (k + 1) (ex + m) (S + Z.abs m)) as [s [Es Hs]]; try lia.
    + apply sum_step_error with (a := a); auto; lia.
    + exact Hfin.
    + exists s. split; [exact Es|]. cbn [exact_sum_Z sumabs].
      replace (ex + (m + exact_sum_Z t)) with (ex + m + exact_sum_Z t) by ring.
      replace (k + (1 + Z.of_nat (length t))) with (k + 1 + Z.of_nat (length t)) by ring.
      replace (S + (Z.abs m + sumabs t)) with (S + Z.abs m + sumabs t) by ring.
      exact Hs.
Qed.

(* The textbook bound gamma_n = n u / (1 - n u), u = 2^-53, on the grid:
   |computed - exact| * (2^53 - n) <= n * (|m_1| + ... + |m_n|).
   No side condition on n: for n >= 2^53 the left side is not positive. *)
Theorem fl_sum_error ms : sum_finite ms = true ->
  exists s, fl_sum (map FFin ms) = FFin s
    /\ Z.abs (s - exact_sum_Z ms) * (p53 - Z.of_nat (length ms)) <= Z.of_nat (length ms) * sumabs ms.
Proof.
  intros H. unfold sum_finite in H. unfold fl_sum.
  destruct (Z_le_gt_dec (Z.of_nat (length ms)) p53) as [C|C].
  - destruct (fold_error ms 0 0 0 0) as [s [Es Hs]]; try lia; try assumption.
    exists s. split; [exact Es|]. now rewrite !Z.add_0_l in Hs.
  - destruct (fold_finite_result _ _ H) as [s Es]. exists s. split; [exact Es|].
    pose proof (sumabs_nonneg ms) as HS.
    assert (0 <= Z.of_nat (length ms) * sumabs ms) by (apply Z.mul_nonneg_nonneg; lia).
    assert (Z.abs (s - exact_sum_Z ms) * (p53 - Z.of_nat (length ms)) <= 0)
      by (apply Z.mul_nonneg_nonpos; lia).
    lia.
Qed.

(* the same with the denominator cleared: relative error at most 2 n 2^-53 of the sum of
   absolute values, for up to 2^52 terms *)
Corollary fl_sum_error_2n ms : sum_finite ms = true -> 2 * Z.of_nat (length ms) <= p53 ->
  exists s, fl_sum (map FFin ms) = FFin s
    /\ Z.abs (s - exact_sum_Z ms) * p53 <= 2 * Z.of_nat (length ms) * sumabs ms.
Proof.
  intros H Hn. destruct (fl_sum_error ms H) as [s [Es Hs]]. exists s. split; [exact Es|].
  set (n := Z.of_nat (length ms)) in *. set (e := Z.abs (s - exact_sum_Z ms)) in *.
  assert (He : 0 <= e) by (unfold e; lia).
  assert (H1 : e * p53 <= e * (2 * (p53 - n))) by (apply Z.mul_le_mono_nonneg_l; lia).
  lia.
Qed.

(* ================================================================== *)
(* 5. the mean: one more rounding, of the quotient by the count        *)
(* ================================================================== *)

Theorem fl_mean_error ms r : ms <> [] -> sum_finite ms = true ->
  fl_grid (fl_mean (map FFin ms)) = Some r ->
  exists s, fl_sum (map FFin ms) = FFin s
    /\ Z.abs (s - exact_sum_Z ms) * (p53 - Z.of_nat (length ms)) <= Z.of_nat (length ms) * sumabs ms
    /\ (p53 <= Z.abs s / Z.of_nat (length ms) -> Z.abs (r * Z.of_nat (length ms) - s) * p53 <= Z.abs s)
    /\ (Z.abs s / Z.of_nat (length ms) < p53 -> 2 * Z.abs (r * Z.of_nat (length ms) - s) <= Z.of_nat (length ms)).
Proof.
  intros Hne H Hr. destruct (fl_sum_error ms H) as [s [Es Hs]]. exists s.
  split; [exact Es|]. split; [exact Hs|].
  unfold fl_mean in Hr. rewrite Es, map_length in Hr. cbn [fl_div_count] in Hr.
  apply round_q_error; [|exact Hr].
  destruct ms; [congruence|]. cbn [length]. lia.
Qed.

(* both cases of the last rounding in one inequality: relative 2^-53 plus half a grid unit *)
Corollary fl_mean_error_round ms r : ms <> [] -> sum_finite ms = true ->
  fl_grid (fl_mean (map FFin ms)) = Some r ->
  exists s, fl_sum (map FFin ms) = FFin s
    /\ 2 * p53 * Z.abs (r * Z.of_nat (length ms) - s) <= 2 * Z.abs s + Z.of_nat (length ms) * p53.
Proof.
  intros Hne H Hr. destruct (fl_mean_error ms r Hne H Hr) as [s [Es [_ [B1 B2]]]].
  exists s. split; [exact Es|].
  set (n := Z.of_nat (length ms)) in *. set (A := Z.abs (r * n - s)) in *.
  pose proof p53_pos as HP.
  assert (Hn : 0 <= n) by (unfold n; lia).
  assert (0 <= n * p53) by (apply Z.mul_nonneg_nonneg; lia).
  destruct (Z_lt_ge_dec (Z.abs s / n) p53) as [C|C].
  - specialize (B2 C).
    assert (p53 * (2 * A) <= p53 * n) by (apply Z.mul_le_mono_nonneg_l; lia). lia.
  - specialize (B1 ltac:(lia)). lia.
Qed.

(* against the exact sum: n * mean - exact, with both denominators cleared.  In real terms
   (divide by 2 * 2^53 * (2^53 - n) * n):
     |mean - exact/n| <= (u + (1+u) gamma_n) * (sum |m_i|)/n + half a grid unit *)
Corollary fl_mean_error_total ms r : ms <> [] -> sum_finite ms = true ->
  fl_grid (fl_mean (map FFin ms)) = Some r -> Z.of_nat (length ms) <= p53 ->
  2 * p53 * (p53 - Z.of_nat (length ms)) * Z.abs (r * Z.of_nat (length ms) - exact_sum_Z ms)
  <= (p53 - Z.of_nat (length ms)) * (2 * sumabs ms + Z.of_nat (length ms) * p53)
     + 2 * (p53 + 1) * Z.of_nat (length ms) * sumabs ms.
Proof.
  intros Hne H Hr Hn.
  destruct (fl_mean_error ms r Hne H Hr) as [s [Es [Hs _]]].
  destruct (fl_mean_error_round ms r Hne H Hr) as [s' [Es' HA]].
  rewrite Es in Es'. injection Es' as <-.
  pose proof (exact_le_sumabs ms) as Hex. pose proof (sumabs_nonneg ms) as HS.
  pose proof p53_pos as HP.
  set (n := Z.of_nat (length ms)) in *. set (P := p53) in *.
  set (ex := exact_sum_Z ms) in *. set (T := sumabs ms) in *.
  set (A := Z.abs (r * n - s)) in *. set (e := Z.abs (s - ex)) in *.
  assert (Hn0 : 0 <= n) by (unfold n; lia).
  assert (HA0 : 0 <= A) by (unfold A; lia).
  assert (He0 : 0 <= e) by (unfold e; lia).
  assert (Htri : Z.abs (r * n - ex) <= A + e) by (unfold A, e; lia).
  assert (Hs' : Z.abs s <= T + e) by (unfold e; lia).
  (* 2P(P-n)|rn - ex| <= (P-n)(2PA) + 2P((P-n)e) *)
  assert (G1 : 2 * P * (P - n) * Z.abs (r * n - ex) <= 2 * P * (P - n) * (A + e)).
  { apply Z.mul_le_mono_nonneg_l; [|exact Htri].
    apply Z.mul_nonneg_nonneg; lia. }
  assert (G2 : (P - n) * (2 * P * A) <= (P - n) * (2 * (T + e) + n * P)).
  { apply Z.mul_le_mono_nonneg_l; lia. }
  assert (G3 : 2 * P * (e * (P - n)) <= 2 * P * (n * T)).
  { apply Z.mul_le_mono_nonneg_l; lia. }
  assert (G4 : 0 <= n * T) by (apply Z.mul_nonneg_nonneg; lia).
  nia.
Qed.

(* ================================================================== *)
(* 6. examples: the bounds are met and are not vacuous                 *)
(* ================================================================== *)

(* the doubles nearest 0.1, 0.2, 0.3 in grid units (0x1.999999999999ap-4, ...ap-3, 0x1.3333333333333p-2) *)
Definition g01 : Z := 7205759403792794 * 2 ^ 1018.
Definition g02 : Z := 7205759403792794 * 2 ^ 1019.
Definition g03 : Z := 5404319552844595 * 2 ^ 1020.

(* ties to even; the bound of rne_div_error is attained at a tie *)
Example rne_div_error_ex :
  rne_div 5 2 = 2 /\ rne_div 7 2 = 4 /\ rne_div (-5) 2 = -2 /\ rne_div 7 3 = 2
  /\ 2 * Z.abs (rne_div 5 2 * 2 - 5) = 2.
Proof. vm_compute. repeat split. Qed.

(* 2^53 + 1 grid units round to 2^53 (relative error just under 2^-53); one third of a grid
   unit rounds to 0 and two thirds to 1 (absolute error below half a unit) *)
Example round_pos_error_ex :
  round_pos (p53 + 1) 1 = FFin p53
  /\ (p53 <=? (p53 + 1) / 1) = true
  /\ Z.abs (p53 * 1 - (p53 + 1)) * p53 = p53
  /\ round_pos 1 3 = FFin 0 /\ round_pos 2 3 = FFin 1 /\ round_pos 3 2 = FFin 2
  /\ 2 * Z.abs (2 * 2 - 3) = 2.
Proof. vm_compute. repeat split. Qed.

(* 0.1 + 0.2 = 0.30000000000000004: the exact sum 3 * 0.1 is a tie and rounds up to even,
   error 2^1019 grid units = 2^-55, half an ulp of 0.3 *)
Example fl_add_error_ex :
  fl_add (FFin g01) (FFin g02) = FFin (5404319552844596 * 2 ^ 1020)
  /\ 5404319552844596 * 2 ^ 1020 - (g01 + g02) = 2 ^ 1019
  /\ (Z.abs (5404319552844596 * 2 ^ 1020 - (g01 + g02)) * p53 <=? Z.abs (g01 + g02)) = true
  /\ (Z.abs (5404319552844596 * 2 ^ 1020 - (g01 + g02)) * p53 * 2 <=? Z.abs (g01 + g02)) = false.
Proof. vm_compute. repeat split. Qed.

(* 0.1 + 0.2 + 0.3 = 0.6000000000000001 in binary64, 6 * 2^1018 grid units above the sum of the
   three doubles; the bound of fl_sum_error allows about 3 * 2^-53 of 0.6 *)
Example fl_sum_error_ex :
  let ms := [g01; g02; g03] in
  sum_finite ms = true
  /\ fl_sum (map FFin ms) = FFin (5404319552844596 * 2 ^ 1021)
  /\ 5404319552844596 * 2 ^ 1021 - exact_sum_Z ms = 6 * 2 ^ 1018
  /\ (Z.abs (5404319552844596 * 2 ^ 1021 - exact_sum_Z ms) * (p53 - 3) <=? 3 * sumabs ms) = true
  /\ (Z.abs (5404319552844596 * 2 ^ 1021 - exact_sum_Z ms) * (p53 - 3) * 8 <=? 3 * sumabs ms) = false.
Proof. cbv zeta. vm_compute. repeat split. Qed.

(* with cancellation the bound is relative to the sum of absolute values, not to the sum:
   (2^53 + 1) - 2^53 loses the 1 completely *)
Example fl_sum_error_cancel_ex :
  let ms := [p53; 1; - p53] in
  sum_finite ms = true /\ fl_sum (map FFin ms) = FFin 0 /\ exact_sum_Z ms = 1
  /\ (Z.abs (0 - exact_sum_Z ms) * (p53 - 3) <=? 3 * sumabs ms) = true.
Proof. cbv zeta. vm_compute. repeat split. Qed.

(* sum_finite fails exactly on overflow *)
Example sum_finite_overflow_ex :
  sum_finite [fl_max_grid; fl_max_grid] = false
  /\ fl_sum (map FFin [fl_max_grid; fl_max_grid]) = FPInf
  /\ sum_finite [- fl_max_grid; - fl_max_grid; fl_max_grid] = false
  /\ fl_sum (map FFin [- fl_max_grid; - fl_max_grid; fl_max_grid]) = FNInf
  /\ sum_finite [fl_max_grid; - fl_max_grid; fl_max_grid] = true.
Proof. vm_compute. repeat split. Qed.

(* mean of 0.1, 0.2, 0.3 = 0.20000000000000004; and a mean that underflows to -0 *)
Example fl_mean_error_ex :
  let ms := [g01; g02; g03] in
  ms <> [] /\ sum_finite ms = true
  /\ fl_mean (map FFin ms) = FFin (7205759403792795 * 2 ^ 1019)
  /\ 7205759403792795 * 2 ^ 1019 * 3 - exact_sum_Z ms = 2 ^ 1018 * 8
  /\ 7205759403792795 * 2 ^ 1019 * 3 - 5404319552844596 * 2 ^ 1021 = 2 ^ 1019
  /\ (2 * p53 * (p53 - 3) * Z.abs (7205759403792795 * 2 ^ 1019 * 3 - exact_sum_Z ms)
      <=? (p53 - 3) * (2 * sumabs ms + 3 * p53) + 2 * (p53 + 1) * 3 * sumabs ms) = true
  /\ fl_mean (map FFin [-1; 0; 0]) = FNegZero
  /\ fl_grid (fl_mean (map FFin [-1; 0; 0])) = Some 0
  /\ fl_mean (map FFin [2; 0; 0]) = FFin 1.
Proof. cbv zeta. split; [discriminate|]. vm_compute. repeat split. Qed.

Print Assumptions rne_div_error.
Print Assumptions round_pos_error.
Print Assumptions round_q_error.
Print Assumptions fl_add_error.
Print Assumptions fl_add_exact_grid.
Print Assumptions fold_not_finite.
Print Assumptions sum_step_error.
Print Assumptions fl_sum_error.
Print Assumptions fl_sum_error_2n.
Print Assumptions fl_mean_error.
Print Assumptions fl_mean_error_round.
Print Assumptions fl_mean_error_total.
