(* Proof_C03.v - Join: the relational specification of the four join kinds as list
   comprehensions, the merge of two rows (the left value wins), the frame built from
   the joined rows (well formed, union of both frames' columns), error behaviour. *)
From GF Require Import Ops Lemmas.
From Coq Require Import Lia.

Arguments N.eqb : simpl never.

(* ================================================================== *)
(* A. finite maps as sorted association lists                          *)
(* ================================================================== *)

Lemma str_compare_gt_neq k k' : str_compare k k' = Gt -> str_eqb k k' = false.
Proof.
  intros H. apply str_eqb_neq. intros E. apply str_compare_eq in E. congruence.
Qed.

Lemma str_compare_lt_ltb k k' : str_compare k k' = Lt -> str_ltb k k' = true.
Proof. intros H. unfold str_ltb. now rewrite H. Qed.

Lemma str_compare_gt_ltb k k' : str_compare k k' = Gt -> str_ltb k' k = true.
Proof.
  intros H. unfold str_ltb. rewrite (str_compare_antisym k k'). now rewrite H.
Qed.

Lemma sorted_cons2 a b t : sorted_keys (a :: b :: t) = str_ltb a b && sorted_keys (b :: t).
Proof. reflexivity. Qed.

Lemma sorted_cons_inv a l : sorted_keys (a :: l) = true -> sorted_keys l = true.
Proof.
  destruct l as [|b t]; [reflexivity|]. rewrite sorted_cons2. intros H.
  apply andb_prop in H. now destruct H.
Qed.

Section FMap.
Context {A : Type}.
Implicit Types (f : list (str * A)) (k : str) (c : A).

Lemma fkeys_cons k c f : fkeys ((k, c) :: f) = k :: fkeys f.
Proof. reflexivity. Qed.

(* reading back what was written; holds for every association list *)
Lemma fget_fset_same f k c : fget (fset f k c) k = Some c.
Proof.
  induction f as [|[k' c'] t IH]; cbn [fset fget].
  - now rewrite str_eqb_refl.
  - destruct (str_compare k k') eqn:E; cbn [fget].
    + now rewrite str_eqb_refl.
    + now rewrite str_eqb_refl.
    + rewrite (str_compare_gt_neq _ _ E). exact IH.
Qed.

(* other keys are untouched *)
Lemma fget_fset_other f k k' c : k <> k' -> fget (fset f k c) k' = fget f k'.
Proof.
  intros N. assert (H : str_eqb k' k = false) by (apply str_eqb_neq; congruence).
  induction f as [|[k0 c0] t IH]; cbn [fset fget].
  - now rewrite H.
  - destruct (str_compare k k0) eqn:E; cbn [fget].
    + apply str_compare_eq in E. subst k0. now rewrite H.
    + now rewrite H.
    + now rewrite IH.
Qed.

Lemma fhas_fset f k k' c : fhas (fset f k c) k' = str_eqb k' k || fhas f k'.
Proof.
  unfold fhas. destruct (str_eqb k' k) eqn:E.
  - apply str_eqb_eq in E. subst k'. now rewrite fget_fset_same.
  - apply str_eqb_neq in E. rewrite fget_fset_other by congruence. reflexivity.
Qed.

Lemma fset_sorted_aux k c : forall f lo,
  sorted_keys (lo :: fkeys f) = true -> str_ltb lo k = true ->
  sorted_keys (lo :: fkeys (fset f k c)) = true.
Proof.
  induction f as [|[k0 c0] t IH]; intros lo Hs Hlo; cbn [fset].
  - rewrite fkeys_cons, sorted_cons2, Hlo. reflexivity.
  - rewrite fkeys_cons, sorted_cons2 in Hs. apply andb_prop in Hs. destruct Hs as [H1 H2].
    destruct (str_compare k k0) eqn:E.
    + apply str_compare_eq in E. subst k0. rewrite fkeys_cons, sorted_cons2, H1. exact H2.
    + rewrite !fkeys_cons, !sorted_cons2, Hlo, (str_compare_lt_ltb _ _ E). exact H2.
    + rewrite fkeys_cons, sorted_cons2, H1. cbn [andb].
      apply IH; [exact H2 | now apply str_compare_gt_ltb].
Qed.

(* fset keeps the list sorted with unique keys *)
Lemma fset_sorted f k c :
  sorted_keys (fkeys f) = true -> sorted_keys (fkeys (fset f k c)) = true.
Proof.
  destruct f as [|[k0 c0] t]; intros Hs; cbn [fset]; [reflexivity|].
  rewrite fkeys_cons in Hs.
  destruct (str_compare k k0) eqn:E.
  - apply str_compare_eq in E. subst k0. now rewrite fkeys_cons.
  - rewrite !fkeys_cons, sorted_cons2, (str_compare_lt_ltb _ _ E). exact Hs.
  - rewrite fkeys_cons. apply fset_sorted_aux; [exact Hs | now apply str_compare_gt_ltb].
Qed.

Lemma In_fset f k c kc : In kc (fset f k c) -> kc = (k, c) \/ In kc f.
Proof.
  induction f as [|[k0 c0] t IH]; cbn [fset]; intros H.
  - destruct H as [H|[]]. now left.
  - destruct (str_compare k k0).
    + destruct H as [H|H]; [now left | right; now right].
    + destruct H as [H|H]; [now left | now right].
    + destruct H as [H|H]; [right; now left|].
      destruct (IH H) as [H'|H']; [now left | right; now right].
Qed.

Lemma fset_not_nil f k c : fset f k c <> [].
Proof.
  destruct f as [|[k0 c0] t]; cbn [fset]; [discriminate|].
  destruct (str_compare k k0); discriminate.
Qed.

Lemma fhas_existsb f k : fhas f k = existsb (str_eqb k) (fkeys f).
Proof.
  unfold fhas. induction f as [|[k0 c0] t IH]; [reflexivity|].
  cbn [fget]. rewrite fkeys_cons. cbn [existsb].
  destruct (str_eqb k k0); [reflexivity | exact IH].
Qed.

End FMap.

(* ================================================================== *)
(* B. frame_of_rows builds a well-formed frame                         *)
(* ================================================================== *)

Definition col_of (rs : list rowmap) (k : str) : col := (k, map (fun r => rget r k) rs).

Lemma for_cons k names rs :
  frame_of_rows (k :: names) rs = fset (frame_of_rows names rs) k (col_of rs k).
Proof. reflexivity. Qed.

Lemma for_In names rs kc :
  In kc (frame_of_rows names rs) -> In (fst kc) names /\ snd kc = col_of rs (fst kc).
Proof.
  induction names as [|k t IH]; [intros []|].
  rewrite for_cons. intros H. apply In_fset in H. destruct H as [H|H].
  - subst kc. cbn [fst snd]. split; [now left | reflexivity].
  - destruct (IH H) as [H1 H2]. split; [now right | exact H2].
Qed.

Lemma for_sorted names rs : sorted_keys (fkeys (frame_of_rows names rs)) = true.
Proof.
  induction names as [|k t IH]; [reflexivity|]. rewrite for_cons. now apply fset_sorted.
Qed.

Lemma for_names_ok names rs : names_ok (frame_of_rows names rs) = true.
Proof.
  unfold names_ok. apply forallb_forall. intros kc H. apply for_In in H.
  destruct H as [_ H]. rewrite H. cbn. apply str_eqb_refl.
Qed.

Lemma for_col_length names rs kc :
  In kc (frame_of_rows names rs) -> length (cdata (snd kc)) = length rs.
Proof.
  intros H. apply for_In in H. destruct H as [_ H]. rewrite H. cbn. apply map_length.
Qed.

Lemma for_nrows_In names rs :
  frame_of_rows names rs <> [] -> nrows (frame_of_rows names rs) = length rs.
Proof.
  intros H. pose proof (for_col_length names rs) as HL.
  destruct (frame_of_rows names rs) as [|[k c] t]; [congruence|].
  cbn [nrows]. apply (HL (k, c)). now left.
Qed.

(* every column has one cell per row *)
Lemma for_rect names rs : rect (frame_of_rows names rs) = true.
Proof.
  unfold rect. apply forallb_forall. intros kc H. apply Nat.eqb_eq.
  rewrite (for_col_length _ _ _ H). symmetry. apply for_nrows_In.
  intros E. rewrite E in H. destruct H.
Qed.

Theorem frame_of_rows_wf names rs : wf_frame (frame_of_rows names rs) = true.
Proof.
  unfold wf_frame. now rewrite for_rect, for_names_ok, for_sorted.
Qed.

Theorem frame_of_rows_fhas names rs k :
  fhas (frame_of_rows names rs) k = existsb (str_eqb k) names.
Proof.
  induction names as [|k0 t IH]; [reflexivity|].
  rewrite for_cons, fhas_fset, IH. reflexivity.
Qed.

Theorem frame_of_rows_fget names rs k :
  In k names -> fget (frame_of_rows names rs) k = Some (k, map (fun r => rget r k) rs).
Proof.
  induction names as [|k0 t IH]; [intros []|].
  intros H. rewrite for_cons. destruct (str_eqb k0 k) eqn:E.
  - apply str_eqb_eq in E. subst k0. apply fget_fset_same.
  - apply str_eqb_neq in E. rewrite fget_fset_other by exact E.
    destruct H as [H|H]; [contradiction | now apply IH].
Qed.

Theorem frame_of_rows_fget_none names rs k :
  ~ In k names -> fget (frame_of_rows names rs) k = None.
Proof.
  intros H. pose proof (frame_of_rows_fhas names rs k) as F. unfold fhas in F.
  destruct (fget (frame_of_rows names rs) k); [|reflexivity].
  symmetry in F. apply existsb_exists in F. destruct F as [x [Hx E]].
  apply str_eqb_eq in E. subst x. contradiction.
Qed.

Theorem frame_of_rows_nrows names rs :
  names <> [] -> nrows (frame_of_rows names rs) = length rs.
Proof.
  intros H. apply for_nrows_In. destruct names as [|k t]; [congruence|].
  rewrite for_cons. apply fset_not_nil.
Qed.

(* ================================================================== *)
(* C. merging two rows: all cells of both rows, the left value wins    *)
(* ================================================================== *)

Definition merge_step (m : rowmap) (kv : str * cell) : rowmap :=
  if fhas m (fst kv) then m else fset m (fst kv) (snd kv).

Lemma merge_rows_fold a b : merge_rows a b = fold_left merge_step b a.
Proof. reflexivity. Qed.

Lemma merge_fget_gen b : forall m k,
  fget (fold_left merge_step b m) k =
  match fget m k with Some c => Some c | None => fget b k end.
Proof.
  induction b as [|[k' v] t IH]; intros m k; cbn [fold_left].
  - cbn [fget]. destruct (fget m k); reflexivity.
  - rewrite IH. unfold merge_step. cbn [fget fst snd]. destruct (fhas m k') eqn:Hm.
    + destruct (fget m k) eqn:G; [reflexivity|].
      destruct (str_eqb k k') eqn:E; [|reflexivity].
      apply str_eqb_eq in E. subst k'. unfold fhas in Hm. rewrite G in Hm. discriminate.
    + destruct (str_eqb k k') eqn:E.
      * apply str_eqb_eq in E. subst k'. rewrite fget_fset_same.
        unfold fhas in Hm. destruct (fget m k); [discriminate | reflexivity].
      * apply str_eqb_neq in E. rewrite fget_fset_other by congruence. reflexivity.
Qed.

Theorem merge_fget a b k :
  fget (merge_rows a b) k = match fget a k with Some c => Some c | None => fget b k end.
Proof. rewrite merge_rows_fold. apply merge_fget_gen. Qed.

(* no hypothesis on a or b is needed: b may even repeat a key (its first binding counts,
   as for rget) *)
Theorem merge_rget a b k :
  rget (merge_rows a b) k = if fhas a k then rget a k else rget b k.
Proof.
  unfold rget, fhas. rewrite merge_fget. destruct (fget a k); reflexivity.
Qed.

Theorem merge_fhas a b k : fhas (merge_rows a b) k = fhas a k || fhas b k.
Proof.
  unfold fhas. rewrite merge_fget. destruct (fget a k); reflexivity.
Qed.

Lemma merge_sorted_gen b : forall m,
  sorted_keys (fkeys m) = true -> sorted_keys (fkeys (fold_left merge_step b m)) = true.
Proof.
  induction b as [|kv t IH]; intros m H; cbn [fold_left]; [exact H|].
  apply IH. unfold merge_step. destruct (fhas m (fst kv)); [exact H | now apply fset_sorted].
Qed.

(* the merged row is again a canonical map *)
Theorem merge_sorted a b :
  sorted_keys (fkeys a) = true -> sorted_keys (fkeys (merge_rows a b)) = true.
Proof. rewrite merge_rows_fold. apply merge_sorted_gen. Qed.

(* ================================================================== *)
(* D. the relational specification of the four joins                   *)
(* ================================================================== *)

Lemma ikind_eqb_sym a b : ikind_eqb a b = ikind_eqb b a.
Proof. destruct a, b; reflexivity. Qed.
Lemma fkind_eqb_sym a b : fkind_eqb a b = fkind_eqb b a.
Proof. destruct a, b; reflexivity. Qed.
Lemma fl_eq_sym a b : fl_eq a b = fl_eq b a.
Proof.
  destruct a as [| | | |x], b as [| | | |y]; try reflexivity.
  cbn [fl_eq]. apply Z.eqb_sym.
Qed.
Lemma bool_eqb_sym a b : Bool.eqb a b = Bool.eqb b a.
Proof. destruct a, b; reflexivity. Qed.
Lemma zlist_eqb_sym a : forall b, zlist_eqb a b = zlist_eqb b a.
Proof.
  induction a as [|x a IH]; intros [|y b]; cbn [zlist_eqb]; try reflexivity.
  now rewrite Z.eqb_sym, IH.
Qed.

(* Go's interface == is symmetric *)
Lemma cell_eqb_sym a b : cell_eqb a b = cell_eqb b a.
Proof.
  destruct a as [|k x|k x|s|u|t], b as [|k' y|k' y|s'|u'|t']; cbn [cell_eqb]; try reflexivity.
  - now rewrite ikind_eqb_sym, Z.eqb_sym.
  - now rewrite fkind_eqb_sym, fl_eq_sym.
  - apply str_eqb_sym.
  - apply bool_eqb_sym.
  - apply zlist_eqb_sym.
Qed.

Theorem key_eq_sym key a b : key_eq key a b = key_eq key b a.
Proof. unfold key_eq. apply cell_eqb_sym. Qed.

Lemma null_map {A B} (g : A -> B) l : null (map g l) = null l.
Proof. now destruct l. Qed.

Lemma matches_l_spec key a R :
  matches_l key a R = map (merge_rows a) (filter (key_eq key a) R).
Proof.
  unfold matches_l. induction R as [|b t IH]; [reflexivity|].
  cbn [flat_map filter]. destruct (key_eq key a b); cbn [map app]; now rewrite IH.
Qed.

Lemma matches_r_spec key b L :
  matches_r key b L = map (fun a => merge_rows a b) (filter (fun a => key_eq key b a) L).
Proof.
  unfold matches_r. induction L as [|a t IH]; [reflexivity|].
  cbn [flat_map filter]. destruct (key_eq key b a); cbn [map app]; now rewrite IH.
Qed.

(* inner: every pair (a, b) with equal key, in the order of L then R *)
Theorem inner_spec key L R :
  join_rows JInner key L R =
  flat_map (fun a => map (merge_rows a) (filter (key_eq key a) R)) L.
Proof.
  unfold join_rows. apply flat_map_ext. intros a. apply matches_l_spec.
Qed.

(* left: as inner, and a left row without partner is kept as it is *)
Theorem left_spec key L R :
  join_rows JLeft key L R =
  flat_map (fun a => match filter (key_eq key a) R with
                     | [] => [a]
                     | m => map (merge_rows a) m
                     end) L.
Proof.
  unfold join_rows. apply flat_map_ext. intros a. cbv zeta.
  rewrite matches_l_spec, null_map. now destruct (filter (key_eq key a) R).
Qed.

(* right: driven by the rows of R; the merged row still prefers the left frame's cells *)
Theorem right_spec key L R :
  join_rows JRight key L R =
  flat_map (fun b => match filter (fun a => key_eq key b a) L with
                     | [] => [b]
                     | m => map (fun a => merge_rows a b) m
                     end) R.
Proof.
  unfold join_rows. apply flat_map_ext. intros b. cbv zeta.
  rewrite matches_r_spec, null_map. now destruct (filter (fun a => key_eq key b a) L).
Qed.

(* outer: the left join followed by the right rows that no left row matches *)
Theorem outer_spec key L R :
  join_rows JOuter key L R =
  join_rows JLeft key L R ++ filter (fun b => negb (existsb (fun a => key_eq key a b) L)) R.
Proof. reflexivity. Qed.

Lemma flat_map_length {A B} (g : A -> list B) l :
  length (flat_map g l) = list_sum (map (fun a => length (g a)) l).
Proof.
  induction l as [|a t IH]; [reflexivity|].
  cbn [flat_map map list_sum]. now rewrite app_length, IH.
Qed.

Theorem inner_count key L R :
  length (join_rows JInner key L R) =
  list_sum (map (fun a => length (filter (key_eq key a) R)) L).
Proof.
  rewrite inner_spec, flat_map_length. f_equal. apply map_ext. intros a. apply map_length.
Qed.

(* membership form of the inner join *)
Theorem inner_in key L R r :
  In r (join_rows JInner key L R) <->
  exists a b, In a L /\ In b R /\ key_eq key a b = true /\ r = merge_rows a b.
Proof.
  rewrite inner_spec, in_flat_map. split.
  - intros [a [Ha Hr]]. apply in_map_iff in Hr. destruct Hr as [b [E Hb]].
    apply filter_In in Hb. destruct Hb as [Hb Hk]. exists a, b. auto.
  - intros [a [b [Ha [Hb [Hk E]]]]]. exists a. split; [exact Ha|].
    apply in_map_iff. exists b. split; [now symmetry|]. apply filter_In. auto.
Qed.

(* a left row with no partner appears at its place, exactly once and un-merged *)
Theorem left_keeps_unmatched key L1 a L2 R :
  filter (key_eq key a) R = [] ->
  join_rows JLeft key (L1 ++ a :: L2) R =
  join_rows JLeft key L1 R ++ a :: join_rows JLeft key L2 R.
Proof.
  intros H. rewrite !left_spec, flat_map_app. cbn [flat_map]. now rewrite H.
Qed.

(* a left row with partners b1..bn yields exactly merge a b1 .. merge a bn at its place *)
Theorem left_matched key L1 a L2 R :
  filter (key_eq key a) R <> [] ->
  join_rows JLeft key (L1 ++ a :: L2) R =
  join_rows JLeft key L1 R ++ map (merge_rows a) (filter (key_eq key a) R)
  ++ join_rows JLeft key L2 R.
Proof.
  intros H. rewrite !left_spec, flat_map_app. cbn [flat_map].
  destruct (filter (key_eq key a) R); [congruence | reflexivity].
Qed.

Theorem left_length_ge key L R : (length L <= length (join_rows JLeft key L R))%nat.
Proof.
  rewrite left_spec. induction L as [|a t IH]; [apply Nat.le_refl|].
  cbn [flat_map]. rewrite app_length. cbn [length].
  destruct (filter (key_eq key a) R) as [|b m]; rewrite ?map_length; cbn [length]; lia.
Qed.

Theorem right_keeps_unmatched key L R1 b R2 :
  filter (fun a => key_eq key b a) L = [] ->
  join_rows JRight key L (R1 ++ b :: R2) =
  join_rows JRight key L R1 ++ b :: join_rows JRight key L R2.
Proof.
  intros H. rewrite !right_spec, flat_map_app. cbn [flat_map]. now rewrite H.
Qed.

Theorem right_length_ge key L R : (length R <= length (join_rows JRight key L R))%nat.
Proof.
  rewrite right_spec. induction R as [|b t IH]; [apply Nat.le_refl|].
  cbn [flat_map]. rewrite app_length. cbn [length].
  destruct (filter (fun a => key_eq key b a) L) as [|a m]; rewrite ?map_length; cbn [length]; lia.
Qed.

(* the inner join is contained in the left join, which is a prefix of the outer join *)
Theorem inner_le_left key L R :
  (length (join_rows JInner key L R) <= length (join_rows JLeft key L R))%nat.
Proof.
  rewrite inner_spec, left_spec. induction L as [|a t IH]; [apply Nat.le_refl|].
  cbn [flat_map]. rewrite !app_length.
  destruct (filter (key_eq key a) R) as [|b m]; rewrite ?map_length; cbn [length]; lia.
Qed.

(* the right rows appended by the outer join are exactly those the right join keeps alone *)
Theorem outer_extra_unmatched key L R b :
  In b (filter (fun b => negb (existsb (fun a => key_eq key a b) L)) R) <->
  In b R /\ filter (fun a => key_eq key b a) L = [].
Proof.
  rewrite filter_In. split; intros [Hb H]; split; try exact Hb.
  - apply negb_true_iff in H.
    destruct (filter (fun a => key_eq key b a) L) as [|a m] eqn:F; [reflexivity|].
    assert (Ha : In a (filter (fun a => key_eq key b a) L)) by (rewrite F; now left).
    apply filter_In in Ha. destruct Ha as [Ha Hk].
    assert (X : existsb (fun a => key_eq key a b) L = true).
    { apply existsb_exists. exists a. split; [exact Ha|]. now rewrite key_eq_sym. }
    congruence.
  - apply negb_true_iff. destruct (existsb (fun a => key_eq key a b) L) eqn:X; [|reflexivity].
    apply existsb_exists in X. destruct X as [a [Ha Hk]].
    assert (Hin : In a (filter (fun a => key_eq key b a) L)).
    { apply filter_In. split; [exact Ha|]. now rewrite key_eq_sym. }
    rewrite H in Hin. destruct Hin.
Qed.

(* ================================================================== *)
(* E. frame level                                                      *)
(* ================================================================== *)

Lemma all_some_map_some {A B} (g : A -> option B) l :
  (forall x, In x l -> g x <> None) -> exists r, all_some (map g l) = Some r.
Proof.
  induction l as [|x t IH]; intros H; cbn [map all_some].
  - now exists [].
  - destruct (g x) eqn:E; [|exfalso; apply (H x); [now left | exact E]].
    destruct IH as [r Hr]; [intros y Hy; apply H; now right|]. rewrite Hr. now eexists.
Qed.

Lemma frow_some f i : rect f = true -> (i < nrows f)%nat -> exists r, frow f i = Some r.
Proof.
  intros Hr Hi. unfold frow.
  assert (H : Nat.ltb i (nrows f) = true) by now apply Nat.ltb_lt.
  rewrite H. apply all_some_map_some. intros [k c] Hin.
  unfold rect in Hr. rewrite forallb_forall in Hr. specialize (Hr _ Hin).
  cbn [fst snd] in *. apply Nat.eqb_eq in Hr.
  rewrite (nth_opt_nth _ _ CNil) by lia. discriminate.
Qed.

Lemma flat_map_some_map {A B} (h : A -> option B) (d : B) l :
  (forall i, In i l -> h i <> None) ->
  flat_map (fun i => match h i with Some r => [r] | None => [] end) l =
  map (fun i => match h i with Some r => r | None => d end) l.
Proof.
  induction l as [|x t IH]; intros H; [reflexivity|].
  cbn [flat_map map]. rewrite IH by (intros y Hy; apply H; now right).
  destruct (h x) eqn:E; [reflexivity|]. exfalso. apply (H x); [now left | exact E].
Qed.

(* on a rectangular frame Rows() has one row per position *)
Lemma rows_map f : rect f = true -> rows f = map (row_or_empty f) (seq 0 (nrows f)).
Proof.
  intros Hr. unfold rows, row_or_empty. apply flat_map_some_map.
  intros i Hi. apply in_seq in Hi. destruct (frow_some f i Hr) as [r E]; [lia|].
  rewrite E. discriminate.
Qed.

Lemma rows_length f : rect f = true -> length (rows f) = nrows f.
Proof. intros Hr. now rewrite rows_map, map_length, seq_length. Qed.

Lemma rows_nth f i : rect f = true -> (i < nrows f)%nat -> nth_opt (rows f) i = frow f i.
Proof.
  intros Hr Hi. rewrite rows_map by exact Hr.
  rewrite (nth_opt_nth _ _ (row_or_empty f 0)) by now rewrite map_length, seq_length.
  rewrite map_nth, seq_nth by exact Hi. cbn [Nat.add].
  unfold row_or_empty. destruct (frow_some f i Hr Hi) as [r E]. now rewrite E.
Qed.

Lemma all_some_fget i : forall (f : frame) r c,
  all_some (map (fun kc => option_map (pair (fst kc)) (nth_opt (cdata (snd kc)) i)) f) = Some r ->
  fget r c = match fget f c with Some cl => nth_opt (cdata cl) i | None => None end
  /\ fkeys r = fkeys f.
Proof.
  induction f as [|[k0 c0] t IH]; intros r c H; cbn [map all_some fst snd] in H.
  - inversion H. split; reflexivity.
  - destruct (nth_opt (cdata c0) i) as [v|] eqn:E; cbn [option_map] in H; [|discriminate].
    destruct (all_some _) as [r'|] eqn:E2; [|discriminate].
    inversion H; subst r. destruct (IH r' c eq_refl) as [IH1 IH2].
    rewrite !fkeys_cons, IH2. split; [|reflexivity].
    cbn [fget]. destruct (str_eqb c k0); [now rewrite E | exact IH1].
Qed.

(* a row map read off a frame holds the frame's cells *)
Lemma frow_rget f i r : frow f i = Some r -> forall c, rget r c = cell_at f c i.
Proof.
  unfold frow. destruct (Nat.ltb i (nrows f)); [|discriminate].
  intros H c. destruct (all_some_fget i f r c H) as [H1 _].
  unfold rget, cell_at. rewrite H1. destruct (fget f c); reflexivity.
Qed.

Lemma frow_keys f i r : frow f i = Some r -> fkeys r = fkeys f.
Proof.
  unfold frow. destruct (Nat.ltb i (nrows f)); [|discriminate].
  intros H. now destruct (all_some_fget i f r [] H).
Qed.

(* the cells of a frame built from rows *)
Lemma frame_of_rows_cell names rs c i :
  cell_at (frame_of_rows names rs) c i =
  if existsb (str_eqb c) names then rget (nth i rs []) c else CNil.
Proof.
  unfold cell_at. destruct (existsb (str_eqb c) names) eqn:X.
  - apply existsb_exists in X. destruct X as [x [Hx E]]. apply str_eqb_eq in E. subst x.
    rewrite frame_of_rows_fget by exact Hx. cbn [cdata snd].
    destruct (Nat.lt_ge_cases i (length rs)) as [Hi|Hi].
    + rewrite (nth_opt_nth _ _ (rget [] c)) by now rewrite map_length.
      now rewrite (map_nth (fun r => rget r c)).
    + rewrite nth_opt_none by now rewrite map_length.
      rewrite nth_overflow by exact Hi. reflexivity.
  - rewrite frame_of_rows_fget_none; [reflexivity|].
    intros Hin. assert (Y : existsb (str_eqb c) names = true).
    { apply existsb_exists. exists c. split; [exact Hin | apply str_eqb_refl]. }
    congruence.
Qed.

(* Join fails exactly when the key column is missing on one side *)
Theorem op_join_err k f g key :
  op_join k f g key = Err <-> fhas f key = false \/ fhas g key = false.
Proof.
  unfold op_join. destruct (fhas f key), (fhas g key); cbn [negb orb]; split; intros H;
    try reflexivity; try discriminate H; try (destruct H; discriminate); auto.
Qed.

Theorem op_join_no_panic k f g key : op_join k f g key <> Panic.
Proof. unfold op_join. destruct (negb (fhas f key) || negb (fhas g key)); discriminate. Qed.

Lemma op_join_ok_inv k f g key h :
  op_join k f g key = Ok h ->
  fhas f key = true /\ fhas g key = true /\
  h = frame_of_rows (fkeys f ++ fkeys g) (join_rows k key (rows f) (rows g)).
Proof.
  unfold op_join. destruct (fhas f key), (fhas g key); cbn [negb orb]; intros H;
    try discriminate H. inversion H. auto.
Qed.

Theorem op_join_ok k f g key :
  fhas f key = true -> fhas g key = true ->
  op_join k f g key = Ok (frame_of_rows (fkeys f ++ fkeys g) (join_rows k key (rows f) (rows g))).
Proof. intros H1 H2. unfold op_join. now rewrite H1, H2. Qed.

Theorem op_join_wf k f g key h : op_join k f g key = Ok h -> wf_frame h = true.
Proof.
  intros H. apply op_join_ok_inv in H. destruct H as [_ [_ H]]. subst h. apply frame_of_rows_wf.
Qed.

(* the result carries the union of both frames' columns *)
Theorem op_join_cols k f g key h :
  op_join k f g key = Ok h -> forall c, fhas h c = fhas f c || fhas g c.
Proof.
  intros H c. apply op_join_ok_inv in H. destruct H as [_ [_ H]]. subst h.
  now rewrite frame_of_rows_fhas, existsb_app, <- !fhas_existsb.
Qed.

Lemma fhas_keys_not_nil {A} (f : list (str * A)) k : fhas f k = true -> fkeys f <> [].
Proof. destruct f; [discriminate | discriminate]. Qed.

Theorem op_join_nrows k f g key h :
  op_join k f g key = Ok h -> nrows h = length (join_rows k key (rows f) (rows g)).
Proof.
  intros H. apply op_join_ok_inv in H. destruct H as [Hf [_ H]]. subst h.
  apply frame_of_rows_nrows. intros E. apply app_eq_nil in E. destruct E as [E _].
  now apply (fhas_keys_not_nil f key).
Qed.

(* one result row per joined row (the result always has a column: the key) *)
Theorem op_join_rows_length k f g key h :
  op_join k f g key = Ok h -> length (rows h) = length (join_rows k key (rows f) (rows g)).
Proof.
  intros H. rewrite rows_length.
  - now apply op_join_nrows.
  - apply op_join_wf in H. unfold wf_frame in H.
    apply andb_prop in H. destruct H as [H _]. apply andb_prop in H. now destruct H.
Qed.

(* every cell of the result: the cell of the joined row, nil where the row has no such key *)
Theorem op_join_cell k f g key h :
  op_join k f g key = Ok h -> forall c i,
  cell_at h c i =
  if fhas f c || fhas g c then rget (nth i (join_rows k key (rows f) (rows g)) []) c else CNil.
Proof.
  intros H c i. apply op_join_ok_inv in H. destruct H as [_ [_ H]]. subst h.
  now rewrite frame_of_rows_cell, existsb_app, <- !fhas_existsb.
Qed.

(* Rows() of the result: row i has the result's column names and the joined row's cells *)
Theorem op_join_row k f g key h :
  op_join k f g key = Ok h -> forall i,
  (i < length (join_rows k key (rows f) (rows g)))%nat ->
  exists r, nth_opt (rows h) i = Some r /\ fkeys r = fkeys h /\
    forall c, rget r c =
      if fhas f c || fhas g c then rget (nth i (join_rows k key (rows f) (rows g)) []) c else CNil.
Proof.
  intros H i Hi.
  assert (Hr : rect h = true).
  { pose proof (op_join_wf _ _ _ _ _ H) as W. unfold wf_frame in W.
    apply andb_prop in W. destruct W as [W _]. apply andb_prop in W. now destruct W. }
  rewrite <- (op_join_nrows _ _ _ _ _ H) in Hi.
  destruct (frow_some h i Hr Hi) as [r E]. exists r.
  rewrite rows_nth by assumption. split; [exact E|]. split; [now apply (frow_keys h i)|].
  intros c. rewrite (frow_rget h i r E). now apply op_join_cell.
Qed.

(* ================================================================== *)
(* Examples: the hypotheses are satisfiable and the model computes     *)
(* what the specification says                                         *)
(* ================================================================== *)

Definition s_a : str := [97]%N.   (* "a": only in the left frame *)
Definition s_b : str := [98]%N.   (* "b": only in the right frame *)
Definition s_c : str := [99]%N.   (* "c": in both frames *)
Definition s_k : str := [107]%N.  (* "k": the key *)
Definition I (z : Z) : cell := CI KInt z.
Definition mk4 (a b c k : list cell) : frame :=
  [(s_a, (s_a, a)); (s_b, (s_b, b)); (s_c, (s_c, c)); (s_k, (s_k, k))].

(* left keys 1,1,nil,2 (1 twice, 2 only here); right keys 1,nil,3,1 (3 only here) *)
Definition exF : frame :=
  [(s_a, (s_a, [I 10; I 11; I 12; I 13])); (s_c, (s_c, [I 30; I 31; I 32; I 33]));
   (s_k, (s_k, [I 1; I 1; CNil; I 2]))].
Definition exG : frame :=
  [(s_b, (s_b, [I 20; I 21; I 22; I 23])); (s_c, (s_c, [I 40; I 41; I 42; I 43]));
   (s_k, (s_k, [I 1; CNil; I 3; I 1]))].

Example ex_hyps :
  wf_frame exF = true /\ wf_frame exG = true /\ fhas exF s_k = true /\ fhas exG s_k = true
  /\ length (rows exF) = 4%nat /\ length (rows exG) = 4%nat.
Proof. vm_compute. repeat split. Qed.

(* the nil keys match each other (Go: nil == nil); c keeps the left value on merged rows *)
Example ex_inner :
  op_join JInner exF exG s_k =
  Ok (mk4 [I 10; I 10; I 11; I 11; I 12] [I 20; I 23; I 20; I 23; I 21]
          [I 30; I 30; I 31; I 31; I 32] [I 1; I 1; I 1; I 1; CNil]).
Proof. vm_compute. reflexivity. Qed.

Example ex_left :
  op_join JLeft exF exG s_k =
  Ok (mk4 [I 10; I 10; I 11; I 11; I 12; I 13] [I 20; I 23; I 20; I 23; I 21; CNil]
          [I 30; I 30; I 31; I 31; I 32; I 33] [I 1; I 1; I 1; I 1; CNil; I 2]).
Proof. vm_compute. reflexivity. Qed.

Example ex_right :
  op_join JRight exF exG s_k =
  Ok (mk4 [I 10; I 11; I 12; CNil; I 10; I 11] [I 20; I 20; I 21; I 22; I 23; I 23]
          [I 30; I 31; I 32; I 42; I 30; I 31] [I 1; I 1; CNil; I 3; I 1; I 1]).
Proof. vm_compute. reflexivity. Qed.

Example ex_outer :
  op_join JOuter exF exG s_k =
  Ok (mk4 [I 10; I 10; I 11; I 11; I 12; I 13; CNil] [I 20; I 23; I 20; I 23; I 21; CNil; I 22]
          [I 30; I 30; I 31; I 31; I 32; I 33; I 42] [I 1; I 1; I 1; I 1; CNil; I 2; I 3]).
Proof. vm_compute. reflexivity. Qed.

Example ex_err :
  op_join JInner exF exG s_a = Err /\ op_join JOuter exF exG s_b = Err.
Proof. vm_compute. split; reflexivity. Qed.

(* the hypotheses of left_keeps_unmatched / left_matched / right_keeps_unmatched hold here:
   the left row with key 2 has no partner, the one with key 1 has two, the right row with
   key 3 has none *)
Example ex_unmatched :
  filter (key_eq s_k (nth 3 (rows exF) [])) (rows exG) = []
  /\ length (filter (key_eq s_k (nth 0 (rows exF) [])) (rows exG)) = 2%nat
  /\ filter (fun a => key_eq s_k (nth 2 (rows exG) []) a) (rows exF) = [].
Proof. vm_compute. repeat split. Qed.

(* merge: left value wins, keys of both rows *)
Example ex_merge :
  merge_rows [(s_a, I 1); (s_c, I 2)] [(s_b, I 3); (s_c, I 4)] = [(s_a, I 1); (s_b, I 3); (s_c, I 2)].
Proof. vm_compute. reflexivity. Qed.

(* frame_of_rows with a repeated and unsorted name list, rows lacking a key *)
Example ex_frame_of_rows :
  frame_of_rows [s_k; s_a; s_k] [[(s_a, I 1)]; [(s_k, I 2)]] =
  [(s_a, (s_a, [I 1; CNil])); (s_k, (s_k, [CNil; I 2]))].
Proof. vm_compute. reflexivity. Qed.

Print Assumptions fget_fset_same.
Print Assumptions fget_fset_other.
Print Assumptions fset_sorted.
Print Assumptions fhas_fset.
Print Assumptions frame_of_rows_wf.
Print Assumptions frame_of_rows_fhas.
Print Assumptions frame_of_rows_fget.
Print Assumptions frame_of_rows_nrows.
Print Assumptions merge_rget.
Print Assumptions merge_fhas.
Print Assumptions merge_sorted.
Print Assumptions key_eq_sym.
Print Assumptions inner_spec.
Print Assumptions left_spec.
Print Assumptions right_spec.
Print Assumptions outer_spec.
Print Assumptions inner_count.
Print Assumptions inner_in.
Print Assumptions left_keeps_unmatched.
Print Assumptions left_matched.
Print Assumptions left_length_ge.
Print Assumptions right_keeps_unmatched.
Print Assumptions right_length_ge.
Print Assumptions inner_le_left.
Print Assumptions outer_extra_unmatched.
Print Assumptions op_join_err.
Print Assumptions op_join_no_panic.
Print Assumptions op_join_wf.
Print Assumptions op_join_cols.
Print Assumptions op_join_nrows.
Print Assumptions op_join_rows_length.
Print Assumptions op_join_cell.
Print Assumptions op_join_row.
