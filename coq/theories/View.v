(* View.v - model of the remaining read-only public operations of goframe:
   DataFrame.String (dataframe.go), Select, Column.At / Column.Len (column.go), NewSeries / Series.Len /
   Series.At (series.go), the argument validation of LinePlot / BarPlot (plotting.go; the PNG renderer and
   os.Create are oracle bits supplied per call) and Groupby with a key that is neither a string nor a
   []string (groupby.go).  Definitions only. *)
From GF Require Export Ops.
From Coq Require Import String Ascii.

Definition vlit (s : string) : str := map N_of_ascii (list_ascii_of_string s).
Arguments vlit s%string_scope.

(* strings.Join *)
Fixpoint join_with (sep : str) (l : list str) : str :=
  match l with
  | [] => []
  | [s] => s
  | s :: t => s ++ sep ++ join_with sep t
  end.

Definition s_tab : str := [9]%N.
Definition s_nl : str := [10]%N.

(* one line of DataFrame.String: the cells of row i in ColumnNames order, "<error>" where a column is short *)
Definition string_row (O : oracles) (f : frame) (i : nat) : str :=
  join_with s_tab
    (map (fun k => match fget f k with
                   | Some c => match nth_opt (cdata c) i with
                               | Some v => render O v
                               | None => vlit "<error>"
                               end
                   | None => vlit "<error>"
                   end) (fkeys f)) ++ s_nl.

Definition string_shown (f : frame) : nat := Nat.min 10 (nrows f).

(* DataFrame.String: a title line, the sorted column names, at most ten rows, "..." when rows were left out *)
Definition op_string (O : oracles) (f : frame) : str :=
  if Nat.eqb (nrows f) 0 then vlit "Empty DataFrame" else
  vlit "DataFrame (" ++ dec_Z (Z.of_nat (nrows f)) ++ vlit " rows x " ++ dec_Z (Z.of_nat (ncols f))
    ++ vlit " columns)" ++ s_nl
    ++ join_with s_tab (fkeys f) ++ s_nl
    ++ List.concat (map (string_row O f) (seq 0 (string_shown f)))
    ++ (if Nat.ltb (string_shown f) (nrows f) then vlit "..." ++ s_nl else []).

(* Select: the live column under that key, or an error *)
Definition op_select (f : frame) (name : str) : out (str * list cell) :=
  match fget f name with
  | Some c => Ok (cname c, cdata c)
  | None => Err
  end.

(* Select then Column.At(i): the cell, an error when the index is out of range *)
Definition op_colat (f : frame) (name : str) (i : Z) : out (str * list cell) :=
  match fget f name with
  | None => Err
  | Some c => match zidx (cdata c) i with
              | Some v => Ok (cname c, [v])
              | None => Err
              end
  end.

(* NewSeries(col.Name, col.Data): Len and At(i); At is nil (no error) out of range *)
Definition op_series (f : frame) (name : str) (i : Z) : out (str * list cell) :=
  match fget f name with
  | None => Err
  | Some c => Ok (cname c, [CI KInt (Z.of_nat (List.length (cdata c)));
                             match zidx (cdata c) i with Some v => v | None => CNil end])
  end.

(* LinePlot / BarPlot: every plotted cell must be a float64; LinePlot reads y[i] for every index of x *)
Definition is_f64 (c : cell) : bool := match c with CF KF64 _ => true | _ => false end.
Fixpoint plot_scan2 (xs ys : list cell) : out unit :=
  match xs with
  | [] => Ok tt
  | x :: xs' =>
    match ys with
    | [] => Panic
    | y :: ys' => if is_f64 x && is_f64 y then plot_scan2 xs' ys' else Err
    end
  end.
Definition plot_scan1 (xs : list cell) : out unit := if forallb is_f64 xs then Ok tt else Err.
(* bar: BarPlot(x, file) else LinePlot(x, y, file); path_ok: os.Create succeeds; render_ok: the chart library
   renders these numbers without an error.  Both bits are measured outside the library, per call. *)
Definition op_plot (bar : bool) (f : frame) (x y : str) (path_ok render_ok : bool) : out unit :=
  let scan := if bar
              then match fget f x with Some cx => plot_scan1 (cdata cx) | None => Err end
              else match fget f x, fget f y with
                   | Some cx, Some cy => plot_scan2 (cdata cx) (cdata cy)
                   | _, _ => Err
                   end in
  bind scan (fun _ => if path_ok && render_ok then Ok tt else Err).

(* Groupby(key) where key is not a string or []string: a Series, map[string]string or func value is accepted
   and yields no groups at all; any other type is reported through Error() *)
Definition op_groupby_other (accepted : bool) : out groups := if accepted then Ok [] else Err.
