(* Proof_C02b.v - property C02, the bridge between the two models: a history over the L1
   operation type `op` (Step.v, the model that is run against the Go code) is compiled to a
   history over the slice-level operation type `l2op` (Heap.v); running the compiled
   history on a separated slice-level state and abstracting gives exactly the pool the
   L1 run computes.  Hence the separation / non-interference results of Proof_C02.v hold
   for L1 histories.

   compile, by constructor (an operation whose L1 call fails compiles to []):
     Head                        L2Head i (clamp_count f n)
     Tail                        L2Tail i (clamp_count f n)        (ragged frame: L2DerivePool)
     SortValues                  L2Sort i (pick . perm)            (ragged frame: L2DeriveFresh)
     RowSlice Filter Shift
     DropDuplicates              L2DeriveFresh i g,  g a function of the same column
     Loc Iloc MultiSelect joins
     Add Apply Describe Resample
     grouped aggregates FromCSV
     CSV round trip              L2DerivePool (fun _ => erase <the L1 result>)
     observations (7)            []
     FillNa DropRow              L2FillNa, L2DropRow
     AppendRow                   L2AppendRow, when every key of the row is a column
     SetCell                     L2SetCell                         (keys of the frame sorted)
     Astype AddDatetimeIndex     L2ReplaceCol i cn g               (keys of the frame sorted)
     DropNa, in-place
     DropDuplicates              one L2ReplaceCol i k g per column (keys of the frame sorted)
     Rename AddColumn DropColumn,
     AppendRow with a new key    NOT COVERED when the call succeeds (Heap.v has no operation
                                 that changes the column set of a live frame)
   Main results: compile_sound, C02_step_refines, C02_histories_refine,
   C02_l1_no_interference(_born), C02_l1_run, compiles_spec, coverage_wf,
   coverage_histories_wf. *)
From GF Require Import Ops Lemmas Heap Step Proof_C02 Proof_C01.
From Coq Require Import Lia Permutation.
Local Open Scope nat_scope.

(* ====================================================================== *)
(* 1. the abstraction between the two state types                          *)
(* ====================================================================== *)
(* an L1 frame maps a key to (Name, Data); the L2 abstraction maps a key to Data *)
Definition erase (f : frame) : aframe := map (fun kc => (fst kc, cdata (snd kc))) f.
Definition erase_pool (p : pool) : apool := map erase p.

Lemma erase_aframe_of f : erase f = aframe_of f.
Proof. reflexivity. Qed.
Lemma erase_rekey G f : erase (rekey_cols G f) = amap (fun _ => G) (erase f).
Proof. unfold erase, amap, rekey_cols. rewrite !map_map. reflexivity. Qed.
Lemma erase_map_cols G f : erase (map_cols G f) = amap (fun _ => G) (erase f).
Proof. unfold erase, amap, map_cols. rewrite !map_map. reflexivity. Qed.
Lemma erase_keys f : map fst (erase f) = fkeys f.
Proof. unfold erase, fkeys. rewrite map_map. reflexivity. Qed.
Lemma erase_pool_nth p i : nth_opt (erase_pool p) i = option_map erase (nth_opt p i).
Proof. apply nth_opt_map. Qed.
Lemma erase_pool_app p q : erase_pool (p ++ q) = erase_pool p ++ erase_pool q.
Proof. apply map_app. Qed.
Lemma erase_pool_length p : length (erase_pool p) = length p.
Proof. apply map_length. Qed.

Lemma amap_ext_in (g g' : str -> list cell -> list cell) af :
  (forall k c, In (k, c) af -> g k c = g' k c) -> amap g af = amap g' af.
Proof.
  intros H. unfold amap. apply map_ext_in. intros [k c] Hin. cbn [fst snd]. f_equal. now apply H.
Qed.
Lemma amap_amap g2 g1 af : amap g2 (amap g1 af) = amap (fun k c => g2 k (g1 k c)) af.
Proof. unfold amap. rewrite map_map. reflexivity. Qed.
Lemma in_erase k c f : In (k, c) (erase f) -> exists nm, In (k, (nm, c)) f.
Proof.
  unfold erase. intros H. apply in_map_iff in H as ([k' [nm d]] & E & Hin). cbn in E.
  injection E as <- <-. now exists nm.
Qed.

(* a derivation / an edit of the pool, seen through erase *)
Lemma derive_sound p i f g (G : str -> list cell -> list cell) :
  nth_opt p i = Some f -> erase g = amap G (erase f) ->
  a_derive G i (erase_pool p) = erase_pool (p ++ [g]).
Proof.
  intros Hf Hg. unfold a_derive. rewrite erase_pool_nth, Hf. cbn [option_map].
  rewrite erase_pool_app. cbn [erase_pool map]. now rewrite Hg.
Qed.
Lemma edit_sound p i f g (G : str -> list cell -> list cell) :
  nth_opt p i = Some f -> erase g = amap G (erase f) ->
  a_edit G i (erase_pool p) = erase_pool (set_nth p i g).
Proof.
  intros Hf Hg. unfold a_edit. rewrite erase_pool_nth, Hf. cbn [option_map].
  rewrite <- Hg. apply set_nth_map.
Qed.

(* ====================================================================== *)
(* 2. the column functions of the deriving / replacing operations          *)
(* ====================================================================== *)
Definition rowslice_fn (f : frame) (a b : Z) : list cell -> list cell :=
  let a' := Z.max a 0 in
  let b' := Z.min b (Z.of_nat (nrows f)) in
  if (b' <=? a')%Z then (fun _ => [])
  else (fun d => pick d (valid_rows f (seq (Z.to_nat a') (Z.to_nat (b' - a'))))).
Lemma rowslice_fn_ok f a b : op_rowslice f a b = rekey_cols (rowslice_fn f a b) f.
Proof.
  unfold op_rowslice, rowslice_fn. cbv zeta.
  destruct (Z.min b (Z.of_nat (nrows f)) <=? Z.max a 0)%Z; reflexivity.
Qed.

Definition sort_perm (O : oracles) (f : frame) (by_ : list str) (asc : bool) : list nat :=
  isort (less O f by_ asc) (seq 0 (nrows f)).

Definition dropna_fn (f : frame) : list cell -> list cell :=
  match all_some (map (frow f) (seq 0 (nrows f))) with
  | Some rs =>
    fun d => pick d (map fst (filter (fun ir => negb (existsb (fun kv => is_nil (snd kv)) (snd ir)))
                                     (combine (seq 0 (nrows f)) rs)))
  | None => fun d => d
  end.
Lemma dropna_fn_ok f g : op_dropna f = Ok g -> g = map_cols (dropna_fn f) f.
Proof.
  unfold op_dropna, dropna_fn. destruct (all_some _); [|discriminate]. now intros [= <-].
Qed.

Definition dedup_fn (f : frame) (has_opt : bool) (subset : list str) (keep : str)
  : list cell -> list cell :=
  match dedup_idx f has_opt subset keep with
  | Ok idxs => fun d => pick d idxs
  | _ => fun d => d
  end.
Lemma dedup_fn_ok f h s k g : op_dedup f h s k = Ok g -> g = rekey_cols (dedup_fn f h s k) f.
Proof.
  unfold op_dedup, dedup_fn. destruct (dedup_idx f h s k); cbn [bind]; try discriminate.
  now intros [= <-].
Qed.
Lemma dedup_inplace_fn_ok f s k g :
  op_dedup_inplace f s k = Ok g -> g = map_cols (dedup_fn f true s k) f.
Proof.
  unfold op_dedup_inplace, dedup_fn. destruct (dedup_idx f true s k); cbn [bind]; try discriminate.
  now intros [= <-].
Qed.

Definition astype_fn (O : oracles) (ty : str) : list cell -> list cell :=
  fun d => match out_all (map (astype_cell O ty) d) with Ok d' => d' | _ => d end.
Definition datetime_cell (O : oracles) (layout : str) (v : cell) : out cell :=
  match v with
  | CS s => match tparse O layout s with Some t => Ok (CT t) | None => Err end
  | _ => Err
  end.
Definition datetime_fn (O : oracles) (layout : str) : list cell -> list cell :=
  fun d => match out_all (map (datetime_cell O layout) d) with Ok d' => d' | _ => d end.

(* ====================================================================== *)
(* 3. compile                                                              *)
(* ====================================================================== *)
Definition is_ok {A} (r : out A) : bool := match r with Ok _ => true | _ => false end.
(* the operations run only when the L1 call succeeds *)
Definition if_ok {A} (r : out A) (l : list l2op) : list l2op := if is_ok r then l else [].
Definition on_frame {B} (p : pool) (i : nat) (dflt : B) (k : frame -> B) : B :=
  match nth_opt p i with Some f => k f | None => dflt end.
(* the general copying derivation: the new frame, whatever it is, on fresh arrays *)
Definition generic (r : out frame) : list l2op :=
  match r with Ok g => [L2DerivePool (fun _ => erase g)] | _ => [] end.
(* col.Data = fresh slice holding G (old data), for every column of the frame *)
Definition replace_all (i : nat) (f : frame) (G : list cell -> list cell) : list l2op :=
  map (fun k => L2ReplaceCol i k G) (fkeys f).
Definition guard (b : bool) (l : list l2op) : option (list l2op) := if b then Some l else None.

Definition compile (O : oracles) (p : pool) (o : op) : option (list l2op) :=
  match o with
  (* derivations with a slice-level transcription of their own *)
  | OHead i n =>
    Some (on_frame p i [] (fun f => if_ok (op_head f n) [L2Head i (clamp_count f n)]))
  | OTail i n =>
    Some (on_frame p i [] (fun f =>
      if rect f then if_ok (op_tail f n) [L2Tail i (clamp_count f n)] else generic (op_tail f n)))
  | ORowSlice i a b => Some (on_frame p i [] (fun f => [L2DeriveFresh i (rowslice_fn f a b)]))
  | OFilter i keep =>
    Some (on_frame p i [] (fun f => [L2DeriveFresh i (fun d => pick d (filter_idx f keep))]))
  | OSort i by_ asc =>
    Some (on_frame p i [] (fun f =>
      let a := match asc with Some b => b | None => true end in
      if_ok (op_sort O f by_ a)
        [if rect f then L2Sort i (fun d => pick d (sort_perm O f by_ a))
         else L2DeriveFresh i (fun d => pick d (sort_perm O f by_ a))]))
  | OShift i n => Some (on_frame p i [] (fun f => [L2DeriveFresh i (shift_col n)]))
  | ODedup i h s k =>
    Some (on_frame p i [] (fun f => if_ok (op_dedup f h s k) [L2DeriveFresh i (dedup_fn f h s k)]))
  (* derivations whose result has other columns, or two sources: the general copying one *)
  | OLoc i labels cols => Some (generic (with_frame p i (fun f => op_loc f labels cols)))
  | OIloc i rws cls => Some (generic (with_frame p i (fun f => op_iloc f rws cls)))
  | OMultiSelect i names => Some (generic (with_frame p i (fun f => op_multiselect f names)))
  | OJoin k i j key =>
    Some (generic (with_frame p i (fun f => with_frame p j (fun g => op_join k f g key))))
  | OAdd i j fill =>
    Some (generic (with_frame p i (fun f => with_frame p j (fun g => op_add O f g fill))))
  | OApply i fn axis => Some (generic (with_frame p i (fun f => op_apply fn f axis)))
  | ODescribe i => Some (generic (with_frame p i (fun f => Ok (op_describe O f))))
  | OResample i tcol freq agg => Some (generic (with_frame p i (fun f => op_resample f tcol freq agg)))
  | OGroupAgg i gk a cols => Some (generic (with_frame p i (fun f => op_group_agg O f gk a cols)))
  | OFromCSV b => Some (generic (op_from_csv O b))
  | OCsvRoundTrip i =>
    Some (generic (with_frame p i (fun f => do b <- op_to_csv O f; op_from_csv O b)))
  (* observations: no slice is written *)
  | OGroupby _ _ | OToCSV _ | ORow _ _ | OColumnNames _ | ONrows _ | ONcols _ | OAgg _ _ | OString _ | OSelect _ _ | OColAt _ _ _ | OSeries _ _ _
  | OPlot _ _ _ _ _ _ | OGroupbyOther _ _ | OIoFail _ _ => Some []
  (* edits in place *)
  | OAppendRow i r =>
    on_frame p i (Some []) (fun f =>
      guard (forallb (fun kv => fhas f (fst kv)) r) [L2AppendRow i r])
  | ODropRow i n =>
    Some (on_frame p i [] (fun f => if_ok (op_droprow f n) [L2DropRow i (Z.to_nat n)]))
  | OFillNa i v => Some (on_frame p i [] (fun f => [L2FillNa i v]))
  | OSetCell i cn n v =>
    on_frame p i (Some []) (fun f =>
      if is_ok (op_setcell f cn n v)
      then guard (sorted_keys (fkeys f)) [L2SetCell i cn (Z.to_nat n) v] else Some [])
  | ODropNa i =>
    on_frame p i (Some []) (fun f =>
      if is_ok (op_dropna f)
      then guard (sorted_keys (fkeys f)) (replace_all i f (dropna_fn f)) else Some [])
  | ODedupInplace i s k =>
    on_frame p i (Some []) (fun f =>
      if is_ok (op_dedup_inplace f s k)
      then guard (sorted_keys (fkeys f)) (replace_all i f (dedup_fn f true s k)) else Some [])
  | OAstype i cn ty =>
    on_frame p i (Some []) (fun f =>
      if is_ok (op_astype O f cn ty)
      then guard (sorted_keys (fkeys f)) [L2ReplaceCol i cn (astype_fn O ty)] else Some [])
  | ODatetime i cn layout =>
    on_frame p i (Some []) (fun f =>
      if is_ok (op_datetime O f cn layout)
      then guard (sorted_keys (fkeys f)) [L2ReplaceCol i cn (datetime_fn O layout)] else Some [])
  (* edits of the column SET: the slice-level language has no operation for them; a failing
     call changes nothing *)
  | ORename i a b => on_frame p i (Some []) (fun f => if is_ok (op_rename f a b) then None else Some [])
  | OAddColumn i n d => on_frame p i (Some []) (fun f => if is_ok (op_addcolumn f n d) then None else Some [])
  | ODropColumn i n => on_frame p i (Some []) (fun f => if is_ok (op_dropcolumn f n) then None else Some [])
  end.

(* ====================================================================== *)
(* 4. soundness of compile at the level of contents                        *)
(* ====================================================================== *)
Lemma set_nth_same {A} (l : list A) : forall i x, nth_opt l i = Some x -> set_nth l i x = l.
Proof.
  induction l as [|y t IH]; intros [|i] x H; cbn in *; try discriminate.
  - now injection H as ->.
  - now rewrite IH.
Qed.
Lemma set_nth_set_nth {A} (l : list A) : forall i x y, set_nth (set_nth l i x) i y = set_nth l i y.
Proof. induction l as [|z t IH]; intros [|i] x y; cbn; auto. now rewrite IH. Qed.
Lemma amap_id af : amap (fun _ c => c) af = af.
Proof. unfold amap. apply map_pair_id. Qed.

Lemma sorted_nodup l : sorted_keys l = true -> NoDup l.
Proof.
  induction l as [|a l IH]; intros H; constructor.
  - intros Hin. pose proof (sorted_head_lt l a H a Hin) as L. rewrite str_ltb_irrefl in L. discriminate.
  - apply IH. eapply sorted_tail; eauto.
Qed.
Lemma existsb_str_in k l : In k l -> existsb (str_eqb k) l = true.
Proof. intros H. apply existsb_exists. exists k. split; [exact H|apply str_eqb_refl]. Qed.
Lemma existsb_str_notin k l : ~ In k l -> existsb (str_eqb k) l = false.
Proof.
  intros H. destruct (existsb (str_eqb k) l) eqn:E; [|reflexivity]. exfalso. apply H.
  apply existsb_exists in E as (x & Hx & Ex). apply str_eqb_eq in Ex. now subst.
Qed.

(* ReplaceCol once per key, keys distinct: every named column is replaced exactly once *)
Lemma replace_fold i G : forall ks P af, NoDup ks -> nth_opt P i = Some af ->
  fold_left a_step (map (fun k => L2ReplaceCol i k G) ks) P
  = set_nth P i (amap (fun k c => if existsb (str_eqb k) ks then G c else c) af).
Proof.
  induction ks as [|k t IH]; intros P af N H; cbn [map fold_left].
  - cbn [existsb]. rewrite amap_id. symmetry. now apply set_nth_same.
  - inversion N as [|? ? Hk Ht]; subst. cbn [a_step]. unfold a_edit at 1. rewrite H.
    pose proof (nth_opt_some_lt _ _ _ H) as Hlt.
    rewrite (IH _ (amap (fun k' c => if str_eqb k k' then G c else c) af) Ht)
      by (now apply nth_opt_set_nth_eq).
    rewrite set_nth_set_nth, amap_amap. f_equal. apply amap_ext_in. intros k' c _.
    cbn [existsb]. rewrite (str_eqb_sym k' k). destruct (str_eqb k k') eqn:E; cbn [orb]; [|reflexivity].
    apply str_eqb_eq in E. subst k'. now rewrite (existsb_str_notin k t Hk).
Qed.
Lemma replace_all_sound (p : pool) i (f : frame) G : sorted_keys (fkeys f) = true -> nth_opt p i = Some f ->
  fold_left a_step (replace_all i f G) (erase_pool p) = erase_pool (set_nth p i (map_cols G f)).
Proof.
  intros S Hf. unfold replace_all.
  rewrite (replace_fold i G (fkeys f) (erase_pool p) (erase f)).
  - unfold erase_pool. rewrite <- set_nth_map. f_equal. rewrite erase_map_cols.
    apply amap_ext_in. intros k c Hin. rewrite existsb_str_in; [reflexivity|].
    rewrite <- erase_keys. apply (in_map fst _ _ Hin).
  - now apply sorted_nodup.
  - rewrite erase_pool_nth, Hf. reflexivity.
Qed.

Lemma generic_sound p r :
  fold_left a_step (generic r) (erase_pool p) = erase_pool (snd (derive p r)).
Proof.
  destruct r as [g| |]; cbn [generic fold_left a_step derive snd]; [|reflexivity|reflexivity].
  now rewrite erase_pool_app.
Qed.

Lemma rect_len f k c : rect f = true -> In (k, c) (erase f) -> length c = nrows f.
Proof.
  intros R Hin. destruct (in_erase k c f Hin) as (nm & Hf).
  unfold rect in R. rewrite forallb_forall in R. specialize (R _ Hf). cbn in R.
  now apply Nat.eqb_eq in R.
Qed.

Definition sound (O : oracles) (p : pool) (o : op) : Prop :=
  forall ops, compile O p o = Some ops ->
    fold_left a_step ops (erase_pool p) = erase_pool (snd (step O p o)).

Ltac start i f Hf :=
  unfold sound; cbn [compile step]; unfold on_frame, with_frame;
  destruct (nth_opt _ i) as [f|] eqn:Hf; [|intros ? [= <-]; reflexivity].

Lemma cs_head O p i n : sound O p (OHead i n).
Proof.
  start i f Hf. intros ops [= <-]. unfold if_ok.
  destruct (op_head f n) as [g| |] eqn:E; cbn [is_ok fold_left derive snd a_step]; try reflexivity.
  apply (derive_sound p i f g _ Hf). exact (l1_head f n g E).
Qed.
Lemma cs_tail O p i n : sound O p (OTail i n).
Proof.
  start i f Hf. intros ops [= <-]. destruct (rect f) eqn:R; [|apply generic_sound].
  unfold if_ok.
  destruct (op_tail f n) as [g| |] eqn:E; cbn [is_ok fold_left derive snd a_step]; try reflexivity.
  apply (derive_sound p i f g _ Hf). rewrite erase_aframe_of, (l1_tail f n g E).
  apply amap_ext_in. intros k c Hin. now rewrite (rect_len f k c R Hin).
Qed.
Lemma cs_rowslice O p i a b : sound O p (ORowSlice i a b).
Proof.
  start i f Hf. intros ops [= <-]. cbn [fold_left derive snd a_step].
  apply (derive_sound p i f _ _ Hf). rewrite rowslice_fn_ok. apply erase_rekey.
Qed.
Lemma cs_filter O p i keep : sound O p (OFilter i keep).
Proof.
  unfold sound; cbn [compile step]; unfold on_frame.
  destruct (nth_opt p i) as [f|] eqn:Hf; [|intros ? [= <-]; reflexivity].
  intros ops [= <-]. cbn [fold_left snd a_step].
  apply (derive_sound p i f _ _ Hf). unfold op_filter. cbn [fst]. apply erase_rekey.
Qed.
Lemma insert_by_perm lt x l : Permutation (insert_by lt x l) (x :: l).
Proof.
  induction l as [|y t IH]; cbn [insert_by]; [reflexivity|].
  destruct (lt x y); [reflexivity|]. rewrite IH. apply perm_swap.
Qed.
Lemma isort_perm lt l : Permutation (isort lt l) l.
Proof.
  induction l as [|y t IH]; cbn [isort fold_right]; [constructor|]. fold (isort lt t).
  rewrite insert_by_perm. now constructor.
Qed.
Lemma pick_length (d : list cell) idxs :
  Forall (fun i => i < length d) idxs -> length (pick d idxs) = length idxs.
Proof.
  induction idxs as [|i t IH]; intros H; [reflexivity|].
  inversion H as [|? ? Hi Ht]; subst. unfold pick. cbn [flat_map]. fold (pick d t).
  rewrite (nth_opt_nth d i CNil Hi). cbn [app length]. now rewrite IH.
Qed.
(* SortValues permutes: on a column as long as the frame, copy-then-overwrite = pick *)
Lemma sort_overwrite O f by_ a (c : list cell) : length c = nrows f ->
  overwrite c (pick c (sort_perm O f by_ a)) = pick c (sort_perm O f by_ a).
Proof.
  intros Hl. apply overwrite_same_length. unfold sort_perm. rewrite pick_length.
  - rewrite (Permutation_length (isort_perm _ _)), seq_length. now symmetry.
  - apply Forall_forall. intros x Hx. apply (Permutation_in _ (isort_perm _ _)) in Hx.
    apply in_seq in Hx. lia.
Qed.
Lemma cs_sort O p i by_ asc : sound O p (OSort i by_ asc).
Proof.
  start i f Hf. intros ops [= <-]. cbv zeta. unfold if_ok.
  set (a := match asc with Some b => b | None => true end).
  destruct (op_sort O f by_ a) as [g| |] eqn:E; cbn [is_ok fold_left derive snd]; try reflexivity.
  unfold op_sort in E. destruct (negb (forallb (fhas f) by_)); [discriminate|]. injection E as <-.
  fold (sort_perm O f by_ a).
  destruct (rect f) eqn:R; cbn [a_step]; apply (derive_sound p i f _ _ Hf); rewrite erase_map_cols;
    [|reflexivity].
  apply amap_ext_in. intros k c Hin. symmetry. apply sort_overwrite. now apply (rect_len f k c R).
Qed.
Lemma cs_shift O p i n : sound O p (OShift i n).
Proof.
  start i f Hf. intros ops [= <-]. cbn [fold_left derive snd a_step].
  apply (derive_sound p i f _ _ Hf). apply erase_rekey.
Qed.
Lemma cs_dedup O p i h s k : sound O p (ODedup i h s k).
Proof.
  start i f Hf. intros ops [= <-]. unfold if_ok.
  destruct (op_dedup f h s k) as [g| |] eqn:E; cbn [is_ok fold_left derive snd a_step]; try reflexivity.
  apply (derive_sound p i f g _ Hf). rewrite (dedup_fn_ok f h s k g E). apply erase_rekey.
Qed.

Lemma cs_append_row O p i r : sound O p (OAppendRow i r).
Proof.
  start i f Hf. unfold guard. destruct (forallb _ r) eqn:B; [|discriminate]. intros ops [= <-].
  cbn [fold_left edit snd a_step]. apply (edit_sound p i f _ _ Hf). exact (l1_append_row f r B).
Qed.
Lemma cs_droprow O p i n : sound O p (ODropRow i n).
Proof.
  start i f Hf. intros ops [= <-]. unfold if_ok.
  destruct (op_droprow f n) as [g| |] eqn:E; cbn [is_ok fold_left edit snd a_step]; try reflexivity.
  apply (edit_sound p i f g _ Hf). exact (l1_droprow f n g E).
Qed.
Lemma cs_fillna O p i v : sound O p (OFillNa i v).
Proof.
  start i f Hf. intros ops [= <-]. cbn [fold_left edit snd a_step].
  apply (edit_sound p i f _ _ Hf). exact (l1_fillna f v).
Qed.
Lemma cs_setcell O p i cn n v : sound O p (OSetCell i cn n v).
Proof.
  start i f Hf.
  destruct (op_setcell f cn n v) as [g| |] eqn:E; cbn [is_ok]; try (intros ? [= <-]; reflexivity).
  unfold guard. destruct (sorted_keys (fkeys f)) eqn:S; [|discriminate]. intros ops [= <-].
  cbn [fold_left edit snd a_step]. apply (edit_sound p i f g _ Hf). exact (l1_setcell f cn n v g S E).
Qed.
Lemma cs_dropna O p i : sound O p (ODropNa i).
Proof.
  start i f Hf.
  destruct (op_dropna f) as [g| |] eqn:E; cbn [is_ok]; try (intros ? [= <-]; reflexivity).
  unfold guard. destruct (sorted_keys (fkeys f)) eqn:S; [|discriminate]. intros ops [= <-].
  cbn [edit snd]. rewrite (dropna_fn_ok f g E). now apply replace_all_sound.
Qed.
Lemma cs_dedup_inplace O p i s k : sound O p (ODedupInplace i s k).
Proof.
  start i f Hf.
  destruct (op_dedup_inplace f s k) as [g| |] eqn:E; cbn [is_ok]; try (intros ? [= <-]; reflexivity).
  unfold guard. destruct (sorted_keys (fkeys f)) eqn:S; [|discriminate]. intros ops [= <-].
  cbn [edit snd]. rewrite (dedup_inplace_fn_ok f s k g E). now apply replace_all_sound.
Qed.
Lemma cs_astype O p i cn ty : sound O p (OAstype i cn ty).
Proof.
  start i f Hf.
  destruct (op_astype O f cn ty) as [g| |] eqn:E; cbn [is_ok]; try (intros ? [= <-]; reflexivity).
  unfold guard. destruct (sorted_keys (fkeys f)) eqn:S; [|discriminate]. intros ops [= <-].
  cbn [fold_left edit snd a_step]. apply (edit_sound p i f g _ Hf).
  unfold op_astype in E. destruct (fget f cn) as [c|] eqn:Hc; [|discriminate].
  destruct (out_all (map (astype_cell O ty) (cdata c))) as [d| |] eqn:Hd; cbn [bind] in E; try discriminate.
  injection E as <-.
  replace d with (astype_fn O ty (cdata c)) by (unfold astype_fn; now rewrite Hd).
  exact (fset_present (astype_fn O ty) (cname c) cn f c S Hc).
Qed.
Lemma cs_datetime O p i cn layout : sound O p (ODatetime i cn layout).
Proof.
  start i f Hf.
  destruct (op_datetime O f cn layout) as [g| |] eqn:E; cbn [is_ok]; try (intros ? [= <-]; reflexivity).
  unfold guard. destruct (sorted_keys (fkeys f)) eqn:S; [|discriminate]. intros ops [= <-].
  cbn [fold_left edit snd a_step]. apply (edit_sound p i f g _ Hf).
  unfold op_datetime in E. destruct (fget f cn) as [c|] eqn:Hc; [|discriminate].
  fold (datetime_cell O layout) in E.
  destruct (out_all (map (datetime_cell O layout) (cdata c))) as [d| |] eqn:Hd; cbn [bind] in E; try discriminate.
  injection E as <-.
  replace d with (datetime_fn O layout (cdata c)) by (unfold datetime_fn; now rewrite Hd).
  exact (fset_present (datetime_fn O layout) (cname c) cn f c S Hc).
Qed.
Lemma cs_rename O p i a b : sound O p (ORename i a b).
Proof.
  start i f Hf. destruct (op_rename f a b) as [g| |] eqn:E; cbn [is_ok]; try discriminate;
    intros ? [= <-]; reflexivity.
Qed.
Lemma cs_addcolumn O p i n d : sound O p (OAddColumn i n d).
Proof.
  start i f Hf. destruct (op_addcolumn f n d) as [g| |] eqn:E; cbn [is_ok]; try discriminate;
    intros ? [= <-]; reflexivity.
Qed.
Lemma cs_dropcolumn O p i n : sound O p (ODropColumn i n).
Proof.
  start i f Hf. destruct (op_dropcolumn f n) as [g| |] eqn:E; cbn [is_ok]; try discriminate;
    intros ? [= <-]; reflexivity.
Qed.

Theorem compile_sound O p o : sound O p o.
Proof.
  destruct o;
    try (unfold sound; cbn [compile step]; intros ? [= <-]; apply generic_sound);
    try (unfold sound; cbn [compile step observe snd]; intros ? [= <-]; reflexivity).
  - apply cs_head.
  - apply cs_tail.
  - apply cs_rowslice.
  - apply cs_filter.
  - apply cs_sort.
  - apply cs_shift.
  - apply cs_dedup.
  - apply cs_append_row.
  - apply cs_droprow.
  - apply cs_fillna.
  - apply cs_dropna.
  - apply cs_astype.
  - apply cs_datetime.
  - apply cs_rename.
  - apply cs_addcolumn.
  - apply cs_dropcolumn.
  - apply cs_setcell.
  - apply cs_dedup_inplace.
Qed.

(* when the L1 call does not succeed, no slice-level operation is run *)
Lemma compile_fail_nil O p o ops :
  compile O p o = Some ops -> is_ok (fst (step O p o)) = false -> ops = [].
Proof.
  destruct o; cbn [compile step]; unfold on_frame, with_frame, if_ok, guard, observe;
    try (destruct (nth_opt p f) as [fr|] eqn:Hf);
    try (intros [= <-] _; reflexivity);
    try (intros H1 H2; cbn [derive edit fst is_ok] in H2; discriminate);
    intros H1 H2;
    match type of H2 with
    | context [derive _ ?r] => destruct r
    | context [edit _ _ ?r] => destruct r
    end; cbn [generic derive edit fst is_ok] in H1, H2; try discriminate;
    repeat match type of H1 with context [if ?b then _ else _] => destruct b end;
    try discriminate; injection H1 as <-; reflexivity.
Qed.

(* a failing L1 call leaves the pool as it was *)
Lemma step_fail_pool O p o : is_ok (fst (step O p o)) = false -> snd (step O p o) = p.
Proof.
  destruct o; cbn [step]; unfold observe; try reflexivity;
    try (match goal with
         | |- context [derive p ?r] => destruct r
         | |- context [edit p ?i ?r] => destruct r
         end; cbn [derive edit fst snd is_ok]; intros H; try reflexivity; discriminate).
  destruct (nth_opt p f); cbn [fst snd is_ok]; intros H; try reflexivity; discriminate.
Qed.

(* ---------- which live frame an L1 operation edits ---------- *)
Definition op_target (o : op) : option nat :=
  match o with
  | OAppendRow i _ | ODropRow i _ | OFillNa i _ | ODropNa i | OAstype i _ _ | ODatetime i _ _
  | ORename i _ _ | OAddColumn i _ _ | ODropColumn i _ | OSetCell i _ _ _ | ODedupInplace i _ _ => Some i
  | _ => None
  end.

Lemma generic_targets r : Forall (fun l => edit_target l = None) (generic r).
Proof. destruct r; cbn [generic]; repeat constructor. Qed.

(* the compiled operations edit no live frame but the target of the L1 operation *)
Lemma compile_targets O p o ops : compile O p o = Some ops ->
  Forall (fun l => forall t, edit_target l = Some t -> op_target o = Some t) ops.
Proof.
  destruct o; cbn [compile op_target];
    try (intros [= <-]; eapply Forall_impl; [|apply generic_targets]; cbn beta;
         intros l -> t; discriminate);
    unfold on_frame, if_ok, guard, replace_all;
    try (destruct (nth_opt p f) as [fr|] eqn:Hf);
    try (solve [intros [= <-]; constructor]);
    intros H;
    repeat match type of H with context [if ?b then _ else _] => destruct b end;
    try discriminate; injection H as <-;
    try (eapply Forall_impl; [|apply generic_targets]; cbn beta; intros l -> t; discriminate);
    try (repeat constructor; cbn [edit_target]; intros t; try discriminate; auto; fail);
    apply Forall_forall; intros l Hl; apply in_map_iff in Hl as (k & <- & _); cbn [edit_target]; auto.
Qed.

(* an L1 step leaves alone every live frame that is not its target, and never removes one *)
Lemma step_length O p o : length p <= length (snd (step O p o)).
Proof.
  destruct o; cbn [step]; unfold observe; cbn [snd]; try lia;
    try (match goal with
         | |- context [derive p ?r] => destruct r
         | |- context [edit p ?i ?r] => destruct r
         end; cbn [derive edit snd]; rewrite ?app_length, ?set_nth_length; cbn [length]; lia).
  destruct (nth_opt p f); cbn [snd]; rewrite ?app_length; cbn [length]; lia.
Qed.
Lemma step_other O p o j : op_target o <> Some j -> j < length p ->
  nth_opt (snd (step O p o)) j = nth_opt p j.
Proof.
  intros Ht Hj. destruct o; cbn [step op_target] in *; unfold observe; cbn [snd]; try reflexivity;
    try (match goal with
         | |- context [derive p ?r] => destruct r
         | |- context [edit p ?i ?r] => destruct r
         end; cbn [derive edit snd]; try reflexivity;
         try (now apply nth_opt_app_l);
         apply nth_opt_set_nth_neq; congruence).
  destruct (nth_opt p f); cbn [snd]; [now apply nth_opt_app_l|reflexivity].
Qed.
Lemma run_other O os : forall p j, Forall (fun o => op_target o <> Some j) os -> j < length p ->
  nth_opt (run O p os) j = nth_opt p j.
Proof.
  induction os as [|o os IH]; intros p j Hall Hj; cbn [run fold_left]; [reflexivity|].
  inversion Hall as [|? ? Ho Hos]; subst. change (fold_left _ os ?q) with (run O q os).
  rewrite IH; auto.
  - now apply step_other.
  - pose proof (step_length O p o). lia.
Qed.

(* ---------- histories ---------- *)
Fixpoint compile_all (O : oracles) (p : pool) (os : list op) : option (list l2op) :=
  match os with
  | [] => Some []
  | o :: t =>
    match compile O p o with
    | None => None
    | Some a =>
      match compile_all O (snd (step O p o)) t with
      | None => None
      | Some b => Some (a ++ b)
      end
    end
  end.

Lemma compile_all_targets O os : forall p l2 j, compile_all O p os = Some l2 ->
  Forall (fun o => op_target o <> Some j) os ->
  Forall (fun l => edit_target l <> Some j) l2.
Proof.
  induction os as [|o os IH]; intros p l2 j H Hall; cbn [compile_all] in H.
  - injection H as <-. constructor.
  - destruct (compile O p o) as [a|] eqn:Ea; [|discriminate].
    destruct (compile_all O (snd (step O p o)) os) as [b|] eqn:Eb; [|discriminate].
    injection H as <-. inversion Hall as [|? ? Ho Hos]; subst. apply Forall_app. split.
    + eapply Forall_impl; [|exact (compile_targets O p o a Ea)]. cbn beta.
      intros l Hl E. apply Ho. now apply Hl.
    + eapply IH; eauto.
Qed.

Section Bridge.
Variable grow : nat -> nat -> nat.
Hypothesis grow_ge : forall c n, n <= grow c n.

(* ---------- C02_step_refines ---------- *)
(* One L1 step against its slice-level transcription: from a separated slice-level state
   that shows the L1 pool, the compiled operations lead to a separated state that shows
   the pool after the L1 step.  A failing L1 call runs nothing and changes nothing. *)
Theorem C02_step_refines O p o ops st :
  Sep st -> erase_pool p = abs_state st -> compile O p o = Some ops ->
  abs_state (fold_left (l2_step grow) ops st) = erase_pool (snd (step O p o)) /\
  Sep (fold_left (l2_step grow) ops st) /\
  (is_ok (fst (step O p o)) = false -> ops = [] /\ snd (step O p o) = p).
Proof.
  intros HS Hrel Hc. split; [|split].
  - rewrite (C02_refines_histories grow grow_ge ops st HS), <- Hrel. now apply compile_sound.
  - now apply C02_sep_histories.
  - intros Hf. split; [eapply compile_fail_nil; eauto|now apply step_fail_pool].
Qed.

(* ---------- C02_histories_refine ---------- *)
Theorem C02_histories_refine O os : forall p l2 st,
  Sep st -> erase_pool p = abs_state st -> compile_all O p os = Some l2 ->
  abs_state (fold_left (l2_step grow) l2 st) = erase_pool (run O p os) /\
  Sep (fold_left (l2_step grow) l2 st).
Proof.
  induction os as [|o os IH]; intros p l2 st HS Hrel Hc; cbn [compile_all] in Hc.
  - injection Hc as <-. cbn [fold_left run]. auto.
  - destruct (compile O p o) as [a|] eqn:Ea; [|discriminate].
    destruct (compile_all O (snd (step O p o)) os) as [b|] eqn:Eb; [|discriminate].
    injection Hc as <-. rewrite fold_left_app. cbn [run fold_left].
    change (fold_left _ os ?q) with (run O q os).
    destruct (C02_step_refines O p o a st HS Hrel Ea) as (A1 & A2 & _).
    apply (IH (snd (step O p o)) b _ A2); [now symmetry|exact Eb].
Qed.

(* every live frame of the slice-level state shows the L1 frame at the same position *)
Corollary C02_l1_frames_agree O os p l2 st j :
  Sep st -> erase_pool p = abs_state st -> compile_all O p os = Some l2 ->
  nth_opt (abs_state (fold_left (l2_step grow) l2 st)) j = option_map erase (nth_opt (run O p os) j).
Proof.
  intros HS Hrel Hc. destruct (C02_histories_refine O os p l2 st HS Hrel Hc) as (A & _).
  rewrite A. apply erase_pool_nth.
Qed.

(* ---------- C02_l1_no_interference ---------- *)
(* Property C02 for the transcription of the Go code: in an L1 history none of whose
   operations has frame j as its target - whatever is derived from frame j, and whatever is
   done to the frames so derived - the slice-level execution of the history leaves the
   arrays of frame j showing what they showed at the start; and so does the L1 run. *)
Corollary C02_l1_no_interference O os p l2 st j f :
  Sep st -> erase_pool p = abs_state st -> compile_all O p os = Some l2 ->
  nth_opt p j = Some f -> Forall (fun o => op_target o <> Some j) os ->
  nth_opt (abs_state (fold_left (l2_step grow) l2 st)) j = Some (erase f) /\
  nth_opt (run O p os) j = Some f.
Proof.
  intros HS Hrel Hc Hf Hall. split.
  - apply (C02_untouched grow grow_ge l2 st j (erase f) HS).
    + rewrite <- Hrel, erase_pool_nth, Hf. reflexivity.
    + eapply compile_all_targets; eauto.
  - rewrite run_other; auto. eapply nth_opt_some_lt; eauto.
Qed.
(* the same for a frame born in the middle of the history (e.g. the result of Head): what
   the later operations do to other frames - its source included - does not reach it *)
Corollary C02_l1_no_interference_born O os1 os2 p la lb st j f :
  Sep st -> erase_pool p = abs_state st ->
  compile_all O p os1 = Some la -> compile_all O (run O p os1) os2 = Some lb ->
  nth_opt (run O p os1) j = Some f -> Forall (fun o => op_target o <> Some j) os2 ->
  nth_opt (abs_state (fold_left (l2_step grow) (la ++ lb) st)) j = Some (erase f) /\
  nth_opt (run O p (os1 ++ os2)) j = Some f.
Proof.
  intros HS Hrel Ha Hb Hf Hall.
  destruct (C02_histories_refine O os1 p la st HS Hrel Ha) as (A1 & A2).
  rewrite fold_left_app. unfold run. rewrite fold_left_app. fold (run O p os1).
  change (fold_left _ os2 ?q) with (run O q os2).
  apply (C02_l1_no_interference O os2 (run O p os1) lb _ j f A2); auto.
Qed.

(* every L1 pool is shown by some separated slice-level state: one fresh array per column *)
Definition empty_st : l2state := {| hp := []; frames := [] |}.
Definition load (p : pool) : l2state :=
  fold_left (l2_step grow) (map (fun f => L2DerivePool (fun _ => erase f)) p) empty_st.
Lemma load_ok p : Sep (load p) /\ erase_pool p = abs_state (load p).
Proof.
  assert (E : Sep empty_st) by (split; constructor).
  split; [now apply C02_sep_histories|].
  unfold load. rewrite (C02_refines_histories grow grow_ge _ empty_st E).
  change (abs_state empty_st) with (@nil aframe).
  rewrite <- (app_nil_l (erase_pool p)) at 1. generalize (@nil aframe).
  induction p as [|f p IH]; intros P; cbn [map fold_left a_step erase_pool].
  - apply app_nil_r.
  - rewrite <- IH. unfold erase_pool. now rewrite <- app_assoc.
Qed.

(* so: for every L1 pool and every history all of whose operations compile, the slice-level
   run from the loaded pool is separated throughout and shows the L1 result *)
Corollary C02_l1_run O p os l2 : compile_all O p os = Some l2 ->
  abs_state (fold_left (l2_step grow) l2 (load p)) = erase_pool (run O p os) /\
  Sep (fold_left (l2_step grow) l2 (load p)).
Proof.
  intros Hc. destruct (load_ok p) as (S & R). now apply C02_histories_refine.
Qed.
End Bridge.

(* ====================================================================== *)
(* 5. coverage                                                             *)
(* ====================================================================== *)
Definition is_deriving (o : op) : bool :=
  match o with
  | OHead _ _ | OTail _ _ | ORowSlice _ _ _ | OFilter _ _ | OLoc _ _ _ | OIloc _ _ _
  | OMultiSelect _ _ | OSort _ _ _ | OShift _ _ | ODedup _ _ _ _ | OJoin _ _ _ _ | OAdd _ _ _
  | OApply _ _ _ | ODescribe _ | OResample _ _ _ _ | OGroupAgg _ _ _ _ | OFromCSV _
  | OCsvRoundTrip _ => true
  | _ => false
  end.
Definition is_observation (o : op) : bool :=
  match o with
  | OGroupby _ _ | OToCSV _ | ORow _ _ | OColumnNames _ | ONrows _ | ONcols _ | OAgg _ _ | OString _ | OSelect _ _ | OColAt _ _ _ | OSeries _ _ _
  | OPlot _ _ _ _ _ _ | OGroupbyOther _ _ | OIoFail _ _ => true
  | _ => false
  end.

(* exactly which (operation, state) pairs compile:
   - every deriving operation and every observation, in every state;
   - FillNa and DropRow, in every state;
   - AppendRow when every key of the row is a column of the frame (no column is created);
   - SetCell, DropNa, in-place DropDuplicates, Astype, AddDatetimeIndex when the call fails
     (nothing to do) or the keys of the frame are sorted (= unique; true of every
     well-formed frame);
   - Rename, AddColumn, DropColumn only when the call fails. *)
Definition compiles (O : oracles) (p : pool) (o : op) : bool :=
  match o with
  | OAppendRow i r => on_frame p i true (fun f => forallb (fun kv => fhas f (fst kv)) r)
  | OSetCell i cn n v =>
    on_frame p i true (fun f => negb (is_ok (op_setcell f cn n v)) || sorted_keys (fkeys f))
  | ODropNa i => on_frame p i true (fun f => negb (is_ok (op_dropna f)) || sorted_keys (fkeys f))
  | ODedupInplace i s k =>
    on_frame p i true (fun f => negb (is_ok (op_dedup_inplace f s k)) || sorted_keys (fkeys f))
  | OAstype i cn ty =>
    on_frame p i true (fun f => negb (is_ok (op_astype O f cn ty)) || sorted_keys (fkeys f))
  | ODatetime i cn layout =>
    on_frame p i true (fun f => negb (is_ok (op_datetime O f cn layout)) || sorted_keys (fkeys f))
  | ORename i a b => on_frame p i true (fun f => negb (is_ok (op_rename f a b)))
  | OAddColumn i n d => on_frame p i true (fun f => negb (is_ok (op_addcolumn f n d)))
  | ODropColumn i n => on_frame p i true (fun f => negb (is_ok (op_dropcolumn f n)))
  | _ => true
  end.

Theorem compiles_spec O p o : compiles O p o = true <-> exists ops, compile O p o = Some ops.
Proof.
  destruct o; cbn [compiles compile]; unfold on_frame, guard;
    try (split; [intros _; eexists; reflexivity|reflexivity]);
    (destruct (nth_opt p f) as [fr|]; [|split; [intros _; eexists; reflexivity|reflexivity]]);
    try (match goal with |- context [is_ok ?r] => destruct (is_ok r) end; cbn [negb orb]);
    try (match goal with |- context [if ?b then _ else _] => destruct b end);
    split; try (intros _; eexists; reflexivity); try reflexivity; try discriminate;
    intros (ops & H); discriminate.
Qed.

Theorem compiles_deriving O p o : is_deriving o = true -> compiles O p o = true.
Proof. destruct o; cbn; intros H; try reflexivity; discriminate. Qed.
Theorem compiles_observation O p o : is_observation o = true -> compiles O p o = true.
Proof. destruct o; cbn; intros H; try reflexivity; discriminate. Qed.
Theorem compiles_fillna_droprow O p i v n :
  compiles O p (OFillNa i v) = true /\ compiles O p (ODropRow i n) = true.
Proof. split; reflexivity. Qed.

(* the part that is NOT covered, on well-formed pools: a successful change of the column
   set of a live frame - AppendRow with a key that is not yet a column, Rename, AddColumn,
   DropColumn.  The slice-level language of Heap.v has no operation that adds, removes or
   renames a column of a live frame. *)
Definition uncovered (p : pool) (o : op) : bool :=
  match o with
  | OAppendRow i r => on_frame p i false (fun f => negb (forallb (fun kv => fhas f (fst kv)) r))
  | ORename i a b => on_frame p i false (fun f => is_ok (op_rename f a b))
  | OAddColumn i n d => on_frame p i false (fun f => is_ok (op_addcolumn f n d))
  | ODropColumn i n => on_frame p i false (fun f => is_ok (op_dropcolumn f n))
  | _ => false
  end.

Lemma wf_sorted f : wf_frame f = true -> sorted_keys (fkeys f) = true.
Proof. unfold wf_frame. intros H. now apply andb_prop in H as (_ & H). Qed.
Lemma wf_rect f : wf_frame f = true -> rect f = true.
Proof. unfold wf_frame. intros H. apply andb_prop in H as (H & _). now apply andb_prop in H as (H & _). Qed.

Theorem coverage_wf O p o : wf_pool p = true -> compiles O p o = negb (uncovered p o).
Proof.
  intros Hp. destruct o; cbn [compiles uncovered negb]; try reflexivity; unfold on_frame;
    (destruct (nth_opt p f) as [fr|] eqn:Hf; [|reflexivity]);
    try (rewrite (wf_sorted fr (wf_pool_nth p f fr Hp Hf)); apply orb_true_r);
    try (now rewrite negb_involutive); reflexivity.
Qed.

(* on well-formed pools the deriving operations with a slice-level transcription of their own
   use it (Tail falls back to the general copying derivation only on a ragged frame) *)
Lemma tail_specific_wf O p i n f : wf_pool p = true -> nth_opt p i = Some f ->
  compile O p (OTail i n) = Some (if_ok (op_tail f n) [L2Tail i (clamp_count f n)]).
Proof.
  intros Hp Hf. cbn [compile]. unfold on_frame. rewrite Hf.
  now rewrite (wf_rect f (wf_pool_nth p i f Hp Hf)).
Qed.

(* histories *)
Fixpoint compiles_all (O : oracles) (p : pool) (os : list op) : bool :=
  match os with
  | [] => true
  | o :: t => compiles O p o && compiles_all O (snd (step O p o)) t
  end.
Lemma compiles_all_spec O os : forall p,
  compiles_all O p os = true <-> exists l2, compile_all O p os = Some l2.
Proof.
  induction os as [|o os IH]; intros p; cbn [compiles_all compile_all].
  - split; [intros _; eexists; reflexivity|reflexivity].
  - rewrite andb_true_iff, compiles_spec, IH. split.
    + intros ((a & Ha) & (b & Hb)). rewrite Ha, Hb. eexists; reflexivity.
    + intros (l2 & H). destruct (compile O p o) as [a|]; [|discriminate].
      destruct (compile_all O (snd (step O p o)) os) as [b|]; [|discriminate].
      split; eexists; reflexivity.
Qed.
(* a history from a well-formed pool, with Proof_C01's premise on AddColumn's argument,
   compiles iff no operation is uncovered in the state it is applied to *)
Fixpoint uncovered_any (O : oracles) (p : pool) (os : list op) : bool :=
  match os with
  | [] => false
  | o :: t => uncovered p o || uncovered_any O (snd (step O p o)) t
  end.
Theorem coverage_histories_wf O os : forall p, wf_pool p = true -> run_ok O p os = true ->
  compiles_all O p os = negb (uncovered_any O p os).
Proof.
  induction os as [|o os IH]; intros p Hp Hok; cbn [compiles_all uncovered_any run_ok] in *;
    [reflexivity|].
  apply andb_prop in Hok as (H1 & H2).
  rewrite (coverage_wf O p o Hp), IH by (auto using step_wf). now rewrite negb_orb.
Qed.
Lemma sort_specific_wf O p i by_ asc f : wf_pool p = true -> nth_opt p i = Some f ->
  compile O p (OSort i by_ asc)
  = let a := match asc with Some b => b | None => true end in
    Some (if_ok (op_sort O f by_ a) [L2Sort i (fun d => pick d (sort_perm O f by_ a))]).
Proof.
  intros Hp Hf. cbn [compile]. unfold on_frame. rewrite Hf. cbv zeta.
  now rewrite (wf_rect f (wf_pool_nth p i f Hp Hf)).
Qed.

(* ====================================================================== *)
(* 6. the hypotheses are met: a concrete history                            *)
(* ====================================================================== *)
Definition O0 : oracles := {| o_pf := []; o_fmt := []; o_tparse := [] |}.
Definition key_c : str := [99%N].
Definition f0 : frame :=
  [(key_a, (key_a, [CI KInt 1; CNil; CI KInt 3])); (key_b, (key_b, [CS key_a; CB true; CNil]))].
(* 21 operations: derivations of both kinds, observations, every covered edit, two failing
   calls (Rename onto an existing name, AddDatetimeIndex on a non-string column) *)
Definition os0 : list op :=
  [OHead 0 2; OAppendRow 1 [(key_a, CI KInt 100)]; OTail 0 1; OFillNa 0 (CI KInt 9);
   OSetCell 1 key_a 0%Z (CB true); ODropRow 0 0%Z; OShift 1 1%Z; OFilter 0 [true; false];
   OSort 0 [key_a] None; OJoin JOuter 0 1 key_a; ODropNa 1; OAstype 0 key_a s_string;
   ODedup 0 false [] []; ODedupInplace 2 [] []; OGroupAgg 0 (GOne key_b) GCount [];
   ORowSlice 0 0%Z 1%Z; ONrows 0; ORename 0 key_a key_b; ODatetime 0 key_a [];
   OApply 1 1 None; OMultiSelect 0 [key_b]].

(* C02_step_refines: its hypotheses hold of a concrete state and operation, and both sides
   of its conclusion are the same concrete pool *)
Example ex_step_refines :
  let st := load grow_double [f0] in
  sepb st = true /\ erase_pool [f0] = abs_state st /\
  exists ops, compile O0 [f0] (OTail 0 2) = Some ops /\ length ops = 1 /\
    abs_state (fold_left (l2_step grow_double) ops st)
    = [[(key_a, [CI KInt 1; CNil; CI KInt 3]); (key_b, [CS key_a; CB true; CNil])];
       [(key_a, [CNil; CI KInt 3]); (key_b, [CB true; CNil])]] /\
    erase_pool (snd (step O0 [f0] (OTail 0 2)))
    = abs_state (fold_left (l2_step grow_double) ops st).
Proof.
  cbv zeta. split; [vm_compute; reflexivity|]. split; [vm_compute; reflexivity|].
  eexists. split; [vm_compute; reflexivity|].
  split; [vm_compute; reflexivity|]. split; vm_compute; reflexivity.
Qed.

(* C02_histories_refine / C02_l1_run: the history compiles (to 20 slice-level operations),
   the pool is well formed, and - computed, not deduced - the slice-level run is separated
   at the end and shows the 12 frames of the L1 run *)
Example ex_history_hyps :
  wf_pool [f0] = true /\ run_ok O0 [f0] os0 = true /\ compiles_all O0 [f0] os0 = true /\
  uncovered_any O0 [f0] os0 = false.
Proof. vm_compute. repeat split. Qed.
Lemma opt_map_some {A B} (g : A -> B) o v : option_map g o = Some v -> exists a, o = Some a /\ g a = v.
Proof. destruct o as [a|]; cbn; [intros [= <-]; eauto|discriminate]. Qed.
Lemma pair_eq {A B} (a a' : A) (b b' : B) : (a, b) = (a', b') -> a = a' /\ b = b'.
Proof. intros [= -> ->]. auto. Qed.
Example ex_history_run :
  exists l2, compile_all O0 [f0] os0 = Some l2 /\ length l2 = 20 /\
    sepb (fold_left (l2_step grow_double) l2 (load grow_double [f0])) = true /\
    abs_state (fold_left (l2_step grow_double) l2 (load grow_double [f0])) = erase_pool (run O0 [f0] os0) /\
    length (run O0 [f0] os0) = 12 /\
    nth_opt (erase_pool (run O0 [f0] os0)) 1 = Some [(key_a, [CB true]); (key_b, [CS key_a])].
Proof.
  assert (H : option_map (fun l2 => (length l2,
                sepb (fold_left (l2_step grow_double) l2 (load grow_double [f0])),
                abs_state (fold_left (l2_step grow_double) l2 (load grow_double [f0]))))
              (compile_all O0 [f0] os0)
              = Some (20, true, erase_pool (run O0 [f0] os0))) by (vm_compute; reflexivity).
  apply opt_map_some in H as (l2 & E & H). apply pair_eq in H as (H & H3). apply pair_eq in H as (H1 & H2).
  exists l2. split; [exact E|]. split; [exact H1|].
  split; [exact H2|]. split; [exact H3|]. split; vm_compute; reflexivity.
Qed.
Example ex_history_by_theorem :
  exists l2, compile_all O0 [f0] os0 = Some l2 /\
    Sep (fold_left (l2_step grow_double) l2 (load grow_double [f0])) /\
    abs_state (fold_left (l2_step grow_double) l2 (load grow_double [f0])) = erase_pool (run O0 [f0] os0).
Proof.
  destruct (proj1 (compiles_all_spec O0 os0 [f0])) as (l2 & H); [vm_compute; reflexivity|].
  exists l2. split; [exact H|].
  destruct (C02_l1_run grow_double grow_double_ge O0 [f0] os0 l2 H) as (A & B). now split.
Qed.

(* C02_l1_no_interference_born: frame 1 is the Head of frame 0; the operations after the
   first that do not name frame 1 as their target (all but AppendRow 1, SetCell 1, DropNa 1)
   include FillNa, DropRow, Astype on its SOURCE, frame 0, and derivations FROM frame 1.  Drop the
   three edits of frame 1: the slice-level run leaves the Head showing what it showed at birth *)
Definition os0_rest : list op := filter (fun o => match op_target o with Some 1 => false | _ => true end) (skipn 1 os0).
Example ex_no_interference :
  exists la lb, compile_all O0 [f0] (firstn 1 os0) = Some la /\
    compile_all O0 (run O0 [f0] (firstn 1 os0)) os0_rest = Some lb /\ length lb = 15 /\
    nth_opt (abs_state (fold_left (l2_step grow_double) (la ++ lb) (load grow_double [f0]))) 1
    = Some [(key_a, [CI KInt 1; CNil]); (key_b, [CS key_a; CB true])].
Proof.
  destruct (proj1 (compiles_all_spec O0 (firstn 1 os0) [f0])) as (la & Ha); [vm_compute; reflexivity|].
  destruct (proj1 (compiles_all_spec O0 os0_rest (run O0 [f0] (firstn 1 os0)))) as (lb & Hb);
    [vm_compute; reflexivity|].
  exists la, lb. split; [exact Ha|]. split; [exact Hb|]. split.
  - assert (L : option_map (@length l2op) (compile_all O0 (run O0 [f0] (firstn 1 os0)) os0_rest) = Some 15)
      by (vm_compute; reflexivity).
    apply opt_map_some in L as (l & E & L). rewrite Hb in E. now injection E as ->.
  - destruct (load_ok grow_double grow_double_ge [f0]) as (S & R).
    refine (proj1 (C02_l1_no_interference_born grow_double grow_double_ge O0 (firstn 1 os0) os0_rest
              [f0] la lb _ 1 (rekey_cols (firstn 2) f0) S R Ha Hb _ _)).
    + vm_compute. reflexivity.
    + unfold os0_rest. apply Forall_forall. intros o Ho. apply filter_In in Ho as (_ & Ho).
      intros E. rewrite E in Ho. discriminate.
Qed.

(* the uncovered part, concretely: AppendRow with a key that is not a column *)
Example ex_uncovered :
  compiles O0 [f0] (OAppendRow 0 [(key_c, CNil)]) = false /\
  compiles O0 [f0] (ORename 0 key_a key_c) = false /\
  compiles O0 [f0] (OAddColumn 0 key_c [CNil; CNil; CNil]) = false /\
  compiles O0 [f0] (ODropColumn 0 key_a) = false /\
  compiles O0 [f0] (ORename 0 key_a key_b) = true /\
  compiles O0 [f0] (ODropColumn 0 key_c) = true.
Proof. vm_compute. repeat split. Qed.

(* ====================================================================== *)
Print Assumptions compile_sound.
Print Assumptions C02_step_refines.
Print Assumptions C02_histories_refine.
Print Assumptions C02_l1_frames_agree.
Print Assumptions C02_l1_no_interference.
Print Assumptions C02_l1_no_interference_born.
Print Assumptions C02_l1_run.
Print Assumptions load_ok.
Print Assumptions compiles_spec.
Print Assumptions compiles_all_spec.
Print Assumptions compiles_deriving.
Print Assumptions coverage_wf.
Print Assumptions coverage_histories_wf.
Print Assumptions ex_history_run.
Print Assumptions ex_no_interference.
