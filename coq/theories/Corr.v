(* Corr.v - the correspondence check: histories observed on the real library, replayed
   step by step through the model (each step starts from the implementation's own
   pre-state), plus the boolean specifications evaluated on the implementation's output.
   Definitions only. *)
From GF Require Export Step.

(* s_delta: the frames of the pool that differ from the previous observation (position,
   new content); a position one past the end is a new frame *)
(* s_shared: the harness found, on the implementation's heap after this step, two column slots of live frames whose
   backing arrays overlap (the separation invariant of Heap.v, observed directly) *)
Record stepobs := { s_op : op; s_out : out val; s_delta : list (nat * frame); s_nrows : list Z; s_shared : bool }.
Record hist := { h_or : oracles; h_pool : pool; h_steps : list stepobs }.
Definition apply_delta (pre : pool) (d : list (nat * frame)) : pool :=
  fold_left (fun p kf => if Nat.ltb (fst kf) (length p) then set_nth p (fst kf) (snd kf) else p ++ [snd kf]) d pre.

(* ---------- generic specifications on observations ---------- *)
(* C01: every live frame is rectangular, stored under its own names, Nrows agrees *)
Definition c01_frames_ok (p : pool) : bool := forallb wf_frame p.
Definition c01_nrows_ok (p : pool) (nr : list Z) : bool :=
  list_eqb Z.eqb (map (fun f => Z.of_nat (nrows f)) p) nr.

Definition row_in (r : rowmap) (rs : list rowmap) : bool := existsb (row_same r) rs.
Definition row_all_nil (r : rowmap) : bool := forallb (fun kv => is_nil (snd kv)) r.
Definition row_proj_of (r src : rowmap) : bool :=
  forallb (fun kv => match fget src (fst kv) with Some c => cell_same c (snd kv) | None => false end) r.
(* remove one occurrence *)
Fixpoint remove_row (r : rowmap) (rs : list rowmap) : option (list rowmap) :=
  match rs with
  | [] => None
  | x :: t => if row_same r x then Some t
              else match remove_row r t with Some t' => Some (x :: t') | None => None end
  end.
Fixpoint sub_multiset (a b : list rowmap) : bool :=
  match a with
  | [] => true
  | r :: t => match remove_row r b with Some b' => sub_multiset t b' | None => false end
  end.
Definition perm_rows (a b : list rowmap) : bool :=
  Nat.eqb (length a) (length b) && sub_multiset a b.

Definition op_target (o : op) : option nat :=
  match o with
  | OAppendRow i _ | ODropRow i _ | OFillNa i _ | ODropNa i | OAstype i _ _ | ODatetime i _ _
  | ORename i _ _ | OAddColumn i _ _ | ODropColumn i _ | OSetCell i _ _ _ | ODedupInplace i _ _ => Some i
  | _ => None
  end.
Definition op_source (o : op) : option nat :=
  match o with
  | OHead i _ | OTail i _ | ORowSlice i _ _ | OFilter i _ | OLoc i _ _ | OIloc i _ _
  | OMultiSelect i _ | OSort i _ _ | OShift i _ | ODedup i _ _ _ | OApply i _ _ | ODescribe i
  | OResample i _ _ _ | OGroupAgg i _ _ _ | OCsvRoundTrip i | OGroupby i _ | OToCSV i | ORow i _
  | OColumnNames i | ONrows i | ONcols i | OAgg i _ | OJoin _ i _ _ | OAdd i _ _
  | OString i | OSelect i _ | OColAt i _ _ | OSeries i _ _ | OPlot _ i _ _ _ _ | OGroupbyOther i _
  | OIoFail i _ => Some i
  | OAppendRow i _ | ODropRow i _ | OFillNa i _ | ODropNa i | OAstype i _ _ | ODatetime i _ _
  | ORename i _ _ | OAddColumn i _ _ | ODropColumn i _ | OSetCell i _ _ _ | ODedupInplace i _ _ => Some i
  | OFromCSV _ => None
  end.

(* the frame an operation produced or edited, read from the implementation's post-state *)
Definition result_frame (o : op) (io : out val) (post : pool) : option frame :=
  match io with
  | Ok (VFrame g) => Some g
  | Ok (VFilter g _) => Some g
  | Ok VNone => match op_target o with Some i => nth_opt post i | None => None end
  | _ => None
  end.

(* C01 row alignment: rows that survive an operation are whole rows of the source *)
Definition c01_aligned (pre : pool) (o : op) (io : out val) (post : pool) : bool :=
  match op_source o, result_frame o io post with
  | Some i, Some g =>
    match nth_opt pre i with
    | None => true
    | Some f =>
      match o with
      | OHead _ _ | OTail _ _ | ORowSlice _ _ _ | OFilter _ _ | OSort _ _ _ | ODedup _ _ _ _
      | ODedupInplace _ _ _ | ODropNa _ | ODropRow _ _ =>
        sub_multiset (rows g) (rows f)
      | OShift _ _ =>
        let rf := rows f in forallb (fun r => row_in r rf || row_all_nil r) (rows g)
      | OLoc _ _ _ | OIloc _ _ _ | OMultiSelect _ _ | ODropColumn _ _ =>
        let rf := rows f in forallb (fun r => existsb (row_proj_of r) rf) (rows g)
      | OAppendRow _ _ =>
        list_eqb (fun a b => row_proj_of a b) (rows f) (firstn (nrows f) (rows g))
      | OAddColumn _ _ _ | ORename _ _ _ | OFillNa _ _ | OAstype _ _ _ | ODatetime _ _ _ | OSetCell _ _ _ _ =>
        Nat.eqb (nrows g) (nrows f) || Nat.eqb (ncols f) 0
      | _ => true
      end
    end
  | _, _ => true
  end.

(* C02: frames other than the one being edited are untouched (derivations touch none) *)
Fixpoint others_same (pre post : pool) (i : nat) (target : option nat) : bool :=
  match pre, post with
  | [], _ => true
  | _ :: _, [] => false
  | a :: pre', b :: post' =>
    (match target with Some t => if Nat.eqb t i then true else frame_same a b | None => frame_same a b end)
    && others_same pre' post' (S i) target
  end.
Definition c02_local (pre : pool) (o : op) (post : pool) : bool := others_same pre post 0 (op_target o).

(* C01 again: a frame the operation was not applied to, if it changed at all (through memory it shares with the
   frame that was edited), must still be well formed and consist of whole rows of its former self *)
Definition still_own_rows (a b : frame) : bool :=
  (* (vm_compute evaluates the arguments of || eagerly: the expensive test is kept behind an if) *)
  if frame_same a b then true else (wf_frame b && (let ra := rows a in forallb (fun r => row_in r ra) (rows b))).
Fixpoint others_aligned (pre post : pool) (i : nat) (target : option nat) : bool :=
  match pre, post with
  | [], _ => true
  | _ :: _, [] => true
  | a :: pre', b :: post' =>
    (match target with Some t => if Nat.eqb t i then true else still_own_rows a b | None => still_own_rows a b end)
    && others_aligned pre' post' (S i) target
  end.
Definition c01_others_aligned (pre : pool) (o : op) (post : pool) : bool := others_aligned pre post 0 (op_target o).

(* C20: no panic; an error leaves every frame as it was *)
Definition c20_no_panic (io : out val) : bool := match io with Panic => false | _ => true end.
Definition c20_err_keeps (pre : pool) (io : out val) (post : pool) : bool :=
  match io with Ok _ => true | _ => pool_same pre post end.

(* C06: the result is sorted by the comparator and is a permutation of whole rows *)
Fixpoint sorted_by (lt : nat -> nat -> bool) (n : nat) : bool :=   (* positions 0..n: no inversion between neighbours *)
  match n with
  | O => true
  | S k => negb (lt (S k) k) && sorted_by lt k
  end.
Definition sort_spec (O : oracles) (f g : frame) (by_ : list str) (asc : bool) : bool :=
  list_eqb str_eqb (fkeys f) (fkeys g) && wf_frame g
  && perm_rows (rows g) (rows f)
  && sorted_by (less O g by_ asc) (nrows g - 1).
(* the sort columns are fully determined by the specification; compare them with the model *)
Definition sort_keys_same (g m : frame) (by_ : list str) : bool :=
  forallb (fun k => match fget g k, fget m k with
                    | Some a, Some b => cells_same (cdata a) (cdata b)
                    | None, None => true
                    | _, _ => false end) by_.

(* C19 *)
Definition shift_spec (f g : frame) (p : Z) : bool :=
  list_eqb str_eqb (fkeys f) (fkeys g)
  && forallb (fun k =>
       match fget f k, fget g k with
       | Some a, Some b =>
         Nat.eqb (length (cdata a)) (length (cdata b))
         && forallb (fun i =>
              let j := Z.of_nat i - p in
              cell_same (match nth_opt (cdata b) i with Some c => c | None => CB true end)
                        (if (0 <=? j) && (j <? Z.of_nat (length (cdata a)))
                         then match nth_opt (cdata a) (Z.to_nat j) with Some c => c | None => CNil end
                         else CNil))
              (seq 0 (length (cdata a)))
       | _, _ => false end) (fkeys f).

(* C04: the groups are the partition of the rows by the tuple of key cells (Go ==), each
   group complete and in original order, groups in order of first appearance *)
Definition tuple_of (ks : list str) (r : rowmap) : list cell := map (rget r) ks.
Definition tuples_eqb (a b : list cell) : bool := list_eqb cell_eqb a b.
Fixpoint is_subseq (a b : list rowmap) : bool :=
  match a, b with
  | [], _ => true
  | _ :: _, [] => false
  | x :: a', y :: b' => if row_same x y then is_subseq a' b' else is_subseq a b'
  end.
Fixpoint first_tuples (ts : list (list cell)) (seen : list (list cell)) : list (list cell) :=
  match ts with
  | [] => []
  | t :: rest => if existsb (tuples_eqb t) seen then first_tuples rest seen
                 else t :: first_tuples rest (t :: seen)
  end.
Definition c04_partition (f : frame) (ks : list str) (g : groups) : bool :=
  let rs := rows f in
  perm_rows (concat (map snd g)) rs
  && forallb (fun kr => negb (null (snd kr))) g
  && forallb (fun kr => match snd kr with
                        | [] => true
                        | r0 :: rest => forallb (fun r => tuples_eqb (tuple_of ks r0) (tuple_of ks r)) rest
                        end) g
  && forallb (fun kr => is_subseq (snd kr) rs) g
  && list_eqb tuples_eqb (map (fun kr => match snd kr with r0 :: _ => tuple_of ks r0 | [] => [] end) g)
                         (first_tuples (map (tuple_of ks) rs) []).
Definition c04_single_key (k : str) (g : groups) : bool :=
  forallb (fun kr => forallb (fun r => cell_same (fst kr) (rget r k)) (firstn 1 (snd kr))) g.

(* ---------- the check of one step ---------- *)
(* finding codes: 1 result differs from the model; 2 post-state differs from the model;
   10 C01 frame not rectangular/named; 11 C01 Nrows disagrees; 12 C01 row alignment;
   20 C02 another frame changed; 30 C20 panic; 31 C20 error changed state; 32 C20 invalid request accepted;
   40 C06 sort spec; 41 C19 shift spec *)
Definition check_sort (O : oracles) (pre : pool) (i : nat) (by_ : list str) (asc : option bool)
           (mo : out val) (io : out val) (post : pool) : list nat :=
  let a := match asc with Some b => b | None => true end in
  match nth_opt pre i, mo, io with
  | Some f, Ok (VFrame m), Ok (VFrame g) =>
    (if sort_spec O f g by_ a then [] else [40%nat])
    ++ (if sort_keys_same g m by_ then [] else [1%nat])
    ++ (if pool_same post (pre ++ [g]) then [] else [2%nat])
  | _, Err, Err => if pool_same post pre then [] else [2%nat]
  | _, _, _ => [1%nat]
  end.

Definition check_step (O : oracles) (pre : pool) (s : stepobs) : list nat :=
  let o := s_op s in
  let io := s_out s in
  let post := apply_delta pre (s_delta s) in
  let '(mo, mp) := step O pre o in
  let corr :=
    match o with
    | OSort i by_ asc => check_sort O pre i by_ asc mo io post
    | _ => (if out_same mo io then [] else [1%nat]) ++ (if pool_same mp post then [] else [2%nat])
    end in
  let ok_step := match io with Ok _ => true | _ => false end in
  corr
  ++ (if negb ok_step || c01_frames_ok post then [] else [10%nat])
  ++ (if negb ok_step || c01_nrows_ok post (s_nrows s) then [] else [11%nat])
  ++ (if negb ok_step || c01_aligned pre o io post then [] else [12%nat])
  ++ (if c01_others_aligned pre o post then [] else [13%nat])
  ++ (if c02_local pre o post then [] else [20%nat])
  ++ (if c20_no_panic io then [] else [30%nat])
  ++ (if c20_err_keeps pre io post then [] else [31%nat])
  ++ (match o, io, nth_opt pre (match op_source o with Some i => i | None => 0%nat end) with
      | OShift _ p, Ok (VFrame g), Some f => if shift_spec f g p then [] else [41%nat]
      | OGroupby _ gk, Ok (VGroups g), Some f =>
        if c04_partition f (gkey_cols gk) g && (match gk with GOne k => c04_single_key k g | GList _ => true end)
        then []
        else 42%nat :: (match gk, mo with
                        | GList _, Ok (VGroups m) => if val_same (VGroups m) (VGroups g) then [43%nat] else []
                        | _, _ => []
                        end)
      | _, _, _ => []
      end)
  (* C20: a request the model rejects was accepted (an invalid request not signalled as an error) *)
  ++ (match mo, io with Err, Ok _ => [32%nat] | _, _ => [] end)
  (* C02: the separation invariant itself, as observed on the implementation's heap *)
  ++ (if s_shared s then [21%nat] else []).

(* first failing step of a history: (step index, codes) *)
Fixpoint check_steps (O : oracles) (pre : pool) (ss : list stepobs) (k : nat) : option (nat * list nat) :=
  match ss with
  | [] => None
  | s :: t =>
    match check_step O pre s with
    | [] => check_steps O (apply_delta pre (s_delta s)) t (S k)
    | codes => Some (k, codes)
    end
  end.
Definition check_hist (h : hist) : option (nat * list nat) :=
  check_steps (h_or h) (h_pool h) (h_steps h) 0.

(* every failing step of a history, each judged from the state the implementation was observed in before it (so
   a step that fails one specification does not hide a later step that fails another) *)
Fixpoint check_steps_all (O : oracles) (pre : pool) (ss : list stepobs) (k : nat) : list (nat * list nat) :=
  match ss with
  | [] => []
  | s :: t =>
    let rest := check_steps_all O (apply_delta pre (s_delta s)) t (S k) in
    match check_step O pre s with
    | [] => rest
    | codes => (k, codes) :: rest
    end
  end.
Definition check_hist_all (h : hist) : list (nat * list nat) :=
  check_steps_all (h_or h) (h_pool h) (h_steps h) 0.

(* all failing steps of a case file: (history index, step index, codes) *)
Fixpoint failures (hs : list hist) (k : nat) : list (nat * nat * list nat) :=
  match hs with
  | [] => []
  | h :: t => map (fun ic => (k, fst ic, snd ic)) (check_hist_all h) ++ failures t (S k)
  end.
