(* SqlRead.v - model of fromSQLRows (sql_read.go): scan destination by declared type
   name, NULL policies, ParseDates, row assembly.  Definitions only. *)
From GF Require Export Sql.
From Coq Require Import String Ascii.

Inductive dkind := DInt | DFloat | DBool | DTime | DStr.

Fixpoint is_prefix (p s : str) : bool :=
  match p, s with
  | [], _ => true
  | x :: p', y :: s' => N.eqb x y && is_prefix p' s'
  | _ :: _, [] => false
  end.
Fixpoint contains (sub s : str) : bool :=
  is_prefix sub s || match s with [] => false | _ :: t => contains sub t end.
Definition upper_byte (c : N) : N := if (N.leb 97 c && N.leb c 122)%bool then (c - 32)%N else c.
Definition to_upper (s : str) : str := map upper_byte s.

(* createScanDestination: substring tests on the upper-cased declared type, in this order *)
Definition scan_kind (ty : str) : dkind :=
  let u := to_upper ty in
  if contains (lit "INT") u then DInt
  else if contains (lit "FLOAT") u || contains (lit "REAL") u || contains (lit "DOUBLE") u || contains (lit "NUMERIC") u then DFloat
  else if contains (lit "BOOL") u then DBool
  else if contains (lit "TIME") u || contains (lit "DATE") u then DTime
  else DStr.

(* Rows.Scan into sql.Null*: the harness serves values of the matching Go type, NULL, or
   non-numeric text in a non-text column (a scan error) *)
Inductive scanned := SNull | SVal (c : cell) | SBad.
Definition scan (k : dkind) (v : cell) : scanned :=
  match v with
  | CNil => SNull
  | _ =>
    match k, v with
    | DInt, CI _ z => SVal (CI KInt64 z)
    | DFloat, CF _ x => SVal (CF KF64 x)
    | DBool, CB b => SVal (CB b)
    | DTime, CT t => SVal (CT t)
    | DStr, CS s => SVal (CS s)
    | _, _ => SBad
    end
  end.

Inductive nullh :=
| NHDefault                         (* no NullHandler given *)
| NHString (s : str)
| NHMap (m : list (str * cell))
| NHOther.                          (* a value of another type *)

Definition zero_time : list Z := [1; 1; 1; 0; 0; 0; 0; 0].
Inductive nullres := NRVal (c : cell) | NRSkip | NRErr.
Definition handle_null (h : nullh) (cn : str) (k : dkind) : nullres :=
  match h with
  | NHDefault => NRVal CNil
  | NHString s =>
    if str_eqb s (lit "nil") then NRVal CNil
    else if str_eqb s (lit "zero") then
      NRVal (match k with
             | DStr => CS []
             | DInt => CI KInt64 0
             | DFloat => CF KF64 (FFin 0)
             | DBool => CB false
             | DTime => CT zero_time
             end)
    else if str_eqb s (lit "skip_row") then NRSkip
    else NRErr
  | NHMap m => match fget m cn with Some v => NRVal v | None => NRVal CNil end
  | NHOther => NRErr
  end.

(* oracles for the time package *)
Record toracles := {
  t_parse : list ((str * str) * option (list Z));    (* time.Parse(layout, s) *)
  t_unix : list ((Z * Z) * list Z);                   (* time.Unix(sec, nsec) in the process's zone *)
  t_unixmilli : list (Z * list Z)                     (* time.UnixMilli(ms) *)
}.
Definition date_layouts : list str :=
  [lit "2006-01-02T15:04:05Z07:00"; lit "2006-01-02T15:04:05.999999999Z07:00"; lit "2006-01-02 15:04:05";
   lit "2006-01-02"; lit "2006-01-02 15:04:05.999999"; lit "Mon, 02 Jan 2006 15:04:05 MST"; lit "02 Jan 06 15:04 MST"].
Definition tp_lookup (T : toracles) (layout s : str) : option (list Z) :=
  match lookup (fun a b => str_eqb (fst a) (fst b) && str_eqb (snd a) (snd b)) (t_parse T) (layout, s) with
  | Some r => r | None => None end.
Fixpoint first_parse (T : toracles) (ls : list str) (s : str) : option (list Z) :=
  match ls with
  | [] => None
  | l :: rest => match tp_lookup T l s with Some t => Some t | None => first_parse T rest s end
  end.
Definition unix_lookup (T : toracles) (sec nsec : Z) : option (list Z) :=
  lookup (fun a b => Z.eqb (fst a) (fst b) && Z.eqb (snd a) (snd b)) (t_unix T) (sec, nsec).
Definition unixmilli_lookup (T : toracles) (ms : Z) : option (list Z) := lookup Z.eqb (t_unixmilli T) ms.

(* timeFromFloat64 *)
Definition e12_grid : Z := Z.shiftl 1000000000000 1074.
Definition time_from_float (T : toracles) (x : fl) : option (list Z) :=
  match x with
  | FFin m =>
    if (e12_grid <? m) || (m <? - e12_grid) then
      unixmilli_lookup T (Z.quot m grid)
    else
      let sec := Z.quot m grid in
      let frac := m - sec * grid in                        (* exact *)
      match round_q (frac * 1000000000) 1 with             (* frac * 1e9 in binary64 *)
      | FFin p =>
        let a := Z.abs p in
        let r := (2 * a + grid) / (2 * grid) in            (* math.Round: half away from zero *)
        unix_lookup T sec (if p <? 0 then - r else r)
      | FNegZero => unix_lookup T sec 0
      | _ => None
      end
  | FNegZero => unix_lookup T 0 0
  | _ => None
  end.

(* parseDateValue *)
Definition parse_date (T : toracles) (v : cell) : option cell :=
  match v with
  | CNil => Some (CT zero_time)
  | CT t => Some (CT t)
  | CS s => option_map CT (first_parse T date_layouts s)
  | CI KInt64 z | CI KInt z => option_map CT (unix_lookup T z 0)
  | CF KF64 x => option_map CT (time_from_float T x)
  | _ => None
  end.

(* one result row: Some (Some cells) kept, Some None skipped, None error *)
Fixpoint read_row (T : toracles) (h : nullh) (dates : list str) (cols : list (str * dkind)) (vals : list cell)
  : option (option (list cell)) :=
  match cols, vals with
  | [], _ => Some (Some [])
  | (cn, k) :: crest, v :: vrest =>
    let after := fun (c : cell) =>
      let c' := if existsb (str_eqb cn) dates
                then parse_date T c else Some c in
      match c' with
      | None => None
      | Some c2 =>
        match read_row T h dates crest vrest with
        | None => None
        | Some None => Some None
        | Some (Some r) => Some (Some (c2 :: r))
        end
      end in
    match scan k v with
    | SBad => None
    | SVal c => after c
    | SNull =>
      match handle_null h cn k with
      | NRErr => None
      | NRSkip => Some None
      | NRVal c => after c
      end
    end
  | _ :: _, [] => None
  end.

(* Rows.Scan converts the whole row first: one bad value fails the row before any NULL policy applies *)
Definition scan_ok (cols : list (str * dkind)) (vals : list cell) : bool :=
  forallb (fun cv => match scan (snd (fst cv)) (snd cv) with SBad => false | _ => true end) (combine cols vals).

(* rows up to an iteration error at position err_at (None: no error) *)
Fixpoint read_rows (T : toracles) (h : nullh) (dates : list str) (cols : list (str * dkind))
         (rws : list (list cell)) : option (list (list cell)) :=
  match rws with
  | [] => Some []
  | r :: rest =>
    match (if scan_ok cols r then read_row T h dates cols r else None) with
    | None => None
    | Some keep =>
      match read_rows T h dates cols rest with
      | None => None
      | Some out => Some (match keep with Some cells => cells :: out | None => out end)
      end
    end
  end.

Definition nth_cell (r : list cell) (i : nat) : cell := match nth_opt r i with Some c => c | None => CNil end.
(* fromSQLRows.  has_err: the iteration reports an error after the rows served. *)
Definition from_sql (T : toracles) (h : nullh) (dates : list str) (names tys : list str)
           (rws : list (list cell)) (has_err : bool) : out frame :=
  let cols := combine names (map scan_kind tys) in
  match read_rows T h dates cols rws with
  | None => Err
  | Some data =>
    if has_err then Err
    else if has_dup names then Err
    else Ok (fold_left (fun acc ic => fset acc (snd ic) (snd ic, map (fun r => nth_cell r (fst ic)) data))
                       (combine (seq 0 (List.length names)) names) [])
  end.
