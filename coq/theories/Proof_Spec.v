(* Proof_Spec.v - the boolean specifications that Corr.v evaluates on observations of the
   real code are TRUE of the model's own output: a checker of the correspondence check can
   only fail on an implementation that deviates from the model (no false alarm by
   construction), and every checker is tied to the theorem it stands for.

   Main statements (all closed under the global context):
     0  *_same_refl, cell_same_iff/row_same_eq      the comparisons are reflexive / Leibniz equality
     1  spec_c20_model                               c20_no_panic, c20_err_keeps
     2  spec_c02_model, op_target_is_edit            c02_local, for every operation and pool
     3  spec_c01_frames_model, spec_c01_nrows_model  c01_frames_ok, c01_nrows_ok
     4  spec_shift_model(_gen)                       shift_spec, every int64 offset
     5  sub_multiset_complete/_sound, perm_rows_complete/_sound
     6  spec_sort_model                              sort_spec
     7  spec_c01_aligned_model                       c01_aligned, all 36 operations
     8  spec_c04_model                               c04_partition, c04_single_key (Groupby(k))
     9  check_step_model, check_steps_model, check_hist_model
                                                     check_step = [] / check_hist = None on the
                                                     model's own observations
    10  Module Examples                              every checker is false on a wrong output

   Premises that turned out to be necessary (each with a vm_compute counterexample):
     - c01_aligned needs op_ok (AddColumn with a column of another length):
       addcolumn_aligned_needs_op_ok;
     - c04_partition needs a key column without NaN (NaN is not == to itself):
       c04_partition_nan_key;
     - Groupby(list) is not claimed: side_okb asks for the partition check itself. *)
From GF Require Import Ops Step Corr Lemmas.
From GF Require Import Proof_C01a Proof_C01 Proof_C19 Proof_C08 Proof_C06 Proof_C07 Proof_C15 Proof_C04 Proof_C20.
From Coq Require Import Lia Permutation Sorted.
Arguments N.eqb : simpl never.
(* Proof_C01.wf_pool and Proof_C20.wf_pool are the same definition; fix one *)
Local Notation wf_pool := Proof_C01.wf_pool.

(* ========================================================================= *)
(* 0. the structural comparisons are reflexive, and are Leibniz equality      *)
(* ========================================================================= *)

Lemma list_eqb_refl {A} (e : A -> A -> bool) l : (forall x, In x l -> e x x = true) -> list_eqb e l l = true.
Proof.
  induction l as [|x l IH]; intros H; cbn [list_eqb]; [reflexivity|].
  rewrite (H x (or_introl eq_refl)). cbn [andb]. apply IH. intros y Hy. apply H. now right.
Qed.

Lemma list_eqb_eq {A} (e : A -> A -> bool) : (forall x y, e x y = true <-> x = y) ->
  forall a b, list_eqb e a b = true <-> a = b.
Proof.
  intros He. induction a as [|x a IH]; intros [|y b]; cbn [list_eqb]; split; intro H;
    try discriminate; try reflexivity.
  - apply andb_prop in H. destruct H as [H1 H2]. apply He in H1. apply IH in H2. now subst.
  - injection H as -> ->. apply andb_true_intro. split; [now apply He | now apply IH].
Qed.

Lemma ikind_eqb_refl k : ikind_eqb k k = true.
Proof. now destruct k. Qed.
Lemma fkind_eqb_refl k : fkind_eqb k k = true.
Proof. now destruct k. Qed.
Lemma zlist_eqb_refl l : zlist_eqb l l = true.
Proof. induction l as [|x l IH]; cbn [zlist_eqb]; [reflexivity|]. now rewrite Z.eqb_refl, IH. Qed.
Lemma fl_same_refl x : fl_same x x = true.
Proof. destruct x; cbn [fl_same]; try reflexivity. apply Z.eqb_refl. Qed.
Lemma fl_same_eq a b : fl_same a b = true <-> a = b.
Proof.
  destruct a, b; cbn [fl_same]; split; intro H; try discriminate; try reflexivity.
  - apply Z.eqb_eq in H. now subst.
  - injection H as ->. apply Z.eqb_refl.
Qed.

Lemma cell_same_refl c : cell_same c c = true.
Proof.
  destruct c as [|k z|k x|s|b|t]; cbn [cell_same]; try reflexivity.
  - now rewrite ikind_eqb_refl, Z.eqb_refl.
  - now rewrite fkind_eqb_refl, fl_same_refl.
  - apply str_eqb_refl.
  - now destruct b.
  - apply zlist_eqb_refl.
Qed.

(* cell_same is Leibniz equality (Proof_C04.cell_same_eq) *)
Lemma cell_same_iff a b : cell_same a b = true <-> a = b.
Proof. apply Proof_C04.cell_same_eq. Qed.

Lemma cells_same_refl l : cells_same l l = true.
Proof. apply list_eqb_refl. intros c _. apply cell_same_refl. Qed.
Lemma cells_same_eq a b : cells_same a b = true <-> a = b.
Proof. apply list_eqb_eq. apply cell_same_iff. Qed.

Lemma col_same_refl c : col_same c c = true.
Proof. unfold col_same. now rewrite str_eqb_refl, cells_same_refl. Qed.

Lemma frame_same_refl f : frame_same f f = true.
Proof. apply list_eqb_refl. intros kc _. now rewrite str_eqb_refl, col_same_refl. Qed.

Lemma row_same_refl r : row_same r r = true.
Proof. apply list_eqb_refl. intros kv _. now rewrite str_eqb_refl, cell_same_refl. Qed.

Lemma row_same_eq a b : row_same a b = true <-> a = b.
Proof.
  apply list_eqb_eq. intros [k v] [k' v']. cbn [fst snd]. split; intro H.
  - apply andb_prop in H. destruct H as [H1 H2]. apply str_eqb_eq in H1. apply cell_same_iff in H2. now subst.
  - injection H as -> ->. now rewrite str_eqb_refl, cell_same_refl.
Qed.

Lemma pool_same_refl p : pool_same p p = true.
Proof. apply list_eqb_refl. intros f _. apply frame_same_refl. Qed.

Lemma rows_same_refl l : list_eqb row_same l l = true.
Proof. apply list_eqb_refl. intros r _. apply row_same_refl. Qed.

Lemma val_same_refl v : val_same v v = true.
Proof.
  destruct v as [|f|r|l|z|s|m|g|f seen|n cs]; cbn [val_same].
  - reflexivity.
  - apply frame_same_refl.
  - apply row_same_refl.
  - apply list_eqb_refl. intros s _. apply str_eqb_refl.
  - apply Z.eqb_refl.
  - apply str_eqb_refl.
  - apply list_eqb_refl. intros kx _. now rewrite str_eqb_refl, fl_same_refl.
  - apply list_eqb_refl. intros kr _. now rewrite cell_same_refl, rows_same_refl.
  - now rewrite frame_same_refl, rows_same_refl.
  - now rewrite str_eqb_refl, cells_same_refl.
Qed.

Lemma out_same_refl o : out_same o o = true.
Proof. destruct o as [v| |]; cbn [out_same]; [apply val_same_refl | reflexivity | reflexivity]. Qed.

(* ========================================================================= *)
(* 1. C20: the model neither panics on well-formed frames nor changes state   *)
(*    on an error                                                             *)
(* ========================================================================= *)

Theorem spec_c20_model O p o : wf_pool p = true ->
  c20_no_panic (fst (step O p o)) = true
  /\ c20_err_keeps p (fst (step O p o)) (snd (step O p o)) = true.
Proof.
  intros Hp. split.
  - pose proof (C20_no_panic O p o Hp) as H. destruct (fst (step O p o)); [reflexivity|reflexivity|congruence].
  - unfold c20_err_keeps. destruct (fst (step O p o)) as [v| |] eqn:E; [reflexivity| |].
    + rewrite (Proof_C20.step_err_keeps O p o E). apply pool_same_refl.
    + rewrite (Proof_C20.step_panic_keeps O p o E). apply pool_same_refl.
Qed.

(* the second half needs no premise at all *)
Theorem spec_c20_err_keeps_model O p o :
  c20_err_keeps p (fst (step O p o)) (snd (step O p o)) = true.
Proof.
  unfold c20_err_keeps. destruct (fst (step O p o)) as [v| |] eqn:E; [reflexivity| |].
  - rewrite (Proof_C20.step_err_keeps O p o E). apply pool_same_refl.
  - rewrite (Proof_C20.step_panic_keeps O p o E). apply pool_same_refl.
Qed.

(* ========================================================================= *)
(* 2. C02: an operation of the model touches no frame but its target          *)
(* ========================================================================= *)

Lemma others_same_app p l : forall i t, others_same p (p ++ l) i t = true.
Proof.
  induction p as [|a p IH]; intros i t; cbn [others_same app]; [reflexivity|].
  rewrite IH, andb_true_r. destruct t as [t|]; [|apply frame_same_refl].
  destruct (Nat.eqb t i); [reflexivity | apply frame_same_refl].
Qed.

Lemma others_same_refl p i t : others_same p p i t = true.
Proof. rewrite <- (app_nil_r p) at 2. apply others_same_app. Qed.

Lemma others_same_set p f : forall j off, others_same p (set_nth p j f) off (Some (off + j)%nat) = true.
Proof.
  induction p as [|a p IH]; intros j off; [reflexivity|].
  destruct j as [|j]; cbn [set_nth others_same].
  - rewrite Nat.add_0_r, Nat.eqb_refl. cbn [andb]. apply others_same_refl.
  - replace (off + S j)%nat with (S off + j)%nat by lia. rewrite IH, andb_true_r.
    destruct (Nat.eqb (S off + j) off); [reflexivity | apply frame_same_refl].
Qed.

Lemma c02_derive p t r : others_same p (snd (derive p r)) 0 t = true.
Proof. destruct r as [f| |]; cbn [derive snd]; [apply others_same_app | apply others_same_refl | apply others_same_refl]. Qed.

Lemma c02_edit p i r : others_same p (snd (edit p i r)) 0 (Some i) = true.
Proof.
  destruct r as [f| |]; cbn [edit snd]; [|apply others_same_refl|apply others_same_refl].
  exact (others_same_set p f i 0).
Qed.

(* op_target names exactly the frame that edit replaces: for every edit constructor the
   position handed to Step.edit is the one Corr.op_target reports *)
Theorem spec_c02_model O p o : c02_local p o (snd (step O p o)) = true.
Proof.
  unfold c02_local.
  destruct o; cbn [step op_target]; try apply c02_derive; try apply c02_edit;
    try (cbn [observe snd]; apply others_same_refl).
  (* Filter *)
  destruct (nth_opt p f) as [fr|]; cbn [snd]; [apply others_same_app | apply others_same_refl].
Qed.

(* ========================================================================= *)
(* 3. C01: every live frame stays well formed (step_wf restated on the checker) *)
(* ========================================================================= *)

Theorem spec_c01_frames_model O p o : wf_pool p = true -> op_ok p o = true ->
  c01_frames_ok (snd (step O p o)) = true.
Proof. intros Hp Hok. exact (step_wf O p o Hp Hok). Qed.

Theorem spec_c01_nrows_model (q : pool) :
  c01_nrows_ok q (map (fun f => Z.of_nat (nrows f)) q) = true.
Proof. unfold c01_nrows_ok. apply list_eqb_refl. intros z _. apply Z.eqb_refl. Qed.

(* ========================================================================= *)
(* 4. C19: the model's Shift passes shift_spec for every int64 offset         *)
(* ========================================================================= *)

Lemma fget_rekey_cols g (f : frame) k :
  fget (rekey_cols g f) k = option_map (fun c => (k, g (cdata c))) (fget f k).
Proof.
  induction f as [|[k' c'] t IH]; [reflexivity|].
  cbn [rekey_cols map fget fst snd]. destruct (str_eqb k k') eqn:E.
  - apply str_eqb_eq in E. subst k'. reflexivity.
  - exact IH.
Qed.

Lemma fget_key_some {A} (f : list (str * A)) k : In k (fkeys f) -> exists c, fget f k = Some c /\ In (k, c) f.
Proof.
  induction f as [|[k' c'] t IH]; intros H; [destruct H|].
  cbn [fget]. destruct (str_eqb k k') eqn:E.
  - apply str_eqb_eq in E. subst k'. exists c'. split; [reflexivity | now left].
  - destruct H as [H|H]; [cbn [fst] in H; subst k'; now rewrite str_eqb_refl in E|].
    destruct (IH H) as [c [G Hin]]. exists c. split; [exact G | now right].
Qed.

Lemma str_list_eqb_refl (l : list str) : list_eqb str_eqb l l = true.
Proof. apply list_eqb_refl. intros s _. apply str_eqb_refl. Qed.

(* no premise on the order of the keys is needed *)
Theorem spec_shift_model_gen f p :
  (forall k c, In (k, c) f -> Z.of_nat (length (cdata c)) < two63) -> in_i64 p ->
  shift_spec f (op_shift f p) p = true.
Proof.
  intros Hlen Hp. unfold shift_spec. rewrite op_shift_keys, str_list_eqb_refl. cbn [andb].
  apply forallb_forall. intros k Hk.
  destruct (fget_key_some f k Hk) as [a [G Hin]].
  unfold op_shift. rewrite fget_rekey_cols, G. cbn [option_map cdata snd].
  rewrite shift_col_length, Nat.eqb_refl. cbn [andb].
  apply forallb_forall. intros i Hi. apply in_seq in Hi.
  assert (Hi' : (i < length (cdata a))%nat) by lia.
  pose proof (Hlen k a Hin) as Hn.
  rewrite (nth_opt_nth (shift_col p (cdata a)) i CNil) by now rewrite shift_col_length.
  rewrite (shift_col_nth p (cdata a) i Hp Hn Hi'). cbv zeta.
  destruct ((0 <=? Z.of_nat i - p) && (Z.of_nat i - p <? Z.of_nat (length (cdata a)))) eqn:C.
  - apply andb_prop in C. destruct C as [C1 C2]. apply Z.leb_le in C1. apply Z.ltb_lt in C2.
    rewrite (nth_opt_nth (cdata a) _ CNil) by lia. apply cell_same_refl.
  - reflexivity.
Qed.

Theorem spec_shift_model f p : sorted_keys (fkeys f) = true ->
  (forall k c, In (k, c) f -> Z.of_nat (length (cdata c)) < two63) -> in_i64 p ->
  shift_spec f (op_shift f p) p = true.
Proof. intros _. apply spec_shift_model_gen. Qed.

(* ========================================================================= *)
(* 5. multisets of rows: the boolean sub_multiset / perm_rows are complete    *)
(* ========================================================================= *)

(* a is a sub-multiset of b *)
Definition sub_ms (a b : list rowmap) : Prop := exists c, Permutation (a ++ c) b.

Lemma remove_row_in r b : In r b -> exists b', remove_row r b = Some b' /\ Permutation (r :: b') b.
Proof.
  induction b as [|x b IH]; intros H; [destruct H|]. cbn [remove_row].
  destruct (row_same r x) eqn:E.
  - apply row_same_eq in E. subst x. exists b. split; [reflexivity | apply Permutation_refl].
  - destruct H as [H|H]; [subst x; now rewrite row_same_refl in E|].
    destruct (IH H) as [b' [R P]]. rewrite R. exists (x :: b'). split; [reflexivity|].
    eapply Permutation_trans; [apply perm_swap|]. now apply perm_skip.
Qed.

Theorem sub_multiset_complete a : forall b, sub_ms a b -> sub_multiset a b = true.
Proof.
  induction a as [|r a IH]; intros b [c P]; [reflexivity|]. cbn [sub_multiset].
  assert (Hin : In r b) by (eapply Permutation_in; [exact P | now left]).
  destruct (remove_row_in r b Hin) as [b' [R P']]. rewrite R. apply IH. exists c.
  apply (Permutation_cons_inv (a := r)). eapply Permutation_trans; [exact P|]. now apply Permutation_sym.
Qed.

Lemma remove_row_some r b b' : remove_row r b = Some b' -> Permutation (r :: b') b.
Proof.
  revert b'. induction b as [|x b IH]; intros b'; cbn [remove_row]; [discriminate|].
  destruct (row_same r x) eqn:E.
  - intros H. injection H as <-. apply row_same_eq in E. subst x. apply Permutation_refl.
  - destruct (remove_row r b) as [t|]; [|discriminate]. intros H. injection H as <-.
    eapply Permutation_trans; [apply perm_swap|]. apply perm_skip. now apply IH.
Qed.

(* ... and sound: the checker accepts exactly the sub-multisets *)
Theorem sub_multiset_sound a : forall b, sub_multiset a b = true -> sub_ms a b.
Proof.
  induction a as [|r a IH]; intros b H.
  - exists b. apply Permutation_refl.
  - cbn [sub_multiset] in H. destruct (remove_row r b) as [b'|] eqn:R; [|discriminate].
    destruct (IH b' H) as [c P]. exists c. cbn [app].
    eapply Permutation_trans; [apply perm_skip; exact P|]. now apply remove_row_some.
Qed.

Theorem perm_rows_complete a b : Permutation a b -> perm_rows a b = true.
Proof.
  intros P. unfold perm_rows. rewrite (Permutation_length P), Nat.eqb_refl. cbn [andb].
  apply sub_multiset_complete. exists []. now rewrite app_nil_r.
Qed.

Theorem perm_rows_sound a b : perm_rows a b = true -> Permutation a b.
Proof.
  unfold perm_rows. intros H. apply andb_prop in H. destruct H as [L S]. apply Nat.eqb_eq in L.
  destruct (sub_multiset_sound a b S) as [c P].
  assert (c = []) as ->.
  { apply Permutation_length in P. rewrite app_length in P. destruct c; [reflexivity|cbn in P; lia]. }
  now rewrite app_nil_r in P.
Qed.

Lemma sub_ms_refl a : sub_ms a a.
Proof. exists []. now rewrite app_nil_r. Qed.
Lemma sub_ms_perm a b : Permutation a b -> sub_ms a b.
Proof. intros P. exists []. now rewrite app_nil_r. Qed.
Lemma sub_ms_trans a b c : sub_ms a b -> sub_ms b c -> sub_ms a c.
Proof.
  intros [x P] [y Q]. exists (x ++ y). rewrite app_assoc.
  eapply Permutation_trans; [apply Permutation_app_tail; exact P | exact Q].
Qed.
Lemma sub_ms_firstn k l : sub_ms (firstn k l) l.
Proof. exists (skipn k l). now rewrite firstn_skipn. Qed.
Lemma sub_ms_skipn k l : sub_ms (skipn k l) l.
Proof.
  exists (firstn k l). eapply Permutation_trans; [apply Permutation_app_comm|].
  rewrite firstn_skipn. apply Permutation_refl.
Qed.
Lemma sub_ms_filter (q : rowmap -> bool) l : sub_ms (filter q l) l.
Proof.
  exists (filter (fun r => negb (q r)) l). induction l as [|x l IH]; [apply Permutation_refl|].
  cbn [filter]. destruct (q x); cbn [negb app].
  - now apply perm_skip.
  - eapply Permutation_trans; [apply Permutation_sym, Permutation_middle|]. now apply perm_skip.
Qed.
Lemma skipn_one_more {A} (l : list A) : forall k, skipn k l = firstn 1 (skipn k l) ++ skipn (S k) l.
Proof.
  induction l as [|x l IH]; intros [|k]; try reflexivity.
  cbn [skipn]. rewrite (IH k) at 1. reflexivity.
Qed.
Lemma sub_ms_remove_nth l k : sub_ms (remove_nth l k) l.
Proof.
  rewrite remove_nth_spec. exists (firstn 1 (skipn k l)).
  assert (E : l = firstn k l ++ (firstn 1 (skipn k l) ++ skipn (S k) l)).
  { rewrite <- (firstn_skipn k l) at 1. f_equal. apply skipn_one_more. }
  rewrite E at 4. rewrite <- app_assoc. apply Permutation_app_head. apply Permutation_app_comm.
Qed.

(* positions without repetition, all in range: the rows picked are a sub-multiset *)
Lemma nodup_incl_perm (l l' : list nat) : NoDup l -> incl l l' -> exists rest, Permutation (l ++ rest) l'.
Proof.
  revert l'. induction l as [|a l IH]; intros l' Hnd Hin.
  - exists l'. apply Permutation_refl.
  - inversion Hnd as [|a' t Ha Hnd']; subst.
    assert (Hal : In a l') by (apply Hin; now left).
    apply in_split in Hal. destruct Hal as [l1 [l2 ->]].
    destruct (IH (l1 ++ l2) Hnd') as [rest P].
    { intros x Hx. assert (Hx' : In x (l1 ++ a :: l2)) by (apply Hin; now right).
      apply in_app_or in Hx'. apply in_or_app. destruct Hx' as [Hx'|[Hx'|Hx']]; [now left| |now right].
      subst x. contradiction. }
    exists rest. cbn [app]. eapply Permutation_trans; [apply perm_skip; exact P|]. apply Permutation_middle.
Qed.

Lemma sub_ms_pick (l : list rowmap) idxs : NoDup idxs -> Forall (fun i => (i < length l)%nat) idxs ->
  sub_ms (pick l idxs) l.
Proof.
  intros Hnd Hr.
  destruct (nodup_incl_perm idxs (seq 0 (length l)) Hnd) as [rest P].
  { intros i Hi. rewrite Forall_forall in Hr. apply in_seq. specialize (Hr i Hi). lia. }
  exists (pick l rest). rewrite <- Proof_C08.pick_app. now apply Proof_C06.pick_perm.
Qed.

Lemma sorted_lt_nodup l : StronglySorted lt l -> NoDup l.
Proof.
  induction 1 as [|x l Hs IH Hx]; constructor; [|assumption].
  intros Hin. rewrite Forall_forall in Hx. specialize (Hx x Hin). lia.
Qed.

(* ========================================================================= *)
(* 6. C06: the model's sort passes sort_spec                                  *)
(* ========================================================================= *)

Theorem spec_sort_model O f g by_ asc : wf_frame f = true -> sort_cols_ok O f by_ ->
  op_sort O f by_ asc = Ok g -> sort_spec O f g by_ asc = true.
Proof.
  intros Hwf Hok Hg.
  destruct (sort_model_spec O f by_ asc g Hwf Hok Hg) as [Hk [Hwf' [_ [Hp [Hs _]]]]].
  unfold sort_spec. rewrite Hk, str_list_eqb_refl, Hwf', (perm_rows_complete _ _ Hp), Hs. reflexivity.
Qed.

(* ========================================================================= *)
(* 7. C01 row alignment: the checker c01_aligned holds of the model           *)
(* ========================================================================= *)

Lemma nth_opt_set_same {A} (l : list A) v : forall i x, nth_opt l i = Some x -> nth_opt (set_nth l i v) i = Some v.
Proof.
  induction l as [|y l IH]; intros [|i] x H; cbn [nth_opt set_nth] in *; try discriminate; [reflexivity|].
  eapply IH; eauto.
Qed.

(* ---- 7a. the operations whose result rows are a sub-multiset of the source rows ---- *)

Lemma head_sub f n g : rect f = true -> op_head f n = Ok g -> sub_ms (rows g) (rows f).
Proof.
  intros Hr H. destruct (op_head_rows f n Hr) as [g' [E [R _]]]. rewrite E in H. injection H as <-.
  rewrite R. apply sub_ms_firstn.
Qed.
Lemma tail_sub f n g : rect f = true -> op_tail f n = Ok g -> sub_ms (rows g) (rows f).
Proof.
  intros Hr H. destruct (op_tail_rows f n Hr) as [g' [E [R _]]]. rewrite E in H. injection H as <-.
  rewrite R. apply sub_ms_skipn.
Qed.
Lemma rowslice_sub f a b : rect f = true -> sub_ms (rows (op_rowslice f a b)) (rows f).
Proof.
  intros Hr. rewrite (op_rowslice_rows f a b Hr).
  eapply sub_ms_trans; [apply sub_ms_firstn | apply sub_ms_skipn].
Qed.
Lemma filter_sub f keep : rect f = true -> sub_ms (rows (fst (op_filter f keep))) (rows f).
Proof.
  intros Hr. destruct (op_filter_rows f keep Hr) as [R _]. rewrite R. apply sub_ms_pick.
  - unfold kept. apply NoDup_filter, seq_NoDup.
  - rewrite (Proof_C08.rows_length f Hr). apply kept_lt.
Qed.
Lemma sort_sub O f by_ asc g : rect f = true -> op_sort O f by_ asc = Ok g -> sub_ms (rows g) (rows f).
Proof. intros Hr H. apply sub_ms_perm. now destruct (op_sort_perm O f by_ asc g Hr H) as [_ [_ [_ P]]]. Qed.
Lemma dedup_sub f has_opt subset keep g : rect f = true ->
  op_dedup f has_opt subset keep = Ok g -> sub_ms (rows g) (rows f).
Proof.
  intros Hr H. unfold op_dedup in H.
  destruct (dedup_idx f has_opt subset keep) as [idxs| |] eqn:D; cbn [bind] in H; try discriminate.
  injection H as <-. destruct (dedup_idx_ok_inv _ _ _ _ _ D) as [ks [_ [_ [_ [Hs Hrng]]]]].
  rewrite (rows_pick_rekey f idxs Hr Hrng). apply sub_ms_pick; [now apply sorted_lt_nodup|].
  now rewrite (Proof_C08.rows_length f Hr).
Qed.
Lemma dedup_inplace_sub f subset keep g : rect f = true ->
  op_dedup_inplace f subset keep = Ok g -> sub_ms (rows g) (rows f).
Proof.
  intros Hr H. unfold op_dedup_inplace in H.
  destruct (dedup_idx f true subset keep) as [idxs| |] eqn:D; cbn [bind] in H; try discriminate.
  injection H as <-. destruct (dedup_idx_ok_inv _ _ _ _ _ D) as [ks [_ [_ [_ [Hs Hrng]]]]].
  rewrite (rows_pick f idxs Hr Hrng). apply sub_ms_pick; [now apply sorted_lt_nodup|].
  now rewrite (Proof_C08.rows_length f Hr).
Qed.
Lemma dropna_sub f g : rect f = true -> op_dropna f = Ok g -> sub_ms (rows g) (rows f).
Proof. intros Hr H. rewrite (dropna_rows f g Hr H). apply sub_ms_filter. Qed.
Lemma droprow_sub f i g : rect f = true -> op_droprow f i = Ok g -> sub_ms (rows g) (rows f).
Proof.
  intros Hr H.
  assert (Hc : row_in_range f i \/ ~ row_in_range f i) by (unfold row_in_range; lia).
  destruct Hc as [Hc|Hc].
  - destruct (op_droprow_rows f i Hr Hc) as [g' [E [R _]]]. rewrite E in H. injection H as <-.
    rewrite R. apply sub_ms_remove_nth.
  - apply (op_droprow_err_iff f i Hr) in Hc. congruence.
Qed.

(* ---- 7b. Shift: every result row is a whole source row or all nil (any offset, wrapped or not) ---- *)

Lemma shift_col_nth_cell p d i : (i < length d)%nat -> nth i (shift_col p d) CNil = shift_cell d p i.
Proof.
  intros H. unfold shift_col.
  rewrite nth_indep with (d' := shift_cell d p 0%nat) by now rewrite map_length, seq_length.
  rewrite map_nth. now rewrite seq_nth.
Qed.

Lemma nrows_shift f p : nrows (op_shift f p) = nrows f.
Proof. destruct f as [|[k c] t]; [reflexivity|]. cbn [op_shift rekey_cols map nrows snd cdata]. apply shift_col_length. Qed.

Lemma row_in_rows f i : rect f = true -> (i < nrows f)%nat -> row_in (Proof_C08.row_at f i) (rows f) = true.
Proof.
  intros Hr Hi. unfold row_in. apply existsb_exists. exists (Proof_C08.row_at f i). split; [|apply row_same_refl].
  rewrite (Proof_C08.rows_rect f Hr). apply in_map. apply in_seq. lia.
Qed.

Lemma shift_aligned f p : rect f = true ->
  forallb (fun r => row_in r (rows f) || row_all_nil r) (rows (op_shift f p)) = true.
Proof.
  intros Hr. pose proof (op_shift_rect f p Hr) as Hr'.
  rewrite (Proof_C08.rows_rect _ Hr'), nrows_shift. apply forallb_forall. intros r Hin.
  apply in_map_iff in Hin. destruct Hin as [i [<- Hi]]. apply in_seq in Hi.
  assert (Hi' : (i < nrows f)%nat) by lia. clear Hi.
  set (j := wrap64 (Z.of_nat i - p)).
  assert (E : Proof_C08.row_at (op_shift f p) i =
              map (fun kc : str * col => (fst kc,
                 if (0 <=? j) && (j <? Z.of_nat (nrows f))
                 then nth (Z.to_nat j) (cdata (snd kc)) CNil else CNil)) f).
  { unfold Proof_C08.row_at, op_shift, rekey_cols. rewrite map_map. apply map_ext_in. intros kc Hkc.
    cbn [fst snd cdata]. f_equal. pose proof (rect_length f kc Hr Hkc) as L.
    rewrite shift_col_nth_cell by lia. unfold shift_cell. cbv zeta. fold j. rewrite L.
    destruct ((0 <=? j) && (j <? Z.of_nat (nrows f))) eqn:C; [|reflexivity].
    apply andb_prop in C. destruct C as [C1 C2]. apply Z.leb_le in C1. apply Z.ltb_lt in C2.
    now rewrite (nth_opt_nth _ _ CNil) by lia. }
  rewrite E. destruct ((0 <=? j) && (j <? Z.of_nat (nrows f))) eqn:C.
  - apply andb_prop in C. destruct C as [C1 C2]. apply Z.leb_le in C1. apply Z.ltb_lt in C2.
    apply orb_true_intro. left. apply (row_in_rows f (Z.to_nat j) Hr). lia.
  - apply orb_true_intro. right. unfold row_all_nil. apply forallb_forall. intros kv Hkv.
    apply in_map_iff in Hkv. destruct Hkv as [kc [<- _]]. reflexivity.
Qed.

(* ---- 7c. projections: Loc, Iloc, MultiSelect, DropColumn ---- *)

Lemma fget_row_at f i k :
  fget (Proof_C08.row_at f i) k = option_map (fun c : col => nth i (cdata c) CNil) (fget f k).
Proof. unfold Proof_C08.row_at. exact (fget_map_vals (fun c0 : col => nth i (cdata c0) CNil) f k). Qed.

Lemma fget_of_in_sorted {A} (f : list (str * A)) k c :
  sorted_keys (fkeys f) = true -> In (k, c) f -> fget f k = Some c.
Proof.
  induction f as [|[k0 c0] t IH]; intros Hs Hin; [destruct Hin|].
  change (sorted_keys (k0 :: fkeys t) = true) in Hs. cbn [fget].
  destruct Hin as [E|Hin].
  - injection E as -> ->. now rewrite str_eqb_refl.
  - destruct (str_eqb k k0) eqn:E.
    + apply str_eqb_eq in E. subst k0.
      assert (L : str_ltb k k = true).
      { apply (sk_head_lt _ _ Hs). unfold fkeys. apply in_map_iff. exists (k, c). now split. }
      now rewrite str_ltb_irrefl in L.
    + apply IH; [now apply sk_tail in Hs | assumption].
Qed.

Lemma WF_nrows g n : WF g n -> g <> [] -> nrows g = n.
Proof.
  intros [_ H] Hne. destruct g as [|[k c] t]; [congruence|]. cbn [nrows]. apply (H k c). now left.
Qed.
Lemma WF_rect g n : WF g n -> rect g = true.
Proof. intros H. apply Proof_C20.wf_rect. now apply (wf_of_WF g n). Qed.

(* every column of g is a column of f under the same key, and g is no longer than f *)
Lemma proj_cols_aligned f g : rect f = true -> rect g = true ->
  (g <> [] -> (nrows g <= nrows f)%nat) ->
  (forall k c, In (k, c) g -> fget f k = Some c) ->
  forallb (fun r => existsb (row_proj_of r) (rows f)) (rows g) = true.
Proof.
  intros Hr Hr' Hn Hc. rewrite (Proof_C08.rows_rect g Hr'). apply forallb_forall. intros r Hin.
  apply in_map_iff in Hin. destruct Hin as [i [<- Hi]]. apply in_seq in Hi.
  assert (Hne : g <> []) by (intros ->; cbn in Hi; lia).
  specialize (Hn Hne).
  apply existsb_exists. exists (Proof_C08.row_at f i). split.
  - rewrite (Proof_C08.rows_rect f Hr). apply in_map, in_seq. lia.
  - unfold row_proj_of. apply forallb_forall. intros kv Hkv.
    unfold Proof_C08.row_at in Hkv at 1. apply in_map_iff in Hkv. destruct Hkv as [[k c] [<- Hkc]].
    cbn [fst snd]. rewrite fget_row_at, (Hc k c Hkc). cbn [option_map]. apply cell_same_refl.
Qed.

Lemma dropcolumn_aligned f n g : wf_frame f = true -> op_dropcolumn f n = Ok g ->
  forallb (fun r => existsb (row_proj_of r) (rows f)) (rows g) = true.
Proof.
  intros Hwf H. unfold op_dropcolumn in H. destruct (fhas f n); [|discriminate]. injection H as <-.
  pose proof (WF_of_wf f Hwf) as W. pose proof (WF_fdel f (nrows f) n W) as W'.
  apply proj_cols_aligned.
  - now apply Proof_C20.wf_rect.
  - exact (WF_rect _ _ W').
  - intros Hne. rewrite (WF_nrows _ _ W' Hne). lia.
  - intros k c Hin. apply fget_of_in_sorted; [exact (proj1 W) | now apply fdel_in in Hin].
Qed.

Lemma multiselect_aligned f names g : wf_frame f = true -> op_multiselect f names = Ok g ->
  forallb (fun r => existsb (row_proj_of r) (rows f)) (rows g) = true.
Proof.
  intros Hwf H. pose proof (WF_of_wf f Hwf) as W. unfold op_multiselect in H.
  destruct (null names); [discriminate|].
  destruct (all_some (map (fget f) names)) as [cs|] eqn:E; [|discriminate]. injection H as <-.
  assert (Hcs : forall c, In c cs -> fget f (cname c) = Some c /\ length (cdata c) = nrows f).
  { intros c Hin. apply (all_some_in _ _ _ E) in Hin. apply in_map_iff in Hin.
    destruct Hin as [k [G _]]. destruct (WF_fget _ _ _ _ W G) as [Hn Hl]. subst k. now split. }
  set (G := fold_left (fun acc c => if fhas acc (cname c) then acc else fset acc (cname c) c) cs []).
  assert (W' : WF G (nrows f)).
  { apply WF_multiselect_fold; [apply WF_nil|]. intros c Hin. now apply Hcs. }
  apply proj_cols_aligned.
  - now apply Proof_C20.wf_rect.
  - exact (WF_rect _ _ W').
  - intros Hne. rewrite (WF_nrows _ _ W' Hne). lia.
  - unfold G. apply (Proof_C01b.fold_left_inv (fun acc : frame => forall k c, In (k, c) acc -> fget f k = Some c)).
    + intros k c [].
    + intros acc c Hin Hacc k c' Hkc. destruct (fhas acc (cname c)); [now apply Hacc|].
      apply fset_in in Hkc. destruct Hkc as [Ekc|Hkc]; [|now apply Hacc].
      injection Ekc as -> ->. now apply Hcs.
Qed.

(* a row all of whose cells are read from src under keys src has *)
Lemma proj_of_rget (src r : rowmap) :
  (forall k v, In (k, v) r -> fhas src k = true /\ v = rget src k) -> row_proj_of r src = true.
Proof.
  intros H. unfold row_proj_of. apply forallb_forall. intros [k v] Hin. cbn [fst snd].
  destruct (H k v Hin) as [Hh ->]. unfold fhas in Hh. unfold rget.
  destruct (fget src k) as [c|]; [apply cell_same_refl | discriminate].
Qed.

Lemma frame_of_rows_cols names rs k c : In (k, c) (frame_of_rows names rs) ->
  In k names /\ c = (k, map (fun r => rget r k) rs).
Proof.
  unfold frame_of_rows. induction names as [|n names IH]; cbn [fold_right]; [intros []|].
  intros H. apply fset_in in H. destruct H as [E|H].
  - injection E as -> ->. split; [now left | reflexivity].
  - destruct (IH H) as [H1 H2]. split; [now right | assumption].
Qed.

Lemma fhas_row_at f i k : fhas (Proof_C08.row_at f i) k = fhas f k.
Proof. unfold fhas. rewrite fget_row_at. now destruct (fget f k). Qed.

Lemma frame_of_rows_aligned f names idxs : rect f = true ->
  Forall (fun i => (i < nrows f)%nat) idxs -> forallb (fhas f) names = true ->
  forallb (fun r => existsb (row_proj_of r) (rows f))
          (rows (frame_of_rows names (map (row_or_empty f) idxs))) = true.
Proof.
  intros Hr Hrng Hnames. set (rs := map (row_or_empty f) idxs). set (G := frame_of_rows names rs).
  pose proof (WF_frame_of_rows names rs) as W. fold G in W.
  rewrite (Proof_C08.rows_rect G (WF_rect _ _ W)). apply forallb_forall. intros r Hin.
  apply in_map_iff in Hin. destruct Hin as [j [<- Hj]]. apply in_seq in Hj.
  assert (Hne : G <> []) by (intros E; rewrite E in Hj; cbn in Hj; lia).
  rewrite (WF_nrows _ _ W Hne) in Hj. unfold rs in Hj. rewrite map_length in Hj.
  set (I := nth j idxs 0%nat).
  assert (HI : (I < nrows f)%nat).
  { rewrite Forall_forall in Hrng. apply Hrng. apply nth_In. lia. }
  assert (Ers : nth j rs [] = Proof_C08.row_at f I).
  { unfold rs. rewrite nth_indep with (d' := row_or_empty f 0%nat) by (rewrite map_length; lia).
    rewrite map_nth. fold I. apply row_or_empty_rect; [assumption | exact HI]. }
  apply existsb_exists. exists (Proof_C08.row_at f I). split.
  - rewrite (Proof_C08.rows_rect f Hr). apply in_map, in_seq. lia.
  - apply proj_of_rget. intros k v Hkv. unfold Proof_C08.row_at in Hkv at 1.
    apply in_map_iff in Hkv. destruct Hkv as [[k' c] [E Hkc]]. cbn [fst snd] in E. injection E as -> <-.
    destruct (frame_of_rows_cols _ _ _ _ Hkc) as [Hk ->]. split.
    + rewrite fhas_row_at. rewrite forallb_forall in Hnames. now apply Hnames.
    + cbn [cdata snd]. rewrite <- Ers. exact (map_nth (fun r => rget r k) rs [] j).
Qed.

Lemma loc_aligned f labels cols g : rect f = true -> op_loc f labels cols = Ok g ->
  forallb (fun r => existsb (row_proj_of r) (rows f)) (rows g) = true.
Proof.
  intros Hr H. unfold op_loc in H.
  destruct (forallb (fhas f) cols) eqn:Hc; cbn [negb] in H; [|discriminate].
  destruct (fget f index_name) as [ic|]; [|discriminate].
  destruct (negb (null labels) && negb (Nat.leb (nrows f) (length (cdata ic)))); [discriminate|].
  cbv zeta in H. injection H as <-. apply frame_of_rows_aligned; [assumption| |assumption].
  apply Forall_forall. intros i Hi. apply in_flat_map in Hi. destruct Hi as [x [Hx Hi]].
  apply in_seq in Hx. destruct (nth_opt (cdata ic) x); [|destruct Hi].
  apply repeat_spec in Hi. subst i. lia.
Qed.

Lemma iloc_aligned f rws cls g : rect f = true -> op_iloc f rws cls = Ok g ->
  forallb (fun r => existsb (row_proj_of r) (rows f)) (rows g) = true.
Proof.
  intros Hr H. unfold op_iloc in H. cbv zeta in H.
  destruct (all_some (map (zidx (fkeys f)) cls)) as [cols|] eqn:E; [|discriminate].
  destruct (forallb (fun r => (0 <=? r) && (r <? Z.of_nat (nrows f))) rws) eqn:Hrw; [|discriminate].
  injection H as <-.
  replace (map (fun r => row_or_empty f (Z.to_nat r)) rws) with (map (row_or_empty f) (map Z.to_nat rws))
    by now rewrite map_map.
  apply frame_of_rows_aligned; [assumption| |].
  - apply Forall_forall. intros i Hi. apply in_map_iff in Hi. destruct Hi as [z [<- Hz]].
    rewrite forallb_forall in Hrw. specialize (Hrw z Hz). apply andb_prop in Hrw. destruct Hrw as [H1 H2].
    apply Z.leb_le in H1. apply Z.ltb_lt in H2. lia.
  - apply forallb_forall. intros k Hk. apply (all_some_in _ _ _ E) in Hk. apply in_map_iff in Hk.
    destruct Hk as [z [Hz _]]. apply fhas_in. unfold zidx in Hz.
    destruct ((0 <=? z) && (z <? Z.of_nat (length (fkeys f)))); [|discriminate].
    eapply Proof_C06.nth_opt_in; eauto.
Qed.

(* ---- 7d. AppendRow: the old rows are projections of the first nrows new rows ---- *)

Lemma list_eqb_map2 {A B} (e : B -> B -> bool) (F1 F2 : A -> B) l :
  (forall x, In x l -> e (F1 x) (F2 x) = true) -> list_eqb e (map F1 l) (map F2 l) = true.
Proof.
  induction l as [|x l IH]; intros H; [reflexivity|]. cbn [map list_eqb].
  rewrite (H x (or_introl eq_refl)). cbn [andb]. apply IH. intros y Hy. apply H. now right.
Qed.

Lemma fget_map_key {A B} (h : str -> A -> B) (f : list (str * A)) k :
  fget (map (fun kc => (fst kc, h (fst kc) (snd kc))) f) k = option_map (h k) (fget f k).
Proof.
  induction f as [|[k' c'] t IH]; [reflexivity|]. cbn [map fget fst snd].
  destruct (str_eqb k k') eqn:E; [|exact IH]. apply str_eqb_eq in E. now subst k'.
Qed.

Lemma fhas_true_neq {A} (f : list (str * A)) k k' : fhas f k = true -> fhas f k' = false -> k <> k'.
Proof. intros H1 H2 E. subst k'. congruence. Qed.

Lemma append_fold_fget n (r : rowmap) k c : forall acc : frame, fget acc k = Some c ->
  fget (fold_left (fun acc kv => if fhas acc (fst kv) then acc
                                 else fset acc (fst kv) (fst kv, repeat CNil n)) r acc) k = Some c.
Proof.
  induction r as [|kv r IH]; intros acc H; cbn [fold_left]; [assumption|]. apply IH. cbv beta.
  match goal with |- context [if ?b then _ else _] => destruct b eqn:E end; [assumption|].
  rewrite Proof_C15.fget_fset_other; [assumption|].
  apply (fhas_true_neq acc); [unfold fhas; now rewrite H | assumption].
Qed.

Lemma append_row_aligned f r : wf_frame f = true ->
  list_eqb (fun a b => row_proj_of a b) (rows f) (firstn (nrows f) (rows (op_append_row f r))) = true.
Proof.
  intros Hwf. destruct f as [|kc0 t] eqn:Ef; [reflexivity|]. rewrite <- Ef in *.
  assert (Hne : f <> []) by (rewrite Ef; discriminate). clear Ef kc0 t.
  pose proof (Proof_C20.wf_rect f Hwf) as Hr. pose proof (WF_of_wf f Hwf) as W.
  pose proof (WF_append_row f r Hwf) as W'. pose proof (nrows_append_row f r Hwf Hne) as Hn.
  set (g := op_append_row f r) in *.
  rewrite (Proof_C08.rows_rect g (WF_rect _ _ W')), Hn, (Proof_C08.rows_rect f Hr).
  rewrite seq_S, map_app, firstn_app, map_length, seq_length, Nat.sub_diag. cbn [firstn].
  rewrite app_nil_r, firstn_all2 by (rewrite map_length, seq_length; lia).
  apply list_eqb_map2. intros i Hi. apply in_seq in Hi.
  unfold row_proj_of. apply forallb_forall. intros kv Hkv.
  unfold Proof_C08.row_at in Hkv at 1. apply in_map_iff in Hkv. destruct Hkv as [[k c] [<- Hkc]].
  cbn [fst snd]. rewrite fget_row_at.
  assert (G : fget f k = Some c) by (apply fget_of_in_sorted; [exact (proj1 W) | assumption]).
  unfold g, op_append_row. cbv zeta.
  rewrite (fget_map_key (fun k0 (c0 : col) => (cname c0, cdata c0 ++ [rget r k0]))).
  match goal with |- context [option_map _ ?X] =>
    assert (GF : X = Some c) by (apply append_fold_fget; exact G); rewrite GF end.
  cbn [option_map cdata snd].
  destruct (proj2 W k c Hkc) as [_ L]. rewrite app_nth1 by lia. apply cell_same_refl.
Qed.

(* ---- 7e. the edits that keep the number of rows ---- *)

Lemma fset_ne {A} (f : list (str * A)) k c : fset f k c <> [].
Proof. destruct f as [|[k0 c0] t]; cbn [fset]; [discriminate|]. destruct (str_compare k k0); discriminate. Qed.

Lemma nrows_only_ok f g : WF g (nrows f) -> g <> [] ->
  Nat.eqb (nrows g) (nrows f) || Nat.eqb (ncols f) 0 = true.
Proof. intros W Hne. rewrite (WF_nrows _ _ W Hne), Nat.eqb_refl. reflexivity. Qed.

Lemma fillna_aligned f v : Nat.eqb (nrows (op_fillna f v)) (nrows f) || Nat.eqb (ncols f) 0 = true.
Proof. now rewrite fillna_nrows, Nat.eqb_refl. Qed.

Lemma astype_aligned O f cn ty g : wf_frame f = true -> op_astype O f cn ty = Ok g ->
  Nat.eqb (nrows g) (nrows f) || Nat.eqb (ncols f) 0 = true.
Proof.
  intros Hwf H. apply WF_of_wf in Hwf. unfold op_astype in H.
  destruct (fget f cn) as [c|] eqn:G; [|discriminate]. unfold bind in H.
  destruct (out_all (map (astype_cell O ty) (cdata c))) as [d| |] eqn:E; try discriminate.
  injection H as <-. destruct (WF_fget _ _ _ _ Hwf G) as [Hn Hl].
  apply nrows_only_ok; [|apply fset_ne]. apply WF_fset; [assumption | exact Hn |].
  cbn [cdata snd]. apply out_all_length in E. now rewrite E, map_length.
Qed.

Lemma datetime_aligned O f cn layout g : wf_frame f = true -> op_datetime O f cn layout = Ok g ->
  Nat.eqb (nrows g) (nrows f) || Nat.eqb (ncols f) 0 = true.
Proof.
  intros Hwf H. apply WF_of_wf in Hwf. unfold op_datetime in H.
  destruct (fget f cn) as [c|] eqn:G; [|discriminate]. unfold bind in H.
  destruct (out_all _) as [d| |] eqn:E; try discriminate.
  injection H as <-. destruct (WF_fget _ _ _ _ Hwf G) as [Hn Hl].
  apply nrows_only_ok; [|apply fset_ne]. apply WF_fset; [assumption | exact Hn |].
  cbn [cdata snd]. apply out_all_length in E. now rewrite E, map_length.
Qed.

Lemma setcell_aligned f cn i v g : wf_frame f = true -> op_setcell f cn i v = Ok g ->
  Nat.eqb (nrows g) (nrows f) || Nat.eqb (ncols f) 0 = true.
Proof.
  intros Hwf H. apply WF_of_wf in Hwf. unfold op_setcell in H.
  destruct (fget f cn) as [c|] eqn:G; [|discriminate].
  destruct ((0 <=? i) && (i <? Z.of_nat (length (cdata c)))); [|discriminate].
  injection H as <-. destruct (WF_fget _ _ _ _ Hwf G) as [Hn Hl].
  apply nrows_only_ok; [|apply fset_ne]. apply WF_fset; [assumption | exact Hn |].
  cbn [cdata snd]. now rewrite Proof_C01a.set_nth_length.
Qed.

Lemma rename_aligned f a b g : wf_frame f = true -> op_rename f a b = Ok g ->
  Nat.eqb (nrows g) (nrows f) || Nat.eqb (ncols f) 0 = true.
Proof.
  intros Hwf H. apply WF_of_wf in Hwf. unfold op_rename in H.
  destruct (fget f a) as [c|] eqn:G; [|discriminate].
  destruct (fhas f b); [discriminate|]. injection H as <-.
  destruct (WF_fget _ _ _ _ Hwf G) as [Hn Hl].
  apply nrows_only_ok; [|apply fset_ne]. apply WF_fset; [now apply WF_fdel | reflexivity | exact Hl].
Qed.

(* AddColumn: the premise of C01 on the user's column (op_ok) is needed here as well *)
Lemma addcolumn_aligned f n d g : wf_frame f = true -> Nat.eqb (length d) (nrows f) || null f = true ->
  op_addcolumn f n d = Ok g -> Nat.eqb (nrows g) (nrows f) || Nat.eqb (ncols f) 0 = true.
Proof.
  intros Hwf Hd H. unfold op_addcolumn in H. destruct (fhas f n); [discriminate|]. injection H as <-.
  apply orb_prop in Hd. destruct Hd as [Hd|Hd].
  - apply Nat.eqb_eq in Hd. apply WF_of_wf in Hwf.
    apply nrows_only_ok; [|apply fset_ne]. now apply WF_fset.
  - destruct f; [|discriminate]. apply orb_true_r.
Qed.

(* without it the checker rejects the model's own output: a short column in front *)
Example addcolumn_aligned_needs_op_ok :
  let O := {| o_pf := []; o_fmt := []; o_tparse := [] |} in
  let f := [([98%N], ([98%N], [CI KInt 1; CI KInt 2]))] in
  let o := OAddColumn 0 [97%N] [] in
  wf_pool [f] = true /\ op_ok [f] o = false
  /\ c01_aligned [f] o (fst (step O [f] o)) (snd (step O [f] o)) = false.
Proof. vm_compute. repeat split. Qed.

(* ---- 7f. the operations on which c01_aligned checks nothing ---- *)

Definition aligned_unchecked (o : op) : bool :=
  match o with
  | OJoin _ _ _ _ | OAdd _ _ _ | OApply _ _ _ | ODescribe _ | OResample _ _ _ _ | OGroupAgg _ _ _ _
  | OFromCSV _ | OCsvRoundTrip _ | OGroupby _ _ | OToCSV _ | ORow _ _ | OColumnNames _ | ONrows _
  | ONcols _ | OAgg _ _ | OString _ | OSelect _ _ | OColAt _ _ _ | OSeries _ _ _
  | OPlot _ _ _ _ _ _ | OGroupbyOther _ _ | OIoFail _ _ => true
  | _ => false
  end.

Lemma aligned_trivial p o io post : aligned_unchecked o = true -> c01_aligned p o io post = true.
Proof.
  destruct o; intros H; try discriminate H; unfold c01_aligned; cbn [op_source]; try reflexivity;
    destruct (result_frame _ io post); try reflexivity; destruct (nth_opt p _); reflexivity.
Qed.

(* ---- 7g. assembly: all 36 operations ---- *)

Ltac with_src p i Hp f Hf Hwf Hr :=
  unfold with_frame; destruct (nth_opt p i) as [f|] eqn:Hf; [|reflexivity];
  pose proof (Proof_C01.wf_pool_nth _ _ _ Hp Hf) as Hwf; pose proof (Proof_C20.wf_rect f Hwf) as Hr.

Ltac derived_ok Hf :=
  cbn [derive fst snd]; unfold c01_aligned; cbn [op_source result_frame]; rewrite Hf.
Ltac edited_ok p i f g Hf :=
  cbn [edit fst snd]; unfold c01_aligned; cbn [op_source result_frame op_target];
  rewrite (nth_opt_set_same p g i f Hf), Hf.

Theorem spec_c01_aligned_model O p o : wf_pool p = true -> op_ok p o = true ->
  c01_aligned p o (fst (step O p o)) (snd (step O p o)) = true.
Proof.
  intros Hp Hok.
  destruct o as [i n|i n|i a b|i keep|i labels cols|i rws cls|i names|i by_ asc|i n
                |i has_opt subset keep|k i j key|i j fill|i fn axis|i|i tcol freq agg|i gk a cols|b|i
                |i gk|i|i n|i|i|i|i k|i|i nm|i nm n|i nm n|bar i x y pk rk|i acc|i rep|i r|i n|i v|i|i cn ty|i cn layout|i a b|i n d|i n|i cn n v
                |i subset keep];
    try (apply aligned_trivial; reflexivity); cbn [step].
  - (* Head *) with_src p i Hp f Hf Hwf Hr.
    destruct (op_head f n) as [g| |] eqn:E; [|reflexivity|reflexivity]. derived_ok Hf.
    apply sub_multiset_complete. eapply head_sub; eauto.
  - (* Tail *) with_src p i Hp f Hf Hwf Hr.
    destruct (op_tail f n) as [g| |] eqn:E; [|reflexivity|reflexivity]. derived_ok Hf.
    apply sub_multiset_complete. eapply tail_sub; eauto.
  - (* RowSlice *) with_src p i Hp f Hf Hwf Hr. derived_ok Hf.
    apply sub_multiset_complete. now apply rowslice_sub.
  - (* Filter *) destruct (nth_opt p i) as [f|] eqn:Hf; [|reflexivity].
    pose proof (Proof_C01.wf_pool_nth _ _ _ Hp Hf) as Hwf. pose proof (Proof_C20.wf_rect f Hwf) as Hr.
    cbv zeta. cbn [fst snd]. unfold c01_aligned; cbn [op_source result_frame]; rewrite Hf.
    apply sub_multiset_complete. now apply filter_sub.
  - (* Loc *) with_src p i Hp f Hf Hwf Hr.
    destruct (op_loc f labels cols) as [g| |] eqn:E; [|reflexivity|reflexivity]. derived_ok Hf.
    eapply loc_aligned; eauto.
  - (* Iloc *) with_src p i Hp f Hf Hwf Hr.
    destruct (op_iloc f rws cls) as [g| |] eqn:E; [|reflexivity|reflexivity]. derived_ok Hf.
    eapply iloc_aligned; eauto.
  - (* MultiSelect *) with_src p i Hp f Hf Hwf Hr.
    destruct (op_multiselect f names) as [g| |] eqn:E; [|reflexivity|reflexivity]. derived_ok Hf.
    eapply multiselect_aligned; eauto.
  - (* Sort *) with_src p i Hp f Hf Hwf Hr.
    destruct (op_sort O f by_ _) as [g| |] eqn:E; [|reflexivity|reflexivity]. derived_ok Hf.
    apply sub_multiset_complete. eapply sort_sub; eauto.
  - (* Shift *) with_src p i Hp f Hf Hwf Hr. derived_ok Hf. now apply shift_aligned.
  - (* Dedup *) with_src p i Hp f Hf Hwf Hr.
    destruct (op_dedup f has_opt subset keep) as [g| |] eqn:E; [|reflexivity|reflexivity]. derived_ok Hf.
    apply sub_multiset_complete. eapply dedup_sub; eauto.
  - (* AppendRow *) with_src p i Hp f Hf Hwf Hr. edited_ok p i f (op_append_row f r) Hf.
    now apply append_row_aligned.
  - (* DropRow *) with_src p i Hp f Hf Hwf Hr.
    destruct (op_droprow f n) as [g| |] eqn:E; [|reflexivity|reflexivity]. edited_ok p i f g Hf.
    apply sub_multiset_complete. eapply droprow_sub; eauto.
  - (* FillNa *) with_src p i Hp f Hf Hwf Hr. edited_ok p i f (op_fillna f v) Hf. apply fillna_aligned.
  - (* DropNa *) with_src p i Hp f Hf Hwf Hr.
    destruct (op_dropna f) as [g| |] eqn:E; [|reflexivity|reflexivity]. edited_ok p i f g Hf.
    apply sub_multiset_complete. eapply dropna_sub; eauto.
  - (* Astype *) with_src p i Hp f Hf Hwf Hr.
    destruct (op_astype O f cn ty) as [g| |] eqn:E; [|reflexivity|reflexivity]. edited_ok p i f g Hf.
    eapply astype_aligned; eauto.
  - (* Datetime *) with_src p i Hp f Hf Hwf Hr.
    destruct (op_datetime O f cn layout) as [g| |] eqn:E; [|reflexivity|reflexivity]. edited_ok p i f g Hf.
    eapply datetime_aligned; eauto.
  - (* Rename *) with_src p i Hp f Hf Hwf Hr.
    destruct (op_rename f a b) as [g| |] eqn:E; [|reflexivity|reflexivity]. edited_ok p i f g Hf.
    eapply rename_aligned; eauto.
  - (* AddColumn *) with_src p i Hp f Hf Hwf Hr. cbn [op_ok] in Hok. rewrite Hf in Hok.
    destruct (op_addcolumn f n d) as [g| |] eqn:E; [|reflexivity|reflexivity]. edited_ok p i f g Hf.
    eapply addcolumn_aligned; eauto.
  - (* DropColumn *) with_src p i Hp f Hf Hwf Hr.
    destruct (op_dropcolumn f n) as [g| |] eqn:E; [|reflexivity|reflexivity]. edited_ok p i f g Hf.
    eapply dropcolumn_aligned; eauto.
  - (* SetCell *) with_src p i Hp f Hf Hwf Hr.
    destruct (op_setcell f cn n v) as [g| |] eqn:E; [|reflexivity|reflexivity]. edited_ok p i f g Hf.
    eapply setcell_aligned; eauto.
  - (* DedupInplace *) with_src p i Hp f Hf Hwf Hr.
    destruct (op_dedup_inplace f subset keep) as [g| |] eqn:E; [|reflexivity|reflexivity]. edited_ok p i f g Hf.
    apply sub_multiset_complete. eapply dedup_inplace_sub; eauto.
Qed.

(* AddColumn is the only operation that needs the premise *)
Corollary spec_c01_aligned_model_no_addcolumn O p o : wf_pool p = true ->
  (match o with OAddColumn _ _ _ => false | _ => true end) = true ->
  c01_aligned p o (fst (step O p o)) (snd (step O p o)) = true.
Proof.
  intros Hp Ho. apply spec_c01_aligned_model; [assumption|]. destruct o; try reflexivity. discriminate.
Qed.

(* ========================================================================= *)
(* 8. C04: the model's single-key Groupby passes c04_partition and            *)
(*    c04_single_key                                                          *)
(* ========================================================================= *)

(* every group starts with the row that opened it, and is keyed by that row's key cell
   (any key function, NaN keys included) *)
Lemma group_add_first (kf : rowmap -> cell) r : forall G : groups,
  (forall key grp, In (key, grp) G -> exists r0 t, grp = r0 :: t /\ key = kf r0) ->
  forall key grp, In (key, grp) (group_add G (kf r) r) -> exists r0 t, grp = r0 :: t /\ key = kf r0.
Proof.
  induction G as [|[k' rs'] G IH]; intros HG key grp Hin; cbn [group_add] in Hin.
  - destruct Hin as [E|[]]. injection E as <- <-. now exists r, [].
  - destruct (cell_eqb (kf r) k').
    + destruct Hin as [E|Hin]; [|apply (HG key grp); now right].
      injection E as <- <-. destruct (HG k' rs' (or_introl eq_refl)) as [r0 [t [-> ->]]].
      now exists r0, (t ++ [r]).
    + destruct Hin as [E|Hin]; [apply (HG key grp); now left|].
      apply IH; [|assumption]. intros key' grp' H'. apply (HG key' grp'). now right.
Qed.

Lemma grp_first_key kf rs : forall key grp, In (key, grp) (grp_of kf rs) ->
  exists r0 t, grp = r0 :: t /\ key = kf r0.
Proof.
  induction rs as [|r rs IH] using rev_ind; [intros key grp []|].
  rewrite grp_of_snoc. now apply group_add_first.
Qed.

(* the greedy subsequence test: dropping the head of the candidate, or prepending to the
   reference list, keeps it true *)
Lemma is_subseq_TW l :
  (forall y a, is_subseq (y :: a) l = true -> is_subseq a l = true)
  /\ (forall x a, is_subseq a l = true -> is_subseq a (x :: l) = true).
Proof.
  induction l as [|x' l' [IHT IHW]].
  - split.
    + intros y a H. discriminate H.
    + intros x [|y a] H; [reflexivity | discriminate H].
  - assert (T : forall y a, is_subseq (y :: a) (x' :: l') = true -> is_subseq a (x' :: l') = true).
    { intros y a H. cbn [is_subseq] in H.
      destruct (row_same y x'); [now apply IHW | apply IHW; eapply IHT; eauto]. }
    split; [exact T|]. intros x [|y a] H; [reflexivity|].
    change (is_subseq (y :: a) (x :: x' :: l'))
      with (if row_same y x then is_subseq a (x' :: l') else is_subseq (y :: a) (x' :: l')).
    destruct (row_same y x); [eapply T; eauto | exact H].
Qed.

Lemma is_subseq_filter (q : rowmap -> bool) l : is_subseq (filter q l) l = true.
Proof.
  induction l as [|x l IH]; [reflexivity|]. cbn [filter]. destruct (q x).
  - cbn [is_subseq]. now rewrite row_same_refl.
  - now apply (proj2 (is_subseq_TW l)).
Qed.

(* first_tuples on one-cell tuples is first_occ on the cells *)
Lemma first_tuples_single l : forall (seen : list cell) (seenT : list (list cell)),
  (forall x, existsb (tuples_eqb [x]) seenT = existsb (cell_eqb x) seen) ->
  first_tuples (map (fun c => [c]) l) seenT = map (fun c => [c]) (first_occ_from seen l).
Proof.
  induction l as [|a l IH]; intros seen seenT H; [reflexivity|].
  cbn [map first_tuples first_occ_from]. rewrite (H a).
  assert (H' : forall x, existsb (tuples_eqb [x]) ([a] :: seenT) = existsb (cell_eqb x) (seen ++ [a])).
  { intros x. cbn [existsb]. rewrite existsb_app, (H x). cbn [existsb].
    unfold tuples_eqb. cbn [list_eqb]. rewrite andb_true_r, orb_false_r. apply orb_comm. }
  destruct (existsb (cell_eqb a) seen) eqn:E; [|cbn [map]; f_equal; now apply IH].
  apply IH. intros x. rewrite existsb_app, (H x). cbn [existsb]. rewrite orb_false_r.
  destruct (cell_eqb x a) eqn:K; [|now rewrite orb_false_r].
  now rewrite (existsb_eqb_trans _ _ _ K E).
Qed.

Section C04.
Variable k : str.
Let kf := fun r : rowmap => rget r k.

Lemma tuple_of_one r : tuple_of [k] r = [kf r].
Proof. reflexivity. Qed.

Theorem grp_single_key rs : c04_single_key k (grp_of kf rs) = true.
Proof.
  unfold c04_single_key. apply forallb_forall. intros [key grp] Hin. cbn [fst snd].
  destruct (grp_first_key kf rs key grp Hin) as [r0 [t [-> ->]]]. cbn [firstn forallb].
  unfold kf. now rewrite cell_same_refl.
Qed.

Theorem grp_partition f : rect f = true -> keys_proper kf (rows f) ->
  c04_partition f [k] (grp_of kf (rows f)) = true.
Proof.
  intros Hr Hp. unfold c04_partition. cbv zeta. set (rs := rows f) in *. set (G := grp_of kf rs).
  assert (Hspec : forall key grp, In (key, grp) G -> grp = filter (fun r => cell_eqb (kf r) key) rs)
    by (intros key grp Hin; now apply (groups_rows_spec kf rs key grp Hp)).
  apply andb_true_intro; split; [apply andb_true_intro; split; [apply andb_true_intro; split;
    [apply andb_true_intro; split|]|]|].
  - apply perm_rows_complete. apply groups_perm.
  - apply forallb_forall. intros [key grp] Hin. cbn [snd].
    now destruct (grp_first_key kf rs key grp Hin) as [r0 [t [-> _]]].
  - apply forallb_forall. intros [key grp] Hin. cbn [snd]. pose proof (Hspec key grp Hin) as E.
    destruct grp as [|r0 rest]; [reflexivity|]. apply forallb_forall. intros r Hr0.
    assert (H0 : In r0 (filter (fun r => cell_eqb (kf r) key) rs)) by (rewrite <- E; now left).
    assert (H1 : In r (filter (fun r => cell_eqb (kf r) key) rs)) by (rewrite <- E; now right).
    apply filter_In in H0. apply filter_In in H1. destruct H0 as [_ H0]. destruct H1 as [_ H1].
    rewrite !tuple_of_one. unfold tuples_eqb. cbn [list_eqb]. rewrite andb_true_r.
    eapply Proof_C04.cell_eqb_trans; [exact H0|]. now rewrite Proof_C04.cell_eqb_sym.
  - apply forallb_forall. intros [key grp] Hin. cbn [snd]. rewrite (Hspec key grp Hin).
    apply is_subseq_filter.
  - replace (map (tuple_of [k]) rs) with (map (fun c : cell => [c]) (map kf rs)) by now rewrite map_map.
    rewrite (first_tuples_single (map kf rs) [] []) by reflexivity.
    change (first_occ_from [] (map kf rs)) with (first_occ (map kf rs)).
    rewrite <- (groups_key_order kf rs). fold G. rewrite map_map.
    apply list_eqb_map2. intros [key grp] Hin. cbn [fst snd].
    destruct (grp_first_key kf rs key grp Hin) as [r0 [t [-> ->]]].
    rewrite tuple_of_one. unfold tuples_eqb. cbn [list_eqb]. rewrite andb_true_r.
    assert (Hin0 : In r0 rs).
    { eapply Permutation_in; [apply (groups_perm kf rs)|]. apply in_concat.
      exists (r0 :: t). split; [|now left]. apply in_map_iff. exists (kf r0, r0 :: t). now split. }
    unfold keys_proper in Hp. rewrite Forall_forall in Hp. exact (Hp r0 Hin0).
Qed.
End C04.

Theorem spec_c04_model O f k g : rect f = true -> fhas f k = true -> key_col_proper f k = true ->
  op_groupby O f (GOne k) = Ok g -> c04_partition f [k] g = true /\ c04_single_key k g = true.
Proof.
  intros Hr Hh Hp Hg. rewrite (groupby_one_ok O f k Hr Hh) in Hg. injection Hg as <-. split.
  - apply grp_partition; [assumption|]. now apply key_col_proper_rows.
  - apply grp_single_key.
Qed.

(* the single-key half needs no premise on the key cells *)
Theorem spec_c04_single_key_model O f k g : rect f = true ->
  op_groupby O f (GOne k) = Ok g -> c04_single_key k g = true.
Proof.
  intros Hr Hg. destruct (fhas f k) eqn:Hh.
  - rewrite (groupby_one_ok O f k Hr Hh) in Hg. injection Hg as <-. apply grp_single_key.
  - apply (groupby_one_err O f k Hr) in Hh. congruence.
Qed.

(* why the premise on the key cells is needed: a NaN key is not == to itself, so the last
   conjunct of c04_partition (keys in first-appearance order, compared with Go ==) rejects
   the model's own output *)
Example c04_partition_nan_key :
  let O := {| o_pf := []; o_fmt := []; o_tparse := [] |} in
  let f := [([107%N], ([107%N], [CF KF64 FNaN; CI KInt 1]))] in
  rect f = true /\ fhas f [107%N] = true /\ key_col_proper f [107%N] = false
  /\ match op_groupby O f (GOne [107%N]) with
     | Ok g => c04_partition f [[107%N]] g = false /\ c04_single_key [107%N] g = true
     | _ => False end.
Proof. vm_compute. repeat split. Qed.

(* ========================================================================= *)
(* 9. the whole check of one step, and of a history, on the model's output    *)
(* ========================================================================= *)

(* the delta that lists every position of the post-state *)
Definition full_delta (q : pool) : list (nat * frame) := combine (seq 0 (length q)) q.

Lemma set_nth_middle {A} (q1 p2 : list A) y x : set_nth (q1 ++ y :: p2) (length q1) x = q1 ++ x :: p2.
Proof. induction q1 as [|a q1 IH]; cbn [app length set_nth]; [reflexivity | now rewrite IH]. Qed.

Lemma apply_delta_gen : forall (q2 q1 p2 : pool),
  apply_delta (q1 ++ p2) (combine (seq (length q1) (length q2)) q2) = q1 ++ q2 ++ skipn (length q2) p2.
Proof.
  unfold apply_delta. induction q2 as [|x q2 IH]; intros q1 p2; [reflexivity|].
  cbn [length seq combine fold_left fst snd].
  destruct p2 as [|y p2].
  - rewrite app_nil_r, Nat.ltb_irrefl.
    specialize (IH (q1 ++ [x]) []). rewrite app_nil_r, app_length, Nat.add_1_r in IH. rewrite IH.
    rewrite !skipn_nil, <- app_assoc. reflexivity.
  - assert (L : Nat.ltb (length q1) (length (q1 ++ y :: p2)) = true)
      by (apply Nat.ltb_lt; rewrite app_length; cbn [length]; lia).
    rewrite L, set_nth_middle.
    specialize (IH (q1 ++ [x]) p2). rewrite app_length, Nat.add_1_r, <- app_assoc in IH. cbn [app] in IH.
    rewrite IH, <- app_assoc. reflexivity.
Qed.

Lemma apply_delta_full p q : (length p <= length q)%nat -> apply_delta p (full_delta q) = q.
Proof.
  intros H. unfold full_delta. pose proof (apply_delta_gen q [] p) as E. cbn [app length] in E.
  rewrite E, skipn_all2 by exact H. apply app_nil_r.
Qed.

Lemma step_length_ge O p o : (length p <= length (snd (step O p o)))%nat.
Proof.
  assert (D : forall r, (length p <= length (snd (derive p r)))%nat).
  { intros [f| |]; cbn [derive snd]; [rewrite app_length|..]; lia. }
  assert (E : forall i r, (length p <= length (snd (edit p i r)))%nat).
  { intros i [f| |]; cbn [edit snd]; [rewrite Proof_C01a.set_nth_length|..]; lia. }
  destruct o; cbn [step]; try apply D; try apply E; try (cbn [observe snd]; lia).
  destruct (nth_opt p f); cbn [snd]; [rewrite app_length|]; lia.
Qed.

(* the premises of sections 4, 6 and 8, as one decidable predicate on the state and the call:
   Sort: the sort columns do not mix numbers with text and hold no NaN;
   Shift: an int64 offset, fewer than 2^63 rows;
   Groupby(k): no NaN in the key column;
   Groupby(list): the partition check itself (the rendered-text key of the code is not the
   tuple key of the specification - defects D of DESIGN.md - so nothing is claimed here) *)
Definition side_okb (O : oracles) (p : pool) (o : op) : bool :=
  match o with
  | OSort i by_ _ =>
    match nth_opt p i with
    | Some f => negb (forallb (fhas f) by_) || sort_cols_okb O f by_
    | None => true end
  | OShift i n =>
    (- two63 <=? n) && (n <? two63)
    && match nth_opt p i with
       | Some f => forallb (fun kc => Z.of_nat (length (cdata (snd kc))) <? two63) f
       | None => true end
  | OGroupby i (GOne k) =>
    match nth_opt p i with Some f => negb (fhas f k) || key_col_proper f k | None => true end
  | OGroupby i (GList ks) =>
    match nth_opt p i with
    | Some f => match op_groupby O f (GList ks) with Ok g => c04_partition f ks g | _ => true end
    | None => true end
  | _ => true
  end.

Lemma sort_keys_same_refl g by_ : sort_keys_same g g by_ = true.
Proof.
  unfold sort_keys_same. apply forallb_forall. intros k _.
  destruct (fget g k); [apply cells_same_refl | reflexivity].
Qed.

(* codes 1, 2 and 40 *)
Lemma corr_model O p o : wf_pool p = true -> side_okb O p o = true ->
  match o with
  | OSort i by_ asc => check_sort O p i by_ asc (fst (step O p o)) (fst (step O p o)) (snd (step O p o))
  | _ => (if out_same (fst (step O p o)) (fst (step O p o)) then [] else [1%nat])
         ++ (if pool_same (snd (step O p o)) (snd (step O p o)) then [] else [2%nat])
  end = [].
Proof.
  intros Hp Hside.
  destruct o as [i n|i n|i a b|i keep|i labels cols|i rws cls|i names|i by_ asc|i n
                |i has_opt subset keep|k i j key|i j fill|i fn axis|i|i tcol freq agg|i gk a cols|b|i
                |i gk|i|i n|i|i|i|i k|i|i nm|i nm n|i nm n|bar i x y pk rk|i acc|i rep|i r|i n|i v|i|i cn ty|i cn layout|i a b|i n d|i n|i cn n v
                |i subset keep];
    try (rewrite out_same_refl, pool_same_refl; reflexivity).
  cbn [step side_okb] in *. unfold check_sort, with_frame. cbv zeta.
  destruct (nth_opt p i) as [f|] eqn:Hf.
  - pose proof (Proof_C01.wf_pool_nth _ _ _ Hp Hf) as Hwf.
    destruct (op_sort O f by_ _) as [g| |] eqn:E; cbn [derive fst snd].
    + assert (Hcols : sort_cols_ok O f by_).
      { apply sort_cols_okb_spec. unfold op_sort in E.
        destruct (forallb (fhas f) by_); cbn [negb orb] in *; [assumption | discriminate]. }
      rewrite (spec_sort_model O f g by_ _ Hwf Hcols E), sort_keys_same_refl, pool_same_refl. reflexivity.
    + now rewrite pool_same_refl.
    + exfalso. exact (op_sort_no_panic O f by_ _ E).
  - cbn [derive fst snd]. now rewrite pool_same_refl.
Qed.

(* codes 41 and 42 *)
Lemma special_model O p o mo mp : wf_pool p = true -> side_okb O p o = true -> step O p o = (mo, mp) ->
  match o, mo, nth_opt p (match op_source o with Some i => i | None => 0%nat end) with
  | OShift _ n, Ok (VFrame g), Some f => if shift_spec f g n then [] else [41%nat]
  | OGroupby _ gk, Ok (VGroups g), Some f =>
    if c04_partition f (gkey_cols gk) g && (match gk with GOne k => c04_single_key k g | GList _ => true end)
    then []
    else 42%nat :: (match gk, mo with
                    | GList _, Ok (VGroups m) => if val_same (VGroups m) (VGroups g) then [43%nat] else []
                    | _, _ => []
                    end)
  | _, _, _ => []
  end = [].
Proof.
  intros Hp Hside Es.
  destruct o as [i n|i n|i a b|i keep|i labels cols|i rws cls|i names|i by_ asc|i n
                |i has_opt subset keep|k i j key|i j fill|i fn axis|i|i tcol freq agg|i gk a cols|b|i
                |i gk|i|i n|i|i|i|i k|i|i nm|i nm n|i nm n|bar i x y pk rk|i acc|i rep|i r|i n|i v|i|i cn ty|i cn layout|i a b|i n d|i n|i cn n v
                |i subset keep]; try reflexivity.
  - (* Shift *) cbn [step side_okb op_source] in *. unfold with_frame in Es.
    destruct (nth_opt p i) as [f|] eqn:Hf; cbn [derive] in Es; injection Es as <- <-; [|reflexivity].
    apply andb_prop in Hside. destruct Hside as [Hn Hl]. apply andb_prop in Hn. destruct Hn as [N1 N2].
    apply Z.leb_le in N1. apply Z.ltb_lt in N2. rewrite forallb_forall in Hl.
    rewrite spec_shift_model_gen; [reflexivity| |split; assumption].
    intros k c Hin. specialize (Hl _ Hin). cbn [snd] in Hl. now apply Z.ltb_lt in Hl.
  - (* Groupby *) cbn [step side_okb op_source] in *. unfold with_frame, observe in Es.
    destruct (nth_opt p i) as [f|] eqn:Hf; injection Es as <- <-; [|reflexivity].
    pose proof (Proof_C20.wf_rect f (Proof_C01.wf_pool_nth _ _ _ Hp Hf)) as Hr.
    destruct (op_groupby O f gk) as [g| |] eqn:E; cbn [lift]; try reflexivity.
    destruct gk as [k|ks]; cbn [gkey_cols].
    + destruct (fhas f k) eqn:Hh; cbn [negb orb] in Hside.
      * destruct (spec_c04_model O f k g Hr Hh Hside E) as [H1 H2]. now rewrite H1, H2.
      * apply (groupby_one_err O f k Hr) in Hh. congruence.
    + rewrite E in Hside. now rewrite Hside.
Qed.

(* a frame that did not change at all still consists of its own rows: code 13 follows from code 20 *)
Lemma others_same_aligned : forall pre post i t, others_same pre post i t = true -> others_aligned pre post i t = true.
Proof.
  induction pre as [|a pre IH]; intros post i t H; [reflexivity|].
  destruct post as [|b post]; [reflexivity|].
  cbn [others_same] in H. cbn [others_aligned].
  apply andb_prop in H. destruct H as [H1 H2]. rewrite (IH _ _ _ H2), andb_true_r.
  unfold still_own_rows.
  destruct t as [t|].
  - destruct (Nat.eqb t i); [reflexivity|]. now rewrite H1.
  - now rewrite H1.
Qed.
Theorem spec_c01_others_model O p o : c01_others_aligned p o (snd (step O p o)) = true.
Proof. apply others_same_aligned. apply spec_c02_model. Qed.

(* what the model itself would be observed to do *)
Definition model_obs (O : oracles) (p : pool) (o : op) : stepobs :=
  {| s_op := o; s_out := fst (step O p o); s_delta := full_delta (snd (step O p o));
     s_nrows := map (fun f => Z.of_nat (nrows f)) (snd (step O p o)); s_shared := false |}.

Lemma model_obs_post O p o : apply_delta p (s_delta (model_obs O p o)) = snd (step O p o).
Proof. cbn [model_obs s_delta]. apply apply_delta_full, step_length_ge. Qed.

Theorem check_step_model O p o : wf_pool p = true -> op_ok p o = true -> side_okb O p o = true ->
  check_step O p (model_obs O p o) = [].
Proof.
  intros Hp Hok Hside.
  pose proof (spec_c20_model O p o Hp) as [H30 H31].
  pose proof (spec_c02_model O p o) as H20.
  pose proof (spec_c01_frames_model O p o Hp Hok) as H10.
  pose proof (spec_c01_nrows_model (snd (step O p o))) as H11.
  pose proof (spec_c01_aligned_model O p o Hp Hok) as H12.
  pose proof (spec_c01_others_model O p o) as H13.
  pose proof (corr_model O p o Hp Hside) as Hcorr.
  unfold check_step. rewrite model_obs_post. cbn [model_obs s_op s_out s_nrows].
  destruct (step O p o) as [mo mp] eqn:Es. cbn [fst snd] in *.
  pose proof (special_model O p o mo mp Hp Hside Es) as Hspecial.
  rewrite H10, H11, H12, H13, H20, H30, H31, !orb_true_r. cbn [app].
  assert (A : forall (x y : list nat), x = [] -> y = [] -> x ++ y = []) by (intros x y -> ->; reflexivity).
  assert (H32 : (match mo, mo with Err, Ok _ => [32%nat] | _, _ => [] end) = []) by (destruct mo; reflexivity).
  apply A; [exact Hcorr | apply A; [exact Hspecial | apply A; [exact H32 | reflexivity]]].
Qed.

(* a history replayed from the model itself raises no finding at any step *)
Fixpoint model_steps (O : oracles) (p : pool) (ops : list op) : list stepobs :=
  match ops with
  | [] => []
  | o :: t => model_obs O p o :: model_steps O (snd (step O p o)) t
  end.
Fixpoint hist_okb (O : oracles) (p : pool) (ops : list op) : bool :=
  match ops with
  | [] => true
  | o :: t => op_ok p o && side_okb O p o && hist_okb O (snd (step O p o)) t
  end.

Theorem check_steps_model O ops : forall p k, wf_pool p = true -> hist_okb O p ops = true ->
  check_steps O p (model_steps O p ops) k = None.
Proof.
  induction ops as [|o ops IH]; intros p k Hp Hok; [reflexivity|].
  cbn [hist_okb] in Hok. apply andb_prop in Hok. destruct Hok as [Hok Hrest].
  apply andb_prop in Hok. destruct Hok as [Hok Hside].
  cbn [model_steps check_steps]. rewrite (check_step_model O p o Hp Hok Hside), model_obs_post.
  apply IH; [now apply step_wf | assumption].
Qed.

Corollary check_hist_model O p ops : wf_pool p = true -> hist_okb O p ops = true ->
  check_hist {| h_or := O; h_pool := p; h_steps := model_steps O p ops |} = None.
Proof. intros Hp Hok. unfold check_hist. cbn [h_or h_pool h_steps]. now apply check_steps_model. Qed.

(* the evaluated form (failures, which reports every failing step and not only the first) accepts the model too,
   and is empty exactly when the first-failure form is *)
Lemma check_steps_all_nil O ss : forall p k, check_steps_all O p ss k = [] <-> check_steps O p ss k = None.
Proof.
  induction ss as [|s ss IH]; intros p k; cbn [check_steps_all check_steps]; [tauto|].
  destruct (check_step O p s) as [|c cs]; [apply IH|]. split; discriminate.
Qed.
Theorem check_steps_all_model O ops p k : wf_pool p = true -> hist_okb O p ops = true ->
  check_steps_all O p (model_steps O p ops) k = [].
Proof. intros Hp Hok. apply check_steps_all_nil. now apply check_steps_model. Qed.
Corollary failures_model O p ops k : wf_pool p = true -> hist_okb O p ops = true ->
  failures [{| h_or := O; h_pool := p; h_steps := model_steps O p ops |}] k = [].
Proof.
  intros Hp Hok. cbn [failures]. unfold check_hist_all. cbn [h_or h_pool h_steps].
  now rewrite (check_steps_all_model O ops p 0 Hp Hok).
Qed.

(* op_target (Corr.v) names exactly the position that edit (Step.v) replaces, and every
   other operation leaves the pool alone or appends one frame *)
Theorem op_target_is_edit O p o i : op_target o = Some i -> exists r, step O p o = edit p i r.
Proof. destruct o; intros H; try discriminate H; injection H as <-; cbn [step]; eauto. Qed.
Theorem op_target_none O p o : op_target o = None ->
  snd (step O p o) = p \/ exists g, snd (step O p o) = p ++ [g].
Proof.
  assert (D : forall r, snd (derive p r) = p \/ exists g, snd (derive p r) = p ++ [g]).
  { intros [g| |]; cbn [derive snd]; eauto. }
  destruct o; intros H; try discriminate H; cbn [step]; try apply D; try (now left).
  destruct (nth_opt p f); cbn [snd]; eauto.
Qed.

(* ========================================================================= *)
(* 10. the checkers are not vacuous: each one is false on a concrete wrong    *)
(*     output, and the hypotheses of the theorems above are satisfiable       *)
(* ========================================================================= *)

Module Examples.
Definition O0 : oracles := {| o_pf := []; o_fmt := []; o_tparse := [] |}.
Definition ka : str := [97%N].
Definition kb : str := [98%N].
Definition fa : frame :=
  [(ka, (ka, [CI KInt 3; CI KInt 1; CI KInt 2])); (kb, (kb, [CS [120%N]; CNil; CB true]))].
Definition fb : frame := [(ka, (ka, [CI KInt 7])); (kb, (kb, [CNil]))].
Definition fk : frame := [(ka, (ka, [CI KInt 1; CI KInt 2; CI KInt 1]))].
Definition r1 : rowmap := [(ka, CI KInt 1)].
Definition r2 : rowmap := [(ka, CI KInt 2)].

(* C01: a ragged frame; a wrong Nrows *)
Example c01_frames_ok_rejects :
  c01_frames_ok [fa; [(ka, (ka, [CI KInt 1; CI KInt 2])); (kb, (kb, [CNil]))]] = false
  /\ c01_nrows_ok [fa; fb] [3; 2] = false /\ c01_nrows_ok [fa; fb] [3; 1] = true.
Proof. vm_compute. repeat split. Qed.

(* C01 alignment: Head(2) whose second column is in another order (rows torn apart) *)
Definition h_ok : frame := [(ka, (ka, [CI KInt 3; CI KInt 1])); (kb, (kb, [CS [120%N]; CNil]))].
Definition h_bad : frame := [(ka, (ka, [CI KInt 3; CI KInt 1])); (kb, (kb, [CNil; CS [120%N]]))].
Example c01_aligned_rejects :
  c01_aligned [fa] (OHead 0 2) (Ok (VFrame h_ok)) [fa; h_ok] = true
  /\ c01_aligned [fa] (OHead 0 2) (Ok (VFrame h_bad)) [fa; h_bad] = false.
Proof. vm_compute. split; reflexivity. Qed.

(* C02: an edit of frame 0 that also changes frame 1; a derivation that changes a frame *)
Example c02_local_rejects :
  c02_local [fa; fb] (OFillNa 0 (CI KInt 0)) [op_fillna fa (CI KInt 0); fb] = true
  /\ c02_local [fa; fb] (OFillNa 0 (CI KInt 0)) [op_fillna fa (CI KInt 0); op_fillna fb (CI KInt 0)] = false
  /\ c02_local [fa; fb] (OHead 0 1) [fa; op_fillna fb (CI KInt 0); fb] = false.
Proof. vm_compute. repeat split. Qed.

(* C06: a permutation of whole rows that is not sorted; sorted keys with torn rows *)
Definition g_sorted : frame :=
  [(ka, (ka, [CI KInt 1; CI KInt 2; CI KInt 3])); (kb, (kb, [CNil; CB true; CS [120%N]]))].
Definition g_unsorted : frame :=
  [(ka, (ka, [CI KInt 1; CI KInt 3; CI KInt 2])); (kb, (kb, [CNil; CS [120%N]; CB true]))].
Definition g_torn : frame :=
  [(ka, (ka, [CI KInt 1; CI KInt 2; CI KInt 3])); (kb, (kb, [CS [120%N]; CNil; CB true]))].
Example sort_spec_rejects :
  op_sort O0 fa [ka] true = Ok g_sorted /\ sort_spec O0 fa g_sorted [ka] true = true
  /\ sort_spec O0 fa g_unsorted [ka] true = false /\ sort_spec O0 fa g_torn [ka] true = false.
Proof. vm_compute. repeat split. Qed.
(* the hypotheses of spec_sort_model hold of this input *)
Example spec_sort_model_nonvacuous : wf_frame fa = true /\ sort_cols_ok O0 fa [ka].
Proof. split; [reflexivity|]. apply sort_cols_okb_spec. reflexivity. Qed.

(* C19: no shift at all, the wrong direction *)
Example shift_spec_rejects :
  shift_spec fa (op_shift fa 1) 1 = true /\ shift_spec fa fa 1 = false
  /\ shift_spec fa (op_shift fa 1) (-1) = false.
Proof. vm_compute. repeat split. Qed.
Example spec_shift_model_nonvacuous :
  sorted_keys (fkeys fa) = true /\ (forall k c, In (k, c) fa -> Z.of_nat (length (cdata c)) < two63)
  /\ in_i64 (- two63) /\ in_i64 (two63 - 1)
  /\ shift_spec fa (op_shift fa (- two63)) (- two63) = true.
Proof.
  split; [reflexivity|]. split.
  - intros k c [E|[E|[]]]; injection E as <- <-; vm_compute; reflexivity.
  - unfold in_i64. vm_compute. repeat split; discriminate.
Qed.

(* C20 *)
Example c20_rejects :
  c20_no_panic (@Panic val) = false /\ c20_err_keeps [fa] Err [fb] = false /\ c20_err_keeps [fa] Err [fa] = true.
Proof. vm_compute. repeat split. Qed.

(* C04: a group split in two, groups in the wrong order, two keys in one group; a wrong key *)
Example c04_rejects :
  op_groupby O0 fk (GOne ka) = Ok [(CI KInt 1, [r1; r1]); (CI KInt 2, [r2])]
  /\ c04_partition fk [ka] [(CI KInt 1, [r1; r1]); (CI KInt 2, [r2])] = true
  /\ c04_partition fk [ka] [(CI KInt 1, [r1]); (CI KInt 2, [r2]); (CI KInt 1, [r1])] = false
  /\ c04_partition fk [ka] [(CI KInt 2, [r2]); (CI KInt 1, [r1; r1])] = false
  /\ c04_partition fk [ka] [(CI KInt 1, [r1; r1; r2])] = false
  /\ c04_partition fk [ka] [(CI KInt 1, [r1]); (CI KInt 2, [r2])] = false
  /\ c04_single_key ka [(CI KInt 1, [r1; r1]); (CI KInt 2, [r2])] = true
  /\ c04_single_key ka [(CI KInt 2, [r1; r1]); (CI KInt 1, [r2])] = false.
Proof. vm_compute. repeat split. Qed.
Example spec_c04_model_nonvacuous : rect fk = true /\ fhas fk ka = true /\ key_col_proper fk ka = true.
Proof. vm_compute. repeat split. Qed.

(* the multiset tests *)
Example multiset_rejects :
  sub_multiset [r1; r1] [r1; r2; r1] = true /\ sub_multiset [r1; r1] [r1; r2] = false
  /\ perm_rows [r1; r2] [r2; r1] = true /\ perm_rows [r1] [r1; r1] = false.
Proof. vm_compute. repeat split. Qed.

(* the whole check: nothing on the model's own observation, the expected codes on wrong ones *)
Example check_step_codes :
  check_step O0 [fa] (model_obs O0 [fa] (OSort 0 [ka] None)) = []
  /\ check_step O0 [fa] {| s_op := OSort 0 [ka] None; s_out := Ok (VFrame g_unsorted);
                            s_delta := [(1%nat, g_unsorted)]; s_nrows := [3; 3]; s_shared := false |} = [40; 1]%nat
  /\ check_step O0 [fa] {| s_op := OHead 0 2; s_out := Ok (VFrame h_bad);
                            s_delta := [(1%nat, h_bad)]; s_nrows := [3; 2]; s_shared := false |} = [1; 2; 12]%nat
  /\ check_step O0 [fa; fb] {| s_op := OFillNa 0 (CI KInt 0); s_out := Ok VNone;
                                s_delta := [(0%nat, op_fillna fa (CI KInt 0)); (1%nat, op_fillna fb (CI KInt 0))];
                                s_nrows := [3; 1]; s_shared := false |} = [2; 13; 20]%nat
  /\ check_step O0 [fa] {| s_op := OShift 0 1; s_out := Ok (VFrame fa);
                            s_delta := [(1%nat, fa)]; s_nrows := [3; 3]; s_shared := false |} = [1; 2; 41]%nat
  /\ check_step O0 [fa] {| s_op := ODropRow 0 7; s_out := Panic; s_delta := []; s_nrows := [3]; s_shared := false |} = [1; 30]%nat
  /\ check_step O0 [fa] {| s_op := ODropRow 0 7; s_out := Err; s_delta := [(0%nat, fb)]; s_nrows := [1]; s_shared := false |}
     = [2; 31]%nat
  /\ check_step O0 [fk] {| s_op := OGroupby 0 (GOne ka);
                            s_out := Ok (VGroups [(CI KInt 2, [r2]); (CI KInt 1, [r1; r1])]);
                            s_delta := []; s_nrows := [3]; s_shared := false |} = [1; 42]%nat
  /\ check_step O0 [fa] {| s_op := OHead 0 2; s_out := fst (step O0 [fa] (OHead 0 2));
                            s_delta := full_delta (snd (step O0 [fa] (OHead 0 2))); s_nrows := [3; 2]; s_shared := true |} = [21]%nat.
Proof. vm_compute. repeat split. Qed.

(* a history that meets every premise of check_steps_model (and so is accepted) *)
Definition ex_ops : list op :=
  [OSort 0 [ka] None; OShift 0 1; OGroupby 1 (GOne ka); OAppendRow 0 [(ka, CI KInt 9)]; OHead 0 2;
   ODropColumn 2 kb; OAddColumn 1 kb [CNil; CNil; CNil]].
Example check_steps_model_nonvacuous :
  wf_pool [fa; fk] = true /\ hist_okb O0 [fa; fk] ex_ops = true
  /\ check_hist {| h_or := O0; h_pool := [fa; fk]; h_steps := model_steps O0 [fa; fk] ex_ops |} = None
  /\ length (run O0 [fa; fk] ex_ops) = 5%nat.
Proof. vm_compute. repeat split. Qed.
End Examples.

Print Assumptions spec_c20_model.
Print Assumptions spec_c02_model.
Print Assumptions spec_c01_frames_model.
Print Assumptions spec_shift_model.
Print Assumptions spec_sort_model.
Print Assumptions perm_rows_complete.
Print Assumptions spec_c01_aligned_model.
Print Assumptions spec_c04_model.
Print Assumptions check_step_model.
Print Assumptions check_steps_model.
