(* Proof_C02.v - property C02: every operation documented to return a NEW frame shares no
   mutable state with its source.  Proved on the L2 heap model of Heap.v, for every
   growth policy of append. *)
From GF Require Import Ops Lemmas Heap.
From Coq Require Import Lia Permutation.
Local Open Scope nat_scope.

(* ====================================================================== *)
(* 1. lists                                                                *)
(* ====================================================================== *)
Lemma firstn_app_len {A} (l1 l2 : list A) n : length l1 = n -> firstn n (l1 ++ l2) = l1.
Proof. intros <-. rewrite firstn_app, Nat.sub_diag, firstn_all. cbn. apply app_nil_r. Qed.
Lemma skipn_app_len {A} (l1 l2 : list A) n : length l1 = n -> skipn n (l1 ++ l2) = l2.
Proof. intros <-. rewrite skipn_app, Nat.sub_diag, skipn_all. reflexivity. Qed.
Lemma skipn_skipn' {A} (l : list A) : forall a b, skipn a (skipn b l) = skipn (b + a) l.
Proof.
  induction l as [|x t IH]; intros a b.
  - now rewrite !skipn_nil.
  - destruct b as [|b]; cbn [skipn Nat.add]; [reflexivity|]. apply IH.
Qed.

Lemma set_nth_length {A} (l : list A) : forall i v, length (set_nth l i v) = length l.
Proof. induction l as [|x t IH]; intros [|i] v; cbn; auto. Qed.
Lemma set_nth_app_r {A} (l1 l2 : list A) i v :
  set_nth (l1 ++ l2) (length l1 + i) v = l1 ++ set_nth l2 i v.
Proof. induction l1 as [|x t IH]; cbn; [reflexivity|]. now rewrite IH. Qed.
Lemma set_nth_mid {A} (pre post : list A) x y :
  set_nth (pre ++ x :: post) (length pre) y = pre ++ y :: post.
Proof.
  rewrite <- (Nat.add_0_r (length pre)). now rewrite set_nth_app_r.
Qed.
Lemma set_nth_beyond {A} (l : list A) : forall i v, length l <= i -> set_nth l i v = l.
Proof.
  induction l as [|x t IH]; intros [|i] v H; cbn in *; try reflexivity; try lia.
  rewrite IH by lia. reflexivity.
Qed.
Lemma firstn_set_nth {A} (l : list A) : forall n i v,
  firstn n (set_nth l i v) = set_nth (firstn n l) i v.
Proof.
  induction l as [|x t IH]; intros [|n] [|i] v; cbn; try reflexivity.
  now rewrite IH.
Qed.
Lemma skipn_set_nth {A} (l : list A) : forall o i v,
  skipn o (set_nth l (o + i) v) = set_nth (skipn o l) i v.
Proof.
  induction l as [|x t IH]; intros [|o] i v; cbn [skipn set_nth Nat.add]; try reflexivity.
  apply IH.
Qed.
Lemma remove_nth_mid {A} (c1 c2 : list A) x : remove_nth (c1 ++ x :: c2) (length c1) = c1 ++ c2.
Proof. induction c1 as [|y t IH]; cbn; [reflexivity|]. now rewrite IH. Qed.
Lemma nth_opt_mid {A} (c1 c2 : list A) x : nth_opt (c1 ++ x :: c2) (length c1) = Some x.
Proof. induction c1 as [|y t IH]; cbn; auto. Qed.
Lemma nth_opt_split {A} (l : list A) : forall i x, nth_opt l i = Some x ->
  exists pre post, l = pre ++ x :: post /\ length pre = i.
Proof.
  induction l as [|y t IH]; intros [|i] x H; cbn in H; try discriminate.
  - injection H as ->. now exists [], t.
  - destruct (IH _ _ H) as (pre & post & -> & Hl). exists (y :: pre), post. cbn. now rewrite Hl.
Qed.
Lemma nth_opt_app_l {A} (l1 l2 : list A) : forall i, i < length l1 -> nth_opt (l1 ++ l2) i = nth_opt l1 i.
Proof.
  induction l1 as [|y t IH]; intros [|i] H; cbn in *; try lia; auto. apply IH. lia.
Qed.
Lemma nth_opt_app_r {A} (l1 l2 : list A) : forall i, nth_opt (l1 ++ l2) (length l1 + i) = nth_opt l2 i.
Proof. induction l1 as [|y t IH]; intros i; cbn; auto. Qed.
Lemma nth_opt_set_nth_neq {A} (l : list A) : forall i j v, i <> j -> nth_opt (set_nth l i v) j = nth_opt l j.
Proof.
  induction l as [|y t IH]; intros [|i] [|j] v H; cbn; try reflexivity; try congruence.
  apply IH. congruence.
Qed.
Lemma nth_opt_set_nth_eq {A} (l : list A) : forall i v, i < length l -> nth_opt (set_nth l i v) i = Some v.
Proof.
  induction l as [|y t IH]; intros [|i] v H; cbn in *; try lia; auto. apply IH. lia.
Qed.
Lemma nth_opt_map {A B} (f : A -> B) (l : list A) : forall i, nth_opt (map f l) i = option_map f (nth_opt l i).
Proof. induction l as [|y t IH]; intros [|i]; cbn; auto. Qed.
Lemma set_nth_map {A B} (f : A -> B) (l : list A) : forall i v, set_nth (map f l) i (f v) = map f (set_nth l i v).
Proof. induction l as [|y t IH]; intros [|i] v; cbn; auto. now rewrite IH. Qed.

Lemma NoDup_app_intro {A} (l1 l2 : list A) :
  NoDup l1 -> NoDup l2 -> (forall x, In x l1 -> ~ In x l2) -> NoDup (l1 ++ l2).
Proof.
  induction l1 as [|x t IH]; intros H1 H2 Hd; cbn; [assumption|].
  inversion H1 as [|? ? Hx Ht]; subst. constructor.
  - rewrite in_app_iff. intros [H|H]; [now apply Hx|]. apply (Hd x); [now left|assumption].
  - apply IH; auto. intros y Hy. apply Hd. now right.
Qed.
Lemma NoDup_app_elim {A} (l1 l2 : list A) :
  NoDup (l1 ++ l2) -> NoDup l1 /\ NoDup l2 /\ (forall x, In x l1 -> ~ In x l2).
Proof.
  induction l1 as [|x t IH]; cbn; intros H.
  - repeat split; [constructor|assumption|intros ? []].
  - inversion H as [|? ? Hx Ht]; subst. destruct (IH Ht) as (H1 & H2 & Hd).
    rewrite in_app_iff in Hx. repeat split.
    + constructor; auto.
    + assumption.
    + intros y [<-|Hy]; auto.
Qed.

(* ====================================================================== *)
(* 2. the store                                                            *)
(* ====================================================================== *)
Lemma upd_length h : forall a f, length (upd h a f) = length h.
Proof. induction h as [|x t IH]; intros [|a] f; cbn; auto. Qed.
Lemma arr_upd_eq h : forall a f, a < length h -> arr_of (upd h a f) a = f (arr_of h a).
Proof.
  unfold arr_of. induction h as [|x t IH]; intros [|a] f H; cbn in *; try lia; auto.
  apply IH. lia.
Qed.
Lemma arr_upd_neq h : forall a b f, a <> b -> arr_of (upd h a f) b = arr_of h b.
Proof.
  unfold arr_of. induction h as [|x t IH]; intros [|a] [|b] f H; cbn; try reflexivity; try congruence.
  apply IH. congruence.
Qed.
Lemma arr_ext h ext a : a < length h -> arr_of (h ++ ext) a = arr_of h a.
Proof. intros H. unfold arr_of. now rewrite app_nth1. Qed.
Lemma arr_new h x : arr_of (h ++ [x]) (length h) = x.
Proof. unfold arr_of. rewrite app_nth2 by lia. now rewrite Nat.sub_diag. Qed.
Lemma upd_new h x f : upd (h ++ [x]) (length h) f = h ++ [f x].
Proof. induction h as [|y t IH]; cbn; [reflexivity|]. now rewrite IH. Qed.

Lemma wf_ext h ext s : wf_slice h s -> wf_slice (h ++ ext) s.
Proof.
  intros (Ha & Hl & Hc). unfold wf_slice. rewrite arr_ext by assumption.
  rewrite app_length. repeat split; try assumption. lia.
Qed.
Lemma content_ext h ext s : arr s < length h -> content (h ++ ext) s = content h s.
Proof. intros H. unfold content. now rewrite arr_ext. Qed.

(* a slice survives any change of the store that keeps its array and does not shrink the store *)
Lemma keep_slice h h1 s :
  wf_slice h s -> length h <= length h1 -> arr_of h1 (arr s) = arr_of h (arr s) ->
  wf_slice h1 s /\ content h1 s = content h s.
Proof.
  intros (Ha & Hl & Hc) Hlen Harr. unfold wf_slice, content. rewrite Harr.
  repeat split; try assumption. lia.
Qed.

Lemma content_length h s : wf_slice h s -> length (content h s) = len s.
Proof.
  intros (Ha & Hl & Hc). unfold content. rewrite firstn_length, skipn_length. lia.
Qed.

(* the array of a well-formed slice: what precedes it, what it shows, what follows *)
Lemma wf_split h s : wf_slice h s ->
  exists pre post, arr_of h (arr s) = pre ++ content h s ++ post /\
                   length pre = off s /\ cap s - len s <= length post.
Proof.
  intros (Ha & Hl & Hc).
  exists (firstn (off s) (arr_of h (arr s))), (skipn (len s) (skipn (off s) (arr_of h (arr s)))).
  unfold content. rewrite firstn_skipn, firstn_skipn. split; [reflexivity|].
  rewrite firstn_length, !skipn_length. lia.
Qed.

(* ====================================================================== *)
(* 3. the primitives                                                       *)
(* ====================================================================== *)
Lemma upd_wf h a f s :
  (forall x, length (f x) = length x) -> wf_slice h s -> wf_slice (upd h a f) s.
Proof.
  intros Hf (Ha & Hl & Hc). unfold wf_slice. rewrite upd_length.
  destruct (Nat.eq_dec a (arr s)) as [->|Hne].
  - rewrite arr_upd_eq by assumption. rewrite Hf. auto.
  - rewrite arr_upd_neq by assumption. auto.
Qed.

Lemma set_wf h t i v s : wf_slice h s -> wf_slice (sl_set h t i v) s.
Proof. apply upd_wf. intros x. apply set_nth_length. Qed.
Lemma set_content h s i v : wf_slice h s -> content (sl_set h s i v) s = set_nth (content h s) i v.
Proof.
  intros (Ha & _). unfold content, sl_set. rewrite arr_upd_eq by assumption.
  now rewrite skipn_set_nth, firstn_set_nth.
Qed.
(* A.7 set_other *)
Lemma set_other h s t i v : arr s <> arr t -> content (sl_set h s i v) t = content h t.
Proof. intros H. unfold content, sl_set. now rewrite arr_upd_neq. Qed.

Section Policy.
Variable grow : nat -> nat -> nat.
Hypothesis grow_ge : forall c n, n <= grow c n.

Lemma from_list_wf h l : wf_slice (fst (sl_from_list grow h l)) (snd (sl_from_list grow h l)).
Proof.
  unfold sl_from_list, wf_slice. cbn [fst snd arr off len cap]. rewrite arr_new.
  rewrite !app_length, repeat_length. cbn. pose proof (grow_ge 0 (length l)). lia.
Qed.
Lemma from_list_content h l : content (fst (sl_from_list grow h l)) (snd (sl_from_list grow h l)) = l.
Proof.
  unfold sl_from_list, content. cbn [fst snd arr off len cap]. rewrite arr_new. cbn [skipn].
  now apply firstn_app_len.
Qed.
Lemma from_list_heap h l : exists x, fst (sl_from_list grow h l) = h ++ [x].
Proof. eexists. reflexivity. Qed.
Lemma from_list_arr h l : arr (snd (sl_from_list grow h l)) = length h.
Proof. reflexivity. Qed.
(* A.7 copy_keeps, copy_content, copy_fresh *)
Lemma copy_keeps h s t : wf_slice h t -> content (fst (sl_copy grow h s)) t = content h t.
Proof. intros (Ha & _). unfold sl_copy, sl_from_list. cbn [fst]. now apply content_ext. Qed.
Lemma copy_content h s : content (fst (sl_copy grow h s)) (snd (sl_copy grow h s)) = content h s.
Proof. apply from_list_content. Qed.
Lemma copy_fresh h s : arr (snd (sl_copy grow h s)) = length h.
Proof. reflexivity. Qed.

(* what a per-column edit step must satisfy: the store does not shrink, the result slice is
   well formed and lives on the same array or on a fresh one, no other array is touched,
   and the result shows g (old content) *)
Definition edit_ok (e : heap -> slice -> heap * slice) (g : list cell -> list cell) : Prop :=
  forall h s, wf_slice h s ->
    length h <= length (fst (e h s)) /\
    wf_slice (fst (e h s)) (snd (e h s)) /\
    (arr (snd (e h s)) = arr s \/ length h <= arr (snd (e h s))) /\
    (forall a, a < length h -> a <> arr s -> arr_of (fst (e h s)) a = arr_of h a) /\
    content (fst (e h s)) (snd (e h s)) = g (content h s).

Lemma edit_ok_id : edit_ok (fun h s => (h, s)) (fun c => c).
Proof. intros h s H. cbn. repeat split; auto; apply H. Qed.

Lemma edit_ok_set i v :
  edit_ok (fun h s => (if i <? len s then sl_set h s i v else h, s)) (fun c => set_nth c i v).
Proof.
  intros h s H. cbn [fst snd]. destruct (i <? len s) eqn:E.
  - unfold sl_set at 1. rewrite upd_length. repeat split; auto.
    + apply (set_wf h s i v s H).
    + apply (set_wf h s i v s H).
    + apply (set_wf h s i v s H).
    + intros a _ Hne. unfold sl_set. apply arr_upd_neq. congruence.
    + now apply set_content.
  - repeat split; auto; try apply H.
    apply Nat.ltb_ge in E. rewrite set_nth_beyond; [reflexivity|].
    rewrite content_length by assumption. exact E.
Qed.

Lemma edit_ok_fresh g : edit_ok (fun h s => sl_from_list grow h (g (content h s))) g.
Proof.
  intros h s H. repeat split.
  - unfold sl_from_list. cbn [fst]. rewrite app_length. lia.
  - apply from_list_wf.
  - apply from_list_wf.
  - apply from_list_wf.
  - right. cbn. lia.
  - intros a Ha _. unfold sl_from_list. cbn [fst]. now apply arr_ext.
  - apply from_list_content.
Qed.

(* A.7 append_other, append_fresh_or_same are the third and fourth clauses *)
Lemma edit_ok_append v : edit_ok (fun h s => sl_append grow h s v) (fun c => c ++ [v]).
Proof.
  intros h s H. pose proof H as (Ha & Hl & Hc). unfold sl_append.
  destruct (len s <? cap s) eqn:E; cbn [fst snd].
  - apply Nat.ltb_lt in E.
    assert (Hw : wf_slice (sl_set h s (len s) v)
                   {| arr := arr s; off := off s; len := S (len s); cap := cap s |}).
    { destruct (set_wf h s (len s) v s H) as (A1 & A2 & A3).
      unfold wf_slice. cbn [arr off len cap]. repeat split; auto. }
    repeat split; try apply Hw.
    + unfold sl_set. now rewrite upd_length.
    + now left.
    + intros a _ Hne. unfold sl_set. apply arr_upd_neq. congruence.
    + destruct (wf_split h s H) as (pre & post & Harr & Hpre & Hpost).
      destruct post as [|x post]; [cbn in Hpost; lia|].
      unfold content at 1, sl_set. cbn [arr off len cap]. rewrite arr_upd_eq by assumption.
      rewrite Harr. rewrite app_assoc.
      replace (off s + len s) with (length (pre ++ content h s))
        by (rewrite app_length, content_length by assumption; lia).
      rewrite set_nth_mid. rewrite <- app_assoc.
      rewrite skipn_app_len by assumption.
      change (v :: post) with ([v] ++ post). rewrite app_assoc.
      apply firstn_app_len. rewrite app_length, content_length by assumption. cbn. lia.
  - apply Nat.ltb_ge in E. pose proof (grow_ge (cap s) (S (len s))) as Hg.
    assert (Hw : wf_slice (h ++ [content h s ++ v :: repeat CNil (grow (cap s) (S (len s)) - S (len s))])
                   {| arr := length h; off := 0; len := S (len s); cap := grow (cap s) (S (len s)) |}).
    { unfold wf_slice. cbn [arr off len cap]. rewrite arr_new, !app_length.
      rewrite content_length by assumption. cbn [length]. rewrite repeat_length. lia. }
    repeat split; try apply Hw.
    + rewrite app_length. lia.
    + right. cbn. lia.
    + intros a Hlt _. now apply arr_ext.
    + unfold content at 1. cbn [arr off len cap]. rewrite arr_new. cbn [skipn].
      change (v :: repeat CNil (grow (cap s) (S (len s)) - S (len s)))
        with ([v] ++ repeat CNil (grow (cap s) (S (len s)) - S (len s))).
      rewrite app_assoc. apply firstn_app_len.
      rewrite app_length, content_length by assumption. cbn. lia.
Qed.

(* A.7 append_other, append_fresh_or_same, stated separately *)
Lemma append_other h s t v : wf_slice h t -> arr s <> arr t ->
  content (fst (sl_append grow h s v)) t = content h t.
Proof.
  intros (Ht & _) Hne. unfold sl_append. destruct (len s <? cap s); cbn [fst].
  - now apply set_other.
  - now apply content_ext.
Qed.
Lemma append_fresh_or_same h s v :
  arr (snd (sl_append grow h s v)) = arr s \/ arr (snd (sl_append grow h s v)) = length h.
Proof. unfold sl_append. destruct (len s <? cap s); cbn; auto. Qed.

Lemma remove_nth_beyond {A} (l : list A) : forall i, length l <= i -> remove_nth l i = l.
Proof.
  induction l as [|x t IH]; intros [|i] H; cbn in *; try reflexivity; try lia.
  rewrite IH by lia. reflexivity.
Qed.
Lemma blit_length a p l : p + length l <= length a -> length (blit a p l) = length a.
Proof. intros H. unfold blit. rewrite !app_length, firstn_length, skipn_length. lia. Qed.

Lemma edit_ok_remove i : edit_ok (fun h s => sl_remove grow h s i) (fun c => remove_nth c i).
Proof.
  intros h s H. pose proof H as (Ha & Hl & Hc). unfold sl_remove.
  destruct (i <? len s) eqn:E.
  2:{ apply Nat.ltb_ge in E. cbn [fst snd]. repeat split; auto.
      rewrite remove_nth_beyond; [reflexivity|]. rewrite content_length by assumption. exact E. }
  apply Nat.ltb_lt in E.
  pose proof (content_length h s H) as Hlen.
  destruct (wf_split h s H) as (pre & post & Harr & Hpre & Hpost).
  assert (Hsp : exists c1 x c2, content h s = c1 ++ x :: c2 /\ length c1 = i).
  { assert (Hi : i < length (content h s)) by lia.
    pose proof (nth_opt_nth (content h s) i CNil Hi) as En.
    apply nth_opt_split in En as (c1 & c2 & Hs & Hl1). eauto. }
  destruct Hsp as (c1 & x & c2 & Hcs & Hc1).
  assert (Hc2 : length c2 = len s - S i).
  { rewrite Hcs, app_length in Hlen. cbn in Hlen. lia. }
  assert (HA1 : arr_of h (arr s) = (pre ++ c1 ++ [x]) ++ c2 ++ post).
  { rewrite Harr, Hcs. rewrite <- !app_assoc. reflexivity. }
  assert (HA2 : arr_of h (arr s) = (pre ++ c1) ++ x :: c2 ++ post).
  { rewrite Harr, Hcs. rewrite <- !app_assoc. reflexivity. }
  assert (Hl2 : content h (sl_reslice s (S i) (len s)) = c2).
  { unfold content, sl_reslice. cbn [arr off len cap]. rewrite HA1.
    rewrite skipn_app_len by (rewrite !app_length; cbn; lia).
    now apply firstn_app_len. }
  rewrite Hl2. unfold sl_append_list, sl_reslice. cbn [arr off len cap].
  rewrite !Nat.add_0_r, !Nat.sub_0_r.
  destruct (i + length c2 <=? cap s) eqn:E2.
  2:{ apply Nat.leb_gt in E2. lia. }
  cbn [fst snd arr off len cap].
  assert (Hblit : blit (arr_of h (arr s)) (off s + i) c2
                  = pre ++ (c1 ++ c2) ++ skipn (off s + i + length c2) (arr_of h (arr s))).
  { unfold blit. rewrite HA2 at 1. rewrite firstn_app_len by (rewrite app_length; lia).
    rewrite <- !app_assoc. reflexivity. }
  assert (Hbl : length (blit (arr_of h (arr s)) (off s + i) c2) = length (arr_of h (arr s))).
  { apply blit_length. lia. }
  repeat split.
  - now rewrite upd_length.
  - cbn [arr]. now rewrite upd_length.
  - cbn [len cap]. lia.
  - cbn [arr off cap]. rewrite arr_upd_eq by assumption. rewrite Hbl. exact Hc.
  - left. reflexivity.
  - intros a _ Hne. apply arr_upd_neq. congruence.
  - unfold content at 1. cbn [arr off len]. rewrite arr_upd_eq by assumption.
    rewrite Hblit. rewrite skipn_app_len by assumption.
    rewrite firstn_app_len by (rewrite app_length; lia).
    rewrite Hcs, <- Hc1. now rewrite remove_nth_mid.
Qed.

Definition fill_step (s : slice) (v : cell) : heap -> nat -> heap :=
  fun h' i => match sl_get h' s i with
              | Some c => if is_nil c then sl_set h' s i v else h'
              | None => h'
              end.
Lemma fill_inv s v : forall c2 c1 h, wf_slice h s -> content h s = c1 ++ c2 ->
  wf_slice (fold_left (fill_step s v) (seq (length c1) (length c2)) h) s /\
  length (fold_left (fill_step s v) (seq (length c1) (length c2)) h) = length h /\
  (forall a, a <> arr s ->
     arr_of (fold_left (fill_step s v) (seq (length c1) (length c2)) h) a = arr_of h a) /\
  content (fold_left (fill_step s v) (seq (length c1) (length c2)) h) s
    = c1 ++ map (fill_cell v) c2.
Proof.
  induction c2 as [|x c2 IH]; intros c1 h H Hc; cbn [length seq fold_left map].
  - repeat split; auto; apply H.
  - set (h1 := fill_step s v h (length c1)).
    assert (H1 : wf_slice h1 s /\ length h1 = length h /\
                 (forall a, a <> arr s -> arr_of h1 a = arr_of h a) /\
                 content h1 s = (c1 ++ [fill_cell v x]) ++ c2).
    { unfold h1, fill_step, sl_get. rewrite Hc, nth_opt_mid. unfold fill_cell.
      destruct (is_nil x).
      - split; [now apply set_wf|]. split; [unfold sl_set; apply upd_length|].
        split; [intros a Hne; unfold sl_set; apply arr_upd_neq; congruence|].
        rewrite set_content by assumption. rewrite Hc, set_nth_mid, <- app_assoc. reflexivity.
      - split; [assumption|]. split; [reflexivity|]. split; [reflexivity|].
        rewrite Hc, <- app_assoc. reflexivity. }
    destruct H1 as (W1 & L1 & O1 & C1).
    specialize (IH (c1 ++ [fill_cell v x]) h1 W1 C1).
    rewrite app_length in IH. cbn [length] in IH. rewrite Nat.add_1_r in IH.
    destruct IH as (W & L & O & C).
    split; [exact W|]. split; [congruence|].
    split; [intros a Hne; rewrite O, O1; auto|].
    rewrite C, <- app_assoc. reflexivity.
Qed.

Lemma edit_ok_fill v : edit_ok (fun h s => (sl_fill h s v, s)) (map (fill_cell v)).
Proof.
  intros h s H. cbn [fst snd].
  pose proof (fill_inv s v (content h s) [] h H eq_refl) as (W & L & O & C).
  cbn [length app] in W, L, O, C. rewrite (content_length h s H) in W, L, O, C.
  change (fold_left (fill_step s v) (seq 0 (len s)) h) with (sl_fill h s v) in W, L, O, C.
  repeat split; try apply W.
  - lia.
  - now left.
  - intros a _ Hne. now apply O.
  - exact C.
Qed.

(* ====================================================================== *)
(* 4. running a step over the columns of a frame                           *)
(* ====================================================================== *)
Lemma fold_cols_ext {A} (e e' : str -> heap -> A -> heap * slice) :
  (forall k h a, e k h a = e' k h a) -> forall l h, fold_cols e h l = fold_cols e' h l.
Proof.
  intros He. induction l as [|[k a] t IH]; intros h; cbn [fold_cols]; [reflexivity|].
  rewrite He, IH. reflexivity.
Qed.

Lemma abs_frame_same h h' fr :
  (forall t, In t (slices_of fr) -> content h' t = content h t) -> abs_frame h' fr = abs_frame h fr.
Proof.
  intros H. unfold abs_frame. apply map_ext_in. intros ks Hin. f_equal. apply H.
  unfold slices_of. now apply in_map.
Qed.
Lemma abs_frames_same h h' frs :
  (forall t, In t (all_slices frs) -> content h' t = content h t) ->
  map (abs_frame h') frs = map (abs_frame h) frs.
Proof.
  intros H. apply map_ext_in. intros fr Hin. apply abs_frame_same. intros t Ht. apply H.
  unfold all_slices. apply in_flat_map. eauto.
Qed.
Lemma all_slices_app frs1 frs2 : all_slices (frs1 ++ frs2) = all_slices frs1 ++ all_slices frs2.
Proof. apply flat_map_app. Qed.

(* edits: the slices of the edited frame against all the other live slices *)
Lemma fold_edit e g : (forall k, edit_ok (e k) (g k)) -> forall fr h others,
  Forall (wf_slice h) (slices_of fr) -> Forall (wf_slice h) others ->
  NoDup (map arr (slices_of fr) ++ map arr others) ->
  length h <= length (fst (fold_cols e h fr)) /\
  Forall (wf_slice (fst (fold_cols e h fr))) (slices_of (snd (fold_cols e h fr))) /\
  Forall (wf_slice (fst (fold_cols e h fr))) others /\
  NoDup (map arr (slices_of (snd (fold_cols e h fr))) ++ map arr others) /\
  (forall t, In t others -> content (fst (fold_cols e h fr)) t = content h t) /\
  abs_frame (fst (fold_cols e h fr)) (snd (fold_cols e h fr)) = amap g (abs_frame h fr).
Proof.
  intros Hok. induction fr as [|[k s] t IH]; intros h others Hfr Hoth Hnd.
  - cbn. repeat split; auto.
  - cbn [fold_cols fst snd]. cbn [slices_of map snd] in Hfr, Hnd.
    fold (slices_of t) in Hfr, Hnd.
    pose proof (Forall_inv Hfr) as Hs. pose proof (Forall_inv_tail Hfr) as Ht.
    destruct (Hok k h s Hs) as (E1 & E2 & E3 & E4 & E5).
    set (h1 := fst (e k h s)) in *. set (s1 := snd (e k h s)) in *.
    cbn [app] in Hnd. inversion Hnd as [|? ? Hnin Hnd']; subst.
    assert (Hlt : forall a, In a (map arr (slices_of t) ++ map arr others) -> a < length h).
    { intros a Ha. apply in_app_iff in Ha as [Ha|Ha]; apply in_map_iff in Ha as (t0 & <- & Hin).
      - rewrite Forall_forall in Ht. apply (Ht t0 Hin).
      - rewrite Forall_forall in Hoth. apply (Hoth t0 Hin). }
    assert (K : forall t0, wf_slice h t0 -> In (arr t0) (map arr (slices_of t) ++ map arr others) ->
                wf_slice h1 t0 /\ content h1 t0 = content h t0).
    { intros t0 W Hin. apply keep_slice; auto. apply E4; [apply W|]. intros Heq. apply Hnin.
      now rewrite <- Heq. }
    assert (Kt : forall t0, In t0 (slices_of t) -> wf_slice h1 t0 /\ content h1 t0 = content h t0).
    { intros t0 Hin. apply K; [rewrite Forall_forall in Ht; now apply Ht|].
      apply in_app_iff. left. now apply in_map. }
    assert (Ko : forall t0, In t0 others -> wf_slice h1 t0 /\ content h1 t0 = content h t0).
    { intros t0 Hin. apply K; [rewrite Forall_forall in Hoth; now apply Hoth|].
      apply in_app_iff. right. now apply in_map. }
    assert (P1 : Forall (wf_slice h1) (slices_of t)).
    { apply Forall_forall. intros t0 Hin. now apply Kt. }
    assert (P2 : Forall (wf_slice h1) (s1 :: others)).
    { constructor; [exact E2|]. apply Forall_forall. intros t0 Hin. now apply Ko. }
    assert (P3 : NoDup (map arr (slices_of t) ++ map arr (s1 :: others))).
    { cbn [map]. apply (Permutation_NoDup (Permutation_middle _ _ _)).
      destruct E3 as [E3|E3].
      - rewrite E3. exact Hnd.
      - constructor; [|exact Hnd']. intros Hin. apply Hlt in Hin. lia. }
    destruct (IH h1 (s1 :: others) P1 P2 P3) as (I1 & I2 & I3 & I4 & I5 & I6).
    set (r := fold_cols e h1 t) in *.
    split; [lia|]. split.
    { cbn [slices_of map snd]. constructor; [exact (Forall_inv I3)|exact I2]. }
    split; [exact (Forall_inv_tail I3)|]. split.
    { cbn [slices_of map snd app]. fold (slices_of (snd r)).
      cbn [map] in I4. apply (Permutation_NoDup (Permutation_sym (Permutation_middle _ _ _))).
      exact I4. }
    split.
    { intros t0 Hin. rewrite (I5 t0 (or_intror Hin)). now apply Ko. }
    change (abs_frame (fst r) ((k, s1) :: snd r))
      with ((k, content (fst r) s1) :: abs_frame (fst r) (snd r)).
    change (amap g (abs_frame h ((k, s) :: t)))
      with ((k, g k (content h s)) :: amap g (abs_frame h t)).
    rewrite I6, (I5 s1 (or_introl eq_refl)), E5. f_equal. f_equal.
    apply abs_frame_same. intros t0 Hin. now apply Kt.
Qed.

(* derivations: every column of the result is a fresh array *)
Lemma fold_fresh {A} (F : str -> heap -> A -> list cell) : forall l h,
  (forall ka ext, In ka l -> F (fst ka) (h ++ ext) (snd ka) = F (fst ka) h (snd ka)) ->
  (exists ext, fst (fold_cols (fun k h a => sl_from_list grow h (F k h a)) h l) = h ++ ext) /\
  Forall (fun s => wf_slice (fst (fold_cols (fun k h a => sl_from_list grow h (F k h a)) h l)) s /\
                   length h <= arr s)
         (slices_of (snd (fold_cols (fun k h a => sl_from_list grow h (F k h a)) h l))) /\
  NoDup (map arr (slices_of (snd (fold_cols (fun k h a => sl_from_list grow h (F k h a)) h l)))) /\
  abs_frame (fst (fold_cols (fun k h a => sl_from_list grow h (F k h a)) h l))
            (snd (fold_cols (fun k h a => sl_from_list grow h (F k h a)) h l))
    = map (fun ka => (fst ka, F (fst ka) h (snd ka))) l.
Proof.
  induction l as [|[k a] t IH]; intros h Hst.
  - cbn. split; [exists []; now rewrite app_nil_r|]. repeat split; constructor.
  - cbn [fold_cols fst snd].
    destruct (from_list_heap h (F k h a)) as (x & Hx).
    pose proof (from_list_wf h (F k h a)) as Hw.
    pose proof (from_list_content h (F k h a)) as Hcn.
    pose proof (from_list_arr h (F k h a)) as Har.
    set (h1 := fst (sl_from_list grow h (F k h a))) in *.
    set (s1 := snd (sl_from_list grow h (F k h a))) in *.
    assert (Hst1 : forall ka ext, In ka t -> F (fst ka) (h1 ++ ext) (snd ka) = F (fst ka) h1 (snd ka)).
    { intros ka ext Hin. rewrite Hx, <- app_assoc.
      rewrite !Hst by (now right). reflexivity. }
    destruct (IH h1 Hst1) as ((ext & He) & I2 & I3 & I4).
    set (r := fold_cols (fun k h a => sl_from_list grow h (F k h a)) h1 t) in *.
    assert (Hl1 : length h1 = S (length h)).
    { rewrite Hx, app_length. cbn. lia. }
    split; [exists ([x] ++ ext); rewrite He, Hx, <- app_assoc; reflexivity|].
    split.
    { cbn [slices_of map snd]. constructor.
      - split; [rewrite He; now apply wf_ext|lia].
      - eapply Forall_impl; [|exact I2]. cbn beta. intros s0 (W0 & L0). split; [exact W0|lia]. }
    split.
    { cbn [slices_of map snd]. constructor; [|exact I3]. intros Hin.
      apply in_map_iff in Hin as (s0 & Heq & Hin). rewrite Forall_forall in I2.
      destruct (I2 s0 Hin) as (_ & L0). lia. }
    change (abs_frame (fst r) ((k, s1) :: snd r))
      with ((k, content (fst r) s1) :: abs_frame (fst r) (snd r)).
    cbn [map fst snd]. rewrite I4. f_equal.
    + f_equal. rewrite He, content_ext by lia. exact Hcn.
    + apply map_ext_in. intros ka Hin. f_equal. rewrite Hx. apply Hst. now right.
Qed.

(* ====================================================================== *)
(* 5. the pool: Sep is preserved, contents change as the L1 model says     *)
(* ====================================================================== *)
Theorem edit_sep_refines e g f st : (forall k, edit_ok (e k) (g k)) -> Sep st ->
  Sep (l2_edit e f st) /\ abs_state (l2_edit e f st) = a_edit g f (abs_state st).
Proof.
  intros Hok (Hwf & Hnd). unfold l2_edit, a_edit, abs_state. rewrite nth_opt_map.
  destruct (nth_opt (frames st) f) as [fr|] eqn:E; cbn [option_map]; [|split; [split|]; auto].
  apply nth_opt_split in E as (pre & post & Hfr & Hpre).
  rewrite Hfr in Hwf, Hnd |- *. rewrite all_slices_app in Hwf, Hnd.
  cbn [all_slices flat_map] in Hwf, Hnd. fold (all_slices post) in Hwf, Hnd.
  set (others := all_slices pre ++ all_slices post).
  assert (W1 : Forall (wf_slice (hp st)) (slices_of fr)).
  { apply Forall_app in Hwf as (_ & Hwf). now apply Forall_app in Hwf as (Hwf & _). }
  assert (W2 : Forall (wf_slice (hp st)) others).
  { apply Forall_app in Hwf as (Ha & Hwf). apply Forall_app in Hwf as (_ & Hb).
    apply Forall_app. now split. }
  assert (N1 : NoDup (map arr (slices_of fr) ++ map arr others)).
  { unfold others. rewrite <- map_app. eapply Permutation_NoDup; [|exact Hnd].
    apply Permutation_map. apply Permutation_app_swap_app. }
  destruct (fold_edit e g Hok fr (hp st) others W1 W2 N1) as (I1 & I2 & I3 & I4 & I5 & I6).
  set (r := fold_cols e (hp st) fr) in *.
  rewrite <- Hpre. rewrite set_nth_mid. cbn [hp frames].
  split.
  - split; cbn [hp frames]; rewrite all_slices_app; cbn [all_slices flat_map];
      fold (all_slices post).
    + unfold others in I3. apply Forall_app in I3 as (Ia & Ib).
      apply Forall_app. split; [exact Ia|]. apply Forall_app. now split.
    + eapply Permutation_NoDup; [|exact I4]. unfold others. rewrite <- map_app.
      apply Permutation_map. apply Permutation_sym, Permutation_app_swap_app.
  - rewrite !map_app. cbn [map]. rewrite <- (map_length (abs_frame (hp st)) pre).
    rewrite set_nth_mid. rewrite I6. f_equal; [|f_equal].
    + apply abs_frames_same. intros t Hin. apply I5. unfold others. apply in_app_iff. now left.
    + apply abs_frames_same. intros t Hin. apply I5. unfold others. apply in_app_iff. now right.
Qed.

(* a new frame on fresh arrays joins the pool *)
Lemma add_frame_sep st h' fr' :
  Sep st -> (exists ext, h' = hp st ++ ext) ->
  Forall (fun s => wf_slice h' s /\ length (hp st) <= arr s) (slices_of fr') ->
  NoDup (map arr (slices_of fr')) ->
  Sep {| hp := h'; frames := frames st ++ [fr'] |} /\
  map (abs_frame h') (frames st) = map (abs_frame (hp st)) (frames st).
Proof.
  intros (Hwf & Hnd) (ext & ->) Hnew Hndnew. split.
  - split; cbn [hp frames]; rewrite all_slices_app; cbn [all_slices flat_map]; rewrite app_nil_r.
    + apply Forall_app. split.
      * eapply Forall_impl; [|exact Hwf]. intros s0 W0. now apply wf_ext.
      * eapply Forall_impl; [|exact Hnew]. cbn beta. intros s0 (W0 & _). exact W0.
    + rewrite map_app. apply NoDup_app_intro; auto.
      intros a Ha Hb. apply in_map_iff in Ha as (s0 & <- & Ha). apply in_map_iff in Hb as (s1 & Heq & Hb).
      rewrite Forall_forall in Hwf, Hnew. destruct (Hnew s1 Hb) as (_ & L1).
      destruct (Hwf s0 Ha) as (L0 & _). lia.
  - apply abs_frames_same. intros t Hin. apply content_ext.
    rewrite Forall_forall in Hwf. apply (Hwf t Hin).
Qed.

Theorem derive_sep_refines e F g f st :
  (forall k h s, e k h s = sl_from_list grow h (F k h s)) ->
  (forall k h ext s, arr s < length h -> F k (h ++ ext) s = F k h s) ->
  (forall k h s, wf_slice h s -> F k h s = g k (content h s)) ->
  Sep st ->
  Sep (l2_derive e f st) /\ abs_state (l2_derive e f st) = a_derive g f (abs_state st).
Proof.
  intros He Hstab Hspec HS. pose proof HS as (Hwf & Hnd).
  unfold l2_derive, a_derive, abs_state. rewrite nth_opt_map.
  destruct (nth_opt (frames st) f) as [fr|] eqn:E; cbn [option_map]; [|split; auto].
  rewrite (fold_cols_ext e _ He).
  assert (Hin : forall ks, In ks fr -> wf_slice (hp st) (snd ks)).
  { intros ks Hks. rewrite Forall_forall in Hwf. apply Hwf. unfold all_slices.
    apply in_flat_map. exists fr. split.
    - apply nth_opt_split in E as (pre & post & -> & _). apply in_app_iff. right. now left.
    - unfold slices_of. now apply in_map. }
  destruct (fold_fresh F fr (hp st)) as (Hext & I2 & I3 & I4).
  { intros ka ext Hka. apply Hstab. apply (Hin ka Hka). }
  set (r := fold_cols (fun k h a => sl_from_list grow h (F k h a)) (hp st) fr) in *.
  destruct (add_frame_sep st (fst r) (snd r) HS Hext I2 I3) as (S' & A').
  split; [exact S'|]. cbn [hp frames]. rewrite map_app. cbn [map]. rewrite A', I4.
  f_equal. f_equal. unfold amap, abs_frame. rewrite map_map. apply map_ext_in.
  intros ks Hks. cbn [fst snd]. f_equal. apply Hspec. now apply Hin.
Qed.

Lemma map_pair_id {A B} (l : list (A * B)) : map (fun ka => (fst ka, snd ka)) l = l.
Proof. induction l as [|[a b] t IH]; cbn; [reflexivity|]. now rewrite IH. Qed.

Theorem derive_pool_sep_refines G st : Sep st ->
  Sep (l2_derive_pool grow G st) /\
  abs_state (l2_derive_pool grow G st) = abs_state st ++ [G (abs_state st)].
Proof.
  intros HS. unfold l2_derive_pool.
  destruct (fold_fresh (fun _ _ (l : list cell) => l) (G (abs_state st)) (hp st))
    as (Hext & I2 & I3 & I4).
  { reflexivity. }
  set (r := fold_cols (fun (_ : str) h (l : list cell) => sl_from_list grow h l) (hp st) (G (abs_state st))) in *.
  destruct (add_frame_sep st (fst r) (snd r) HS Hext I2 I3) as (S' & A').
  split; [exact S'|]. unfold abs_state at 1. cbn [hp frames]. rewrite map_app. cbn [map].
  rewrite A', I4, map_pair_id. reflexivity.
Qed.

(* ====================================================================== *)
(* 6. every operation                                                      *)
(* ====================================================================== *)
Lemma reslice_head_content n h s :
  content h (sl_reslice s 0 (Nat.min n (len s))) = firstn n (content h s).
Proof.
  unfold content, sl_reslice. cbn [arr off len cap]. rewrite Nat.add_0_r, Nat.sub_0_r.
  symmetry. apply firstn_firstn.
Qed.
Lemma reslice_tail_content n h s : wf_slice h s ->
  content h (sl_reslice s (len s - n) (len s)) = skipn (length (content h s) - n) (content h s).
Proof.
  intros H. rewrite (content_length h s H). unfold content, sl_reslice. cbn [arr off len cap].
  rewrite skipn_firstn_comm, skipn_skipn'. reflexivity.
Qed.

Theorem head_ok f n st : Sep st ->
  Sep (l2_head grow f n st) /\
  abs_state (l2_head grow f n st) = a_derive (fun _ c => firstn n c) f (abs_state st).
Proof.
  apply (derive_sep_refines (head_step grow n)
           (fun _ h s => content h (sl_reslice s 0 (Nat.min n (len s)))) (fun _ c => firstn n c)).
  - reflexivity.
  - intros _ h ext s Hs. now apply content_ext.
  - intros _ h s _. apply reslice_head_content.
Qed.
Theorem tail_ok f n st : Sep st ->
  Sep (l2_tail grow f n st) /\
  abs_state (l2_tail grow f n st) = a_derive (fun _ c => skipn (length c - n) c) f (abs_state st).
Proof.
  apply (derive_sep_refines (tail_step grow n)
           (fun _ h s => content h (sl_reslice s (len s - n) (len s)))
           (fun _ c => skipn (length c - n) c)).
  - reflexivity.
  - intros _ h ext s Hs. now apply content_ext.
  - intros _ h s Hs. now apply reslice_tail_content.
Qed.
Theorem derive_fresh_ok f g st : Sep st ->
  Sep (l2_derive_fresh grow f g st) /\
  abs_state (l2_derive_fresh grow f g st) = a_derive (fun _ => g) f (abs_state st).
Proof.
  apply (derive_sep_refines (fresh_step grow g) (fun _ h s => g (content h s)) (fun _ => g)).
  - reflexivity.
  - intros _ h ext s Hs. now rewrite content_ext.
  - reflexivity.
Qed.

Lemma sort_step_fresh p k h s :
  sort_step grow p k h s = sl_from_list grow h (overwrite (content h s) (p (content h s))).
Proof.
  unfold sort_step, sl_copy. cbv zeta. rewrite from_list_content.
  set (c := content h s). set (l := firstn (length c) (p c)).
  assert (Hl : length l <= length c) by (unfold l; rewrite firstn_length; lia).
  assert (Hlen : length (overwrite c (p c)) = length c).
  { unfold overwrite. fold l. rewrite app_length, skipn_length. lia. }
  unfold sl_from_list. rewrite Hlen. cbn [fst snd arr off len cap]. rewrite upd_new.
  f_equal. f_equal. f_equal. unfold blit, overwrite. fold l. cbn [firstn Nat.add app].
  rewrite skipn_app. replace (length l - length c) with 0 by lia. cbn [skipn].
  now rewrite app_assoc.
Qed.
Theorem sort_ok f p st : Sep st ->
  Sep (l2_sort grow f p st) /\
  abs_state (l2_sort grow f p st) = a_derive (fun _ c => overwrite c (p c)) f (abs_state st).
Proof.
  apply (derive_sep_refines (sort_step grow p)
           (fun _ h s => overwrite (content h s) (p (content h s)))
           (fun _ c => overwrite c (p c))).
  - apply sort_step_fresh.
  - intros _ h ext s Hs. now rewrite content_ext.
  - reflexivity.
Qed.
Lemma overwrite_same_length c l : length l = length c -> overwrite c l = l.
Proof.
  intros H. unfold overwrite. rewrite <- H, firstn_all, H, skipn_all. apply app_nil_r.
Qed.

Theorem setcell_ok f k i v st : Sep st ->
  Sep (l2_setcell f k i v st) /\
  abs_state (l2_setcell f k i v st)
  = a_edit (fun k' c => if str_eqb k k' then set_nth c i v else c) f (abs_state st).
Proof.
  apply edit_sep_refines. intros k'. unfold setcell_step.
  destruct (str_eqb k k'); [apply edit_ok_set|apply edit_ok_id].
Qed.
Theorem fillna_ok f v st : Sep st ->
  Sep (l2_fillna f v st) /\
  abs_state (l2_fillna f v st) = a_edit (fun _ c => map (fill_cell v) c) f (abs_state st).
Proof. apply edit_sep_refines. intros k0. apply edit_ok_fill. Qed.
Theorem append_row_ok f r st : Sep st ->
  Sep (l2_append_row grow f r st) /\
  abs_state (l2_append_row grow f r st) = a_edit (fun k c => c ++ [rget r k]) f (abs_state st).
Proof. apply edit_sep_refines. intros k. apply edit_ok_append. Qed.
Theorem droprow_ok f i st : Sep st ->
  Sep (l2_droprow grow f i st) /\
  abs_state (l2_droprow grow f i st) = a_edit (fun _ c => remove_nth c i) f (abs_state st).
Proof. apply edit_sep_refines. intros k0. apply edit_ok_remove. Qed.
Theorem replace_col_ok f k g st : Sep st ->
  Sep (l2_replace_col grow f k g st) /\
  abs_state (l2_replace_col grow f k g st)
  = a_edit (fun k' c => if str_eqb k k' then g c else c) f (abs_state st).
Proof.
  apply edit_sep_refines. intros k'. unfold replace_col_step.
  destruct (str_eqb k k'); [apply edit_ok_fresh|apply edit_ok_id].
Qed.

(* the names asked for *)
Corollary sep_head f n st : Sep st -> Sep (l2_head grow f n st).
Proof. intros H. apply (head_ok f n st H). Qed.
Corollary sep_tail f n st : Sep st -> Sep (l2_tail grow f n st).
Proof. intros H. apply (tail_ok f n st H). Qed.
Corollary sep_derive_fresh f g st : Sep st -> Sep (l2_derive_fresh grow f g st).
Proof. intros H. apply (derive_fresh_ok f g st H). Qed.
Corollary sep_sort f p st : Sep st -> Sep (l2_sort grow f p st).
Proof. intros H. apply (sort_ok f p st H). Qed.
Corollary sep_derive_pool G st : Sep st -> Sep (l2_derive_pool grow G st).
Proof. intros H. apply (derive_pool_sep_refines G st H). Qed.
Corollary sep_setcell f k i v st : Sep st -> Sep (l2_setcell f k i v st).
Proof. intros H. apply (setcell_ok f k i v st H). Qed.
Corollary sep_fillna f v st : Sep st -> Sep (l2_fillna f v st).
Proof. intros H. apply (fillna_ok f v st H). Qed.
Corollary sep_append_row f r st : Sep st -> Sep (l2_append_row grow f r st).
Proof. intros H. apply (append_row_ok f r st H). Qed.
Corollary sep_droprow f i st : Sep st -> Sep (l2_droprow grow f i st).
Proof. intros H. apply (droprow_ok f i st H). Qed.
Corollary sep_replace_col f k g st : Sep st -> Sep (l2_replace_col grow f k g st).
Proof. intros H. apply (replace_col_ok f k g st H). Qed.

Theorem step_sep_refines st o : Sep st ->
  Sep (l2_step grow st o) /\ abs_state (l2_step grow st o) = a_step (abs_state st) o.
Proof.
  intros H. destruct o; cbn [l2_step a_step].
  - now apply head_ok.
  - now apply tail_ok.
  - now apply derive_fresh_ok.
  - now apply sort_ok.
  - now apply derive_pool_sep_refines.
  - now apply setcell_ok.
  - now apply fillna_ok.
  - now apply append_row_ok.
  - now apply droprow_ok.
  - now apply replace_col_ok.
Qed.

(* ---------- C02_sep_histories ---------- *)
Theorem C02_sep_histories ops : forall st0, Sep st0 -> Sep (fold_left (l2_step grow) ops st0).
Proof.
  induction ops as [|o ops IH]; intros st0 H; cbn [fold_left]; [exact H|].
  apply IH. now apply step_sep_refines.
Qed.

(* ---------- C02_refines ---------- *)
Theorem C02_refines st o : Sep st -> abs_state (l2_step grow st o) = a_step (abs_state st) o.
Proof. intros H. now apply step_sep_refines. Qed.
Theorem C02_refines_histories ops : forall st0, Sep st0 ->
  abs_state (fold_left (l2_step grow) ops st0) = fold_left a_step ops (abs_state st0).
Proof.
  induction ops as [|o ops IH]; intros st0 H; cbn [fold_left]; [reflexivity|].
  rewrite IH by (now apply step_sep_refines). now rewrite C02_refines.
Qed.

(* ====================================================================== *)
(* 7. frame locality and non-interference                                  *)
(* ====================================================================== *)
Lemma a_edit_nth_neq g f P j : f <> j -> nth_opt (a_edit g f P) j = nth_opt P j.
Proof.
  intros H. unfold a_edit. destruct (nth_opt P f); [now apply nth_opt_set_nth_neq|reflexivity].
Qed.
Lemma a_edit_nth_eq g f P af : nth_opt P f = Some af -> nth_opt (a_edit g f P) f = Some (amap g af).
Proof.
  intros H. unfold a_edit. rewrite H. apply nth_opt_set_nth_eq. eapply nth_opt_some_lt; eauto.
Qed.
Lemma a_edit_length g f P : length (a_edit g f P) = length P.
Proof. unfold a_edit. destruct (nth_opt P f); [apply set_nth_length|reflexivity]. Qed.
Lemma a_derive_nth g f P j : j < length P -> nth_opt (a_derive g f P) j = nth_opt P j.
Proof.
  intros H. unfold a_derive. destruct (nth_opt P f); [now apply nth_opt_app_l|reflexivity].
Qed.
Lemma a_derive_new g f P af :
  nth_opt P f = Some af -> a_derive g f P = P ++ [amap g af].
Proof. intros H. unfold a_derive. now rewrite H. Qed.

Lemma a_step_edit o f : edit_target o = Some f -> forall P, a_step P o = a_edit (edit_fn o) f P.
Proof. destruct o; cbn [edit_target]; try discriminate; intros [= <-] P; reflexivity. Qed.
Lemma a_step_derive_nth o P j :
  edit_target o = None -> j < length P -> nth_opt (a_step P o) j = nth_opt P j.
Proof.
  destruct o; cbn [edit_target a_step]; try discriminate; intros _ H;
    try (now apply a_derive_nth). now apply nth_opt_app_l.
Qed.
Lemma a_step_length o P : length P <= length (a_step P o) <= S (length P).
Proof.
  destruct o; cbn [a_step]; unfold a_derive, a_edit;
    try (destruct (nth_opt P f)); rewrite ?app_length, ?set_nth_length; cbn [length]; lia.
Qed.
Lemma a_step_edit_length o f P : edit_target o = Some f -> length (a_step P o) = length P.
Proof. intros H. rewrite (a_step_edit o f H). apply a_edit_length. Qed.

Lemma abs_state_length st : length (abs_state st) = length (frames st).
Proof. apply map_length. Qed.

(* ---------- C02_frame_local ---------- *)
(* One step from a separated state:
   (a) every live frame that is not the edited one shows exactly what it showed before -
       in particular a derivation changes no live frame, its source included;
   (b) the edited frame shows the L1 function of what it showed;
   (c) a derivation from frame f adds one frame whose columns show the L1 function of the
       source columns; an edit adds none. *)
Theorem C02_frame_local st o : Sep st ->
  (forall j, j < length (frames st) -> edit_target o <> Some j ->
     nth_opt (abs_state (l2_step grow st o)) j = nth_opt (abs_state st) j) /\
  (forall f af, edit_target o = Some f -> nth_opt (abs_state st) f = Some af ->
     nth_opt (abs_state (l2_step grow st o)) f = Some (amap (edit_fn o) af)) /\
  (forall f, edit_target o = Some f -> length (frames (l2_step grow st o)) = length (frames st)) /\
  length (frames st) <= length (frames (l2_step grow st o)) <= S (length (frames st)).
Proof.
  intros H. rewrite <- !abs_state_length. rewrite (C02_refines st o H).
  split; [|split; [|split]].
  - intros j Hj Hne. destruct (edit_target o) as [f|] eqn:E.
    + rewrite (a_step_edit o f E). apply a_edit_nth_neq. congruence.
    + now apply a_step_derive_nth.
  - intros f af E Hf. rewrite (a_step_edit o f E). now apply a_edit_nth_eq.
  - intros f E. now apply (a_step_edit_length o f).
  - apply a_step_length.
Qed.

(* the new frame of each copying derivation *)
Theorem C02_derived_content st f af : Sep st -> nth_opt (abs_state st) f = Some af ->
  (forall n, abs_state (l2_head grow f n st) = abs_state st ++ [amap (fun _ c => firstn n c) af]) /\
  (forall n, abs_state (l2_tail grow f n st)
             = abs_state st ++ [amap (fun _ c => skipn (length c - n) c) af]) /\
  (forall g, abs_state (l2_derive_fresh grow f g st) = abs_state st ++ [amap (fun _ => g) af]) /\
  (forall p, (forall c, length (p c) = length c) ->
             abs_state (l2_sort grow f p st) = abs_state st ++ [amap (fun _ => p) af]).
Proof.
  intros H Hf. repeat split.
  - intros n. rewrite (proj2 (head_ok f n st H)). now apply a_derive_new.
  - intros n. rewrite (proj2 (tail_ok f n st H)). now apply a_derive_new.
  - intros g. rewrite (proj2 (derive_fresh_ok f g st H)). now apply a_derive_new.
  - intros p Hp. rewrite (proj2 (sort_ok f p st H)). rewrite (a_derive_new _ f _ af Hf).
    f_equal. f_equal. unfold amap. apply map_ext. intros kc. f_equal.
    apply overwrite_same_length. apply Hp.
Qed.

(* ---------- C02_no_interference ---------- *)
(* what a history does to the content of frame j, looking only at the operations that
   edit frame j *)
Definition proj_step (j : nat) (af : aframe) (o : l2op) : aframe :=
  match edit_target o with
  | Some f => if f =? j then amap (edit_fn o) af else af
  | None => af
  end.

Lemma a_history_proj j ops : forall P af0, nth_opt P j = Some af0 ->
  nth_opt (fold_left a_step ops P) j = Some (fold_left (proj_step j) ops af0).
Proof.
  induction ops as [|o ops IH]; intros P af0 H; cbn [fold_left]; [exact H|].
  apply IH. unfold proj_step. pose proof (nth_opt_some_lt _ _ _ H) as Hlt.
  destruct (edit_target o) as [f|] eqn:E.
  - rewrite (a_step_edit o f E). destruct (f =? j) eqn:Ej.
    + apply Nat.eqb_eq in Ej. subst f. now apply a_edit_nth_eq.
    + apply Nat.eqb_neq in Ej. rewrite a_edit_nth_neq by assumption. exact H.
  - rewrite a_step_derive_nth by assumption. exact H.
Qed.

Theorem C02_no_interference ops st0 j af0 : Sep st0 ->
  nth_opt (abs_state st0) j = Some af0 ->
  nth_opt (abs_state (fold_left (l2_step grow) ops st0)) j = Some (fold_left (proj_step j) ops af0).
Proof.
  intros H Hj. rewrite C02_refines_histories by assumption. now apply a_history_proj.
Qed.
(* the same for a frame born in the middle of a history *)
Corollary C02_no_interference_born ops1 ops2 st0 j af : Sep st0 ->
  nth_opt (abs_state (fold_left (l2_step grow) ops1 st0)) j = Some af ->
  nth_opt (abs_state (fold_left (l2_step grow) (ops1 ++ ops2) st0)) j
  = Some (fold_left (proj_step j) ops2 af).
Proof.
  intros H Hj. rewrite fold_left_app. apply C02_no_interference; [|exact Hj].
  now apply C02_sep_histories.
Qed.
(* in the statement's words: a history in which no operation edits frame j leaves it alone *)
Corollary C02_untouched ops st0 j af0 : Sep st0 ->
  nth_opt (abs_state st0) j = Some af0 ->
  Forall (fun o => edit_target o <> Some j) ops ->
  nth_opt (abs_state (fold_left (l2_step grow) ops st0)) j = Some af0.
Proof.
  intros H Hj Hno. rewrite (C02_no_interference ops st0 j af0 H Hj). f_equal.
  clear Hj. induction Hno as [|o ops Ho _ IH]; cbn [fold_left]; [reflexivity|].
  unfold proj_step at 2. destruct (edit_target o) as [f|]; [|exact IH].
  destruct (f =? j) eqn:E; [|exact IH]. apply Nat.eqb_eq in E. congruence.
Qed.
End Policy.

(* ====================================================================== *)
(* 8. Sep in words, and as a boolean                                       *)
(* ====================================================================== *)
Lemma nth_opt_In {A} (l : list A) : forall i x, nth_opt l i = Some x -> In x l.
Proof.
  induction l as [|y t IH]; intros [|i] x H; cbn in H; try discriminate.
  - injection H as ->. now left.
  - right. eapply IH; eauto.
Qed.
Lemma In_nth_opt {A} (l : list A) x : In x l -> exists i, nth_opt l i = Some x.
Proof.
  induction l as [|y t IH]; intros H; [destruct H|].
  destruct H as [->|H]; [now exists 0|]. destruct (IH H) as (i & Hi). now exists (S i).
Qed.
Lemma nodup_nth_inj {A} (f : A -> nat) (l : list A) : NoDup (map f l) ->
  forall j j' x y, nth_opt l j = Some x -> nth_opt l j' = Some y -> f x = f y -> j = j'.
Proof.
  induction l as [|z t IH]; intros N [|j] [|j'] x y Hx Hy E; cbn in *; try discriminate; auto.
  - injection Hx as ->. inversion N as [|? ? Hn _]; subst. exfalso. apply Hn. rewrite E.
    apply in_map. eapply nth_opt_In; eauto.
  - injection Hy as ->. inversion N as [|? ? Hn _]; subst. exfalso. apply Hn. rewrite <- E.
    apply in_map. eapply nth_opt_In; eauto.
  - f_equal. inversion N; subst. eapply IH; eauto.
Qed.
Lemma nth_inj_nodup {A} (f : A -> nat) (l : list A) :
  (forall j j' x y, nth_opt l j = Some x -> nth_opt l j' = Some y -> f x = f y -> j = j') ->
  NoDup (map f l).
Proof.
  induction l as [|z t IH]; intros H; cbn [map]; constructor.
  - intros Hin. apply in_map_iff in Hin as (y & E & Hy). apply In_nth_opt in Hy as (j' & Hj').
    assert (0 = S j') by (apply (H 0 (S j') z y); cbn; auto). discriminate.
  - apply IH. intros j j' x y Hx Hy E.
    assert (S j = S j') by (apply (H (S j) (S j') x y); cbn; auto). congruence.
Qed.

Definition slots_wf (st : l2state) : Prop :=
  forall i j s, slot st i j = Some s -> wf_slice (hp st) s.
Definition slots_disjoint (st : l2state) : Prop :=
  forall i j i' j' s s', slot st i j = Some s -> slot st i' j' = Some s' ->
    arr s = arr s' -> i = i' /\ j = j'.

Lemma slot_cons h fr frs i j :
  slot {| hp := h; frames := fr :: frs |} (S i) j = slot {| hp := h; frames := frs |} i j.
Proof. reflexivity. Qed.

Lemma slot_in st i j s : slot st i j = Some s -> In s (all_slices (frames st)).
Proof.
  unfold slot. destruct (nth_opt (frames st) i) as [fr|] eqn:E; [|discriminate].
  destruct (nth_opt fr j) as [ks|] eqn:E2; [|discriminate]. cbn. intros [= <-].
  unfold all_slices. apply in_flat_map. exists fr. split; [eapply nth_opt_In; eauto|].
  unfold slices_of. apply in_map. eapply nth_opt_In; eauto.
Qed.
Lemma in_slot st s : In s (all_slices (frames st)) -> exists i j, slot st i j = Some s.
Proof.
  unfold all_slices. intros H. apply in_flat_map in H as (fr & Hfr & Hs).
  unfold slices_of in Hs. apply in_map_iff in Hs as (ks & <- & Hks).
  apply In_nth_opt in Hfr as (i & Hi). apply In_nth_opt in Hks as (j & Hj).
  exists i, j. unfold slot. now rewrite Hi, Hj.
Qed.

Lemma slots_disjoint_nodup h frs :
  slots_disjoint {| hp := h; frames := frs |} <-> NoDup (map arr (all_slices frs)).
Proof.
  induction frs as [|fr frs IH].
  - split; [constructor|]. intros _ i j i' j' s s' H. unfold slot in H. cbn in H.
    destruct i; discriminate.
  - cbn [all_slices flat_map]. fold (all_slices frs). rewrite map_app. split.
    + intros D. apply NoDup_app_intro.
      * unfold slices_of. rewrite map_map. apply nth_inj_nodup. intros j j' x y Hx Hy E.
        apply (D 0 j 0 j' (snd x) (snd y)); unfold slot; cbn; rewrite ?Hx, ?Hy; auto.
      * apply IH. intros i j i' j' s s' Hs Hs' E.
        destruct (D (S i) j (S i') j' s s' Hs Hs' E) as (Hi & Hj). split; congruence.
      * intros a Ha Hb. apply in_map_iff in Ha as (s & <- & Ha). apply in_map_iff in Hb as (s' & E & Hb).
        unfold slices_of in Ha. apply in_map_iff in Ha as (ks & <- & Ha).
        apply In_nth_opt in Ha as (j & Hj).
        destruct (in_slot {| hp := h; frames := frs |} s' Hb) as (i' & j' & Hs').
        destruct (D 0 j (S i') j' (snd ks) s') as (Hi & _); auto; try discriminate.
        unfold slot. cbn. now rewrite Hj.
    + intros N. apply NoDup_app_elim in N as (N1 & N2 & Nd).
      apply IH in N2. intros [|i] j [|i'] j' s s' Hs Hs' E.
      * split; [reflexivity|]. unfold slot in Hs, Hs'. cbn in Hs, Hs'.
        destruct (nth_opt fr j) as [x|] eqn:Ex; [|discriminate].
        destruct (nth_opt fr j') as [y|] eqn:Ey; [|discriminate].
        cbn in Hs, Hs'. injection Hs as <-. injection Hs' as <-.
        unfold slices_of in N1. rewrite map_map in N1.
        eapply (nodup_nth_inj (fun ks => arr (snd ks)) fr N1); eauto.
      * exfalso. rewrite slot_cons in Hs'. apply slot_in in Hs'. cbn [frames] in Hs'.
        unfold slot in Hs. cbn in Hs. destruct (nth_opt fr j) as [x|] eqn:Ex; [|discriminate].
        cbn in Hs. injection Hs as <-. apply (Nd (arr (snd x))).
        -- apply in_map. unfold slices_of. apply in_map. eapply nth_opt_In; eauto.
        -- rewrite E. now apply in_map.
      * exfalso. rewrite slot_cons in Hs. apply slot_in in Hs. cbn [frames] in Hs.
        unfold slot in Hs'. cbn in Hs'. destruct (nth_opt fr j') as [y|] eqn:Ey; [|discriminate].
        cbn in Hs'. injection Hs' as <-. apply (Nd (arr (snd y))).
        -- apply in_map. unfold slices_of. apply in_map. eapply nth_opt_In; eauto.
        -- rewrite <- E. now apply in_map.
      * rewrite slot_cons in Hs, Hs'. destruct (N2 i j i' j' s s' Hs Hs' E) as (-> & ->). auto.
Qed.

(* Sep says exactly: every slice of every live frame is well formed, and two different
   (frame, column) slots never share an array *)
Theorem Sep_iff_slots st : Sep st <-> slots_wf st /\ slots_disjoint st.
Proof.
  destruct st as [h frs]. unfold Sep. cbn [hp frames]. rewrite <- slots_disjoint_nodup.
  split; intros (W & D); (split; [|exact D]).
  - intros i j s Hs. rewrite Forall_forall in W. apply W. apply (slot_in _ _ _ _ Hs).
  - apply Forall_forall. intros s Hs. destruct (in_slot {| hp := h; frames := frs |} s Hs) as (i & j & Hij).
    apply (W i j s Hij).
Qed.

Lemma nodupb_iff l : nodupb l = true <-> NoDup l.
Proof.
  induction l as [|x t IH]; cbn [nodupb]; [split; [constructor|reflexivity]|].
  rewrite andb_true_iff, negb_true_iff, IH. split.
  - intros (Hx & Ht). constructor; [|exact Ht]. intros Hin.
    assert (existsb (Nat.eqb x) t = true) by (apply existsb_exists; exists x; split; [exact Hin|apply Nat.eqb_refl]).
    congruence.
  - intros N. inversion N as [|? ? Hx Ht]; subst. split; [|exact Ht].
    destruct (existsb (Nat.eqb x) t) eqn:E; [|reflexivity]. exfalso. apply Hx.
    apply existsb_exists in E as (y & Hy & Exy). apply Nat.eqb_eq in Exy. now subst.
Qed.
Lemma wf_sliceb_iff h s : wf_sliceb h s = true <-> wf_slice h s.
Proof.
  unfold wf_sliceb, wf_slice. rewrite !andb_true_iff, Nat.ltb_lt, !Nat.leb_le. tauto.
Qed.
Theorem sepb_iff st : sepb st = true <-> Sep st.
Proof.
  unfold sepb, Sep. rewrite andb_true_iff, nodupb_iff, forallb_forall, Forall_forall.
  split; intros (W & N); (split; [|exact N]); intros s Hs; apply wf_sliceb_iff; now apply W.
Qed.

(* ====================================================================== *)
(* 9. the historical Head, refuted; the repaired Head, for every policy    *)
(* ====================================================================== *)
Definition key_a : str := [97%N].
Definition key_b : str := [98%N].
Definition grow_exact (c n : nat) : nat := n.                  (* no spare capacity *)
Definition grow_double (c n : nat) : nat := Nat.max n (2 * c). (* doubling *)
Lemma grow_exact_ge c n : n <= grow_exact c n.
Proof. unfold grow_exact. lia. Qed.
Lemma grow_double_ge c n : n <= grow_double c n.
Proof. unfold grow_double. lia. Qed.

(* one frame, one column "a" = [1; 2; 3] with len = cap = 3 *)
Definition ex_st : l2state :=
  {| hp := [[CI KInt 1; CI KInt 2; CI KInt 3]];
     frames := [[(key_a, {| arr := 0; off := 0; len := 3; cap := 3 |})]] |}.
Definition ex_row : rowmap := [(key_a, CI KInt 100)].

Example ex_st_sep : Sep ex_st.
Proof. apply sepb_iff. vm_compute. reflexivity. Qed.

(* Head(1) by reslicing, then AppendRow on the head: the head has len 1 < cap 3, so append
   writes in place - into row 1 of the SOURCE.  Sep is lost at the aliasing step. *)
Theorem C02_head_alias_refuted :
  Sep ex_st /\
  ~ Sep (l2_head_alias 0 1 ex_st) /\
  nth_opt (abs_state (l2_append_row grow_exact 1 ex_row (l2_head_alias 0 1 ex_st))) 0
    = Some [(key_a, [CI KInt 1; CI KInt 100; CI KInt 3])] /\
  nth_opt (abs_state (l2_append_row grow_exact 1 ex_row (l2_head_alias 0 1 ex_st))) 0
    <> nth_opt (abs_state ex_st) 0.
Proof.
  split; [exact ex_st_sep|]. split; [|split].
  - intros H. apply sepb_iff in H. vm_compute in H. discriminate.
  - vm_compute. reflexivity.
  - vm_compute. discriminate.
Qed.
(* the aliasing shows under every growth policy: append never consults it when len < cap *)
Theorem C02_head_alias_refuted_any_policy grow :
  nth_opt (abs_state (l2_append_row grow 1 ex_row (l2_head_alias 0 1 ex_st))) 0
    = Some [(key_a, [CI KInt 1; CI KInt 100; CI KInt 3])].
Proof. vm_compute. reflexivity. Qed.

(* the repaired Head, same scenario, every growth policy: the source keeps [1; 2; 3],
   the head becomes [1; 100], the state stays separated *)
Theorem C02_head_copy_ok grow : (forall c n, n <= grow c n) ->
  Sep (l2_append_row grow 1 ex_row (l2_head grow 0 1 ex_st)) /\
  abs_state (l2_append_row grow 1 ex_row (l2_head grow 0 1 ex_st))
  = [[(key_a, [CI KInt 1; CI KInt 2; CI KInt 3])]; [(key_a, [CI KInt 1; CI KInt 100])]].
Proof.
  intros Hg.
  change (l2_append_row grow 1 ex_row (l2_head grow 0 1 ex_st))
    with (fold_left (l2_step grow) [L2Head 0 1; L2AppendRow 1 ex_row] ex_st).
  split.
  - apply C02_sep_histories; [exact Hg|exact ex_st_sep].
  - rewrite (C02_refines_histories grow Hg _ ex_st ex_st_sep). vm_compute. reflexivity.
Qed.
(* and in general: Head of any live frame of any separated state, then AppendRow on the
   result, leaves the source as it was *)
Theorem C02_head_copy_ok_gen grow : (forall c n, n <= grow c n) ->
  forall st f n r af, Sep st -> nth_opt (abs_state st) f = Some af ->
  nth_opt (abs_state (l2_append_row grow (length (frames st)) r (l2_head grow f n st))) f = Some af.
Proof.
  intros Hg st f n r af HS Hf.
  change (l2_append_row grow (length (frames st)) r (l2_head grow f n st))
    with (fold_left (l2_step grow) [L2Head f n; L2AppendRow (length (frames st)) r] st).
  apply (C02_untouched grow Hg); auto.
  pose proof (nth_opt_some_lt _ _ _ Hf) as Hlt. rewrite abs_state_length in Hlt.
  repeat constructor; cbn [edit_target]; [discriminate|]. intros [= E]. lia.
Qed.

(* ---------- a two-frame state with spare capacity and an offset slice ---------- *)
Definition ex2 : l2state :=
  {| hp := [[CI KInt 1; CI KInt 2; CI KInt 3; CNil]; [CS key_a; CNil; CS key_b; CNil];
            [CNil; CI KInt 7; CNil]];
     frames := [[(key_a, {| arr := 0; off := 0; len := 3; cap := 4 |});
                 (key_b, {| arr := 1; off := 0; len := 3; cap := 4 |})];
                [(key_a, {| arr := 2; off := 1; len := 1; cap := 2 |})]] |}.
Example ex2_sep : Sep ex2.
Proof. apply sepb_iff. vm_compute. reflexivity. Qed.
Example ex2_slots : slots_wf ex2 /\ slots_disjoint ex2.
Proof. apply Sep_iff_slots. exact ex2_sep. Qed.

Definition ex2_ops : list l2op :=
  [L2Head 0 2; L2AppendRow 2 ex_row; L2DropRow 0 0; L2FillNa 1 (CI KInt 9);
   L2SetCell 2 key_a 0 (CB true); L2Tail 0 1; L2AppendRow 0 ex_row; L2AppendRow 0 ex_row;
   L2ReplaceCol 1 key_a (fun c => c ++ c); L2Sort 0 (@rev cell);
   L2DerivePool (fun P => concat P); L2DeriveFresh 1 (fun c => CNil :: c)].
(* the hypotheses of the history theorems are met, and the history does something *)
Example ex2_history_sep : Sep (fold_left (l2_step grow_double) ex2_ops ex2).
Proof. apply C02_sep_histories; [exact grow_double_ge|exact ex2_sep]. Qed.
Example ex2_history_run :
  sepb (fold_left (l2_step grow_double) ex2_ops ex2) = true /\
  abs_state (fold_left (l2_step grow_double) ex2_ops ex2) = fold_left a_step ex2_ops (abs_state ex2) /\
  length (abs_state (fold_left (l2_step grow_double) ex2_ops ex2)) = 7 /\
  nth_opt (abs_state (fold_left (l2_step grow_double) ex2_ops ex2)) 2
    = Some [(key_a, [CB true; CI KInt 2; CI KInt 100]); (key_b, [CS key_a; CNil; CNil])].
Proof. vm_compute. repeat split; reflexivity. Qed.
(* frame 2 (the Head of frame 0) after the whole history = its content at birth with only
   the two operations that edit frame 2 applied *)
Example ex2_no_interference :
  nth_opt (abs_state (fold_left (l2_step grow_double) ex2_ops ex2)) 2
  = Some (fold_left (proj_step 2) (skipn 1 ex2_ops)
            [(key_a, [CI KInt 1; CI KInt 2]); (key_b, [CS key_a; CNil])]).
Proof.
  apply (C02_no_interference_born grow_double grow_double_ge (firstn 1 ex2_ops) (skipn 1 ex2_ops)).
  - exact ex2_sep.
  - vm_compute. reflexivity.
Qed.

(* ====================================================================== *)
(* 10. the column-level functions are those of the L1 model (Ops.v)        *)
(* ====================================================================== *)
Definition aframe_of (f : frame) : aframe := map (fun kc => (fst kc, cdata (snd kc))) f.

Lemma l1_head f n f' : op_head f n = Ok f' ->
  aframe_of f' = amap (fun _ c => firstn (clamp_count f n) c) (aframe_of f).
Proof.
  unfold op_head. destruct (forallb _ f); [|discriminate]. intros [= <-].
  unfold aframe_of, amap, rekey_cols. rewrite !map_map. reflexivity.
Qed.
Lemma l1_tail f n f' : op_tail f n = Ok f' ->
  aframe_of f' = amap (fun _ c => skipn (nrows f - clamp_count f n) c) (aframe_of f).
Proof.
  unfold op_tail. destruct (forallb _ f); [|discriminate]. intros [= <-].
  unfold aframe_of, amap, rekey_cols. rewrite !map_map. reflexivity.
Qed.
Lemma l1_shift f p : aframe_of (op_shift f p) = amap (fun _ => shift_col p) (aframe_of f).
Proof. unfold op_shift, aframe_of, amap, rekey_cols. rewrite !map_map. reflexivity. Qed.
Lemma l1_fillna f v : aframe_of (op_fillna f v) = amap (edit_fn (L2FillNa 0 v)) (aframe_of f).
Proof. unfold op_fillna, aframe_of, amap, map_cols. rewrite !map_map. reflexivity. Qed.
Lemma l1_droprow f i f' : op_droprow f i = Ok f' ->
  aframe_of f' = amap (edit_fn (L2DropRow 0 (Z.to_nat i))) (aframe_of f).
Proof.
  unfold op_droprow. destruct (_ || _); [discriminate|]. destruct (forallb _ f); [|discriminate].
  intros [= <-]. unfold aframe_of, amap, map_cols. rewrite !map_map. reflexivity.
Qed.
(* AppendRow with a row whose keys are all columns of the frame (no column is created) *)
Lemma l1_append_row f r : forallb (fun kv => fhas f (fst kv)) r = true ->
  aframe_of (op_append_row f r) = amap (edit_fn (L2AppendRow 0 r)) (aframe_of f).
Proof.
  intros H. unfold op_append_row.
  assert (Hf : fold_left (fun acc kv => if fhas acc (fst kv) then acc
                                        else fset acc (fst kv) (fst kv, repeat CNil (nrows f))) r f = f).
  { generalize (nrows f). intros m. induction r as [|kv r IH]; cbn [fold_left]; [reflexivity|].
    cbn [forallb] in H. apply andb_true_iff in H as (H1 & H2). cbv beta.
    match goal with |- context [if ?b then _ else _] =>
      replace b with true by (symmetry; exact H1) end.
    now apply IH. }
  rewrite Hf. unfold aframe_of, amap. rewrite !map_map. reflexivity.
Qed.

(* SetCell: fset on a key that is present, in a frame whose keys are sorted (Go: unique) *)
Lemma sorted_tail a l : sorted_keys (a :: l) = true -> sorted_keys l = true.
Proof.
  destruct l as [|x l]; [reflexivity|].
  change (sorted_keys (a :: x :: l)) with (str_ltb a x && sorted_keys (x :: l)).
  intros H. now apply andb_true_iff in H.
Qed.
Lemma sorted_head_lt : forall l a, sorted_keys (a :: l) = true ->
  forall b, In b l -> str_ltb a b = true.
Proof.
  induction l as [|x l IH]; intros a H b Hb; [destruct Hb|].
  change (sorted_keys (a :: x :: l)) with (str_ltb a x && sorted_keys (x :: l)) in H.
  apply andb_true_iff in H as (H1 & H2). destruct Hb as [<-|Hb]; [exact H1|].
  eapply str_ltb_trans; [exact H1|]. now apply (IH x H2).
Qed.
Lemma fget_in_keys {A} (f : list (str * A)) k c : fget f k = Some c -> In k (fkeys f).
Proof.
  induction f as [|[k' c'] t IH]; cbn [fget fkeys map fst]; [discriminate|].
  destruct (str_eqb k k') eqn:E.
  - intros _. left. symmetry. now apply str_eqb_eq.
  - intros H. right. now apply IH.
Qed.
Lemma ltb_neqb a b : str_ltb a b = true -> str_eqb a b = false.
Proof.
  intros H. apply str_eqb_neq. intros ->. rewrite str_ltb_irrefl in H. discriminate.
Qed.
Lemma fset_present (G : list cell -> list cell) nm k : forall f c,
  sorted_keys (fkeys f) = true -> fget f k = Some c ->
  aframe_of (fset f k (nm, G (cdata c)))
  = amap (fun k' d => if str_eqb k k' then G d else d) (aframe_of f).
Proof.
  induction f as [|[k' c0] t IH]; intros c Hs Hg; [discriminate|].
  cbn [fget] in Hg. cbn [fkeys map fst] in Hs. fold (fkeys t) in Hs.
  cbn [fset]. destruct (str_eqb k k') eqn:E.
  - injection Hg as <-. apply str_eqb_eq in E. subst k'.
    rewrite (proj2 (str_compare_eq k k) eq_refl).
    cbn [aframe_of amap map fst snd cdata]. rewrite str_eqb_refl. f_equal.
    fold (aframe_of t). unfold aframe_of, amap. rewrite map_map. apply map_ext_in.
    intros [k2 c2] Hin. cbn [fst snd]. rewrite ltb_neqb; [reflexivity|].
    apply (sorted_head_lt (fkeys t) k Hs). unfold fkeys. apply (in_map fst _ _ Hin).
  - destruct (str_compare k k') eqn:C.
    + apply str_compare_eq in C. apply str_eqb_neq in E. contradiction.
    + exfalso. assert (L1 : str_ltb k k' = true) by (unfold str_ltb; now rewrite C).
      assert (L2 : str_ltb k' k = true).
      { apply (sorted_head_lt (fkeys t) k' Hs). eapply fget_in_keys; eauto. }
      pose proof (str_ltb_trans _ _ _ L1 L2) as L3. rewrite str_ltb_irrefl in L3. discriminate.
    + change (aframe_of ((k', c0) :: fset t k (nm, G (cdata c))))
        with ((k', cdata c0) :: aframe_of (fset t k (nm, G (cdata c)))).
      rewrite (IH c (sorted_tail _ _ Hs) Hg).
      cbn [aframe_of amap map fst snd]. now rewrite E.
Qed.
Lemma l1_setcell f cn i v f' : sorted_keys (fkeys f) = true -> op_setcell f cn i v = Ok f' ->
  aframe_of f' = amap (edit_fn (L2SetCell 0 cn (Z.to_nat i) v)) (aframe_of f).
Proof.
  intros Hs. unfold op_setcell. destruct (fget f cn) as [c|] eqn:E; [|discriminate].
  destruct (_ && _); [|discriminate]. intros [= <-].
  apply (fset_present (fun d => set_nth d (Z.to_nat i) v) (cname c) cn f c Hs E).
Qed.

(* ====================================================================== *)
Print Assumptions C02_sep_histories.
Print Assumptions C02_frame_local.
Print Assumptions C02_derived_content.
Print Assumptions C02_refines.
Print Assumptions C02_refines_histories.
Print Assumptions C02_no_interference.
Print Assumptions C02_no_interference_born.
Print Assumptions C02_untouched.
Print Assumptions C02_head_alias_refuted.
Print Assumptions C02_head_alias_refuted_any_policy.
Print Assumptions C02_head_copy_ok.
Print Assumptions C02_head_copy_ok_gen.
Print Assumptions Sep_iff_slots.
Print Assumptions sepb_iff.
Print Assumptions step_sep_refines.
