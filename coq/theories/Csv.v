(* Csv.v - full model of encoding/csv's reader and writer as goframe uses them
   (default Reader: comma, no lazy quotes, FieldsPerRecord from the first record;
   default Writer: comma, LF line ends), strings.TrimSpace, FromCSVReader, ToCSVWriter.
   Definitions only. *)
From GF Require Export Ops.

Definition NL := 10%N. Definition CR := 13%N. Definition QT := 34%N. Definition CM := 44%N.

(* readLine normalisation, global: CRLF -> LF; one trailing CR before EOF dropped *)
Fixpoint norm (s : str) : str :=
  match s with
  | [] => []
  | c :: r =>
    if N.eqb c CR then
      match r with
      | [] => []
      | d :: _ => if N.eqb d NL then norm r else c :: norm r
      end
    else c :: norm r
  end.

Inductive st := RecStart | FieldStart | Unq | Quo | QQ.

(* acc: cur field (rev), cur record (rev), done records (rev) *)
Fixpoint csv_go (s : str) (q : st) (f : str) (r : list str) (d : list (list str)) : option (list (list str)) :=
  let emit := rev f :: r in
  match s with
  | [] =>
    match q with
    | RecStart => Some (rev d)
    | FieldStart | Unq | QQ => Some (rev (rev emit :: d))
    | Quo => None
    end
  | c :: t =>
    match q with
    | RecStart =>
      if N.eqb c NL then csv_go t RecStart [] [] d
      else if N.eqb c QT then csv_go t Quo [] [] d
      else if N.eqb c CM then csv_go t FieldStart [] [[]] d
      else csv_go t Unq [c] [] d
    | FieldStart =>
      if N.eqb c QT then csv_go t Quo [] r d
      else if N.eqb c CM then csv_go t FieldStart [] ([] :: r) d
      else if N.eqb c NL then csv_go t RecStart [] [] (rev ([] :: r) :: d)
      else csv_go t Unq [c] r d
    | Unq =>
      if N.eqb c CM then csv_go t FieldStart [] emit d
      else if N.eqb c NL then csv_go t RecStart [] [] (rev emit :: d)
      else if N.eqb c QT then None
      else csv_go t Unq (c :: f) r d
    | Quo =>
      if N.eqb c QT then csv_go t QQ f r d else csv_go t Quo (c :: f) r d
    | QQ =>
      if N.eqb c QT then csv_go t Quo (QT :: f) r d
      else if N.eqb c CM then csv_go t FieldStart [] emit d
      else if N.eqb c NL then csv_go t RecStart [] [] (rev emit :: d)
      else None
    end
  end.

Definition same_width (recs : list (list str)) : bool :=
  match recs with
  | [] => true
  | h :: t => forallb (fun r => Nat.eqb (length r) (length h)) t
  end.
(* all records of the input, or None when any Read call would return an error *)
Definition csv_parse (s : str) : option (list (list str)) :=
  match csv_go (norm s) RecStart [] [] [] with
  | Some recs => if same_width recs then Some recs else None
  | None => None
  end.

(* ---------- unicode.IsSpace on the UTF-8 encodings (strings.TrimSpace, csv quoting) ---------- *)
Definition space_seqs : list str :=
  [[9]; [10]; [11]; [12]; [13]; [32];
   [194; 133]; [194; 160]; [225; 154; 128];
   [226; 128; 128]; [226; 128; 129]; [226; 128; 130]; [226; 128; 131]; [226; 128; 132];
   [226; 128; 133]; [226; 128; 134]; [226; 128; 135]; [226; 128; 136]; [226; 128; 137];
   [226; 128; 138]; [226; 128; 168]; [226; 128; 169]; [226; 128; 175]; [226; 129; 159];
   [227; 128; 128]]%N.
Fixpoint strip_prefix (p s : str) : option str :=
  match p, s with
  | [], _ => Some s
  | x :: p', y :: s' => if N.eqb x y then strip_prefix p' s' else None
  | _ :: _, [] => None
  end.
Definition strip_space (s : str) : option str :=
  fold_left (fun acc p => match acc with Some _ => acc | None => strip_prefix p s end) space_seqs None.
Fixpoint trim_left_fuel (fuel : nat) (s : str) : str :=
  match fuel with
  | O => s
  | S k => match strip_space s with Some r => trim_left_fuel k r | None => s end
  end.
Definition trim_left (s : str) : str := trim_left_fuel (length s) s.
Definition strip_space_rev (s : str) : option str :=   (* s is reversed *)
  fold_left (fun acc p => match acc with Some _ => acc | None => strip_prefix (rev p) s end) space_seqs None.
Fixpoint trim_right_fuel (fuel : nat) (s : str) : str :=
  match fuel with
  | O => s
  | S k => match strip_space_rev s with Some r => trim_right_fuel k r | None => s end
  end.
Definition trim_space (s : str) : str :=
  let l := trim_left s in rev (trim_right_fuel (length l) (rev l)).

(* ---------- writer ---------- *)
Definition needs_quotes (f : str) : bool :=
  match f with
  | [] => false
  | _ :: _ =>
    str_eqb f [92; 46]%N
    || existsb (fun x => N.eqb x NL || N.eqb x CR || N.eqb x QT || N.eqb x CM) f
    || is_some (strip_space f)
  end.
Fixpoint escq (f : str) : str :=
  match f with
  | [] => []
  | c :: r => if N.eqb c QT then QT :: QT :: escq r else c :: escq r
  end.
Definition wfield (f : str) : str := if needs_quotes f then QT :: escq f ++ [QT] else f.
Fixpoint wrec_fields (r : list str) : str :=
  match r with
  | [] => []
  | [f] => wfield f
  | f :: t => wfield f ++ CM :: wrec_fields t
  end.
(* goframe writes a record that is one empty field as "" so that the reader does not
   take the line for a blank one *)
Definition wrec (r : list str) : str :=
  match r with
  | [[]] => [QT; QT; NL]
  | _ => wrec_fields r ++ [NL]
  end.
Definition wfile (recs : list (list str)) : str := concat (map wrec recs).

(* ---------- FromCSVReader / ToCSVWriter ---------- *)
Definition csv_cell (O : oracles) (s : str) : cell :=
  let t := trim_space s in
  match pf O t with Some x => CF KF64 x | None => CS t end.
Fixpoint has_dup (l : list str) : bool :=
  match l with
  | [] => false
  | x :: t => existsb (str_eqb x) t || has_dup t
  end.
Fixpoint nth_field (r : list str) (i : nat) : str :=
  match r, i with
  | [], _ => []
  | x :: _, O => x
  | _ :: t, S k => nth_field t k
  end.
Definition op_from_csv (O : oracles) (b : str) : out frame :=
  match csv_parse b with
  | None | Some [] => Err
  | Some (header :: recs) =>
    if has_dup header then Err else
    Ok (fold_left (fun acc ih =>
          fset acc (snd ih) (snd ih, map (fun r => csv_cell O (nth_field r (fst ih))) recs))
        (combine (seq 0 (length header)) header) [])
  end.
Definition op_to_csv (O : oracles) (f : frame) : out str :=
  let header := fkeys f in
  match all_some (map (frow f) (seq 0 (nrows f))) with
  | None => Err
  | Some rs => Ok (wfile (header :: map (fun r => map (fun kv => render O (snd kv)) r) rs))
  end.
