(* Proof_View.v - facts about the read-only views of View.v: DataFrame.String, Select, Column.At,
   Series, the argument validation of LinePlot / BarPlot and Groupby with a key of another type.

   Main statements (the names are referenced from DESIGN.md):
     select_row_agree, select_row_total           Select + At gives the cell Row gives
     colat_spec, colat_err, colat_in_range        Column.At
     series_spec, series_len_nrows                Series.Len / Series.At
     views_never_panic                            no view panics (plots: on rectangular frames)
     plot_errors_are_validation, plot_invalid_errs, plot_ok_iff, plot_err_iff
     string_empty, string_lines, string_lines_shown, string_prefix_independent
     step_views_keep_pool                         the six view operations leave the pool alone *)
From Coq Require Import String.
From GF Require Import Ops Step Lemmas Proof_C20.
From Coq Require Import Lia List.
Import ListNotations.
Open Scope list_scope.

Arguments N.eqb : simpl never.

(* ------------------------------------------------------------------ *)
(* 0. helpers                                                          *)
(* ------------------------------------------------------------------ *)
Lemma pv_nth_opt_lt {A} (l : list A) : forall i, (i < List.length l)%nat -> nth_opt l i <> None.
Proof.
  induction l as [|x l IH]; intros [|i] H; cbn [List.length] in H; cbn [nth_opt]; try lia; try discriminate.
  apply IH. lia.
Qed.

Lemma pv_zidx_some {A} (l : list A) i v :
  zidx l i = Some v <-> (0 <= i < Z.of_nat (List.length l))%Z /\ nth_opt l (Z.to_nat i) = Some v.
Proof.
  unfold zidx.
  destruct (Z.leb_spec 0 i) as [H0|H0]; destruct (Z.ltb_spec i (Z.of_nat (List.length l))) as [H1|H1];
    cbn [andb]; split; intros H.
  - split; [lia | exact H].
  - exact (proj2 H).
  - discriminate H.
  - exfalso. lia.
  - discriminate H.
  - exfalso. lia.
  - discriminate H.
  - exfalso. lia.
Qed.

Lemma pv_zidx_none {A} (l : list A) i :
  zidx l i = None <-> ~ (0 <= i < Z.of_nat (List.length l))%Z.
Proof.
  unfold zidx.
  destruct (Z.leb_spec 0 i) as [H0|H0]; destruct (Z.ltb_spec i (Z.of_nat (List.length l))) as [H1|H1];
    cbn [andb]; split; intros H; try reflexivity; try lia.
  exfalso. apply (pv_nth_opt_lt l (Z.to_nat i)); [lia | exact H].
Qed.

Lemma pv_zidx_in_range {A} (l : list A) i :
  (0 <= i < Z.of_nat (List.length l))%Z -> exists v, zidx l i = Some v.
Proof.
  intros R. destruct (zidx l i) as [v|] eqn:E; [now exists v|].
  apply pv_zidx_none in E. contradiction.
Qed.

Lemma pv_rect_fget_len f k c : rect f = true -> fget f k = Some c -> List.length (cdata c) = nrows f.
Proof.
  intros R G. destruct (fget_in _ _ _ G) as [k' Hin].
  exact (rect_len f (k', c) R Hin).
Qed.

(* the cells of a row map are the cells of the frame at that position *)
Lemma pv_all_some_frow_fget i : forall (f : frame) r k c,
  all_some (map (fun kc => option_map (pair (fst kc)) (nth_opt (cdata (snd kc)) i)) f) = Some r ->
  fget f k = Some c -> exists v, nth_opt (cdata c) i = Some v /\ fget r k = Some v.
Proof.
  induction f as [|[k0 c0] t IH]; intros r k c H G; cbn [map all_some fst snd] in H; cbn [fget] in G.
  - discriminate.
  - destruct (nth_opt (cdata c0) i) as [v|] eqn:E; cbn [option_map] in H; [|discriminate].
    destruct (all_some _) as [r'|] eqn:E2; [|discriminate].
    inversion H; subst r. cbn [fget]. destruct (str_eqb k k0).
    + inversion G; subst c0. exists v. now split.
    + eapply IH; eauto.
Qed.

Lemma pv_frow_cell f i r k c : frow f i = Some r -> fget f k = Some c ->
  nth_opt (cdata c) i = Some (rget r k) /\ fget r k = Some (rget r k).
Proof.
  unfold frow. destruct (Nat.ltb i (nrows f)); [|discriminate]. intros H G.
  destruct (pv_all_some_frow_fget i f r k c H G) as [v [H1 H2]].
  unfold rget. rewrite H2. now split.
Qed.

Lemma pv_op_row_inv f i r : op_row f i = Ok r ->
  (0 <= i < Z.of_nat (nrows f))%Z /\ frow f (Z.to_nat i) = Some r.
Proof.
  unfold op_row. intros H.
  destruct (Z.ltb_spec i 0) as [H0|H0]; cbn [orb] in H; [discriminate|].
  destruct (Z.leb_spec (Z.of_nat (nrows f)) i) as [H1|H1]; [discriminate|].
  destruct (frow f (Z.to_nat i)) as [r'|] eqn:F; [|discriminate].
  inversion H; subst r'. split; [lia|reflexivity].
Qed.

(* ------------------------------------------------------------------ *)
(* 1. Select + At agrees with Row                                      *)
(* ------------------------------------------------------------------ *)
(* rget returns CNil for a key the row map does not have; Select having succeeded, the key is a
   column, Row copies every column, so the key is in the row map (second conjunct of _strong).
   The rectangularity hypothesis is not needed: Row succeeds only if every column has a cell at i. *)
Theorem select_row_agree_strong f k n d i r :
  op_select f k = Ok (n, d) -> op_row f i = Ok r ->
  zidx d i = Some (rget r k) /\ fget r k = Some (rget r k).
Proof.
  intros Hs Hr. unfold op_select in Hs. destruct (fget f k) as [c|] eqn:G; [|discriminate].
  inversion Hs; subst n d. clear Hs.
  destruct (pv_op_row_inv _ _ _ Hr) as [Hi F].
  destruct (pv_frow_cell _ _ _ _ _ F G) as [Hc Hk]. split; [|exact Hk].
  apply pv_zidx_some. split; [|exact Hc].
  pose proof (nth_opt_some_lt _ _ _ Hc) as L. lia.
Qed.

Theorem select_row_agree f k n d i r :
  rect f = true -> op_select f k = Ok (n, d) -> op_row f i = Ok r ->
  zidx d i = Some (rget r k).
Proof. intros _ Hs Hr. exact (proj1 (select_row_agree_strong f k n d i r Hs Hr)). Qed.

(* on a rectangular frame the hypotheses are satisfiable for every index in range *)
Lemma pv_frow_some f i : rect f = true -> (i < nrows f)%nat -> exists r, frow f i = Some r.
Proof.
  intros R L. unfold frow. destruct (Nat.ltb_spec i (nrows f)) as [_|H]; [|lia].
  assert (H : forall l : frame, (forall kc, In kc l -> In kc f) ->
            exists r, all_some (map (fun kc => option_map (pair (fst kc)) (nth_opt (cdata (snd kc)) i)) l) = Some r).
  { induction l as [|kc l IH]; intros Hin; cbn [map all_some]; [now exists []|].
    pose proof (rect_len f kc R (Hin kc (or_introl eq_refl))) as Len.
    rewrite (nth_opt_nth _ i CNil) by lia. cbn [option_map].
    destruct IH as [r' E]; [intros x Hx; apply Hin; now right|]. rewrite E. eauto. }
  apply H. auto.
Qed.

Theorem select_row_total f k n d i :
  rect f = true -> op_select f k = Ok (n, d) -> (0 <= i < Z.of_nat (nrows f))%Z ->
  exists r, op_row f i = Ok r /\ zidx d i = Some (rget r k).
Proof.
  intros R Hs Hi. destruct (pv_frow_some f (Z.to_nat i) R) as [r F]; [lia|].
  assert (Hr : op_row f i = Ok r).
  { unfold op_row. destruct (Z.ltb_spec i 0) as [H0|H0]; [lia|]. cbn [orb].
    destruct (Z.leb_spec (Z.of_nat (nrows f)) i) as [H1|H1]; [lia|]. now rewrite F. }
  exists r. split; [exact Hr|]. exact (select_row_agree f k n d i r R Hs Hr).
Qed.

(* ------------------------------------------------------------------ *)
(* 2. Column.At                                                        *)
(* ------------------------------------------------------------------ *)
Theorem colat_spec f k i n v :
  op_colat f k i = Ok (n, [v]) <->
  exists c, fget f k = Some c /\ n = cname c /\ zidx (cdata c) i = Some v.
Proof.
  unfold op_colat. split.
  - intros H. destruct (fget f k) as [c|]; [|discriminate].
    destruct (zidx (cdata c) i) as [w|] eqn:E; [|discriminate].
    inversion H; subst. exists c. auto.
  - intros [c [G [Hn Hz]]]. rewrite G, Hz. now subst n.
Qed.

(* the payload of a successful Column.At is always exactly one cell *)
Theorem colat_ok_shape f k i n l :
  op_colat f k i = Ok (n, l) -> exists v, l = [v].
Proof.
  unfold op_colat. destruct (fget f k) as [c|]; [|discriminate].
  destruct (zidx (cdata c) i) as [w|]; [|discriminate]. intros H; inversion H; eauto.
Qed.

Theorem colat_err f k i :
  op_colat f k i = Err <->
  fget f k = None \/ (exists c, fget f k = Some c /\ zidx (cdata c) i = None).
Proof.
  unfold op_colat. split.
  - intros H. destruct (fget f k) as [c|]; [|now left].
    destruct (zidx (cdata c) i) as [w|] eqn:E; [discriminate|]. right. exists c. auto.
  - intros [G|[c [G Hz]]]; rewrite G; [reflexivity|]. now rewrite Hz.
Qed.

Theorem colat_in_range f k c i :
  fget f k = Some c ->
  (op_colat f k i <> Err <-> (0 <= i < Z.of_nat (List.length (cdata c)))%Z).
Proof.
  intros G. unfold op_colat. rewrite G. split.
  - intros H. destruct (zidx (cdata c) i) as [w|] eqn:E; [|now elim H].
    apply pv_zidx_some in E. tauto.
  - intros R. destruct (pv_zidx_in_range _ _ R) as [w E]. rewrite E. discriminate.
Qed.

(* on a rectangular frame the bound is the row count *)
Corollary colat_in_range_rect f k c i :
  rect f = true -> fget f k = Some c ->
  (op_colat f k i <> Err <-> (0 <= i < Z.of_nat (nrows f))%Z).
Proof.
  intros R G. rewrite <- (pv_rect_fget_len f k c R G). now apply colat_in_range.
Qed.

(* Column.At is Select followed by indexing *)
Theorem colat_select f k i n d :
  op_select f k = Ok (n, d) ->
  op_colat f k i = match zidx d i with Some v => Ok (n, [v]) | None => Err end.
Proof.
  unfold op_select, op_colat. destruct (fget f k) as [c|]; [|discriminate].
  intros H; inversion H; subst. reflexivity.
Qed.

(* ------------------------------------------------------------------ *)
(* 3. Series                                                           *)
(* ------------------------------------------------------------------ *)
Theorem series_spec f k c i :
  fget f k = Some c ->
  op_series f k i = Ok (cname c, [CI KInt (Z.of_nat (List.length (cdata c)));
                                  match zidx (cdata c) i with Some v => v | None => CNil end]).
Proof. intros G. unfold op_series. now rewrite G. Qed.

Theorem series_err f k i : op_series f k i = Err <-> fget f k = None.
Proof.
  unfold op_series. destruct (fget f k); split; intros H; try discriminate; reflexivity.
Qed.

Theorem series_len_nrows f k i n l :
  rect f = true -> op_series f k i = Ok (n, l) ->
  exists v, l = [CI KInt (Z.of_nat (nrows f)); v].
Proof.
  intros R H. unfold op_series in H. destruct (fget f k) as [c|] eqn:G; [|discriminate].
  inversion H; subst. rewrite (pv_rect_fget_len f k c R G). eauto.
Qed.

(* Series.At and Column.At give the same cell wherever Column.At succeeds *)
Theorem series_colat_agree f k i n v :
  op_colat f k i = Ok (n, [v]) ->
  exists len, op_series f k i = Ok (n, [len; v]).
Proof.
  intros H. apply colat_spec in H. destruct H as [c [G [Hn Hz]]].
  rewrite (series_spec f k c i G), Hz. subst n. eauto.
Qed.

(* ------------------------------------------------------------------ *)
(* 4. no panics; plot validation                                       *)
(* ------------------------------------------------------------------ *)
Theorem views_never_panic :
  (forall f k, op_select f k <> Panic) /\
  (forall f k i, op_colat f k i <> Panic) /\
  (forall f k i, op_series f k i <> Panic) /\
  (forall a, op_groupby_other a <> Panic) /\
  (forall bar f x y pk rk, rect f = true -> op_plot bar f x y pk rk <> Panic).
Proof.
  repeat split.
  - exact no_panic_select.
  - exact no_panic_colat.
  - exact no_panic_series.
  - exact no_panic_groupby_other.
  - exact no_panic_plot.
Qed.

Lemma pv_forallb_false (l : list cell) : forall i v,
  nth_opt l i = Some v -> is_f64 v = false -> forallb is_f64 l = false.
Proof.
  induction l as [|a l IH]; intros [|i] v H Hv; cbn [nth_opt] in H; try discriminate; cbn [forallb].
  - inversion H; subst a. now rewrite Hv.
  - rewrite (IH i v H Hv). apply andb_false_r.
Qed.

Lemma pv_forallb_false_inv (l : list cell) :
  forallb is_f64 l = false -> exists i v, nth_opt l i = Some v /\ is_f64 v = false.
Proof.
  induction l as [|a l IH]; cbn [forallb]; intros H; [discriminate|].
  destruct (is_f64 a) eqn:Ea; cbn [andb] in H.
  - destruct (IH H) as [i [v [Hn Hv]]]. exists (S i), v. now split.
  - exists O, a. now split.
Qed.

(* LinePlot's scan on two columns of one length *)
Lemma pv_scan2_eq xs : forall ys, List.length xs = List.length ys ->
  plot_scan2 xs ys = if forallb is_f64 xs && forallb is_f64 ys then Ok tt else Err.
Proof.
  induction xs as [|x xs IH]; intros [|y ys] L; cbn [List.length] in L; try discriminate L.
  - reflexivity.
  - cbn [plot_scan2 forallb]. rewrite (IH ys) by lia.
    destruct (is_f64 x), (is_f64 y), (forallb is_f64 xs), (forallb is_f64 ys); reflexivity.
Qed.

(* an Err of the scan always comes from a cell that is not a float64 (any two lengths) *)
Lemma pv_scan2_err xs : forall ys, plot_scan2 xs ys = Err ->
  exists i v, (i < List.length xs)%nat /\ (nth_opt xs i = Some v \/ nth_opt ys i = Some v) /\ is_f64 v = false.
Proof.
  induction xs as [|x xs IH]; intros ys H; cbn [plot_scan2] in H; [discriminate|].
  destruct ys as [|y ys]; [discriminate|].
  destruct (is_f64 x) eqn:Ex; cbn [andb] in H.
  - destruct (is_f64 y) eqn:Ey.
    + destruct (IH ys H) as [i [v [Hl [Hn Hv]]]]. exists (S i), v. cbn [List.length nth_opt].
      split; [lia|]. now split.
    + exists O, y. cbn [List.length nth_opt]. split; [lia|]. split; [now right|exact Ey].
  - exists O, x. cbn [List.length nth_opt]. split; [lia|]. split; [now left|exact Ex].
Qed.

(* what "the arguments do not validate" means *)
Definition plot_invalid (bar : bool) (f : frame) (x y : str) : Prop :=
  if bar
  then fget f x = None \/ exists c, fget f x = Some c /\ forallb is_f64 (cdata c) = false
  else fget f x = None \/ fget f y = None \/
       exists cx cy i v, fget f x = Some cx /\ fget f y = Some cy /\
         (i < List.length (cdata cx))%nat /\
         (nth_opt (cdata cx) i = Some v \/ nth_opt (cdata cy) i = Some v) /\ is_f64 v = false.

(* with a creatable file and a renderable chart, an error is a validation failure.
   Stronger than asked: holds on every frame, rectangular or not. *)
Theorem plot_errors_are_validation bar f x y :
  op_plot bar f x y true true = Err -> plot_invalid bar f x y.
Proof.
  unfold op_plot, plot_invalid. destruct bar.
  - destruct (fget f x) as [cx|]; [|now left]. unfold plot_scan1.
    destruct (forallb is_f64 (cdata cx)) eqn:E; cbn [bind andb]; [discriminate|].
    intros _. right. exists cx. auto.
  - destruct (fget f x) as [cx|]; [|now left].
    destruct (fget f y) as [cy|]; [|right; now left].
    destruct (plot_scan2 (cdata cx) (cdata cy)) eqn:E; cbn [bind andb]; try discriminate.
    intros _. right; right. destruct (pv_scan2_err _ _ E) as [i [v [Hl [Hn Hv]]]].
    exists cx, cy, i, v. auto.
Qed.

(* the boolean form of "the arguments validate" on a rectangular frame *)
Definition plot_valid (bar : bool) (f : frame) (x y : str) : bool :=
  if bar
  then match fget f x with Some cx => forallb is_f64 (cdata cx) | None => false end
  else match fget f x, fget f y with
       | Some cx, Some cy => forallb is_f64 (cdata cx) && forallb is_f64 (cdata cy)
       | _, _ => false
       end.

Theorem plot_eq f bar x y pk rk :
  rect f = true ->
  op_plot bar f x y pk rk = if plot_valid bar f x y && pk && rk then Ok tt else Err.
Proof.
  intros R. unfold op_plot, plot_valid. destruct bar.
  - destruct (fget f x) as [cx|]; [|reflexivity]. unfold plot_scan1.
    destruct (forallb is_f64 (cdata cx)); cbn [bind andb]; reflexivity.
  - destruct (fget f x) as [cx|] eqn:Gx; [|reflexivity].
    destruct (fget f y) as [cy|] eqn:Gy; [|reflexivity].
    rewrite pv_scan2_eq
      by (rewrite (pv_rect_fget_len f x cx R Gx), (pv_rect_fget_len f y cy R Gy); reflexivity).
    destruct (forallb is_f64 (cdata cx) && forallb is_f64 (cdata cy)); cbn [bind andb]; reflexivity.
Qed.

Theorem plot_ok_iff f bar x y pk rk :
  rect f = true ->
  (op_plot bar f x y pk rk = Ok tt <->
   (exists cx, fget f x = Some cx /\ forallb is_f64 (cdata cx) = true /\
      (bar = false -> exists cy, fget f y = Some cy /\ forallb is_f64 (cdata cy) = true))
   /\ pk = true /\ rk = true).
Proof.
  intros R. rewrite (plot_eq f bar x y pk rk R). unfold plot_valid. split.
  - intros H. destruct bar.
    + destruct (fget f x) as [cx|]; [|discriminate].
      destruct (forallb is_f64 (cdata cx)) eqn:E; [|discriminate].
      destruct pk; [|discriminate]. destruct rk; [|discriminate].
      split; [|auto]. exists cx. repeat split; auto. discriminate.
    + destruct (fget f x) as [cx|]; [|discriminate].
      destruct (fget f y) as [cy|]; [|discriminate].
      destruct (forallb is_f64 (cdata cx)) eqn:Ex; [|discriminate].
      destruct (forallb is_f64 (cdata cy)) eqn:Ey; [|discriminate].
      destruct pk; [|discriminate]. destruct rk; [|discriminate].
      split; [|auto]. exists cx. repeat split; auto. intros _. exists cy. auto.
  - intros [[cx [Gx [Fx Hy]]] [Hp Hr]]. subst pk rk. rewrite Gx. destruct bar.
    + now rewrite Fx.
    + destruct (Hy eq_refl) as [cy [Gy Fy]]. now rewrite Gy, Fx, Fy.
Qed.

Lemma plot_invalid_iff f bar x y :
  rect f = true -> (plot_invalid bar f x y <-> plot_valid bar f x y = false).
Proof.
  intros R. unfold plot_invalid, plot_valid. destruct bar.
  - destruct (fget f x) as [cx|]; split; intros H; auto.
    + destruct H as [H|[c [G H]]]; [discriminate|]. now inversion G; subst.
    + right. exists cx. auto.
  - destruct (fget f x) as [cx|] eqn:Gx; [|split; auto].
    destruct (fget f y) as [cy|] eqn:Gy; [|split; auto].
    split.
    + intros [H|[H|[cx' [cy' [i [v [G1 [G2 [_ [Hn Hv]]]]]]]]]]; try discriminate.
      inversion G1; inversion G2; subst cx' cy'.
      destruct Hn as [Hn|Hn]; rewrite (pv_forallb_false _ _ _ Hn Hv); [reflexivity|apply andb_false_r].
    + intros H. right; right.
      pose proof (pv_rect_fget_len f x cx R Gx) as Lx. pose proof (pv_rect_fget_len f y cy R Gy) as Ly.
      destruct (forallb is_f64 (cdata cx)) eqn:Ex; cbn [andb] in H.
      * destruct (pv_forallb_false_inv _ H) as [i [v [Hn Hv]]].
        exists cx, cy, i, v. repeat split; auto.
        pose proof (nth_opt_some_lt _ _ _ Hn). lia.
      * destruct (pv_forallb_false_inv _ Ex) as [i [v [Hn Hv]]].
        exists cx, cy, i, v. repeat split; auto.
        exact (nth_opt_some_lt _ _ _ Hn).
Qed.

(* the converse of plot_errors_are_validation: arguments that do not validate are an error
   whatever the file system and the renderer would have done *)
Theorem plot_invalid_errs f bar x y pk rk :
  rect f = true -> plot_invalid bar f x y -> op_plot bar f x y pk rk = Err.
Proof.
  intros R H. apply (plot_invalid_iff f bar x y R) in H.
  rewrite (plot_eq f bar x y pk rk R), H. reflexivity.
Qed.

Theorem plot_err_iff f bar x y pk rk :
  rect f = true ->
  (op_plot bar f x y pk rk = Err <-> plot_invalid bar f x y \/ pk = false \/ rk = false).
Proof.
  intros R. rewrite (plot_invalid_iff f bar x y R), (plot_eq f bar x y pk rk R).
  destruct (plot_valid bar f x y), pk, rk; cbn [andb]; split; intros H; auto; try discriminate;
    destruct H as [H|[H|H]]; discriminate.
Qed.

(* ------------------------------------------------------------------ *)
(* 5. DataFrame.String                                                 *)
(* ------------------------------------------------------------------ *)
Theorem string_empty O f : nrows f = 0%nat -> op_string O f = vlit "Empty DataFrame".
Proof. intros H. unfold op_string. now rewrite H. Qed.

(* number of line feeds *)
Fixpoint count_nl (s : str) : nat :=
  match s with
  | [] => O
  | b :: t => ((if N.eqb b 10 then 1 else 0) + count_nl t)%nat
  end.

Lemma count_nl_app a b : count_nl (a ++ b) = (count_nl a + count_nl b)%nat.
Proof. induction a as [|x a IH]; cbn [app count_nl]; [reflexivity|]. rewrite IH. lia. Qed.

Lemma pv_digit_not_nl d : N.eqb (48 + d) 10 = false.
Proof. apply N.eqb_neq. lia. Qed.

Lemma count_nl_dec_pos_fuel fuel : forall n acc, count_nl (dec_pos_fuel fuel n acc) = count_nl acc.
Proof.
  induction fuel as [|fuel IH]; intros n acc; cbn [dec_pos_fuel]; [reflexivity|].
  destruct (n <? 10)%Z; [|rewrite IH]; cbn [count_nl]; rewrite pv_digit_not_nl; reflexivity.
Qed.

Lemma count_nl_dec_Z z : count_nl (dec_Z z) = 0%nat.
Proof.
  unfold dec_Z. destruct (z <? 0)%Z.
  - cbn [count_nl]. rewrite count_nl_dec_pos_fuel. reflexivity.
  - rewrite count_nl_dec_pos_fuel. reflexivity.
Qed.

Lemma count_nl_join l :
  Forall (fun s => count_nl s = 0%nat) l -> count_nl (join_with s_tab l) = 0%nat.
Proof.
  induction l as [|s t IH]; intros H; [reflexivity|].
  inversion H as [|s' t' Hs Ht]; subst. destruct t as [|s2 t2].
  - exact Hs.
  - change (join_with s_tab (s :: s2 :: t2)) with (s ++ s_tab ++ join_with s_tab (s2 :: t2)).
    rewrite !count_nl_app, Hs, (IH Ht). reflexivity.
Qed.

Lemma count_nl_concat {A} (g : A -> str) l :
  (forall x, In x l -> count_nl (g x) = 1%nat) -> count_nl (List.concat (map g l)) = List.length l.
Proof.
  induction l as [|x l IH]; intros H; cbn [map List.concat List.length]; [reflexivity|].
  rewrite count_nl_app, (H x (or_introl eq_refl)), IH; [reflexivity|].
  intros y Hy. apply H. now right.
Qed.

Lemma pv_lit_error : count_nl (vlit "<error>") = 0%nat. Proof. reflexivity. Qed.
Lemma pv_lit_1 : count_nl (vlit "DataFrame (") = 0%nat. Proof. reflexivity. Qed.
Lemma pv_lit_2 : count_nl (vlit " rows x ") = 0%nat. Proof. reflexivity. Qed.
Lemma pv_lit_3 : count_nl (vlit " columns)") = 0%nat. Proof. reflexivity. Qed.
Lemma pv_lit_4 : count_nl (vlit "...") = 0%nat. Proof. reflexivity. Qed.
Lemma pv_lit_nl : count_nl s_nl = 1%nat. Proof. reflexivity. Qed.

(* one line per shown row *)
Lemma count_nl_string_row O f i :
  Forall (fun k => count_nl k = 0%nat) (fkeys f) ->
  (forall k c v, fget f k = Some c -> nth_opt (cdata c) i = Some v -> count_nl (render O v) = 0%nat) ->
  count_nl (string_row O f i) = 1%nat.
Proof.
  intros _ Hc. unfold string_row. rewrite count_nl_app, pv_lit_nl, count_nl_join; [reflexivity|].
  apply Forall_forall. intros s Hs. apply in_map_iff in Hs. destruct Hs as [k [Hk _]]. subst s.
  destruct (fget f k) as [c|] eqn:G; [|exact pv_lit_error].
  destruct (nth_opt (cdata c) i) as [v|] eqn:E; [|exact pv_lit_error].
  exact (Hc k c v G E).
Qed.

Lemma pv_shown_ltb n : Nat.ltb (Nat.min 10 n) n = Nat.ltb 10 n.
Proof. destruct (Nat.ltb_spec (Nat.min 10 n) n), (Nat.ltb_spec 10 n); try reflexivity; lia. Qed.

(* the number of lines; only the cells of the first ten rows need to be free of line feeds *)
Theorem string_lines_shown O f :
  nrows f <> 0%nat ->
  Forall (fun k => count_nl k = 0%nat) (fkeys f) ->
  (forall i k c v, (i < 10)%nat -> fget f k = Some c -> nth_opt (cdata c) i = Some v ->
                   count_nl (render O v) = 0%nat) ->
  count_nl (op_string O f) =
  (2 + Nat.min 10 (nrows f) + (if Nat.ltb 10 (nrows f) then 1 else 0))%nat.
Proof.
  intros Hn Hk Hc. unfold op_string.
  destruct (Nat.eqb_spec (nrows f) 0) as [E|_]; [contradiction|].
  assert (Hrows : count_nl (List.concat (map (string_row O f) (seq 0 (string_shown f)))) = string_shown f).
  { rewrite count_nl_concat; [apply seq_length|].
    intros i Hi. apply in_seq in Hi. apply count_nl_string_row; [exact Hk|].
    intros k c v. apply Hc. unfold string_shown in Hi. lia. }
  rewrite !count_nl_app, Hrows, pv_lit_1, pv_lit_2, pv_lit_3, !count_nl_dec_Z, !pv_lit_nl,
    (count_nl_join _ Hk).
  unfold string_shown. rewrite pv_shown_ltb.
  destruct (Nat.ltb 10 (nrows f)).
  - rewrite count_nl_app, pv_lit_4, pv_lit_nl. lia.
  - cbn [count_nl]. lia.
Qed.

Theorem string_lines O f :
  nrows f <> 0%nat ->
  Forall (fun k => count_nl k = 0%nat) (fkeys f) ->
  (forall i k c v, fget f k = Some c -> nth_opt (cdata c) i = Some v -> count_nl (render O v) = 0%nat) ->
  count_nl (op_string O f) =
  (2 + Nat.min 10 (nrows f) + (if Nat.ltb 10 (nrows f) then 1 else 0))%nat.
Proof.
  intros Hn Hk Hc. apply string_lines_shown; auto. intros i k c v _. apply Hc.
Qed.

(* integer, nil, bool cells never contain a line feed, so a frame of such cells with clean names
   always meets the hypotheses *)
Lemma count_nl_render_plain O v :
  match v with CNil | CI _ _ | CB _ => True | _ => False end -> count_nl (render O v) = 0%nat.
Proof.
  destruct v as [|k z|k x|s|b|t]; intros H; try contradiction; cbn [render].
  - reflexivity.
  - apply count_nl_dec_Z.
  - destruct b; reflexivity.
Qed.

(* --- op_string depends only on the names, the row count and the first ten rows --- *)
Lemma pv_nth_opt_firstn {A} (l : list A) : forall n i, (i < n)%nat -> nth_opt (firstn n l) i = nth_opt l i.
Proof.
  induction l as [|x l IH]; intros [|n] [|i] H; cbn [firstn nth_opt]; try lia; try reflexivity.
  apply IH. lia.
Qed.

Lemma pv_fget_same_keys {A B} (f : list (str * A)) : forall (g : list (str * B)) k,
  fkeys f = fkeys g ->
  match fget f k, fget g k with Some _, Some _ | None, None => True | _, _ => False end.
Proof.
  induction f as [|[k0 c0] f IH]; intros [|[k1 c1] g] k H; cbn [fkeys map fst] in H; try discriminate H.
  - exact I.
  - inversion H as [[H0 H1]]. subst k1. cbn [fget]. destruct (str_eqb k k0); [exact I|].
    apply IH. exact H1.
Qed.

Lemma pv_ncols_keys (f : frame) : ncols f = List.length (fkeys f).
Proof. unfold ncols, fkeys. now rewrite map_length. Qed.

Lemma string_row_agree O f f' m i :
  fkeys f = fkeys f' -> (i < m)%nat ->
  (forall k c c', fget f k = Some c -> fget f' k = Some c' -> firstn m (cdata c) = firstn m (cdata c')) ->
  string_row O f i = string_row O f' i.
Proof.
  intros Hk Hi Hc. unfold string_row. rewrite <- Hk. f_equal. f_equal.
  apply map_ext. intros k. pose proof (pv_fget_same_keys f f' k Hk) as S.
  destruct (fget f k) as [c|] eqn:G; destruct (fget f' k) as [c'|] eqn:G'; try contradiction; [|reflexivity].
  rewrite <- (pv_nth_opt_firstn (cdata c) m i Hi), <- (pv_nth_opt_firstn (cdata c') m i Hi).
  now rewrite (Hc k c c' G G').
Qed.

(* Stronger than asked: equal ncols is a consequence of equal fkeys, and only the first
   min 10 (nrows f) cells of each column need to agree (on a frame that is not rectangular a
   column can be longer than Nrows() says). *)
Theorem string_prefix_independent O f f' :
  fkeys f = fkeys f' -> nrows f = nrows f' ->
  (forall k c c', fget f k = Some c -> fget f' k = Some c' ->
     firstn (Nat.min 10 (nrows f)) (cdata c) = firstn (Nat.min 10 (nrows f)) (cdata c')) ->
  op_string O f = op_string O f'.
Proof.
  intros Hk Hn Hc.
  assert (Hs : string_shown f' = string_shown f) by (unfold string_shown; now rewrite Hn).
  assert (Hnc : ncols f' = ncols f) by (now rewrite !pv_ncols_keys, Hk).
  assert (Hrows : map (string_row O f) (seq 0 (string_shown f)) = map (string_row O f') (seq 0 (string_shown f))).
  { apply map_ext_in. intros i Hi. apply in_seq in Hi.
    apply (string_row_agree O f f' (Nat.min 10 (nrows f)) i Hk); [|exact Hc].
    unfold string_shown in Hi. lia. }
  unfold op_string. rewrite <- Hn, <- Hk, Hs, Hnc, Hrows. reflexivity.
Qed.

(* the statement as first written: first ten cells of every column *)
Corollary string_prefix_independent_10 O f f' :
  fkeys f = fkeys f' -> nrows f = nrows f' -> ncols f = ncols f' ->
  (forall k c c', fget f k = Some c -> fget f' k = Some c' ->
     firstn 10 (cdata c) = firstn 10 (cdata c')) ->
  op_string O f = op_string O f'.
Proof.
  intros Hk Hn _ Hc. apply string_prefix_independent; auto.
  intros k c c' G G'. pose proof (Hc k c c' G G') as H.
  assert (E : forall l : list cell, firstn (Nat.min 10 (nrows f)) l = firstn (Nat.min 10 (nrows f)) (firstn 10 l)).
  { intros l. rewrite firstn_firstn. f_equal. lia. }
  rewrite (E (cdata c)), (E (cdata c')), H. reflexivity.
Qed.

(* ------------------------------------------------------------------ *)
(* 6. the views leave the pool alone                                   *)
(* ------------------------------------------------------------------ *)
Definition is_view (o : op) : bool :=
  match o with
  | OString _ | OSelect _ _ | OColAt _ _ _ | OSeries _ _ _ | OPlot _ _ _ _ _ _ | OGroupbyOther _ _ => true
  | _ => false
  end.

Theorem step_views_keep_pool O p o : is_view o = true -> snd (step O p o) = p.
Proof. destruct o; cbn [is_view]; intros H; try discriminate H; reflexivity. Qed.

(* a view of a frame that is not in the pool is an error, never a panic *)
Theorem step_views_missing_frame O p o i :
  is_view o = true ->
  match o with
  | OString j | OSelect j _ | OColAt j _ _ | OSeries j _ _ | OPlot _ j _ _ _ _ | OGroupbyOther j _ => j = i
  | _ => False
  end ->
  nth_opt p i = None -> fst (step O p o) = Err.
Proof.
  destruct o; cbn [is_view]; intros H; try discriminate H; intros E N; subst;
    cbn [step observe fst]; unfold with_frame; rewrite N; reflexivity.
Qed.

(* ------------------------------------------------------------------ *)
(* 7. examples                                                         *)
(* ------------------------------------------------------------------ *)
Definition exO : oracles := Build_oracles [] [] [].
Definition ints (l : list Z) : list cell := map (CI KInt) l.
Definition ex2 : frame :=
  [(vlit "a", (vlit "a", ints [1; 2]%Z)); (vlit "b", (vlit "b", ints [3; 4]%Z))].
Definition ex12 : frame :=
  [(vlit "a", (vlit "a", ints [1; 2; 3; 4; 5; 6; 7; 8; 9; 10; 11; 12]%Z));
   (vlit "b", (vlit "b", map CS (map dec_Z [-1; -2; -3; -4; -5; -6; -7; -8; -9; -10; -11; -12]%Z)))].
Definition ex12' : frame :=   (* differs from ex12 only below the tenth row *)
  [(vlit "a", (vlit "a", ints [1; 2; 3; 4; 5; 6; 7; 8; 9; 10; 77; 78]%Z));
   (vlit "b", (vlit "b", map CS (map dec_Z [-1; -2; -3; -4; -5; -6; -7; -8; -9; -10; 0; 0]%Z)))].
Definition f64s (l : list Z) : list cell := map (fun z => CF KF64 (fl_of_Z z)) l.
Definition exf : frame :=
  [(vlit "x", (vlit "x", f64s [1; 2; 3]%Z)); (vlit "y", (vlit "y", f64s [4; 5; 6]%Z));
   (vlit "z", (vlit "z", ints [7; 8; 9]%Z))].
Definition ex_ragged : frame :=   (* not rectangular: y is shorter than x *)
  [(vlit "x", (vlit "x", f64s [1; 2; 3]%Z)); (vlit "y", (vlit "y", f64s [4]%Z))].

Example ex_wf : wf_frame ex2 = true /\ wf_frame ex12 = true /\ wf_frame ex12' = true /\ wf_frame exf = true
                /\ rect ex_ragged = false.
Proof. repeat split; vm_compute; reflexivity. Qed.

(* the exact bytes for a two-row frame *)
Example ex_string_2 :
  op_string exO ex2 =
  vlit "DataFrame (2 rows x 2 columns)" ++ s_nl ++
  vlit "a" ++ s_tab ++ vlit "b" ++ s_nl ++
  vlit "1" ++ s_tab ++ vlit "3" ++ s_nl ++
  vlit "2" ++ s_tab ++ vlit "4" ++ s_nl.
Proof. vm_compute. reflexivity. Qed.

(* twelve rows: ten are shown, then "...": 2 + 10 + 1 lines, and the last line is "..." *)
Example ex_string_12_tail :
  let s := op_string exO ex12 in
  skipn (List.length s - 4) s = vlit "..." ++ s_nl /\ count_nl s = 13%nat.
Proof. vm_compute. split; reflexivity. Qed.

Example ex_string_12_head :
  let s := op_string exO ex12 in
  firstn 40 s = vlit "DataFrame (12 rows x 2 columns)" ++ s_nl ++ vlit "a" ++ s_tab ++ vlit "b" ++ s_nl ++
                vlit "1" ++ s_tab ++ vlit "-1".
Proof. vm_compute. reflexivity. Qed.

(* string_lines applies to ex12 (the hypotheses are met), and gives the same 13 *)
Example ex_string_lines_12 : count_nl (op_string exO ex12) = 13%nat.
Proof.
  rewrite string_lines.
  - reflexivity.
  - vm_compute. discriminate.
  - repeat constructor.
  - intros i k c v G Hn. apply nth_opt_in in Hn. revert v Hn. apply Forall_forall.
    cbn [ex12 fget] in G.
    destruct (str_eqb k (vlit "a")); [|destruct (str_eqb k (vlit "b")); [|discriminate]];
      inversion G; subst c; repeat constructor.
Qed.

(* string_prefix_independent applies to two different frames *)
Example ex_string_prefix : ex12 <> ex12' /\ op_string exO ex12 = op_string exO ex12'.
Proof.
  split; [intros H; discriminate H|].
  apply string_prefix_independent; try reflexivity.
  intros k c c' G G'. cbn [ex12 ex12' fget] in G, G'.
  destruct (str_eqb k (vlit "a")).
  - inversion G; inversion G'; subst. reflexivity.
  - destruct (str_eqb k (vlit "b")); [|discriminate].
    inversion G; inversion G'; subst. reflexivity.
Qed.
(* a line feed inside a shown cell changes the line count (4 here, where the formula gives 3),
   so the hypothesis of string_lines on the rendered cells cannot be dropped *)
Example ex_string_lines_needs_clean_cells :
  count_nl (op_string exO [(vlit "a", (vlit "a", [CS (vlit "p" ++ s_nl ++ vlit "q")]))]) = 4%nat.
Proof. vm_compute. reflexivity. Qed.

Example ex_select_row :
  op_select ex2 (vlit "b") = Ok (vlit "b", ints [3; 4]%Z) /\
  op_row ex2 1 = Ok [(vlit "a", CI KInt 2); (vlit "b", CI KInt 4)] /\
  zidx (ints [3; 4]%Z) 1 = Some (CI KInt 4) /\
  op_colat ex2 (vlit "b") 1 = Ok (vlit "b", [CI KInt 4]) /\
  op_colat ex2 (vlit "b") 2 = Err /\ op_colat ex2 (vlit "b") (-1) = Err /\ op_colat ex2 (vlit "c") 0 = Err /\
  op_series ex2 (vlit "b") 1 = Ok (vlit "b", [CI KInt 2; CI KInt 4]) /\
  op_series ex2 (vlit "b") 2 = Ok (vlit "b", [CI KInt 2; CNil]) /\
  op_series ex2 (vlit "c") 0 = Err.
Proof. vm_compute. repeat split; reflexivity. Qed.

Example ex_plot :
  op_plot false exf (vlit "x") (vlit "y") true true = Ok tt /\
  op_plot true exf (vlit "x") (vlit "y") true true = Ok tt /\
  op_plot false exf (vlit "x") (vlit "y") false true = Err /\
  op_plot false exf (vlit "x") (vlit "y") true false = Err /\
  op_plot false exf (vlit "x") (vlit "z") true true = Err /\
  op_plot true exf (vlit "z") (vlit "x") true true = Err /\
  op_plot true exf (vlit "w") (vlit "x") true true = Err /\
  (* rectangularity is needed for "never panics": LinePlot indexes y by the indices of x *)
  op_plot false ex_ragged (vlit "x") (vlit "y") true true = Panic.
Proof. vm_compute. repeat split; reflexivity. Qed.

Example ex_step_views :
  let p := [ex2; exf] in
  snd (step exO p (OString 0)) = p /\ snd (step exO p (OSelect 0 (vlit "a"))) = p /\
  snd (step exO p (OPlot false 1 (vlit "x") (vlit "y") true true)) = p /\
  fst (step exO p (OColAt 0 (vlit "a") 1)) = Ok (VCells (vlit "a") [CI KInt 2]) /\
  fst (step exO p (OSeries 7 (vlit "a") 1)) = Err /\
  fst (step exO p (OGroupbyOther 0 true)) = Ok (VGroups []).
Proof. vm_compute. repeat split; reflexivity. Qed.

Print Assumptions select_row_agree.
Print Assumptions select_row_agree_strong.
Print Assumptions select_row_total.
Print Assumptions colat_spec.
Print Assumptions colat_err.
Print Assumptions colat_in_range.
Print Assumptions series_spec.
Print Assumptions series_len_nrows.
Print Assumptions views_never_panic.
Print Assumptions plot_errors_are_validation.
Print Assumptions plot_invalid_errs.
Print Assumptions plot_ok_iff.
Print Assumptions plot_err_iff.
Print Assumptions string_empty.
Print Assumptions string_lines.
Print Assumptions string_lines_shown.
Print Assumptions string_prefix_independent.
Print Assumptions string_prefix_independent_10.
Print Assumptions step_views_keep_pool.
Print Assumptions step_views_missing_frame.
