(* Base.v - data universe of the goframe model: byte strings, cells, floats on the
   binary64 grid, outcomes, small list utilities.  Definitions only (no proofs), so
   the model still evaluates when a proof elsewhere breaks. *)
From Coq Require Export List ZArith NArith Bool Arith.
Export ListNotations.
Open Scope Z_scope.

(* ---------- strings: Go strings are byte sequences ---------- *)
Definition str := list N.

Fixpoint str_eqb (a b : str) : bool :=
  match a, b with
  | [], [] => true
  | x :: a', y :: b' => N.eqb x y && str_eqb a' b'
  | _, _ => false
  end.

(* Go's string order (and sort.Strings): bytewise lexicographic *)
Fixpoint str_compare (a b : str) : comparison :=
  match a, b with
  | [], [] => Eq
  | [], _ :: _ => Lt
  | _ :: _, [] => Gt
  | x :: a', y :: b' =>
    match N.compare x y with
    | Eq => str_compare a' b'
    | c => c
    end
  end.
Definition str_ltb (a b : str) : bool :=
  match str_compare a b with Lt => true | _ => false end.

(* ---------- outcomes of a public call ---------- *)
Inductive out (A : Type) := Ok (a : A) | Err | Panic.
Arguments Ok {A} a.
Arguments Err {A}.
Arguments Panic {A}.

Definition bind {A B} (o : out A) (f : A -> out B) : out B :=
  match o with Ok a => f a | Err => Err | Panic => Panic end.
Notation "'do' x <- e ; k" := (bind e (fun x => k)) (at level 200, x ident, e at level 100, k at level 200).

(* ---------- numbers ---------- *)
Inductive ikind := KInt | KInt8 | KInt16 | KInt32 | KInt64
                 | KUint | KUint8 | KUint16 | KUint32 | KUint64.
Inductive fkind := KF32 | KF64.

Definition ikind_eqb (a b : ikind) : bool :=
  match a, b with
  | KInt, KInt | KInt8, KInt8 | KInt16, KInt16 | KInt32, KInt32 | KInt64, KInt64
  | KUint, KUint | KUint8, KUint8 | KUint16, KUint16 | KUint32, KUint32 | KUint64, KUint64 => true
  | _, _ => false
  end.
Definition fkind_eqb (a b : fkind) : bool :=
  match a, b with KF32, KF32 | KF64, KF64 => true | _, _ => false end.

(* A binary64 value.  FFin m is the real number m * 2^-1074: every finite double is
   exactly one such m (FFin 0 is +0).  Comparison is Z comparison, exact sums are Z.add. *)
Inductive fl := FNaN | FPInf | FNInf | FNegZero | FFin (m : Z).

Definition grid : Z := Z.shiftl 1 1074.
Definition p53 : Z := 9007199254740992.                       (* 2^53 *)
Definition fl_max_grid : Z := Z.shiftl (p53 - 1) (971 + 1074). (* MaxFloat64 in grid units *)

(* structural identity of two float observations (NaN is NaN, +0 is not -0) *)
Definition fl_same (a b : fl) : bool :=
  match a, b with
  | FNaN, FNaN | FPInf, FPInf | FNInf, FNInf | FNegZero, FNegZero => true
  | FFin x, FFin y => Z.eqb x y
  | _, _ => false
  end.
(* IEEE == *)
Definition fl_is_zero (a : fl) : bool :=
  match a with FNegZero => true | FFin 0 => true | _ => false end.
Definition fl_eq (a b : fl) : bool :=
  match a, b with
  | FNaN, _ | _, FNaN => false
  | FPInf, FPInf | FNInf, FNInf => true
  | FNegZero, _ => fl_is_zero b
  | _, FNegZero => fl_is_zero a
  | FFin x, FFin y => Z.eqb x y
  | _, _ => false
  end.
(* IEEE < *)
Definition fl_lt (a b : fl) : bool :=
  match a, b with
  | FNaN, _ | _, FNaN => false
  | FNInf, FNInf => false
  | FNInf, _ => true
  | _, FNInf => false
  | FPInf, _ => false
  | _, FPInf => true
  | FNegZero, FNegZero => false
  | FNegZero, FFin y => Z.ltb 0 y
  | FFin x, FNegZero => Z.ltb x 0
  | FFin x, FFin y => Z.ltb x y
  end.
Definition fl_is_nan (a : fl) : bool := match a with FNaN => true | _ => false end.

(* round an exact quotient num/den (den > 0) of grid units to the nearest binary64,
   ties to even; this is the rounding step of every Go float64 operation. *)
Definition rne_div (num den : Z) : Z :=   (* nearest integer to num/den, ties to even; den > 0 *)
  let q := num / den in
  let r := num mod den in
  match Z.compare (2 * r) den with
  | Lt => q
  | Gt => q + 1
  | Eq => if Z.even q then q else q + 1
  end.
(* shifts instead of divisions by powers of two: vm_compute is quadratic in Z.div *)
Definition round_pos (num den : Z) : fl :=  (* num >= 0, den > 0 *)
  let q0 := if Z.eqb den 1 then num else num / den in
  if Z.ltb q0 p53 then FFin (if Z.eqb den 1 then num else rne_div num den)
  else
    let sh := Z.log2 q0 - 52 in
    let q := Z.shiftr q0 sh in
    let big := Z.shiftl den sh in
    let r := num - q * big in
    let q' := match Z.compare (2 * r) big with
              | Lt => q
              | Gt => q + 1
              | Eq => if Z.even q then q else q + 1
              end in
    let res := Z.shiftl q' sh in
    if Z.ltb fl_max_grid res then FPInf else FFin res.
Definition fl_neg (a : fl) : fl :=
  match a with
  | FNaN => FNaN | FPInf => FNInf | FNInf => FPInf
  | FNegZero => FFin 0
  | FFin 0 => FNegZero
  | FFin m => FFin (- m)
  end.
Definition round_q (num den : Z) : fl :=  (* den > 0; exact zero gives +0 (callers fix the sign) *)
  if Z.ltb num 0 then
    match round_pos (- num) den with
    | FFin 0 => FNegZero
    | x => fl_neg x
    end
  else round_pos num den.

(* float64(n) for an integer n *)
Definition fl_of_Z (n : Z) : fl :=
  if Z.ltb (Z.abs n) p53 then FFin (Z.shiftl n 1074) else round_q (Z.shiftl n 1074) 1.

(* a + b in binary64 *)
Definition fl_add (a b : fl) : fl :=
  match a, b with
  | FNaN, _ | _, FNaN => FNaN
  | FPInf, FNInf | FNInf, FPInf => FNaN
  | FPInf, _ | _, FPInf => FPInf
  | FNInf, _ | _, FNInf => FNInf
  | FNegZero, FNegZero => FNegZero
  | FNegZero, x | x, FNegZero => x
  | FFin x, FFin y => if Z.eqb (x + y) 0 then FFin 0 else round_q (x + y) 1
  end.
(* a / n for a positive integer count n given as a float-convertible Z *)
Definition fl_div_count (a : fl) (n : Z) : fl :=
  match a with
  | FNaN => FNaN | FPInf => FPInf | FNInf => FNInf
  | FNegZero => FNegZero
  | FFin x => round_q x n
  end.

(* int(f) for a finite f: truncation toward zero *)
Definition fl_trunc (a : fl) : option Z :=
  match a with
  | FFin m => Some (if Z.ltb m 0 then - Z.shiftr (- m) 1074 else Z.shiftr m 1074)
  | FNegZero => Some 0
  | _ => None
  end.

(* ---------- cells ---------- *)
(* time.Time is carried as its civil fields in its own location:
   [year; month; day; hour; min; sec; nsec; zone offset seconds] *)
Inductive cell :=
| CNil
| CI (k : ikind) (z : Z)
| CF (k : fkind) (x : fl)
| CS (s : str)
| CB (b : bool)
| CT (t : list Z).

Fixpoint zlist_eqb (a b : list Z) : bool :=
  match a, b with
  | [], [] => true
  | x :: a', y :: b' => Z.eqb x y && zlist_eqb a' b'
  | _, _ => false
  end.

(* Go's interface ==: same dynamic type and equal value (NaN <> NaN, 0 == -0) *)
Definition cell_eqb (a b : cell) : bool :=
  match a, b with
  | CNil, CNil => true
  | CI k x, CI k' y => ikind_eqb k k' && Z.eqb x y
  | CF k x, CF k' y => fkind_eqb k k' && fl_eq x y
  | CS x, CS y => str_eqb x y
  | CB x, CB y => Bool.eqb x y
  | CT x, CT y => zlist_eqb x y
  | _, _ => false
  end.
(* structural identity of two observed cells *)
Definition cell_same (a b : cell) : bool :=
  match a, b with
  | CNil, CNil => true
  | CI k x, CI k' y => ikind_eqb k k' && Z.eqb x y
  | CF k x, CF k' y => fkind_eqb k k' && fl_same x y
  | CS x, CS y => str_eqb x y
  | CB x, CB y => Bool.eqb x y
  | CT x, CT y => zlist_eqb x y
  | _, _ => false
  end.
Definition is_nil (c : cell) : bool := match c with CNil => true | _ => false end.

(* ---------- list utilities ---------- *)
Fixpoint list_eqb {A} (eqb : A -> A -> bool) (a b : list A) : bool :=
  match a, b with
  | [], [] => true
  | x :: a', y :: b' => eqb x y && list_eqb eqb a' b'
  | _, _ => false
  end.
Definition cells_same := list_eqb cell_same.

Fixpoint nth_opt {A} (l : list A) (i : nat) : option A :=
  match l, i with
  | [], _ => None
  | x :: _, O => Some x
  | _ :: t, S k => nth_opt t k
  end.

Fixpoint set_nth {A} (l : list A) (i : nat) (v : A) : list A :=
  match l, i with
  | [], _ => []
  | _ :: t, O => v :: t
  | h :: t, S k => h :: set_nth t k v
  end.

Fixpoint remove_nth {A} (l : list A) (i : nat) : list A :=
  match l, i with
  | [], _ => []
  | _ :: t, O => t
  | h :: t, S k => h :: remove_nth t k
  end.

Definition option_map2 {A B C} (f : A -> B -> C) (a : option A) (b : option B) : option C :=
  match a, b with Some x, Some y => Some (f x y) | _, _ => None end.

Fixpoint all_some {A} (l : list (option A)) : option (list A) :=
  match l with
  | [] => Some []
  | None :: _ => None
  | Some x :: t => match all_some t with Some r => Some (x :: r) | None => None end
  end.

(* decimal rendering of an integer, as Go's %d / %v *)
Fixpoint dec_pos_fuel (fuel : nat) (n : Z) (acc : str) : str :=
  match fuel with
  | O => acc
  | S f => let d := Z.to_N (n mod 10) in
           let acc' := (48 + d)%N :: acc in
           if Z.ltb n 10 then acc' else dec_pos_fuel f (n / 10) acc'
  end.
Definition dec_Z (n : Z) : str :=
  if Z.ltb n 0 then 45%N :: dec_pos_fuel (S (Z.to_nat (Z.log2 (- n)))) (- n) []
  else dec_pos_fuel (S (Z.to_nat (Z.log2 n))) n [].

(* two's-complement wrap of Go int (64 bit) arithmetic *)
Definition two63 : Z := 2 ^ 63.
Definition two64 : Z := 2 ^ 64.
Definition wrap64 (z : Z) : Z := (z + two63) mod two64 - two63.

(* ---------- compact literals for long, regular cell lists (used only by generated case files) ---------- *)
Definition rep {A} (n : Z) (x : A) : list A := repeat x (Z.to_nat n).
Fixpoint iota_nat (k : ikind) (start step : Z) (n : nat) : list cell :=
  match n with
  | O => []
  | S m => CI k start :: iota_nat k (start + step) step m
  end.
Definition iota (k : ikind) (start step n : Z) : list cell := iota_nat k start step (Z.to_nat n).
